(* Property C13 -- theorems only.  Each is closed by `exact <lemma>` and followed by Print Assumptions.
   The definitions they talk about (Gen_*.v) are regenerated from /repo's headers on every run. *)
From Coq Require Import ZArith List.
From MomoCommon Require Import GenPrelude.
From C13 Require Gen_Open2N2_m1 Gen_Open2N2_m2 Gen_Open2N2_nf SameCode.
From C13 Require Gen_Open2N2 Gen_OpenN1 Gen_Open8 Gen_Open2N2_ops Gen_OpenN1_ops Gen_HSAdd Gen_BucketBase Open2N2_Proofs OpenN1_Proofs ProbeSeq OpenTable BucketOps BucketFrame HSAddRefine OpenInstances.
Import ListNotations.
Local Open Scope Z_scope.

(* Open2N2<1..3>: after any sequence of UpdateMaxProbe calls (any order, any probes up to 2^63) from a
   reachable encoding, nothing asserts or runs out of fuel, the decoded bound is >= every recorded probe
   and never decreases, and the element-count bits of mState[1] are untouched. *)
Theorem C13_open2n2_bound_covers_all_updates :
  forall (s : Z -> Z) (ps : list Z),
    Open2N2_Proofs.enc_inv s -> Forall (fun p => 0 <= p <= 2 ^ 63) ps ->
    exists s', Open2N2_Proofs.updates s ps = Ok s' /\ Open2N2_Proofs.enc_inv s' /\
      Gen_Open2N2.pvGetMaxProbe s <= Gen_Open2N2.pvGetMaxProbe s' /\
      Forall (fun p => p <= Gen_Open2N2.pvGetMaxProbe s') ps /\
      Gen_Open2N2.pvGetCount s' = Gen_Open2N2.pvGetCount s.
Proof. exact Open2N2_Proofs.updates_cover. Qed.
Print Assumptions C13_open2n2_bound_covers_all_updates.

Theorem C13_open2n2_empty_state_reachable : Open2N2_Proofs.enc_inv (fun _ => 0).
Proof. exact Open2N2_Proofs.enc_inv_empty. Qed.
Print Assumptions C13_open2n2_empty_state_reachable.

(* OpenN1<maxCount> / Open8 (= OpenN1<7>): for every maxCount, every table size 2^L (L <= 63) and every
   sequence of probes below the bucket count, GetMaxProbe(L) of the final state is >= every recorded
   probe (including the lossy "infinite" encoding), previously covered probes stay covered, and no other
   byte of mData changes. *)
Theorem C13_openn1_bound_covers_all_updates :
  forall (maxCount : Z) (s : Z -> Z) (ps : list Z) (L : Z),
    OpenN1_Proofs.enc_inv maxCount s -> 0 <= L <= 63 -> Forall (fun p => 0 <= p < 2 ^ L) ps ->
    exists s', OpenN1_Proofs.updates maxCount s ps = Ok s' /\ OpenN1_Proofs.enc_inv maxCount s' /\
      (forall q, q < 2 ^ L -> q <= Gen_OpenN1.GetMaxProbe maxCount s L -> q <= Gen_OpenN1.GetMaxProbe maxCount s' L) /\
      Forall (fun p => p <= Gen_OpenN1.GetMaxProbe maxCount s' L) ps /\
      (forall i, i <> maxCount -> s' i = s i).
Proof. exact OpenN1_Proofs.updates_cover. Qed.
Print Assumptions C13_openn1_bound_covers_all_updates.

(* triangular probing: for EVERY table size 2^n (n <= 63) and every start bucket the sequence
   index_p = GetNextBucketIndex(index_{p-1}, _, 2^n, p) reaches every bucket within 2^n probes, i.e.
   before HashSet::pvAddNogrow reports "Hash table is full". *)
Theorem C13_open2n2_probe_sequence_complete :
  forall n start b, 0 <= n <= 63 -> 0 <= start < 2 ^ n -> 0 <= b < 2 ^ n ->
    exists p, Z.of_nat p < 2 ^ n /\ ProbeSeq.probe_index Gen_Open2N2.GetNextBucketIndex n start p = b.
Proof. exact ProbeSeq.open2n2_probe_covers. Qed.
Print Assumptions C13_open2n2_probe_sequence_complete.

Theorem C13_open8_probe_sequence_complete :
  forall n start b, 0 <= n <= 63 -> 0 <= start < 2 ^ n -> 0 <= b < 2 ^ n ->
    exists p, Z.of_nat p < 2 ^ n /\ ProbeSeq.probe_index Gen_Open8.GetNextBucketIndex n start p = b.
Proof. exact ProbeSeq.open8_probe_covers. Qed.
Print Assumptions C13_open8_probe_sequence_complete.

Theorem C13_triangular_injective :
  forall n i j, 0 <= n -> 0 <= i -> i < j -> j < 2 ^ n -> (ProbeSeq.tri j - ProbeSeq.tri i) mod 2 ^ n <> 0.
Proof. exact ProbeSeq.tri_inj. Qed.
Print Assumptions C13_triangular_injective.

(* Bucket bookkeeping that shares bytes with the bound (Open2N2<maxCount>, maxCount symbolic in 1..3: the two count bits of mState[1]; OpenN1/Open8: the
   short-hash / state bytes of mData next to the bound byte, for BOTH values of the `reverse` template parameter:
   HashBucketOpenN1 defaults to true, BucketOpen8 is BucketOpenN1<.,7,false>).  For ANY remaining arguments, AddCrt on a bucket that has
   room and Remove on a bucket that has an item keep the encoding reachable, leave the decoded bound EXACTLY as it was,
   and move the element count by exactly one. *)
Theorem C13_open2n2_addcrt_keeps_bound :
  forall mc, 1 <= mc <= 3 -> forall a b, BucketOps.O2.good mc b -> 0 <= BucketOps.O2.cnt b < mc ->
    BucketOps.O2.good mc (BucketOps.O2.addP mc a b) /\ BucketOps.O2.dec (BucketOps.O2.addP mc a b) = BucketOps.O2.dec b /\
    BucketOps.O2.cnt (BucketOps.O2.addP mc a b) = BucketOps.O2.cnt b + 1.
Proof. exact BucketOps.O2.add_spec. Qed.
Print Assumptions C13_open2n2_addcrt_keeps_bound.
Theorem C13_open2n2_remove_keeps_bound :
  forall mc, 1 <= mc <= 3 -> forall a b b', BucketOps.O2.good mc b -> 0 < BucketOps.O2.cnt b <= mc -> BucketOps.O2.remP mc a b = Some b' ->
    BucketOps.O2.good mc b' /\ BucketOps.O2.dec b' = BucketOps.O2.dec b /\ BucketOps.O2.cnt b' = BucketOps.O2.cnt b - 1.
Proof. exact BucketOps.O2.rem_spec. Qed.
Print Assumptions C13_open2n2_remove_keeps_bound.
Theorem C13_openn1_addcrt_keeps_bound :
  forall rv mc, 1 <= mc <= 7 -> forall a d, BucketOps.N1.good rv mc d -> 0 <= BucketOps.N1.cnt rv mc d < mc ->
    BucketOps.N1.good rv mc (BucketOps.N1.addP rv mc a d) /\
    (forall L, Gen_OpenN1.GetMaxProbe mc (BucketOps.N1.addP rv mc a d) L = Gen_OpenN1.GetMaxProbe mc d L) /\
    BucketOps.N1.cnt rv mc (BucketOps.N1.addP rv mc a d) = BucketOps.N1.cnt rv mc d + 1.
Proof. exact BucketOps.N1.add_spec. Qed.
Print Assumptions C13_openn1_addcrt_keeps_bound.
Theorem C13_openn1_remove_keeps_bound :
  forall rv mc, 1 <= mc <= 7 -> forall a d d', BucketOps.N1.good rv mc d -> 0 < BucketOps.N1.cnt rv mc d <= mc ->
    BucketOps.N1.remP rv mc a d = Some d' ->
    BucketOps.N1.good rv mc d' /\ (forall L, Gen_OpenN1.GetMaxProbe mc d' L = Gen_OpenN1.GetMaxProbe mc d L) /\
    BucketOps.N1.cnt rv mc d' = BucketOps.N1.cnt rv mc d - 1.
Proof. exact BucketOps.N1.rem_spec. Qed.
Print Assumptions C13_openn1_remove_keeps_bound.
(* IsFull -- the room test of HashSet::pvAddNogrow -- is true exactly when the count bits say maxCount *)
Theorem C13_open2n2_isfull_iff_count_is_max :
  forall mc, 1 <= mc <= 3 -> forall b, BucketOps.O2.good mc b -> 0 <= BucketOps.O2.cnt b <= mc ->
    (BucketOps.O2.full b = true <-> BucketOps.O2.cnt b = mc).
Proof. exact BucketOps.O2.full_iff. Qed.
Print Assumptions C13_open2n2_isfull_iff_count_is_max.
Theorem C13_openn1_isfull_iff_count_is_max :
  forall rv mc, 1 <= mc <= 7 -> forall d, BucketOps.N1.good rv mc d ->
    (Gen_OpenN1_ops.IsFull rv mc d = true <-> BucketOps.N1.cnt rv mc d = mc).
Proof. exact BucketOps.N1.full_iff. Qed.
Print Assumptions C13_openn1_isfull_iff_count_is_max.
(* the constructor / Clear (pvSetEmpty) give the state every history starts from: reachable, count 0, bound 0 *)
Theorem C13_open2n2_empty_bucket :
  forall mc, BucketOps.O2.good mc (BucketOps.O2.empty mc) /\ BucketOps.O2.cnt (BucketOps.O2.empty mc) = 0 /\
    BucketOps.O2.dec (BucketOps.O2.empty mc) = 0.
Proof. exact BucketOps.O2.empty_good. Qed.
Print Assumptions C13_open2n2_empty_bucket.
Theorem C13_openn1_empty_bucket :
  forall rv mc, 1 <= mc <= 7 -> forall d,
    BucketOps.N1.good rv mc (Gen_OpenN1_ops.pvSetEmpty mc d) /\ BucketOps.N1.cnt rv mc (Gen_OpenN1_ops.pvSetEmpty mc d) = 0 /\
    (forall L, 0 <= L -> Gen_OpenN1.GetMaxProbe mc (Gen_OpenN1_ops.pvSetEmpty mc d) L = 0).
Proof. exact BucketOps.N1.empty_good. Qed.
Print Assumptions C13_openn1_empty_bucket.

(* Frame conditions of the generated Open2N2 AddCrt / Remove: apart from the count bits in mState[1] they touch exactly
   the short-hash slot that gains / loses the item (Remove refills the vacated slot from the lowest occupied one), so
   every stored item keeps the short hash Bucket::Find compares against and the mantissa byte of the bound is untouched. *)
Theorem C13_open2n2_addcrt_frame :
  forall mc, 1 <= mc <= 3 -> forall hc lbc pr ni b, BucketOps.O2.good mc b -> 0 <= BucketOps.O2.cnt b < mc ->
    let b' := BucketOps.O2.addP mc (hc, lbc, pr, ni) b in
    BucketOps.O2.sh b' (mc - 1 - BucketOps.O2.cnt b) = Gen_Open2N2_ops.pvCalcShortHash (wrapU 64 hc) /\
    (forall i, i <> mc - 1 - BucketOps.O2.cnt b -> BucketOps.O2.sh b' i = BucketOps.O2.sh b i) /\
    BucketOps.O2.ms b' 0 = BucketOps.O2.ms b 0 /\
    (forall i, i <> 1 -> BucketOps.O2.ms b' i = BucketOps.O2.ms b i).
Proof. exact BucketFrame.O2F.add_frame. Qed.
Print Assumptions C13_open2n2_addcrt_frame.
Theorem C13_open2n2_remove_frame :
  forall mc, 1 <= mc <= 3 -> forall idx x1 x2 x3 b b', BucketOps.O2.good mc b -> 0 < BucketOps.O2.cnt b <= mc ->
    BucketOps.O2.remP mc (idx, x1, x2, x3) b = Some b' ->
    mc - BucketOps.O2.cnt b <= idx < mc /\
    (idx <> mc - BucketOps.O2.cnt b -> BucketOps.O2.sh b' idx = BucketOps.O2.sh b (mc - BucketOps.O2.cnt b)) /\
    BucketOps.O2.sh b' (mc - BucketOps.O2.cnt b) = 128 /\
    (forall i, i <> idx -> i <> mc - BucketOps.O2.cnt b -> BucketOps.O2.sh b' i = BucketOps.O2.sh b i) /\
    BucketOps.O2.ms b' 0 = BucketOps.O2.ms b 0 /\
    (forall i, i <> 1 -> BucketOps.O2.ms b' i = BucketOps.O2.ms b i).
Proof. exact BucketFrame.O2F.rem_frame. Qed.
Print Assumptions C13_open2n2_remove_frame.
(* ... hence the multiset of stored short hashes (any weight w with w emptyShortHash = 0, summed over the three slots of
   Open2N2<3>) changes by exactly the added / the removed item's short hash. *)
Theorem C13_open2n2_addcrt_short_hash_multiset :
  forall mc, 1 <= mc <= 3 -> forall w hc lbc pr ni b, mc = 3 -> BucketOps.O2.good mc b -> 0 <= BucketOps.O2.cnt b < mc -> w 128 = 0 ->
    BucketFrame.O2F.wsum w (BucketOps.O2.sh (BucketOps.O2.addP mc (hc, lbc, pr, ni) b)) =
    BucketFrame.O2F.wsum w (BucketOps.O2.sh b) + w (Gen_Open2N2_ops.pvCalcShortHash (wrapU 64 hc)).
Proof. exact BucketFrame.O2F.add_wsum. Qed.
Print Assumptions C13_open2n2_addcrt_short_hash_multiset.
Theorem C13_open2n2_remove_short_hash_multiset :
  forall mc, 1 <= mc <= 3 -> forall w idx x1 x2 x3 b b', mc = 3 -> BucketOps.O2.good mc b -> 0 < BucketOps.O2.cnt b <= mc -> w 128 = 0 ->
    BucketOps.O2.remP mc (idx, x1, x2, x3) b = Some b' ->
    BucketFrame.O2F.wsum w (BucketOps.O2.sh b') = BucketFrame.O2F.wsum w (BucketOps.O2.sh b) - w (BucketOps.O2.sh b idx).
Proof. exact BucketFrame.O2F.rem_wsum. Qed.
Print Assumptions C13_open2n2_remove_short_hash_multiset.
(* ... and for every maxCount in 1..3, summing over the slots below maxCount. *)
Theorem C13_open2n2_addcrt_short_hash_multiset_all_maxcount :
  forall mc, 1 <= mc <= 3 -> forall w hc lbc pr ni b, BucketOps.O2.good mc b -> 0 <= BucketOps.O2.cnt b < mc -> w 128 = 0 ->
    BucketFrame.O2F.wsumN mc w (BucketOps.O2.sh (BucketOps.O2.addP mc (hc, lbc, pr, ni) b)) =
    BucketFrame.O2F.wsumN mc w (BucketOps.O2.sh b) + w (Gen_Open2N2_ops.pvCalcShortHash (wrapU 64 hc)).
Proof. exact BucketFrame.O2F.add_wsumN. Qed.
Print Assumptions C13_open2n2_addcrt_short_hash_multiset_all_maxcount.
Theorem C13_open2n2_remove_short_hash_multiset_all_maxcount :
  forall mc, 1 <= mc <= 3 -> forall w idx x1 x2 x3 b b', BucketOps.O2.good mc b -> 0 < BucketOps.O2.cnt b <= mc -> w 128 = 0 ->
    BucketOps.O2.remP mc (idx, x1, x2, x3) b = Some b' ->
    BucketFrame.O2F.wsumN mc w (BucketOps.O2.sh b') = BucketFrame.O2F.wsumN mc w (BucketOps.O2.sh b) - w (BucketOps.O2.sh b idx).
Proof. exact BucketFrame.O2F.rem_wsumN. Qed.
Print Assumptions C13_open2n2_remove_short_hash_multiset_all_maxcount.
(* OpenN1<maxCount, reverse> / Open8: the state byte shares the slot of the LAST item, so the frame is stated over item
   numbers (item i lives at pos i): AddCrt writes the new short hash at pos count and keeps items 0..count-1; Remove moves
   the short hash of the last item into the vacated position and keeps every other surviving item; bytes outside
   0..maxCount-1 (the bound byte mData[maxCount] among them) are untouched. *)
Theorem C13_openn1_addcrt_frame :
  forall rv mc, 1 <= mc <= 7 -> forall hc x1 x2 ni d, BucketOps.N1.good rv mc d -> 0 <= BucketOps.N1.cnt rv mc d < mc ->
    let d' := BucketOps.N1.addP rv mc (hc, x1, x2, ni) d in
    d' (BucketOps.N1.pos rv mc (BucketOps.N1.cnt rv mc d)) = Gen_OpenN1_ops.ptCalcShortHash (wrapU 64 hc) /\
    (forall i, 0 <= i < BucketOps.N1.cnt rv mc d -> d' (BucketOps.N1.pos rv mc i) = d (BucketOps.N1.pos rv mc i)) /\
    (forall j, j < 0 \/ mc <= j -> d' j = d j).
Proof. exact BucketFrame.N1F.add_frame. Qed.
Print Assumptions C13_openn1_addcrt_frame.
Theorem C13_openn1_remove_frame :
  forall rv mc, 1 <= mc <= 7 -> forall idx0 x1 x2 x3 d d', BucketOps.N1.good rv mc d -> 0 < BucketOps.N1.cnt rv mc d <= mc ->
    BucketOps.N1.remP rv mc (idx0, x1, x2, x3) d = Some d' ->
    let idx := wrapU 64 idx0 in
    0 <= idx < BucketOps.N1.cnt rv mc d /\
    (idx < BucketOps.N1.cnt rv mc d - 1 -> d' (BucketOps.N1.pos rv mc idx) = d (BucketOps.N1.pos rv mc (BucketOps.N1.cnt rv mc d - 1))) /\
    (forall i, 0 <= i < BucketOps.N1.cnt rv mc d - 1 -> i <> idx -> d' (BucketOps.N1.pos rv mc i) = d (BucketOps.N1.pos rv mc i)) /\
    (forall j, j < 0 \/ mc <= j -> d' j = d j).
Proof. exact BucketFrame.N1F.rem_frame. Qed.
Print Assumptions C13_openn1_remove_frame.

(* Table level ("Hence ..." of the property).  OpenTable.v models HashSet::pvAddNogrow / pvFind / Remove for an
   open-addressing table with 2^n buckets, ANY hash function h, the generated probe step, the generated bound
   encoder AND the generated AddCrt / Remove bookkeeping of the bucket class applied to the bucket that gains or
   loses the item (with arbitrary remaining arguments).  For every history of insertions and removals from the
   table of freshly constructed buckets, a key that is present in some bucket is found by the bounded probe loop. *)
Theorem C13_open2n2_present_key_always_found :
  forall mc n h ops b k,
  1 <= mc <= 3 -> 0 <= n <= 63 -> (forall k, 0 <= h k < 2 ^ n) ->
  let s := fold_left (OpenInstances.o2_step mc n h) ops (OpenInstances.o2_empty mc) in
  In k (OpenTable.bk _ s b) -> OpenInstances.o2_find n h s k = true.
Proof. exact OpenInstances.open2n2_present_key_found. Qed.
Print Assumptions C13_open2n2_present_key_always_found.
(* ... the count bits of every bucket equal the number of items it holds (so IsFull / GetBounds stay right) ... *)
Theorem C13_open2n2_bucket_counts_exact :
  forall mc n h ops i,
  1 <= mc <= 3 -> 0 <= n <= 63 -> (forall k, 0 <= h k < 2 ^ n) ->
  let s := fold_left (OpenInstances.o2_step mc n h) ops (OpenInstances.o2_empty mc) in
  BucketOps.O2.cnt (OpenTable.bd _ s i) = Z.of_nat (length (OpenTable.bk _ s i)) /\ (length (OpenTable.bk _ s i) <= Z.to_nat mc)%nat.
Proof. exact OpenInstances.open2n2_counts_exact. Qed.
Print Assumptions C13_open2n2_bucket_counts_exact.
(* ... and an insertion into any reachable table reports "Hash table is full" only when no bucket of the table has
   room; the probing loop of the model tests the generated IsFull, as HashSet::pvAddNogrow does. *)
Theorem C13_open2n2_insert_fails_only_if_all_buckets_full :
  forall mc n h ops k a,
  1 <= mc <= 3 -> 0 <= n <= 63 -> (forall k, 0 <= h k < 2 ^ n) ->
  let s := fold_left (OpenInstances.o2_step mc n h) ops (OpenInstances.o2_empty mc) in
  OpenInstances.o2_add mc n h s k a = None ->
  forall b, 0 <= b < 2 ^ n -> (Z.to_nat mc <= length (OpenTable.bk _ s b))%nat.
Proof. exact OpenInstances.open2n2_full_only_if_all_full. Qed.
Print Assumptions C13_open2n2_insert_fails_only_if_all_buckets_full.

Theorem C13_open8_openn1_present_key_always_found :
  forall rv mc n h ops b k,
  1 <= mc <= 7 -> 0 <= n <= 63 -> (forall k, 0 <= h k < 2 ^ n) ->
  let s := fold_left (OpenInstances.n1_step rv mc n h) ops (OpenInstances.n1_empty mc) in
  In k (OpenTable.bk _ s b) -> OpenInstances.n1_find mc n h s k = true.
Proof. exact OpenInstances.open8_present_key_found. Qed.
Print Assumptions C13_open8_openn1_present_key_always_found.
Theorem C13_open8_openn1_bucket_counts_exact :
  forall rv mc n h ops i,
  1 <= mc <= 7 -> 0 <= n <= 63 -> (forall k, 0 <= h k < 2 ^ n) ->
  let s := fold_left (OpenInstances.n1_step rv mc n h) ops (OpenInstances.n1_empty mc) in
  BucketOps.N1.cnt rv mc (OpenTable.bd _ s i) = Z.of_nat (length (OpenTable.bk _ s i)) /\
  (length (OpenTable.bk _ s i) <= Z.to_nat mc)%nat.
Proof. exact OpenInstances.open8_counts_exact. Qed.
Print Assumptions C13_open8_openn1_bucket_counts_exact.
Theorem C13_open8_openn1_insert_fails_only_if_all_buckets_full :
  forall rv mc n h ops k a,
  1 <= mc <= 7 -> 0 <= n <= 63 -> (forall k, 0 <= h k < 2 ^ n) ->
  let s := fold_left (OpenInstances.n1_step rv mc n h) ops (OpenInstances.n1_empty mc) in
  OpenInstances.n1_add rv mc n h s k a = None ->
  forall b, 0 <= b < 2 ^ n -> (Z.to_nat mc <= length (OpenTable.bk _ s b))%nat.
Proof. exact OpenInstances.open8_full_only_if_all_full. Qed.
Print Assumptions C13_open8_openn1_insert_fails_only_if_all_buckets_full.

(* HashSet::pvAddNogrow<false> regenerated from HashSet.h (Gen_HSAdd: the probing loop with its "Hash table is full" throw, then
   AddCrt on the receiving bucket and UpdateMaxProbe(probe) on the start bucket; buckets are handles, the three bucket calls act
   on an abstract world) IS the model's insertion: instantiated with the model table as the world, the generated IsFull / AddCrt /
   UpdateMaxProbe of the bucket class and the generated GetStartBucketIndex / GetNextBucketIndex, it throws exactly when the
   model's probing finds no room, and otherwise yields the model's table for the real AddCrt arguments (hashCode, logBucketCount,
   probe).  For ANY hash function.  The extracted generated function is also what the model driver runs for every insertion of the
   table correspondence against the real HashSet (corr:table-model-vs-HashSet). *)
Theorem C13_open2n2_generated_addnogrow_is_model_add :
  forall mc n hash s mCount k, 0 <= n <= 63 ->
  OpenInstances.o2_gen_add mc n hash s mCount k =
  match OpenTable.first_free n Gen_Open2N2.GetNextBucketIndex BucketOps.O2.st BucketOps.O2.full s (HSAddRefine.home n hash k) 0 (Z.to_nat (2 ^ n)) with
  | None => Exn
  | Some p => match OpenInstances.o2_add mc n (HSAddRefine.home n hash) s k (OpenInstances.mk_arg (hash k) n (Z.of_nat p)) with
              | Some s' => Ok (0, s', mCount) | None => Stuck end
  end.
Proof. exact OpenInstances.open2n2_generated_addnogrow. Qed.
Print Assumptions C13_open2n2_generated_addnogrow_is_model_add.
Theorem C13_open8_openn1_generated_addnogrow_is_model_add :
  forall rv mc n hash s mCount k, 0 <= n <= 63 ->
  OpenInstances.n1_gen_add rv mc n hash s mCount k =
  match OpenTable.first_free n Gen_Open8.GetNextBucketIndex (Z -> Z) (Gen_OpenN1_ops.IsFull rv mc) s (HSAddRefine.home n hash k) 0 (Z.to_nat (2 ^ n)) with
  | None => Exn
  | Some p => match OpenInstances.n1_add rv mc n (HSAddRefine.home n hash) s k (OpenInstances.mk_arg (hash k) n (Z.of_nat p)) with
              | Some s' => Ok (0, s', mCount) | None => Stuck end
  end.
Proof. exact OpenInstances.open8_generated_addnogrow. Qed.
Print Assumptions C13_open8_openn1_generated_addnogrow_is_model_add.
(* hence the regenerated pvAddNogrow throws "Hash table is full" on a reachable table only when every bucket is full *)
Theorem C13_open2n2_generated_addnogrow_throws_only_if_all_buckets_full :
  forall mc n hash ops mCount k,
  1 <= mc <= 3 -> 0 <= n <= 63 -> (forall k, 0 <= hash k) ->
  let h := HSAddRefine.home n hash in
  let s := fold_left (OpenInstances.o2_step mc n h) ops (OpenInstances.o2_empty mc) in
  OpenInstances.o2_gen_add mc n hash s mCount k = Exn ->
  forall b, 0 <= b < 2 ^ n -> (Z.to_nat mc <= length (OpenTable.bk _ s b))%nat.
Proof. exact OpenInstances.open2n2_generated_addnogrow_full_only_if_all_full. Qed.
Print Assumptions C13_open2n2_generated_addnogrow_throws_only_if_all_buckets_full.

Theorem C13_open8_openn1_generated_addnogrow_throws_only_if_all_buckets_full :
  forall rv mc n hash ops mCount k,
  1 <= mc <= 7 -> 0 <= n <= 63 -> (forall k, 0 <= hash k) ->
  let h := HSAddRefine.home n hash in
  let s := fold_left (OpenInstances.n1_step rv mc n h) ops (OpenInstances.n1_empty mc) in
  OpenInstances.n1_gen_add rv mc n hash s mCount k = Exn ->
  forall b, 0 <= b < 2 ^ n -> (Z.to_nat mc <= length (OpenTable.bk _ s b))%nat.
Proof. exact OpenInstances.open8_generated_addnogrow_full_only_if_all_full. Qed.
Print Assumptions C13_open8_openn1_generated_addnogrow_throws_only_if_all_buckets_full.
(* THE property on the regenerated search loop (HashSet::pvFind(indexCode, buckets, itemPred), Gen_HSFindIn.v, with the
   regenerated GetMaxProbe / WasFull of the bucket): in every table reachable by insertions and removals, the regenerated
   search finds every present key, in a bucket that holds it ... *)
Theorem C13_open2n2_generated_find_finds_every_present_key :
  forall mc n hash ops b k,
  1 <= mc <= 3 -> 0 <= n <= 63 -> (forall k, 0 <= hash k) ->
  let h := HSAddRefine.home n hash in
  let s := fold_left (OpenInstances.o2_step mc n h) ops (OpenInstances.o2_empty mc) in
  In k (OpenTable.bk _ s b) -> exists ic, OpenInstances.o2_gen_find n hash s k = Ok (1, ic) /\ In k (OpenTable.bk _ s ic).
Proof. exact OpenInstances.open2n2_generated_find_finds_present. Qed.
Print Assumptions C13_open2n2_generated_find_finds_every_present_key.
Theorem C13_open8_openn1_generated_find_finds_every_present_key :
  forall rv mc n hash ops b k,
  1 <= mc <= 7 -> 0 <= n <= 63 -> (forall k, 0 <= hash k) ->
  let h := HSAddRefine.home n hash in
  let s := fold_left (OpenInstances.n1_step rv mc n h) ops (OpenInstances.n1_empty mc) in
  In k (OpenTable.bk _ s b) -> exists ic, OpenInstances.n1_gen_find mc n hash s k = Ok (1, ic) /\ In k (OpenTable.bk _ s ic).
Proof. exact OpenInstances.open8_generated_find_finds_present. Qed.
Print Assumptions C13_open8_openn1_generated_find_finds_every_present_key.
(* ... and reports a key that is in no bucket as absent (null iterator, the position carries the hash code) *)
Theorem C13_open2n2_generated_find_reports_absent_key_absent :
  forall mc n hash ops k,
  1 <= mc <= 3 -> 0 <= n <= 63 ->
  let h := HSAddRefine.home n hash in
  let s := fold_left (OpenInstances.o2_step mc n h) ops (OpenInstances.o2_empty mc) in
  (forall b, ~ In k (OpenTable.bk _ s b)) -> OpenInstances.o2_gen_find n hash s k = Ok (0, hash k).
Proof. exact OpenInstances.open2n2_generated_find_absent. Qed.
Print Assumptions C13_open2n2_generated_find_reports_absent_key_absent.
Theorem C13_open8_openn1_generated_find_reports_absent_key_absent :
  forall rv mc n hash ops k,
  1 <= mc <= 7 -> 0 <= n <= 63 ->
  let h := HSAddRefine.home n hash in
  let s := fold_left (OpenInstances.n1_step rv mc n h) ops (OpenInstances.n1_empty mc) in
  (forall b, ~ In k (OpenTable.bk _ s b)) -> OpenInstances.n1_gen_find mc n hash s k = Ok (0, hash k).
Proof. exact OpenInstances.open8_generated_find_absent. Qed.
Print Assumptions C13_open8_openn1_generated_find_reports_absent_key_absent.
(* on ANY table (no reachability): the regenerated search gives the verdict of the model's search over home, probe 1 ..
   probe GetMaxProbe(home), and a reported bucket really holds the key *)
Theorem C13_open2n2_generated_find_is_model_find :
  forall n hash s k r ic,
  0 <= n <= 63 -> 0 <= BucketOps.O2.dec (OpenTable.bd _ s (HSFindRefine.home n hash k)) < 2 ^ 64 - 1 ->
  OpenInstances.o2_gen_find n hash s k = Ok (r, ic) ->
  (r <> 0 <-> OpenInstances.o2_find n (HSFindRefine.home n hash) s k = true) /\ (r <> 0 -> In k (OpenTable.bk _ s ic)).
Proof. exact OpenInstances.open2n2_generated_find_is_model. Qed.
Print Assumptions C13_open2n2_generated_find_is_model_find.

Theorem C13_open8_openn1_generated_find_is_model_find :
  forall mc n hash s k r ic,
  0 <= n <= 63 -> 0 <= OpenInstances.n1_dec mc n (OpenTable.bd _ s (HSFindRefine.home n hash k)) < 2 ^ 64 - 1 ->
  OpenInstances.n1_gen_find mc n hash s k = Ok (r, ic) ->
  (r <> 0 <-> OpenInstances.n1_find mc n (HSFindRefine.home n hash) s k = true) /\ (r <> 0 -> In k (OpenTable.bk _ s ic)).
Proof. exact OpenInstances.open8_generated_find_is_model. Qed.
Print Assumptions C13_open8_openn1_generated_find_is_model_find.

(* The encoder and probe-step code regenerated from BucketOpen2N2<.,1,true>, <.,2,true> and <.,3,false> is
   syntactically the code the theorems above are about (<.,3,true>): they hold for Open2N2<1..3>, both variants. *)
Theorem C13_open2n2_all_instantiations_same_code :
  (Gen_Open2N2_m1.UpdateMaxProbe = Gen_Open2N2.UpdateMaxProbe /\ Gen_Open2N2_m1.pvGetMaxProbe = Gen_Open2N2.pvGetMaxProbe /\
   Gen_Open2N2_m1.pvGetCount = Gen_Open2N2.pvGetCount /\ Gen_Open2N2_m1.GetNextBucketIndex = Gen_Open2N2.GetNextBucketIndex) /\
  (Gen_Open2N2_m2.UpdateMaxProbe = Gen_Open2N2.UpdateMaxProbe /\ Gen_Open2N2_m2.pvGetMaxProbe = Gen_Open2N2.pvGetMaxProbe /\
   Gen_Open2N2_m2.pvGetCount = Gen_Open2N2.pvGetCount /\ Gen_Open2N2_m2.GetNextBucketIndex = Gen_Open2N2.GetNextBucketIndex) /\
  (Gen_Open2N2_nf.UpdateMaxProbe = Gen_Open2N2.UpdateMaxProbe /\ Gen_Open2N2_nf.pvGetMaxProbe = Gen_Open2N2.pvGetMaxProbe /\
   Gen_Open2N2_nf.pvGetCount = Gen_Open2N2.pvGetCount /\ Gen_Open2N2_nf.GetNextBucketIndex = Gen_Open2N2.GetNextBucketIndex).
Proof. exact SameCode.same_all. Qed.
Print Assumptions C13_open2n2_all_instantiations_same_code.
(* ... and the module that additionally translates AddCrt / Remove / pvSetEmpty carries the same encoder code. *)
Theorem C13_ops_module_same_encoder_code :
  (forall m s h p, Gen_Open2N2_ops.UpdateMaxProbe m s h p = Gen_Open2N2.UpdateMaxProbe m p) /\
  (forall m s h, Gen_Open2N2_ops.pvGetMaxProbe m s h = Gen_Open2N2.pvGetMaxProbe m) /\
  (forall m s h, Gen_Open2N2_ops.pvGetCount m s h = Gen_Open2N2.pvGetCount m) /\
  (forall mc d, Gen_OpenN1_ops.pvGetCount true mc d = Gen_OpenN1.pvGetCount mc d).
Proof. exact SameCode.same_ops. Qed.
Print Assumptions C13_ops_module_same_encoder_code.
