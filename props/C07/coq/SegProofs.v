(* C07 / L1: MultiHash::pvAdd and MultiHash::FilterRaws ESTABLISH and preserve the sorted-segment invariant
   (vals_ok) that AcceptRemove needs, so the invariant holds for every history of a value array.
   The link between pvAdd's test (rawCount % 64 == 0 and GetSegItemIndexes(rawCount).itemIndex == 0, previous
   segment size GetItemCount(segIndex - 1)) and the segment boundaries walked by AcceptRemove
   (64, += GetItemCount(segIndex + 1)) is a finite fact about the GENERATED functions of Gen_Segments.v,
   checked by vm_compute for every array shorter than max_vals = 262144 rows per key. *)
From Coq Require Import List ZArith Lia Bool Arith PeanoNat Permutation.
From MomoCommon Require Import GenPrelude.
From C07 Require Import TableSpec TableProofs MultiHash MultiHashProofs.
From C07 Require Gen_Segments.
Import ListNotations.

Definition max_vals : nat := 64 * 4096.

(* ================================================================ insertion sort *)

Lemma ins_perm x l : Permutation (ins x l) (x :: l).
Proof.
  induction l as [|y l IH]; simpl; [reflexivity|]. destruct (Z.leb x y); [reflexivity|].
  etransitivity; [apply perm_skip; exact IH|apply perm_swap].
Qed.

Lemma isort_perm l : Permutation (isort l) l.
Proof. induction l as [|x l IH]; simpl; [reflexivity|]. etransitivity; [apply ins_perm|apply perm_skip; exact IH]. Qed.

Lemma ins_sorted x l : sorted l -> sorted (ins x l).
Proof.
  induction l as [|y l IH]; simpl; intros H; [split; [intros ? []|exact I]|].
  destruct H as [H1 H2]. destruct (Z.leb_spec x y).
  - simpl. split; [|split; assumption]. intros z [<-|Hz]; [assumption|]. specialize (H1 z Hz). lia.
  - simpl. split; [|apply IH; exact H2]. intros z Hz. apply (Permutation_in _ (ins_perm x l)) in Hz.
    destruct Hz as [<-|Hz]; [lia|apply H1; exact Hz].
Qed.

Lemma isort_sorted l : sorted (isort l).
Proof. induction l as [|x l IH]; simpl; [exact I|]. apply ins_sorted. exact IH. Qed.

Lemma isort_length l : length (isort l) = length l.
Proof. apply Permutation_length, isort_perm. Qed.

(* ================================================================ structural lemmas, any size function *)

Section Generic.
  Variable ss : nat -> nat.

  (* spanr s sz j = sz + ss (s+1) + ... + ss (s+j): the j-th boundary seen from segment s of size sz *)
  Fixpoint spanr (s sz j : nat) : nat :=
    match j with O => sz | S j' => sz + spanr (S s) (ss (S s)) j' end.
  Fixpoint lastsz (s sz j : nat) : nat :=
    match j with O => sz | S j' => lastsz (S s) (ss (S s)) j' end.

  Definition sortlast (x : nat) (l : list Z) : list Z :=
    firstn (length l - x) l ++ isort (skipn (length l - x) l).

  Lemma spanr_add s a b j : spanr s (a + b) j = a + spanr s b j.
  Proof. destruct j; simpl; lia. Qed.

  Lemma lastsz_le s sz j : lastsz s sz j <= spanr s sz j.
  Proof. revert s sz; induction j as [|j IH]; intros s sz; simpl; [lia|]. specialize (IH (S s) (ss (S s))). lia. Qed.

  Lemma lastsz_S s sz j : lastsz s sz (S j) = ss (s + S j).
  Proof.
    revert s sz; induction j as [|j IH]; intros s sz; [simpl; f_equal; lia|].
    change (lastsz s sz (S (S j))) with (lastsz (S s) (ss (S s)) (S j)). rewrite IH. f_equal. lia.
  Qed.

  Lemma spanr_mono s sz j j' : j <= j' -> spanr s sz j <= spanr s sz j'.
  Proof.
    revert s sz j'; induction j as [|j IH]; intros s sz j' H.
    - destruct j'; simpl; lia.
    - destruct j'; [lia|]. simpl. specialize (IH (S s) (ss (S s)) j' ltac:(lia)). lia.
  Qed.

  Lemma sortlast_length x l : length (sortlast x l) = length l.
  Proof. unfold sortlast. rewrite app_length, isort_length, <- app_length, firstn_skipn. reflexivity. Qed.

  Lemma firstn_add {A} a b (l : list A) : firstn (a + b) l = firstn a l ++ firstn b (skipn a l).
  Proof.
    revert l; induction a as [|a IH]; intros l; simpl; [reflexivity|]. destruct l; [destruct b; reflexivity|].
    simpl. f_equal. apply IH.
  Qed.

  Lemma sortlast_split x sz l : sz + x <= length l ->
    sortlast x l = firstn sz l ++ sortlast x (skipn sz l).
  Proof.
    intros H. unfold sortlast. rewrite skipn_length.
    replace (length l - x) with (sz + (length l - sz - x)) by lia.
    rewrite firstn_add, TableProofs.skipn_add. rewrite <- app_assoc. reflexivity.
  Qed.

  Lemma firstn_app_exact {A} (l1 l2 : list A) : firstn (length l1) (l1 ++ l2) = l1.
  Proof. rewrite firstn_app, Nat.sub_diag, firstn_all. simpl. apply app_nil_r. Qed.
  Lemma skipn_app_exact {A} (l1 l2 : list A) : skipn (length l1) (l1 ++ l2) = l2.
  Proof. rewrite skipn_app, Nat.sub_diag, skipn_all. reflexivity. Qed.

  (* the array length is the j-th boundary: sorting the segment just completed and appending keeps the invariant *)
  Lemma add_at_boundary raw j : forall s sz l,
    segs_gen ss s sz l -> length l = spanr s sz j -> 0 < sz -> (forall i, i <= j + 1 -> 0 < ss (s + i)) ->
    segs_gen ss s sz (sortlast (lastsz s sz j) l ++ [raw]).
  Proof.
    induction j as [|j IH]; intros s sz l Hok Hlen Hsz Hpos.
    - simpl in *. unfold sortlast. rewrite Hlen, Nat.sub_diag. simpl.
      apply so_seg; [exact Hsz|rewrite app_length, isort_length; simpl; lia| |].
      + rewrite <- Hlen, <- (isort_length l). rewrite firstn_app_exact. apply isort_sorted.
      + rewrite <- Hlen, <- (isort_length l). rewrite skipn_app_exact. apply so_tail. simpl.
        specialize (Hpos 1 ltac:(lia)). replace (s + 1) with (S s) in Hpos by lia. lia.
    - simpl in Hlen.
      assert (Hp1 : 0 < ss (S s)) by (specialize (Hpos 1 ltac:(lia)); replace (s + 1) with (S s) in Hpos by lia; exact Hpos).
      assert (Hsp : 0 < spanr (S s) (ss (S s)) j) by (destruct j; simpl; lia).
      inversion Hok as [? ? ? Hle|? ? ? _ Hlt Hs Hr]; subst; [lia|].
      change (lastsz s sz (S j)) with (lastsz (S s) (ss (S s)) j).
      pose proof (lastsz_le (S s) (ss (S s)) j) as Hlast.
      assert (Hfl : length (firstn sz l) = sz) by (rewrite firstn_length; lia).
      rewrite (sortlast_split _ sz l) by lia. rewrite <- app_assoc.
      specialize (IH (S s) (ss (S s)) (skipn sz l) Hr ltac:(rewrite skipn_length; lia) Hp1
                     ltac:(intros i Hi; specialize (Hpos (S i) ltac:(lia)); replace (S s + i) with (s + S i) by lia; exact Hpos)).
      apply so_seg; [exact Hsz| | |].
      + rewrite !app_length, sortlast_length, Hfl, skipn_length. simpl. lia.
      + rewrite <- Hfl at 1. rewrite firstn_app_exact. exact Hs.
      + rewrite <- Hfl at 1. rewrite skipn_app_exact. exact IH.
  Qed.

  (* the array length is not a boundary: appending keeps the invariant *)
  Lemma add_off_boundary raw s sz l :
    segs_gen ss s sz l -> (forall j, length l <> spanr s sz j) -> segs_gen ss s sz (l ++ [raw]).
  Proof.
    induction 1 as [s sz l Hle|s sz l Hp Hlt Hs Hr IH]; intros Hnb.
    - apply so_tail. rewrite app_length. simpl. specialize (Hnb 0). simpl in Hnb. lia.
    - apply so_seg; [exact Hp|rewrite app_length; simpl; lia| |].
      + rewrite firstn_app. replace (sz - length l) with 0 by lia. simpl. rewrite app_nil_r. exact Hs.
      + rewrite skipn_app. replace (sz - length l) with 0 by lia. simpl. apply IH.
        intros j E. apply (Hnb (S j)). simpl. rewrite skipn_length in E. lia.
  Qed.

End Generic.

Lemma resort_vals_ok : forall fuel seg rest sz,
  length rest < fuel -> 0 < sz ->
  (forall i, seg < i -> i <= seg + length rest -> 0 < seg_size i) ->
  segs_ok seg sz (resort fuel seg rest sz) /\ Permutation (resort fuel seg rest sz) rest.
Proof.
  unfold segs_ok. induction fuel as [|f IH]; intros seg rest sz Hf Hsz Hpos; [lia|]. simpl.
  destruct (Nat.ltb_spec sz (length rest)) as [Hlt|Hge]; [|split; [apply so_tail; exact Hge|reflexivity]].
  assert (Hl1 : length (isort (firstn sz rest)) = sz) by (rewrite isort_length, firstn_length; lia).
  destruct (IH (S seg) (skipn sz rest) (seg_size (S seg))) as [Hok Hperm].
  - rewrite skipn_length. lia.
  - apply Hpos; lia.
  - intros i H1 H2. rewrite skipn_length in H2. apply Hpos; lia.
  - split.
    + apply so_seg; [exact Hsz| | |].
      * rewrite app_length, Hl1. pose proof (Permutation_length Hperm) as P. rewrite P, skipn_length. lia.
      * rewrite <- Hl1 at 1. rewrite firstn_app_exact. apply isort_sorted.
      * rewrite <- Hl1 at 1. rewrite skipn_app_exact. exact Hok.
    + etransitivity; [apply Permutation_app; [apply isort_perm|exact Hperm]|]. rewrite firstn_skipn. reflexivity.
Qed.

(* ================================================================ the finite facts about the generated functions *)

Local Open Scope Z_scope.

Fixpoint bZl (k : nat) (acc : Z) (seg : Z) : list Z :=
  match k with O => [] | S k' => acc :: bZl k' (acc + Gen_Segments.GetItemCount (seg + 1)) (seg + 1) end.
Fixpoint find_idx_from (z : Z) (l : list Z) (i : nat) : option nat :=
  match l with [] => None | x :: l' => if Z.eqb x z then Some i else find_idx_from z l' (S i) end.
Definition bndl : list Z := bZl 200 64 0.
Definition chk (m : nat) : bool :=
  let z := 64 * Z.of_nat m in
  let p := Gen_Segments.GetSegItemIndexes z in
  match find_idx_from z bndl 0 with
  | Some j => Z.eqb (snd p) 0 && Z.eqb (fst p) (Z.of_nat j + 1)
  | None => negb (Z.eqb (snd p) 0)
  end.
Definition chk_size (k : nat) : bool :=
  let c := Gen_Segments.GetItemCount (Z.of_nat k) in Z.ltb 0 c && Z.eqb c (64 * (c / 64)).

Lemma chk_all : forallb chk (seq 1 4095) = true.
Proof. Timeout 600 vm_compute. reflexivity. Qed.
Lemma chk_sizes : forallb chk_size (seq 0 4098) = true.
Proof. Timeout 600 vm_compute. reflexivity. Qed.
Lemma bndl_top : Z.of_nat max_vals <= nth 199 bndl 0.
Proof. vm_compute. discriminate. Qed.
Lemma seg_size_0 : seg_size 0 = 64%nat.
Proof. vm_compute. reflexivity. Qed.

Lemma GetItemCount_nonneg x : 0 <= Gen_Segments.GetItemCount x.
Proof. unfold Gen_Segments.GetItemCount. apply wrapU_range. lia. Qed.

Lemma seg_size_Z k : Z.of_nat (seg_size k) = Gen_Segments.GetItemCount (Z.of_nat k).
Proof. unfold seg_size. apply Z2Nat.id. apply GetItemCount_nonneg. Qed.

Lemma nth_bZl j : forall k s sz, (j < k)%nat ->
  nth j (bZl k (Z.of_nat sz) (Z.of_nat s)) 0 = Z.of_nat (spanr seg_size s sz j).
Proof.
  induction j as [|j IH]; intros k s sz H; destruct k; try lia; simpl; [reflexivity|].
  replace (Z.of_nat s + 1) with (Z.of_nat (S s)) by lia. rewrite <- seg_size_Z, <- Nat2Z.inj_add.
  rewrite IH by lia. rewrite spanr_add. reflexivity.
Qed.

Lemma bndl_nth j : (j < 200)%nat -> nth j bndl 0 = Z.of_nat (spanr seg_size 0 64 j).
Proof. intros H. apply (nth_bZl j 200 0%nat 64%nat H). Qed.

Lemma bZl_length k acc seg : length (bZl k acc seg) = k.
Proof. revert acc seg; induction k; intros; simpl; auto. Qed.

Lemma find_idx_some z l i j : find_idx_from z l i = Some j -> (i <= j)%nat /\ (j - i < length l)%nat /\ nth (j - i) l 0 = z.
Proof.
  revert i; induction l as [|x l IH]; intros i H; simpl in H; [discriminate|].
  destruct (Z.eqb_spec x z).
  - inversion H; subst. rewrite Nat.sub_diag. simpl. repeat split; lia.
  - apply IH in H as (H1 & H2 & H3). replace (j - i)%nat with (S (j - S i)) by lia. simpl. repeat split; try lia; try exact H3.
Qed.

Lemma find_idx_none z l i : find_idx_from z l i = None -> ~ In z l.
Proof.
  revert i; induction l as [|x l IH]; intros i H; simpl in *; [tauto|].
  destruct (Z.eqb_spec x z); [discriminate|]. intros [E|Hin]; [contradiction|]. eapply IH; eassumption.
Qed.

Lemma sii_Z n : seg_item_indexes n =
  (Z.to_nat (fst (Gen_Segments.GetSegItemIndexes (Z.of_nat n))), Z.to_nat (snd (Gen_Segments.GetSegItemIndexes (Z.of_nat n)))).
Proof. reflexivity. Qed.

Lemma GSI_snd_nonneg z : 0 <= snd (Gen_Segments.GetSegItemIndexes z).
Proof. unfold Gen_Segments.GetSegItemIndexes. cbv zeta. cbn [snd]. apply wrapU_range. lia. Qed.

Global Opaque Gen_Segments.GetItemCount Gen_Segments.GetSegItemIndexes.

Lemma size_facts k : (k <= 4097)%nat -> (64 <= seg_size k)%nat /\ exists q, seg_size k = (64 * q)%nat.
Proof.
  intros Hk. pose proof chk_sizes as H. rewrite forallb_forall in H.
  specialize (H k ltac:(apply in_seq; lia)). unfold chk_size in H. apply andb_true_iff in H as [H1 H2].
  apply Z.ltb_lt in H1. apply Z.eqb_eq in H2. rewrite <- seg_size_Z in H1, H2.
  assert (Hq : 0 <= Z.of_nat (seg_size k) / 64) by (apply Z.div_pos; lia).
  assert (E : seg_size k = (64 * Z.to_nat (Z.of_nat (seg_size k) / 64))%nat).
  { apply Nat2Z.inj. rewrite Nat2Z.inj_mul, Z2Nat.id by exact Hq. exact H2. }
  split; [|eexists; exact E]. destruct (Z.to_nat (Z.of_nat (seg_size k) / 64)); lia.
Qed.

Local Close Scope Z_scope.

(* a positive multiple of 64 below max_vals: pvAdd's test is true exactly at the boundaries, and then names the
   segment that has just been completed *)
Lemma boundary_test n :
  0 < n -> n < max_vals -> n mod 64 = 0 ->
  (snd (seg_item_indexes n) = 0 ->
     exists j, j < 200 /\ n = spanr seg_size 0 64 j /\ fst (seg_item_indexes n) = S j) /\
  (forall j, n = spanr seg_size 0 64 j -> snd (seg_item_indexes n) = 0).
Proof.
  intros Hpos Hmax Hmod.
  apply Nat.mod_divides in Hmod as [m Hm]; [|lia].
  assert (Hmr : 1 <= m < 4096) by (unfold max_vals in Hmax; lia).
  pose proof chk_all as H. rewrite forallb_forall in H. specialize (H m ltac:(apply in_seq; lia)).
  unfold chk in H. replace (64 * Z.of_nat m)%Z with (Z.of_nat n) in H by (subst n; lia).
  rewrite sii_Z. simpl fst. simpl snd.
  pose proof (GSI_snd_nonneg (Z.of_nat n)) as Hnn.
  destruct (find_idx_from (Z.of_nat n) bndl 0) as [j|] eqn:Ef.
  - apply find_idx_some in Ef as (_ & Hj & Hn). rewrite Nat.sub_0_r in Hj, Hn.
    unfold bndl in Hj. rewrite bZl_length in Hj.
    apply andb_true_iff in H as [H1 H2]. apply Z.eqb_eq in H1, H2.
    rewrite bndl_nth in Hn by exact Hj. apply Nat2Z.inj in Hn.
    split.
    + intros _. exists j. split; [exact Hj|]. split; [symmetry; exact Hn|]. rewrite H2. lia.
    + intros _ _. rewrite H1. reflexivity.
  - apply find_idx_none in Ef. split.
    + intros E. apply negb_true_iff, Z.eqb_neq in H. exfalso. apply H. lia.
    + intros j Ej. exfalso. apply Ef.
      destruct (Nat.lt_ge_cases j 200) as [Hj|Hj].
      * rewrite Ej, <- bndl_nth by exact Hj. apply nth_In. unfold bndl. rewrite bZl_length. exact Hj.
      * pose proof (spanr_mono seg_size 0 64 199 j ltac:(lia)) as Hmono.
        pose proof bndl_top as Htop. rewrite bndl_nth in Htop by lia. lia.
Qed.

Lemma spanr_div64 j : j < 200 -> exists q, spanr seg_size 0 64 j = 64 * q.
Proof.
  assert (G : forall j s sz q0, s + j <= 4097 -> sz = 64 * q0 -> exists q, spanr seg_size s sz j = 64 * q).
  { intros j0; induction j0 as [|j0 IH]; intros s sz q0 Hs Hq; cbn [spanr]; [exists q0; exact Hq|].
    destruct (size_facts (S s) ltac:(lia)) as [_ [q1 Hq1]].
    destruct (IH (S s) (seg_size (S s)) q1 ltac:(lia) Hq1) as [q2 Hq2]. exists (q0 + q2). lia. }
  intros Hj. apply (G j 0 64 1); lia.
Qed.

(* ================================================================ pvAdd *)

(* ---------------------------------------------------------------- the GENERATED decision of pvAdd *)

(* what the translated pvAdd computes, without the 64-bit wraps: they are identities because a segment index at a
   boundary is >= 1 and the completed segment is not longer than the array (finite facts, checked for every
   boundary below max_vals) *)
Local Open Scope Z_scope.
Definition chk3 (m : nat) : bool :=
  let z := 64 * Z.of_nat m in
  let p := Gen_Segments.GetSegItemIndexes z in
  if Z.eqb (snd p) 0
  then Z.leb 1 (fst p) && Z.ltb (fst p) 4096 && Z.leb (Gen_Segments.GetItemCount (fst p - 1)) z
  else true.
Lemma chk3_all : forallb chk3 (seq 1 4095) = true.
Proof. Timeout 600 vm_compute. reflexivity. Qed.

Definition range_Z (z : Z) : Z * Z :=
  if Z.ltb 0 z && Z.eqb (z mod 64) 0 then
    let p := Gen_Segments.GetSegItemIndexes z in
    if Z.eqb (snd p) 0 then (z - Gen_Segments.GetItemCount (fst p - 1), z) else (0, 0)
  else (0, 0).

Lemma pvAdd_range_Z z : 0 <= z < Z.of_nat max_vals -> Gen_MultiHashOps.pvAdd 0 0 z = range_Z z.
Proof.
  intros Hz. unfold Gen_MultiHashOps.pvAdd, range_Z, Gen_MultiHashOps.logInitialSegmentSize.
  replace (wrapU 64 (Z.shiftl 1 6 - 1)) with (Z.ones 6) by reflexivity.
  rewrite Z.land_ones by lia. change (2 ^ 6) with 64. rewrite Z.gtb_ltb.
  destruct (Z.ltb_spec 0 z) as [Hpos|Hpos]; cbn [andb]; [|reflexivity].
  destruct (Z.eqb_spec (z mod 64) 0) as [Hmod|Hmod]; [|reflexivity].
  cbv zeta.
  assert (Hm : exists m, (1 <= m < 4096)%nat /\ z = 64 * Z.of_nat m).
  { exists (Z.to_nat (z / 64)). pose proof (Z.div_mod z 64 ltac:(lia)) as E. rewrite Hmod in E.
    assert (0 < z / 64 < 4096) by (unfold max_vals in Hz; lia). split; [lia|]. rewrite Z2Nat.id by lia. lia. }
  destruct Hm as (m & Hm & Ez).
  pose proof chk3_all as H. rewrite forallb_forall in H. specialize (H m ltac:(apply in_seq; lia)).
  unfold chk3 in H. cbv zeta in H. rewrite <- Ez in H.
  destruct (Gen_Segments.GetSegItemIndexes z) as [si ri]. cbn [fst snd] in *.
  destruct (Z.eqb ri 0); [|reflexivity].
  apply andb_true_iff in H as [H H3]. apply andb_true_iff in H as [H1 H2].
  apply Z.leb_le in H1, H3. apply Z.ltb_lt in H2.
  pose proof (GetItemCount_nonneg (si - 1)) as Hnn.
  rewrite (wrapU_small 64 (si - 1)) by lia.
  rewrite (wrapU_small 64 (z - _)); [reflexivity|]. unfold max_vals in Hz. lia.
Qed.

Local Close Scope Z_scope.

Definition hand_range (n : nat) : nat * nat :=
  if Nat.ltb 0 n && Nat.eqb (n mod 64) 0 then
    let si := seg_item_indexes n in
    if Nat.eqb (snd si) 0 then (n - seg_size (fst si - 1), seg_size (fst si - 1)) else (0, 0)
  else (0, 0).

(* the translated decision = the hand-transcribed decision *)
Lemma sort_range_is_hand n : n < max_vals -> sort_range n = hand_range n.
Proof.
  intros Hn. unfold sort_range. rewrite pvAdd_range_Z by lia. unfold range_Z, hand_range.
  assert (Emod : (Z.of_nat n mod 64 = Z.of_nat (n mod 64))%Z) by (rewrite Nat2Z.inj_mod; reflexivity).
  rewrite Emod.
  destruct (Nat.ltb_spec 0 n) as [Hpos|Hpos]; destruct (Z.ltb_spec 0%Z (Z.of_nat n)); try lia; cbn [andb]; [|reflexivity].
  destruct (Nat.eqb_spec (n mod 64) 0) as [Hmod|Hmod]; destruct (Z.eqb_spec (Z.of_nat (n mod 64)) 0%Z); try lia; [|reflexivity].
  cbv zeta. rewrite sii_Z. cbn [fst snd].
  pose proof (GSI_snd_nonneg (Z.of_nat n)) as Hsn.
  (* the facts about this boundary, again from the finite check *)
  assert (Hm : exists m, (1 <= m < 4096)%nat /\ (Z.of_nat n = 64 * Z.of_nat m)%Z).
  { apply Nat.mod_divides in Hmod as [m Hm]; [|lia]. exists m. unfold max_vals in Hn. split; lia. }
  destruct Hm as (m & Hm & Ez).
  pose proof chk3_all as Hc. rewrite forallb_forall in Hc. specialize (Hc m ltac:(apply in_seq; lia)).
  unfold chk3 in Hc. cbv zeta in Hc. rewrite <- Ez in Hc.
  destruct (Gen_Segments.GetSegItemIndexes (Z.of_nat n)) as [si ri]. cbn [fst snd] in *.
  destruct (Z.eqb_spec ri 0%Z) as [Er|Er]; destruct (Nat.eqb_spec (Z.to_nat ri) 0); try lia; [|reflexivity].
  apply andb_true_iff in Hc as [Hc H3]. apply andb_true_iff in Hc as [H1 H2].
  apply Z.leb_le in H1, H3. apply Z.ltb_lt in H2.
  pose proof (GetItemCount_nonneg (si - 1)%Z) as Hnn.
  assert (Es : seg_size (Z.to_nat si - 1) = Z.to_nat (Gen_Segments.GetItemCount (si - 1)%Z)).
  { unfold seg_size. f_equal. f_equal. lia. }
  rewrite Es. cbn [fst snd]. f_equal; lia.
Qed.

Lemma sort_slice_perm f d vals : Permutation (sort_slice f d vals) vals.
Proof.
  unfold sort_slice. rewrite <- (firstn_skipn f vals) at 4. apply Permutation_app_head.
  rewrite <- (firstn_skipn d (skipn f vals)) at 3. apply Permutation_app_tail. apply isort_perm.
Qed.

Lemma pv_add_perm raw vals : exists vals1, pv_add raw vals = vals1 ++ [raw] /\ Permutation vals1 vals.
Proof. unfold pv_add. eexists; split; [reflexivity|apply sort_slice_perm]. Qed.

(* refinement: pv_add (driven by the generated decision) is the hand transcription of pvAdd *)
Theorem pv_add_is_hand raw vals : length vals < max_vals -> pv_add raw vals = pv_add_hand raw vals.
Proof.
  intros Hlen. unfold pv_add, pv_add_hand. rewrite (sort_range_is_hand _ Hlen). unfold hand_range.
  set (n := length vals) in *.
  destruct (Nat.ltb 0 n && Nat.eqb (n mod 64) 0) eqn:Ec; [|reflexivity].
  cbv zeta. destruct (Nat.eqb (snd (seg_item_indexes n)) 0) eqn:Es; [|reflexivity].
  cbn [fst snd]. unfold sort_slice. f_equal.
  set (sz := seg_size (fst (seg_item_indexes n) - 1)).
  apply andb_true_iff in Ec as [Ec1 Ec2]. apply Nat.ltb_lt in Ec1. apply Nat.eqb_eq in Ec2, Es.
  destruct (boundary_test n Ec1 Hlen Ec2) as [Hfwd _]. destruct (Hfwd Es) as (j & Hj & Hnj & Hf).
  assert (Hsz : sz <= n).
  { unfold sz. rewrite Hf. simpl Nat.sub. rewrite Nat.sub_0_r.
    assert (Hl : seg_size j = lastsz seg_size 0 64 j).
    { destruct j; [simpl; apply seg_size_0|]. rewrite lastsz_S. reflexivity. }
    rewrite Hl, Hnj. apply lastsz_le. }
  assert (Hl : length (skipn (n - sz) vals) = sz) by (rewrite skipn_length; unfold n in *; lia).
  rewrite (firstn_all2 (n := sz) (skipn (n - sz) vals)) by lia.
  rewrite (skipn_all2 (n := sz) (skipn (n - sz) vals)) by lia. rewrite app_nil_r. reflexivity.
Qed.

Theorem pv_add_preserves raw vals :
  vals_ok vals -> length vals < max_vals ->
  vals_ok (pv_add raw vals) /\ Permutation (pv_add raw vals) (raw :: vals).
Proof.
  intros Hok Hlen. split.
  2:{ destruct (pv_add_perm raw vals) as (v1 & -> & Hp).
      etransitivity; [symmetry; apply Permutation_cons_append|]. apply perm_skip. exact Hp. }
  rewrite (pv_add_is_hand raw vals Hlen).
  unfold vals_ok, segs_ok in *. change first_seg with 64 in *. unfold pv_add_hand.
  set (n := length vals) in *.
  destruct (Nat.ltb_spec 0 n) as [Hpos|Hz]; cbn [andb].
  2:{ apply add_off_boundary; [exact Hok|]. intros j E. fold n in E.
      assert (64 <= spanr seg_size 0 64 j) by (pose proof (spanr_mono seg_size 0 64 0 j ltac:(lia)) as M; simpl in M; exact M).
      lia. }
  destruct (Nat.eqb_spec (n mod 64) 0) as [Hmod|Hmod].
  - destruct (boundary_test n Hpos Hlen Hmod) as [Hfwd Hbwd].
    destruct (Nat.eqb_spec (snd (seg_item_indexes n)) 0) as [Hs|Hs].
    + destruct (Hfwd Hs) as (j & Hj & Hn & Hf). rewrite Hf. simpl Nat.sub. rewrite Nat.sub_0_r.
      assert (Hl : seg_size j = lastsz seg_size 0 64 j).
      { destruct j; [simpl; apply seg_size_0|]. rewrite lastsz_S. reflexivity. }
      rewrite Hl. rewrite <- app_assoc.
      change (firstn (n - lastsz seg_size 0 64 j) vals ++ isort (skipn (n - lastsz seg_size 0 64 j) vals) ++ [raw])
        with (firstn (length vals - lastsz seg_size 0 64 j) vals ++ (isort (skipn (length vals - lastsz seg_size 0 64 j) vals) ++ [raw])).
      rewrite app_assoc. apply (add_at_boundary seg_size raw j 0 64 vals Hok Hn ltac:(lia)).
      intros i Hi. simpl. destruct (size_facts i ltac:(lia)) as [H64 _]. lia.
    + apply add_off_boundary; [exact Hok|]. intros j E. apply Hs. apply (Hbwd j). exact E.
  - apply add_off_boundary; [exact Hok|]. intros j E. fold n in E. apply Hmod.
    destruct (Nat.lt_ge_cases j 200) as [Hj|Hj].
    + destruct (spanr_div64 j Hj) as [q Hq]. rewrite E, Hq. rewrite Nat.mul_comm. apply Nat.mod_mul. lia.
    + exfalso. pose proof (spanr_mono seg_size 0 64 199 j ltac:(lia)) as Hmono.
      pose proof bndl_top as Htop. rewrite bndl_nth in Htop by lia. lia.
Qed.

(* ================================================================ FilterRaws *)

Lemma resort_vals_ok64 : forall fuel seg rest sz,
  length rest < fuel -> 64 <= sz ->
  (forall i, seg < i -> 64 * (i - seg) <= length rest -> 64 <= seg_size i) ->
  segs_ok seg sz (resort fuel seg rest sz) /\ Permutation (resort fuel seg rest sz) rest.
Proof.
  unfold segs_ok. induction fuel as [|f IH]; intros seg rest sz Hf Hsz Hpos; [lia|]. cbn [resort].
  destruct (Nat.ltb_spec sz (length rest)) as [Hlt|Hge]; [|split; [apply so_tail; exact Hge|reflexivity]].
  assert (Hl1 : length (isort (firstn sz rest)) = sz) by (rewrite isort_length, firstn_length; lia).
  destruct (IH (S seg) (skipn sz rest) (seg_size (S seg))) as [Hok Hperm].
  - rewrite skipn_length. lia.
  - apply Hpos; lia.
  - intros i H1 H2. rewrite skipn_length in H2. apply Hpos; lia.
  - split.
    + apply so_seg; [lia| | |].
      * rewrite app_length, Hl1. pose proof (Permutation_length Hperm) as P. rewrite P, skipn_length. lia.
      * rewrite <- Hl1 at 1. rewrite firstn_app_exact. apply isort_sorted.
      * rewrite <- Hl1 at 1. rewrite skipn_app_exact. exact Hok.
    + etransitivity; [apply Permutation_app; [apply isort_perm|exact Hperm]|]. rewrite firstn_skipn. reflexivity.
Qed.

Lemma swap_remove_len_le i (l : list Z) : length (swap_remove i l) <= length l.
Proof.
  unfold swap_remove, remove_unordered. destruct (rev l); [simpl; lia|].
  destruct (Nat.eqb (S i) (length l)); rewrite removelast_length; [lia|]. rewrite set_nth_length. lia.
Qed.

Lemma filter_scan_len fuel keep i vals : length (filter_scan fuel keep i vals) <= length vals.
Proof.
  revert i vals; induction fuel as [|f IH]; intros i vals; simpl; [lia|].
  destruct (Nat.ltb i (length vals)); [|lia]. destruct (keep (nth i vals 0%Z)); [apply IH|].
  etransitivity; [apply IH|apply swap_remove_len_le].
Qed.

(* FilterRaws (one key): whatever the array looked like, afterwards its completed segments are sorted *)
Theorem filter_vals_ok keep vals :
  length vals < max_vals ->
  vals_ok (filter_vals keep vals) /\ length (filter_vals keep vals) <= length vals /\
  Permutation (filter_vals keep vals) (filter_scan (S (length vals)) keep 0 vals).
Proof.
  intros Hlen. unfold filter_vals, vals_ok.
  set (v := filter_scan (S (length vals)) keep 0 vals).
  assert (Hv : length v <= length vals) by apply filter_scan_len.
  destruct (resort_vals_ok64 (S (length v)) 0 v first_seg) as [Hok Hperm]; [lia|unfold first_seg; lia| |].
  - intros i Hi H64. destruct (size_facts i) as [H _]; [unfold max_vals in Hlen; lia|exact H].
  - split; [exact Hok|]. split; [rewrite (Permutation_length Hperm); exact Hv|exact Hperm].
Qed.

(* ================================================================ every reachable value array *)

(* the operations MultiHash performs on the value array of a key: pvAdd, AcceptRemove of a present row,
   Remove(last) (RejectAdd / the key row replaced by the last value), FilterRaws *)
Inductive vop := VAdd (raw : Z) | VRemove (raw : Z) | VDropLast | VFilter (keep : Z -> bool).

Definition vstep (vals : list Z) (o : vop) : list Z :=
  match o with
  | VAdd r => pv_add r vals
  | VRemove r => if existsb (Z.eqb r) vals then match accept_remove r vals with Some v => v | None => vals end else vals
  | VDropLast => removelast vals
  | VFilter keep => filter_vals keep vals
  end.

(* a history whose arrays stay below max_vals rows (None otherwise) *)
Fixpoint vrun (vals : list Z) (ops : list vop) : option (list Z) :=
  match ops with
  | [] => Some vals
  | o :: ops' => if Nat.ltb (length vals) max_vals then vrun (vstep vals o) ops' else None
  end.

Lemma vstep_ok vals o : vals_ok vals -> length vals < max_vals -> vals_ok (vstep vals o).
Proof.
  intros Hok Hlen. destruct o; simpl.
  - apply pv_add_preserves; assumption.
  - destruct (existsb (Z.eqb raw) vals) eqn:E; [|exact Hok].
    apply existsb_exists in E as (x & Hx & Hxe). apply Z.eqb_eq in Hxe. subst x.
    destruct (multihash_remove_preserves raw vals Hok Hx) as (v' & -> & _ & Hok'). exact Hok'.
  - apply segs_ok_removelast. exact Hok.
  - apply filter_vals_ok. exact Hlen.
Qed.

Theorem vals_ok_reachable ops : forall vals v, vals_ok vals -> vrun vals ops = Some v -> vals_ok v.
Proof.
  induction ops as [|o ops IH]; intros vals v Hok H; simpl in H; [inversion H; subst; exact Hok|].
  destruct (Nat.ltb_spec (length vals) max_vals) as [Hl|Hl]; [|discriminate].
  eapply IH; [|exact H]. apply vstep_ok; assumption.
Qed.

Lemma vals_ok_nil : vals_ok [].
Proof. apply so_tail. simpl. lia. Qed.

(* the reachable-state corollary: NO invariant hypothesis any more *)
Theorem reachable_remove_succeeds ops v raw :
  vrun [] ops = Some v -> In raw v ->
  exists v', accept_remove raw v = Some v' /\ Permutation v (raw :: v') /\ vals_ok v'.
Proof.
  intros Hr Hin. apply multihash_remove_preserves; [|exact Hin]. eapply vals_ok_reachable; [apply vals_ok_nil|exact Hr].
Qed.

(* non-vacuity: 64 additions in descending address order, the 65th sorts the first segment, then a removal *)
Example reachable_demo :
  let ops := map (fun k => VAdd (Z.of_nat (100 - k))) (seq 0 66) ++ [VRemove 70%Z] in
  match vrun [] ops with
  | Some v => length v = 65 /\ firstn 3 v = [35; 37; 38]%Z /\ nth 63 v 0%Z = 100%Z
  | None => False
  end.
Proof. vm_compute. repeat split; reflexivity. Qed.

Theorem vals_ok_reachable_from_empty ops v : vrun [] ops = Some v -> vals_ok v.
Proof. apply vals_ok_reachable. apply vals_ok_nil. Qed.
