// C15 third implementation-side harness: HISTORIES on the real HashMultiMap / Array (index iterators, external and
// internal capacity) / SegmentedArray / DataTable with exception-mode settings, in the format of the extracted Coq
// models MultiMap.v / Arr.v / Table.v (see ocaml/driver.ml).  One token per call (A | A=<v> | R | X.. | C!..), then the
// private version counters and the contents.  Each case runs in a forked child.
#include "private_access.h"
#include <unistd.h>
#include <sys/wait.h>
#include <sys/resource.h>
#include "momo/HashMultiMap.h"
#include "momo/Array.h"
#include "momo/SegmentedArray.h"
#include "momo/DataTable.h"
using namespace momo;
typedef MemManagerDefault MMD;
struct MMS : HashMultiMapSettings { static const CheckMode checkMode = CheckMode::exception; static const bool checkKeyVersion = true; static const bool checkValueVersion = true; };
struct AS : ArraySettings<0, true, false> { static const CheckMode checkMode = CheckMode::exception; };
struct AIS : ArraySettings<4, true, false> { static const CheckMode checkMode = CheckMode::exception; };
struct SAS : SegmentedArraySettings<> { static const CheckMode checkMode = CheckMode::exception; };
struct DTS : DataSettings<true> { static const CheckMode checkMode = CheckMode::exception; static const bool checkVersion = true; };
typedef HashMultiMap<int, int, HashTraits<int>, MMD, HashMultiMapKeyValueTraits<int, int, MMD>, MMS> MM;
typedef Array<int, MMD, ArrayItemTraits<int, MMD>, AS> AR;
typedef Array<int, MMD, ArrayItemTraits<int, MMD>, AIS> ARI;
typedef SegmentedArray<int, MMD, SegmentedArrayItemTraits<int, MMD>, SAS> SA;
typedef DataColumnList<DataColumnTraits<>, MMD, DataItemTraits<MMD>, DTS> DCL;
typedef DataTable<DCL> DT;
static const DataColumn<int> valCol("valCol");

static std::string eq(long long v) { return "=" + std::to_string(v); }
typedef std::vector<long long> Args;

// generic call wrapper: snap() must return a canonical string of the container (contents + versions)
template<class Snap, class F> static void call(std::string& out, Snap snap, F f)
{
	std::string before = snap(), res;
	try { res = f(); }
	catch (const std::invalid_argument&) { out += (snap() == before) ? "R " : "C!rejected-call-changed-container "; return; }
	catch (const std::exception&) { out += (snap() == before) ? "X " : "C!exception-changed-container "; return; }   // length_error / bad_alloc ...
	out += "A" + res + " ";
}

// ---------------------------------------------------------------------------------------------- HashMultiMap
static std::string mmContents(const MM& m)
{
	std::map<int, std::vector<int>> t;
	for (auto kr : m.GetKeyBounds()) { std::vector<int> v(kr.GetBegin(), kr.GetEnd()); std::sort(v.begin(), v.end()); t[kr.key] = v; }
	std::string s;
	for (auto& e : t) { s += (s.empty() ? "" : ";") + std::to_string(e.first) + ":"; for (size_t i = 0; i < e.second.size(); ++i) s += (i ? "," : "") + std::to_string(e.second[i]); }
	return s.empty() ? "-" : s;
}
static std::string runMMH(std::vector<std::pair<std::string, Args>>& ops)
{
	MM m, other; other.Add(1, 100);
	std::map<long long, MM::KeyIterator> K; std::map<long long, MM::Iterator> V;
	std::string out;
	auto vers = [&] { return std::to_string(m.mHashMap.mHashSet.mCrew.mData->version) + " " + std::to_string(m.mValueCrew.mData->valueVersion); };
	auto snap = [&] { return vers() + " | " + mmContents(m) + " #" + std::to_string(m.GetCount()); };
	for (auto& o : ops)
	{
		const std::string& n = o.first; Args& a = o.second;
		if (n == "find") call(out, snap, [&] { K[a[1]] = m.Find(int(a[0])); return eq(!!K[a[1]]); });
		else if (n == "end") call(out, snap, [&] { V[a[0]] = m.GetEnd(); return std::string(); });
		else if (n == "fk") call(out, snap, [&] { K[a[0]] = other.Find(1); return std::string(); });
		else if (n == "fv") call(out, snap, [&] { V[a[0]] = other.GetBegin(); return std::string(); });
		else if (n == "makeit") call(out, snap, [&] { V[a[2]] = m.MakeIterator(K[a[0]], size_t(a[1])); return std::string(); });
		else if (n == "kderef") call(out, snap, [&] { return eq(K[a[0]]->key); });
		else if (n == "kinc") call(out, snap, [&] { ++K[a[0]]; return std::string(); });
		else if (n == "vderef") call(out, snap, [&] { return eq(V[a[0]]->value); });
		else if (n == "vinc") call(out, snap, [&] { ++V[a[0]]; return std::string(); });
		else if (n == "add") call(out, snap, [&] { V[a[2]] = m.Add(int(a[0]), int(a[1])); return std::string(); });
		else if (n == "addat") call(out, snap, [&] { V[a[2]] = m.Add(K[a[0]], int(a[1])); return std::string(); });
		else if (n == "inskey") call(out, snap, [&] { size_t c = m.GetKeyCount(); K[a[1]] = m.InsertKey(int(a[0])); return eq(m.GetKeyCount() - c); });
		else if (n == "rmit") call(out, snap, [&] { m.Remove(V[a[0]]); return std::string(); });
		else if (n == "rmki") call(out, snap, [&] { m.Remove(K[a[0]], size_t(a[1])); return std::string(); });
		else if (n == "rmvals") call(out, snap, [&] { m.RemoveValues(K[a[0]]); return std::string(); });
		else if (n == "rmkeyit") call(out, snap, [&] { m.RemoveKey(K[a[0]]); return std::string(); });
		else if (n == "rmkey") call(out, snap, [&] { return eq((long long)m.RemoveKey(int(a[0]))); });
		else if (n == "rmif") call(out, snap, [&] { int mm = int(a[0]); return eq((long long)m.Remove([mm] (const int&, const int& v) { return v % mm == 0; })); });
		else if (n == "clear") call(out, snap, [&] { m.Clear(); return std::string(); });
		else if (n == "reset") call(out, snap, [&] { m.ResetKey(K[a[0]], int(a[1])); return std::string(); });
		else if (n == "chk") call(out, snap, [&] { m.CheckIterator(V[a[0]], a[1] != 0); return std::string(); });
		else if (n == "count") call(out, snap, [&] { return eq((long long)m.GetCount()); });
		else out += "?op ";
	}
	return out + "| " + vers() + " | " + mmContents(m);
}

// ---------------------------------------------------------------------------------------------- arrays
template<class A> static std::string runARH(std::vector<std::pair<std::string, Args>>& ops)
{
	A arr, other; other.AddBack(1);
	std::vector<int> twin;
	std::map<long long, typename A::Iterator> H;
	std::string out;
	auto contents = [&] { std::string s; for (size_t i = 0; i < arr.GetCount(); ++i) s += (i ? "," : "") + std::to_string(arr[i]); return s.empty() ? std::string("-") : s; };
	auto snap = [&] { return contents(); };
	auto same = [&] { std::vector<int> v; for (size_t i = 0; i < arr.GetCount(); ++i) v.push_back(arr[i]); return v == twin; };
	for (auto& o : ops)
	{
		const std::string& n = o.first; Args& a = o.second;
		size_t before = out.size();
		if (n == "begin") call(out, snap, [&] { H[a[0]] = arr.GetBegin(); return std::string(); });
		else if (n == "end") call(out, snap, [&] { H[a[0]] = arr.GetEnd(); return std::string(); });
		else if (n == "def") call(out, snap, [&] { H[a[0]] = typename A::Iterator(); return std::string(); });
		else if (n == "foreign") call(out, snap, [&] { H[a[0]] = other.GetBegin(); return std::string(); });
		else if (n == "adv") call(out, snap, [&] { H[a[0]] += ptrdiff_t(a[1]); return std::string(); });
		else if (n == "deref") call(out, snap, [&] { return eq(*H[a[0]]); });
		else if (n == "diff") call(out, snap, [&] { return eq((long long)(H[a[0]] - H[a[1]])); });
		else if (n == "less") call(out, snap, [&] { return eq(H[a[0]] < H[a[1]]); });
		else if (n == "idx") call(out, snap, [&] { return eq(arr[size_t(a[0])]); });
		else if (n == "back") call(out, snap, [&] { return eq(arr.GetBackItem()); });
		else if (n == "addback") call(out, snap, [&] { arr.AddBack(int(a[0])); twin.push_back(int(a[0])); return std::string(); });
		else if (n == "rmback") call(out, snap, [&] { arr.RemoveBack(size_t(a[0])); twin.resize(twin.size() - size_t(a[0])); return std::string(); });
		else if (n == "ins") call(out, snap, [&] { arr.Insert(size_t(a[0]), int(a[1])); twin.insert(twin.begin() + a[0], int(a[1])); return std::string(); });
		else if (n == "insn") call(out, snap, [&] { arr.Insert(size_t(a[0]), size_t(a[1]), int(a[2])); twin.insert(twin.begin() + a[0], size_t(a[1]), int(a[2])); return std::string(); });
		else if (n == "rm") call(out, snap, [&] { arr.Remove(size_t(a[0]), size_t(a[1])); twin.erase(twin.begin() + a[0], twin.begin() + a[0] + a[1]); return std::string(); });
		else if (n == "clear") call(out, snap, [&] { arr.Clear(); twin.clear(); return std::string(); });
		else if (n == "setcount") call(out, snap, [&] { arr.SetCount(size_t(a[0])); twin.resize(size_t(a[0])); return std::string(); });
		else out += "?op ";
		if (!same()) { out.resize(before); out += "C!contents-differ-from-std-vector-twin "; }
	}
	return out + "| " + contents();
}

// ---------------------------------------------------------------------------------------------- DataTable
static std::string runDTH(std::vector<std::pair<std::string, Args>>& ops)
{
	DT t(DCL({ valCol })), other(DCL({ valCol })); other.AddRow(valCol = 1);
	struct Slot { int kind = 0; std::unique_ptr<DT::RowReference> ref; std::unique_ptr<DT::Selection> sel; };
	std::map<long long, Slot> H;
	std::string out;
	auto contents = [&] { std::string s; for (auto r : t) s += (s.empty() ? "" : ",") + std::to_string(r[valCol]); return s.empty() ? std::string("-") : s; };
	auto vers = [&] { return std::to_string(t.mCrew.mData->changeVersion) + " " + std::to_string(t.mCrew.mData->removeVersion); };
	auto snap = [&] { return vers() + contents(); };
	auto setRef = [&] (long long s, DT::RowReference r) { H[s].kind = 1; H[s].ref.reset(new DT::RowReference(r)); };
	for (auto& o : ops)
	{
		const std::string& n = o.first; Args& a = o.second;
		if (n == "ref") call(out, snap, [&] { setRef(a[1], t[size_t(a[0])]); return std::string(); });
		else if (n == "select") call(out, snap, [&] { H[a[0]].kind = 2; H[a[0]].sel.reset(new DT::Selection(t.Select())); return eq((long long)H[a[0]].sel->GetCount()); });
		else if (n == "foreign") call(out, snap, [&] { setRef(a[0], other[0]); return std::string(); });
		else if (n == "selref") { if (H[a[0]].kind != 2) out += "U "; else call(out, snap, [&] { setRef(a[2], (*H[a[0]].sel)[size_t(a[1])]); return std::string(); }); }
		else if (n == "read") { if (H[a[0]].kind != 1) out += "R "; else call(out, snap, [&] { return eq((*H[a[0]].ref)[valCol]); }); }
		else if (n == "number") { if (H[a[0]].kind != 1) out += "R "; else call(out, snap, [&] { return eq((long long)H[a[0]].ref->GetNumber()); }); }
		else if (n == "addrow") call(out, snap, [&] { t.AddRow(valCol = int(a[0])); return std::string(); });
		else if (n == "insert") call(out, snap, [&] { t.InsertRow(size_t(a[0]), valCol = int(a[1])); return std::string(); });
		else if (n == "rmref") { if (H[a[0]].kind != 1) out += "R "; else call(out, snap, [&] { if (a.size() > 1 && a[1]) { auto row = t.Extract(*H[a[0]].ref); } else t.Remove(*H[a[0]].ref); return std::string(); }); }
		else if (n == "rmnum") call(out, snap, [&] { t.Remove(size_t(a[0])); return std::string(); });
		else if (n == "updref") { if (H[a[0]].kind != 1) out += "R "; else call(out, snap, [&] { t.Update(*H[a[0]].ref, valCol, int(a[1])); return std::string(); }); }
		else if (n == "updnum") call(out, snap, [&] { t.Update(size_t(a[0]), t.NewRow(valCol = int(a[1]))); return std::string(); });
		else if (n == "rmif") call(out, snap, [&] { int mm = int(a[0]); return eq((long long)t.Remove([mm] (DT::ConstRowReference r) { return r[valCol] % mm == 0; })); });
		else if (n == "clear") call(out, snap, [&] { t.Clear(); return std::string(); });
		else if (n == "count") call(out, snap, [&] { return eq((long long)t.GetCount()); });
		else if (n == "selectif") call(out, snap, [&] { int mm = int(a[0]); H[a[1]].kind = 2;
			H[a[1]].sel.reset(new DT::Selection(t.Select([mm] (DT::ConstRowReference r) { return r[valCol] % mm == 0; }))); return eq((long long)H[a[1]].sel->GetCount()); });
		else if (n == "selofsel" || n == "selsort" || n == "selsum" || n == "selrev" || n == "selrm" || n == "selcount" || n == "rmsel")
		{
			if (H[a[0]].kind != 2) { out += "U "; continue; }
			DT::Selection& sel = *H[a[0]].sel;
			if (n == "selofsel") call(out, snap, [&] { int mm = int(a[1]); DT::Selection s2(sel, [mm] (DT::ConstRowReference r) { return r[valCol] % mm == 0; });
				long long c = (long long)s2.GetCount(); H[a[2]].kind = 2; H[a[2]].sel.reset(new DT::Selection(std::move(s2))); return eq(c); });
			else if (n == "selsort") call(out, snap, [&] { sel.Sort(valCol); return std::string(); });
			else if (n == "selsum") call(out, snap, [&] { long long sum = 0; for (auto r : sel) sum += r[valCol]; return eq(sum); });
			else if (n == "selrev") call(out, snap, [&] { sel.Reverse(); return std::string(); });
			else if (n == "selrm") call(out, snap, [&] { sel.Remove(size_t(a[1]), size_t(a[2])); return std::string(); });
			else if (n == "selcount") call(out, snap, [&] { return eq((long long)sel.GetCount()); });
			else call(out, snap, [&] { size_t c = t.GetCount(); t.Remove(sel.GetBegin(), sel.GetEnd()); return eq((long long)(c - t.GetCount())); });
		}
		else out += "?op ";
	}
	return out + "| " + vers() + " | " + contents();
}

static std::string dispatch(const std::string& line)
{
	std::istringstream is(line); std::string kind, tok; is >> kind;
	std::vector<std::pair<std::string, Args>> ops;
	while (is >> tok)
	{
		Args a; size_t p = tok.find(','); std::string name = tok.substr(0, p);
		while (p != std::string::npos) { size_t q = tok.find(',', p + 1); a.push_back(std::stoll(tok.substr(p + 1, q == std::string::npos ? q : q - p - 1))); p = q; }
		ops.push_back({ name, a });
	}
	if (kind == "mmh") return runMMH(ops);
	if (kind == "arh") return runARH<AR>(ops);
	if (kind == "aih") return runARH<ARI>(ops);
	if (kind == "sah") return runARH<SA>(ops);
	if (kind == "dth") return runDTH(ops);
	return "?kind";
}

int main()
{
	std::string line;
	while (std::getline(std::cin, line))
	{
		int fd[2];
		if (pipe(fd) != 0) return 3;
		fflush(stdout);
		pid_t pid = fork();
		if (pid == 0)
		{
			// a runaway case (e.g. a mutant that loops or reserves without bound) must not take the machine down
#if !defined(__SANITIZE_ADDRESS__)
			struct rlimit rl; rl.rlim_cur = rl.rlim_max = rlim_t(2) << 30; setrlimit(RLIMIT_AS, &rl);
#endif
			alarm(30);
			close(fd[0]);
			std::string res = dispatch(line);
			if (write(fd[1], res.data(), res.size()) < 0) _exit(4);
			_exit(0);
		}
		close(fd[1]);
		std::string res; char buf[4096]; ssize_t k;
		while ((k = read(fd[0], buf, sizeof buf)) > 0) res.append(buf, size_t(k));
		close(fd[0]);
		int st = 0; waitpid(pid, &st, 0);
		if (WIFSIGNALED(st)) res = "CRASH signal " + std::to_string(WTERMSIG(st));
		else if (WEXITSTATUS(st) != 0) res = "CRASH exit " + std::to_string(WEXITSTATUS(st));
		printf("%s\n", res.c_str());
	}
	return 0;
}
