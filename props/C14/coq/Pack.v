(* C14: packing only.  A member OBJECT of several fields (the HashSet inside a HashMap inside a HashMultiMap) is carried through
   the generated constructors of the enclosing classes as one value of type set4 = (crew, count, capacity, buckets); its move
   constructor is the GENERATED Gen_HashSet3.MoveCtor applied to the unpacked fields.  Nothing else is defined here. *)
From Coq Require Import ZArith.
From C14 Require Gen_HashSet3.
Local Open Scope Z_scope.

Definition set4 : Type := (Z * Z * Z * Z)%type.

Definition hashset_move (a b : set4) : set4 * set4 :=
  let '(c, n, k, bk) := a in
  let '(c', n', k', bk') := b in
  let '(r1, r2, r3, r4, s1, s2, s3, s4) := Gen_HashSet3.MoveCtor c n k bk c' n' k' bk' in
  ((r1, r2, r3, r4), (s1, s2, s3, s4)).
