(* C11 (last round; hand-written) -- Remove(filter): the statements of HashSet::Remove(const ItemFilter&) are read off the clang
   AST on every run (props/C11/astfacts.py -> Gen_RelocFacts.remove_filter_stmts, syntax RelocSyntax.cstmt) and INTERPRETED here on
   the model state: `initCount = GetCount()`, `iter = GetBegin()` (the iterator machine's it_begin), `while (!!iter)` (until the
   end iterator), `if (itemFilter( *iter ))` (the filter on it_deref), `iter = Remove(iter)` (pvRemove as modelled: generation through
   find_buckets, Bucket::Remove = tremove, --mCount, iterator re-created at the hole and pvInc'ed), `++iter` (pv_inc),
   `return initCount - GetCount()`.  The interpretation of the CURRENT source equals the hand model's hremove_if, which
   C11_remove_if_any_state / C11_inv_step / C11_history_refines_set are about.  Primitives that stay hand-modelled: Remove(iter),
   operator++ (the iterator machine), GetBegin.  A statement or expression the interpreter does not know yields None. *)
From Coq Require Import ZArith List String Bool Arith.
From C11 Require Import GrowModel RelocSyntax.
From C11 Require Gen_RelocFacts.
Import ListNotations.
Local Open Scope string_scope.

Definition seqb (a b : string) : bool := if string_dec a b then true else false.

Inductive ract : Type := RRemoveAt | RInc | RUnknown.
Definition ract_of (s : string) : ract :=
  if seqb s "operator=(iter, Remove(ctor(iter)))" then RRemoveAt
  else if seqb s "operator++(iter)" then RInc else RUnknown.

Section RemoveIf.
  Variable B : Type.
  Variable b0 : B.
  Variable wf0 : bool.
  Variable f : Z -> bool.

  (* loop state: all generations, the iterator, mCount *)
  Definition lstate : Type := (list (table B) * iter B * Z)%type.

  Definition do_act (a : ract) (s : lstate) : option lstate :=
    let '(chain, it, cnt) := s in
    match it with
    | IEnd _ => None                                              (* never executed on the end iterator *)
    | IAt _ gs bi p =>
        match a with
        | RInc => Some (chain, pv_inc B b0 wf0 gs bi p, cnt)
        | RRemoveAt =>
            let g := (List.length chain - List.length gs)%nat in
            match find_buckets B b0 wf0 chain (Z.of_nat bi) g p with
            | None => None                                        (* MOMO_ASSERT(false) in pvFindBuckets *)
            | Some g' =>
                let chain' := upd_gen B chain g' (fun t => tremove B b0 wf0 t (Z.of_nat bi) p) in
                Some (chain', pv_inc B b0 wf0 (skipn g' chain') bi p, (cnt - 1)%Z)
            end
        | RUnknown => None
        end
    end.

  (* the body of the while: exactly one if / else with one statement per branch *)
  Definition do_body (body : list cstmt) (s : lstate) : option lstate :=
    match body with
    | [SIfElse c [t] [e]] =>
        if seqb c "operator()(itemFilter, operator*(iter))" then
          let '(_, it, _) := s in
          if f (it_deref B b0 wf0 it) then do_act (ract_of t) s else do_act (ract_of e) s
        else None
    | _ => None
    end.

  Fixpoint do_while (fuel : nat) (body : list cstmt) (s : lstate) : option lstate :=
    let '(_, it, _) := s in
    match it with
    | IEnd _ => Some s                                             (* !!iter is false *)
    | IAt _ _ _ _ => match fuel with
                     | O => None
                     | S fu => match do_body body s with None => None | Some s' => do_while fu body s' end
                     end
    end.

  (* the function body: declarations, the loop, the return *)
  Definition interp_remove_filter (stmts : list cstmt) (s : hset B) : option (hset B * out) :=
    match stmts with
    | [SDecl n1 i1; SDecl n2 i2; SWhile c body; SReturn r] =>
        if seqb n1 "initCount" && seqb i1 "GetCount()" && seqb n2 "iter" && seqb i2 "GetBegin()" &&
           seqb c "!operator!(iter)" && seqb r "initCount - GetCount()" then
          let initCount := count B s in
          match do_while (Z.to_nat (count B s)) body (gens B s, it_begin B b0 wf0 s, count B s) with
          | None => None
          | Some (chain, _, cnt) => Some (mkH B chain cnt (capacity B s), RNum (initCount - cnt)%Z)
          end
        else None
    | _ => None
    end.

  Definition src_body : list cstmt :=
    match Gen_RelocFacts.remove_filter_stmts with [_; _; SWhile _ body; _] => body | _ => [] end.

  Lemma do_while_is_remif : forall fuel chain it cnt,
    do_while fuel src_body (chain, it, cnt) =
      match remif B b0 wf0 fuel f chain it cnt with
      | Some (chain', cnt') => Some (chain', IEnd B, cnt')
      | None => None
      end.
  Proof.
    induction fuel as [|fu IH]; intros chain it cnt; destruct it as [|gs bi p]; cbn [do_while remif]; try reflexivity.
    change (do_body src_body (chain, IAt B gs bi p, cnt)) with
      (if f (it_deref B b0 wf0 (IAt B gs bi p)) then do_act RRemoveAt (chain, IAt B gs bi p, cnt)
       else do_act RInc (chain, IAt B gs bi p, cnt)).
    destruct (f (it_deref B b0 wf0 (IAt B gs bi p))); cbn [do_act].
    - destruct (find_buckets B b0 wf0 chain (Z.of_nat bi) (List.length chain - List.length gs) p) as [g'|]; [|reflexivity].
      apply IH.
    - apply IH.
  Qed.

  Theorem remove_filter_is_interpreted_source : forall s,
    interp_remove_filter Gen_RelocFacts.remove_filter_stmts s = hremove_if B b0 wf0 s f.
  Proof.
    intros s. unfold hremove_if.
    change (interp_remove_filter Gen_RelocFacts.remove_filter_stmts s) with
      (match do_while (Z.to_nat (count B s)) src_body (gens B s, it_begin B b0 wf0 s, count B s) with
       | None => None
       | Some (chain, _, cnt) => Some (mkH B chain cnt (capacity B s), RNum (count B s - cnt)%Z)
       end).
    rewrite do_while_is_remif.
    destruct (remif B b0 wf0 (Z.to_nat (count B s)) f (gens B s) (it_begin B b0 wf0 s) (count B s)) as [[chain' cnt']|]; reflexivity.
  Qed.
End RemoveIf.
