(* C16: SegmentedArraySettings<cnst, L> (Gen_SegCnst.v, L symbolic): every segment has 2^L items. *)
From Coq Require Import ZArith Bool List Lia.
From MomoCommon Require Import GenPrelude.
From C16 Require Gen_SegCnst SegSqrt_Proofs.
Local Open Scope Z_scope.
Import SegSqrt_Proofs.
Module GC := Gen_SegCnst.

Lemma gen_count L : 0 <= L < 64 -> GC.GetItemCount L = 2 ^ L.
Proof. intros. unfold GC.GetItemCount. apply shl1; assumption. Qed.

Lemma gen_seg L i : 0 <= L < 64 -> GC.GetSegItemIndexes L i = (i / 2 ^ L, i mod 2 ^ L).
Proof.
  intros HL. unfold GC.GetSegItemIndexes. cbv zeta. rewrite mask by assumption.
  rewrite Z.shiftr_div_pow2 by lia. reflexivity.
Qed.

Lemma gen_idx L s j : 0 <= L < 64 -> 0 <= s -> 0 <= j -> s * 2 ^ L + j < 2 ^ 64 -> GC.GetIndex L s j = s * 2 ^ L + j.
Proof.
  intros HL Hs Hj Hb. unfold GC.GetIndex. rewrite Z.shiftl_mul_pow2 by lia.
  pose proof (SegMath.pow2_pos L ltac:(lia)).
  rewrite (wrapU_small 64 (s * 2 ^ L)) by nia. apply wrapU_small. nia.
Qed.

Theorem seg_roundtrip L i : 0 <= L < 64 -> 0 <= i < 2 ^ 64 ->
  GC.GetIndex L (fst (GC.GetSegItemIndexes L i)) (snd (GC.GetSegItemIndexes L i)) = i.
Proof.
  intros HL Hi. rewrite gen_seg by assumption. cbn [fst snd].
  pose proof (SegMath.pow2_pos L ltac:(lia)) as HB.
  pose proof (Z.div_mod i (2 ^ L) ltac:(lia)). pose proof (Z.mod_pos_bound i (2 ^ L) HB).
  assert (0 <= i / 2 ^ L) by (apply Z.div_pos; lia).
  rewrite gen_idx; lia.
Qed.

Theorem item_lt_count L i : 0 <= L < 64 -> 0 <= i ->
  0 <= fst (GC.GetSegItemIndexes L i) /\ 0 <= snd (GC.GetSegItemIndexes L i) < GC.GetItemCount L /\ GC.GetItemCount L = 2 ^ L.
Proof.
  intros HL Hi. rewrite gen_seg, gen_count by assumption. cbn [fst snd].
  pose proof (SegMath.pow2_pos L ltac:(lia)) as HB. pose proof (Z.mod_pos_bound i (2 ^ L) HB).
  assert (0 <= i / 2 ^ L) by (apply Z.div_pos; lia). lia.
Qed.

Theorem seg_contiguous L i : 0 <= L < 64 -> 0 <= i ->
  let s := fst (GC.GetSegItemIndexes L i) in let j := snd (GC.GetSegItemIndexes L i) in
  GC.GetSegItemIndexes L (i + 1) = if Z.ltb (j + 1) (GC.GetItemCount L) then (s, j + 1) else (s + 1, 0).
Proof.
  intros HL Hi. rewrite !gen_seg, gen_count by assumption. cbn [fst snd]. cbv zeta.
  pose proof (SegMath.pow2_pos L ltac:(lia)) as HB. set (B := 2 ^ L) in *.
  pose proof (Z.div_mod i B ltac:(lia)) as Hd. pose proof (Z.mod_pos_bound i B HB) as Hm.
  set (q := i / B) in *. set (r := i mod B) in *.
  destruct (Z.ltb_spec (r + 1) B).
  - replace (i + 1) with (q * B + (r + 1)) by lia.
    rewrite Z.div_add_l by lia. rewrite Z.add_comm with (n := q * B), Z.mod_add by lia.
    rewrite Z.div_small, Z.mod_small by lia. f_equal; lia.
  - replace (i + 1) with ((q + 1) * B + 0) by lia.
    rewrite Z.div_add_l by lia. rewrite Z.add_comm with (n := (q + 1) * B), Z.mod_add by lia.
    rewrite Z.div_small, Z.mod_small by lia. f_equal; lia.
Qed.

Theorem seg_roundtrip_rev L s j : 0 <= L < 64 -> 0 <= s -> 0 <= j < GC.GetItemCount L -> s * 2 ^ L + j < 2 ^ 64 ->
  GC.GetSegItemIndexes L (GC.GetIndex L s j) = (s, j).
Proof.
  intros HL Hs Hj Hb. rewrite gen_count in Hj by assumption. rewrite gen_idx by lia. rewrite gen_seg by assumption.
  pose proof (SegMath.pow2_pos L ltac:(lia)) as HB.
  rewrite Z.div_add_l by lia. rewrite (Z.add_comm (s * 2 ^ L) j), Z.mod_add by lia.
  rewrite Z.div_small, Z.mod_small by lia. f_equal; lia.
Qed.

Theorem capacity_step L s : 0 <= L < 64 -> 0 <= s -> (s + 1) * 2 ^ L < 2 ^ 64 ->
  GC.GetIndex L 0 0 = 0 /\ GC.GetIndex L (s + 1) 0 = GC.GetIndex L s 0 + GC.GetItemCount L.
Proof.
  intros HL Hs Hb. pose proof (SegMath.pow2_pos L ltac:(lia)) as HB.
  rewrite !gen_idx by lia. rewrite gen_count by assumption. lia.
Qed.
