(* C04 -- HashMultiMap::RemoveKey(ConstKeyIterator) (HashMultiMap.h:1100-1117): the value array of the key is MOVED OUT into a
   temporary (nothrow: it steals the pointer), then the (key, empty array) pair is removed from the underlying hash map, which
   may throw (the last pair of the bucket replaces the removed one: key assignment); the catch block moves the value array
   back.  After a successful removal the values are destroyed and their storage is released.
   Cells: `va` = the ValueArray object inside the map's pair (Live p = owns the values block p, Moved p = empty),
          `tmp` = the temporary ValueArray on the stack, block vb = the values (n live objects). *)
From Coq Require Import List Arith Lia Bool PeanoNat.
From C04 Require Import Effects ObjMgr KeyValue Replace.
Import ListNotations.

Definition multimap_remove_key (va tmp : loc) (vb n : nat) (hashmap_remove : M unit) : M unit :=
  move_construct NTM va tmp ;;                                   (* ValueArray tempValueArray(std::move(valueArray)); *)
  try_catch hashmap_remove                                       (* hashMapIter = mHashMap.Remove(hashMapIter); *)
            (assign NTM tmp va ;; destroy tmp ;; throw) ;;       (* catch: valueArray = std::move(tempValueArray); ~temp; throw *)
  destroy_from (fun j => (vb, j)) 0 n ;; dealloc vb ;;           (* pvRemoveValues(tempValueArray) *)
  destroy tmp.                                                   (* ~tempValueArray *)

Section RemoveKey.
Variables (va tmp : loc) (vb n p : nat) (hashmap_remove : M unit).
Variable Pr : heap -> Prop.      (* precondition of the hash map's Remove *)

(* HashMap::Remove of that pair: strongly exception safe (kv_replace_strong: the mapped type ValueArray is nothrow
   anyway-assignable); on success it has destroyed the pair's (empty) array object and touched neither tmp nor the values *)
Hypothesis Hrem : forall s, Pr (hp s) ->
  wp hashmap_remove s
     (fun _ s' => mem (hp s') va = Raw /\ agree (fun l => l = tmp \/ fst l = vb) (hp s) (hp s') /\ same_regs (hp s) (hp s'))
     (fun s' => heq (hp s) (hp s')).

Theorem multimap_remove_key_spec : forall s,
  valid (hp s) va = true -> valid (hp s) tmp = true -> va <> tmp -> fst va <> vb -> fst tmp <> vb ->
  mem (hp s) va = Live p -> mem (hp s) tmp = Raw ->
  alive (hp s) vb = true -> bsize (hp s) vb = n -> (forall j, j < n -> exists v, mem (hp s) (vb, j) = Live v) ->
  (forall h, heq (hset (hset (hp s) tmp (Live p)) va (Moved p)) h -> Pr h) ->
  wp (multimap_remove_key va tmp vb n hashmap_remove) s
     (fun _ s' => mem (hp s') va = Raw /\ mem (hp s') tmp = Raw /\ alive (hp s') vb = false)
     (fun s' => heq (hp s) (hp s')).
Proof.
  intros s Vva Vt Hne Nva Nt Mva Mt Avb Svb Hvals HPr. unfold multimap_remove_key.
  apply wp_bind. eapply wp_move_construct with (v := p); [exact Vva|exact Vt|exact Hne|exact Mva|exact Mt|intros C; contradiction C; reflexivity|].
  intros s1 H1. simpl in H1.
  apply wp_bind. apply wp_try.
  eapply wp_mono. { apply Hrem. apply HPr. exact H1. }
  - (* removed: destroy the values, release their storage, destroy the temporary *)
    intros _ s2 [Rva [Ag Rg]].
    assert (Mt2 : mem (hp s2) tmp = Live p).
    { rewrite (ag_mem _ _ _ Ag) by auto. rewrite (hq_mem _ _ H1), mem_hset_other, mem_hset_same; auto. }
    assert (Mv2 : forall j, mem (hp s2) (vb, j) = mem (hp s) (vb, j)).
    { intros j. rewrite (ag_mem _ _ _ Ag) by (right; reflexivity). rewrite (hq_mem _ _ H1), !mem_hset_other; auto.
      intro E; apply Nt; rewrite <- E; reflexivity. intro E; apply Nva; rewrite <- E; reflexivity. }
    assert (V2 : forall l, valid (hp s2) l = valid (hp s) l).
    { intros l. rewrite (agree_valid _ _ _ _ Ag), (heq_valid _ _ _ H1). reflexivity. }
    apply wp_bind. apply wp_destroy_from.
    + intros j Hj. destruct (Hvals j ltac:(lia)) as [v Hv]. rewrite V2, Mv2, Hv. split; [|discriminate].
      unfold valid. simpl. rewrite Avb, Svb. apply Nat.ltb_lt. lia.
    + intros j k Hj Hk Hjk E. inversion E. auto.
    + intros s3 [D1 D2 D3 D4].
      apply wp_bind. apply wp_dealloc.
      * rewrite (ag_alive _ _ _ D3), (ag_alive _ _ _ Ag), (hq_alive _ _ H1). exact Avb.
      * intros i Hi. rewrite (ag_bsize _ _ _ D3), (ag_bsize _ _ _ Ag), (hq_bsize _ _ H1) in Hi. simpl in Hi. apply D1. lia.
      * intros s4 H4. apply wp_destroy.
        -- rewrite (heq_valid _ _ _ H4). unfold valid. simpl. unfold updn.
           destruct (fst tmp =? vb) eqn:E. { apply Nat.eqb_eq in E. contradiction. }
           fold (valid (hp s3) tmp). rewrite (agree_valid _ _ _ _ D3), V2. exact Vt.
        -- rewrite (hq_mem _ _ H4). simpl. rewrite D2 by (intros j Hj E; apply Nt; rewrite <- E; reflexivity). rewrite Mt2. discriminate.
        -- intros s5 H5. repeat split.
           ++ rewrite (hq_mem _ _ H5), mem_hset_other by auto. rewrite (hq_mem _ _ H4). simpl.
              rewrite D2 by (intros j Hj E; apply Nva; rewrite <- E; reflexivity). exact Rva.
           ++ rewrite (hq_mem _ _ H5). apply mem_hset_same.
           ++ rewrite (hq_alive _ _ H5). simpl. rewrite (hq_alive _ _ H4). simpl. unfold updn. rewrite Nat.eqb_refl. reflexivity.
  - (* the hash map's Remove threw: move the array back *)
    intros s2 H2.
    apply wp_bind. eapply wp_assign with (v := p).
    + rewrite (heq_valid _ _ _ H2), (heq_valid _ _ _ H1); auto.
    + rewrite (heq_valid _ _ _ H2), (heq_valid _ _ _ H1); auto.
    + auto.
    + rewrite (hq_mem _ _ H2), (hq_mem _ _ H1), mem_hset_other, mem_hset_same; auto.
    + rewrite (hq_mem _ _ H2), (hq_mem _ _ H1), mem_hset_same. discriminate.
    + intros C; contradiction C; reflexivity.
    + intros s3 H3. apply wp_bind. apply wp_destroy.
      * rewrite (heq_valid _ _ _ H3), !valid_hset, (heq_valid _ _ _ H2), (heq_valid _ _ _ H1); auto.
      * rewrite (hq_mem _ _ H3), mem_hset_same. discriminate.
      * intros s4 H4. apply wp_throw.
        assert (H : heq (hset (hset (hset (hset (hset (hp s) tmp (Live p)) va (Moved p)) va (Live p)) tmp (Moved p)) tmp Raw) (hp s4)).
        { eapply heq_trans; [|exact H4]. apply heq_hset. eapply heq_trans; [|exact H3]. repeat apply heq_hset.
          eapply heq_trans; [exact H1|exact H2]. }
        eapply heq_trans; [|exact H]. split; simpl; auto. intros l. unfold updm.
        destruct (loc_eq_dec l tmp) as [->|A1]. { rewrite loc_eqb_refl. auto. }
        rewrite (loc_eqb_neq l tmp) by auto.
        destruct (loc_eq_dec l va) as [->|A2]. { rewrite loc_eqb_refl. auto. }
        rewrite (loc_eqb_neq l va) by auto. reflexivity.
Qed.
End RemoveKey.
