(* C04 model driver: runs the extracted resource-machine mechanisms, one case per line:
     <mech> <cat N|C|T> <n> <k> [extra...]      k = index of the fallible step that fails (schedule = k x false, true)
   and prints   <Ok|Exn|Stuck> | <event trace> | <final blocks>
   in exactly the format of harness micro.cpp (which runs the real momo code on kit elements). *)
open Zutil
open Datatypes
open Effects

let n2i = int_of_nat
let i2n = nat_of_int
let loc b i = (i2n b, i2n i)

let mk_state_r (regs : (int * int) list) (blocks : cell list list) (k : int) : st =
  let arr = Array.of_list (Stdlib.List.map Array.of_list blocks) in
  let nb = Array.length arr in
  let mem (l : loc) = let b = n2i (fst l) and i = n2i (snd l) in
    if b < nb && i < Array.length arr.(b) then arr.(b).(i) else Raw in
  let alive b = n2i b < nb in
  let bsize b = let b = n2i b in if b < nb then i2n (Array.length arr.(b)) else O in
  let rec sch k = if k <= 0 then [true] else false :: sch (k - 1) in
  let rg r = (try i2n (Stdlib.List.assoc (n2i r) regs) with Not_found -> O) in
  { hp = { mem = mem; alive = alive; bsize = bsize; next = i2n nb; regs = rg };
    sched = (if k < 0 then [] else sch k); trace = [] }

let mk_state = mk_state_r []
let growcap n = if n <= 2 then 4 else 2 * n
let lives base n = Stdlib.List.init n (fun j -> Live (i2n (base + j)))
let raws n = Stdlib.List.init n (fun _ -> Raw)

let sloc (l : loc) = Printf.sprintf "%d.%d" (n2i (fst l)) (n2i (snd l))
let sev = function
  | EvA (b, n) -> Printf.sprintf "A%d:%d" (n2i b) (n2i n)
  | EvD b -> Printf.sprintf "D%d" (n2i b)
  | EvC (s, d) -> Printf.sprintf "C%s>%s" (sloc s) (sloc d)
  | EvM (s, d) -> Printf.sprintf "M%s>%s" (sloc s) (sloc d)
  | EvX l -> Printf.sprintf "X%s" (sloc l)
  | EvF -> "F"
let scell = function Raw -> "R" | Live v -> Printf.sprintf "L%d" (n2i v) | Moved _ -> "M"

let show (r : 'a res) (s : st) =
  let h = s.hp in
  let out = match r with Ok _ -> "Ok" | Exn -> "Exn" | Stuck -> "Stuck" in
  let evs = String.concat " " (Stdlib.List.rev_map sev s.trace) in
  let nb = n2i h.next in
  let blk b =
    if h.alive (i2n b) then
      Printf.sprintf "b%d[%s]" b (String.concat " " (Stdlib.List.init (n2i (h.bsize (i2n b))) (fun i -> scell (h.mem (loc b i)))))
    else Printf.sprintf "b%d-" b in
  Printf.printf "%s | %s | %s\n" out evs (String.concat " " (Stdlib.List.init nb blk))

(* tree cases: blocks are named (a = argument item, o = the old leaf, n<i> = i-th node built aside); only non-raw cells are shown *)
let sname = ref false
let tname b = if !sname && b = 2 then "s" else if b = 0 then "a" else if b = 1 then "o" else Printf.sprintf "n%d" (b - 2)
let tloc (l : loc) = Printf.sprintf "%s.%d" (tname (n2i (fst l))) (n2i (snd l))
let tsev = function
  | EvA (b, _) -> Printf.sprintf "A%s" (tname (n2i b))
  | EvD b -> Printf.sprintf "D%s" (tname (n2i b))
  | EvC (s, d) -> Printf.sprintf "C%s>%s" (tloc s) (tloc d)
  | EvM (s, d) -> Printf.sprintf "M%s>%s" (tloc s) (tloc d)
  | EvX l -> Printf.sprintf "X%s" (tloc l)
  | EvF -> "F"
let show_tree (r : 'a res) (s : st) =
  let h = s.hp in
  let out = match r with Ok _ -> "Ok" | Exn -> "Exn" | Stuck -> "Stuck" in
  let evs = String.concat " " (Stdlib.List.rev_map tsev s.trace) in
  let nb = n2i h.next in
  let blk b =
    if h.alive (i2n b) then begin
      let n = n2i (h.bsize (i2n b)) in
      let cells = Stdlib.List.filter (fun x -> x <> "") (Stdlib.List.init n (fun i -> match h.mem (loc b i) with Raw -> "" | c -> Printf.sprintf "%d:%s" i (scell c))) in
      Printf.sprintf "%s[%s]" (tname b) (String.concat " " cells) end
    else Printf.sprintf "%s-" (tname b) in
  Printf.printf "%s | %s | %s\n" out evs (String.concat " " (Stdlib.List.init (if !sname then 2 else nb) blk))

let cat_of = function "N" -> NTM | "C" -> CPY | "T" -> THM | _ -> failwith "cat"
let at b = fun j -> (i2n b, j)

let () = iter_lines (fun line ->
  try
    match words line with
    | ["relcreate"; c; n; k] ->
      let n = int_of_string n and k = int_of_string k in
      let s = mk_state [lives 100 n; raws (n + 1); [Live (i2n 7)]] k in
      let (r, s') = ObjMgr.relocate_create (cat_of c) (at 0) (at 1) (i2n n) (ObjMgr.creator_copy (loc 2 0)) (loc 1 n) s in
      show r s'
    | ["relrange"; c; n; k] ->
      let n = int_of_string n and k = int_of_string k in
      let s = mk_state [lives 100 n; raws n] k in
      let (r, s') = ObjMgr.relocate_range (cat_of c) (at 0) (at 1) (i2n n) s in
      show r s'
    | ["copyexec"; c; _; k] ->
      let k = int_of_string k in
      let s = mk_state [[Live (i2n 5)]; raws 2; [Live (i2n 7)]] k in
      let (r, s') = ObjMgr.copy_exec (loc 0 0) (loc 1 0) (ObjMgr.creator_copy (loc 2 0) (loc 1 1)) s in
      ignore c; show r s'
    | ["moveexec"; c; _; k] ->
      let k = int_of_string k in
      let s = mk_state [[Live (i2n 5)]; raws 2; [Live (i2n 7)]] k in
      let (r, s') = ObjMgr.move_exec (cat_of c) (loc 0 0) (loc 1 0) (ObjMgr.creator_copy (loc 2 0) (loc 1 1)) s in
      show r s'
    | ["arrgrow"; c; n; k; newcap] ->
      let n = int_of_string n and k = int_of_string k and newcap = int_of_string newcap in
      let s = mk_state_r [(10, 0); (11, n); (12, n)] (if n = 0 then [] else [lives 100 n]) k in
      let (r, s') = ArrayData.array_grow (cat_of c) (i2n newcap) s in
      show r s'
    | ["arraddback"; c; n; k] ->
      let n = int_of_string n and k = int_of_string k in
      (* block 0 = the argument item, block 1 = the array's storage (capacity n) *)
      let s = mk_state_r [(10, 1); (11, n); (12, n)] ([Live (i2n 7)] :: (if n = 0 then [] else [lives 100 n])) k in
      let (r, s') = ArrayData.array_addback_grow (cat_of c) (i2n (growcap n)) (ObjMgr.creator_copy (loc 0 0)) s in
      show r s'
    | ["copyctor"; c; n; k] ->
      let n = int_of_string n and k = int_of_string k in
      let s = mk_state [lives 100 n] k in
      let (r, s') = Ctor.array_copy_ctor (at 0) (i2n n) s in
      ignore c; show r s'
    | ["intshrink"; c; n; k] ->
      let n = int_of_string n and k = int_of_string k in
      (* block 0 = the internal buffer (4 cells), block 1 = external storage of capacity 8 holding n items *)
      let s = mk_state_r [(10, 1); (11, n); (12, 8)] [raws 4; lives 100 n @ raws (8 - n)] k in
      let (r, s') = ArrayData.pv_reset_intcap (i2n 0) (i2n n) (i2n 77) (ArrayData.creator_relocate (cat_of c) (i2n n)) s in
      (match r with
       | Exn -> Printf.printf "cap=%d " (n2i (s'.hp.regs (i2n 12)))
       | _ -> ());
      show r s'
    | ["kvreloc"; ck; _; k; cv] ->
      let k = int_of_string k in
      let s = mk_state [[Live (i2n 5)]; [Live (i2n 6)]; [Raw]; [Raw]] k in
      let (r, s') = KeyValue.kv_relocate (cat_of ck) (cat_of cv) (loc 0 0) (loc 1 0) (loc 2 0) (loc 3 0) s in
      show r s'
    | ["kvcreate"; ck; _; k; mv] ->
      let k = int_of_string k in
      (* block 0 = key argument, block 1 = value argument, block 2 = new key, block 3 = new value *)
      let s = mk_state [[Live (i2n 5)]; [Live (i2n 6)]; [Raw]; [Raw]] k in
      let (r, s') = (if mv = "m" then KeyValue.kv_create_move (cat_of ck) (loc 0 0) (loc 2 0) (ObjMgr.creator_copy (loc 1 0)) (loc 3 0)
                     else KeyValue.kv_create_copy (loc 0 0) (loc 2 0) (ObjMgr.creator_copy (loc 1 0)) (loc 3 0)) s in
      show r s'
    | ["treeins"; c; n; k; pos] ->
      let n = int_of_string n and k = int_of_string k and pos = int_of_string pos in
      let leaf = Stdlib.List.init n (fun j -> Live (i2n (10 * (j + 1)))) in
      let s = mk_state [[Live (i2n (10 * pos + 5))]; leaf] k in
      let p = if n < 4 then Relocator.grow_plan (i2n 1) (i2n n) (i2n pos) else Relocator.split_root_plan (i2n 1) (i2n n) (i2n pos) in
      let (r, s') = Relocator.run_plan (cat_of c) p (loc 0 0) [i2n 1] s in
      show_tree r s'
    | ["kvreplace"; ck; _; k; cv] ->
      let k = int_of_string k in
      let s = mk_state [[Live (i2n 5)]; [Live (i2n 6)]; [Live (i2n 8)]; [Live (i2n 9)]] k in
      let (r, s') = Replace.kv_replace (cat_of ck) (cat_of cv) (loc 0 0) (loc 1 0) (loc 2 0) (loc 3 0) s in
      show r s'
    | ["kvreprel"; ck; _; k; cv] ->
      let k = int_of_string k in
      let s = mk_state [[Live (i2n 5)]; [Live (i2n 6)]; [Live (i2n 8)]; [Live (i2n 9)]; [Raw]; [Raw]] k in
      let (r, s') = Replace.kv_replace_relocate (cat_of ck) (cat_of cv) (loc 0 0) (loc 1 0) (loc 2 0) (loc 3 0) (loc 4 0) (loc 5 0) s in
      show r s'
    | ["bucketadd"; _; n; k] ->
      let n = int_of_string n and k = int_of_string k in
      let s = mk_state_r [(10, 1); (11, n); (12, n + 1)] [[Live (i2n 7)]; lives 100 n @ [Raw]] k in
      let (r, s') = Ctor.bucket_add_inplace (ObjMgr.creator_copy (loc 0 0)) s in
      Printf.printf "cnt=%d " (n2i (s'.hp.regs (i2n 11)));
      show_tree r s'
    | ["setcnt"; c; n; k; cap; newc] ->
      let n = int_of_string n and k = int_of_string k and cap = int_of_string cap and newc = int_of_string newc in
      let s = mk_state_r [(10, 1); (11, n); (12, cap)] ([Live (i2n 7)] :: (if cap = 0 then [] else [lives 100 n @ raws (cap - n)])) k in
      let (r, s') =
        if newc <= n then SetCount.array_remove_back (i2n (n - newc)) s
        else if newc <= cap then SetCount.array_setcount_nogrow (loc 0 0) (i2n newc) s
        else SetCount.array_setcount_grow (cat_of c) (i2n newc) (i2n newc) (loc 0 0) s in
      show r s'
    | ["hashfirst"; _; _; k] ->
      let k = int_of_string k in
      (* block 0 = the argument item; new blocks in order: table, BucketParams, the bucket's item block *)
      let s = mk_state [[Live (i2n 7)]; [Raw]] k in      (* block 1 = the set's crew block, allocated by its constructor *)
      let (r, s') = HashGrow.pv_add_grow false (i2n 8) (i2n 5) (Effects.ret ()) (HashGrow.bucket_add0 (loc 0 0)) s in
      (* sizes of the table / params blocks are implementation details: print events and liveness only *)
      let h = s'.hp in
      let out = match r with Ok _ -> "Ok" | Exn -> "Exn" | Stuck -> "Stuck" in
      let ev = function EvA (b, _) -> Printf.sprintf "A%d" (n2i b) | e -> sev e in
      let evs = String.concat " " (Stdlib.List.rev_map ev s'.trace) in
      let blk b = if h.alive (i2n b) then Printf.sprintf "b%d+" b else Printf.sprintf "b%d-" b in
      Printf.printf "%s | %s | %s\n" out evs (String.concat " " (Stdlib.List.init (n2i h.next) blk))
    | ["openadd"; _; n; k; kind] ->
      let n = int_of_string n and k = int_of_string k in
      let cap = if kind = "o2" then 3 else 4 in
      let s = mk_state_r [(10, 1); (11, n); (12, cap)] [[Live (i2n 7)]; lives 100 n @ raws (cap - n)] k in
      let (r, s') = Ctor.bucket_add_inplace (ObjMgr.creator_copy (loc 0 0)) s in
      let out = match r with Ok _ -> "Ok" | Exn -> "Exn" | Stuck -> "Stuck" in
      let kinds = Stdlib.List.filter (fun x -> x <> "") (Stdlib.List.rev_map (function EvC _ -> "C" | EvM _ -> "M" | EvX _ -> "X" | EvF -> "F" | _ -> "") s'.trace) in
      let vals = Stdlib.List.sort compare (Stdlib.List.concat (Stdlib.List.init cap (fun i -> match s'.hp.mem (loc 1 i) with Live v -> [n2i v] | _ -> []))) in
      Printf.printf "cnt=%d %s | %s | %s\n" (n2i (s'.hp.regs (i2n 11))) out (String.concat " " kinds) (String.concat " " (Stdlib.List.map string_of_int vals))
    | "genn1" :: _ :: _ :: _ :: op :: f :: hash :: index :: _ :: _ :: bytes ->
      (* translator validation: the GENERATED BucketOpenN1<3, reverse>::AddCrt / Remove on the given bytes *)
      let by = Array.of_list (Stdlib.List.map int_of_string bytes) in
      let rev = Array.length by > 4 && by.(4) <> 0 in
      let m = (fun i -> let i = int_of_z i in if i >= 0 && i < 4 then z_of_int by.(i) else z_of_int 0) in
      let r = if op = "add" then Gen_OpenN1_exn.coq_AddCrt rev (z_of_int 3) m (f = "1") (z_of_string hash) (z_of_int 0)
              else Gen_OpenN1_exn.coq_Remove rev (z_of_int 3) m (f = "1") (z_of_string index) in
      (match r with
       | GenPrelude.Ok (c, m') -> Printf.printf "%d %s\n" (if c then 1 else 0) (String.concat " " (Stdlib.List.init 4 (fun i -> string_of_z (m' (z_of_int i)))))
       | GenPrelude.Stuck -> print_endline "Stuck" | GenPrelude.Fuel -> print_endline "Fuel" | GenPrelude.Exn -> print_endline "Exn")
    | "geno2" :: _ :: _ :: _ :: op :: f :: hash :: index :: logbc :: probe :: bytes ->
      let by = Array.of_list (Stdlib.List.map int_of_string bytes) in
      let arr off n = (fun i -> let i = int_of_z i in if i >= 0 && i < n then z_of_int by.(off + i) else z_of_int 0) in
      let r = if op = "add" then Gen_Open2N2_exn.coq_AddCrt (arr 0 2) (arr 2 3) (arr 5 3) (f = "1") (z_of_string hash) (z_of_string logbc) (z_of_string probe) (z_of_int 0)
              else Gen_Open2N2_exn.coq_Remove (arr 0 2) (arr 2 3) (arr 5 3) (f = "1") (z_of_string index) in
      (match r with
       | GenPrelude.Ok (((c, st), sh), hp) ->
         Printf.printf "%d %s %s %s\n" (if c then 1 else 0) (String.concat " " (Stdlib.List.init 2 (fun i -> string_of_z (st (z_of_int i)))))
           (String.concat " " (Stdlib.List.init 3 (fun i -> string_of_z (sh (z_of_int i))))) (String.concat " " (Stdlib.List.init 3 (fun i -> string_of_z (hp (z_of_int i)))))
       | GenPrelude.Stuck -> print_endline "Stuck" | GenPrelude.Fuel -> print_endline "Fuel" | GenPrelude.Exn -> print_endline "Exn")
    | "genp4" :: _ :: _ :: hcnt :: _ :: f :: hash :: mpi :: logbc :: probe :: nn :: bytes ->
      (* the GENERATED BucketLimP4<4, useHashCodePartGetter>::AddCrt: hashCount = 4 or 6 (case field), minMemPoolIndex = 2 for 8-byte items (the real side prints
         its own constants); pointer tokens: 0 = null, 1000 = the block before, 2000 = the block of the BucketMemory guard *)
      let by = Array.of_list (Stdlib.List.map int_of_string bytes) in
      let m = (fun i -> let i = int_of_z i in if i >= 0 && i < Array.length by then z_of_int by.(i) else z_of_int 255) in
      let p = if nn = "1" then z_of_int 1000 else z_of_int 0 in
      let st = z_of_int (int_of_string mpi - 1) in
      let mf = (f = "1") and cf = (f = "2") in
      let t = z_of_int 2000 in
      let r = Gen_LimP4_exn.coq_AddCrt (z_of_string hcnt) (z_of_int 2) m p st cf (z_of_string hash) (z_of_string logbc) (z_of_string probe)
                mf t t mf t t mf cf t t mf cf t t mf cf t t in
      (match r with
       | GenPrelude.Ok (((c, sh), p'), st') ->
         Printf.printf "hc=%s min=2 %d %s st=%s chg=%d blocks=%d\n" hcnt (if c then 1 else 0) (String.concat " " (Stdlib.List.init (int_of_string hcnt) (fun i -> string_of_z (sh (z_of_int i)))))
           (string_of_z st') (if int_of_z p' <> int_of_z p then 1 else 0) (if int_of_z p' = 0 then 0 else 1)
       | GenPrelude.Stuck -> print_endline "Stuck" | GenPrelude.Fuel -> print_endline "Fuel" | GenPrelude.Exn -> print_endline "Exn")
    | ["genrst"; _; _; _; _; f; cap0; cnt0; capacity; count; w; v] ->
      (* the GENERATED Array<.., ArraySettings<4>>::Data::Reset: pointer tokens 1000 = the external block before, 2000 = &mInternalItems,
         3000 = the block pvAllocate returns; the creator's clobber of the union word = the first item it wrote (none written: unchanged) *)
      let clob = if int_of_string w > 0 then z_of_string v else z_of_string cap0 in
      let r = Gen_ArrReset_exn.coq_Reset (z_of_int 4) (z_of_int 1000) (z_of_string cnt0) (z_of_string cap0) (z_of_string capacity) (z_of_string count)
                (f = "1") (f = "2") (z_of_int 3000) (z_of_int 2000) clob (z_of_int 2000) in
      (match r with
       | GenPrelude.Ok (((c, it), cn), cp) ->
         let it = int_of_z it in
         Printf.printf "cap0=%s wasint=0 %d %s cnt=%s cap=%s blocks=%d\n" cap0 (if c then 1 else 0)
           (if it = 2000 then "internal" else if it = 1000 then "same" else "new") (string_of_z cn)
           (if it = 2000 then "4" else string_of_z cp) (if it = 2000 then 0 else 1)
       | GenPrelude.Stuck -> print_endline "Stuck" | GenPrelude.Fuel -> print_endline "Fuel" | GenPrelude.Exn -> print_endline "Exn")
    | ["genxc"; _; _; _; kind; f; mode] ->
      (* the GENERATED pvExtraCheck: position / iterator 5 of 0..39; an inconsistent functor (mode 1) = the lookup misses / the neighbours compare the
         other way round; functor_throws_ = f *)
      let zi = z_of_int in
      let r =
        if kind = "h" then
          Gen_XCheckH.pvExtraCheck (f = "1") (fun a b -> int_of_z a = int_of_z b) (fun x -> x) (fun x -> if mode = "1" then zi (-1) else x) (fun x -> x) (zi 5)
        else
          Gen_XCheckT.pvExtraCheck (f = "1") (fun a b -> int_of_z a <> int_of_z b) (zi 0) (zi 40) (fun x -> zi (int_of_z x - 1)) (fun x -> zi (int_of_z x + 1))
            (fun a b -> if mode = "1" then int_of_z b < int_of_z a else int_of_z a < int_of_z b) (zi 5) in
      Printf.printf "check=%d\n" (if r then 1 else 0)
    | ["noderemove"; _; n; k; index] ->
      let n = int_of_string n and k = int_of_string k and index = int_of_string index in
      let cap = if n <= 2 then 2 else 4 in
      let leaf = Stdlib.List.init cap (fun j -> if j < n then Live (i2n (10 * (j + 1))) else Raw) in
      let s = mk_state [[Raw]; leaf; [Raw]] k in
      let shift = n - 1 - index in
      let last = loc 1 (index + shift) in
      let remover = Effects.bind (Effects.copy_construct last (loc 0 0)) (fun _ -> Effects.destroy last) in
      let (r, s') = Tree.node_remove (at 1) (loc 2 0) (i2n index) (i2n shift) remover s in
      sname := true; show_tree r s'; sname := false
    | _ -> print_endline "?"
  with e -> print_endline ("model-driver-error " ^ Printexc.to_string e))
