(* C16 model driver: same case format / output format as harness.cpp (index arithmetic cases; hist = L1 model). *)
open Zutil
let four_sq l i =
  let (s, j) = Gen_SegSqrt.coq_GetSegItemIndexes l i in
  Printf.sprintf "%s %s %s %s" (string_of_z s) (string_of_z j)
    (string_of_z (Gen_SegSqrt.coq_GetIndex l s j)) (string_of_z (Gen_SegSqrt.coq_GetItemCount l s))
let four_cn l i =
  let (s, j) = Gen_SegCnst.coq_GetSegItemIndexes l i in
  Printf.sprintf "%s %s %s %s" (string_of_z s) (string_of_z j)
    (string_of_z (Gen_SegCnst.coq_GetIndex l s j)) (string_of_z (Gen_SegCnst.coq_GetItemCount l))
let range four l lo n =
  let b = Buffer.create 4096 in
  let lo = Z.of_string lo and n = int_of_string n in
  for k = 0 to n - 1 do
    Buffer.add_string b (four l (z_of_zarith (Z.add lo (Z.of_int k)))); Buffer.add_char b ';'
  done; Buffer.contents b
(* hist F L op...: the extracted L1 model (SegModel.step) over the extracted GENERATED sizing functions *)
let hist f l ops =
  let l = z_of_string l in
  let (seg, idx) = if f = "sq" then (Gen_SegSqrt.coq_GetSegItemIndexes l, Gen_SegSqrt.coq_GetIndex l)
                   else (Gen_SegCnst.coq_GetSegItemIndexes l, Gen_SegCnst.coq_GetIndex l) in
  let st = ref SegModel.empty in
  let b = Buffer.create 1024 in
  let bad = ref false in
  let apply o = if not !bad then (match SegModel.step seg idx !st o with Some s -> st := s | None -> bad := true) in
  List.iter (fun tok ->
    if not !bad then begin
      let c = tok.[0] in
      let n = if String.length tok > 1 then String.sub tok 1 (String.length tok - 1) else "0" in
      let zn = z_of_string n in
      let cnt () = zarith_of_z (!st).SegModel.count in
      (match c with
       | 'a' -> for _ = 1 to int_of_string n do apply SegModel.AddBack done
       | 'r' -> apply (SegModel.Reserve zn)
       | 's' -> apply (SegModel.SetCount zn)
       | 'k' -> apply SegModel.ShrinkFit
       | 'K' -> apply (SegModel.ShrinkTo zn)
       | 'b' -> apply (SegModel.RemoveBack zn)
       | 'c' -> apply (SegModel.Clear false)
       | 'C' -> apply (SegModel.Clear true)
       | 'i' -> if Z.leq (Z.of_string n) (cnt ()) then apply SegModel.Insert
       | 'd' -> if Z.lt (Z.of_string n) (cnt ()) then apply SegModel.Remove
       | 'n' -> apply SegModel.AddBackNogrow
       | _ -> bad := true);
      if !bad then Buffer.add_string b "MODEL-ASSERT" else begin
        let s = !st in
        let top = match List.rev s.SegModel.segs with [] -> "-1" | x :: _ -> string_of_z x in
        Buffer.add_string b (Printf.sprintf "%s/%s/%s/%s " (string_of_z s.SegModel.count) (string_of_z (SegModel.len s))
                               (string_of_z (SegModel.capacity idx s)) top)
      end
    end) ops;
  Buffer.contents b
let () = iter_lines (fun line ->
  match words line with
  | "hist" :: f :: l :: ops -> print_endline (hist f l ops)
  | ["lg64"; v] -> print_endline (string_of_z (Gen_Log2_64.coq_Log2 (z_of_string v)))
  | ["lg32"; v] -> print_endline (string_of_z (Gen_Log2_32.coq_Log2 (z_of_string v)))
  | ["sq"; l; i] -> print_endline (four_sq (z_of_string l) (z_of_string i))
  | ["cn"; l; i] -> print_endline (four_cn (z_of_string l) (z_of_string i))
  | ["sqs"; l; i] ->
    let (s, j) = Gen_SegSqrt.coq_GetSegItemIndexes (z_of_string l) (z_of_string i) in
    Printf.printf "%s %s\n" (string_of_z s) (string_of_z j)
  | ["sqr"; l; lo; n] -> print_endline (range four_sq (z_of_string l) lo n)
  | ["cnr"; l; lo; n] -> print_endline (range four_cn (z_of_string l) lo n)
  | ["sqx"; l; s; j] ->
    let l = z_of_string l in
    let i = Gen_SegSqrt.coq_GetIndex l (z_of_string s) (z_of_string j) in
    let (s2, j2) = Gen_SegSqrt.coq_GetSegItemIndexes l i in
    Printf.printf "%s %s %s\n" (string_of_z i) (string_of_z s2) (string_of_z j2)
  | ["cnx"; l; s; j] ->
    let l = z_of_string l in
    let i = Gen_SegCnst.coq_GetIndex l (z_of_string s) (z_of_string j) in
    let (s2, j2) = Gen_SegCnst.coq_GetSegItemIndexes l i in
    Printf.printf "%s %s %s\n" (string_of_z i) (string_of_z s2) (string_of_z j2)
  | _ -> print_endline "?")
