// instantiation TU for cxx2coq (C02, growth round 2): TreeSet member functions (pvRebalance decision prefix, Relocator::pvSplitNode, pvIsOrdered, AST facts of MergeTo / pvRebalance)
#include "momo/TreeSet.h"
namespace momo {
typedef TreeSet<int, TreeTraits<int, false, TreeNode<32, 4, MemPoolParams<8>, true>, true>> InstSetR;
void c02_inst_use_r() { InstSetR s, d; { auto it = s.GetBegin(); ++it; --it; (void)s.GetLowerBound(1); } for (int i = 0; i < 100; ++i) s.Insert(i); s.MergeTo(d); d.MergeTo(s); while (!s.IsEmpty()) s.Remove(s.GetBegin()); }
}
