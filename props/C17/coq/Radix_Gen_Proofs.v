(* C17: theorems about the GENERATED small RadixSorter functions (Gen_Radix.v, regenerated from RadixSorter.h on every run):
   the integral code getter for 8 value types, pvGetRadix, and the first shift computed by Sort() -- and their refinement to
   the hand model (CodeGetter.v, SorterSort.getRadix, the shift used by SorterSort.RadixSort). *)
From Coq Require Import ZArith Bool List Lia.
From MomoCommon Require Import GenPrelude.
From C17 Require Import SorterSearch SorterSort Sort_Proofs Radix_Proofs CodeGetter Gen_Radix.
Local Open Scope Z_scope.

(* ---- code getters ---- *)
Lemma gen_s8 v : code_getter_s8 v = wrapU 8 (code_of_signed 8 v).   Proof. reflexivity. Qed.
Lemma gen_s16 v : code_getter_s16 v = wrapU 16 (code_of_signed 16 v). Proof. reflexivity. Qed.
Lemma gen_s32 v : code_getter_s32 v = code_of_signed 32 v.           Proof. reflexivity. Qed.
Lemma gen_s64 v : code_getter_s64 v = code_of_signed 64 v.           Proof. reflexivity. Qed.

Definition gen_code_signed (W : Z) : Z -> Z :=
  if W =? 8 then code_getter_s8 else if W =? 16 then code_getter_s16 else if W =? 32 then code_getter_s32 else code_getter_s64.
Definition gen_code_unsigned (W : Z) : Z -> Z :=
  if W =? 8 then code_getter_u8 else if W =? 16 then code_getter_u16 else if W =? 32 then code_getter_u32 else code_getter_u64.

Theorem gen_code_signed_refines W v : W = 8 \/ W = 16 \/ W = 32 \/ W = 64 -> - 2 ^ (W - 1) <= v < 2 ^ (W - 1) ->
  gen_code_signed W v = code_of_signed W v /\ gen_code_signed W v = v + 2 ^ (W - 1).
Proof.
  intros HW Hv. assert (E : code_of_signed W v = v + 2 ^ (W - 1)) by (apply code_of_signed_eq; lia).
  assert (P : 2 ^ W = 2 * 2 ^ (W - 1)) by (replace W with (Z.succ (W - 1)) at 1 by lia; rewrite Z.pow_succ_r by lia; reflexivity).
  unfold gen_code_signed. destruct HW as [-> | [-> | [-> | -> ]]]; cbn [Z.eqb Pos.eqb].
  - rewrite gen_s8, E. rewrite wrapU_small by lia. auto.
  - rewrite gen_s16, E. rewrite wrapU_small by lia. auto.
  - rewrite gen_s32, E. auto.
  - rewrite gen_s64, E. auto.
Qed.

(* the generated code getter of a signed W-bit type is an order isomorphism onto [0, 2^W) *)
Theorem gen_signed_code_order_iso W x y : W = 8 \/ W = 16 \/ W = 32 \/ W = 64 ->
  - 2 ^ (W - 1) <= x < 2 ^ (W - 1) -> - 2 ^ (W - 1) <= y < 2 ^ (W - 1) ->
  (x <= y <-> gen_code_signed W x <= gen_code_signed W y) /\ 0 <= gen_code_signed W x < 2 ^ W.
Proof.
  intros HW Hx Hy. destruct (gen_code_signed_refines W x HW Hx) as [-> _]. destruct (gen_code_signed_refines W y HW Hy) as [-> _].
  apply code_of_signed_order; lia.
Qed.

Theorem gen_code_unsigned_id W v : W = 8 \/ W = 16 \/ W = 32 \/ W = 64 -> 0 <= v < 2 ^ W -> gen_code_unsigned W v = v.
Proof.
  intros HW Hv. unfold gen_code_unsigned. destruct HW as [-> | [-> | [-> | -> ]]]; cbn [Z.eqb Pos.eqb].
  - unfold code_getter_u8. cbv zeta. change (wrapU 8 _) with (wrapU 8 (Z.lxor v 0)) at 1. rewrite Z.lxor_0_r. apply wrapU_small. lia.
  - unfold code_getter_u16. cbv zeta. change (wrapU 16 _) with (wrapU 16 (Z.lxor v 0)) at 1. rewrite Z.lxor_0_r. apply wrapU_small. lia.
  - unfold code_getter_u32. cbv zeta. apply Z.lxor_0_r.
  - unfold code_getter_u64. cbv zeta. apply Z.lxor_0_r.
Qed.

(* ---- pvGetRadix ---- *)
Lemma gen_mask R : 0 <= R < 64 -> wrapU 64 (wrapU 64 (Z.shiftl 1 R) - 1) = 2 ^ R - 1.
Proof.
  intros HR. rewrite Z.shiftl_mul_pow2, Z.mul_1_l by lia.
  assert (0 < 2 ^ R < 2 ^ 64) by (split; [apply Z.pow_pos_nonneg; lia|apply Z.pow_lt_mono_r; lia]).
  rewrite (wrapU_small 64 (2 ^ R)) by lia. apply wrapU_small. lia.
Qed.

Theorem gen_pvGetRadix_u64_refines R code shift : 0 <= R < 64 -> pvGetRadix_u64 R code shift = getRadix R code shift.
Proof. intros HR. unfold pvGetRadix_u64, getRadix. rewrite gen_mask by lia. reflexivity. Qed.

Theorem gen_pvGetRadix_u8_refines R code shift : 0 <= R < 64 -> 0 <= code < 2 ^ 64 -> 0 <= shift ->
  pvGetRadix_u8 R code shift = getRadix R code shift.
Proof.
  intros HR Hc Hs. unfold pvGetRadix_u8, getRadix. rewrite gen_mask by lia.
  rewrite wrapU_small; [reflexivity|]. rewrite Z.shiftr_div_pow2 by lia.
  assert (0 < 2 ^ shift) by (apply Z.pow_pos_nonneg; lia). split; [apply Z.div_pos; lia|].
  apply Z.le_lt_trans with code; [apply Z.div_le_upper_bound; nia|lia].
Qed.

(* ---- the first shift of Sort() (after bb23c06): never wraps, = the shift the hand model RadixSort starts with ---- *)
Definition model_first_shift (R W : Z) : Z := if R <? W then W - R else 0.

Theorem gen_first_shift_u64_refines R fs b c : 0 <= R -> Sort_first_shift_u64 R fs b c = model_first_shift R 64.
Proof.
  intros HR. unfold Sort_first_shift_u64, model_first_shift. cbv zeta. change (wrapU 64 (8 * 8)) with 64.
  destruct (Z.gtb_spec 64 R); destruct (Z.ltb_spec R 64); try lia. apply wrapU_small. lia.
Qed.

Theorem gen_first_shift_u8_refines R fs b c : 0 <= R -> Sort_first_shift_u8 R fs b c = model_first_shift R 8.
Proof.
  intros HR. unfold Sort_first_shift_u8, model_first_shift. cbv zeta. change (wrapU 64 (8 * 1)) with 8.
  destruct (Z.gtb_spec 8 R); destruct (Z.ltb_spec R 8); try lia. apply wrapU_small. lia.
Qed.

(* in particular a radix wider than the code (the bb23c06 case) starts at shift 0, and the shift is always below the width *)
Corollary gen_first_shift_u8_wide_radix R fs b c : 8 <= R -> Sort_first_shift_u8 R fs b c = 0.
Proof. intros. rewrite gen_first_shift_u8_refines by lia. unfold model_first_shift. destruct (Z.ltb_spec R 8); lia. Qed.

Lemma model_first_shift_is_RadixSort sw R grp W l : RadixSort sw R grp W l = sort_f sw R grp (Z.to_nat (2 * W + 8)) l 0 (alen l) (model_first_shift R W).
Proof. reflexivity. Qed.

Theorem gen_pvGetRadix_refines R code shift : 0 <= R < 64 -> 0 <= code < 2 ^ 64 -> 0 <= shift ->
  pvGetRadix_u64 R code shift = getRadix R code shift /\ pvGetRadix_u8 R code shift = getRadix R code shift.
Proof. intros HR Hc Hs. split; [apply gen_pvGetRadix_u64_refines; lia|apply gen_pvGetRadix_u8_refines; lia]. Qed.

Theorem gen_first_shift_refines R fs b c : 0 <= R ->
  Sort_first_shift_u64 R fs b c = model_first_shift R 64 /\ Sort_first_shift_u8 R fs b c = model_first_shift R 8 /\
  (8 <= R -> Sort_first_shift_u8 R fs b c = 0).
Proof. intros HR. split; [apply gen_first_shift_u64_refines; lia|]. split; [apply gen_first_shift_u8_refines; lia|apply gen_first_shift_u8_wide_radix]. Qed.
