(* C02 (very last round) -- the general theorem for operator--: mirror of ProtoIterC02 / ProtoIncrC02.
   Part 1 (hand model only): prev = the bottom-up "zipper" description of the real operator-- (stay in the leaf or go to the rightmost
   leaf of child index with index = its count; then climb while index == 0; begin has no predecessor).
   Part 2: the interpreted real operator-- equals that description on every well-formed tree; at begin its MOMO_CHECK is Stuck. *)
From Coq Require Import String List ZArith Bool Lia Arith.
From MomoCommon Require Import GenPrelude.
From C02 Require Import ProtoSyntaxC02 Gen_TreeProto ProtoSemC02 ProtoProofsC02 ProtoIterC02 ProtoMoveC02 ProtoIncrC02 BTreeModel BTreeBase.
Import ListNotations.

Section ZipBack.
Variable maxCap : nat.

(* top-down: the deepest ancestor position whose child index is > 0 *)
Fixpoint cback (p : list nat) (n : node) : option iter :=
  match p with
  | [] => None
  | c :: p' => match nth_error (n_children n) c with
               | Some ch => orelse (lift c (cback p' ch)) (here_prev c)
               | None => None
               end
  end.

(* bottom-up (the loop `while (itemIndex == 0) { child = node; node = parent; itemIndex = GetChildIndex(child); }`): the position
   (node, itemIndex) at which the loop stops, itemIndex > 0; None = it runs off the root (begin) *)
Fixpoint bpos_rev (rq : list nat) (i : nat) {struct rq} : option (list nat * nat) :=
  match i with
  | S _ => Some (rev rq, i)
  | 0 => match rq with [] => None | c :: rq' => bpos_rev rq' c end
  end.
Definition bpos (q : list nat) (i : nat) : option (list nat * nat) := bpos_rev (rev q) i.
Definition back (q : list nat) (i : nat) : option iter := option_map (fun x => (fst x, snd x - 1)) (bpos q i).

Lemma bpos_pos q i : bpos q (S i) = Some (q, S i).
Proof. unfold bpos. destruct (rev q) eqn:E; cbn [bpos_rev]; rewrite <- E, rev_involutive; reflexivity. Qed.
Lemma bpos_snoc0 q c : bpos (q ++ [c]) 0 = bpos q c.
Proof. unfold bpos. rewrite rev_app_distr. cbn [rev app bpos_rev]. destruct c; [reflexivity|]. destruct (rev q) eqn:E; cbn [bpos_rev]; reflexivity. Qed.
Lemma back_pos q i : back q (S i) = Some (q, i).
Proof. unfold back. rewrite bpos_pos. cbn [option_map fst snd]. f_equal. f_equal. lia. Qed.
Lemma back_snoc0 q c : back (q ++ [c]) 0 = back q c.
Proof. unfold back. rewrite bpos_snoc0. reflexivity. Qed.

Lemma back_is_cback r : forall p n pre m, node_at pre r = Some n -> node_at p n = Some m ->
  back (pre ++ p) 0 = match cback p n with Some (q, i) => Some (pre ++ q, i) | None => back pre 0 end.
Proof.
  induction p as [|c p IH]; intros n pre m Hn Hp; cbn [cback].
  - rewrite app_nil_r. reflexivity.
  - cbn [node_at] in Hp. destruct (nth_error (n_children n) c) as [ch|] eqn:E; [|discriminate].
    assert (Hc : node_at (pre ++ [c]) r = Some ch) by (rewrite (node_at_app pre [c] r n Hn); cbn [node_at]; rewrite E; reflexivity).
    assert (Ea : pre ++ c :: p = (pre ++ [c]) ++ p) by (apply (app_assoc pre [c] p)).
    rewrite Ea, (IH ch (pre ++ [c]) m Hc Hp). destruct (cback p ch) as [[q i]|]; cbn [lift orelse].
    + rewrite <- app_assoc. reflexivity.
    + rewrite back_snoc0. unfold here_prev. destruct c as [|c']; [reflexivity|]. rewrite back_pos, app_nil_r. reflexivity.
Qed.
Lemma rightmost_leaf : forall d n, shape maxCap d n ->
  exists lm, node_at (fst (rightmost d n)) n = Some lm /\ shape maxCap 0 lm /\ snd (rightmost d n) = n_count lm.
Proof.
  induction d as [|d IH]; intros n Sh; cbn [rightmost].
  - exists n. cbn [fst snd node_at]. auto.
  - destruct Sh as (_ & _ & L & F & _).
    destruct (nth_error (n_children n) (n_count n)) as [ch|] eqn:E; [|apply nth_error_None in E; lia].
    assert (Sc : shape maxCap d ch) by (rewrite Forall_forall in F; apply F; eapply nth_error_In; exact E).
    destruct (IH ch Sc) as (lm & Hl & S0 & Ec). destruct (rightmost d ch) as [q i]. cbn [fst snd] in *.
    exists lm. cbn [node_at]. rewrite E. auto.
Qed.

Definition fin (q : list nat) (i : nat) (n : node) : option iter := match i with S i' => Some (q, i') | 0 => cback q n end.

Lemma last_in_zip : forall d n, shape maxCap d n -> last_in d n = fin (fst (rightmost d n)) (snd (rightmost d n)) n.
Proof.
  induction d as [|d IH]; intros n Sh; cbn [last_in rightmost].
  - cbn [fst snd]. unfold fin, here_prev. destruct (n_count n); reflexivity.
  - destruct Sh as (_ & _ & L & F & _).
    destruct (nth_error (n_children n) (n_count n)) as [ch|] eqn:E; [|apply nth_error_None in E; lia].
    assert (Sc : shape maxCap d ch) by (rewrite Forall_forall in F; apply F; eapply nth_error_In; exact E).
    rewrite (IH ch Sc). destruct (rightmost d ch) as [q i]. cbn [fst snd]. unfold fin.
    destruct i as [|i']; cbn [lift orelse].
    + cbn [cback]. rewrite E. reflexivity.
    + reflexivity.
Qed.

Definition step_back (d : nat) (n : node) (p : list nat) (j : nat) : iter :=
  match node_at p n with
  | Some m => if is_leaf m then (p, j)
              else match nth_error (n_children m) j with
                   | Some ch => (p ++ j :: fst (rightmost (d - length p - 1) ch), snd (rightmost (d - length p - 1) ch))
                   | None => (p, j)
                   end
  | None => (p, j)
  end.

Lemma prev_in_zip : forall p d n j m, shape maxCap d n -> node_at p n = Some m -> j <= n_count m ->
  prev_in d p n j = fin (fst (step_back d n p j)) (snd (step_back d n p j)) n.
Proof.
  induction p as [|c p IH]; intros d n j m Sh Hm Hj; cbn [prev_in].
  - cbn [node_at] in Hm. injection Hm as <-. unfold step_back. cbn [node_at length].
    destruct (is_leaf n) eqn:Lf.
    + cbn [fst snd]. unfold fin, here_prev. destruct j; reflexivity.
    + destruct (shape_internal maxCap d n Sh Lf) as [d' ->]. destruct Sh as (_ & _ & L & F & _).
      destruct (nth_error (n_children n) j) as [ch|] eqn:E; [|apply nth_error_None in E; lia].
      assert (Sc : shape maxCap d' ch) by (rewrite Forall_forall in F; apply F; eapply nth_error_In; exact E).
      replace (S d' - 0 - 1) with d' by lia. cbn [pred app fst snd]. rewrite (last_in_zip d' ch Sc).
      destruct (rightmost d' ch) as [q i]. cbn [fst snd]. unfold fin. destruct i as [|i']; cbn [lift orelse]; [|reflexivity].
      cbn [cback]. rewrite E. reflexivity.
  - cbn [node_at] in Hm. destruct (nth_error (n_children n) c) as [ch|] eqn:E; [|discriminate].
    assert (Lf : is_leaf n = false) by (unfold is_leaf; destruct (n_children n); [destruct c; discriminate | reflexivity]).
    destruct (shape_internal maxCap d n Sh Lf) as [d' ->]. destruct Sh as (_ & _ & L & F & _).
    assert (Sc : shape maxCap d' ch) by (rewrite Forall_forall in F; apply F; eapply nth_error_In; exact E).
    cbn [pred]. rewrite (IH d' ch j m Sc Hm Hj).
    unfold step_back. cbn [node_at length]. rewrite E, Hm.
    replace (S d' - S (length p) - 1) with (d' - length p - 1) by lia.
    destruct (is_leaf m).
    + cbn [fst snd]. unfold fin. destruct j as [|j']; cbn [lift orelse]; [|reflexivity]. cbn [cback]. rewrite E. reflexivity.
    + destruct (nth_error (n_children m) j) as [chh|] eqn:E2.
      * cbn [fst snd app]. unfold fin. destruct (snd (rightmost (d' - length p - 1) chh)); cbn [lift orelse]; [|reflexivity].
        cbn [cback]. rewrite E. reflexivity.
      * cbn [fst snd]. unfold fin. destruct j as [|j']; cbn [lift orelse]; [|reflexivity]. cbn [cback]. rewrite E. reflexivity.
Qed.

(* the whole tree: prev is the bottom-up zipper step; None = begin *)
Theorem prev_is_zipper d r p j m :
  shape maxCap d r -> node_at p r = Some m -> j <= n_count m ->
  prev {| root := Some r; cnt := 0 |} (p, j) =
  match back (fst (step_back d r p j)) (snd (step_back d r p j)) with Some it => it | None => (p, j) end.
Proof.
  intros Sh Hm Hj. unfold prev. cbn [root fst snd]. rewrite (shape_height maxCap d r Sh).
  rewrite (prev_in_zip p d r j m Sh Hm Hj).
  assert (Hq : exists mq, node_at (fst (step_back d r p j)) r = Some mq).
  { unfold step_back. rewrite Hm. destruct (is_leaf m) eqn:Lf; [cbn [fst]; eauto|].
    destruct (nth_error (n_children m) j) as [ch|] eqn:E; [|cbn [fst]; eauto].
    destruct (shape_at maxCap p d r m Sh Hm) as [Sm Lp].
    destruct (shape_internal maxCap _ m Sm Lf) as [x Ex]. rewrite Ex in Sm. destruct Sm as (_ & _ & _ & Fm & _).
    assert (Sh2 : shape maxCap x ch) by (rewrite Forall_forall in Fm; apply Fm; eapply nth_error_In; exact E).
    replace (d - length p - 1) with x by lia. destruct (rightmost_leaf x ch Sh2) as (lm & Hl & _ & _).
    exists lm. cbn [fst]. rewrite (node_at_app p _ r m Hm). cbn [node_at]. rewrite E. exact Hl. }
  destruct Hq as [mq Hq]. destruct (step_back d r p j) as [q i]. cbn [fst snd] in *. unfold fin.
  destruct i as [|i']; [|rewrite back_pos; reflexivity].
  pose proof (back_is_cback r q r [] mq eq_refl Hq) as U. cbn [app] in U. rewrite U.
  destruct (cback q r) as [[q' i']|]; [reflexivity|]. reflexivity.
Qed.
End ZipBack.

Local Open Scope string_scope.

Section Decr.
Variables (maxCap : nat) (r : node).
Notation lin := false.
Notation P0 := (fun _ : Z => false).
Definition decr_calls : string -> env -> option env := fun nm e' => if nm =? "Check" then Some e' else None.
Notation exec := (exec lin P0 r decr_calls).
Notation eval := (eval lin P0 r).

Definition right_loop_stmt : pstmt :=
  SWhile (EUn "!" (ECall (EVar "node") "IsLeaf" [])) [SExpr (EBin "=" (EVar "node") (ECall (EVar "node") "GetChild" [ECall (EVar "node") "GetCount" []]))].

(* `while (!node->IsLeaf()) node = node->GetChild(node->GetCount());` ends at the rightmost leaf below node *)
Lemma right_loop : forall x q mq (e : env) k rest,
  node_at q r = Some mq -> shape maxCap x mq -> e "node" = Some (VPtr (Some q)) ->
  exists e', exec (S (x + (2 + k))) e (right_loop_stmt :: rest) = exec (2 + k) e' rest /\
    e' "node" = Some (VPtr (Some (q ++ fst (rightmost x mq))%list)).
Proof.
  induction x as [|x IH]; intros q mq e k rest Hq Sh En; unfold right_loop_stmt.
  - pose proof (shape_0_leaf maxCap mq Sh) as Lf.
    rewrite (exec_while_false r decr_calls _ e _ _ _ (vbool false)); [| rewrite (eval_un_not r), (eval_isleaf2 r e "node" q mq En Hq), Lf; reflexivity | reflexivity].
    exists e. cbn [rightmost fst Nat.add]. rewrite app_nil_r. auto.
  - pose proof (shape_S_internal maxCap x mq Sh) as Lf. destruct Sh as (_ & _ & L & F & _).
    destruct (nth_error (n_children mq) (n_count mq)) as [ch|] eqn:Ec; [|apply nth_error_None in Ec; lia].
    assert (Sc : shape maxCap x ch) by (rewrite Forall_forall in F; apply F; eapply nth_error_In; exact Ec).
    assert (Hc : node_at (q ++ [n_count mq]) r = Some ch) by (rewrite (node_at_app q _ r mq Hq); cbn [node_at]; rewrite Ec; reflexivity).
    replace (S (S x + (2 + k))) with (S (S (x + (2 + k)))) by lia.
    rewrite (exec_while_true lin P0 r decr_calls _ e _ _ _ (vbool true)); [| rewrite (eval_un_not r), (eval_isleaf2 r e "node" q mq En Hq), Lf; reflexivity | reflexivity].
    rewrite exec_assign, (eval_lastchild lin P0 r e "node" q mq ch En Hq Hc).
    replace (x + (2 + k)) with (S (x + (1 + k))) by lia. rewrite exec_nil. replace (S (x + (1 + k))) with (x + (2 + k)) by lia.
    set (e1 := set e "node" (VPtr (Some (q ++ [n_count mq])%list))).
    assert (E1n : e1 "node" = Some (VPtr (Some (q ++ [n_count mq])%list))) by reflexivity.
    destruct (IH (q ++ [n_count mq])%list ch e1 k rest Hc Sc E1n) as (e' & He & A).
    exists e'. split; [exact He|]. rewrite A. cbn [rightmost]. rewrite Ec. destruct (rightmost x ch) as [q' i']. cbn [fst]. rewrite <- app_assoc. reflexivity.
Qed.
Lemma exec_assert_false f e c rest v : eval e c = Some v -> truthy v = Some false -> exec (S f) e (SAssert c :: rest) = RStuck.
Proof. intros H1 H2. cbn [ProtoSemC02.exec]. rewrite H1, H2. reflexivity. Qed.
Lemma eval_ne0_null e x : e x = Some (VPtr None) -> eval e (EBin "!=" (EVar x) (ENum 0)) = Some (vbool false).
Proof. intros H. rewrite (eval_bin lin P0 r). cbn [ProtoSemC02.eval]. rewrite H. reflexivity. Qed.
Lemma eval_parent_root e x : e x = Some (VPtr (Some [])) -> eval e (ECall (EVar x) "GetParent" []) = Some (VPtr None).
Proof. intros H. cbn [ProtoSemC02.eval call_sem map String.eqb Ascii.eqb Bool.eqb andb]. rewrite H. reflexivity. Qed.

Definition back_loop_stmt : pstmt :=
  SWhile (EBin "==" (EVar "itemIndex") (ENum 0))
    [SDecl "childNode" (EVar "node"); SExpr (EBin "=" (EVar "node") (ECall (EVar "node") "GetParent" []));
     SAssert (EBin "!=" (EVar "node") (ENum 0)); SExpr (EBin "=" (EVar "itemIndex") (ECall (EVar "node") "GetChildIndex" [EVar "childNode"]))].

Lemma eval_eq0 e x i : e x = Some (VNum (Z.of_nat i)) -> eval e (EBin "==" (EVar x) (ENum 0)) = Some (vbool (i =? 0)%nat).
Proof.
  intros H. rewrite (eval_bin lin P0 r). cbn [ProtoSemC02.eval]. rewrite H. cbn [binop String.eqb Ascii.eqb Bool.eqb andb].
  assert (Vn : forall a b, veq (VNum a) (VNum b) = Some (a =? b)%Z) by (intros [| |] b; reflexivity).
  rewrite Vn. cbn [option_map]. f_equal. f_equal. destruct i; reflexivity.
Qed.

Lemma bpos_rev_pos rq i q k : bpos_rev rq i = Some (q, k) -> (0 < k)%nat.
Proof. revert i. induction rq as [|c rq IH]; intros i H; destruct i; cbn [bpos_rev] in H; try discriminate; try (injection H as _ <-; lia). apply (IH c H). Qed.

(* the loop `while (itemIndex == 0) { childNode = node; node = node->GetParent(); MOMO_CHECK(node != nullptr); itemIndex = GetChildIndex }`:
   it stops at bpos (itemIndex > 0) - or, when it runs off the root (begin), it is Stuck on the MOMO_CHECK *)
Lemma back_loop : forall rq (e : env) i k rest,
  e "node" = Some (VPtr (Some (rev rq))) -> e "itemIndex" = Some (VNum (Z.of_nat i)) ->
  match bpos_rev rq i with
  | Some (qf, jf) => exists e' t, exec (S (length rq + (6 + k))) e (back_loop_stmt :: rest) = exec (6 + (k + t)) e' rest /\
                       e' "node" = Some (VPtr (Some qf)) /\ e' "itemIndex" = Some (VNum (Z.of_nat jf))
  | None => exec (S (length rq + (6 + k))) e (back_loop_stmt :: rest) = RStuck
  end.
Proof.
  induction rq as [|c rq IH]; intros e i k rest En Ei; unfold back_loop_stmt.
  - destruct i as [|i']; cbn [bpos_rev length Nat.add].
    + (* at the root with index 0: begin *)
      rewrite (exec_while_true lin P0 r decr_calls _ e _ _ _ (vbool true) (eval_eq0 e "itemIndex" 0 Ei) eq_refl).
      rewrite exec_decl, eval_var_raw, En.
      set (e1 := set e "childNode" (VPtr (Some (rev [])))).
      assert (E1n : e1 "node" = Some (VPtr (Some []))) by exact En.
      rewrite exec_assign, (eval_parent_root e1 "node" E1n).
      set (e2 := set e1 "node" (VPtr None)).
      assert (E2n : e2 "node" = Some (VPtr None)) by reflexivity.
      rewrite (exec_assert_false (S (S (S k))) e2 _ [SExpr (EBin "=" (EVar "itemIndex") (ECall (EVar "node") "GetChildIndex" [EVar "childNode"]))] (vbool false) (eval_ne0_null e2 "node" E2n) eq_refl). reflexivity.
    + rewrite (exec_while_false r decr_calls _ e _ _ _ (vbool false) (eval_eq0 e "itemIndex" (S i') Ei) eq_refl).
      exists e, 0%nat. split; [rewrite Nat.add_0_r; reflexivity|]. split; [exact En | exact Ei].
  - destruct i as [|i']; cbn [bpos_rev].
    + (* climb one level *)
      cbn [rev] in En. cbn [length]. replace (S (S (length rq) + (6 + k))) with (S (S (length rq + (6 + k)))) by lia.
      rewrite (exec_while_true lin P0 r decr_calls _ e _ _ _ (vbool true) (eval_eq0 e "itemIndex" 0 Ei) eq_refl).
      replace (S (length rq + (6 + k))) with (6 + (S (length rq + k))) by lia. cbn [Nat.add].
      rewrite exec_decl, eval_var_raw, En.
      set (e1 := set e "childNode" (VPtr (Some (rev rq ++ [c])%list))).
      assert (E1n : e1 "node" = Some (VPtr (Some (rev rq ++ [c])%list))) by exact En.
      rewrite exec_assign, (eval_parent_snoc lin P0 r e1 "node" (rev rq) c E1n).
      set (e2 := set e1 "node" (VPtr (Some (rev rq)))).
      assert (E2n : e2 "node" = Some (VPtr (Some (rev rq)))) by reflexivity.
      assert (E2c : e2 "childNode" = Some (VPtr (Some (rev rq ++ [c])%list))) by reflexivity.
      rewrite (exec_assert_true r decr_calls _ e2 _ _ (vbool true) (eval_ne0 r e2 "node" (rev rq) E2n) eq_refl).
      rewrite exec_assign, (eval_childindex lin P0 r e2 "node" "childNode" (rev rq) c E2n E2c), exec_nil.
      set (e3 := set e2 "itemIndex" (VNum (Z.of_nat c))).
      assert (E3n : e3 "node" = Some (VPtr (Some (rev rq)))) by reflexivity.
      assert (E3i : e3 "itemIndex" = Some (VNum (Z.of_nat c))) by reflexivity.
      replace (S (S (S (S (S (S (S (length rq + k)))))))) with (S (length rq + (6 + k))) by lia.
      pose proof (IH e3 c k rest E3n E3i) as R. unfold back_loop_stmt in R.
      destruct (bpos_rev rq c) as [[qf jf]|]; [|exact R].
      destruct R as (e' & t & He & A & B). exists e', t. auto.
    + cbn [length]. rewrite (exec_while_false r decr_calls _ e _ _ _ (vbool false) (eval_eq0 e "itemIndex" (S i') Ei) eq_refl).
      exists e, (S (length rq)). split; [f_equal; lia|]. split; [exact En | exact Ei].
Qed.
Lemma decr_calls_check e : decr_calls "Check" e = Some e.
Proof. reflexivity. Qed.

Lemma eval_minus1 e x j : e x = Some (VNum (Z.of_nat j)) -> (0 < j)%nat -> eval e (EBin "-" (EVar x) (ENum 1)) = Some (VNum (Z.of_nat (j - 1))).
Proof. intros H Hj. rewrite (eval_bin lin P0 r). cbn [ProtoSemC02.eval]. rewrite H. cbn [binop String.eqb Ascii.eqb Bool.eqb andb]. f_equal. f_equal. lia. Qed.
Lemma eval_count2 e x p n : e x = Some (VPtr (Some p)) -> node_at p r = Some n -> eval e (ECall (EVar x) "GetCount" []) = Some (VNum (Z.of_nat (n_count n))).
Proof. intros H1 H2. cbn [ProtoSemC02.eval call_sem map String.eqb Ascii.eqb Bool.eqb andb]. rewrite H1. unfold nd. rewrite H2. reflexivity. Qed.

(* the REAL operator-- from any position (end included) of any well-formed tree: it stops where the bottom-up description stops
   (index > 0 found) and returns that position with index - 1; from begin it is Stuck on MOMO_CHECK(node != nullptr) *)
Theorem decr_spec d p m j (e : env) k :
  shape maxCap d r -> node_at p r = Some m -> (j <= n_count m)%nat ->
  e "mNode" = Some (VPtr (Some p)) -> e "mItemIndex" = Some (VNum (Z.of_nat j)) ->
  match bpos (fst (step_back d r p j)) (snd (step_back d r p j)) with
  | Some (qf, jf) => exists e', exec (20 + (d + k)) e iter_decr = RReturn VUnit e' /\
                       e' "mNode" = Some (VPtr (Some qf)) /\ e' "mItemIndex" = Some (VNum (Z.of_nat (jf - 1)))
  | None => exec (20 + (d + k)) e iter_decr = RStuck
  end.
Proof.
  intros Sh Hm Hj En Ei. destruct (shape_at maxCap p d r m Sh Hm) as [Sm Lp].
  unfold iter_decr. cbn [Nat.add].
  rewrite (exec_call r decr_calls), decr_calls_check.
  rewrite (exec_assert_true r decr_calls _ e _ _ (vbool true) (eval_ne0 r e "mNode" p En) eq_refl).
  rewrite exec_decl, eval_var_raw, En.
  set (e1 := set e "node" (VPtr (Some p))).
  rewrite exec_decl, eval_var_raw. change (e1 "mItemIndex") with (e "mItemIndex"). rewrite Ei.
  set (e2 := set e1 "itemIndex" (VNum (Z.of_nat j))).
  assert (E2n : e2 "node" = Some (VPtr (Some p))) by reflexivity.
  assert (E2i : e2 "itemIndex" = Some (VNum (Z.of_nat j))) by reflexivity.
  rewrite exec_if, (eval_un_not r), (eval_isleaf2 r e2 "node" p m E2n Hm).
  unfold step_back. rewrite Hm. destruct (is_leaf m) eqn:Lf; cbn [vbool truthy Z.eqb negb option_map fst snd].
  - (* leaf: nothing to descend *)
    rewrite exec_nil.
    replace (S (S (S (S (S (S (S (S (S (S (S (S (S (S (S (d + k)))))))))))))))) with (S (length (rev p) + (6 + (8 + (d - length p) + k)))) by (rewrite rev_length; lia).
    assert (E2n' : e2 "node" = Some (VPtr (Some (rev (rev p))))) by (rewrite rev_involutive; exact E2n).
    pose proof (back_loop (rev p) e2 j (8 + (d - length p) + k)
      [SExpr (EBin "=" (EVar "mNode") (EVar "node")); SExpr (EBin "=" (EVar "mItemIndex") (EBin "-" (EVar "itemIndex") (ENum 1))); SReturn (EUn "*" (EVar "this"))] E2n' E2i) as R.
    unfold bpos. fold back_loop_stmt.
    destruct (bpos_rev (rev p) j) as [[qf jf]|] eqn:Eb; [|exact R].
    destruct R as (e3 & t & He & A & B). rewrite He. cbn [Nat.add].
    rewrite exec_assign, eval_var_raw, A.
    set (e4 := set e3 "mNode" (VPtr (Some qf))).
    assert (E4i : e4 "itemIndex" = Some (VNum (Z.of_nat jf))) by exact B.
    rewrite exec_assign, (eval_minus1 e4 "itemIndex" jf E4i (bpos_rev_pos _ _ _ _ Eb)).
    rewrite exec_return. cbn [ProtoSemC02.eval String.eqb Ascii.eqb Bool.eqb andb].
    eexists. split; [reflexivity|]. split; reflexivity.
  - (* internal node: child j, rightmost leaf, index = its count *)
    destruct (shape_internal maxCap _ m Sm Lf) as [x Ex]. rewrite Ex in Sm. destruct Sm as (_ & _ & Lc & Fc & _).
    destruct (nth_error (n_children m) j) as [ch|] eqn:Ech; [|apply nth_error_None in Ech; lia].
    assert (Sc : shape maxCap x ch) by (rewrite Forall_forall in Fc; apply Fc; eapply nth_error_In; exact Ech).
    assert (Hch : node_at (p ++ [j]) r = Some ch) by (rewrite (node_at_app p [j] r m Hm); cbn [node_at]; rewrite Ech; reflexivity).
    replace (d - length p - 1) with x by lia. cbn [fst snd].
    rewrite exec_assign, (eval_childk r e2 "node" p j ch (EVar "itemIndex") E2n E2i Hch).
    set (e3 := set e2 "node" (VPtr (Some (p ++ [j])%list))).
    assert (E3n : e3 "node" = Some (VPtr (Some (p ++ [j])%list))) by reflexivity.
    replace (S (S (S (S (S (S (S (S (S (S (S (S (S (S (d + k))))))))))))))) with (S (x + (2 + (11 + (d - x) + k)))) by lia.
    destruct (right_loop x (p ++ [j])%list ch e3 (11 + (d - x) + k) [SExpr (EBin "=" (EVar "itemIndex") (ECall (EVar "node") "GetCount" []))] Hch Sc E3n) as (e4 & He4 & A4).
    fold right_loop_stmt. rewrite He4. cbn [Nat.add].
    destruct (rightmost_leaf maxCap x ch Sc) as (lm & Hl & S0 & Ecnt).
    set (q := (p ++ j :: fst (rightmost x ch))%list).
    assert (Eq : ((p ++ [j]) ++ fst (rightmost x ch))%list = q) by (unfold q; rewrite <- app_assoc; reflexivity).
    rewrite Eq in A4.
    assert (Hq : node_at q r = Some lm) by (unfold q; rewrite (node_at_app p _ r m Hm); cbn [node_at]; rewrite Ech; exact Hl).
    rewrite exec_assign, (eval_count2 e4 "node" q lm A4 Hq), exec_nil.
    set (e5 := set e4 "itemIndex" (VNum (Z.of_nat (n_count lm)))).
    assert (E5n : e5 "node" = Some (VPtr (Some (rev (rev q))))) by (rewrite rev_involutive; exact A4).
    assert (E5i : e5 "itemIndex" = Some (VNum (Z.of_nat (n_count lm)))) by reflexivity.
    assert (Lq : (length q <= d)%nat) by (destruct (shape_at maxCap q d r lm Sh Hq); assumption).
    replace (S (S (x + S (S (S (S (S (S (S (S (S (S (S (S (S (d - x + k)))))))))))))))) with (S (length (rev q) + (6 + (8 + (d - length q) + k)))) by (rewrite rev_length; lia).
    pose proof (back_loop (rev q) e5 (n_count lm) (8 + (d - length q) + k)
      [SExpr (EBin "=" (EVar "mNode") (EVar "node")); SExpr (EBin "=" (EVar "mItemIndex") (EBin "-" (EVar "itemIndex") (ENum 1))); SReturn (EUn "*" (EVar "this"))] E5n E5i) as R.
    rewrite Ecnt. unfold bpos. fold q. fold back_loop_stmt.
    destruct (bpos_rev (rev q) (n_count lm)) as [[qf jf]|] eqn:Eb; [|exact R].
    destruct R as (e6 & t & He & A & B). rewrite He. cbn [Nat.add].
    rewrite exec_assign, eval_var_raw, A.
    set (e7 := set e6 "mNode" (VPtr (Some qf))).
    assert (E7i : e7 "itemIndex" = Some (VNum (Z.of_nat jf))) by exact B.
    rewrite exec_assign, (eval_minus1 e7 "itemIndex" jf E7i (bpos_rev_pos _ _ _ _ Eb)).
    rewrite exec_return. cbn [ProtoSemC02.eval String.eqb Ascii.eqb Bool.eqb andb].
    eexists. split; [reflexivity|]. split; reflexivity.
Qed.
(* ... and that is the hand model's prev; at begin (no predecessor: the hand prev returns its argument) the run is Stuck *)
Theorem decr_is_prev d p m j (e : env) k :
  shape maxCap d r -> node_at p r = Some m -> (j <= n_count m)%nat ->
  e "mNode" = Some (VPtr (Some p)) -> e "mItemIndex" = Some (VNum (Z.of_nat j)) ->
  let pv := prev {| root := Some r; cnt := 0 |} (p, j) in
  match back (fst (step_back d r p j)) (snd (step_back d r p j)) with
  | Some _ => exists e', exec (20 + (d + k)) e iter_decr = RReturn VUnit e' /\
                e' "mNode" = Some (VPtr (Some (fst pv))) /\ e' "mItemIndex" = Some (VNum (Z.of_nat (snd pv)))
  | None => exec (20 + (d + k)) e iter_decr = RStuck /\ pv = (p, j)
  end.
Proof.
  intros Sh Hm Hj En Ei. cbv zeta. rewrite (prev_is_zipper maxCap d r p j m Sh Hm Hj).
  pose proof (decr_spec d p m j e k Sh Hm Hj En Ei) as R. unfold back.
  destruct (bpos (fst (step_back d r p j)) (snd (step_back d r p j))) as [[qf jf]|]; cbn [option_map fst snd].
  - exact R.
  - split; [exact R | reflexivity].
Qed.
End Decr.
