"""C17: translation of RadixSorter<8>::pvSelectionSort (a static member TEMPLATE with functor parameters and a local
std::array cache) from the real source.  Built on tools/cxx2coq.py (same AST dump, same expression/statement/loop machinery,
class Fn); this subclass only adds what that function needs and the shared translator does not have:

  * the local `std::array<Code, N> codes` is a state array (`codes : Z -> Z`), `codes[e]` reads/writes it;
  * the three functors are modelled on ghost state instead of being skipped:
      codeGetter(Next(begin, e))                -> (items e)          items : position -> code of the item now at that position
      iterSwapper(Next(begin,a), Next(begin,b)) -> items := swapf items a b
      groupFunc(Next(begin, a), c)              -> gpos[gnum] := a; gcnt[gnum] := c; gnum := gnum + 1   (log of the group calls)
  * std::swap(codes[a], codes[b])               -> codes := swapf codes a b
  * minIndex = Dist(codes.data(), std::min_element(codes.data() + lo, codes.data() + hi)) -> min_element_idx codes lo hi
    (std::min_element is a primitive: first minimum of [lo,hi), defined in SelPrims.v);
  * a `for (size_t i ...)` variable goes out of scope after its loop (the function has three loops over `i`).

Anything else in the body that the base class cannot translate is a TranslationError = broken tie.
"""
import os, sys, json
sys.path.insert(0, os.path.join(os.path.dirname(os.path.dirname(os.path.dirname(os.path.abspath(__file__)))), 'tools'))
import cxx2coq
from cxx2coq import TranslationError, skip_wrappers

FIELDS = {'codes': 'array', 'items': 'array', 'gpos': 'array', 'gcnt': 'array', 'gnum': 'scalar'}


def strip_casts(n):
    n = skip_wrappers(n)
    while n.get('kind') in ('ImplicitCastExpr',) and n.get('inner'):
        n = skip_wrappers(n['inner'][0])
    return n


def opinfo(n):
    """(operator name, object name, args) of `obj(args)` / `obj[arg]` on a named local/parameter, else None"""
    n = skip_wrappers(n)
    if n.get('kind') != 'CXXOperatorCallExpr' or len(n.get('inner', [])) < 2:
        return None
    callee = strip_casts(n['inner'][0]); obj = strip_casts(n['inner'][1])
    if callee.get('kind') != 'DeclRefExpr' or obj.get('kind') != 'DeclRefExpr':
        return None
    return callee['referencedDecl']['name'], obj['referencedDecl']['name'], n['inner'][2:]


def callinfo(n):
    n = skip_wrappers(n)
    if n.get('kind') != 'CallExpr':
        return None
    callee = strip_casts(n['inner'][0])
    if callee.get('kind') != 'DeclRefExpr':
        return None
    return callee['referencedDecl']['name'], n['inner'][1:]


class SelFn(cxx2coq.Fn):
    def pos(self, n):
        """UIntMath<>::Next(begin, e) -> e"""
        ci = callinfo(n)
        if ci is None or ci[0] != 'Next' or len(ci[1]) != 2:
            raise TranslationError('iterator argument is not Next(begin, e)')
        b = strip_casts(ci[1][0])
        if b.get('kind') != 'DeclRefExpr' or b['referencedDecl']['name'] != 'begin':
            raise TranslationError('Next() not applied to begin')
        return self.e(ci[1][1])

    def ptr_off(self, n):
        """codes.data() [+ e]* -> offset expression"""
        n = strip_casts(n)
        if n.get('kind') == 'CXXMemberCallExpr':
            m = strip_casts(n['inner'][0])
            o = strip_casts(m['inner'][0]) if m.get('inner') else {}
            if m.get('kind') == 'MemberExpr' and m.get('name') == 'data' and o.get('kind') == 'DeclRefExpr' and o['referencedDecl']['name'] == 'codes':
                return '0'
        if n.get('kind') == 'BinaryOperator' and n.get('opcode') == '+':
            return '(%s + %s)' % (self.ptr_off(n['inner'][0]), self.e(n['inner'][1]))
        raise TranslationError('pointer expression into codes[] not recognised: ' + str(n.get('kind')))

    # ---- expressions
    def e(self, n):
        oi = opinfo(n)
        if oi is not None:
            op, obj, args = oi
            if op == 'operator[]' and obj == 'codes':
                return '(codes %s)' % self.e(args[0])
            if op == 'operator()' and obj == 'codeGetter':
                return '(items %s)' % self.pos(args[0])
            raise TranslationError('operator call %s on %s' % (op, obj))
        return super().e(n)

    def lhs_name(self, l):
        oi = opinfo(l)
        if oi is not None and oi[0] == 'operator[]' and oi[1] == 'codes':
            return 'codes'
        return super().lhs_name(l)

    def assign_to(self, lhs, val, k):
        oi = opinfo(lhs)
        if oi is not None and oi[0] == 'operator[]' and oi[1] == 'codes':
            self.note_write('codes')
            return 'let codes := upd codes %s %s in\n%s' % (self.e(oi[2][0]), val, k())
        return super().assign_to(lhs, val, k)

    # ---- statements
    def expr_stmt(self, s, rest):
        oi = opinfo(s)
        if oi is not None and oi[0] == 'operator()' and oi[1] == 'iterSwapper':
            a = self.pos(oi[2][0]); b = self.pos(oi[2][1]); self.note_write('items')
            return 'let items := swapf items %s %s in\n%s' % (a, b, rest())
        if oi is not None and oi[0] == 'operator()' and oi[1] == 'groupFunc':
            a = self.pos(oi[2][0]); c = self.e(oi[2][1])
            for f in ('gpos', 'gcnt', 'gnum'): self.note_write(f)
            return ('let gpos := upd gpos gnum %s in\nlet gcnt := upd gcnt gnum %s in\nlet gnum := (wrapU 64 (gnum + 1)) in\n%s' % (a, c, rest()))
        ci = callinfo(s)
        if ci is not None and ci[0] == 'swap' and len(ci[1]) == 2:
            o1 = opinfo(ci[1][0]); o2 = opinfo(ci[1][1])
            if o1 and o2 and o1[:2] == ('operator[]', 'codes') and o2[:2] == ('operator[]', 'codes'):
                self.note_write('codes')
                return 'let codes := swapf codes %s %s in\n%s' % (self.e(o1[2][0]), self.e(o2[2][0]), rest())
            raise TranslationError('std::swap on something else than two codes[] elements')
        return super().expr_stmt(s, rest)

    def decl(self, s, rest):
        vs = [v for v in s.get('inner', []) if v.get('kind') == 'VarDecl']
        if len(vs) == 1 and vs[0]['name'] == 'codes':
            if 'std::array' not in vs[0]['type']['qualType']:
                raise TranslationError('codes is no longer a std::array')
            return rest()                      # the cache is a state array (initial contents arbitrary)
        if len(vs) == 1 and vs[0]['name'] == 'minIndex':
            init = [x for x in vs[0].get('inner', []) if isinstance(x, dict)]
            ci = callinfo(init[0]) if init else None
            if ci is None or ci[0] != 'Dist' or self.ptr_off(ci[1][0]) != '0':
                raise TranslationError('minIndex is not Dist(codes.data(), ...)')
            mi = callinfo(ci[1][1])
            if mi is None or mi[0] != 'min_element' or len(mi[1]) != 2:
                raise TranslationError('minIndex is not computed by std::min_element(first, last)')
            lo = self.ptr_off(mi[1][0]); hi = self.ptr_off(mi[1][1])
            self.env['minIndex'] = ('u', 64)
            return 'let minIndex := (min_element_idx codes %s %s) in\n%s' % (lo, hi, rest())
        return super().decl(s, rest)

    def loop(self, s, rest, jc):
        names = []
        if s['kind'] == 'ForStmt' and isinstance(s['inner'][0], dict) and s['inner'][0].get('kind') == 'DeclStmt':
            names = [v['name'] for v in s['inner'][0].get('inner', []) if v.get('kind') == 'VarDecl']
        def rest2():
            for nm in names:
                self.env.pop(nm, None)        # the for-variable goes out of scope
            return rest()
        return super().loop(s, rest2, jc)

    # ---- which state a piece of code reads / writes (for the loop state tuples)
    def assigned(self, n, acc, declared):
        oi = opinfo(n)
        if oi is not None and oi[0] == 'operator()' and oi[1] == 'iterSwapper':
            acc.add('items')
        if oi is not None and oi[0] == 'operator()' and oi[1] == 'groupFunc':
            acc.update(('gpos', 'gcnt', 'gnum'))
        ci = callinfo(n)
        if ci is not None and ci[0] == 'swap':
            acc.add('codes')
        return super().assigned(n, acc, declared)

    def used_names(self, n, acc):
        oi = opinfo(n) if isinstance(n, dict) and n.get('kind') == 'CXXOperatorCallExpr' else None
        if oi is not None and oi[1] in ('codeGetter', 'iterSwapper'):
            acc.add('items')
        if oi is not None and oi[1] == 'groupFunc':
            acc.update(('gpos', 'gcnt', 'gnum'))
        if oi is not None and oi[1] == 'codes':
            acc.add('codes')
        return super().used_names(n, acc)


def find_method(n, name, acc):
    if isinstance(n, dict):
        if n.get('kind') == 'CXXMethodDecl' and n.get('name') == name and any(c.get('kind') == 'CompoundStmt' for c in n.get('inner', [])) \
                and any(c.get('kind') == 'TemplateArgument' for c in n.get('inner', [])):
            acc.append(n)
        for c in n.get('inner', []):
            find_method(c, name, acc)


def translate(repo='/repo', tu=None):
    tu = tu or os.path.join(os.path.dirname(os.path.abspath(__file__)), 'inst_sel.cpp')
    cfg = {'name': 'Gen_SelSort', 'tu': tu, 'filter': 'RadixSorter', 'class': 'RadixSorter', 'fields': dict(FIELDS),
           'functions': ['pvSelectionSort'],
           'functor_params': {'pvSelectionSort': {'codeGetter': 'skip', 'iterSwapper': 'skip', 'groupFunc': 'skip'}},
           'fuel': {'pvSelectionSort': '(Z.to_nat 40)'}, 'includes': [os.path.join(repo, 'include')]}
    objs = cxx2coq.load_objs(cxx2coq.dump_ast(cfg, repo))
    acc = []
    for o in objs:
        find_method(o, 'pvSelectionSort', acc)
    if len(acc) != 1:
        raise TranslationError('expected exactly one instantiated pvSelectionSort, found %d' % len(acc))
    d = dict(acc[0]); d.pop('storageClass', None)      # ghost state is threaded like member fields
    ctx = cxx2coq.Ctx(cfg)
    f = SelFn(ctx, d, 'pvSelectionSort')
    try:
        txt = f.gen()
    except TranslationError as ex:
        raise TranslationError('RadixSorter::pvSelectionSort: %s' % ex)
    return ('(* GENERATED by props/C17/sel2coq.py (on tools/cxx2coq.py) from RadixSorter.h: RadixSorter<8>::pvSelectionSort -- do not edit *)\n\n'
            'From Coq Require Import ZArith Bool List.\nFrom MomoCommon Require Import GenPrelude.\nFrom C17 Require Import SelPrims.\n'
            'Local Open Scope Z_scope.\n\n' + txt + '\n')


if __name__ == '__main__':
    sys.stdout.write(translate())
