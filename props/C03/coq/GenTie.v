(* C03 -- part 8: the L2 resource machine instantiated AT THE FACTS READ OFF THE REAL CODE (Gen_C03Facts.v, written by
   props/C03/astfacts.py from the clang AST of the current headers on every run).

   Each place where one of this project's release-discipline defects lived is read as a statement list; a small interpreter gives the
   list a meaning (pointer states for catch blocks, field sets for swaps, step lists for Relocator::CreateNode, a pointer machine for
   the root-collapse loop); the meaning is the PARAMETER of the hand model whose theorems were proved for every schedule.  The
   theorems below are about `model (meaning generated_statements)`: reverting a fix changes the generated file, the meaning computes
   to the broken parameter, and the proof no longer goes through (stage prove broken). *)
From Coq Require Import ZArith Bool List String Lia.
From C03 Require Import Effects EffectsProofs Effects2 Effects2Proofs Effects4 Effects4Proofs Pointwise Effects7 Effects7Proofs.
From C03 Require Import GenPrimsC03 Gen_C03Facts.
Import ListNotations.
Local Open Scope string_scope.
Local Open Scope Z_scope.

(* ================================================================== 1. catch blocks of delegating constructors: pointer states *)
(* a field that owns resources: PValid = points to them; PDangling = they were released, the pointer still there; PNull *)
Inductive pst := PValid | PDangling | PNull.
Definition penv := list (string * pst).
Fixpoint pget (f : string) (e : penv) : pst :=
  match e with [] => PNull | (g, v) :: r => if String.eqb f g then v else pget f r end.
Fixpoint pset (f : string) (v : pst) (e : penv) : penv :=
  match e with [] => [] | (g, w) :: r => if String.eqb f g then (g, v) :: r else (g, w) :: pset f v r end.
(* the object's destroy function (pvDestroy / pvDestroyRaws / the destructor): releases what every field points to; a dangling
   field means the resources are released a second time *)
Fixpoint destroy_all (e : penv) : option penv :=
  match e with
  | [] => Some []
  | (g, PValid) :: r => option_map (cons (g, PDangling)) (destroy_all r)
  | (g, PNull) :: r => option_map (cons (g, PNull)) (destroy_all r)
  | (g, PDangling) :: r => None
  end.
Fixpoint run_catch (destroy : string) (l : list cstmt) (e : penv) : option penv :=
  match l with
  | [] => Some e
  | SRethrow :: _ => Some e
  | SCall f :: r => if String.eqb f destroy then match destroy_all e with Some e' => run_catch destroy r e' | None => None end
                    else run_catch destroy r e
  | SNull f :: r => run_catch destroy r (pset f PNull e)
  | SCallOn o "Clear" :: r => run_catch destroy r (pset o PNull e)       (* mRaws.Clear(): the list forgets the (already destroyed) rows *)
  | _ :: r => run_catch destroy r e
  end.
Definition no_valid (e : penv) : bool := forallb (fun p => match snd p with PValid => false | _ => true end) e.
(* the constructor DELEGATES, so after its catch block has rethrown the destructor runs: destroy once more.  fixed <=> nothing is
   released twice and nothing stays unreleased *)
Definition ctor_fixed (destroy : string) (flds : list string) (catch : list cstmt) : bool :=
  match run_catch destroy catch (map (fun f => (f, PValid)) flds) with
  | Some e => match destroy_all e with Some e' => no_valid e' | None => false end
  | None => false
  end.

Definition hashset_ctor_fixed : bool :=
  ctor_fixed "pvDestroy" ["mBuckets"] hashset_copy_catch && ctor_fixed "pvDestroy" ["mBuckets"] hashset_ilist_catch.
Definition treeset_ctor_fixed : bool :=
  ctor_fixed "pvDestroy" ["mRootNode"; "mNodeParams"] treeset_copy_catch && ctor_fixed "pvDestroy" ["mRootNode"; "mNodeParams"] treeset_ilist_catch.
Definition datatable_fill_fixed : bool := ctor_fixed "pvDestroyRaws" ["mRaws"] datatable_fill_catch.

(* the shapes before 806b9fe / 91ea186 compute to false *)
Lemma ctor_fixed_old_shapes :
  ctor_fixed "pvDestroy" ["mBuckets"] [SCall "pvDestroy"; SRethrow] = false /\
  ctor_fixed "pvDestroy" ["mRootNode"; "mNodeParams"] [SCall "pvDestroy"; SRethrow] = false /\
  ctor_fixed "pvDestroyRaws" ["mRaws"] [SCall "pvDestroyRaws"; SRethrow] = false /\
  ctor_fixed "pvDestroy" ["mRootNode"; "mNodeParams"] [SCall "pvDestroy"; SNull "mRootNode"; SRethrow] = false.
Proof. repeat split; reflexivity. Qed.

Theorem gen_hashset_ctor_no_leak mgr bufsz parsz crewsz sr n s f bs :
  fresh_world s f bs -> (forall k, 0 <= k < Z.of_nat n -> f (sr, 0 + k) = true) ->
  post (hs_copy_then_destroy mgr bufsz parsz crewsz hashset_ctor_fixed sr n) s
       (fun _ s' => st_is s' f bs (nextb s')) (fun s' => st_is s' f bs (nextb s')).
Proof. change hashset_ctor_fixed with true. apply hs_copy_then_destroy_post. Qed.

Theorem gen_treeset_ctor_no_leak mgr crewsz nodesz tparsz sr n s f bs :
  fresh_world s f bs -> (forall k, 0 <= k < Z.of_nat n -> f (sr, 0 + k) = true) ->
  post (ts_copy_then_destroy mgr crewsz nodesz tparsz treeset_ctor_fixed sr n) s
       (fun _ s' => st_is s' f bs (nextb s')) (fun s' => st_is s' f bs (nextb s')).
Proof. change treeset_ctor_fixed with true. apply ts_copy_then_destroy_post. Qed.

Theorem gen_treeset_ctor_any_tree_no_leak mgr nodesz parsz crewsz src kr t s f bs :
  rows_world s f bs src kr ->
  post (tsn_copy_then_destroy mgr nodesz parsz crewsz treeset_ctor_fixed src t) s
       (fun _ s' => st_is s' f bs (nextb s')) (fun s' => st_is s' f bs (nextb s')).
Proof. change treeset_ctor_fixed with true. apply tsn_copy_then_destroy_post. Qed.

Theorem gen_datatable_fill_no_leak mgr rsz crewsz colsf haskey linkfail stride :
  0 <= stride -> forall sr kr n s f bs,
  rows_world s f bs sr kr ->
  post (dt_copy_then_destroy mgr rsz crewsz colsf haskey linkfail stride datatable_fill_fixed sr kr n) s
       (fun _ s' => st_is s' f bs (nextb s')) (fun s' => st_is s' f bs (nextb s')).
Proof. change datatable_fill_fixed with true. apply dt_copy_then_destroy_post. Qed.

(* ================================================================== 2. HashMultiMap copy constructor: one row (84c9298) *)
(* `ValueArray valueArray(params, ref.value); try { mHashMap.Insert(ref.key, std::move(valueArray)); } catch (...) { valueArray.Clear(params); throw; }`
   the array owns copies of the values until Insert has taken it; its destructor does not release them (it asserts that it is empty) *)
Definition hmm_row_cleared : bool :=
  match multimap_copy_row with
  | [SDecl v _; STry] =>
      existsb (fun st => match st with SCallOn "mHashMap" "Insert" => true | _ => false end) multimap_copy_try &&
      match run_catch "" multimap_copy_catch [(v, PValid)] with
      | Some e => match pget v e with PValid => false | _ => true end
      | None => false
      end
  | _ => false
  end.

Definition hmm_insert_row (mgr rsz : Z) (haskey linkfail clear : bool) (cols : nat) (sr sb kr i : Z) : M Z :=
  row <- import_row mgr rsz cols sr sb ;;
  catch_rethrow (link_row haskey linkfail cols row kr i) (if clear then drop_unlinked mgr rsz cols row else ret tt) ;;;
  ret row.

(* every schedule: the row is linked in, or the world is exactly as before (values destroyed, storage returned) *)
Lemma hmm_insert_row_post mgr rsz haskey linkfail cols sr sb kr i s f bs nb :
  0 <= i -> st_is s f bs nb -> dlist bs nb -> (forall l, fst l = nb -> f l = false) ->
  (forall k, 0 <= k < Z.of_nat cols -> f (sr, sb + 0 + k) = true) -> f (kr, i) = true ->
  post (hmm_insert_row mgr rsz haskey linkfail true cols sr sb kr i) s
       (fun row s' => row = nb /\ st_is s' (fun l => inrng nb 0 (cols + keyw haskey) l || f l) ((nb, (mgr, rsz)) :: bs) (nb + 1))
       (fun s' => exists nb', nb <= nb' /\ st_is s' f bs nb').
Proof.
  intros Hi H D Hc Hs Hk. unfold hmm_insert_row. apply post_bind.
  eapply post_conseq; [apply (import_row_post mgr rsz sr cols sb s f bs nb H D Hc Hs)| |auto].
  intros row s1 [Er H1]. subst row.
  assert (D1 : dlist ((nb, (mgr, rsz)) :: bs) (nb + 1)) by (apply dlist_cons; exact D).
  apply post_bind. apply post_catch.
  eapply post_conseq; [apply (link_row_post haskey linkfail kr cols nb i s1 f _ _ Hi H1 Hc Hk)| |].
  - intros u s2 H2. apply post_ret. split; [reflexivity|exact H2].
  - intros s2 H2.
    eapply post_conseq; [apply (drop_post mgr rsz cols (drop_unlinked mgr rsz cols) nb s2 f bs (nb + 1) eq_refl H2 D1 Hc)| |intros ? []].
    intros u s3 H3. exists (nb + 1). split; [lia|exact H3].
Qed.

Theorem gen_multimap_copy_row_no_leak mgr rsz haskey linkfail cols sr sb kr i s f bs nb :
  0 <= i -> st_is s f bs nb -> dlist bs nb -> (forall l, fst l = nb -> f l = false) ->
  (forall k, 0 <= k < Z.of_nat cols -> f (sr, sb + 0 + k) = true) -> f (kr, i) = true ->
  post (hmm_insert_row mgr rsz haskey linkfail hmm_row_cleared cols sr sb kr i) s
       (fun row s' => row = nb /\ st_is s' (fun l => inrng nb 0 (cols + keyw haskey) l || f l) ((nb, (mgr, rsz)) :: bs) (nb + 1))
       (fun s' => exists nb', nb <= nb' /\ st_is s' f bs nb').
Proof. change hmm_row_cleared with true. apply hmm_insert_row_post. Qed.

(* the shape before 84c9298 - the temporary passed straight to Insert, no try - leaves the values and the storage behind *)
Theorem multimap_row_not_cleared_refuted :
  exists sch, let '(o, s') := hmm_insert_row 1 40 true true false 2 (-1) 0 (-2) 0 (rows_init sch) in
              o = Exc /\ blocks s' <> [].
Proof. exists [false; false; false; true]. vm_compute. split; [reflexivity|discriminate]. Qed.

(* ================================================================== 3. TreeSet::MergeTo into an empty set (c7fda03) *)
(* what the `dstCount == 0` branch exchanges between the two sets: Swap() exchanges everything *)
Fixpoint swapped_fields (l : list cstmt) : list string :=
  match l with
  | [] => []
  | SCall "Swap" :: r => "mCrew" :: "mCount" :: "mRootNode" :: "mNodeParams" :: swapped_fields r
  | SSwap f :: r => f :: swapped_fields r
  | _ :: r => swapped_fields r
  end.
Definition mem_str (x : string) (l : list string) : bool := existsb (String.eqb x) l.
(* the node params hold a pointer INTO the crew: they travel together or not at all *)
Definition mergeto_crew_travels : bool :=
  let sw := swapped_fields treeset_mergeto_empty in
  Bool.eqb (mem_str "mNodeParams" sw) (mem_str "mCrew" sw) && Bool.eqb (mem_str "mNodeParams" sw) (mem_str "mRootNode" sw).

Theorem gen_merge_into_empty_no_leak mgr crewsz parsz nodesz k m s f bs :
  st_is s f bs (nextb s) -> dlist bs (nextb s) ->
  post (merge_scn mgr crewsz parsz nodesz mergeto_crew_travels k m) s
       (fun _ s' => st_is s' f bs (nextb s')) (fun s' => st_is s' f bs (nextb s')).
Proof. change mergeto_crew_travels with true. apply merge_scn_post. Qed.

Lemma mergeto_old_shape :
  let sw := swapped_fields [SSwap "mCount"; SSwap "mRootNode"; SSwap "mNodeParams"; SCallOn "mCrew" "IncVersion"; SReturn] in
  Bool.eqb (mem_str "mNodeParams" sw) (mem_str "mCrew" sw) = false.
Proof. reflexivity. Qed.

(* ================================================================== 4. MemPool::MergeFrom: the inserted buffer is linked in (7f37c9f) *)
(* the statements of the splice loop that link the NEIGHBOURS of the inserted buffer: both must point to the buffer itself *)
Definition merge_links_inserted : bool :=
  existsb (fun st => match st with SLink "pvSetNextBuffer" "prevBuffer" "buffer" => true | _ => false end) pool_merge_link &&
  existsb (fun st => match st with SLink "pvSetPrevBuffer" "nextBuffer" "buffer" => true | _ => false end) pool_merge_link &&
  existsb (fun st => match st with SLink "pvSetPrevBuffer" "buffer" "prevBuffer" => true | _ => false end) pool_merge_link &&
  existsb (fun st => match st with SLink "pvSetNextBuffer" "buffer" "nextBuffer" => true | _ => false end) pool_merge_link.

Theorem gen_mempool_merge_buffers_returned_once mgr bufsz a b s f bs :
  st_is s f bs (nextb s) -> dlist bs (nextb s) ->
  post (pools_scn mgr bufsz merge_links_inserted a b) s (fun _ s' => st_is s' f bs (nextb s')) (fun s' => st_is s' f bs (nextb s')).
Proof. change merge_links_inserted with true. apply pools_scn_post. Qed.

(* ================================================================== 5. TreeSet::Relocator::CreateNode and ~Relocator (seed 2-b) *)
Fixpoint create_steps (l : list cstmt) (sz : Z) : list mstep :=
  match l with
  | [] => []
  | SCallOn "mNewNodes" "Reserve" :: r => MReserve :: create_steps r sz
  | SDecl _ "Create" :: SCallOn "mNewNodes" "AddBackNogrow" :: r => MNode sz :: create_steps r sz
  | SDecl _ "Create" :: SCallOn "mNewNodes" "AddBack" :: r => MNodeBad sz :: create_steps r sz
  | _ :: r => create_steps r sz
  end.
Definition mstep_eqb (a b : mstep) : bool :=
  match a, b with
  | MReserve, MReserve => true
  | MNode x, MNode y => Z.eqb x y
  | MNodeBad x, MNodeBad y => Z.eqb x y
  | _, _ => false
  end.
Fixpoint msteps_eqb (a b : list mstep) : bool :=
  match a, b with [], [] => true | x :: a', y :: b' => mstep_eqb x y && msteps_eqb a' b' | _, _ => false end.
(* the generated CreateNode is "reserve the slot, then create and record", and the destructor walks mNewNodes *)
Definition relocator_good : bool :=
  msteps_eqb (create_steps relocator_create_node 0) (expand true (RCreate 0)) &&
  match relocator_dtor with [SLoopOver "mNewNodes" "node.Destroy"] => true | _ => false end.

Lemma create_steps_generated sz : create_steps relocator_create_node sz = expand true (RCreate sz).
Proof. reflexivity. Qed.
Lemma create_steps_seeded sz :
  create_steps [SDecl "node" "Create"; SCallOn "mNewNodes" "AddBack"; SReturn] sz = expand false (RCreate sz).
Proof. reflexivity. Qed.

Theorem gen_relocator_insertion_no_leak (mgr : Z) (esz : atag -> Z) (grow : nat -> nat) (f : loc -> bool) (g : bview) (nb0 : Z) :
  (forall b, nb0 <= b -> g b = None) ->
  forall ops s nb,
  nb0 <= nb -> st2 s f g nb ->
  olds_ok mgr g nb0 (rev (olds_of (flat_map (expand true) ops))) ->
  post (insertion mgr esz grow relocator_good ops) s
       (fun _ s' => exists r nb', nb0 <= nb' /\ r_olds r = rev (olds_of (flat_map (expand true) ops)) /\ st2 s' f (done_view mgr g r) nb')
       (fun s' => exists nb', nb0 <= nb' /\ st2 s' f g nb').
Proof. change relocator_good with true. apply insertion_no_leak. Qed.

(* ================================================================== 6. a noexcept function that allocates (f8cb4ff) *)
(* leaving a noexcept function by an exception is std::terminate: Stuck *)
Definition noexcept_call {A} (ne : bool) (m : M A) : M A := fun s =>
  match m s with
  | (Exc, s') => if ne then (Stuck, s') else (Exc, s')
  | r => r
  end.
(* select_on_container_copy_construction(): if the body builds the allocator from the base allocator it creates a new pool:
   one request to the base allocator; then the container copy takes n nodes, and everything is returned *)
Definition socc (ne alloc : bool) (mgr poolsz : Z) : M (option Z) :=
  noexcept_call ne (if alloc then (b <- p_alloc mgr poolsz ;; ret (Some b)) else ret None).
Definition container_copy (ne alloc : bool) (mgr poolsz : Z) : M unit :=
  p <- socc ne alloc mgr poolsz ;;
  match p with Some b => p_dealloc mgr b poolsz | None => ret tt end.

Lemma container_copy_post ne alloc mgr poolsz s f g nb :
  ne && alloc = false -> st2 s f g nb -> g nb = None ->
  post (container_copy ne alloc mgr poolsz) s (fun _ s' => exists nb', st2 s' f g nb') (fun s' => exists nb', st2 s' f g nb').
Proof.
  intros Hne H Hg. unfold container_copy, socc. apply post_bind.
  destruct alloc.
  - rewrite andb_true_r in Hne. subst ne. unfold noexcept_call, post.
    pose proof (p_alloc_post2 mgr poolsz s f g nb H) as P. unfold post, bind in *.
    destruct (p_alloc mgr poolsz s) as [[b| |] s1]; [| |contradiction].
    + destruct P as [Eb H1]. subst b. unfold ret.
      eapply post_conseq; [apply (p_dealloc_post2 mgr nb poolsz s1 f _ (nb + 1) H1)| |intros ? []].
      * cbv beta. rewrite Z.eqb_refl. reflexivity.
      * intros u s2 H2. exists (nb + 1). eapply st2_ext; [intros l; reflexivity| |exact H2].
        intros x. cbv beta. destruct (Z.eqb_spec nb x) as [E|E]; [subst x; symmetry; exact Hg|reflexivity].
    + exists nb. exact P.
  - unfold noexcept_call, post, ret. exists nb. exact H.
Qed.

Theorem gen_pool_allocator_copy_never_terminates mgr poolsz s f g nb :
  st2 s f g nb -> g nb = None ->
  post (container_copy socc_noexcept socc_allocates mgr poolsz) s (fun _ s' => exists nb', st2 s' f g nb') (fun s' => exists nb', st2 s' f g nb').
Proof. apply container_copy_post. reflexivity. Qed.

Theorem noexcept_allocating_refuted :
  exists sch, fst (container_copy true true 1 64 (mkR (fun _ => Raw) [] sch 0 [])) = Stuck.
Proof. exists [true]. reflexivity. Qed.

(* ================================================================== 7. MemPool::Data::Swap exchanges the managers unconditionally (fc18ee9) *)
Definition data_swap_unconditional : bool :=
  negb (existsb (fun st => match st with SIf => true | _ => false end) pool_data_swap) &&
  Nat.eqb (List.length (filter (fun st => match st with SCall "Assign" => true | _ => false end) pool_data_swap)) 2 &&
  existsb (fun st => match st with SSwap "allocCount" => true | _ => false end) pool_data_swap.

(* two tables; the row pool of each holds a POINTER to the manager stored in its table's crew block.  Swap exchanges the crews and
   the pools' data; `equal` = the two managers compare equal.  Afterwards the second table dies, then the first one uses its pool. *)
Record tbl := mkTb { t_crew : Z; t_mgrref : Z; t_buf : Z }.
Definition tbl_create (mgr crewsz bufsz : Z) : M tbl :=
  c <- p_alloc mgr crewsz ;; b <- p_alloc mgr bufsz ;; ret (mkTb c c b).
Definition tbl_swap (uncond equal : bool) (a b : tbl) : tbl * tbl :=
  if uncond || negb equal
  then (mkTb (t_crew b) (t_mgrref b) (t_buf b), mkTb (t_crew a) (t_mgrref a) (t_buf a))
  else (mkTb (t_crew b) (t_mgrref a) (t_buf b), mkTb (t_crew a) (t_mgrref b) (t_buf a)).
(* the pool returns its buffer THROUGH the manager it points to: the crew block holding that manager must be live *)
Definition tbl_destroy (mgr crewsz bufsz : Z) (t : tbl) : M unit :=
  p_touch_blk (t_mgrref t) ;;; p_dealloc mgr (t_buf t) bufsz ;;; p_dealloc mgr (t_crew t) crewsz.
Definition swap_scn (uncond equal : bool) (mgr crewsz bufsz : Z) : M unit :=
  a <- tbl_create mgr crewsz bufsz ;; b <- tbl_create mgr crewsz bufsz ;;
  let '(a', b') := tbl_swap uncond equal a b in
  tbl_destroy mgr crewsz bufsz b' ;;; tbl_destroy mgr crewsz bufsz a'.

Theorem gen_pool_swap_manager_pointers_follow (equal : bool) :
  let '(o, s') := swap_scn data_swap_unconditional equal 1 24 512 (mkR (fun _ => Raw) [] [] 0 []) in
  o = Val tt /\ blocks s' = [].
Proof. destruct equal; vm_compute; split; reflexivity. Qed.

Theorem pool_swap_skipping_equal_managers_refuted :
  fst (swap_scn false true 1 24 512 (mkR (fun _ => Raw) [] [] 0 [])) = Stuck.
Proof. reflexivity. Qed.

(* ================================================================== 8. the root-collapse loop of TreeSet::pvRebalance (c72d55b) *)
(* nodes are blocks; variables hold block ids; dereferencing a pointer (GetChild / GetParent / SetParent / Destroy) needs a live block *)
Definition venv := list (string * Z).
Fixpoint vget (v : string) (e : venv) : Z := match e with [] => -1 | (w, x) :: r => if String.eqb v w then x else vget v r end.
Definition vset (v : string) (x : Z) (e : venv) : venv := (v, x) :: e.
(* the tree: child0 and parent as association lists over block ids *)
Record heap := mkHp { h_child0 : list (Z * Z); h_parent : list (Z * Z) }.
Fixpoint zget (k : Z) (l : list (Z * Z)) : Z := match l with [] => -1 | (a, b) :: r => if Z.eqb a k then b else zget k r end.

Fixpoint peval (hp : heap) (e : venv) (p : pexpr) : M Z :=
  match p with
  | PVar v => ret (vget v e)
  | PChild0 q => b <- peval hp e q ;; p_touch_blk b ;;; ret (zget b (h_child0 hp))
  | PParent q => b <- peval hp e q ;; p_touch_blk b ;;; ret (zget b (h_parent hp))
  end.
Definition pvar (p : pexpr) : string := match p with PVar v => v | _ => "" end.
Fixpoint cexec (mgr nodesz : Z) (hp : heap) (st : cstmt) (e : venv) : M venv :=
  match st with
  | SLocal v p => x <- peval hp e p ;; ret (vset v x e)
  | SSet l p => x <- peval hp e p ;; ret (vset (pvar l) x e)
  | SIfEq a b s1 => x <- peval hp e a ;; y <- peval hp e b ;; if Z.eqb x y then cexec mgr nodesz hp s1 e else ret e
  | SDestroyP p => x <- peval hp e p ;; p_dealloc mgr x nodesz ;;; ret e
  | SSetParentNull p => x <- peval hp e p ;; p_touch_blk x ;;; ret e
  | _ => ret e
  end.
Fixpoint cexec_all (mgr nodesz : Z) (hp : heap) (l : list cstmt) (e : venv) : M venv :=
  match l with [] => ret e | st :: r => e' <- cexec mgr nodesz hp st e ;; cexec_all mgr nodesz hp r e' end.

(* an empty internal root (block 0) over its only child (block 1); `node` is the root itself (the separator of the root was removed
   and its left subtree is empty) or the child; one round of the loop, then the climbing loop's first read *)
Definition collapse_scn (body climb : list cstmt) (node : Z) : M unit :=
  let hp := mkHp [(0, 1)] [(1, 0)] in
  e <- cexec_all 1 96 hp body [("mRootNode", 0); ("node", node)] ;;
  _ <- cexec_all 1 96 hp climb e ;; ret tt.
Definition collapse_state : rstate := mkR (fun _ => Raw) [(1, (1, 96)); (0, (1, 96))] [] 2 [].

Theorem gen_rebalance_collapse_no_use_after_free :
  (let '(o, s') := collapse_scn rebalance_collapse rebalance_climb_reads 0 collapse_state in o = Val tt /\ map fst (blocks s') = [1]) /\
  (let '(o, s') := collapse_scn rebalance_collapse rebalance_climb_reads 1 collapse_state in o = Val tt /\ map fst (blocks s') = [1]).
Proof. split; vm_compute; split; reflexivity. Qed.

(* the loop body before c72d55b: `mRootNode = mRootNode->GetChild(0); mRootNode->GetParent()->Destroy(...); mRootNode->SetParent(nullptr);`
   with node == the old root: the climbing loop reads the destroyed node *)
Theorem rebalance_collapse_old_refuted :
  fst (collapse_scn [SSet (PVar "mRootNode") (PChild0 (PVar "mRootNode")); SDestroyP (PParent (PVar "mRootNode")); SSetParentNull (PVar "mRootNode")]
                    [SLocal "parentNode" (PParent (PVar "node"))] 0 collapse_state) = Stuck.
Proof. reflexivity. Qed.

(* ================================================================== all generated parameters at once *)
Theorem generated_parameters :
  hashset_ctor_fixed = true /\ treeset_ctor_fixed = true /\ datatable_fill_fixed = true /\ hmm_row_cleared = true /\
  mergeto_crew_travels = true /\ merge_links_inserted = true /\ relocator_good = true /\ data_swap_unconditional = true /\
  socc_noexcept && socc_allocates = false.
Proof. repeat split; reflexivity. Qed.
