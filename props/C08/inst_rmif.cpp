// instantiation TU for cxx2coq (C08): HashMultiMap::Remove(const PairFilter&)
#include "momo/HashMultiMap.h"
namespace momo {
struct C08Pred { bool operator()(const int&, const int64_t&) const { return true; } };
inline size_t c08_use_rmif(HashMultiMap<int, int64_t>& m) { C08Pred p; return m.Remove(p); }
}
