"""C17: translation of RadixSorter<8>::pvSelectionSort (a static member TEMPLATE with functor parameters and a local
std::array cache) from the real source.  Built on tools/cxx2coq.py (same AST dump, same expression/statement/loop machinery,
class Fn); this subclass only adds what that function needs and the shared translator does not have:

  * the local `std::array<Code, N> codes` is a state array (`codes : Z -> Z`), `codes[e]` reads/writes it;
  * the three functors are modelled on ghost state instead of being skipped:
      codeGetter(Next(begin, e))                -> (items e)          items : position -> code of the item now at that position
      iterSwapper(Next(begin,a), Next(begin,b)) -> items := swapf items a b
      groupFunc(Next(begin, a), c)              -> gpos[gnum] := a; gcnt[gnum] := c; gnum := gnum + 1   (log of the group calls)
  * std::swap(codes[a], codes[b])               -> codes := swapf codes a b
  * minIndex = Dist(codes.data(), std::min_element(codes.data() + lo, codes.data() + hi)) -> min_element_idx codes lo hi
    (std::min_element is a primitive: first minimum of [lo,hi), defined in SelPrims.v);
  * a `for (size_t i ...)` variable goes out of scope after its loop (the function has three loops over `i`).

Anything else in the body that the base class cannot translate is a TranslationError = broken tie.
"""
import os, sys, json
sys.path.insert(0, os.path.join(os.path.dirname(os.path.dirname(os.path.dirname(os.path.abspath(__file__)))), 'tools'))
import cxx2coq
from cxx2coq import TranslationError, skip_wrappers

FIELDS = {'codes': 'array', 'items': 'array', 'gpos': 'array', 'gcnt': 'array', 'gnum': 'scalar'}


def strip_casts(n):
    n = skip_wrappers(n)
    while n.get('kind') in ('ImplicitCastExpr',) and n.get('inner'):
        n = skip_wrappers(n['inner'][0])
    return n


def opinfo(n):
    """(operator name, object name, args) of `obj(args)` / `obj[arg]` on a named local/parameter, else None"""
    n = skip_wrappers(n)
    if n.get('kind') != 'CXXOperatorCallExpr' or len(n.get('inner', [])) < 2:
        return None
    callee = strip_casts(n['inner'][0]); obj = strip_casts(n['inner'][1])
    if callee.get('kind') != 'DeclRefExpr' or obj.get('kind') != 'DeclRefExpr':
        return None
    return callee['referencedDecl']['name'], obj['referencedDecl']['name'], n['inner'][2:]


def callinfo(n):
    n = skip_wrappers(n)
    if n.get('kind') != 'CallExpr':
        return None
    callee = strip_casts(n['inner'][0])
    if callee.get('kind') != 'DeclRefExpr':
        return None
    return callee['referencedDecl']['name'], n['inner'][1:]


class SelFn(cxx2coq.Fn):
    def pos(self, n):
        """UIntMath<>::Next(begin, e) -> e"""
        ci = callinfo(n)
        if ci is None or ci[0] != 'Next' or len(ci[1]) != 2:
            raise TranslationError('iterator argument is not Next(begin, e)')
        b = strip_casts(ci[1][0])
        if b.get('kind') != 'DeclRefExpr' or b['referencedDecl']['name'] != 'begin':
            raise TranslationError('Next() not applied to begin')
        return self.e(ci[1][1])

    def ptr_off(self, n):
        """codes.data() [+ e]* -> offset expression"""
        n = strip_casts(n)
        if n.get('kind') == 'CXXMemberCallExpr':
            m = strip_casts(n['inner'][0])
            o = strip_casts(m['inner'][0]) if m.get('inner') else {}
            if m.get('kind') == 'MemberExpr' and m.get('name') == 'data' and o.get('kind') == 'DeclRefExpr' and o['referencedDecl']['name'] == 'codes':
                return '0'
        if n.get('kind') == 'BinaryOperator' and n.get('opcode') == '+':
            return '(%s + %s)' % (self.ptr_off(n['inner'][0]), self.e(n['inner'][1]))
        raise TranslationError('pointer expression into codes[] not recognised: ' + str(n.get('kind')))

    # ---- expressions
    def e(self, n):
        oi = opinfo(n)
        if oi is not None:
            op, obj, args = oi
            if op == 'operator[]' and obj == 'codes':
                return '(codes %s)' % self.e(args[0])
            if op == 'operator()' and obj == 'codeGetter':
                return '(items %s)' % self.pos(args[0])
            raise TranslationError('operator call %s on %s' % (op, obj))
        return super().e(n)

    def lhs_name(self, l):
        oi = opinfo(l)
        if oi is not None and oi[0] == 'operator[]' and oi[1] == 'codes':
            return 'codes'
        return super().lhs_name(l)

    def assign_to(self, lhs, val, k):
        oi = opinfo(lhs)
        if oi is not None and oi[0] == 'operator[]' and oi[1] == 'codes':
            self.note_write('codes')
            return 'let codes := upd codes %s %s in\n%s' % (self.e(oi[2][0]), val, k())
        return super().assign_to(lhs, val, k)

    # ---- statements
    def expr_stmt(self, s, rest):
        oi = opinfo(s)
        if oi is not None and oi[0] == 'operator()' and oi[1] == 'iterSwapper':
            a = self.pos(oi[2][0]); b = self.pos(oi[2][1]); self.note_write('items')
            return 'let items := swapf items %s %s in\n%s' % (a, b, rest())
        if oi is not None and oi[0] == 'operator()' and oi[1] == 'groupFunc':
            a = self.pos(oi[2][0]); c = self.e(oi[2][1])
            for f in ('gpos', 'gcnt', 'gnum'): self.note_write(f)
            return ('let gpos := upd gpos gnum %s in\nlet gcnt := upd gcnt gnum %s in\nlet gnum := (wrapU 64 (gnum + 1)) in\n%s' % (a, c, rest()))
        ci = callinfo(s)
        if ci is not None and ci[0] == 'swap' and len(ci[1]) == 2:
            o1 = opinfo(ci[1][0]); o2 = opinfo(ci[1][1])
            if o1 and o2 and o1[:2] == ('operator[]', 'codes') and o2[:2] == ('operator[]', 'codes'):
                self.note_write('codes')
                return 'let codes := swapf codes %s %s in\n%s' % (self.e(o1[2][0]), self.e(o2[2][0]), rest())
            raise TranslationError('std::swap on something else than two codes[] elements')
        return super().expr_stmt(s, rest)

    def decl(self, s, rest):
        vs = [v for v in s.get('inner', []) if v.get('kind') == 'VarDecl']
        if len(vs) == 1 and vs[0]['name'] == 'codes':
            if 'std::array' not in vs[0]['type']['qualType']:
                raise TranslationError('codes is no longer a std::array')
            return rest()                      # the cache is a state array (initial contents arbitrary)
        if len(vs) == 1 and vs[0]['name'] == 'minIndex':
            init = [x for x in vs[0].get('inner', []) if isinstance(x, dict)]
            ci = callinfo(init[0]) if init else None
            if ci is None or ci[0] != 'Dist' or self.ptr_off(ci[1][0]) != '0':
                raise TranslationError('minIndex is not Dist(codes.data(), ...)')
            mi = callinfo(ci[1][1])
            if mi is None or mi[0] != 'min_element' or len(mi[1]) != 2:
                raise TranslationError('minIndex is not computed by std::min_element(first, last)')
            lo = self.ptr_off(mi[1][0]); hi = self.ptr_off(mi[1][1])
            self.env['minIndex'] = ('u', 64)
            return 'let minIndex := (min_element_idx codes %s %s) in\n%s' % (lo, hi, rest())
        return super().decl(s, rest)

    def loop(self, s, rest, jc):
        names = []
        if s['kind'] == 'ForStmt' and isinstance(s['inner'][0], dict) and s['inner'][0].get('kind') == 'DeclStmt':
            names = [v['name'] for v in s['inner'][0].get('inner', []) if v.get('kind') == 'VarDecl']
        def rest2():
            for nm in names:
                self.env.pop(nm, None)        # the for-variable goes out of scope
            return rest()
        return super().loop(s, rest2, jc)

    # ---- which state a piece of code reads / writes (for the loop state tuples)
    def assigned(self, n, acc, declared):
        oi = opinfo(n)
        if oi is not None and oi[0] == 'operator()' and oi[1] == 'iterSwapper':
            acc.add('items')
        if oi is not None and oi[0] == 'operator()' and oi[1] == 'groupFunc':
            acc.update(('gpos', 'gcnt', 'gnum'))
        ci = callinfo(n)
        if ci is not None and ci[0] == 'swap':
            acc.add('codes')
        return super().assigned(n, acc, declared)

    def used_names(self, n, acc):
        oi = opinfo(n) if isinstance(n, dict) and n.get('kind') == 'CXXOperatorCallExpr' else None
        if oi is not None and oi[1] in ('codeGetter', 'iterSwapper'):
            acc.add('items')
        if oi is not None and oi[1] == 'groupFunc':
            acc.update(('gpos', 'gcnt', 'gnum'))
        if oi is not None and oi[1] == 'codes':
            acc.add('codes')
        return super().used_names(n, acc)


def find_method(n, name, acc):
    if isinstance(n, dict):
        if n.get('kind') == 'CXXMethodDecl' and n.get('name') == name and any(c.get('kind') == 'CompoundStmt' for c in n.get('inner', [])) \
                and any(c.get('kind') == 'TemplateArgument' for c in n.get('inner', [])):
            acc.append(n)
        for c in n.get('inner', []):
            find_method(c, name, acc)


def translate(repo='/repo', tu=None):
    tu = tu or os.path.join(os.path.dirname(os.path.abspath(__file__)), 'inst_sel.cpp')
    cfg = {'name': 'Gen_SelSort', 'tu': tu, 'filter': 'RadixSorter', 'class': 'RadixSorter', 'fields': dict(FIELDS),
           'functions': ['pvSelectionSort'],
           'functor_params': {'pvSelectionSort': {'codeGetter': 'skip', 'iterSwapper': 'skip', 'groupFunc': 'skip'}},
           'fuel': {'pvSelectionSort': '(Z.to_nat 40)'}, 'includes': [os.path.join(repo, 'include')]}
    objs = cxx2coq.load_objs(cxx2coq.dump_ast(cfg, repo))
    acc = []
    for o in objs:
        find_method(o, 'pvSelectionSort', acc)
    if len(acc) != 1:
        raise TranslationError('expected exactly one instantiated pvSelectionSort, found %d' % len(acc))
    d = dict(acc[0]); d.pop('storageClass', None)      # ghost state is threaded like member fields
    ctx = cxx2coq.Ctx(cfg)
    f = SelFn(ctx, d, 'pvSelectionSort')
    try:
        txt = f.gen()
    except TranslationError as ex:
        raise TranslationError('RadixSorter::pvSelectionSort: %s' % ex)
    return ('(* GENERATED by props/C17/sel2coq.py (on tools/cxx2coq.py) from RadixSorter.h: RadixSorter<8>::pvSelectionSort -- do not edit *)\n\n'
            'From Coq Require Import ZArith Bool List.\nFrom MomoCommon Require Import GenPrelude.\nFrom C17 Require Import SelPrims.\n'
            'Local Open Scope Z_scope.\n\n' + txt + '\n')


if __name__ == '__main__':
    sys.stdout.write(translate())


# ======================================================================================================================
# grow round 2: the small RadixSorter functions (integral code getter, pvGetRadix, the first shift computed by Sort())
class RxFn(SelFn):
    """adds: `*iter` of the code getter is its value parameter; std::is_signed<Value>::value is evaluated from the
    instantiation's `Value` typedef; the call pvSort<Code>(..., shift) at the end of Sort() records its last argument in the
    state scalar first_shift (everything else about that call belongs to the pvSort model)"""
    is_signed_text = None

    def e(self, n):
        k = n.get('kind')
        if k == 'UnaryOperator' and n.get('opcode') == '*':
            t = strip_casts(n['inner'][0])
            if t.get('kind') == 'DeclRefExpr' and t['referencedDecl']['name'] == 'iter':
                return 'iter'
            raise TranslationError('dereference of something else than iter')
        if k == 'DeclRefExpr' and n['referencedDecl'].get('name') == 'value' and n['referencedDecl'].get('kind') == 'VarDecl' \
                and 'bool' in n.get('type', {}).get('qualType', '') and 'value' not in self.env:
            if self.is_signed_text is None:
                raise TranslationError('std::is_signed<...>::value outside a code getter')
            return self.is_signed_text
        return super().e(n)

    def expr_stmt(self, s, rest):
        ci = callinfo(s)
        if ci is not None and ci[0] == 'pvSort':
            self.note_write('first_shift')
            return 'let first_shift := %s in\n%s' % (self.e(ci[1][-1]), rest())
        return super().expr_stmt(s, rest)


def _methods(objs, name):
    acc = []
    def walk(n):
        if isinstance(n, dict):
            if n.get('kind') == 'CXXMethodDecl' and n.get('name') == name and any(c.get('kind') == 'CompoundStmt' for c in n.get('inner', [])):
                acc.append(n)
            for c in n.get('inner', []):
                walk(c)
    for o in objs:
        walk(o)
    return acc


def _value_type(decl):
    """desugared type of the `Value` typedef inside a code getter's operator()"""
    found = []
    def walk(n):
        if isinstance(n, dict):
            if n.get('kind') == 'TypedefDecl' and n.get('name') == 'Value':
                found.append(n['type'].get('desugaredQualType') or n['type'].get('qualType'))
            for c in n.get('inner', []):
                walk(c)
    walk(decl)
    if len(found) != 1:
        raise TranslationError('code getter without a single `Value` typedef')
    return found[0]


def _gen_one(decl, outname, fields, symbolic=(), is_signed=None, ret=None, drop_static=True, fuel=None):
    cfg = {'name': 'Gen_Radix', 'fields': dict(fields), 'symbolic': list(symbolic), 'functions': [],
           'functor_params': {decl['name']: {'codeGetter': 'skip', 'iterSwapper': 'skip', 'groupFunc': 'skip'}},
           'ret_types': ({decl['name']: ret} if ret else {}), 'fuel': ({decl['name']: fuel} if fuel else {})}
    d = dict(decl)
    if drop_static:
        d.pop('storageClass', None)
    ctx = cxx2coq.Ctx(cfg)
    f = RxFn(ctx, d, outname)
    f.is_signed_text = is_signed
    try:
        txt = f.gen()
    except TranslationError as ex:
        raise TranslationError('%s (%s): %s' % (decl['name'], outname, ex))
    return txt, ctx


def translate_radix(repo='/repo', tu=None):
    """Gen_Radix.v: code getters for int/uint 8..64, pvGetRadix (64-bit and 8-bit code instantiations), first shift of Sort()
    for RadixSorter<8> on 64-bit codes and RadixSorter<16> on 8-bit codes.  radixSize is kept symbolic (Section variable)."""
    tu = tu or os.path.join(os.path.dirname(os.path.abspath(__file__)), 'inst_radix.cpp')
    cfg = {'tu': tu, 'filter': 'RadixSorter', 'includes': [os.path.join(repo, 'include')]}
    objs = cxx2coq.load_objs(cxx2coq.dump_ast(cfg, repo))
    out = []
    names = {'signed char': 's8', 'short': 's16', 'int': 's32', 'long': 's64',
             'unsigned char': 'u8', 'unsigned short': 'u16', 'unsigned int': 'u32', 'unsigned long': 'u64'}
    seen = set()
    for d in _methods(objs, 'operator()'):
        ps = [p for p in d.get('inner', []) if p.get('kind') == 'ParmVarDecl']
        if len(ps) != 1 or ps[0].get('name') != 'iter' or 'RadixSorterCodeGetter<' not in d['type']['qualType']:
            continue
        vt = (ps[0]['type'].get('desugaredQualType') or ps[0]['type']['qualType']).strip()
        if not vt.endswith('*'):
            continue
        vt = vt[:-1].strip()           # value type = pointee of the iterator parameter (std::is_signed is evaluated from it)
        if vt not in names or vt in seen:
            continue
        seen.add(vt)
        signed = not vt.startswith('unsigned')
        code_t = 'unsigned ' + {'signed char': 'char', 'unsigned char': 'char', 'short': 'short', 'unsigned short': 'short',
                                'int': 'int', 'unsigned int': 'int', 'long': 'long', 'unsigned long': 'long'}[vt]
        txt, _ = _gen_one(d, 'code_getter_' + names[vt], {}, is_signed=('true' if signed else 'false'), ret=code_t)
        out.append(txt)
    if seen != set(names):
        raise TranslationError('code getter instantiations missing: %s' % sorted(set(names) - seen))
    sec = []
    for d in _methods(objs, 'pvGetRadix'):
        q = d['type']['qualType']
        if q.startswith('size_t (unsigned long,'):
            sec.append(_gen_one(d, 'pvGetRadix_u64', {}, symbolic=['radixSize'])[0])
        elif q.startswith('size_t (unsigned char,'):
            sec.append(_gen_one(d, 'pvGetRadix_u8', {}, symbolic=['radixSize'])[0])
    for d in _methods(objs, 'Sort'):
        q = d['type']['qualType']
        if q.startswith('void (unsigned long *, size_t, const momo::internal::C17CodeGetter64'):
            sec.append(_gen_one(d, 'Sort_first_shift_u64', {'first_shift': 'scalar'}, symbolic=['radixSize'])[0])
        elif q.startswith('void (unsigned char *, size_t, const momo::internal::C17CodeGetter8'):
            sec.append(_gen_one(d, 'Sort_first_shift_u8', {'first_shift': 'scalar'}, symbolic=['radixSize'])[0])
    if len(sec) != 4:
        raise TranslationError('expected pvGetRadix x2 and Sort x2 instantiations, translated %d' % len(sec))
    return ('(* GENERATED by props/C17/sel2coq.py (on tools/cxx2coq.py) from RadixSorter.h: integral RadixSorterCodeGetter::operator()\n'
            '   for 8 value types, pvGetRadix and the first shift of Sort() for two instantiations -- do not edit *)\n\n'
            'From Coq Require Import ZArith Bool List.\nFrom MomoCommon Require Import GenPrelude.\nLocal Open Scope Z_scope.\n\n'
            + '\n\n'.join(out) + '\n\nSection Gen_Radix_sec.\nVariable radixSize : Z.\n\n' + '\n\n'.join(sec) + '\n\nEnd Gen_Radix_sec.\n')


# ======================================================================================================================
# grow round 2, part 2: the counting pass + prefix sums of pvRadixSort (first overload), translated from the source
class CntFn(RxFn):
    """endIndexes (local std::array<size_t, radixCount>) is a state array; endIndexes.fill(0) resets it; singleCode /
    singleRadix are state booleans; codeGetter(begin) reads items 0; pvGetRadix<Code>(c, s) is the generated pvGetRadix_u64;
    `b &= e` on bools is andb."""
    ARR = 'endIndexes'

    def pos(self, n):
        t = strip_casts(n)
        if t.get('kind') == 'DeclRefExpr' and t['referencedDecl']['name'] == 'begin':
            return '(0)'
        return super().pos(n)

    def e(self, n):
        oi = opinfo(n)
        if oi is not None and oi[0] == 'operator[]' and oi[1] == self.ARR:
            return '(%s %s)' % (self.ARR, self.e(oi[2][0]))
        ci = callinfo(n)
        if ci is not None and ci[0] == 'pvGetRadix' and len(ci[1]) == 2:
            return '(pvGetRadix_u64 %s %s)' % (self.e(ci[1][0]), self.e(ci[1][1]))
        return super().e(n)

    def lhs_name(self, l):
        oi = opinfo(l)
        if oi is not None and oi[0] == 'operator[]' and oi[1] == self.ARR:
            return self.ARR
        return super().lhs_name(l)

    def assign_to(self, lhs, val, k):
        oi = opinfo(lhs)
        if oi is not None and oi[0] == 'operator[]' and oi[1] == self.ARR:
            self.note_write(self.ARR)
            return 'let %s := upd %s %s %s in\n%s' % (self.ARR, self.ARR, self.e(oi[2][0]), val, k())
        return super().assign_to(lhs, val, k)

    def used_names(self, n, acc):
        oi = opinfo(n) if isinstance(n, dict) and n.get('kind') == 'CXXOperatorCallExpr' else None
        if oi is not None and oi[1] == self.ARR:
            acc.add(self.ARR)
        return super().used_names(n, acc)

    def decl(self, s, rest):
        vs = [v for v in s.get('inner', []) if v.get('kind') == 'VarDecl']
        if len(vs) == 1 and vs[0]['name'] == self.ARR:
            if 'std::array' not in vs[0]['type']['qualType']:
                raise TranslationError('%s is no longer a std::array' % self.ARR)
            return rest()
        if len(vs) == 1 and vs[0]['name'] in ('singleCode', 'singleRadix'):
            init = [x for x in vs[0].get('inner', []) if isinstance(x, dict)]
            self.note_write(vs[0]['name'])
            return 'let %s := %s in\n%s' % (vs[0]['name'], self.e(init[0]), rest())
        return super().decl(s, rest)

    def expr_stmt(self, s, rest):
        s0 = skip_wrappers(s)
        if s0.get('kind') == 'CXXMemberCallExpr':
            m = strip_casts(s0['inner'][0]); o = strip_casts(m['inner'][0]) if m.get('inner') else {}
            if m.get('kind') == 'MemberExpr' and m.get('name') == 'fill' and o.get('kind') == 'DeclRefExpr' and o['referencedDecl']['name'] == self.ARR:
                self.note_write(self.ARR)
                return 'let %s := (fun _ : Z => %s) in\n%s' % (self.ARR, self.e(s0['inner'][1]), rest())
        if s0.get('kind') == 'CompoundAssignOperator' and s0.get('opcode') == '&=':
            l = strip_casts(s0['inner'][0])
            if l.get('kind') == 'DeclRefExpr' and l['referencedDecl']['name'] in ('singleCode', 'singleRadix'):
                nm = l['referencedDecl']['name']; self.note_write(nm)
                rhs = strip_casts(s0['inner'][1])        # bool -> int promotion of the right operand
                return 'let %s := (andb %s %s) in\n%s' % (nm, nm, self.e(rhs), rest())
        return super().expr_stmt(s, rest)


def _cond_refs(n, name):
    c = strip_casts(n)
    return c.get('kind') == 'DeclRefExpr' and c['referencedDecl']['name'] == name


def translate_count(repo='/repo', tu=None):
    """Gen_RadixCount.v: the part of RadixSorter<8>::pvRadixSort (first overload, 64-bit codes) from its beginning to the
    end of the counting loop, followed by its prefix-sum loop (the statements in between -- the singleCode / singleRadix
    shortcuts and nextShift -- do not touch endIndexes and are checked to have exactly that shape)."""
    tu = tu or os.path.join(os.path.dirname(os.path.abspath(__file__)), 'inst_radix.cpp')
    cfg = {'tu': tu, 'filter': 'RadixSorter', 'includes': [os.path.join(repo, 'include')]}
    objs = cxx2coq.load_objs(cxx2coq.dump_ast(cfg, repo))
    cands = [d for d in _methods(objs, 'pvRadixSort')
             if d['type']['qualType'].startswith('void (unsigned long *, size_t, const momo::internal::C17CodeGetter64')]
    if len(cands) != 1:
        raise TranslationError('expected one instantiated pvRadixSort(begin, count, ...) for 64-bit codes, found %d' % len(cands))
    d = dict(cands[0]); d.pop('storageClass', None)
    body = [c for c in d['inner'] if c.get('kind') == 'CompoundStmt'][0]
    st = body['inner']
    cut = [i for i, x in enumerate(st) if x.get('kind') == 'IfStmt' and _cond_refs(x['inner'][0], 'singleCode')]
    if len(cut) != 1:
        raise TranslationError('pvRadixSort: `if (singleCode)` not found exactly once')
    cut = cut[0]
    mid = st[cut:]
    # shape of the skipped part: if (singleCode) return groupFunc(..); size_t nextShift = ..; if (singleRadix) {..}; for (prefix sums)
    kinds = [x.get('kind') for x in mid[:4]]
    if kinds != ['IfStmt', 'DeclStmt', 'IfStmt', 'ForStmt'] or not _cond_refs(mid[2]['inner'][0], 'singleRadix'):
        raise TranslationError('pvRadixSort: statements after the counting loop changed shape: %s' % kinds)
    if 'endIndexes' in json.dumps(mid[0]) or 'endIndexes' in json.dumps(mid[1]) or 'endIndexes' in json.dumps(mid[2]):
        raise TranslationError('pvRadixSort: the singleCode/singleRadix shortcuts touch endIndexes')
    body2 = dict(body); body2['inner'] = st[:cut] + [mid[3]]
    d['inner'] = [c if c.get('kind') != 'CompoundStmt' else body2 for c in d['inner']]
    fields = {'endIndexes': 'array', 'items': 'array', 'singleCode': 'bool', 'singleRadix': 'bool'}
    cfgf = {'name': 'Gen_RadixCount', 'fields': fields, 'symbolic': ['radixSize', 'radixCount'], 'functions': [],
            'functor_params': {'pvRadixSort': {'codeGetter': 'skip', 'iterSwapper': 'skip', 'groupFunc': 'skip'}},
            'fuel': {'pvRadixSort': 'loop_fuel'}}
    ctx = cxx2coq.Ctx(cfgf)
    f = CntFn(ctx, d, 'pvRadixSort_count')
    try:
        txt = f.gen()
    except TranslationError as ex:
        raise TranslationError('pvRadixSort (counting pass): %s' % ex)
    return ('(* GENERATED by props/C17/sel2coq.py (on tools/cxx2coq.py) from RadixSorter.h: counting pass + prefix sums of\n'
            '   RadixSorter<8>::pvRadixSort(begin, count, ...) on 64-bit codes -- do not edit *)\n\n'
            'From Coq Require Import ZArith Bool List.\nFrom MomoCommon Require Import GenPrelude.\nFrom C17 Require Import Gen_Radix.\n'
            'Local Open Scope Z_scope.\n\nSection Gen_RadixCount_sec.\nVariable radixSize : Z.\nVariable radixCount : Z.\nVariable loop_fuel : nat.\n'
            'Local Notation pvGetRadix_u64 := (Gen_Radix.pvGetRadix_u64 radixSize).\n\n' + txt + '\n\nEnd Gen_RadixCount_sec.\n')


# ======================================================================================================================
# grow round 2, part 3: the in-place cycle-leader permutation (second pvRadixSort overload), translated from the source
class CycFn(CntFn):
    """beginIndexes (local std::array) and endIndexes (const std::array& parameter) are state arrays; the local reference
    `size_t& beginIndex = beginIndexes[r]` is an alias: every use re-reads beginIndexes[r] (r is not assigned while the alias
    is alive -- checked)."""
    ARRS = ('endIndexes', 'beginIndexes')

    def __init__(self, *a, **k):
        super().__init__(*a, **k)
        self.alias = {}

    def e(self, n):
        oi = opinfo(n)
        if oi is not None and oi[0] == 'operator[]' and oi[1] in self.ARRS:
            return '(%s %s)' % (oi[1], self.e(oi[2][0]))
        if n.get('kind') == 'DeclRefExpr' and n['referencedDecl'].get('name') in self.alias:
            arr, idx = self.alias[n['referencedDecl']['name']]
            return '(%s %s)' % (arr, idx)
        return super().e(n)

    def lhs_name(self, l):
        oi = opinfo(l)
        if oi is not None and oi[0] == 'operator[]' and oi[1] in self.ARRS:
            return oi[1]
        return super().lhs_name(l)

    def assign_to(self, lhs, val, k):
        oi = opinfo(lhs)
        if oi is not None and oi[0] == 'operator[]' and oi[1] in self.ARRS:
            self.note_write(oi[1])
            return 'let %s := upd %s %s %s in\n%s' % (oi[1], oi[1], self.e(oi[2][0]), val, k())
        return super().assign_to(lhs, val, k)

    def used_names(self, n, acc):
        if isinstance(n, dict):
            oi = opinfo(n) if n.get('kind') == 'CXXOperatorCallExpr' else None
            if oi is not None and oi[1] in self.ARRS:
                acc.add(oi[1])
            if n.get('kind') == 'DeclRefExpr' and n['referencedDecl'].get('name') in self.alias:
                acc.add(self.alias[n['referencedDecl']['name']][0])
        return super().used_names(n, acc)

    def ref_alias_base(self, v):
        init = [x for x in v.get('inner', []) if isinstance(x, dict)]
        oi = opinfo(init[0]) if init else None
        if v.get('type', {}).get('qualType', '').strip().endswith('&') and oi is not None and oi[0] == 'operator[]' and oi[1] in self.ARRS:
            return oi[1]          # handled by decl() below (read-only alias)
        return super().ref_alias_base(v)

    def decl(self, s, rest):
        vs = [v for v in s.get('inner', []) if v.get('kind') == 'VarDecl']
        if len(vs) == 1 and vs[0]['name'] in self.ARRS:
            if 'std::array' not in vs[0]['type']['qualType']:
                raise TranslationError('%s is no longer a std::array' % vs[0]['name'])
            return rest()
        if len(vs) == 1 and vs[0]['type']['qualType'].strip().endswith('&'):
            init = [x for x in vs[0].get('inner', []) if isinstance(x, dict)]
            oi = opinfo(init[0]) if init else None
            if oi is None or oi[0] != 'operator[]' or oi[1] not in self.ARRS:
                raise TranslationError('reference local %s is not bound to an element of a state array' % vs[0]['name'])
            idx = strip_casts(oi[2][0])
            if idx.get('kind') != 'DeclRefExpr':
                raise TranslationError('reference local bound to a non-variable index')
            self.alias[vs[0]['name']] = (oi[1], idx['referencedDecl']['name'])
            return rest()
        return super().decl(s, rest)


def translate_cycle(repo='/repo', tu=None):
    """Gen_RadixCycle.v: RadixSorter<8>::pvRadixSort(begin, codeGetter, iterSwapper, shift, endIndexes) on 64-bit codes"""
    tu = tu or os.path.join(os.path.dirname(os.path.abspath(__file__)), 'inst_radix.cpp')
    cfg = {'tu': tu, 'filter': 'RadixSorter', 'includes': [os.path.join(repo, 'include')]}
    objs = cxx2coq.load_objs(cxx2coq.dump_ast(cfg, repo))
    cands = [d for d in _methods(objs, 'pvRadixSort')
             if d['type']['qualType'].startswith('void (unsigned long *, const momo::internal::C17CodeGetter64')]
    if len(cands) != 1:
        raise TranslationError('expected one instantiated pvRadixSort(begin, codeGetter, iterSwapper, shift, endIndexes), found %d' % len(cands))
    d = dict(cands[0]); d.pop('storageClass', None)
    fields = {'endIndexes': 'array', 'beginIndexes': 'array', 'items': 'array', 'swa': 'array', 'swb': 'array', 'swn': 'scalar'}
    cfgf = {'name': 'Gen_RadixCycle', 'fields': fields, 'symbolic': ['radixSize', 'radixCount'], 'functions': [],
            'functor_params': {'pvRadixSort': {'codeGetter': 'skip', 'iterSwapper': 'skip'}}, 'skip_params': {'pvRadixSort': ['endIndexes']},
            'fuel': {'pvRadixSort': 'loop_fuel'}}
    ctx = cxx2coq.Ctx(cfgf)
    f = CycLogFn(ctx, d, 'pvRadixSort_cycle')
    try:
        txt = f.gen()
    except TranslationError as ex:
        raise TranslationError('pvRadixSort (cycle-leader loop): %s' % ex)
    return ('(* GENERATED by props/C17/sel2coq.py (on tools/cxx2coq.py) from RadixSorter.h: the in-place cycle-leader permutation\n'
            '   RadixSorter<8>::pvRadixSort(begin, codeGetter, iterSwapper, shift, endIndexes) on 64-bit codes -- do not edit *)\n\n'
            'From Coq Require Import ZArith Bool List.\nFrom MomoCommon Require Import GenPrelude.\nFrom C17 Require Import SelPrims Gen_Radix.\n'
            'Local Open Scope Z_scope.\n\nSection Gen_RadixCycle_sec.\nVariable radixSize : Z.\nVariable radixCount : Z.\nVariable loop_fuel : nat.\n'
            'Local Notation pvGetRadix_u64 := (Gen_Radix.pvGetRadix_u64 radixSize).\n\n' + txt + '\n\nEnd Gen_RadixCycle_sec.\n')


class CycLogFn(CycFn):
    """additionally logs every iterSwapper call (swa[swn], swb[swn], swn) so that the run-time comparison sees the swap order"""
    def expr_stmt(self, s, rest):
        oi = opinfo(s)
        if oi is not None and oi[0] == 'operator()' and oi[1] == 'iterSwapper':
            a = self.pos(oi[2][0]); b = self.pos(oi[2][1])
            for f in ('items', 'swa', 'swb', 'swn'): self.note_write(f)
            return ('let swa := upd swa swn %s in\nlet swb := upd swb swn %s in\nlet swn := (wrapU 64 (swn + 1)) in\n'
                    'let items := swapf items %s %s in\n%s' % (a, b, a, b, rest()))
        return super().expr_stmt(s, rest)

    def assigned(self, n, acc, declared):
        oi = opinfo(n)
        if oi is not None and oi[0] == 'operator()' and oi[1] == 'iterSwapper':
            acc.update(('swa', 'swb', 'swn'))
        return super().assigned(n, acc, declared)

    def used_names(self, n, acc):
        oi = opinfo(n) if isinstance(n, dict) and n.get('kind') == 'CXXOperatorCallExpr' else None
        if oi is not None and oi[1] == 'iterSwapper':
            acc.update(('swa', 'swb', 'swn'))
        return super().used_names(n, acc)


# ======================================================================================================================
# grow round 3: the entry guards of HashSorter::pvFindHash / pvIsSorted (fix 2715474)
def _leading_guards(fn, body):
    """the leading `if (cond) return value;` statements of a function body: [(cond text, returned bool literal)]"""
    out = []
    for st in body.get('inner', []):
        if st.get('kind') != 'IfStmt' or len(st.get('inner', [])) != 2:
            break
        th = st['inner'][1]
        while th.get('kind') == 'CompoundStmt' and len(th.get('inner', [])) == 1:
            th = th['inner'][0]
        if th.get('kind') != 'ReturnStmt':
            break
        lits = []
        def walk(n):
            if isinstance(n, dict):
                if n.get('kind') == 'CXXBoolLiteralExpr':
                    lits.append(bool(n['value']))
                for c in n.get('inner', []):
                    walk(c)
        walk(th)
        if len(lits) != 1:
            raise TranslationError('guard return value has %d boolean literals' % len(lits))
        out.append((fn.e(st['inner'][0]), 'true' if lits[0] else 'false'))
    return out


def translate_guards(repo='/repo', tu=None):
    """Gen_HsGuards.v: for pvFindHash and pvIsSorted, the disjunction of the leading early-return conditions (false if the
    function has none) and the boolean they return (found flag / sortedness)."""
    tu = tu or os.path.join(os.path.dirname(os.path.abspath(__file__)), 'inst_hs.cpp')
    cfg = {'tu': tu, 'filter': 'HashSorter', 'includes': [os.path.join(repo, 'include')]}
    objs = cxx2coq.load_objs(cxx2coq.dump_ast(cfg, repo))
    out = []
    for name in ('pvFindHash', 'pvIsSorted'):
        ds = [d for d in _methods(objs, name) if any(c.get('kind') == 'TemplateArgument' for c in d.get('inner', []))]
        if len(ds) != 1:
            raise TranslationError('expected one instantiated HashSorter::%s, found %d' % (name, len(ds)))
        d = dict(ds[0]); d.pop('storageClass', None)
        cfgf = {'name': 'Gen_HsGuards', 'fields': {}, 'functions': [],
                'functor_params': {name: {'iterHashFunc': 'skip', 'equalFunc': 'skip'}}, 'ret_types': {name: 'bool'}}
        f = RxFn(cxx2coq.Ctx(cfgf), d, name)
        body = [c for c in d['inner'] if c.get('kind') == 'CompoundStmt'][0]
        try:
            gs = _leading_guards(f, body)
        except TranslationError as ex:
            raise TranslationError('%s entry guard: %s' % (name, ex))
        if len(set(v for _, v in gs)) > 1:
            raise TranslationError('%s: leading guards return different values' % name)
        cond = ' || '.join('(%s)' % c for c, _ in gs) if gs else 'false'
        val = gs[0][1] if gs else 'false'
        out.append('(* %d leading `if (...) return ...;` statement(s) before the first dereference of begin *)\n'
                   'Definition %s_returns_early (count : Z) : bool := %s.\nDefinition %s_early_value : bool := %s.' % (len(gs), name, cond, name, val))
    return ('(* GENERATED by props/C17/sel2coq.py (on tools/cxx2coq.py) from HashSorter.h: entry guards of pvFindHash / pvIsSorted -- do not edit *)\n\n'
            'From Coq Require Import ZArith Bool List.\nFrom MomoCommon Require Import GenPrelude.\nLocal Open Scope Z_scope.\n\n' + '\n\n'.join(out) + '\n')


# ======================================================================================================================
# grow round 4: the interpolation loop of HashSorter::pvFindHash, translated from the source
class FhFn(RxFn):
    """iterHashFunc(SMath::Next(begin, e)) reads the state array `hash`; pvMultShift / pvGetStepCount are the generated
    leaves (Gen_Leaves); the lambdas and `auto res = pvExponentialSearch(ReverseIterator ...)` are not translated: every
    `return` of the function is replaced by an EXIT CODE saying which continuation the source takes there
      1 = `{ begin, false }` (empty sequence)          2 = pvExponentialSearch(Next(begin, leftIndex), rightIndex - leftIndex, iterComparer)
      3 = the reverse pvExponentialSearch branch        4 = `{ Next(begin, middleIndex), true }`
      5 = pvBinarySearch(Next(begin, leftIndex), rightIndex - leftIndex, iterComparer)   (after a `break`)
    The continuations themselves are the hand model's sub-searches (SorterSearch.v); the loop state at the exit is part of the
    generated loop function's result."""
    def e(self, n):
        oi = opinfo(n)
        if oi is not None and oi[0] == 'operator()' and oi[1] == 'iterHashFunc':
            return '(hash %s)' % self.pos(oi[2][0])
        ci = callinfo(n)
        if ci is not None and ci[0] in ('pvMultShift', 'pvGetStepCount'):
            return '(Gen_Leaves.%s %s)' % (ci[0], ' '.join(self.e(a) for a in ci[1]))
        return super().e(n)

    def used_names(self, n, acc):
        oi = opinfo(n) if isinstance(n, dict) and n.get('kind') == 'CXXOperatorCallExpr' else None
        if oi is not None and oi[1] == 'iterHashFunc':
            acc.add('hash')
        return super().used_names(n, acc)

    def decl(self, s, rest):
        vs = [v for v in s.get('inner', []) if v.get('kind') == 'VarDecl']
        if len(vs) == 1 and vs[0]['name'] in ('iterComparer', 'revCompareFunc', 'res'):
            return rest()
        return super().decl(s, rest)

    def ret_stmt(self, v, jc):
        txt = json.dumps(v)
        def has(name):
            return ('"name": "%s"' % name) in txt
        lits = []
        def walk(n):
            if isinstance(n, dict):
                if n.get('kind') == 'CXXBoolLiteralExpr':
                    lits.append(bool(n['value']))
                for c in n.get('inner', []):
                    walk(c)
        walk(v)
        if has('pvBinarySearch'): code = 5
        elif has('pvExponentialSearch'): code = 2
        elif has('res'): code = 3
        elif lits == [True] and has('middleIndex'): code = 4
        elif lits == [False]: code = 1
        else:
            raise TranslationError('pvFindHash: unrecognised return statement')
        return jc['ret']('(%d)' % code)


def translate_findhash(repo='/repo', tu=None):
    tu = tu or os.path.join(os.path.dirname(os.path.abspath(__file__)), 'inst_hs.cpp')
    cfg = {'tu': tu, 'filter': 'HashSorter', 'includes': [os.path.join(repo, 'include')]}
    objs = cxx2coq.load_objs(cxx2coq.dump_ast(cfg, repo))
    ds = [d for d in _methods(objs, 'pvFindHash') if any(c.get('kind') == 'TemplateArgument' for c in d.get('inner', []))]
    if len(ds) != 1:
        raise TranslationError('expected one instantiated HashSorter::pvFindHash, found %d' % len(ds))
    d = dict(ds[0]); d.pop('storageClass', None)
    cfgf = {'name': 'Gen_FindHash', 'fields': {'hash': 'array'}, 'functions': [],
            'functor_params': {'pvFindHash': {'iterHashFunc': 'skip'}}, 'ret_types': {'pvFindHash': 'unsigned long'},
            'fuel': {'pvFindHash': '5%nat'}}
    f = FhFn(cxx2coq.Ctx(cfgf), d, 'pvFindHash')
    try:
        txt = f.gen()
    except TranslationError as ex:
        raise TranslationError('pvFindHash: %s' % ex)
    return ('(* GENERATED by props/C17/sel2coq.py (on tools/cxx2coq.py) from HashSorter.h: the interpolation loop of pvFindHash;\n'
            '   returns are exit codes (see sel2coq.FhFn) -- do not edit *)\n\n'
            'From Coq Require Import ZArith Bool List.\nFrom MomoCommon Require Import GenPrelude.\nFrom C17 Require Gen_Leaves.\n'
            'Local Open Scope Z_scope.\n\n' + txt + '\n')


# ======================================================================================================================
# grow round 4, part 2: HashSorter::pvGroup, translated from the source
class GrpFn(SelFn):
    """equalFunc(*SMath::Next(begin, a), *SMath::Next(begin, b)) -> (eqf (items a) (items b)) with `items` = item handle at each
    position (ghost state, permuted by iterSwapper) and eqf a Section variable of Gen_Group.v"""
    def e(self, n):
        oi = opinfo(n)
        if oi is not None and oi[0] == 'operator()' and oi[1] == 'equalFunc':
            a, b = [self.deref_pos(x) for x in oi[2]]
            return '(eqf (items %s) (items %s))' % (a, b)
        return super().e(n)

    def deref_pos(self, n):
        t = strip_casts(n)
        if t.get('kind') == 'UnaryOperator' and t.get('opcode') == '*':
            return self.pos(t['inner'][0])
        raise TranslationError('equalFunc argument is not *Next(begin, e)')

    def used_names(self, n, acc):
        oi = opinfo(n) if isinstance(n, dict) and n.get('kind') == 'CXXOperatorCallExpr' else None
        if oi is not None and oi[1] == 'equalFunc':
            acc.add('items')
        return super().used_names(n, acc)


def translate_group(repo='/repo', tu=None):
    tu = tu or os.path.join(os.path.dirname(os.path.abspath(__file__)), 'inst_hs.cpp')
    cfg = {'tu': tu, 'filter': 'HashSorter', 'includes': [os.path.join(repo, 'include')]}
    objs = cxx2coq.load_objs(cxx2coq.dump_ast(cfg, repo))
    ds = [d for d in _methods(objs, 'pvGroup') if any(c.get('kind') == 'TemplateArgument' for c in d.get('inner', []))]
    if len(ds) < 1:
        raise TranslationError('no instantiated HashSorter::pvGroup')
    d = dict(ds[0]); d.pop('storageClass', None)
    cfgf = {'name': 'Gen_Group', 'fields': {'items': 'array'}, 'functions': [],
            'functor_params': {'pvGroup': {'equalFunc': 'skip', 'iterSwapper': 'skip'}}, 'fuel': {'pvGroup': 'loop_fuel'}}
    f = GrpFn(cxx2coq.Ctx(cfgf), d, 'pvGroup')
    try:
        txt = f.gen()
    except TranslationError as ex:
        raise TranslationError('pvGroup: %s' % ex)
    return ('(* GENERATED by props/C17/sel2coq.py (on tools/cxx2coq.py) from HashSorter.h: HashSorter::pvGroup -- do not edit *)\n\n'
            'From Coq Require Import ZArith Bool List.\nFrom MomoCommon Require Import GenPrelude.\nFrom C17 Require Import SelPrims.\n'
            'Local Open Scope Z_scope.\n\nSection Gen_Group_sec.\nVariable eqf : Z -> Z -> bool.\nVariable loop_fuel : nat.\n\n' + txt + '\n\nEnd Gen_Group_sec.\n')


# ======================================================================================================================
# grow round 5: pvBinarySearch / pvExponentialSearch (the continuations of pvFindHash), translated from the source
class SrchFn(RxFn):
    """iterComparer(SMath::Next(begin, e)) -> (cmp e) with cmp : Z -> Z a Section variable (the comparer on relative offsets);
    returns are exit codes:  pvBinarySearch: 1 = found at (leftIndex + rightIndex) / 2, 0 = not found at leftIndex;
    pvExponentialSearch: 1 = found at i, 2 = pvBinarySearch(Next(begin,leftIndex), i - leftIndex), 3 = pvBinarySearch(Next(begin,leftIndex), count - leftIndex)"""
    def e(self, n):
        oi = opinfo(n)
        if oi is not None and oi[0] == 'operator()' and oi[1] == 'iterComparer':
            return '(cmp %s)' % self.pos(oi[2][0])
        return super().e(n)

    def ret_stmt(self, v, jc):
        txt = json.dumps(v)
        def has(name):
            return ('"name": "%s"' % name) in txt
        lits = []
        def walk(n):
            if isinstance(n, dict):
                if n.get('kind') == 'CXXBoolLiteralExpr':
                    lits.append(bool(n['value']))
                for c in n.get('inner', []):
                    walk(c)
        walk(v)
        if self.name == 'pvBinarySearch':
            if lits == [True] and has('middleIndex'): code = 1
            elif lits == [False] and has('leftIndex'): code = 0
            else: raise TranslationError('pvBinarySearch: unrecognised return statement')
        else:
            if has('pvBinarySearch') and has('count'): code = 3
            elif has('pvBinarySearch'): code = 2
            elif lits == [True]: code = 1
            else: raise TranslationError('pvExponentialSearch: unrecognised return statement')
        return jc['ret']('(%d)' % code)


def translate_searches(repo='/repo', tu=None):
    tu = tu or os.path.join(os.path.dirname(os.path.abspath(__file__)), 'inst_hs.cpp')
    cfg = {'tu': tu, 'filter': 'HashSorter', 'includes': [os.path.join(repo, 'include')]}
    objs = cxx2coq.load_objs(cxx2coq.dump_ast(cfg, repo))
    out = []
    for name in ('pvBinarySearch', 'pvExponentialSearch'):
        ds = [d for d in _methods(objs, name) if any(c.get('kind') == 'TemplateArgument' for c in d.get('inner', []))
              and d['type']['qualType'].split('(')[1].startswith('unsigned long *')]
        if len(ds) < 1:
            raise TranslationError('no instantiated HashSorter::%s on a forward iterator' % name)
        d = dict(ds[0]); d.pop('storageClass', None)
        cfgf = {'name': 'Gen_Searches', 'fields': {}, 'functions': [], 'functor_params': {name: {'iterComparer': 'skip'}},
                'ret_types': {name: 'unsigned long'}, 'fuel': {name: 'loop_fuel'}}
        f = SrchFn(cxx2coq.Ctx(cfgf), d, name)
        try:
            out.append(f.gen())
        except TranslationError as ex:
            raise TranslationError('%s: %s' % (name, ex))
    return ('(* GENERATED by props/C17/sel2coq.py (on tools/cxx2coq.py) from HashSorter.h: pvBinarySearch, pvExponentialSearch;\n'
            '   returns are exit codes (see sel2coq.SrchFn) -- do not edit *)\n\n'
            'From Coq Require Import ZArith Bool List.\nFrom MomoCommon Require Import GenPrelude.\nLocal Open Scope Z_scope.\n\n'
            'Section Gen_Searches_sec.\nVariable cmp : Z -> Z.\nVariable loop_fuel : nat.\n\n' + '\n\n'.join(out) + '\n\nEnd Gen_Searches_sec.\n')


# ======================================================================================================================
# grow round 5, part 2: the group callback (lambda) of HashSorter::pvSort
def translate_group_lambda(repo='/repo', tu=None):
    """Gen_GroupLambda.v: the condition under which HashSorter::pvSort's groupFunc lambda calls pvGroup(begin, count, ...)"""
    tu = tu or os.path.join(os.path.dirname(os.path.abspath(__file__)), 'inst_hs.cpp')
    cfg = {'tu': tu, 'filter': 'HashSorter', 'includes': [os.path.join(repo, 'include')]}
    objs = cxx2coq.load_objs(cxx2coq.dump_ast(cfg, repo))
    ds = [d for d in _methods(objs, 'pvSort') if any(c.get('kind') == 'TemplateArgument' for c in d.get('inner', []))]
    if len(ds) < 1:
        raise TranslationError('no instantiated HashSorter::pvSort')
    lambdas = []
    def walk(n):
        if isinstance(n, dict):
            if n.get('kind') == 'LambdaExpr':
                lambdas.append(n)
            for c in n.get('inner', []):
                walk(c)
    walk(ds[0])
    if len(lambdas) != 1:
        raise TranslationError('HashSorter::pvSort: expected exactly one lambda (groupFunc), found %d' % len(lambdas))
    ops = _methods([lambdas[0]], 'operator()')
    if len(ops) != 1:
        raise TranslationError('groupFunc lambda without a single operator()')
    d = dict(ops[0])
    body = [c for c in d['inner'] if c.get('kind') == 'CompoundStmt'][0]
    st = body.get('inner', [])
    if len(st) != 1 or st[0].get('kind') != 'IfStmt' or len(st[0]['inner']) != 2:
        raise TranslationError('groupFunc lambda is no longer a single `if (cond) pvGroup(...)`')
    th = st[0]['inner'][1]
    while th.get('kind') == 'CompoundStmt' and len(th.get('inner', [])) == 1:
        th = th['inner'][0]
    ci = callinfo(th)
    if ci is None or ci[0] != 'pvGroup' or len(ci[1]) < 2:
        raise TranslationError('groupFunc lambda does not call pvGroup')
    a0 = strip_casts(ci[1][0]); a1 = strip_casts(ci[1][1])
    if a0.get('kind') != 'DeclRefExpr' or a0['referencedDecl']['name'] != 'begin' or a1.get('kind') != 'DeclRefExpr' or a1['referencedDecl']['name'] != 'count':
        raise TranslationError('groupFunc lambda does not pass (begin, count) to pvGroup')
    cfgf = {'name': 'Gen_GroupLambda', 'fields': {}, 'functions': [], 'ret_types': {'operator()': 'void'}}
    f = RxFn(cxx2coq.Ctx(cfgf), d, 'group_lambda')
    cond = f.e(st[0]['inner'][0])
    return ('(* GENERATED by props/C17/sel2coq.py (on tools/cxx2coq.py) from HashSorter.h: groupFunc lambda of HashSorter::pvSort -- do not edit *)\n\n'
            'From Coq Require Import ZArith Bool List.\nFrom MomoCommon Require Import GenPrelude.\nLocal Open Scope Z_scope.\n\n'
            '(* the lambda is `if (<this>) pvGroup(begin, count, equalFunc, iterSwapper);` *)\n'
            'Definition group_lambda_calls_pvGroup (count : Z) : bool := %s.\n' % cond)


# ======================================================================================================================
# grow round 6: HashSorter::pvIsGrouped / pvIsSorted, translated from the source
class IsFn(GrpFn):
    """`begin` is an offset (Z): SMath::Next(begin, e) denotes position begin + e, so that pvIsSorted's calls
    pvIsGrouped(SMath::Next(begin, prevIndex), n, equalFunc) translate to calls of the generated pvIsGrouped on a shifted range;
    iterHashFunc(x) reads the state array `hashes` at the position of x."""
    def pos(self, n):
        t = strip_casts(n)
        if t.get('kind') == 'DeclRefExpr' and t['referencedDecl']['name'] == 'begin':
            return 'begin'
        ci = callinfo(n)
        if ci is not None and ci[0] == 'Next' and len(ci[1]) == 2:
            b = strip_casts(ci[1][0])
            if b.get('kind') == 'DeclRefExpr' and b['referencedDecl']['name'] == 'begin':
                return '(begin + %s)' % self.e(ci[1][1])
        raise TranslationError('iterator expression is neither begin nor Next(begin, e)')

    def e(self, n):
        oi = opinfo(n)
        if oi is not None and oi[0] == 'operator()' and oi[1] == 'iterHashFunc':
            return '(hashes %s)' % self.pos(oi[2][0])
        ci = callinfo(n)
        if ci is not None and ci[0] == 'Next':
            return self.pos(n)
        return super().e(n)

    def used_names(self, n, acc):
        oi = opinfo(n) if isinstance(n, dict) and n.get('kind') == 'CXXOperatorCallExpr' else None
        if oi is not None and oi[1] == 'iterHashFunc':
            acc.add('hashes')
        return super().used_names(n, acc)


def _hoist_negated_calls(n, counter):
    """`if (!f(args)) S` -> `{ bool t = f(args); if (!t) S }` (f returns an outcome in the generated code, so it must be bound first)"""
    if not isinstance(n, dict):
        return n
    n = dict(n)
    if 'inner' in n:
        n['inner'] = [_hoist_negated_calls(c, counter) for c in n['inner']]
    if n.get('kind') == 'IfStmt' and n.get('inner'):
        c = strip_casts(n['inner'][0])
        if c.get('kind') == 'UnaryOperator' and c.get('opcode') == '!' and callinfo(c['inner'][0]) is not None and callinfo(c['inner'][0])[0] == 'pvIsGrouped':
            counter[0] += 1
            nm = 'grouped%d' % counter[0]
            var = {'kind': 'VarDecl', 'name': nm, 'type': {'qualType': 'bool'}, 'inner': [c['inner'][0]]}
            ref = {'kind': 'DeclRefExpr', 'type': {'qualType': 'bool'}, 'referencedDecl': {'kind': 'VarDecl', 'name': nm, 'type': {'qualType': 'bool'}}}
            cond = {'kind': 'UnaryOperator', 'opcode': '!', 'type': {'qualType': 'bool'}, 'inner': [ref]}
            ifs = dict(n); ifs['inner'] = [cond] + n['inner'][1:]
            return {'kind': 'CompoundStmt', 'inner': [{'kind': 'DeclStmt', 'inner': [var]}, ifs]}
    return n


def translate_issorted(repo='/repo', tu=None):
    tu = tu or os.path.join(os.path.dirname(os.path.abspath(__file__)), 'inst_hs.cpp')
    cfg = {'tu': tu, 'filter': 'HashSorter', 'includes': [os.path.join(repo, 'include')]}
    objs = cxx2coq.load_objs(cxx2coq.dump_ast(cfg, repo))
    cfgf = {'name': 'Gen_IsSorted', 'fields': {'items': 'array', 'hashes': 'array'}, 'functions': [],
            'functor_params': {'pvIsGrouped': {'equalFunc': 'skip'}, 'pvIsSorted': {'equalFunc': 'skip', 'iterHashFunc': 'skip'}},
            'ret_types': {'pvIsGrouped': 'bool', 'pvIsSorted': 'bool'}, 'fuel': {'pvIsGrouped': 'loop_fuel', 'pvIsSorted': 'loop_fuel'}}
    ctx = cxx2coq.Ctx(cfgf)
    out = []
    for name in ('pvIsGrouped', 'pvIsSorted'):
        ds = [d for d in _methods(objs, name) if any(c.get('kind') == 'TemplateArgument' for c in d.get('inner', []))]
        if len(ds) < 1:
            raise TranslationError('no instantiated HashSorter::%s' % name)
        d = dict(ds[0]); d.pop('storageClass', None)
        d = _hoist_negated_calls(d, [0])
        f = IsFn(ctx, d, name)
        try:
            out.append(f.gen())
        except TranslationError as ex:
            raise TranslationError('%s: %s' % (name, ex))
        ctx.fninfo[name] = f
        if hasattr(ctx, 'fninfo_id') and 'id' in d:
            ctx.fninfo_id[d['id']] = f
    return ('(* GENERATED by props/C17/sel2coq.py (on tools/cxx2coq.py) from HashSorter.h: pvIsGrouped, pvIsSorted -- do not edit *)\n\n'
            'From Coq Require Import ZArith Bool List.\nFrom MomoCommon Require Import GenPrelude.\nLocal Open Scope Z_scope.\n\n'
            'Section Gen_IsSorted_sec.\nVariable eqf : Z -> Z -> bool.\nVariable loop_fuel : nat.\n\n' + '\n\n'.join(out) + '\n\nEnd Gen_IsSorted_sec.\n')


# ======================================================================================================================
# last round: HashSorter::pvFindNext (forward-iterator instantiation), translated from the source
class FnxFn(IsFn):
    """iterators are absolute positions (begin is an offset, `Iterator iter = begin` a Z local); pvFindOther(iter, n, equalFunc) is
    the Section variable findOther : position -> count -> position (its contract comes from the hand model's pvFindOther, proved
    in Find_Proofs); SMath::Dist(begin, iter) = iter - begin; equalFunc(*iter, item) compares the item at iter with the parameter
    item; the two returns are exit codes 1 = { iter, true }, 0 = { iter, false } with iter in the loop state."""
    def pos(self, n):
        t = strip_casts(n)
        if t.get('kind') == 'DeclRefExpr' and t['referencedDecl']['name'] == 'iter':
            return 'iter'
        return super().pos(n)

    def e(self, n):
        oi = opinfo(n)
        if oi is not None and oi[0] == 'operator()' and oi[1] == 'equalFunc':
            a0 = self.deref_pos(oi[2][0]); b = strip_casts(oi[2][1])
            if b.get('kind') == 'DeclRefExpr' and b['referencedDecl']['name'] == 'item':
                return '(eqf (items %s) item)' % a0
        ci = callinfo(n)
        if ci is not None and ci[0] == 'pvFindOther':
            return '(findOther %s %s)' % (self.pos(ci[1][0]), self.e(ci[1][1]))
        if ci is not None and ci[0] == 'Dist' and len(ci[1]) == 2:
            return '(%s - %s)' % (self.pos(ci[1][1]), self.pos(ci[1][0]))
        t = strip_casts(n)
        if t.get('kind') == 'DeclRefExpr' and t['referencedDecl']['name'] == 'iter' and 'iter' in self.env:
            return 'iter'
        return super().e(n)

    def decl(self, s, rest):
        vs = [v for v in s.get('inner', []) if v.get('kind') == 'VarDecl']
        if len(vs) == 1 and vs[0]['name'] == 'iter':
            init = [x for x in vs[0].get('inner', []) if isinstance(x, dict)]
            self.env['iter'] = ('u', 64)
            return 'let iter := %s in\n%s' % (self.pos(init[0]), rest())
        return super().decl(s, rest)

    def ret_stmt(self, v, jc):
        lits = []
        def walk(n):
            if isinstance(n, dict):
                if n.get('kind') == 'CXXBoolLiteralExpr':
                    lits.append(bool(n['value']))
                for c in n.get('inner', []):
                    walk(c)
        walk(v)
        if len(lits) != 1 or ('"name": "iter"' not in json.dumps(v)):
            raise TranslationError('pvFindNext: unrecognised return statement')
        return jc['ret']('(%d)' % (1 if lits[0] else 0))


def translate_findnext(repo='/repo', tu=None):
    tu = tu or os.path.join(os.path.dirname(os.path.abspath(__file__)), 'inst_hs.cpp')
    cfg = {'tu': tu, 'filter': 'HashSorter', 'includes': [os.path.join(repo, 'include')]}
    objs = cxx2coq.load_objs(cxx2coq.dump_ast(cfg, repo))
    ds = [d for d in _methods(objs, 'pvFindNext') if any(c.get('kind') == 'TemplateArgument' for c in d.get('inner', []))
          and '(unsigned long *,' in d['type']['qualType']]
    if len(ds) != 1:
        raise TranslationError('expected one forward-iterator instantiation of HashSorter::pvFindNext, found %d' % len(ds))
    d = dict(ds[0]); d.pop('storageClass', None)
    # `item` is `const value_type&` of the instantiation (an item handle = 64-bit value here)
    d['inner'] = [dict(c, type={'qualType': 'unsigned long'}) if (c.get('kind') == 'ParmVarDecl' and c.get('name') == 'item') else c for c in d['inner']]
    cfgf = {'name': 'Gen_FindNext', 'fields': {'items': 'array', 'hashes': 'array'}, 'functions': [],
            'functor_params': {'pvFindNext': {'iterHashFunc': 'skip', 'equalFunc': 'skip'}}, 'ret_types': {'pvFindNext': 'unsigned long'},
            'fuel': {'pvFindNext': 'loop_fuel'}}
    f = FnxFn(cxx2coq.Ctx(cfgf), d, 'pvFindNext')
    try:
        txt = f.gen()
    except TranslationError as ex:
        raise TranslationError('pvFindNext: %s' % ex)
    return ('(* GENERATED by props/C17/sel2coq.py (on tools/cxx2coq.py) from HashSorter.h: pvFindNext (forward iterators); returns are\n'
            '   exit codes, pvFindOther is the Section variable findOther (see sel2coq.FnxFn) -- do not edit *)\n\n'
            'From Coq Require Import ZArith Bool List.\nFrom MomoCommon Require Import GenPrelude.\nLocal Open Scope Z_scope.\n\n'
            'Section Gen_FindNext_sec.\nVariable eqf : Z -> Z -> bool.\nVariable findOther : Z -> Z -> Z.\nVariable loop_fuel : nat.\n\n' + txt + '\n\nEnd Gen_FindNext_sec.\n')


# ======================================================================================================================
# very last round: HashSorter::pvFindOther (forward iterators), translated from the source
class FoFn(FnxFn):
    def pos(self, n):
        t = strip_casts(n)
        if t.get('kind') == 'DeclRefExpr' and t['referencedDecl']['name'] in ('begin', 'iter'):
            return t['referencedDecl']['name']
        return super().pos(n)

    def e(self, n):
        oi = opinfo(n)
        if oi is not None and oi[0] == 'operator()' and oi[1] == 'equalFunc':
            a, b = [self.deref_pos(x) for x in oi[2]]
            return '(eqf (items %s) (items %s))' % (a, b)
        return super().e(n)


def translate_findother(repo='/repo', tu=None):
    """Gen_FindOther.v: the comparer lambda of pvFindOther and pvFindOther itself = assert; pvExponentialSearch(begin + 1, count - 1,
    comparer).iterator, where the search is SearchGlue.es_iterator = the GENERATED pvExponentialSearch / pvBinarySearch loops
    (Gen_Searches.v) composed according to their exit codes."""
    tu = tu or os.path.join(os.path.dirname(os.path.abspath(__file__)), 'inst_hs.cpp')
    cfg = {'tu': tu, 'filter': 'HashSorter', 'includes': [os.path.join(repo, 'include')]}
    objs = cxx2coq.load_objs(cxx2coq.dump_ast(cfg, repo))
    ds = [d for d in _methods(objs, 'pvFindOther') if any(c.get('kind') == 'TemplateArgument' for c in d.get('inner', []))
          and d['type']['qualType'].startswith('unsigned long *(unsigned long *,')]
    if len(ds) != 1:
        raise TranslationError('expected one forward-iterator instantiation of HashSorter::pvFindOther, found %d' % len(ds))
    d = dict(ds[0]); d.pop('storageClass', None)
    cfgf = {'name': 'Gen_FindOther', 'fields': {'items': 'array'}, 'functions': [], 'functor_params': {'pvFindOther': {'equalFunc': 'skip'}},
            'ret_types': {'pvFindOther': 'unsigned long'}, 'pointers': True}
    f = FoFn(cxx2coq.Ctx(cfgf), d, 'pvFindOther')
    body = [c for c in d['inner'] if c.get('kind') == 'CompoundStmt'][0]
    st = body.get('inner', [])
    if len(st) != 3 or not cxx2coq.is_assert_stmt(st[0]) or st[1].get('kind') != 'DeclStmt' or st[2].get('kind') != 'ReturnStmt':
        raise TranslationError('pvFindOther: body is no longer assert; comparer; return')
    acond = f.e(cxx2coq.find_assert_cond(st[0]))
    lambdas = []
    def walk(n):
        if isinstance(n, dict):
            if n.get('kind') == 'LambdaExpr': lambdas.append(n)
            for c in n.get('inner', []): walk(c)
    walk(st[1])
    if len(lambdas) != 1:
        raise TranslationError('pvFindOther: comparer is not a single lambda')
    ops = _methods([lambdas[0]], 'operator()')
    lbody = [c for c in ops[0]['inner'] if c.get('kind') == 'CompoundStmt'][0]
    if len(lbody.get('inner', [])) != 1 or lbody['inner'][0].get('kind') != 'ReturnStmt':
        raise TranslationError('pvFindOther: comparer lambda is not a single return')
    g = FoFn(cxx2coq.Ctx(cfgf), d, 'pvFindOther'); g.env['iter'] = ('ptr', 'unsigned long *')
    cmp_txt = g.e(lbody['inner'][0]['inner'][0])
    rv = strip_casts(st[2]['inner'][0])
    if rv.get('kind') != 'MemberExpr' or rv.get('name') != 'iterator':
        raise TranslationError('pvFindOther: result is not `.iterator` of the search result')
    ci = callinfo(rv['inner'][0])
    if ci is None or ci[0] != 'pvExponentialSearch' or len(ci[1]) != 3:
        raise TranslationError('pvFindOther: does not return pvExponentialSearch(first, count, comparer).iterator')
    c2 = strip_casts(ci[1][2])
    if c2.get('kind') != 'DeclRefExpr' or c2['referencedDecl']['name'] != 'iterComparer':
        raise TranslationError('pvFindOther: third argument of the search is not the comparer')
    first = f.e(ci[1][0]); n = f.e(ci[1][1])
    return ('(* GENERATED by props/C17/sel2coq.py (on tools/cxx2coq.py) from HashSorter.h: pvFindOther (forward iterators) -- do not edit *)\n\n'
            'From Coq Require Import ZArith Bool List.\nFrom MomoCommon Require Import GenPrelude.\nFrom C17 Require Import SearchGlue.\n'
            'Local Open Scope Z_scope.\n\nSection Gen_FindOther_sec.\nVariable eqf : Z -> Z -> bool.\nVariable loop_fuel : nat.\n\n'
            '(* the comparer lambda [begin, &equalFunc] (Iterator iter) *)\nDefinition findOther_cmp (items : Z -> Z) (begin iter : Z) : Z :=\n%s.\n\n'
            '(* MOMO_ASSERT(cond); return pvExponentialSearch(first, n, iterComparer).iterator; *)\n'
            'Definition pvFindOther (items : Z -> Z) (begin count : Z) : outcome Z :=\nif %s then (\n'
            'let first := %s in\nOk (es_iterator (fun i => findOther_cmp items begin (first + i)) loop_fuel first %s))\nelse Stuck.\n\nEnd Gen_FindOther_sec.\n'
            % (cmp_txt, acond, first, n))
