(* Extraction of the hand-written executable models (ArrayShift / ArrayModel) and of the GENERATED growth policy.
   ExtrOcamlBasic only. *)
From Coq Require Import ZArith List Extraction ExtrOcamlBasic.
From MomoCommon Require Import GenPrelude.
From C05 Require ArrayShift ArrayModel Gen_Grow Gen_GuardsShifter Gen_GuardsArray Gen_GuardsSeg Gen_ShiftLoops Gen_ShiftLoopsSeg Gen_IndexOf InsertGlue FactsProofs.
Extraction Blacklist String.
Separate Extraction
  ArrayModel.run_op ArrayModel.array_empty ArrayModel.observe ArrayModel.body ArrayModel.allocs
  ArrayShift.cap ArrayShift.cnt ArrayShift.insert_nogrow_copies ArrayShift.remove_range
  Gen_Grow.GrowCapacity
  Gen_GuardsShifter.Remove_guard Gen_GuardsShifter.InsertNogrow_guard
  Gen_GuardsArray.Insert_prefix Gen_GuardsArray.RemoveBack_guard Gen_GuardsArray.AddBackNogrowCrt_guard Gen_GuardsArray.index_guard
  Gen_GuardsSeg.SegInsert_guard Gen_GuardsSeg.SegRemoveBack_guard
  Gen_GuardsArray.Shrink_clamp Gen_GuardsSeg.SegShrink_clamp Gen_ShiftLoopsSeg.ShiftRemove Gen_ShiftLoopsSeg.ShiftInsert
  Gen_ShiftLoops.ShiftRemove Gen_ShiftLoops.ShiftInsert Gen_IndexOf.pvIndexOf InsertGlue.gen_array_insert FactsProofs.gen_array_insert_f FactsProofs.gen_add_back_f FactsProofs.gen_add_back_move_f.
