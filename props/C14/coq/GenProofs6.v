(* C14, round 10: HashMultiMap's move constructor end to end (HashMultiMap -> HashMap -> HashSet -> SetCrew, and ValueCrew), the
   move assignment composed of generated pieces, and the copy-assignment compositions (the copy itself is NOT generated: its
   result is universally quantified). *)
From Coq Require Import ZArith Bool List.
From MomoCommon Require Import GenPrelude.
From C14 Require Import Pack.
From C14 Require Gen_SetCrew Gen_TreeSet Gen_HashMultiMap Gen_TreeSet2 Gen_HashSet2 Gen_DataTable2 Gen_HashMultiMap2 Gen_HashSet3
                 Gen_ValueCrew Gen_HashMap3 Gen_HashMultiMap3.
Local Open Scope Z_scope.

(* ---------------------------------------------------------------- ValueCrew *)
Theorem gen_valuecrew :
  (forall a b, Gen_ValueCrew.Swap a b = (b, a)) /\
  (forall junk s, Gen_ValueCrew.MoveCtor junk s = (s, 0)) /\
  (forall d other, Gen_ValueCrew.IsNull d other = Z.eqb d 0).
Proof. repeat split. Qed.

(* ---------------------------------------------------------------- HashMultiMap(HashMultiMap&&) *)
(* whatever the uninitialised target fields are: the target gets the whole hash map (crew, count, capacity, buckets), the value
   count and the value crew; the source keeps NOTHING: null set crew, no buckets, count 0, value count 0, null value crew *)
Definition moved_from_multi : set4 * Z * Z := ((0, 0, 0, 0), 0, 0).
Theorem gen_multi_move_ctor :
  forall junk jn jc h n v,
    Gen_HashMultiMap3.MoveCtor junk jn jc h n v =
      (h, n, v, fst (fst moved_from_multi), snd (fst moved_from_multi), snd moved_from_multi).
Proof.
  intros [[[j1 j2] j3] j4] jn jc [[[c k] cap] b] n v.
  reflexivity.
Qed.

(* ... and the moved-from object can be cleared: the generated Clear, with the null test computed by the generated IsNull *)
Theorem gen_multi_moved_from_then_clear :
  forall junk jn jc h n v,
    let '(_, _, _, _, sn, sv) := Gen_HashMultiMap3.MoveCtor junk jn jc h n v in
    Gen_HashMultiMap.Clear (Gen_ValueCrew.IsNull sv 0) sn = GenPrelude.Ok (tt, sn).
Proof.
  intros. rewrite gen_multi_move_ctor. reflexivity.
Qed.

(* operator=(HashMultiMap&&) = `HashMultiMap(std::move(x)).Swap( *this)` (shape: Gen_AssignShapes.multi_move_assign_shape) *)
Definition multi_move_assign (this src : set4 * Z * Z) : (set4 * Z * Z) * (set4 * Z * Z) * (set4 * Z * Z) :=
  let '(th, tn, tv) := this in let '(sh, sn, sv) := src in
  let '(mh, mn, mv, sh1, sn1, sv1) := Gen_HashMultiMap3.MoveCtor (0, 0, 0, 0) 0 0 sh sn sv in       (* temporary <- x *)
  let '(mh2, mn2, mv2, th2, tn2, tv2) := Gen_HashMultiMap2.Swap mh mn mv th tn tv in                (* temporary.Swap( *this) *)
  ((mh2, mn2, mv2), (th2, tn2, tv2), (sh1, sn1, sv1)).

Theorem gen_multi_move_assign :
  forall this src,
    let '(tmp, this', src') := multi_move_assign this src in
    this' = src /\ src' = moved_from_multi /\ tmp = this.   (* the temporary that is destroyed holds exactly the old *this *)
Proof.
  intros [[th tn] tv] [[sh sn] sv]. unfold multi_move_assign. rewrite gen_multi_move_ctor.
  cbv beta iota zeta delta [Gen_HashMultiMap2.Swap moved_from_multi fst snd]. repeat split.
Qed.

(* ---------------------------------------------------------------- copy assignment *)
(* operator=(const X& x) = `if (this != &x) X(x).Swap( *this)` (shapes: Gen_AssignShapes.*_copy_assign_shape).  The copy
   constructor's successful path is not generated, so its result `cp` is ANY object: the target becomes exactly that copy, the
   temporary that is destroyed is exactly the old target, and x is not an operand of anything after the copy. *)
Theorem gen_copy_assign_compositions :
  (forall cc cn cr cp tc tn tr tp,
     let '(mc, mn, mr, mp, tc', tn', tr', tp') := Gen_TreeSet2.Swap cc cn cr cp tc tn tr tp in
     (tc', tn', tr', tp') = (cc, cn, cr, cp) /\ (mc, mn, mr, mp) = (tc, tn, tr, tp) /\
     (* the old contents are destroyed through the OLD crew: fine whenever the old target was consistent *)
     ((tc <> 0 \/ (tr = 0 /\ tp = 0)) -> Gen_TreeSet.pvDestroy (Gen_SetCrew.pvIsNull mc) mn mr mp = GenPrelude.Ok tt)) /\
  (forall cc cn ck cb tc tn tk tb,
     let '(mc, mn, mk, mb, tc', tn', tk', tb') := Gen_HashSet2.Swap cc cn ck cb tc tn tk tb in
     (tc', tn', tk', tb') = (cc, cn, ck, cb) /\ (mc, mn, mk, mb) = (tc, tn, tk, tb)) /\
  (forall cc cr cp ci tc tr tp ti,
     let '(mc, mr, mp, mi, tc', tr', tp', ti') := Gen_DataTable2.Swap cc cr cp ci tc tr tp ti in
     (tc', tr', tp', ti') = (cc, cr, cp, ci) /\ (mc, mr, mp, mi) = (tc, tr, tp, ti)) /\
  (forall ch cn cv th tn tv,
     let '(mh, mn, mv, th', tn', tv') := Gen_HashMultiMap2.Swap ch cn cv th tn tv in
     (th', tn', tv') = (ch, cn, cv) /\ (mh, mn, mv) = (th, tn, tv)).
Proof.
  split; [|repeat split].
  intros. cbv beta iota zeta delta [Gen_TreeSet2.Swap]. repeat split.
  intros H. unfold Gen_TreeSet.pvDestroy, Gen_SetCrew.pvIsNull.
  destruct (Z.eqb_spec tc 0) as [E|E]; cbn [negb andb orb].
  - destruct H as [H|[-> ->]]; [contradiction|reflexivity].
  - destruct (negb (tr =? 0)), (negb (tp =? 0)); reflexivity.
Qed.
