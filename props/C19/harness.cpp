// C19 implementation side: the REAL momo::DataTable free-row list, observed through private access.
//   seq <ops>            single-thread schedule replay; prints one line: an event per op with the canonical
//                        id of the raw buffer, the free list as seen by walking the link words from
//                        Crew::Data::freeRaws, the pool's allocate count, live item count
//   seqt <ops>           the same on a table whose rows are ONE byte long (the buffer must still hold the link word)
//   stress k rounds seed multi-threaded: k disposer threads destroy rows moved to them while the owner
//                        creates / adds / extracts / removes (built with -fsanitize=thread / address in the thorough tier)
// ops:  n (NewRow)  a<k> (Add detached #k)  x<i> (Extract table row i)  d<k> (destroy detached #k)
//       r<i> (Remove table row i)  c (Clear)  m<k> (move detached #k into a fresh Row object)  s<k> (write items of detached #k)
#include "private_access.h"
#include "momo/DataTable.h"
#include <condition_variable>
#include <deque>

using namespace momo;

struct MMStats { size_t allocs = 0, deallocs = 0; long long bytes = 0; };
class CountMM
{
public:
	explicit CountMM(MMStats* s) noexcept : st(s) {}
	CountMM(CountMM&&) = default;
	CountMM(const CountMM&) = default;
	~CountMM() = default;
	CountMM& operator=(const CountMM&) = delete;
	void* Allocate(size_t n)
	{
		void* p = std::malloc(n);
		if (p == nullptr) throw std::bad_alloc();
		++st->allocs; st->bytes += (long long)n;
		return p;
	}
	void Deallocate(void* p, size_t n) noexcept { ++st->deallocs; st->bytes -= (long long)n; std::free(p); }
	bool IsEqual(const CountMM& o) const noexcept { return st == o.st; }
	MMStats* st;
};

struct Tracked
{
	static std::atomic<long> live, ctors, dtors;
	std::string payload;
	Tracked() : payload("a string long enough to live on the heap, not in the SSO buffer") { ++live; ++ctors; }
	Tracked(const Tracked& t) : payload(t.payload) { ++live; ++ctors; }
	Tracked(Tracked&& t) noexcept : payload(std::move(t.payload)) { ++live; ++ctors; }
	Tracked& operator=(const Tracked&) = default;
	Tracked& operator=(Tracked&&) = default;
	~Tracked() { --live; ++dtors; }
};
std::atomic<long> Tracked::live(0), Tracked::ctors(0), Tracked::dtors(0);

typedef DataColumnList<DataColumnTraits<>, CountMM> ColumnList;
typedef DataTable<ColumnList> Table;
typedef Table::Row Row;

static const DataColumn<size_t> colId("id");
static const DataColumn<Tracked> colT("t");
static const DataColumn<std::string> colS("s");

static ColumnList makeColumns(MMStats* st)
{
	ColumnList cl{ CountMM(st) };
	cl.Add(colId, colT, colS);
	return cl;
}

static const DataColumn<uint8_t> colB("b");

struct Big      // three columns, non-trivial items on the heap
{
	static ColumnList columns(MMStats* st) { return makeColumns(st); }
	static void fill(Row& row, size_t n) { row[colId] = n; row[colS] = "row " + std::to_string(n) + " with a long tail to force a heap allocation"; }
	static void rewrite(Row& row, size_t k) { row[colId] = 0xDEADBEEFu + k; row[colS] = "rewritten"; }
};
struct Tiny     // one byte per row: the raw buffer must still be able to hold the link word (pvCreateRawMemPool)
{
	static ColumnList columns(MMStats* st) { ColumnList cl{ CountMM(st) }; cl.Add(colB); return cl; }
	static void fill(Row& row, size_t n) { row[colB] = uint8_t(n); }
	static void rewrite(Row& row, size_t k) { row[colB] = uint8_t(0xA5 + k); }
};

struct Ids
{
	std::map<const void*, int> ids;
	int of(const void* p) { auto it = ids.find(p); if (it != ids.end()) return it->second; int k = (int)ids.size(); ids[p] = k; return k; }
};

// the free list exactly as pvDeallocateFreeRaws would see it (bounded walk: a cycle is reported, not followed)
static std::string freeList(Table& t, Ids& ids, size_t bound)
{
	std::string s; void* p = t.mCrew.mData->freeRaws.load(); size_t n = 0;
	while (p != nullptr)
	{
		if (++n > bound) { s += "CYCLE"; break; }
		if (!s.empty()) s += ',';
		s += std::to_string(ids.of(p));
		p = internal::MemCopyer::FromBuffer<void*>(p);
	}
	return s;
}

template<typename Cfg>
static void runSeq(std::istringstream& is)
{
	MMStats st; std::ostringstream out; bool first = true;
	long live0 = Tracked::live.load();
	{
		Table table(Cfg::columns(&st));
		Ids ids; std::vector<Row> det; size_t created = 0; std::string op;
		auto emit = [&] (const std::string& ev) {
			if (!first) out << ' '; first = false;
			out << ev << "|fl=" << freeList(table, ids, created + 1) << "|pc=" << table.mRawMemPool.GetAllocateCount()
				<< "|lv=" << (Tracked::live.load() - live0);
		};
		while (is >> op)
		{
			char c = op[0]; size_t k = op.size() > 1 ? (size_t)std::stoul(op.substr(1)) : 0;
			if (c == 'n')
			{
				Row row = table.NewRow(); ++created;
				int id = ids.of(row.GetRaw());
				Cfg::fill(row, created);
				det.push_back(std::move(row));
				emit("N" + std::to_string(id));
			}
			else if (c == 'a' && !det.empty())
			{
				k %= det.size(); int id = ids.of(det[k].GetRaw());
				table.Add(std::move(det[k])); det.erase(det.begin() + k);
				emit("A" + std::to_string(id));
			}
			else if (c == 'x' && table.GetCount() > 0)
			{
				k %= table.GetCount(); int id = ids.of(table[k].GetRaw());
				det.push_back(table.Extract(k));
				emit("X" + std::to_string(id));
			}
			else if (c == 'd' && !det.empty())
			{
				k %= det.size(); int id = ids.of(det[k].GetRaw());
				det.erase(det.begin() + k);      // ~DataRow: the push
				emit("D" + std::to_string(id));
			}
			else if (c == 'r' && table.GetCount() > 0)
			{
				k %= table.GetCount(); int id = ids.of(table[k].GetRaw());
				table.Remove(k);
				emit("R" + std::to_string(id));
			}
			else if (c == 'c')
			{
				std::string ev = "C";
				for (size_t i = 0; i < table.GetCount(); ++i) ev += (i ? "," : "") + std::to_string(ids.of(table[i].GetRaw()));
				table.Clear();
				emit(ev);
			}
			else if (c == 'm' && !det.empty())
			{
				k %= det.size(); int id = ids.of(det[k].GetRaw());
				{ Row moved(std::move(det[k])); det[k] = std::move(moved); }   // two moved-from destructors: must not push
				emit("M" + std::to_string(id));
			}
			else if (c == 's' && !det.empty())
			{
				k %= det.size(); int id = ids.of(det[k].GetRaw());
				Cfg::rewrite(det[k], k);
				emit("S" + std::to_string(id));
			}
			else
				emit("-");
		}
		// epilogue: all detached rows die (pushes), then the table (pvDestroyRaws drains and destroys the rest)
		std::string ev = "E";
		for (size_t i = 0; i < det.size(); ++i) ev += (i ? "," : "") + std::to_string(ids.of(det[i].GetRaw()));
		det.clear();
		emit(ev);
		ev = "C";
		for (size_t i = 0; i < table.GetCount(); ++i) ev += (i ? "," : "") + std::to_string(ids.of(table[i].GetRaw()));
		table.Clear();
		emit(ev);
	}
	out << " end|mm=" << st.bytes << "|ad=" << (long long)st.allocs - (long long)st.deallocs << "|lv=" << (Tracked::live.load() - live0);
	puts(out.str().c_str());
}

// ---------------------------------------------------------------- multi-threaded stress
struct Chan
{
	std::mutex m; std::condition_variable cv; std::deque<std::vector<Row>> q; bool done = false;
	void put(std::vector<Row>&& b) { { std::lock_guard<std::mutex> g(m); q.push_back(std::move(b)); } cv.notify_one(); }
	bool get(std::vector<Row>& b)
	{
		std::unique_lock<std::mutex> g(m);
		cv.wait(g, [&] { return done || !q.empty(); });
		if (q.empty()) return false;
		b = std::move(q.front()); q.pop_front(); return true;
	}
	void finish() { { std::lock_guard<std::mutex> g(m); done = true; } cv.notify_all(); }
};

static void runStress(std::istringstream& is)
{
	size_t k = 3, rounds = 200; unsigned long long seed = 1; is >> k >> rounds >> seed;
	MMStats st; long live0 = Tracked::live.load();
	size_t created = 0, handed = 0, removed = 0, drains = 0; std::atomic<size_t> destroyed(0);
	size_t pcEnd = 99;
	{
		Table table(makeColumns(&st));
		std::vector<std::unique_ptr<Chan>> chans; for (size_t i = 0; i < k; ++i) chans.emplace_back(new Chan);
		std::vector<std::thread> ths;
		for (size_t i = 0; i < k; ++i)
			ths.emplace_back([&, i] {
				std::vector<Row> b;
				while (chans[i]->get(b))
				{
					for (Row& r : b) { std::string s = r[colS]; (void)s; }   // the disposer may still read its rows
					destroyed += b.size();
					b.clear();          // ~DataRow for the whole batch: concurrent pushes
				}
			});
		std::mt19937_64 rng(seed);
		for (size_t round = 0; round < rounds; ++round)
		{
			// the owner creates a burst of rows; NewRow drains whatever the disposers have pushed meanwhile
			std::vector<std::vector<Row>> batches(k);
			size_t burst = 1 + rng() % 24;
			for (size_t j = 0; j < burst; ++j)
			{
				void* h = table.mCrew.mData->freeRaws.load();
				if (h != nullptr) ++drains;
				Row row = table.NewRow(); ++created;
				row[colId] = created; row[colS] = "stress row with a heap allocated string payload #" + std::to_string(created);
				switch (rng() % 4)
				{
				case 0: table.Add(std::move(row)); break;
				default: batches[rng() % k].push_back(std::move(row)); ++handed; break;
				}
			}
			// extract some table rows and hand them over as well; remove some directly
			size_t ex = rng() % 4;
			for (size_t j = 0; j < ex && table.GetCount() > 0; ++j)
			{ batches[rng() % k].push_back(table.Extract(rng() % table.GetCount(), false)); ++handed; }
			if (table.GetCount() > 0 && rng() % 3 == 0) { table.Remove(rng() % table.GetCount(), false); ++removed; }
			for (size_t i = 0; i < k; ++i) if (!batches[i].empty()) chans[i]->put(std::move(batches[i]));
			if (rng() % 16 == 0) table.Clear();
			if (rng() % 8 == 0) std::this_thread::yield();
		}
		for (auto& c : chans) c->finish();
		for (auto& t : ths) t.join();
		table.Clear();
		pcEnd = table.mRawMemPool.GetAllocateCount();
	}
	printf("stress k=%zu created=%zu handed=%zu destroyed=%zu drains=%zu pc=%zu mm=%lld ad=%lld lv=%ld\n", k, created, handed,
		destroyed.load(), drains, pcEnd, st.bytes, (long long)st.allocs - (long long)st.deallocs, Tracked::live.load() - live0);
}

int main()
{
	std::string line;
	while (std::getline(std::cin, line))
	{
		std::istringstream is(line); std::string cmd; is >> cmd;
		if (cmd == "seq") runSeq<Big>(is);
		else if (cmd == "seqt") runSeq<Tiny>(is);
		else if (cmd == "stress") runStress(is);
		else puts("?");
		fflush(stdout);
	}
	return 0;
}
