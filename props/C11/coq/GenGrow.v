(* C11 -- the growth DECISION of HashSet is the source's: HashSet::pvGetNewLogBucketCount, the size loop of pvAddGrow
   (7a001ad) with its length_error bound (f76c2d4), the size loop of Reserve, and the resulting mCapacity / bucket-array size
   are translated from /repo's HashSet.h by cxx2coq on every run (Gen_HashSetGrow.v; the traits object, the bucket arrays
   and the memory manager are abstract Section variables) and proved equal to the hand model's newLog / grow_log /
   reserve_log.  The hand model's fuel-exhaustion branch (result RCheck) is exactly the generated `Exn` (= the
   std::length_error of f76c2d4), and it needs a table of more than 2^63 buckets. *)
From Coq Require Import ZArith List Lia Bool.
From MomoCommon Require Import GenPrelude.
From C11 Require Import GrowModel.
From C11 Require Gen_HashSetGrow.
Import ListNotations.
Local Open Scope Z_scope.

Section GrowTie.
  Variable B : Type.
  Variable mc : Z.                       (* Bucket::maxCount = bucketMaxItemCount *)
  Variable logStart : Z.
  Variable calcCapacity : Z -> Z.        (* hashTraits.CalcCapacity(bucketCount, maxCount) *)
  Variable shift : Z -> Z.               (* hashTraits.GetBucketCountShift(bucketCount, maxCount) *)
  Let tc := fun (bc _ : Z) => calcCapacity bc.
  Let ts := fun (bc _ : Z) => shift bc.

  Lemma w64_pow : forall L, 0 <= L <= 63 -> wrapU 64 (Z.shiftl 1 L) = 2 ^ L.
  Proof.
    intros L H. rewrite Z.shiftl_mul_pow2 by lia. rewrite Z.mul_1_l. apply wrapU_small.
    assert (2 ^ L <= 2 ^ 63) by (apply Z.pow_le_mono_r; lia). assert (0 < 2 ^ L) by (apply Z.pow_pos_nonneg; lia).
    change (2 ^ 64) with (2 * 2 ^ 63). lia.
  Qed.

  Lemma bound63 : wrapU 64 (wrapU 64 (8 * 8) - 1) = 63.
  Proof. reflexivity. Qed.

  (* ---- hand-model facts about grow_log / reserve_log: the answer does not depend on the fuel ---- *)
  Lemma grow_log_ge : forall f nl c r, grow_log calcCapacity f nl c = Some r -> nl <= r.
  Proof.
    induction f; intros nl c r H; simpl in H; destruct (c <? calcCapacity (2 ^ nl)); try discriminate; try (inversion H; lia).
    apply IHf in H. lia.
  Qed.

  Lemma grow_log_cut : forall f2 f nl c r, grow_log calcCapacity f nl c = Some r -> r <= nl + Z.of_nat f2 ->
    grow_log calcCapacity f2 nl c = Some r.
  Proof.
    induction f2; intros f nl c r H Hr; destruct f; simpl in *; destruct (c <? calcCapacity (2 ^ nl)); auto; try discriminate.
    - apply grow_log_ge in H. lia.
    - eapply IHf2; eauto. lia.
  Qed.

  Lemma reserve_log_ge' : forall f nl c r, reserve_log calcCapacity f nl c = Some r -> nl <= r.
  Proof.
    induction f; intros nl c r H; simpl in H; destruct (c <=? calcCapacity (2 ^ nl)); try discriminate; try (inversion H; lia).
    apply IHf in H. lia.
  Qed.

  Lemma reserve_log_cut : forall f2 f nl c r, reserve_log calcCapacity f nl c = Some r -> r <= nl + Z.of_nat f2 ->
    reserve_log calcCapacity f2 nl c = Some r.
  Proof.
    induction f2; intros f nl c r H Hr; destruct f; simpl in *; destruct (c <=? calcCapacity (2 ^ nl)); auto; try discriminate.
    - apply reserve_log_ge' in H. lia.
    - eapply IHf2; eauto. lia.
  Qed.

  (* ---- the generated loop of pvAddGrow = grow_log bounded at 2^63 buckets ---- *)
  Lemma gen_addgrow_loop : forall n nl c cap0 ht extra, 0 <= nl <= 63 -> n = Z.to_nat (63 - nl) ->
    Gen_HashSetGrow.pvAddGrow_loop0 mc tc (S n + extra) ht c cap0 nl =
      match grow_log calcCapacity n nl c with
      | Some r => Ok (None, (calcCapacity (2 ^ r), r))
      | None => Exn                                   (* throw std::length_error("Invalid bucket count") *)
      end.
  Proof.
    induction n; intros nl c cap0 ht extra Hnl Hn; cbn [Nat.add]; rewrite Gen_HashSetGrow.pvAddGrow_loop0_eq; cbv zeta;
      unfold tc; rewrite w64_pow by lia; rewrite bound63; rewrite Z.gtb_ltb; simpl grow_log;
      destruct (c <? calcCapacity (2 ^ nl)); auto.
    - replace (nl >=? 63) with true by (symmetry; apply Z.geb_le; lia). auto.
    - replace (nl >=? 63) with false by (symmetry; rewrite Z.geb_leb; apply Z.leb_gt; lia).
      rewrite (wrapU_small 64 (nl + 1)) by (change (2 ^ 64) with 18446744073709551616; lia).
      fold tc. change (S (n + extra)) with (S n + extra)%nat. apply IHn; lia.
  Qed.

  Lemma gen_reserve_loop : forall n nl c cap0 ht extra, 0 <= nl <= 63 -> n = Z.to_nat (63 - nl) ->
    Gen_HashSetGrow.Reserve_loop0 mc tc (S n + extra) c ht cap0 nl =
      match reserve_log calcCapacity n nl c with
      | Some r => Ok (None, (calcCapacity (2 ^ r), r))
      | None => Exn
      end.
  Proof.
    induction n; intros nl c cap0 ht extra Hnl Hn; cbn [Nat.add]; rewrite Gen_HashSetGrow.Reserve_loop0_eq; cbv zeta;
      unfold tc; rewrite w64_pow by lia; rewrite bound63; rewrite Z.geb_leb; simpl reserve_log;
      destruct (c <=? calcCapacity (2 ^ nl)); auto.
    - replace (nl >=? 63) with true by (symmetry; apply Z.geb_le; lia). auto.
    - replace (nl >=? 63) with false by (symmetry; rewrite Z.geb_leb; apply Z.leb_gt; lia).
      rewrite (wrapU_small 64 (nl + 1)) by (change (2 ^ 64) with 18446744073709551616; lia).
      fold tc. change (S (n + extra)) with (S n + extra)%nat. apply IHn; lia.
  Qed.

  (* ---- pvGetNewLogBucketCount = newLog ---- *)
  Lemma gen_new_log_empty : forall blog cnt capa ht,
    Gen_HashSetGrow.pvGetNewLogBucketCount mc logStart ts blog cnt capa 0 ht = Ok (newLog B logStart shift []).
  Proof. reflexivity. Qed.

  Lemma gen_new_log_head : forall (t : table B) r cnt capa mb ht, mb <> 0 -> 0 <= tlog B t <= 63 ->
    0 <= tlog B t + shift (2 ^ tlog B t) < 2 ^ 64 ->
    Gen_HashSetGrow.pvGetNewLogBucketCount mc logStart ts (tlog B t) cnt capa mb ht =
      if 0 <? shift (2 ^ tlog B t) then Ok (newLog B logStart shift (t :: r)) else Stuck.    (* MOMO_CHECK(shift > 0) *)
  Proof.
    intros t r cnt capa mb ht Hmb HL HS. unfold Gen_HashSetGrow.pvGetNewLogBucketCount.
    replace (mb =? 0) with false by (symmetry; apply Z.eqb_neq; auto). cbv zeta. unfold ts. rewrite w64_pow by lia.
    change (negb (Gen_HashSetGrow.checkMode =? 1)) with false. simpl orb. rewrite Z.gtb_ltb.
    destruct (0 <? shift (2 ^ tlog B t)); auto. simpl newLog. unfold bcount. rewrite wrapU_small by lia. auto.
  Qed.

  (* ---- the decision of the hand model (hadd / hreserve) is the decision of the generated code ---- *)
  Theorem growth_decision_is_source : forall count nl0 r ht cap0, 0 <= nl0 <= 63 -> r <= 63 ->
    grow_log calcCapacity (Z.to_nat count + 2) nl0 count = Some r ->
    Gen_HashSetGrow.pvAddGrow_loop0 mc tc Gen_HashSetGrow.fuel_of_pvAddGrow ht count cap0 nl0 = Ok (None, (calcCapacity (2 ^ r), r)).
  Proof.
    intros count nl0 r ht cap0 H0 Hr H. set (n := Z.to_nat (63 - nl0)).
    assert (E : Gen_HashSetGrow.fuel_of_pvAddGrow = (S n + (69 - n))%nat) by (unfold Gen_HashSetGrow.fuel_of_pvAddGrow, n; lia).
    rewrite E. rewrite (gen_addgrow_loop n nl0 count cap0 ht (69 - n)%nat H0 eq_refl).
    rewrite (grow_log_cut n _ _ _ _ H) by (unfold n; lia). auto.
  Qed.

  Theorem reserve_decision_is_source : forall cap nl0 r ht cap0, 0 <= nl0 <= 63 -> r <= 63 ->
    reserve_log calcCapacity 64 nl0 cap = Some r ->
    Gen_HashSetGrow.Reserve_loop0 mc tc Gen_HashSetGrow.fuel_of_Reserve cap ht cap0 nl0 = Ok (None, (calcCapacity (2 ^ r), r)).
  Proof.
    intros cap nl0 r ht cap0 H0 Hr H. set (n := Z.to_nat (63 - nl0)).
    assert (E : Gen_HashSetGrow.fuel_of_Reserve = (S n + (69 - n))%nat) by (unfold Gen_HashSetGrow.fuel_of_Reserve, n; lia).
    rewrite E. rewrite (gen_reserve_loop n nl0 cap cap0 ht (69 - n)%nat H0 eq_refl).
    rewrite (reserve_log_cut n _ _ _ _ H) by (unfold n; lia). auto.
  Qed.

  (* the length_error bound of f76c2d4: the generated loops never run out of fuel, and they throw exactly when NO table of
     at most 2^63 buckets is large enough -- the hand model's fuel/RCheck branch *)
  Theorem size_loops_throw_only_beyond_2_63 : forall count nl0 ht cap0, 0 <= nl0 <= 63 ->
    (Gen_HashSetGrow.pvAddGrow_loop0 mc tc Gen_HashSetGrow.fuel_of_pvAddGrow ht count cap0 nl0 = Exn <->
       forall L, nl0 <= L <= 63 -> calcCapacity (2 ^ L) <= count) /\
    Gen_HashSetGrow.pvAddGrow_loop0 mc tc Gen_HashSetGrow.fuel_of_pvAddGrow ht count cap0 nl0 <> Fuel.
  Proof.
    intros count nl0 ht cap0 H0. set (n := Z.to_nat (63 - nl0)).
    assert (E : Gen_HashSetGrow.fuel_of_pvAddGrow = (S n + (69 - n))%nat) by (unfold Gen_HashSetGrow.fuel_of_pvAddGrow, n; lia).
    rewrite E. rewrite (gen_addgrow_loop n nl0 count cap0 ht (69 - n)%nat H0 eq_refl).
    assert (G : forall m nl, nl + Z.of_nat m = 63 ->
              (grow_log calcCapacity m nl count = None <-> forall L, nl <= L <= 63 -> calcCapacity (2 ^ L) <= count)).
    { induction m; intros nl Hm; simpl; destruct (Z.ltb_spec count (calcCapacity (2 ^ nl))).
      - split; [discriminate|]. intros HA. specialize (HA nl ltac:(lia)). lia.
      - split; auto. intros _ L HL. replace L with nl by lia. auto.
      - split; [discriminate|]. intros HA. specialize (HA nl ltac:(lia)). lia.
      - rewrite (IHm (nl + 1)) by lia. split; intros HA L HL.
        + destruct (Z.eq_dec L nl); [subst; auto|apply HA; lia].
        + apply HA; lia. }
    specialize (G n nl0 ltac:(unfold n; lia)).
    destruct (grow_log calcCapacity n nl0 count) eqn:EG; split; try discriminate.
    - split; [discriminate|]. intros HA. apply G in HA. discriminate.
    - split; auto. intros _. apply G. auto.
  Qed.
End GrowTie.
