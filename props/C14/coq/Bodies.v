(* C14 round 2 -- structured container bodies ("unusual states" as model states).

   Model.v abstracts a container body to a list of blocks.  Here the body is the object graph the property talks
   about:
     SHash  : chain of bucket arrays (HashSetBuckets::mNextBuckets), newest first, each with the items it still holds
              (several generations after an interrupted relocation; one overloaded generation after a refused growth)
     STree  : NodeParams block (the node memory pools; they keep a POINTER to the memory manager stored in the owning
              set's crew -- modelled as the id of that crew block) + the nodes in preorder with their depth
     SMulti : bucket arrays of the key map + one entry per key with its value array (value-less keys: no array)
     STable : DataTable: array of raw pointers, one raw block per row, and the crew's freeRaws list (rows detached by
              DataRow destructors, possibly on other threads, waiting to be returned to the raw pool)
   with copy (as the code rebuilds it), move construction, swap, destruction, and TreeSet::MergeTo into an empty set with
   an equal manager (c7fda03).  `abs` maps a structured container to the abstract one of Model.v. *)
From Coq Require Import ZArith Bool List Lia.
From C14 Require Import PropagationModel Model.
Import ListNotations.
Local Open Scope Z_scope.

Record hgen := mkGen { gblock : block; gitems : list Z }.
Record tnode := mkNode { nblock : block; nitems : list Z; ndepth : nat }.
Record mkey := mkKey { mk : Z; marr : option block; mvals : list Z }.
Record trow := mkRow { rblock : block; rval : Z }.

Inductive sbody :=
| SHash (gens : list hgen)
| STree (params : option (block * Z)) (nodes : list tnode)      (* params: (NodeParams block, id of the crew its pools use) *)
| SMulti (buckets : list block) (keys : list mkey)
| STable (raws : option block) (rows : list trow) (free : list block).

Inductive sc := SOwned (c : crewd) (b : sbody) | SMovedFrom.

Definition opt_block (o : option block) : list block := match o with Some b => [b] | None => [] end.
Definition sb_blocks (b : sbody) : list block :=
  match b with
  | SHash gens => map gblock gens
  | STree p nodes => opt_block (option_map fst p) ++ map nblock nodes
  | SMulti bk keys => bk ++ flat_map (fun k => opt_block (marr k)) keys
  | STable raws rows free => opt_block raws ++ map rblock rows ++ free
  end.
Definition sb_items (b : sbody) : list Z :=
  match b with
  | SHash gens => flat_map gitems gens
  | STree _ nodes => flat_map nitems nodes
  | SMulti _ keys => flat_map (fun k => map (fun _ => mk k) (mvals k)) keys     (* one entry per (key, value) pair *)
  | STable _ rows _ => map rval rows
  end.
Definition abs (s : sc) : cc :=
  match s with SOwned c b => Owned c (sb_blocks b) (sb_items b) | SMovedFrom => MovedFrom end.

Definition crew_id (c : crewd) : Z := match cblocks c with b :: _ => fst b | [] => -1 end.

(* ---------------------------------------------------------------- pointer-level operations: the whole graph moves *)
Definition s_move_ctor (src : sc) : sc * sc := (src, SMovedFrom).
Definition s_swap (a b : sc) : sc * sc := (b, a).

(* TreeSet::MergeTo(dst) when dst is empty and the managers are equal.  NOW (c7fda03): Swap(dst) -- crews included. *)
Definition s_merge_to_empty (src dst : sc) : sc * sc := s_swap src dst.
(* BEFORE c7fda03: only mCount / mRootNode / mNodeParams were exchanged; each set kept its own crew *)
Definition s_merge_to_empty_old (src dst : sc) : sc * sc :=
  match src, dst with
  | SOwned sc_ sb, SOwned dc db => (SOwned sc_ db, SOwned dc sb)
  | _, _ => (src, dst)
  end.

(* the node pools of a tree use the manager stored in the crew of the set that holds them *)
Definition pools_okb (s : sc) : bool :=
  match s with
  | SOwned c (STree (Some (_, cref)) _) => Z.eqb cref (crew_id c)
  | _ => true
  end.

(* ---------------------------------------------------------------- deep copy, as the copy constructors rebuild it *)
Fixpoint copy_nodes (m : mgr) (ns : list tnode) (w : world) : list tnode * world :=
  match ns with
  | [] => ([], w)
  | n :: r => let (b, w1) := alloc m w in
              let (r', w2) := copy_nodes m r w1 in
              (mkNode b (nitems n) (ndepth n) :: r', w2)          (* TreeSet::pvCopy: node by node, same shape *)
  end.
Fixpoint copy_keys (m : mgr) (ks : list mkey) (w : world) : list mkey * world :=
  match ks with
  | [] => ([], w)
  | k :: r =>
      let (arr, w1) := match mvals k with
                       | [] => (None, w)                        (* ValueArray(params, empty array): nothing allocated; the KEY is still inserted *)
                       | _ => let (b, w1) := alloc m w in (Some b, w1)
                       end in
      let (r', w2) := copy_keys m r w1 in
      (mkKey (mk k) arr (mvals k) :: r', w2)
  end.
Fixpoint copy_rows (m : mgr) (rs : list trow) (w : world) : list trow * world :=
  match rs with
  | [] => ([], w)
  | r :: t => let (b, w1) := alloc m w in
              let (t', w2) := copy_rows m t w1 in (mkRow b (rval r) :: t', w2)
  end.

Definition s_copy_body (m : mgr) (newcrew : Z) (b : sbody) (w : world) : sbody * world :=
  match b with
  | SHash gens =>
      (* HashSet(const HashSet&, MemManager): mCount == 0 -> no buckets; else ONE bucket array sized for the count *)
      match flat_map gitems gens with
      | [] => (SHash [], w)
      | its => let (bk, w1) := alloc m w in (SHash [mkGen bk its], w1)
      end
  | STree p nodes =>
      (* TreeSet(const TreeSet&, MemManager): mCount == 0 -> nothing; else pvCreateNodeParams() + pvCopy(root) *)
      match flat_map nitems nodes with
      | [] => (STree None [], w)
      | _ => let (pb, w1) := alloc m w in
             let (ns, w2) := copy_nodes m nodes w1 in (STree (Some (pb, newcrew)) ns, w2)
      end
  | SMulti bk keys =>
      (* HashMultiMap(const&, MemManager): mHashMap.Reserve(key count); Insert(key, ValueArray copy) for EVERY key *)
      match keys with
      | [] => (SMulti [] [], w)
      | _ => let (nb, w1) := alloc m w in
             let (ks, w2) := copy_keys m keys w1 in (SMulti [nb] ks, w2)
      end
  | STable raws rows free =>
      (* DataTable(const DataTable&): fresh crew, rows imported one by one; the source's freeRaws are not copied *)
      match rows with
      | [] => (STable None [] [], w)
      | _ => let (ra, w1) := alloc m w in
             let (rs, w2) := copy_rows m rows w1 in (STable (Some ra) rs [], w2)
      end
  end.

Definition s_copy (k : ckind) (src : sc) (m : mgr) (w : world) : res sc :=
  match src with
  | SMovedFrom => NullCrew
  | SOwned _ b =>
      let (cb, w1) := alloc_n (crew_n k) m w in
      let cr := mkCrew cb m in
      let (b', w2) := s_copy_body m (crew_id cr) b w1 in
      Ok (SOwned cr b') (emit (map ECopy (sb_items b)) w2)
  end.

(* destruction walks the whole graph and returns every block through the crew's manager *)
Definition s_destroy (s : sc) (w : world) : res unit :=
  match s with
  | SMovedFrom => Ok tt w
  | SOwned cr b =>
      dealloc_all (cmgr cr) (sb_blocks b) (emit (map EDestroy (sb_items b)) w) >>= fun _ w1 =>
      dealloc_all (cmgr cr) (cblocks cr) w1
  end.

(* ---------------------------------------------------------------- structure summaries (what the harness prints) *)
Definition gen_counts (b : sbody) : list nat := match b with SHash gens => map (fun g => length (gitems g)) gens | _ => [] end.
Definition tree_shape (b : sbody) : list (nat * nat) :=
  match b with STree _ nodes => map (fun n => (ndepth n, length (nitems n))) nodes | _ => [] end.
Definition key_shape (b : sbody) : list (Z * nat) :=
  match b with SMulti _ keys => map (fun k => (mk k, length (mvals k))) keys | _ => [] end.
Definition valueless (b : sbody) : nat :=
  match b with SMulti _ keys => length (filter (fun k => match mvals k with [] => true | _ => false end) keys) | _ => O end.
