(* Property C18 -- theorems only.  Each is closed by `exact <lemma>` and followed by Print Assumptions.
   Gen_Vertices.v / Gen_Ceil.v (GetVertices, Ceil) are regenerated from /repo's headers on every run; Model.v is the
   executable model of DataColumnList (pvAdd, pvFillAddends, pvAddEdges, Graph::AddEdges/FillAddends, pvAddColumns,
   pvGetOffset, Contains) that calls them; its extraction is run against the real class on every run.
   L = logVertexCount, keep = Settings::keepRowNumber, a "group" = the columns of one Add(column, columns...) call.
   group_ok: codes are 64-bit, 0 < size <= 2^32, alignment in {1,2,4,8,16} dividing the size
   (ObjectAlignmenter::Check), fewer than 2^32 columns in one call. *)
From Coq Require Import ZArith List Bool.
From MomoCommon Require Import GenPrelude.
From C18 Require Gen_Vertices Gen_Ceil Gen_List Gen_Raw Gen_Bits Gen_Mut Gen_PvCreate PvCreate PvDestroy Model Layout Fill Vertices Bits Inv Main RawLife RawGen Static.
Import ListNotations.
Local Open Scope Z_scope.

(* (1) pvAddEdges: for EVERY list of columns added in one Add, starting at any current total size and alignment:
   the new slots form a chain (in order, each offset a multiple of its alignment, each starting at or after the end
   of the previous one and at or after the old total size), the chain ends at the new total size, total size and
   alignment only grow, every column's alignment divides the list alignment, no 64-bit wrap-around happens, and
   the edges put into the graph are exactly those of the new records. *)
Theorem C18_layout_ok :
  forall L cp g cs off al g' off' al' rs,
    Forall Layout.col_ok cs -> 0 <= off -> off + Z.of_nat (length cs) * (Layout.maxItemSize + 16) <= 2 ^ 63 ->
    Layout.pow2_le16 al ->
    Model.new_edges L cp g off al cs = (g', off', al', rs) ->
    Layout.chain off rs off' /\ off' <= off + Z.of_nat (length cs) * (Layout.maxItemSize + 16) /\
    al <= al' /\ Layout.pow2_le16 al' /\ Forall Layout.rec_ok rs /\
    Forall (fun r => (Model.r_align r | al')) rs /\
    map Model.r_code rs = map Model.c_code cs /\ map Model.r_size rs = map Model.c_size cs /\
    map Model.r_align rs = map Model.c_align cs /\ g' = Model.old_edges L cp g rs.
Proof. exact Layout.new_edges_ok. Qed.
Print Assumptions C18_layout_ok.

(* every reachable column list (any history of accepted and refused Adds from the empty list): each column's slot
   starts after the row-number slot, ends inside the total size, is aligned, its alignment divides the list
   alignment; two different columns never overlap and never have the same code. *)
Theorem C18_reachable_layout_ok :
  forall L keep, 4 <= L <= 15 -> forall ops, Forall Inv.group_ok ops ->
    let st := Model.run L keep ops in
    (forall r, In r (Model.columns st) ->
       Model.rowNumberSize keep <= Model.r_off r /\ Model.r_off r + Model.r_size r <= Model.totalSize st /\
       0 < Model.r_size r /\ Model.r_off r mod Model.r_align r = 0 /\ (Model.r_align r | Model.alignment st) /\
       Model.totalSize st < 2 ^ 47) /\
    (forall i j ri rj, (i < j)%nat ->
       nth_error (Model.columns st) i = Some ri -> nth_error (Model.columns st) j = Some rj ->
       Model.r_off ri + Model.r_size ri <= Model.r_off rj /\ Model.r_code ri <> Model.r_code rj).
Proof. exact Main.reachable_layout. Qed.
Print Assumptions C18_reachable_layout_ok.

(* (2) the generated GetVertices: both vertices index into the vertex arrays and differ (AddEdges' extra check), for
   every code parameter up to the SOURCE's maxCodeParam (Gen_Vertices.maxCodeParam is emitted by cxx2coq from
   DataColumnTraits; raising it, e.g. to 1023, makes this theorem unprovable for logVertexCount 4 and 5) *)
Theorem C18_getvertices_in_range_distinct :
  forall L code cp, 4 <= L <= 15 -> 0 <= cp <= Gen_Vertices.maxCodeParam ->
    0 <= fst (Gen_Vertices.GetVertices L code cp) < 2 ^ L /\ 0 <= snd (Gen_Vertices.GetVertices L code cp) < 2 ^ L /\
    fst (Gen_Vertices.GetVertices L code cp) <> snd (Gen_Vertices.GetVertices L code cp).
Proof. exact Vertices.GetVertices_range. Qed.
Print Assumptions C18_getvertices_in_range_distinct.

(* Graph::FillAddends (recursive DFS) + the vertex loop of pvFillAddends on ANY graph whose edge targets lie in
   `dom` and whose edge values are <= B with (fuel+1)*B < 2^63, started from any table in which every non-zero vertex
   is finished: the fuel (= number of vertices + 1) never runs out, and if the result is `true` then for every vertex
   of the loop every edge (v -> v2, value) has addends[v] <> 0, addends[v2] <> 0, addends[v]+addends[v2] = value mod 2^64 *)
Theorem C18_fill_addends_correct :
  forall (g : Model.graph) (dom : list Z) (B F : Z),
    (forall v v2 val, In (v2, val) (g v) -> In v2 dom /\ 0 <= val <= B) -> 0 <= B -> (F + 1) * B < 2 ^ 63 ->
    forall f0 : nat, Z.of_nat f0 = F -> (length dom < f0)%nat ->
    forall vs a, Fill.near B F a -> (forall w, a w <> 0 -> Fill.edges_ok g a w) ->
    exists b a', Model.fill_all f0 g vs a = Some (b, a') /\ Fill.extends a a' /\ Fill.near B F a' /\
      (b = true -> (forall w, a' w <> 0 -> Fill.edges_ok g a' w) /\ (forall v, In v vs -> Fill.edges_ok g a' v)).
Proof. exact Fill.fill_all_spec. Qed.
Print Assumptions C18_fill_addends_correct.

(* addends_lookup: for every code parameter and every list of column records (offsets <= 2^47): building the graph
   with GetVertices and running pvFillAddends never runs out of fuel, and if it succeeds then pvGetOffset finds
   EVERY record at its offset (and its MOMO_ASSERT holds) *)
Theorem C18_addends_lookup :
  forall L, 4 <= L <= 15 -> forall cp rs, 0 <= cp <= 255 -> (forall r, In r rs -> 0 <= Model.r_off r <= Inv.Bsz) ->
    exists b a, Model.fill_all (Model.dfs_fuel L) (Model.old_edges L cp Model.g_empty rs) (Model.vertices L) (fun _ => 0) = Some (b, a) /\
      (b = true -> forall r, In r rs -> Model.lookup L cp a (Model.r_code r) = Some (Model.r_off r)).
Proof. exact Inv.graph_lookup. Qed.
Print Assumptions C18_addends_lookup.

(* one Add on a list satisfying the invariant: never OutOfFuel / AssertFails; accepted -> invariant again, the old
   records are kept and the new ones follow in order inside [old total size, new total size), total size /
   alignment / codeParam only grow; "Too many columns" exactly when the count would exceed maxColumnCount; "Cannot
   add columns" only when pvFillAddends failed for EVERY code parameter from mCodeParam to 255 *)
Theorem C18_add_spec :
  forall L keep, 4 <= L <= 15 -> forall st cs, Inv.Inv L keep st -> Inv.group_ok cs ->
    match Model.add L st cs with
    | Model.Added st' =>
        Inv.Inv L keep st' /\
        (exists rs, Model.columns st' = Model.columns st ++ rs /\ map Model.r_code rs = map Model.c_code cs /\
                    map Model.r_size rs = map Model.c_size cs /\ map Model.r_align rs = map Model.c_align cs /\
                    Layout.chain (Model.totalSize st) rs (Model.totalSize st')) /\
        Model.totalSize st <= Model.totalSize st' /\ Model.alignment st <= Model.alignment st' /\
        Model.codeParam st <= Model.codeParam st'
    | Model.TooMany => Model.maxColumnCount L < Z.of_nat (length cs) + Z.of_nat (length (Model.columns st))
    | Model.Refused => forall cp, Model.codeParam st <= cp <= 255 ->
                   exists a1 o1 l1 r1, Model.try_param L st cp cs = Some (false, a1, o1, l1, r1)
    | Model.AllocFailed _ => False
    | Model.OutOfFuel => False
    | Model.AssertFails => False
    end.
Proof. exact Inv.add_spec. Qed.
Print Assumptions C18_add_spec.

Theorem C18_reachable_invariant :
  forall L keep, 4 <= L <= 15 -> forall ops, Forall Inv.group_ok ops -> Inv.Inv L keep (Model.run L keep ops).
Proof. exact Inv.run_inv. Qed.
Print Assumptions C18_reachable_invariant.

(* looking up an added column in any reachable list yields its recorded offset *)
Theorem C18_lookup_yields_offset :
  forall L keep, 4 <= L <= 15 -> forall ops, Forall Inv.group_ok ops ->
    forall r, In r (Model.columns (Model.run L keep ops)) ->
      Model.get_offset L (Model.run L keep ops) (Model.r_code r) = Some (Model.r_off r).
Proof. exact Main.reachable_lookup. Qed.
Print Assumptions C18_lookup_yields_offset.

(* offsets_stable_under_add: one more Add (accepted or refused) keeps every record, and the old columns are found
   at the same offsets through the new addends table / code parameter *)
Theorem C18_offsets_stable_under_add :
  forall L keep, 4 <= L <= 15 -> forall ops cs, Forall Inv.group_ok ops -> Inv.group_ok cs ->
    exists rs, Model.columns (Model.run L keep (ops ++ [cs])) = Model.columns (Model.run L keep ops) ++ rs /\
      forall r, In r (Model.columns (Model.run L keep ops)) ->
        Model.get_offset L (Model.run L keep (ops ++ [cs])) (Model.r_code r) = Some (Model.r_off r).
Proof. exact Main.offsets_stable_under_add. Qed.
Print Assumptions C18_offsets_stable_under_add.

(* (3) Contains(columnInfo, &offset) is true exactly for the columns of the accepted Adds ... *)
Theorem C18_contains_iff_added :
  forall L keep, 4 <= L <= 15 -> forall ops code, Forall Inv.group_ok ops ->
    ((exists off, Model.contains L (Model.run L keep ops) code = Some off) <->
     In code (map Model.c_code (Main.accepted L (Model.init keep) ops))).
Proof. exact Main.contains_iff_added. Qed.
Print Assumptions C18_contains_iff_added.

(* ... and the offset it reports is the column's offset *)
Theorem C18_contains_offset :
  forall L keep, 4 <= L <= 15 -> forall ops code off, Forall Inv.group_ok ops ->
    (Model.contains L (Model.run L keep ops) code = Some off <->
     exists r, In r (Model.columns (Model.run L keep ops)) /\ Model.r_code r = code /\ Model.r_off r = off).
Proof. exact Main.reachable_contains. Qed.
Print Assumptions C18_contains_offset.

(* refused_add_unchanged (no allocation failure): whatever is neither `Added` nor `AllocFailed` leaves the object
   exactly as it was (both throws of pvAdd happen before the first member is written) *)
Theorem C18_refused_add_unchanged :
  forall L st cs, (forall st', Model.add L st cs <> Model.Added st') -> (forall st', Model.add L st cs <> Model.AllocFailed st') ->
    Model.after st (Model.add L st cs) = st.
Proof. exact Inv.refused_unchanged. Qed.
Print Assumptions C18_refused_add_unchanged.

(* pvAdd with an allocation failing at ANY place fs (mColumns/mFuncRecords.Reserve, mMutableOffsets.SetCount, or
   mColumnCodeSet.Insert after j keys with the catch block removing the new keys) or nowhere: as C18_add_spec, and a
   failed Add leaves a state that satisfies the invariant and is observably unchanged *)
Theorem C18_add_with_allocation_failures :
  forall L keep, 4 <= L <= 15 -> forall fs st cs, Inv.Inv L keep st -> Inv.group_ok cs ->
    match Model.add_f L fs st cs with
    | Model.Added st' =>
        Inv.Inv L keep st' /\
        (exists rs, Model.columns st' = Model.columns st ++ rs /\ map Model.r_code rs = map Model.c_code cs /\
                    map Model.r_size rs = map Model.c_size cs /\ map Model.r_align rs = map Model.c_align cs /\
                    map Model.r_mut rs = map Model.c_mut cs /\ Layout.chain (Model.totalSize st) rs (Model.totalSize st')) /\
        Model.totalSize st <= Model.totalSize st' /\ Model.alignment st <= Model.alignment st' /\
        Model.codeParam st <= Model.codeParam st' /\ fs = Model.NoFail
    | Model.TooMany => Model.maxColumnCount L < Z.of_nat (length cs) + Z.of_nat (length (Model.columns st))
    | Model.Refused => forall cp, Model.codeParam st <= cp <= 255 ->
                   exists a1 o1 l1 r1, Model.try_param L st cp cs = Some (false, a1, o1, l1, r1)
    | Model.AllocFailed st' => Inv.Inv L keep st' /\ Inv.unchanged_obs st st' /\ fs <> Model.NoFail
    | Model.OutOfFuel => False
    | Model.AssertFails => False
    end.
Proof. exact Inv.add_f_spec. Qed.
Print Assumptions C18_add_with_allocation_failures.

(* refused_add_unchanged for ALL failure outcomes, after ANY history in which allocations failed anywhere: an Add that
   is not accepted (Too many / Cannot add / bad_alloc) leaves codeParam, addends, sizes, records, the code set (as a
   set) and every IsMutable answer as they were, hence also every GetOffset and every Contains answer *)
Theorem C18_refused_or_failed_add_unchanged :
  forall L keep, 4 <= L <= 15 -> forall ops fs cs,
    Forall (fun op => Inv.group_ok (snd op)) ops -> Inv.group_ok cs ->
    (forall st', Model.add_f L fs (Model.run_f L keep ops) cs <> Model.Added st') ->
    Inv.unchanged_obs (Model.run_f L keep ops) (Model.run_f L keep (ops ++ [(fs, cs)])) /\
    (forall code, Model.get_offset L (Model.run_f L keep (ops ++ [(fs, cs)])) code = Model.get_offset L (Model.run_f L keep ops) code) /\
    (forall code, Model.contains L (Model.run_f L keep (ops ++ [(fs, cs)])) code = Model.contains L (Model.run_f L keep ops) code).
Proof. exact Main.refused_or_failed_add_unchanged. Qed.
Print Assumptions C18_refused_or_failed_add_unchanged.

Theorem C18_reachable_invariant_with_failures :
  forall L keep, 4 <= L <= 15 -> forall ops, Forall (fun op => Inv.group_ok (snd op)) ops -> Inv.Inv L keep (Model.run_f L keep ops).
Proof. exact Main.reachable_f_invariant. Qed.
Print Assumptions C18_reachable_invariant_with_failures.

(* Graph::mEdgeStorage: under the "Too many columns" guard, for every code parameter tried, the graph handed to
   FillAddends holds exactly 2 * (old + new columns) Edge records -- never more than maxEdgeCount = 2 * maxColumnCount,
   the size of mEdgeStorage (= vertexCount, below the 2 * vertexCount of the MOMO_ASSERT in pvAddEdge) *)
Theorem C18_edge_storage_bound :
  forall L, 4 <= L <= 15 -> forall st cs cp, 0 <= cp <= 255 ->
    Z.of_nat (length cs) + Z.of_nat (length (Model.columns st)) <= Model.maxColumnCount L ->
    let '(g1, _, _, _) := Model.new_edges L cp (Model.old_edges L cp Model.g_empty (Model.columns st))
                                          (Model.totalSize st) (Model.alignment st) cs in
    Inv.gsize g1 (Model.vertices L) = 2 * (Z.of_nat (length (Model.columns st)) + Z.of_nat (length cs)) /\
    Inv.gsize g1 (Model.vertices L) <= Inv.maxEdgeCount L /\ Inv.maxEdgeCount L = Model.vertexCount L.
Proof. exact Inv.edge_storage_bound. Qed.
Print Assumptions C18_edge_storage_bound.

(* the bit array (UIntMath<uint8_t>::SetBit / GetBit as used by mMutableOffsets) *)
Theorem C18_getbit_setbit :
  forall b i j, 0 <= i -> 0 <= j -> Bits.bytes_ok b ->
    Model.GetBit (Model.SetBit b i) j = Z.eqb i j || Model.GetBit b j.
Proof. exact Bits.GetBit_SetBit. Qed.
Print Assumptions C18_getbit_setbit.

(* IsMutable in every reachable state (whatever allocations failed on the way): at a column's offset it is true iff
   the column was added as mutable, and it is true at no other offset *)
Theorem C18_is_mutable_iff_added_mutable :
  forall L keep, 4 <= L <= 15 -> forall ops, Forall (fun op => Inv.group_ok (snd op)) ops ->
    (forall r, In r (Model.columns (Model.run_f L keep ops)) ->
       Model.is_mutable (Model.run_f L keep ops) (Model.r_off r) = Model.r_mut r) /\
    (forall o, 0 <= o -> Model.is_mutable (Model.run_f L keep ops) o = true ->
       exists r, In r (Model.columns (Model.run_f L keep ops)) /\ Model.r_off r = o /\ Model.r_mut r = true).
Proof. exact Main.reachable_is_mutable. Qed.
Print Assumptions C18_is_mutable_iff_added_mutable.

(* DataColumnListStatic over a struct laid out by the natural rule (compared with the compiler's offsetof on every
   run): members in order, aligned, disjoint, inside sizeof; sizeof a multiple of the alignment; every member offset
   (= column code) passes the assertion of pvGetOffset and is returned unchanged by GetOffset / Contains *)
Theorem C18_static_layout_ok :
  forall ms sz al rs, Forall Layout.col_ok ms -> Z.of_nat (length ms) * (Layout.maxItemSize + 16) <= 2 ^ 62 ->
    Static.struct_layout ms = (sz, al, rs) ->
    Layout.chain 0 rs sz /\ sz mod al = 0 /\ Layout.pow2_le16 al /\
    map Model.r_size rs = map Model.c_size ms /\ map Model.r_align rs = map Model.c_align ms /\
    (forall r, In r rs -> Static.s_get_offset sz (Model.r_off r) = Some (Model.r_off r) /\
                          Model.r_off r + Model.r_size r <= sz /\ (Model.r_align r | al)).
Proof. exact Static.struct_layout_ok. Qed.
Print Assumptions C18_static_layout_ok.

(* SetMutable(columns...) on the static list: IsMutable(o) afterwards = it was before, or o is one of the offsets *)
Theorem C18_static_set_mutable :
  forall codes b o, Bits.bytes_ok b -> Forall (fun c => 0 <= c) codes -> 0 <= o ->
    Static.s_is_mutable (Static.s_set_mutable b codes) o = Static.s_is_mutable b o || existsb (Z.eqb o) codes.
Proof. exact Static.s_set_mutable_get. Qed.
Print Assumptions C18_static_set_mutable.

(* the dynamic list (no row number) given the same columns in one Add assigns exactly the struct's member offsets *)
Theorem C18_dynamic_matches_struct :
  forall L cp ms g' off al rs, Model.new_edges L cp Model.g_empty 0 1 ms = (g', off, al, rs) ->
    snd (Static.struct_layout ms) = rs /\ snd (fst (Static.struct_layout ms)) = al.
Proof. exact Static.dynamic_matches_struct. Qed.
Print Assumptions C18_dynamic_matches_struct.

(* L2, rows: pvCreateRaw / pvCreate<Item, Items...> (CreateRaw and ImportRaw) for any grouping of the columns into
   FuncRecords and any construction that throws (k = which one): either it completes having constructed every
   column's item exactly once, in order, destroying nothing; or it throws and every item it constructed has been
   destroyed again exactly as often as it was constructed (at most once per occurrence of the column) *)
Theorem C18_raw_create_once :
  forall groups k t ok, RawLife.create_raw k [] groups = (t, ok) ->
    if ok then t = map RawLife.Ctor (concat groups)
    else forall c, RawLife.count (RawLife.Ctor c) t = RawLife.count (RawLife.Dtor c) t /\
                   (RawLife.count (RawLife.Ctor c) t <= count_occ Nat.eq_dec (concat groups) c)%nat.
Proof. exact RawLife.raw_create_once. Qed.
Print Assumptions C18_raw_create_once.

(* a row that is created (nothing throws) and later destroyed with DestroyRaw: each column's item is constructed
   exactly once and destroyed exactly once *)
Theorem C18_raw_create_destroy_once :
  forall groups c, NoDup (concat groups) -> In c (concat groups) ->
    let t := fst (RawLife.create_raw None [] groups) ++ RawLife.destroy_raw groups in
    RawLife.count (RawLife.Ctor c) t = 1%nat /\ RawLife.count (RawLife.Dtor c) t = 1%nat.
Proof. exact RawLife.raw_create_destroy_once. Qed.
Print Assumptions C18_raw_create_destroy_once.

(* ---- review round: theorems behind every function that meta.json lists as generated ---- *)

(* the generated UIntMath<size_t>::Ceil (used by the model of pvAddEdges for every offset): for 0 < m <= 16 and v <= 2^63 the
   result is the least multiple of m that is >= v, without wrap-around *)
Theorem C18_generated_Ceil :
  forall v m, 0 < m <= 16 -> 0 <= v <= 2 ^ 63 ->
    v <= Gen_Ceil.Ceil v m < v + m /\ Gen_Ceil.Ceil v m mod m = 0.
Proof. exact Layout.Ceil_spec. Qed.
Print Assumptions C18_generated_Ceil.

(* DEFINITIONAL (no content beyond the shape of the generated text): the generated getters return the member, and the
   generated IsMutable asserts `offset < mTotalSize` (Stuck at offset = mTotalSize) *)
Theorem C18_generated_getters_definitional :
  forall cp a ts al mb,
    Gen_List.GetTotalSize cp a ts al = ts /\ Gen_List.GetAlignment cp a ts al = al /\
    Gen_Mut.IsMutable Gen_Bits.GetBit ts mb ts = Stuck.
Proof. exact Inv.generated_getters. Qed.
Print Assumptions C18_generated_getters_definitional.

(* the invariant used as hypothesis of C18_add_spec / C18_add_with_allocation_failures is established: the freshly
   constructed list satisfies it (and C18_reachable_invariant_with_failures: every operation preserves it) *)
Theorem C18_invariant_initially :
  forall L keep, 4 <= L <= 15 -> Inv.Inv L keep (Model.init keep).
Proof. exact Inv.inv_init. Qed.
Print Assumptions C18_invariant_initially.

(* ---- round 4 (model growth): more of the code under the theorems ---- *)

(* the constants of the model are the source's (cxx2coq emit_consts): what they evaluate to *)
Theorem C18_source_constants :
  forall L, 4 <= L <= 15 ->
    Gen_List.vertexCount L = 2 ^ L /\ Gen_Vertices.maxColumnCount L = 2 ^ (L - 1) /\ Gen_Vertices.maxCodeParam = 255.
Proof. exact Inv.source_constants. Qed.
Print Assumptions C18_source_constants.

(* the cxx2coq translation of the real DataColumnList::pvGetOffset IS the model's lookup (Ok <-> Some, Stuck = the
   MOMO_ASSERT(addend1 != 0 && addend2 != 0) <-> None) *)
Theorem C18_generated_pvGetOffset_is_lookup :
  forall L cp a code, Model.lookup_gen L cp a code = Model.lookup L cp a code.
Proof. exact Inv.lookup_refines. Qed.
Print Assumptions C18_generated_pvGetOffset_is_lookup.

(* ... and on the members of every reachable state (any history, any allocation failures) the GENERATED pvGetOffset
   returns the recorded offset of every column and never trips its assertion *)
Theorem C18_generated_pvGetOffset_yields_offset :
  forall L keep, 4 <= L <= 15 -> forall ops, Forall (fun op => Inv.group_ok (snd op)) ops ->
    forall r, In r (Model.columns (Model.run_f L keep ops)) ->
      Gen_List.pvGetOffset (Model.GetVertices L) (Model.codeParam (Model.run_f L keep ops)) (Model.addends (Model.run_f L keep ops))
                           (Model.totalSize (Model.run_f L keep ops)) (Model.alignment (Model.run_f L keep ops)) (Model.r_code r)
      = Ok (Model.r_off r).
Proof. exact Main.reachable_generated_pvGetOffset. Qed.
Print Assumptions C18_generated_pvGetOffset_yields_offset.

(* round 5: the cxx2coq translation of the real DataColumnList::Contains (pointer out-parameter resOffset: p = 0 is
   nullptr) IS the model's contains: same answer; a non-null resOffset receives exactly the offset, a null one nothing *)
Theorem C18_generated_Contains_is_contains :
  forall L st p code,
    Model.contains_gen L st p code =
    match Model.contains L st code with
    | Some o => (true, if Z.eqb p 0 then 0 else o)
    | None => (false, 0)
    end.
Proof. exact Inv.contains_refines. Qed.
Print Assumptions C18_generated_Contains_is_contains.

(* ... and on every reachable state (any history, any allocation failures) the GENERATED Contains answers true exactly
   for the columns of the list, writes the column's recorded offset through a non-null resOffset, and gives the same
   answer (writing nothing) when resOffset is nullptr *)
Theorem C18_generated_Contains_iff_added :
  forall L keep, 4 <= L <= 15 -> forall ops code, Forall (fun op => Inv.group_ok (snd op)) ops ->
    let st := Model.run_f L keep ops in
    (fst (Model.contains_gen L st 1 code) = true <-> In code (map Model.r_code (Model.columns st))) /\
    (forall r, In r (Model.columns st) -> Model.contains_gen L st 1 (Model.r_code r) = (true, Model.r_off r)) /\
    fst (Model.contains_gen L st 0 code) = fst (Model.contains_gen L st 1 code) /\ snd (Model.contains_gen L st 0 code) = 0.
Proof. exact Main.reachable_generated_Contains. Qed.
Print Assumptions C18_generated_Contains_iff_added.

(* index bounds: in every reachable state mCodeParam <= maxCodeParam, and the vertex indices computed from it for ANY
   column code (added or not: Contains, GetOffset, the next Add) are inside mAddends / Graph::mEdges *)
Theorem C18_reachable_indices_in_bounds :
  forall L keep, 4 <= L <= 15 -> forall ops code, Forall (fun op => Inv.group_ok (snd op)) ops ->
    let cp := Model.codeParam (Model.run_f L keep ops) in
    0 <= cp <= Model.maxCodeParam /\
    0 <= fst (Model.GetVertices L code cp) < Model.vertexCount L /\ 0 <= snd (Model.GetVertices L code cp) < Model.vertexCount L.
Proof. exact Main.reachable_indices_in_bounds. Qed.
Print Assumptions C18_reachable_indices_in_bounds.

(* OBSERVATION (not a violation): only 16 of the 256 code parameters differ.  For codeParam = 16 p + q the vertices are
   those of parameter (p xor q), relabelled by the bijection v |-> v xor p ... *)
Theorem C18_obs_param_xor :
  forall L code p q, 4 <= L <= 15 -> 0 <= p < 16 -> 0 <= q < 16 ->
    Gen_Vertices.GetVertices L code (16 * p + q) =
    (Z.lxor (fst (Gen_Vertices.GetVertices L code (Z.lxor p q))) p, Z.lxor (snd (Gen_Vertices.GetVertices L code (Z.lxor p q))) p).
Proof. exact Vertices.GetVertices_param_xor. Qed.
Print Assumptions C18_obs_param_xor.

(* ... so the whole edge structure handed to FillAddends for (p, q) is the one for (0, p xor q) under that relabelling:
   one has a cycle iff the other has, and the search loop of pvAdd really has 16 different attempts *)
Theorem C18_obs_param_graph_isomorphic :
  forall L, 4 <= L <= 15 -> forall rs p q v v2 val, 0 <= p < 16 -> 0 <= q < 16 ->
    (In (v2, val) (Model.old_edges L (16 * p + q) Model.g_empty rs v) <->
     In (Z.lxor v2 p, val) (Model.old_edges L (Z.lxor p q) Model.g_empty rs (Z.lxor v p))).
Proof. exact Inv.param_graph_isomorphic. Qed.
Print Assumptions C18_obs_param_graph_isomorphic.

(* round 6: the cxx2coq translations of the real UIntMath<uint8_t>::GetBit / SetBit (pointer parameter as array) satisfy the
   bit-array law, and are the model's bit functions *)
Theorem C18_generated_GetBit_SetBit :
  forall b i j, 0 <= i -> 0 <= j -> Bits.bytes_ok b ->
    Gen_Bits.GetBit (Gen_Bits.SetBit b i) j = Z.eqb i j || Gen_Bits.GetBit b j.
Proof. exact Bits.generated_GetBit_SetBit. Qed.
Print Assumptions C18_generated_GetBit_SetBit.

Theorem C18_generated_SetBit_is_model :
  forall b j, 0 <= j -> Gen_Bits.SetBit b j = Model.SetBit b j.
Proof. exact Bits.SetBit_refines. Qed.
Print Assumptions C18_generated_SetBit_is_model.

(* IsMutable's bit test with the GENERATED GetBit on every reachable state: true exactly at the mutable columns' offsets *)
Theorem C18_generated_GetBit_iff_added_mutable :
  forall L keep, 4 <= L <= 15 -> forall ops, Forall (fun op => Inv.group_ok (snd op)) ops ->
    (forall r, In r (Model.columns (Model.run_f L keep ops)) ->
       Gen_Bits.GetBit (Model.mutBytes (Model.run_f L keep ops)) (Model.r_off r) = Model.r_mut r) /\
    (forall o, 0 <= o -> Gen_Bits.GetBit (Model.mutBytes (Model.run_f L keep ops)) o = true ->
       exists r, In r (Model.columns (Model.run_f L keep ops)) /\ Model.r_off r = o /\ Model.r_mut r = true).
Proof. exact Main.reachable_generated_GetBit. Qed.
Print Assumptions C18_generated_GetBit_iff_added_mutable.

(* last round: pvCreate<Item, Items...> (variadic recursion with a try/catch around the recursive instantiation).  Gen_PvCreate.v holds
   the statement tree of EVERY instantiation (deep embedding, dumped uninterpreted).  AST facts, by computation on those trees: each
   recursive instantiation reads as [construct THIS item (Create or Copy into `item`); try { pvCreate(.., columns + 1, ..) }
   catch { Destroy this item; throw; }] and each base instantiation is empty ... *)
Theorem C18_pvCreate_every_instantiation_has_the_shape :
  forallb (fun b => match PvCreate.acts_of b with Some a => PvCreate.same_acts a PvCreate.step_acts | None => false end)
          Gen_PvCreate.pvCreate_steps = true /\
  forallb (fun b => match PvCreate.acts_of b with Some [] => true | _ => false end) Gen_PvCreate.pvCreate_bases = true /\
  Gen_PvCreate.pvCreate_steps <> [] /\ Gen_PvCreate.pvCreate_bases <> [].
Proof. exact PvCreate.shape_facts. Qed.
Print Assumptions C18_pvCreate_every_instantiation_has_the_shape.

(* ... that shape means exactly one step of the hand model RawLife.create_group (the model the row theorems are about) ... *)
Theorem C18_pvCreate_step_is_hand_model :
  forall c cs k, PvCreate.run c (fun k' => RawLife.create_group k' cs) PvCreate.step_acts k = RawLife.create_group k (c :: cs).
Proof. exact PvCreate.step_is_create_group. Qed.
Print Assumptions C18_pvCreate_step_is_hand_model.

(* ... and the whole recursion over any group of items, read through ANY generated step instantiation and ANY generated base
   instantiation, for any failure schedule, is RawLife.create_group *)
Theorem C18_generated_pvCreate_is_create_group :
  forall sb bb, In sb Gen_PvCreate.pvCreate_steps -> In bb Gen_PvCreate.pvCreate_bases ->
    forall cs k, PvCreate.interp_group sb bb cs k = Some (RawLife.create_group k cs).
Proof. exact PvCreate.generated_pvCreate_is_create_group. Qed.
Print Assumptions C18_generated_pvCreate_is_create_group.

(* final round: destroying a row.  AST facts, by computation on the statement trees of ALL instantiations (Gen_PvCreate.v): every
   pvDestroy<Void, Item, Items...> is [Destroy the item at THIS column's offset; pvDestroy(.., columns + 1, ..)], every base case is
   empty, and DestroyRaw is exactly one loop over mFuncRecords calling destroyFunc once on THAT record's columns *)
Theorem C18_pvDestroy_DestroyRaw_have_the_shape :
  forallb (fun b => match PvDestroy.dacts_of b with Some a => PvDestroy.dacts_eqb a PvDestroy.dstep | None => false end)
          Gen_PvCreate.pvDestroy_steps = true /\
  forallb (fun b => match PvDestroy.dacts_of b with Some [] => true | _ => false end) Gen_PvCreate.pvDestroy_bases = true /\
  PvDestroy.destroy_raw_shape Gen_PvCreate.DestroyRaw_body = true /\
  Gen_PvCreate.pvDestroy_steps <> [] /\ Gen_PvCreate.pvDestroy_bases <> [].
Proof. exact PvDestroy.destroy_shape_facts. Qed.
Print Assumptions C18_pvDestroy_DestroyRaw_have_the_shape.

(* pvDestroy over any group, read through ANY generated instantiation: every item destroyed exactly once, front to back *)
Theorem C18_generated_pvDestroy_is_hand_model :
  forall sb bb, In sb Gen_PvCreate.pvDestroy_steps -> In bb Gen_PvCreate.pvDestroy_bases ->
    forall cs, PvDestroy.dinterp_group sb bb cs = Some (map RawLife.Dtor cs).
Proof. exact PvDestroy.generated_pvDestroy_is_hand_model. Qed.
Print Assumptions C18_generated_pvDestroy_is_hand_model.

(* DestroyRaw over any list of groups is the hand model RawLife.destroy_raw (the one C18_raw_create_destroy_once is about) *)
Theorem C18_generated_DestroyRaw_is_hand_model :
  forall sb bb, In sb Gen_PvCreate.pvDestroy_steps -> In bb Gen_PvCreate.pvDestroy_bases ->
    forall groups, PvDestroy.destroy_raw_interp sb bb groups = Some (RawLife.destroy_raw groups).
Proof. exact PvDestroy.generated_DestroyRaw_is_hand_model. Qed.
Print Assumptions C18_generated_DestroyRaw_is_hand_model.

(* OBSERVATION about generated code (not a C18 violation): IsMutable(0) on a fresh keepRowNumber list passes its assertion although
   mMutableOffsets is still empty *)
Theorem C18_obs_ismutable_on_fresh_row_number_list :
  Model.totalSize (Model.init true) = 8 /\ Model.mutCount (Model.init true) = 0 /\
  Gen_Mut.IsMutable Gen_Bits.GetBit (Model.totalSize (Model.init true)) (Model.mutBytes (Model.init true)) 0 = Ok false.
Proof. exact Main.obs_ismutable_on_fresh_row_number_list. Qed.
Print Assumptions C18_obs_ismutable_on_fresh_row_number_list.

(* round 7: the GENERATED IsMutable member (MOMO_ASSERT(offset < mTotalSize) -> Stuck, then the generated GetBit on
   mMutableOffsets.GetItems()) on every reachable state: at a column's offset the assertion holds and the answer is whether the
   column was added as mutable; at any offset inside the row it is true only at mutable columns *)
Theorem C18_generated_IsMutable :
  forall L keep, 4 <= L <= 15 -> forall ops, Forall (fun op => Inv.group_ok (snd op)) ops ->
    let st := Model.run_f L keep ops in
    (forall r, In r (Model.columns st) ->
       Gen_Mut.IsMutable Gen_Bits.GetBit (Model.totalSize st) (Model.mutBytes st) (Model.r_off r) = Ok (Model.r_mut r)) /\
    (forall o, 0 <= o < Model.totalSize st -> exists b,
       Gen_Mut.IsMutable Gen_Bits.GetBit (Model.totalSize st) (Model.mutBytes st) o = Ok b /\
       (b = true -> exists r, In r (Model.columns st) /\ Model.r_off r = o /\ Model.r_mut r = true)).
Proof. exact Main.reachable_generated_IsMutable. Qed.
Print Assumptions C18_generated_IsMutable.

(* round 6: the cxx2coq translation of the real pvCreateRaw (try_catch mode: the funcIndex loop, a createFunc call that throws
   according to ANY per-call schedule P, the catch block's destroy loop below funcIndex, `throw;`) on a list of n <= 65536
   FuncRecords with any identities arr: never Fuel/Stuck; if no call throws it completes with every record created as often as
   it occurs and nothing destroyed; if call t is the first to throw it does not complete, records 0..t-1 are created and
   EVERY record is destroyed exactly as often as it was created (the failing record and the later ones are not touched) *)
Theorem C18_generated_pvCreateRaw_balanced :
  forall arr n P, 0 <= n <= 65536 ->
    match RawGen.first_fail P 0 (Z.to_nat n) with
    | None => exists c', Gen_Raw.pvCreateRaw n arr 0 (fun _ => 0) (fun _ => 0) P = Ok (true, n, c', fun _ => 0) /\
                         forall x, c' x = RawGen.cnt arr 0 (Z.to_nat n) x
    | Some t => exists c' d', Gen_Raw.pvCreateRaw n arr 0 (fun _ => 0) (fun _ => 0) P = Ok (false, Z.of_nat t, c', d') /\
                         (Z.of_nat t < n) /\ P (Z.of_nat t) = true /\
                         (forall x, c' x = RawGen.cnt arr 0 t x) /\ (forall x, d' x = c' x)
    end.
Proof. exact RawGen.generated_pvCreateRaw_balanced. Qed.
Print Assumptions C18_generated_pvCreateRaw_balanced.

(* pvCreateRaw with its funcIndex bookkeeping (index loop, catch destroys the records below funcIndex) is the structural
   model the row theorems are about *)
Theorem C18_create_raw_funcindex_loop :
  forall groups k, RawLife.create_raw_idx (S (length groups)) k groups 0 = RawLife.create_raw k [] groups.
Proof. exact RawLife.create_raw_idx_ok. Qed.
Print Assumptions C18_create_raw_funcindex_loop.

(* ... and incrementing funcIndex BEFORE the createFunc call is refuted: the failing group is destroyed twice *)
Theorem C18_create_raw_preincrement_refuted :
  fst (RawLife.create_raw_preinc 3 (Some 1%nat) [[0%nat; 1%nat]] 0) = [RawLife.Ctor 0; RawLife.Dtor 0; RawLife.Dtor 0; RawLife.Dtor 1] /\
  fst (RawLife.create_raw_idx 3 (Some 1%nat) [[0%nat; 1%nat]] 0) = [RawLife.Ctor 0; RawLife.Dtor 0].
Proof. exact RawLife.preincrement_destroys_twice. Qed.
Print Assumptions C18_create_raw_preincrement_refuted.

(* non-vacuity: a history whose third Add needs the second code parameter, a refused duplicate, "Too many columns" *)
Theorem C18_example_retry :
  let st := Model.run 4 true [[Main.u32 160]; [Main.u32 242]; [Main.u32 10]] in
  (Model.codeParam st, Model.totalSize st, Model.alignment st, map Model.r_off (Model.columns st)) = (1, 20, 4, [8; 12; 16]).
Proof. exact Main.retry_history. Qed.
Print Assumptions C18_example_retry.

Theorem C18_example_refused :
  match Model.add 4 (Model.run 4 true [[Main.u32 160]; [Main.u32 242]]) [Main.u32 160] with Model.Refused => True | _ => False end.
Proof. exact Main.refused_history. Qed.
Print Assumptions C18_example_refused.

Theorem C18_example_hypotheses_hold : Forall Inv.group_ok [[Main.u32 160]; [Main.u32 242]; [Main.u32 10]].
Proof. exact Main.group_ok_example. Qed.
Print Assumptions C18_example_hypotheses_hold.
