(* C13: the bucket operations that share bytes with the search bound.  AddCrt / Remove / Clear of BucketOpen2N2 and
   BucketOpenN1 (generated: Gen_Open2N2_ops / Gen_OpenN1_ops) never change the decoded bound and keep the element
   count exact; these are the obligations OpenTable.v needs to run whole-table histories with the real bookkeeping. *)
From Coq Require Import ZArith Bool List Lia.
From MomoCommon Require Import GenPrelude.
From C13 Require Gen_Open2N2 Gen_Open2N2_ops Gen_OpenN1 Gen_OpenN1_ops Open2N2_Proofs OpenN1_Proofs.
Import ListNotations.
Local Open Scope Z_scope.
Ltac Zify.zify_post_hook ::= Z.div_mod_to_equations.

(* ------------------------------------------------------------------ Open2N2 *)
Module O2.
Import Gen_Open2N2_ops.
Record st := { ms : Z -> Z; sh : Z -> Z; hp : Z -> Z }.
Section MC.
Variable mc : Z.            (* template parameter maxCount of BucketOpen2N2: 1, 2 or 3 *)
Hypothesis Hmc : 1 <= mc <= 3.
Definition cnt (b : st) : Z := pvGetCount (ms b) (sh b) (hp b).
(* the short-hash bytes: slot i holds an item (byte < 128 = emptyShortHash) exactly when i >= maxCount - count *)
Definition sh_inv (b : st) : Prop := forall i, 0 <= i < mc -> 0 <= sh b i <= 128 /\ (sh b i < 128 <-> mc - cnt b <= i).
Definition good (b : st) : Prop := Open2N2_Proofs.enc_inv (ms b) /\ sh_inv b.
Definition dec (b : st) : Z := Gen_Open2N2.pvGetMaxProbe (ms b).
Definition full (b : st) : bool := IsFull (ms b) (sh b) (hp b).
Definition updP (b : st) (p : Z) : st :=
  match Gen_Open2N2.UpdateMaxProbe (ms b) p with Ok (_, m) => {| ms := m; sh := sh b; hp := hp b |} | _ => b end.
(* AddCrt's remaining arguments: hashCode, logBucketCount, probe, newItem (hashCode is a size_t) *)
Definition addP (a : Z * Z * Z * Z) (b : st) : st :=
  let '(hc, lbc, pr, ni) := a in
  match AddCrt mc (ms b) (sh b) (hp b) (wrapU 64 hc) lbc pr ni with Ok (_, m, s, h) => {| ms := m; sh := s; hp := h |} | _ => b end.
(* Remove's remaining argument: the slot index of the removed item; the iterator points into the bucket (index < maxCount) *)
Definition remP (a : Z * Z * Z * Z) (b : st) : option st :=
  let '(idx, _, _, _) := a in
  if andb (Z.leb 0 idx) (Z.ltb idx mc) then
    match Remove mc (ms b) (sh b) (hp b) idx with Ok (_, m, s, h) => Some {| ms := m; sh := s; hp := h |} | _ => None end
  else None.
Definition empty : st :=
  let '(m, s) := pvSetEmpty mc (fun _ => 0) (fun _ => 0) (fun _ => 0) in {| ms := m; sh := s; hp := fun _ => 0 |}.

Lemma cnt_same b : cnt b = Gen_Open2N2.pvGetCount (ms b).
Proof. reflexivity. Qed.
Lemma cnt_val b : good b -> cnt b = ms b 1 mod 4.
Proof. intros ((_ & H1 & _) & _). rewrite cnt_same. apply Open2N2_Proofs.pvGetCount_val. lia. Qed.
Lemma empty_sh_val : emptyShortHash = 128.
Proof. vm_compute. reflexivity. Qed.
Lemma short_hash_range x : 0 <= x < 2 ^ 64 -> 0 <= pvCalcShortHash x < 128.
Proof.
  intros Hx. unfold pvCalcShortHash. replace hashCodeShift with 57 by (vm_compute; reflexivity).
  rewrite Z.shiftr_div_pow2 by lia.
  assert (0 <= x / 2 ^ 57 < 128).
  { split; [apply Z.div_pos; lia|]. apply Z.div_lt_upper_bound; [lia|]. change (2 ^ 57 * 128) with (2 ^ 64). lia. }
  rewrite wrapU_small by (change (2 ^ 8) with 256; lia). lia.
Qed.

(* a byte whose low two bits change by +-1 without carry keeps its upper six bits *)
Lemma byte_inc x : 0 <= x < 256 -> x mod 4 < 3 -> wrapU 8 (x + 1) = x + 1 /\ (x + 1) / 4 = x / 4 /\ (x + 1) mod 4 = x mod 4 + 1.
Proof. intros Hx Hc. rewrite wrapU_small by (change (2 ^ 8) with 256; lia). lia. Qed.
Lemma byte_dec x : 0 <= x < 256 -> 0 < x mod 4 -> wrapU 8 (x - 1) = x - 1 /\ (x - 1) / 4 = x / 4 /\ (x - 1) mod 4 = x mod 4 - 1.
Proof. intros Hx Hc. rewrite wrapU_small by (change (2 ^ 8) with 256; lia). lia. Qed.

Lemma enc_inv_byte1 m v : Open2N2_Proofs.enc_inv m -> 0 <= v < 256 -> v / 4 = m 1 / 4 -> Open2N2_Proofs.enc_inv (upd m 1 v).
Proof.
  intros (H0 & H1 & Hm & He) Hv Hq. unfold Open2N2_Proofs.enc_inv.
  rewrite upd_same, (upd_other m 1 v 0) by lia. rewrite Hq. repeat split; try lia; assumption.
Qed.
Lemma dec_byte1 m v : v / 4 = m 1 / 4 -> 0 <= v -> 0 <= m 1 ->
  Gen_Open2N2.pvGetMaxProbe (upd m 1 v) = Gen_Open2N2.pvGetMaxProbe m.
Proof.
  intros Hq Hv Hm. unfold Gen_Open2N2.pvGetMaxProbe. rewrite upd_same, (upd_other m 1 v 0) by lia.
  rewrite !Z.shiftr_div_pow2 by lia. change (2 ^ 2) with 4. rewrite Hq. reflexivity.
Qed.
Lemma cnt_byte1 m s h v : 0 <= v -> pvGetCount (upd m 1 v) s h = v mod 4.
Proof. intros Hv. unfold pvGetCount. rewrite upd_same. apply Open2N2_Proofs.land3. exact Hv. Qed.

Ltac split_upd := unfold upd; repeat match goal with |- context [Z.eqb ?a ?b] => destruct (Z.eqb_spec a b) end; cbv beta iota.

Theorem add_spec a b : good b -> 0 <= cnt b < mc ->
  good (addP a b) /\ dec (addP a b) = dec b /\ cnt (addP a b) = cnt b + 1.
Proof.
  intros Hg Hc. destruct a as [[[hc lbc] pr] ni]. pose proof Hg as ((H0 & H1 & Hm & He) & Hs).
  pose proof (cnt_val b Hg) as Hcv. unfold addP, AddCrt. fold (cnt b).
  replace (Z.ltb (cnt b) mc) with true by (symmetry; apply Z.ltb_lt; lia).
  destruct (byte_inc (ms b 1) H1 ltac:(lia)) as (Hw & Hq & Hr).
  pose proof (short_hash_range (wrapU 64 hc) (wrapU_range 64 hc ltac:(lia))) as Hsh.
  set (shv := pvCalcShortHash (wrapU 64 hc)) in *. clearbody shv.
  replace (wrapU 64 (wrapU 64 (mc - 1) - cnt b)) with (mc - 1 - cnt b)
    by (rewrite (wrapU_small 64 (mc - 1)) by lia; symmetry; apply wrapU_small; lia).
  unfold good, dec, cnt. cbn [ms sh hp]. rewrite Hw.
  split; [split; [apply enc_inv_byte1; [exact (proj1 Hg)|lia|exact Hq]|]|].
  - intros i Hi. unfold sh_inv, cnt in *. cbn [ms sh hp]. rewrite cnt_byte1 by lia. rewrite Hr, <- Hcv.
    specialize (Hs i Hi). split_upd; lia.
  - unfold cnt in *. split; [apply dec_byte1; [exact Hq|lia|lia]|]. rewrite cnt_byte1 by lia. lia.
Qed.

Theorem rem_spec a b b' : good b -> 0 < cnt b <= mc -> remP a b = Some b' ->
  good b' /\ dec b' = dec b /\ cnt b' = cnt b - 1.
Proof.
  intros Hg Hc Hr. destruct a as [[[idx x1] x2] x3]. pose proof Hg as ((H0 & H1 & Hm & He) & Hs).
  pose proof (cnt_val b Hg) as Hcv. unfold remP in Hr.
  destruct (Z.leb_spec 0 idx) as [Hi0|]; [|discriminate]. destruct (Z.ltb_spec idx mc) as [Hi3|]; [|discriminate].
  cbn [andb] in Hr. unfold Remove in Hr. fold (cnt b) in Hr.
  rewrite (wrapU_small 64 (mc - cnt b)) in Hr by lia.
  destruct (Z.geb_spec idx (mc - cnt b)) as [Hge|]; [|discriminate].
  destruct (byte_dec (ms b 1) H1 ltac:(lia)) as (Hw & Hq & Hrm). rewrite Hw in Hr.
  match type of Hr with Some ?t = _ => assert (Hb' : b' = t) by congruence end. clear Hr. subst b'.
  unfold good, dec, cnt. cbn [ms sh hp].
  split; [split; [apply enc_inv_byte1; [exact (proj1 Hg)|lia|exact Hq]|]|].
  - intros i Hi. unfold sh_inv, cnt in *. cbn [ms sh hp]. rewrite cnt_byte1 by lia. rewrite Hrm, <- Hcv.
    set (c := pvGetCount (ms b) (sh b) (hp b)) in *.
    pose proof (Hs i Hi) as Hsi. pose proof (Hs (mc - c) ltac:(lia)) as Hsl. pose proof (Hs idx ltac:(lia)) as Hsx.
    rewrite empty_sh_val. clearbody c. split_upd; subst; lia.
  - unfold cnt in *. split; [apply dec_byte1; [exact Hq|lia|lia]|]. rewrite cnt_byte1 by lia. lia.
Qed.

(* IsFull (what HashSet::pvAddNogrow tests) says exactly "count = maxCount" *)
Theorem full_iff b : good b -> 0 <= cnt b <= mc -> (full b = true <-> cnt b = mc).
Proof.
  intros (_ & Hs) Hc. unfold full, IsFull. rewrite empty_sh_val. specialize (Hs 0 ltac:(lia)).
  destruct (Z.ltb_spec (sh b 0) 128); split; intros; try discriminate; try reflexivity; lia.
Qed.

Lemma pow_le_63 n : 0 <= n <= 63 -> 2 ^ n <= 2 ^ 63.
Proof. intros. apply Z.pow_le_mono_r; lia. Qed.

Section Upd.
Variable n : Z. Hypothesis Hn : 0 <= n <= 63.
Lemma upd_all b p : good b -> 0 <= p < 2 ^ n ->
  good (updP b p) /\ p <= dec (updP b p) /\ dec b <= dec (updP b p) /\ cnt (updP b p) = cnt b.
Proof.
  intros (Hb & Hs) Hp. pose proof (pow_le_63 n Hn).
  destruct (Open2N2_Proofs.update_spec (ms b) p Hb ltac:(lia)) as (s' & Hr & Hi & Hge & Hmono & Hcnt).
  unfold updP. rewrite Hr. unfold good, dec, cnt, sh_inv. cbn [ms sh hp].
  assert (Hc' : pvGetCount s' (sh b) (hp b) = cnt b) by exact Hcnt.
  split; [split; [exact Hi|]|]. { intros i Hi'. unfold cnt. cbn [ms sh hp]. rewrite Hc'. apply Hs; exact Hi'. }
  split; [exact Hge|]. split; [exact Hmono|exact Hcnt].
Qed.
Lemma upd_good b p : good b -> 0 <= p < 2 ^ n -> good (updP b p).
Proof. intros Hb Hp. destruct (upd_all b p Hb Hp) as (H & _). exact H. Qed.
Lemma upd_covers b p : good b -> 0 <= p < 2 ^ n -> p <= dec (updP b p).
Proof. intros Hb Hp. destruct (upd_all b p Hb Hp) as (_ & H & _). exact H. Qed.
Lemma upd_keeps b p q : good b -> 0 <= p < 2 ^ n -> q < 2 ^ n -> q <= dec b -> q <= dec (updP b p).
Proof. intros Hb Hp _ Hq. destruct (upd_all b p Hb Hp) as (_ & _ & Hm & _). lia. Qed.
Lemma upd_cnt b p : good b -> 0 <= p < 2 ^ n -> cnt (updP b p) = cnt b.
Proof. intros Hb Hp. destruct (upd_all b p Hb Hp) as (_ & _ & _ & H). exact H. Qed.
End Upd.

(* the constructor / Clear (pvSetEmpty) produce the state all histories start from *)
Lemma setempty_good m s h : let '(m', s') := pvSetEmpty mc m s h in
  good {| ms := m'; sh := s'; hp := h |} /\ cnt {| ms := m'; sh := s'; hp := h |} = 0 /\ dec {| ms := m'; sh := s'; hp := h |} = 0.
Proof.
  unfold pvSetEmpty, good, cnt, dec, sh_inv, Open2N2_Proofs.enc_inv, pvGetCount, Gen_Open2N2.pvGetMaxProbe. cbn [ms sh hp].
  rewrite !upd_same. rewrite (upd_other _ 1 0 0) by lia. rewrite upd_same. rewrite empty_sh_val.
  split; [split; [cbn; repeat split; intros; lia|]|cbn; split; reflexivity].
  intros i Hi. destruct (Z.leb_spec 0 i); [|lia]. destruct (Z.ltb_spec i mc); [|lia]. cbn. lia.
Qed.
Lemma empty_good : good empty /\ cnt empty = 0 /\ dec empty = 0.
Proof. exact (setempty_good (fun _ => 0) (fun _ => 0) (fun _ => 0)). Qed.
Lemma clear_resets m s h : let '(m', s') := Clear mc m s h in
  good {| ms := m'; sh := s'; hp := h |} /\ cnt {| ms := m'; sh := s'; hp := h |} = 0 /\ dec {| ms := m'; sh := s'; hp := h |} = 0.
Proof. exact (setempty_good m s h). Qed.
End MC.
End O2.

(* ------------------------------------------------------------------ OpenN1<maxCount, reverse> / Open8 (= OpenN1<7, false>) *)
Module N1.
Import Gen_OpenN1_ops.
Section MC.
Variable rv : bool.          (* template parameter `reverse`: HashBucketOpenN1 defaults to true, BucketOpen8 uses false *)
Variable mc : Z.
Hypothesis Hmc : 1 <= mc <= 7.
Definition sp : Z := if rv then 0 else mc - 1.                 (* where the state byte lives *)
Definition pos (i : Z) : Z := if rv then mc - 1 - i else i.    (* where the short hash of item i lives *)
Definition good (d : Z -> Z) : Prop := OpenN1_Proofs.enc_inv mc d /\ 0 <= d sp < 248 + mc.
Definition cnt (d : Z -> Z) : Z := pvGetCount rv mc d.
Definition addP (a : Z * Z * Z * Z) (d : Z -> Z) : Z -> Z :=
  let '(hc, _, _, ni) := a in
  match AddCrt rv mc d (wrapU 64 hc) ni with Ok (_, d') => d' | _ => d end.        (* hashCode is a size_t *)
Definition remP (a : Z * Z * Z * Z) (d : Z -> Z) : option (Z -> Z) :=
  let '(idx, _, _, _) := a in
  match Remove rv mc d (wrapU 64 idx) with Ok (_, d') => Some d' | _ => None end.  (* index is a size_t *)

Lemma w64 x : 0 <= x < 2 ^ 32 -> wrapU 64 x = x.
Proof. intros. apply wrapU_small. change (2 ^ 64) with (2 ^ 32 * 2 ^ 32). change (2 ^ 32) with 4294967296 in *. lia. Qed.
Lemma sp_gen : (if rv then 0 else wrapU 64 (mc - 1)) = sp.
Proof. unfold sp. destruct rv; [reflexivity|]. apply w64. change (2 ^ 32) with 4294967296; lia. Qed.
Lemma pos_gen i : 0 <= i < mc -> (if rv then wrapU 64 (wrapU 64 (mc - 1) - i) else i) = pos i.
Proof.
  intros Hi. unfold pos. destruct rv; [|reflexivity].
  rewrite (w64 (mc - 1)) by (change (2 ^ 32) with 4294967296; lia). apply w64. change (2 ^ 32) with 4294967296; lia.
Qed.
Lemma sp_range : 0 <= sp < mc.
Proof. unfold sp. destruct rv; lia. Qed.
Lemma pos_range i : 0 <= i < mc -> 0 <= pos i < mc.
Proof. unfold pos. destruct rv; lia. Qed.
Lemma pos_sp i : 0 <= i < mc -> (pos i = sp <-> i = mc - 1).
Proof. unfold pos, sp. destruct rv; lia. Qed.

Lemma cnt_val d : good d -> cnt d = if Z.geb (d sp) 248 then d sp - 248 else mc.
Proof.
  intros (_ & H0). unfold cnt, pvGetCount, emptyShortHash. rewrite sp_gen.
  destruct (Z.geb_spec (d sp) 248); [apply w64; change (2 ^ 32) with 4294967296; lia|reflexivity].
Qed.
Lemma cnt_range d : good d -> 0 <= cnt d <= mc.
Proof. intros Hg. rewrite (cnt_val d Hg). destruct Hg as (_ & H0). destruct (Z.geb_spec (d sp) 248); lia. Qed.
Lemma cnt_of_state d v : d sp = v -> 0 <= v < 248 + mc -> cnt d = if Z.geb v 248 then v - 248 else mc.
Proof.
  intros Hv Hr. unfold cnt, pvGetCount, emptyShortHash. rewrite sp_gen, Hv.
  destruct (Z.geb_spec v 248); [apply w64; change (2 ^ 32) with 4294967296; lia|reflexivity].
Qed.

Lemma short_hash_range x : 0 <= x < 2 ^ 64 -> 0 <= ptCalcShortHash x < 248.
Proof.
  intros Hx. unfold ptCalcShortHash, emptyShortHash.
  replace (wrapU 64 (wrapU 64 (8 * 8) - 24)) with 40 by (vm_compute; reflexivity).
  rewrite !Z.shiftr_div_pow2 by lia.
  assert (Hq : 0 <= x / 2 ^ 40 < 2 ^ 24).
  { split; [apply Z.div_pos; lia|]. apply Z.div_lt_upper_bound; [lia|]. change (2 ^ 40 * 2 ^ 24) with (2 ^ 64). lia. }
  set (y := x / 2 ^ 40) in *. change (2 ^ 24) with 16777216 in Hq.
  rewrite (wrapU_small 32 y) by (change (2 ^ 32) with 4294967296; lia).
  rewrite (wrapU_small 32 (y * 248)) by (change (2 ^ 32) with 4294967296; lia).
  change (2 ^ 24) with 16777216.
  rewrite wrapU_small by (change (2 ^ 8) with 256; lia). lia.
Qed.

Lemma good_of d d' v : good d -> d' mc = d mc -> d' sp = v -> 0 <= v < 248 + mc -> good d'.
Proof. intros (He & _) Hm Hs Hv. split; [unfold OpenN1_Proofs.enc_inv in *; rewrite Hm; exact He|rewrite Hs; exact Hv]. Qed.
Lemma bound_of d d' L : d' mc = d mc -> Gen_OpenN1.GetMaxProbe mc d' L = Gen_OpenN1.GetMaxProbe mc d L.
Proof. intros Hm. unfold Gen_OpenN1.GetMaxProbe. rewrite Hm. reflexivity. Qed.

Theorem add_spec a d : good d -> 0 <= cnt d < mc ->
  good (addP a d) /\ (forall L, Gen_OpenN1.GetMaxProbe mc (addP a d) L = Gen_OpenN1.GetMaxProbe mc d L) /\
  cnt (addP a d) = cnt d + 1.
Proof.
  intros Hg Hc. destruct a as [[[hc x1] x2] ni]. pose proof Hg as (He & H0).
  pose proof (cnt_val d Hg) as Hcv. pose proof sp_range as Hsp. pose proof (pos_range (cnt d) Hc) as Hpr.
  pose proof (pos_sp (cnt d) Hc) as Hps.
  unfold addP, AddCrt. fold (cnt d).
  replace (Z.ltb (cnt d) mc) with true by (symmetry; apply Z.ltb_lt; lia).
  pose proof (short_hash_range (wrapU 64 hc) (wrapU_range 64 hc ltac:(lia))) as Hsh.
  set (shv := ptCalcShortHash (wrapU 64 hc)) in *.
  cbv beta iota zeta delta [emptyShortHash]. rewrite !sp_gen. rewrite (pos_gen (cnt d)) by lia.
  destruct (Z.geb_spec (d sp) 248) as [Hge|Hlt]; [|lia].
  rewrite (w64 (cnt d + 1)) by (change (2 ^ 32) with 4294967296; lia).
  set (d1 := upd d (pos (cnt d)) shv).
  destruct (Z.ltb_spec (cnt d + 1) mc) as [Hnf|Hf].
  - assert (Hd10 : d1 sp = d sp) by (unfold d1; apply upd_other; lia).
    rewrite Hd10. rewrite (wrapU_small 8 (d sp + 1)) by (change (2 ^ 8) with 256; lia).
    set (d2 := upd d1 sp (d sp + 1)).
    assert (Hmcv : d2 mc = d mc) by (unfold d2, d1; rewrite !upd_other by lia; reflexivity).
    assert (H20 : d2 sp = d sp + 1) by (unfold d2; apply upd_same).
    split; [exact (good_of d d2 _ Hg Hmcv H20 ltac:(lia))|]. split; [intros L; exact (bound_of d d2 L Hmcv)|].
    rewrite (cnt_of_state d2 _ H20) by lia. destruct (Z.geb_spec (d sp + 1) 248); lia.
  - assert (Hmcv : d1 mc = d mc) by (unfold d1; rewrite upd_other by lia; reflexivity).
    assert (H10 : d1 sp = shv) by (unfold d1; replace (pos (cnt d)) with sp by lia; apply upd_same).
    split; [exact (good_of d d1 _ Hg Hmcv H10 ltac:(lia))|]. split; [intros L; exact (bound_of d d1 L Hmcv)|].
    rewrite (cnt_of_state d1 _ H10) by lia. destruct (Z.geb_spec shv 248); lia.
Qed.

Theorem rem_spec a d d' : good d -> 0 < cnt d <= mc -> remP a d = Some d' ->
  good d' /\ (forall L, Gen_OpenN1.GetMaxProbe mc d' L = Gen_OpenN1.GetMaxProbe mc d L) /\ cnt d' = cnt d - 1.
Proof.
  intros Hg Hc Hr. destruct a as [[[idx0 x1] x2] x3]. pose proof Hg as (He & H0).
  pose proof (cnt_val d Hg) as Hcv. pose proof sp_range as Hsp.
  unfold remP, Remove in Hr. fold (cnt d) in Hr.
  pose proof (wrapU_range 64 idx0 ltac:(lia)) as Hidx. set (idx := wrapU 64 idx0) in *.
  destruct (Z.ltb_spec idx (cnt d)) as [Hlt|]; [|discriminate].
  pose proof (pos_range idx ltac:(lia)) as Hpi. pose proof (pos_range (cnt d - 1) ltac:(lia)) as Hpl.
  pose proof (pos_sp idx ltac:(lia)) as Hsi. pose proof (pos_sp (cnt d - 1) ltac:(lia)) as Hsl.
  cbv beta iota zeta delta [emptyShortHash] in Hr. rewrite !sp_gen in Hr.
  rewrite (w64 (cnt d - 1)) in Hr by (change (2 ^ 32) with 4294967296; lia).
  rewrite (pos_gen idx) in Hr by lia. rewrite !(pos_gen (cnt d - 1)) in Hr by lia.
  set (d1 := upd d (pos idx) (d (pos (cnt d - 1)))) in Hr.
  set (d2 := upd d1 (pos (cnt d - 1)) 248) in Hr.
  assert (H2mc : d2 mc = d mc) by (unfold d2, d1; rewrite !upd_other by lia; reflexivity).
  destruct (Z.ltb_spec (cnt d) mc) as [Hnf|Hf].
  - assert (H20 : d2 sp = d sp) by (unfold d2, d1; rewrite !upd_other by lia; reflexivity).
    rewrite H20 in Hr. destruct (Z.geb_spec (d sp) 248) as [Hge|Hl]; [|lia].
    rewrite (wrapU_small 8 (d sp - 1)) in Hr by (change (2 ^ 8) with 256; lia).
    assert (Hd' : d' = upd d2 sp (d sp - 1)) by congruence. clear Hr. subst d'.
    assert (Hmcv : upd d2 sp (d sp - 1) mc = d mc) by (rewrite upd_other by lia; exact H2mc).
    assert (Hs : upd d2 sp (d sp - 1) sp = d sp - 1) by apply upd_same.
    split; [exact (good_of d _ _ Hg Hmcv Hs ltac:(lia))|]. split; [intros L; exact (bound_of d _ L Hmcv)|].
    rewrite (cnt_of_state _ _ Hs) by lia. destruct (Z.geb_spec (d sp - 1) 248); lia.
  - assert (Hcm : cnt d = mc) by lia.
    rewrite (wrapU_small 8 mc) in Hr by (change (2 ^ 8) with 256; lia).
    rewrite (wrapU_small 8 (248 + mc - 1)) in Hr by (change (2 ^ 8) with 256; lia).
    assert (Hd' : d' = upd d2 sp (248 + mc - 1)) by congruence. clear Hr. subst d'.
    assert (Hmcv : upd d2 sp (248 + mc - 1) mc = d mc) by (rewrite upd_other by lia; exact H2mc).
    assert (Hs : upd d2 sp (248 + mc - 1) sp = 248 + mc - 1) by apply upd_same.
    split; [exact (good_of d _ _ Hg Hmcv Hs ltac:(lia))|]. split; [intros L; exact (bound_of d _ L Hmcv)|].
    rewrite (cnt_of_state _ _ Hs) by lia. destruct (Z.geb_spec (248 + mc - 1) 248); lia.
Qed.

(* IsFull (what HashSet::pvAddNogrow tests) says exactly "count = maxCount" *)
Theorem full_iff d : good d -> (IsFull rv mc d = true <-> cnt d = mc).
Proof.
  intros Hg. rewrite (cnt_val d Hg). destruct Hg as (_ & H0). unfold IsFull, emptyShortHash. rewrite sp_gen.
  destruct (Z.ltb_spec (d sp) 248); destruct (Z.geb_spec (d sp) 248); split; intros; try discriminate; try reflexivity; lia.
Qed.

(* pvSetEmpty / Clear / the constructor: every short hash empty (count 0), bound 0 *)
Lemma empty_good d : good (pvSetEmpty mc d) /\ cnt (pvSetEmpty mc d) = 0 /\
  (forall L, 0 <= L -> Gen_OpenN1.GetMaxProbe mc (pvSetEmpty mc d) L = 0).
Proof.
  pose proof sp_range as Hsp. unfold pvSetEmpty, emptyShortHash. cbv zeta.
  set (f := fun j_ => if andb (Z.leb 0 j_) (Z.ltb j_ mc) then 248 else d j_).
  assert (Hf0 : upd f mc 0 sp = 248).
  { rewrite upd_other by lia. unfold f. destruct (Z.leb_spec 0 sp); [|lia]. destruct (Z.ltb_spec sp mc); [reflexivity|lia]. }
  assert (Hfm : upd f mc 0 mc = 0) by apply upd_same.
  split; [|split].
  - split; [unfold OpenN1_Proofs.enc_inv; rewrite Hfm; lia|rewrite Hf0; lia].
  - rewrite (cnt_of_state _ _ Hf0) by lia. reflexivity.
  - intros L HL. unfold Gen_OpenN1.GetMaxProbe. rewrite Hfm. vm_compute. reflexivity.
Qed.
End MC.
End N1.
