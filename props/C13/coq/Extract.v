(* Extraction of the GENERATED definitions (translator validation for C13). ExtrOcamlBasic only. *)
From Coq Require Import ZArith List Extraction ExtrOcamlBasic.
From MomoCommon Require Import GenPrelude.
From C13 Require Gen_Open2N2 Gen_OpenN1 Gen_Open8 Gen_BucketBase Gen_Open2N2_ops Gen_OpenN1_ops Gen_HSAdd ProbeSeq OpenTable BucketOps HSAddRefine HSFindRefine Gen_HSFindIn OpenInstances.
Separate Extraction
  Gen_Open2N2.pvGetMaxProbe Gen_Open2N2.UpdateMaxProbe Gen_Open2N2.pvGetCount Gen_Open2N2.GetNextBucketIndex
  Gen_OpenN1.GetMaxProbe Gen_OpenN1.UpdateMaxProbe Gen_OpenN1.pvGetCount
  Gen_Open8.GetNextBucketIndex ProbeSeq.probe_index Gen_BucketBase.GetStartBucketIndex
  Gen_Open2N2_ops.AddCrt Gen_Open2N2_ops.Remove Gen_Open2N2_ops.Clear Gen_Open2N2_ops.UpdateMaxProbe Gen_Open2N2_ops.pvGetCount
  Gen_Open2N2_ops.pvGetMaxProbe Gen_Open2N2_ops.pvSetEmpty
  Gen_OpenN1_ops.AddCrt Gen_OpenN1_ops.Remove Gen_OpenN1_ops.Clear Gen_OpenN1_ops.pvGetCount Gen_OpenN1_ops.pvSetEmpty
  OpenTable.add OpenTable.remove OpenTable.find OpenTable.bk OpenTable.bd
  BucketOps.O2.empty BucketOps.O2.cnt BucketOps.O2.dec BucketOps.O2.remP BucketOps.N1.cnt BucketOps.N1.remP
  OpenInstances.o2_add OpenInstances.o2_find OpenInstances.o2_empty OpenInstances.n1_add OpenInstances.n1_find OpenInstances.n1_empty
  OpenInstances.n1_dec OpenInstances.updN OpenInstances.o2_gen_add OpenInstances.n1_gen_add OpenInstances.o2_gen_find OpenInstances.n1_gen_find.
