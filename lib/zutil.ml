(* I/O conversion between decimal strings and the extracted Coq integers (BinNums.z / positive / N / nat).
   zarith is used ONLY here, for parsing and printing; all model arithmetic is the extracted Coq code. *)
open BinNums
let rec pos_of_zarith (n : Z.t) : positive =
  if Z.equal n Z.one then Coq_xH else
  let h = pos_of_zarith (Z.shift_right n 1) in
  if Z.testbit n 0 then Coq_xI h else Coq_xO h
let z_of_zarith (n : Z.t) : coq_Z =
  if Z.sign n = 0 then Z0 else if Z.sign n > 0 then Zpos (pos_of_zarith n) else Zneg (pos_of_zarith (Z.neg n))
let rec zarith_of_pos = function
  | Coq_xH -> Z.one
  | Coq_xO p -> Z.shift_left (zarith_of_pos p) 1
  | Coq_xI p -> Z.succ (Z.shift_left (zarith_of_pos p) 1)
let zarith_of_z = function Z0 -> Z.zero | Zpos p -> zarith_of_pos p | Zneg p -> Z.neg (zarith_of_pos p)
let z_of_string s = z_of_zarith (Z.of_string s)
let string_of_z z = Z.to_string (zarith_of_z z)
let z_of_int i = z_of_zarith (Z.of_int i)
let int_of_z z = Z.to_int (zarith_of_z z)
let rec nat_of_int n = if n <= 0 then Datatypes.O else Datatypes.S (nat_of_int (n - 1))
let rec int_of_nat = function Datatypes.O -> 0 | Datatypes.S n -> 1 + int_of_nat n
let words line = Stdlib.List.filter (fun s -> s <> "") (String.split_on_char ' ' (String.trim line))
let iter_lines f =
  try while true do f (input_line stdin) done with End_of_file -> ()
