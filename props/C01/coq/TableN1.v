(* C01 -- table-level refinement for the OpenN1 / Open8 bucket kinds: one generation as an ARRAY OF BYTE BUCKETS.
   The generation is `bt : bucket index -> mData[0..maxCount]` (the real bytes: short hashes in Bounds order, state byte,
   max-probe byte); the loops of HashSet::pvFind / pvAddNogrow and the per-bucket Remove are run ON THE REGENERATED LEAVES
     Gen_OpenN1_ops.IsFull / WasFull / AddCrt / Remove, Gen_OpenN1.GetMaxProbe / UpdateMaxProbe, ptCalcShortHash
   (the in-bucket search is BucketFind.find_sh over the byte slots; the item arrays are read for key comparison only where
   a byte matched), and are proved to do, step for step, what the hand model's tfind / tadd / tremove (HashModel.v,
   instantiated as in HashInst.step_cfg) do on list buckets, under the representation relation `trep`.  `trep` holds for
   an empty generation and is preserved by every insertion and removal, so it holds along every history of one generation. *)
From Coq Require Import ZArith List Lia Bool.
From MomoCommon Require Import GenPrelude.
From C01 Require Import HashModel ListAux HashInst BucketFind OpenN1Ops Glue.
From C01 Require Gen_OpenN1_ops Gen_OpenN1 OpenN1_Proofs.
Import ListNotations.
Local Open Scope Z_scope.

Arguments items {B}. Arguments wasFull {B}. Arguments bound {B}. Arguments tlog {B}. Arguments tbs {B}.

Section TableN1.
  Variable h : Z -> Z.
  Hypothesis Hh : forall k, 0 <= h k < 2 ^ 64.
  Variable maxCount : Z.
  Variable reverse : bool.
  Hypothesis Hmc : 1 <= maxCount <= 7.
  Variable wfThr : Z.
  Variable start : Z -> Z -> Z.
  Variable next : Z -> Z -> Z -> Z.
  Variable maxLog : Z.
  Hypothesis maxLog_le : maxLog <= 63.
  Hypothesis start_range : forall hc log, 0 <= log <= maxLog -> 0 <= start hc (2 ^ log) < 2 ^ log.
  Hypothesis next_range : forall i log p, 0 <= log <= maxLog -> 0 <= i < 2 ^ log -> 0 <= next i (2 ^ log) p < 2 ^ log.

  Definition kind : Z := maxCount + 2.                   (* HashInst's bound-encoder selector for OpenN1<maxCount> *)
  Notation tfindH := (tfind BS bs0 (decode_fn kind) h true start next).
  Notation taddH := (tadd BS bs0 (upd_fn kind) h maxCount false true wfThr start next).
  Notation tremoveH := (tremove BS bs0 true).
  Notation getbH := (getb BS bs0 true).
  Notation addloopH := (add_loop BS bs0 maxCount false true next).
  Notation probeloopH := (probe_loop BS bs0 true next).
  Notation IsFullG := (Gen_OpenN1_ops.IsFull reverse maxCount).
  Notation WasFullG := (Gen_OpenN1_ops.WasFull).
  Notation AddCrtG := (Gen_OpenN1_ops.AddCrt reverse maxCount).
  Notation RemoveG := (Gen_OpenN1_ops.Remove reverse maxCount).
  Notation GetMaxProbeG := (Gen_OpenN1.GetMaxProbe maxCount).
  Notation UpdateMaxProbeG := (Gen_OpenN1.UpdateMaxProbe maxCount).
  Notation shG := Gen_OpenN1_ops.ptCalcShortHash.

  Definition bytes : Type := Z -> Z -> Z.               (* bucket index -> byte index -> byte *)
  Definition setd (bt : bytes) (i : Z) (d : Z -> Z) : bytes := fun j => if j =? i then d else bt j.

  (* ---- the loops of HashSet.h on the byte buckets ---- *)
  (* Bucket::Find: short-hash filter over the byte slots (Bounds order); None = a read beyond the stored items *)
  Definition gbfind (t : table BS) (bt : bytes) (idx k : Z) : option (option (nat * Z)) :=
    find_sh (slots_of maxCount reverse (bt idx)) (items (getbH t idx)) (shG (h k)) k 0.

  (* pvFind: for (probe = 1; bucket->WasFull() && probe <= maxProbe; ++probe) *)
  Fixpoint gprobe_loop (n : nat) (t : table BS) (bt : bytes) (k probe idx : Z) : option (option (Z * nat * Z)) :=
    match n with
    | O => Some None
    | S n' =>
      if WasFullG (bt idx) then
        let idx' := next idx (2 ^ tlog t) probe in
        match gbfind t bt idx' k with
        | None => None
        | Some (Some (pos, v)) => Some (Some (idx', pos, v))
        | Some None => gprobe_loop n' t bt k (probe + 1) idx'
        end
      else Some None
    end.

  Definition gtfind (t : table BS) (bt : bytes) (k : Z) : option (option (Z * nat * Z)) :=
    let i0 := start (h k) (2 ^ tlog t) in
    match gbfind t bt i0 k with
    | None => None
    | Some (Some (pos, v)) => Some (Some (i0, pos, v))
    | Some None => gprobe_loop (Z.to_nat (GetMaxProbeG (bt i0) (tlog t))) t bt k 1 i0
    end.

  (* pvAddNogrow: while (bucket->IsFull()) { ++probe; if (probe >= bucketCount) throw; bucketIndex = GetNextBucketIndex } *)
  Fixpoint gadd_loop (n : nat) (log : Z) (bt : bytes) (probe idx : Z) : option (Z * Z) :=
    if IsFullG (bt idx) then
      match n with
      | O => None
      | S n' => gadd_loop n' log bt (probe + 1) (next idx (2 ^ log) (probe + 1))
      end
    else Some (idx, probe).

  (* ... then bucket->AddCrt(...) on the bucket found and UpdateMaxProbe(probe) on the start bucket: bytes only *)
  Definition gtadd (log : Z) (bt : bytes) (hc : Z) : outcome (option (Z * bytes)) :=
    let i0 := start hc (2 ^ log) in
    match gadd_loop (Z.to_nat (2 ^ log - 1)) log bt 0 i0 with
    | None => Ok None                                   (* "Hash table is full" *)
    | Some (idx, probe) =>
      match AddCrtG (bt idx) hc 0 with
      | Ok (_, d1) =>
        let bt1 := setd bt idx d1 in
        match UpdateMaxProbeG (bt1 i0) probe with
        | Ok (_, d2) => Ok (Some (idx, setd bt1 i0 d2))
        | Stuck => Stuck | Fuel => Fuel | Exn => Exn
        end
      | Stuck => Stuck | Fuel => Fuel | Exn => Exn
      end
    end.

  Definition gtremove (bt : bytes) (idx : Z) (pos : nat) : outcome bytes :=
    match RemoveG (bt idx) (Z.of_nat pos) with
    | Ok (_, d') => Ok (setd bt idx d')
    | Stuck => Stuck | Fuel => Fuel | Exn => Exn
    end.

  (* ---- representation ---- *)
  Definition brep (b : bucket BS) (d : Z -> Z) : Prop :=
    repr maxCount reverse d (map (tagN1 h) (items b)) /\ wasFull b = true /\ d maxCount = bound b maxCount /\ 0 <= d maxCount < 256.
  Definition trep (t : table BS) (bt : bytes) : Prop :=
    0 <= tlog t <= maxLog /\ length (tbs t) = Z.to_nat (2 ^ tlog t) /\ forall i, 0 <= i < 2 ^ tlog t -> brep (getbH t i) (bt i).

  Lemma kind_ge : (kind =? 0) = false /\ (kind =? 1) = false /\ (kind =? 2) = false /\ (kind <=? 1) = false /\ kind - 2 = maxCount.
  Proof.
    unfold kind. split; [apply Z.eqb_neq; lia|]. split; [apply Z.eqb_neq; lia|]. split; [apply Z.eqb_neq; lia|]. split; [apply Z.leb_gt; lia|lia].
  Qed.

  Lemma decode_kind log b : decode_fn kind log b = GetMaxProbeG b log.
  Proof. destruct kind_ge as [A [B' [C [D E]]]]. unfold decode_fn. rewrite A, B', C, E. reflexivity. Qed.

  Lemma getmax_byte d e log : d maxCount = e maxCount -> GetMaxProbeG d log = GetMaxProbeG e log.
  Proof. intros H. unfold Gen_OpenN1.GetMaxProbe. rewrite H. reflexivity. Qed.

  Lemma upd_byte d e p d' e' : d maxCount = e maxCount -> UpdateMaxProbeG d p = Ok (tt, d') -> UpdateMaxProbeG e p = Ok (tt, e') ->
    d' maxCount = e' maxCount.
  Proof.
    intros H. unfold Gen_OpenN1.UpdateMaxProbe, Gen_OpenN1.pvUpdateMaxProbe. rewrite H.
    destruct (p =? 0); [intros A C; inversion A; inversion C; subst; auto|].
    destruct (_ || _); [intros A C; inversion A; inversion C; subst; auto|]. cbv zeta.
    destruct (Gen_OpenN1.pvUpdateMaxProbe_loop0 _ _ _) as [[m0 m1]| | |]; try discriminate.
    intros A C. inversion A; inversion C; subst. rewrite !upd_same. reflexivity.
  Qed.

  Lemma two_pos log : 0 <= log -> 0 < 2 ^ log. Proof. intros. apply Z.pow_pos_nonneg; lia. Qed.

  (* ---- find ---- *)
  Lemma gbfind_ok t bt idx k : trep t bt -> 0 <= idx < 2 ^ tlog t -> gbfind t bt idx k = Some (bfind k (items (getbH t idx)) 0).
  Proof. intros [_ [_ R]] Hi. destruct (R idx Hi) as [Rr _]. unfold gbfind. apply (n1_find_glue BS h maxCount reverse Hmc Hh); auto. Qed.

  Lemma gprobe_ok t bt k : trep t bt -> forall n probe idx, 0 <= idx < 2 ^ tlog t ->
    gprobe_loop n t bt k probe idx = Some (probeloopH n t k probe idx (getbH t idx)).
  Proof.
    intros T. induction n; intros probe idx Hi; simpl; auto.
    destruct T as [Hl [Hlen R]]. destruct (R idx Hi) as [_ [Wf _]]. rewrite Wf. unfold Gen_OpenN1_ops.WasFull.
    unfold bcount. set (idx' := next idx (2 ^ tlog t) probe).
    assert (Hi' : 0 <= idx' < 2 ^ tlog t) by (apply next_range; auto).
    rewrite (gbfind_ok t bt idx' k (conj Hl (conj Hlen R)) Hi').
    destruct (bfind k (items (getbH t idx')) 0) as [[pos v]|]; auto.
  Qed.

  Theorem gtfind_refines t bt k : trep t bt -> gtfind t bt k = Some (tfindH t k).
  Proof.
    intros T. unfold gtfind, tfind, bcount. destruct T as [Hl [Hlen R]].
    set (i0 := start (h k) (2 ^ tlog t)). assert (Hi : 0 <= i0 < 2 ^ tlog t) by (apply start_range; auto).
    rewrite (gbfind_ok t bt i0 k (conj Hl (conj Hlen R)) Hi).
    destruct (bfind k (items (getbH t i0)) 0) as [[pos v]|]; auto.
    rewrite decode_kind. destruct (R i0 Hi) as [_ [_ [Hb _]]]. rewrite (getmax_byte _ _ (tlog t) Hb).
    apply gprobe_ok; auto. exact (conj Hl (conj Hlen R)).
  Qed.

  (* ---- add ---- *)
  Lemma gadd_loop_ok t bt : trep t bt -> forall n probe idx, 0 <= idx < 2 ^ tlog t ->
    gadd_loop n (tlog t) bt probe idx = addloopH n t probe idx /\
    (forall idx' probe', addloopH n t probe idx = Some (idx', probe') ->
       0 <= idx' < 2 ^ tlog t /\ probe <= probe' <= probe + Z.of_nat n /\ isFull BS maxCount false (getbH t idx') = false).
  Proof.
    intros T. destruct T as [Hl [Hlen R]]. induction n; intros probe idx Hi.
    - cbn [gadd_loop add_loop]. destruct (R idx Hi) as [Rr _]. rewrite (n1_isfull_glue BS h maxCount reverse Hmc (getbH t idx) (bt idx) Rr).
      destruct (isFull BS maxCount false (getbH t idx)) eqn:E; (split; [reflexivity|]); intros idx' probe' H; [discriminate|].
      inversion H; subst. split; auto. split; [lia|auto].
    - cbn [gadd_loop add_loop]. destruct (R idx Hi) as [Rr _]. rewrite (n1_isfull_glue BS h maxCount reverse Hmc (getbH t idx) (bt idx) Rr).
      destruct (isFull BS maxCount false (getbH t idx)) eqn:E.
      + unfold bcount. assert (Hi' : 0 <= next idx (2 ^ tlog t) (probe + 1) < 2 ^ tlog t) by (apply next_range; auto).
        destruct (IHn (probe + 1) _ Hi') as [A C]. split; auto. intros idx' probe' H. destruct (C idx' probe' H) as [C1 [C2 C3]].
        split; auto. split; [lia|auto].
      + split; auto. intros idx' probe' H. inversion H; subst. split; auto. split; [lia|auto].
  Qed.

  Lemma getb_setb_same' (t : table BS) i b : 0 <= i -> (Z.to_nat i < length (tbs t))%nat -> getbH (setb BS t i b) i = b.
  Proof. intros. unfold getb, setb; simpl. apply nth_upd_nth_same; auto. Qed.
  Lemma getb_setb_other' (t : table BS) i j b : 0 <= i -> 0 <= j -> i <> j -> getbH (setb BS t i b) j = getbH t j.
  Proof. intros. unfold getb, setb; simpl. apply nth_upd_nth_other. lia. Qed.

  Lemma trep_setb t bt i b d : trep t bt -> 0 <= i < 2 ^ tlog t -> brep b d -> trep (setb BS t i b) (setd bt i d).
  Proof.
    intros [Hl [Hlen R]] Hi Hb. unfold trep. cbn [setb tlog tbs]. rewrite upd_nth_length. split; auto. split; auto.
    intros j Hj. unfold setd. destruct (Z.eqb_spec j i) as [->|Hne].
    - rewrite getb_setb_same'; auto; lia.
    - rewrite getb_setb_other'; auto; lia.
  Qed.

  Theorem gtadd_refines t bt kv : trep t bt ->
    match taddH t kv with
    | None => gtadd (tlog t) bt (h (fst kv)) = Ok None
    | Some t' => exists idx bt', gtadd (tlog t) bt (h (fst kv)) = Ok (Some (idx, bt')) /\ trep t' bt' /\
                   In kv (items (getbH t' idx)) /\ 0 <= idx < 2 ^ tlog t
    end.
  Proof.
    intros T. pose proof T as [Hl [Hlen R]]. unfold tadd, gtadd, bcount.
    set (i0 := start (h (fst kv)) (2 ^ tlog t)). assert (Hi0 : 0 <= i0 < 2 ^ tlog t) by (apply start_range; auto).
    destruct (gadd_loop_ok t bt T (Z.to_nat (2 ^ tlog t - 1)) 0 i0 Hi0) as [E Hr]. rewrite E.
    destruct (addloopH (Z.to_nat (2 ^ tlog t - 1)) t 0 i0) as [[idx probe]|]; auto.
    destruct (Hr idx probe eq_refl) as [Hidx [Hp Hnf]].
    pose proof (two_pos (tlog t) ltac:(lia)) as P2.
    assert (Hprobe : 0 <= probe < 2 ^ tlog t) by lia.
    destruct (R idx Hidx) as [Rr [Wf [Hbd Henc]]].
    unfold isFull, blen in Hnf. apply Z.leb_gt in Hnf.
    destruct (n1_addcrt maxCount reverse Hmc (bt idx) _ (h (fst kv)) 0 Rr ltac:(rewrite map_length; exact Hnf) (Hh (fst kv))) as [d1 [Ea [R1 F1]]].
    rewrite Ea.
    set (b1 := mkB BS (items (getbH t idx) ++ [kv]) (wasFull (getbH t idx) || (wfThr <=? Z.of_nat (length (items (getbH t idx) ++ [kv])))) (bound (getbH t idx))).
    assert (B1 : brep b1 d1).
    { unfold brep, b1. cbn [items wasFull bound]. rewrite map_app. split; [exact R1|]. rewrite Wf. split; auto. rewrite F1. split; auto. }
    pose proof (trep_setb t bt idx b1 d1 T Hidx B1) as T1.
    set (t1 := setb BS t idx b1) in *. set (bt1 := setd bt idx d1) in *.
    destruct T1 as [Hl1 [Hlen1 R1']]. change (tlog t1) with (tlog t) in *.
    destruct (R1' i0 Hi0) as [Rh [Wfh [Hbh Hench]]].
    destruct (OpenN1_Proofs.update_spec maxCount (bt1 i0) probe (tlog t) Hench ltac:(lia) Hprobe) as [d2 [Eu [Henc2 [_ [_ Fr]]]]].
    rewrite Eu.
    assert (Hencb : OpenN1_Proofs.enc_inv maxCount (bound (getbH t1 i0))) by (unfold OpenN1_Proofs.enc_inv; rewrite <- Hbh; exact Hench).
    destruct (OpenN1_Proofs.update_spec maxCount (bound (getbH t1 i0)) probe (tlog t) Hencb ltac:(lia) Hprobe) as [e2 [Eb [_ [_ [_ Frb]]]]].
    exists idx. eexists. split; [reflexivity|].
    assert (B2 : brep (mkB BS (items (getbH t1 i0)) (wasFull (getbH t1 i0)) (upd_fn kind (bound (getbH t1 i0)) probe)) d2).
    { unfold brep. cbn [items wasFull bound]. split; [|split; [exact Wfh|]].
      - apply (n1_bound_frame maxCount reverse Hmc (bt1 i0)); auto.
      - destruct kind_ge as [_ [_ [C [D E']]]]. unfold upd_fn. rewrite D, C, E', Eb.
        split; [apply (upd_byte (bt1 i0) (bound (getbH t1 i0)) probe); auto|exact Henc2]. }
    split.
    - apply (trep_setb t1 bt1 i0 _ d2); auto. exact (conj Hl1 (conj Hlen1 R1')).
    - split; auto.
      assert (Hg1 : getbH t1 idx = b1) by (apply getb_setb_same'; [lia|rewrite Hlen; lia]).
      destruct (Z.eq_dec i0 idx) as [->|Hne].
      + rewrite getb_setb_same'; [|lia|unfold t1; cbn [setb tbs]; rewrite upd_nth_length, Hlen; lia].
        cbn [items]. rewrite Hg1. unfold b1. cbn [items]. apply in_or_app. right. left. reflexivity.
      + rewrite getb_setb_other'; try lia. rewrite Hg1. unfold b1. cbn [items]. apply in_or_app. right. left. reflexivity.
  Qed.

  (* ---- remove ---- *)
  Theorem gtremove_refines t bt idx pos : trep t bt -> 0 <= idx < 2 ^ tlog t -> (pos < length (items (getbH t idx)))%nat ->
    exists bt', gtremove bt idx pos = Ok bt' /\ trep (tremoveH t idx pos) bt'.
  Proof.
    intros T Hi Hp. pose proof T as [Hl [Hlen R]]. destruct (R idx Hi) as [Rr [Wf [Hbd Henc]]].
    destruct (n1_remove maxCount reverse Hmc (bt idx) _ (Z.of_nat pos) Rr ltac:(rewrite map_length; lia)) as [d' [E [R' F']]].
    unfold gtremove. rewrite E. eexists. split; [reflexivity|]. unfold tremove. apply trep_setb; auto.
    unfold brep. cbn [items wasFull bound]. rewrite Nat2Z.id in R'. rewrite <- gbremove_item, gbremove_map. split; auto. split; auto. rewrite F'. split; auto.
  Qed.

  (* ---- the relation is not vacuous: an empty generation (every bucket Clear()ed) represents newTable ---- *)
  Theorem trep_new log d0 : 0 <= log <= maxLog -> trep (newTable BS bs0 true log) (fun _ => Gen_OpenN1_ops.pvSetEmpty maxCount d0).
  Proof.
    intros Hl. unfold trep, newTable. cbn [tlog tbs]. rewrite repeat_length. split; auto. split; auto.
    intros i Hi. unfold getb. cbn [tbs].
    assert (E : nth (Z.to_nat i) (repeat (emptyB BS bs0 true) (Z.to_nat (2 ^ log))) (emptyB BS bs0 true) = emptyB BS bs0 true).
    { destruct (nth_in_or_default (Z.to_nat i) (repeat (emptyB BS bs0 true) (Z.to_nat (2 ^ log))) (emptyB BS bs0 true)) as [H|H]; auto.
      apply repeat_spec in H. auto. }
    rewrite E. unfold brep, emptyB. cbn [items wasFull bound]. destruct (n1_clear maxCount reverse Hmc d0) as [A C].
    split; [exact A|]. split; auto. rewrite C. unfold bs0. split; [reflexivity|lia].
  Qed.

  (* ---- every history of one generation: the byte generation driven by the generated AddCrt / Remove / UpdateMaxProbe and the probe
     loops above stays in step with the hand model's list generation, so every later search gives the hand model's answer ---- *)
  Inductive gop : Type := GAdd (kv : item) | GRem (idx : Z) (pos : nat).

  Definition hstep (t : table BS) (o : gop) : option (table BS) :=
    match o with
    | GAdd kv => taddH t kv
    | GRem idx pos => if (0 <=? idx) && (idx <? 2 ^ tlog t) && (pos <? length (items (getbH t idx)))%nat then Some (tremoveH t idx pos) else None
    end.
  Fixpoint hrun (t : table BS) (os : list gop) : option (table BS) :=
    match os with [] => Some t | o :: r => match hstep t o with Some t' => hrun t' r | None => None end end.

  Definition bstep (log : Z) (bt : bytes) (o : gop) : outcome (option bytes) :=
    match o with
    | GAdd kv => match gtadd log bt (h (fst kv)) with Ok (Some (_, bt')) => Ok (Some bt') | Ok None => Ok None
                 | Stuck => Stuck | Fuel => Fuel | Exn => Exn end
    | GRem idx pos => match gtremove bt idx pos with Ok bt' => Ok (Some bt') | Stuck => Stuck | Fuel => Fuel | Exn => Exn end
    end.
  Fixpoint brun (log : Z) (bt : bytes) (os : list gop) : outcome (option bytes) :=
    match os with [] => Ok (Some bt) | o :: r => match bstep log bt o with Ok (Some bt') => brun log bt' r | x => x end end.

  Lemma trep_log_add t bt kv t' : trep t bt -> taddH t kv = Some t' -> tlog t' = tlog t.
  Proof.
    intros _. unfold tadd. destruct (add_loop _ _ _ _ _ _ _ _ _ _) as [[idx probe]|]; [|discriminate]. intros H. inversion H. reflexivity.
  Qed.

  Lemma brun_refines : forall os t bt t', trep t bt -> hrun t os = Some t' ->
    exists bt', brun (tlog t) bt os = Ok (Some bt') /\ trep t' bt'.
  Proof.
    induction os as [|o r IH]; intros t bt t' T H; simpl in *.
    - inversion H; subst. exists bt. split; auto.
    - destruct (hstep t o) as [t1|] eqn:E; [|discriminate]. destruct o as [kv|idx pos]; cbn [hstep bstep] in *.
      + pose proof (gtadd_refines t bt kv T) as G. rewrite E in G. destruct G as [idx [bt1 [G1 [G2 _]]]]. rewrite G1.
        rewrite <- (trep_log_add t bt kv t1 T E). apply IH; auto.
      + destruct (0 <=? idx) eqn:A; [|discriminate]. destruct (idx <? 2 ^ tlog t) eqn:C; [|discriminate].
        destruct (pos <? length (items (getbH t idx)))%nat eqn:D; [|discriminate]. cbn [andb] in E. inversion E; subst t1.
        apply Z.leb_le in A. apply Z.ltb_lt in C. apply Nat.ltb_lt in D.
        destruct (gtremove_refines t bt idx pos T ltac:(lia) D) as [bt1 [G1 G2]]. rewrite G1.
        change (tlog t) with (tlog (tremoveH t idx pos)). apply IH; auto.
  Qed.

  Theorem generation_bytes_all_histories log d0 os t k : 0 <= log <= maxLog -> hrun (newTable BS bs0 true log) os = Some t ->
    exists bt, brun log (fun _ => Gen_OpenN1_ops.pvSetEmpty maxCount d0) os = Ok (Some bt) /\ trep t bt /\ gtfind t bt k = Some (tfindH t k).
  Proof.
    intros Hl H. destruct (brun_refines os _ _ t (trep_new log d0 Hl) H) as [bt [A C]]. exists bt. split; [exact A|]. split; auto.
    apply gtfind_refines; auto.
  Qed.
End TableN1.
