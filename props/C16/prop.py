"""C16 – SegmentedArray never moves elements and indexes them consistently.
tie: T-gen (cxx2coq on SegmentedArraySettings<sqrt|cnst, L> with L symbolic, UIntMath<size_t|uint32_t>::Log2) +
translator validation against the real functions; L1 model of the capacity operations corresponded with the real
container; oracle = the property predicate evaluated on the real code (index enumeration + address stability)."""
import os, sys, bisect, re

GEN = ['gen_log2_64.json', 'gen_log2_32.json', 'gen_segsqrt.json', 'gen_segcnst.json', 'gen_arr_sqrt.json', 'gen_arr_cnst.json', 'gen_arr_log.json',
       'gen_shift_sqrt.json', 'gen_shift_cnst.json', 'gen_shiftx_sqrt.json', 'gen_shiftx_cnst.json']
M64 = 2 ** 64
PAR = 8

# ------------------------------------------------------------------ python reference of the segment sizes (oracle side only)
def seg_sizes(F, L, upto):
    """sizes of segments 0,1,2,... until their sum exceeds `upto` (the documented layout, NOT taken from the Coq model)"""
    out = []; tot = 0
    if F == 'cn':
        while tot <= upto:
            out.append(2 ** L); tot += 2 ** L
        return out
    out.append(2 ** L); tot = 2 ** L; k = 1
    while tot <= upto:
        for _ in range(3 * 2 ** (k - 1)):
            out.append(2 ** (k + L)); tot += 2 ** (k + L)
            if tot > upto: break
        k += 1
    return out

def boundaries(F, L, upto):
    b = [0]; 
    for s in seg_sizes(F, L, upto):
        b.append(b[-1] + s)
    return b

# ------------------------------------------------------------------ generators
def gen_index_cases(ctx, scale):
    r = ctx.rng; cases = []
    thorough = scale > 1
    # Log2: every 2^k, 2^k-1, 2^k+1, smeared patterns, random
    for k in range(64):
        for v in (2 ** k, 2 ** k - 1, 2 ** k + 1, 2 ** k + 2 ** (k // 2), 2 ** (k + 1) - 1, 2 ** k + r.below(2 ** k)):
            if 0 < v < M64: cases.append('lg64 %d' % v)
    for k in range(32):
        for v in (2 ** k, 2 ** k - 1, 2 ** k + 1, 2 ** (k + 1) - 1, 2 ** k + r.below(2 ** k)):
            if 0 < v < 2 ** 32: cases.append('lg32 %d' % v)
    for _ in range(300 * scale):
        cases.append('lg64 %d' % (r.below(2 ** r.range(1, 64)) + 1))
        cases.append('lg32 %d' % (r.below(2 ** r.range(1, 32)) + 1))
    cases.append('lg64 0'); cases.append('lg32 0')
    # exhaustive prefixes (range lines of 1024 indexes)
    blk = 1024
    ex = {('sq', 0): 20, ('sq', 3): 16, ('sq', 1): 14, ('sq', 2): 14, ('sq', 5): 14, ('sq', 8): 13, ('sq', 16): 13,
          ('cn', 0): 20, ('cn', 5): 20, ('cn', 3): 17, ('cn', 12): 16}
    if thorough:
        ex = {('sq', 0): 24, ('sq', 3): 22, ('sq', 1): 20, ('sq', 2): 20, ('sq', 5): 20, ('sq', 8): 19, ('sq', 16): 18,
              ('cn', 0): 24, ('cn', 5): 24, ('cn', 3): 22, ('cn', 12): 20}
    for (F, L), lg in sorted(ex.items()):
        for lo in range(0, 2 ** lg, blk):
            cases.append('%sr %d %d %d' % (F, L, lo, blk))
    # aimed: around every 2^k, around every change of logItemCount (index1 = 2^(2k-1)), top of the proved range
    for L in list(range(0, 17)) + [20, 31, 32, 33, 47, 48, 62, 63]:
        pts = set()
        for k in range(0, 64):
            for d in range(-3, 4):
                pts.add(2 ** k + d)
        for m in range(1, 64 - L + 1):            # index1 = 2^m exactly at index (2^m - 1) * 2^L
            base = (2 ** m - 1) * 2 ** L
            for d in (-2 ** L - 1, -2 ** L, -2, -1, 0, 1, 2 ** L - 1, 2 ** L):
                pts.add(base + d)
        for k in range(1, (64 - L) // 2 + 1):     # a few segment starts inside each size class
            P = 2 ** k
            for q in (P // 2, P // 2 + 1, P, 2 * P - 1):
                pts.add(((q * P) - 1) * 2 ** L); pts.add(((q * P) - 1) * 2 ** L - 1); pts.add(((q * P + P - 1)) * 2 ** L - 1)
        top = M64 - 2 ** L
        for d in range(1, 6):
            pts.add(top - d)
        for _ in range(40 * scale):
            pts.add(r.below(2 ** r.range(1, 64)))
        for d in range(0, 2 ** min(L, 3) + 2):
            pts.add(top + d); pts.add(M64 - 1 - d)
        for i in sorted(pts):
            if not (0 <= i < M64): continue
            # proved range (round 2): everything except (L = 0, SIZE_MAX); GetItemCount additionally not (L = 63, i >= 2^63: shift by 64 = UB)
            if (L == 0 and i == M64 - 1) or (L == 63 and i >= 2 ** 63):
                cases.append('sqs %d %d' % (L, i))    # outside the proved range: translator validation of GetSegItemIndexes only
            else:
                cases.append('sq %d %d' % (L, i))
            cases.append('cn %d %d' % (L, i))
    # inverse direction on slots
    for L in (0, 1, 3, 5, 8, 16, 33):
        for _ in range(150 * scale):
            k = r.range(0, min(31, (63 - L) // 2))
            P = 2 ** k
            s = r.range(3 * P // 2 - 2 if k > 0 else 0, 3 * P - 3) if k > 0 else 0
            j = r.choice([0, 1, P * 2 ** L - 1, r.below(P * 2 ** L)])
            if j < P * 2 ** L: cases.append('sqx %d %d %d' % (L, s, j))
            s2 = r.below(2 ** r.range(1, 63 - L)); j2 = r.below(2 ** L)
            cases.append('cnx %d %d %d' % (L, s2, j2))
    return cases

HIST_L = {'sq': [0, 0, 1, 2, 3, 3, 4, 6, 8], 'cn': [0, 1, 2, 3, 5, 5, 6, 8], 'sqw': [0, 3, 5], 'cnw': [0, 3, 5]}
SIZE_MAX = M64 - 1

def gen_hist_cases(ctx, scale):
    r = ctx.rng; cases = []
    def one_history(F, L, limit, nops, allow_replace=True):
        bnd = boundaries(F[:2], L, limit * 2)
        def near():
            b = r.choice(bnd); return max(0, b + r.choice([-2, -1, 0, 0, 1, 2]))
        cnt = 0; ops = []
        for _ in range(nops):
            t = r.below(100)
            if t < 28:      # AddBack(Item&&) / AddBack(const Item&)
                k = r.choice([1, 1, 2, 3, r.range(1, 40), max(1, near() - cnt)]); k = min(k, max(1, limit - cnt))
                ops.append('%s%d' % (r.choice('aaae'), k)); cnt += k
            elif t < 42:    # Reserve incl. 0, 1, capacity boundaries +-
                ops.append('r%d' % r.choice([near(), cnt + r.below(50), r.below(limit), 0, 1]))
            elif t < 54:    # SetCount(count) / SetCount(count, item) incl. 0, 1, count, boundaries
                c = r.choice([near(), r.below(limit), cnt + r.below(30), 0, 1, cnt]); c = min(c, limit)
                ops.append('%s%d' % (r.choice('ssS'), c)); cnt = c
            elif t < 60:
                ops.append('k')
            elif t < 68:    # Shrink(capacity) incl. 0, count-1, count, count+1, SIZE_MAX
                ops.append('K%d' % r.choice([near(), r.below(limit), 0, max(0, cnt - 1), cnt, cnt + 1, SIZE_MAX]))
            elif t < 77:    # RemoveBack incl. 0, 1, count
                k = r.choice([1, 1, 2, 0, cnt, r.below(cnt + 1), max(0, cnt - near())]); k = min(k, cnt)
                ops.append('b%d' % k); cnt -= k
            elif t < 80:
                ops.append('c'); cnt = 0
            elif t < 83:
                ops.append('C'); cnt = 0
            elif t < 86:    # Insert(index, Item&&) / Insert(index, const Item&) incl. index 0 and index == count
                if cnt < limit:
                    ops.append('%s%d' % (r.choice('ij'), r.choice([0, cnt, r.below(cnt + 1)]))); cnt += 1
            elif t < 88:
                if cnt > 0:
                    ops.append('d%d' % r.choice([0, cnt - 1, r.below(cnt)])); cnt -= 1
            elif t < 92:    # Insert(index, n, item) / (index, fwd range) / (index, single-pass range) / (index, {a,b,c}): both InsertNogrow branches
                kind = r.choice('IIJJUL')
                m = 3 if kind == 'L' else r.choice([0, 1, 2, r.range(1, 40), max(0, near() - cnt)])
                m = min(m, 25) if kind == 'U' else m
                if cnt + m <= limit:
                    ops.append(('L%d' % r.choice([0, cnt, r.below(cnt + 1)])) if kind == 'L' else
                               '%s%d:%d' % (kind, r.choice([0, cnt, r.below(cnt + 1), max(0, cnt - r.below(m + 2))]), m)); cnt += m
            elif t < 94:    # Remove(index, n) incl. n = 0, whole tail, whole array
                pidx = r.choice([0, cnt, r.below(cnt + 1)]); m = min(r.choice([0, 1, r.below(cnt - pidx + 1), cnt - pidx]), cnt - pidx)
                ops.append('D%d:%d' % (pidx, m)); cnt -= m
            elif t < 96:    # AddBackNogrow(Item&&) / (const Item&): only when there is room (harness and model share the guard)
                ops.append(r.choice('no'))   # the generator's count stays a lower bound (later arguments remain valid; SetCount re-synchronises)
            elif t < 98 and allow_replace:   # the array is replaced by a newly constructed one
                kind = r.choice('GHRTPQ'); c = r.choice([0, 1, near(), r.below(min(limit, 400) + 1)]); c = min(c, limit)
                if kind == 'T': ops.append('T'); cnt = 3
                elif kind == 'P': ops.append('P%d' % c); cnt = 0
                else: ops.append('%s%d' % (kind, c)); cnt = c
            else:
                ops.append(None)   # filter-Remove: the count afterwards depends on the values
                break
        if ops and ops[-1] is None:
            ops[-1] = 'F%d' % r.choice([2, 3, 5, 7]); ops += ['a%d' % r.range(1, 30), 'k']
        return ops, cnt
    for n in range(280 * scale):
        F = r.choice(['sq', 'sq', 'cn', 'cn', 'sqw', 'cnw']); L = r.choice(HIST_L[F])
        limit = r.choice([40, 200, 1500, 6000]) if L <= 2 else r.choice([200, 1500, 6000])
        if L >= 6: limit = r.choice([6 * 2 ** L, 6000, 12000])
        ops, _ = one_history(F, L, limit, r.range(6, 36))
        cases.append('hist %s %d %s' % (F, L, ' '.join(ops)))
    if scale > 1:   # thorough only: the large initial segment sizes named by the property (logInitialItemCount up to 16)
        for L, lim in ((12, 40000), (16, 400000)):
            for F in ('sq', 'cn'):
                for _ in range(6):
                    ops, _ = one_history(F, L, lim, r.range(6, 16), allow_replace=False)
                    cases.append('hist %s %d %s' % (F, L, ' '.join(ops)))
    # aimed: an array filled exactly to its capacity (count == capacity at a segment boundary), then every kind of single / multiple Insert:
    # the Reserve inside Insert / InsertCrt / pvInsert must add a segment
    for F in ('sq', 'cn'):
        for L in (0, 1, 3):
            for b in boundaries(F, L, 700)[1:18]:
                for tail in ('i0', 'j%d' % b, 'I0:1', 'I%d:2' % b, 'J0:3', 'U%d:2' % (b // 2), 'L0'):
                    cases.append('hist %s %d s%d k %s %s' % (F, L, b, tail, r.choice(['k', 'b1', 'a1'])))
    # two arrays: ops on either, move / swap / copy between them
    for n in range(90 * scale):
        F = r.choice(['sq', 'cn', 'sq', 'cn', 'sqw', 'cnw']); L = r.choice([0, 1, 2, 3, 5] if len(F) == 2 else [0, 3, 5]); limit = r.choice([40, 300, 2000])
        toks = []
        for _ in range(r.range(3, 9)):
            which = r.choice('AB')
            ops, _ = one_history(F, L, limit, r.range(1, 5))
            toks += ['%s.%s' % (which, o) for o in ops if o[0] not in 'F']
            toks.append(r.choice(['mAB', 'mBA', 'MAB', 'MBA', 'xAB', 'cAB', 'cBA', 'kAB', 'kBA']))
            toks += ['A.s%d' % r.below(limit), 'B.s%d' % r.below(limit)] if r.chance(1, 3) else []
        cases.append('hist2 %s %d %s' % (F, L, ' '.join(toks)))
    return cases

def gen_chk_cases(ctx, scale):
    """the FAILING side of the three MOMO_CHECKs, executed in forked children: AddBackNogrow on a full array, operator[](count),
    RemoveBack(count + 1) must abort inside SegmentedArray's own check (theorem C16_arr_checks_stuck on the regenerated code)"""
    r = ctx.rng; cases = []
    for F in ('sq', 'cn'):
        for L in (0, 3, 5):
            b = boundaries(F, L, 400)
            ns = sorted(set([0, 1, 2] + [x + d for x in b[:8] for d in (-1, 0, 1) if x + d >= 0] + [r.below(300) for _ in range(2 * scale)]))
            for what in ('nogrow', 'index', 'removeback'):
                for n in ns[:10 + 4 * scale]:
                    cases.append('chk %s %d %s %d' % (F, L, what, n))
    return cases
CHK_FUNC = {'nogrow': 'AddBackNogrowCrt', 'index': 'pvGetItem', 'removeback': 'RemoveBack('}

def gen_ghist_cases(ctx, scale):
    """histories over the operations whose REAL bodies are translated by cxx2coq (Gen_ArrSqrt): AddBackCrt, Reserve, SetCountCrt
    (pvIncCount / pvDecCount), Shrink(), Shrink(c), Clear(shrink), RemoveBack = pvDecCount"""
    r = ctx.rng; cases = []
    for n in range(160 * scale):
        F = r.choice(['sq', 'cn']); L = r.choice([0, 0, 1, 2, 3, 5, 8])
        limit = r.choice([40, 300, 2000, 6000]) if L < 8 else 6000
        bnd = boundaries(F, L, limit * 2)
        def near():
            b = r.choice(bnd); return max(0, b + r.choice([-2, -1, 0, 0, 1, 2]))
        cnt = 0; ops = []
        for _ in range(r.range(5, 30)):
            t = r.below(100)
            if t < 30:
                k = min(r.choice([1, 1, 2, 3, r.range(1, 40), max(1, near() - cnt)]), max(1, limit - cnt)); ops.append('%s%d' % (r.choice('ae'), k)); cnt += k
            elif t < 45: ops.append('r%d' % r.choice([near(), cnt + r.below(50), r.below(limit), 0, 1]))
            elif t < 62:
                c = min(limit, r.choice([near(), r.below(limit), cnt + r.below(30), 0, 1, cnt])); ops.append('%s%d' % (r.choice('sS'), c)); cnt = c
            elif t < 70: ops.append('k')
            elif t < 80: ops.append('K%d' % r.choice([near(), r.below(limit), 0, max(0, cnt - 1), cnt, cnt + 1, SIZE_MAX]))
            elif t < 92:
                k = min(r.choice([1, 0, cnt, r.below(cnt + 1), max(0, cnt - near())]), cnt); ops.append('b%d' % k); cnt -= k
            elif t < 93: ops.append('c'); cnt = 0
            elif t < 95: ops.append('C'); cnt = 0
            elif t < 97: ops.append(r.choice('no'))
            elif cnt <= 500:   # Insert / Remove in the middle through the regenerated ArrayShifter (kept small: the driver re-evaluates the cell function)
                t2 = r.below(5)
                if t2 == 4:    # Remove(filter) through the regenerated filter shifter; the count afterwards depends on the values: re-synchronise with SetCount
                    ops.append('F%d' % r.choice([2, 3, 5])); c2 = r.below(min(limit, 400) + 1); ops.append('s%d' % c2); cnt = c2
                elif t2 <= 1:
                    m = r.choice([0, 1, 2, r.range(1, 30)]); p_ = r.choice([0, cnt, r.below(cnt + 1)]); ops.append('%s%d:%d' % (r.choice('IJ'), p_, m)); cnt += m
                else:
                    p_ = r.choice([0, cnt, r.below(cnt + 1)]); m = min(r.choice([0, 1, r.below(cnt - p_ + 1), cnt - p_]), cnt - p_); ops.append('D%d:%d' % (p_, m)); cnt -= m   # AddBackNogrow when there is room; the generator's count stays a lower bound
        cases.append('ghist %s %d %s' % (F, L, ' '.join(ops)))
    return cases

# ------------------------------------------------------------------ measured coverage of the histories (from the real code's outputs)
CLASS_STARTS = [1, 4, 10, 22, 46, 94, 190, 382]     # sqrt: first segment of each size class
def measure_histories(cases, lines):
    per = {}; ev = {'segments_added': 0, 'segments_removed': 0, 'sqrt_size_class_crossings_up': 0, 'sqrt_size_class_crossings_down': 0,
                    'insert_shift_branch(index+count<initCount)': 0, 'insert_tail_branch': 0, 'insert_at_count': 0, 'insert_at_0': 0,
                    'remove_whole_tail': 0, 'zero_count_insert_or_remove': 0, 'shrink_SIZE_MAX': 0, 'arg_0': 0, 'arg_1': 0,
                    'world_ops_nonempty_source': 0, 'addbacknogrow_taken': 0, 'addbacknogrow_full': 0, 'replaced_by_new_array': 0}
    for c, out in zip(cases, lines):
        w = c.split()
        if w[0] not in ('hist', 'hist2') or 'FAIL' in out or out == '<missing>': continue
        key = '%s %s L=%s' % (w[0], w[1], w[2]); d = per.setdefault(key, {'histories': 0, 'ops': 0, 'max_count': 0, 'max_segments': 0, 'grew_while_nonempty': 0})
        d['histories'] += 1
        toks = out.split(); ops = w[3:]
        prev = {'A': (0, 0), 'B': (0, 0)}
        for o, tk in zip(ops, toks):
            d['ops'] += 1
            parts = tk.split('|') if '|' in tk else [tk]
            cur = {}
            for nm, pt in zip('AB', parts):
                f = pt.split('/'); cur[nm] = (int(f[0]), int(f[1]))
            tgt = o[0] if (len(o) > 2 and o[1] == '.') else 'A'
            op = o[2:] if (len(o) > 2 and o[1] == '.') else o
            if w[0] == 'hist2' and not (len(o) > 2 and o[1] == '.'):
                src = o[1]
                if prev[src][0] > 0: ev['world_ops_nonempty_source'] += 1
            else:
                (pc, ps), (nc, ns) = prev[tgt], cur[tgt]
                if ns > ps:
                    ev['segments_added'] += ns - ps
                    if pc > 0: d['grew_while_nonempty'] += 1
                    if w[1].startswith('sq'): ev['sqrt_size_class_crossings_up'] += sum(1 for b in CLASS_STARTS if ps <= b < ns)
                if ns < ps:
                    ev['segments_removed'] += ps - ns
                    if w[1].startswith('sq'): ev['sqrt_size_class_crossings_down'] += sum(1 for b in CLASS_STARTS if ns <= b < ps)
                k = op[0]; arg = op[1:]
                if k in 'IJUL' and ':' in arg or k == 'L':
                    p_, m_ = (int(arg), 3) if k == 'L' else map(int, arg.split(':'))
                    if p_ <= pc:
                        if m_ == 0: ev['zero_count_insert_or_remove'] += 1
                        elif p_ + m_ < pc: ev['insert_shift_branch(index+count<initCount)'] += 1
                        else: ev['insert_tail_branch'] += 1
                        if p_ == pc: ev['insert_at_count'] += 1
                        if p_ == 0: ev['insert_at_0'] += 1
                elif k in 'ij' and arg:
                    if int(arg) == pc: ev['insert_at_count'] += 1
                    if int(arg) == 0: ev['insert_at_0'] += 1
                elif k == 'D':
                    p_, m_ = map(int, arg.split(':'))
                    if m_ == 0: ev['zero_count_insert_or_remove'] += 1
                    elif p_ + m_ == pc: ev['remove_whole_tail'] += 1
                elif k == 'K' and arg and int(arg) == SIZE_MAX: ev['shrink_SIZE_MAX'] += 1
                elif k in 'no': ev['addbacknogrow_taken' if nc == pc + 1 else 'addbacknogrow_full'] += 1
                elif k in 'GHRTPQ': ev['replaced_by_new_array'] += 1
                if k in 'rsSKb' and arg == '0': ev['arg_0'] += 1
                if k in 'rsSKb' and arg == '1': ev['arg_1'] += 1
            for nm in cur:
                d['max_count'] = max(d['max_count'], cur[nm][0]); d['max_segments'] = max(d['max_segments'], cur[nm][1])
            prev.update(cur)
    return per, ev

# ------------------------------------------------------------------ the property predicate on the real code's outputs
def oracle(ctx, cases, lines):
    bad = []; prev_missing = False
    for c, out in zip(cases, lines):
        w = c.split()
        if out == '<missing>':
            # the harness process died on this case (momo assertion / memory error); the rest of its chunk is lost too
            if not prev_missing:
                bad.append((c, out, 'the real code crashed (assertion failure or memory error) on this case'))
            prev_missing = True; continue
        prev_missing = False
        try:
            if w[0] in ('lg64', 'lg32'):
                v = int(w[1])
                if v > 0 and int(out) != v.bit_length() - 1:
                    bad.append((c, out, 'Log2(%d) = %s, expected %d' % (v, out, v.bit_length() - 1)))
            elif w[0] in ('sq', 'cn'):
                L, i = int(w[1]), int(w[2]); s, j, idx, cnt = map(int, out.split())
                if idx != i: bad.append((c, out, 'GetIndex(GetSegItemIndexes(%d)) = %d' % (i, idx)))
                elif not (j < cnt): bad.append((c, out, 'itemIndex %d >= GetItemCount(%d) = %d at index %d' % (j, s, cnt, i)))
                elif cnt & (cnt - 1) or cnt < 2 ** L: bad.append((c, out, 'GetItemCount(%d) = %d is not a power of two >= 2^L' % (s, cnt)))
                if i >= 2 ** 32: ctx.nontrivial.add(c)
            elif w[0] in ('sqr', 'cnr'):
                # run-length form: "s j idx cnt xLEN;" = LEN consecutive indexes, same s and cnt, j and idx increasing by 1
                L, lo, n = int(w[1]), int(w[2]), int(w[3]); F = w[0][:2]
                runs = []
                for x in out.split(';'):
                    if x:
                        f = x.split(); runs.append((int(f[0]), int(f[1]), int(f[2]), int(f[3]), int(f[4][1:])))
                if sum(r[4] for r in runs) != n:
                    bad.append((c, out[:200], 'range output covers %d indexes, expected %d' % (sum(r[4] for r in runs), n))); continue
                key = (F, L)
                prev = ctx._c16_last.get(key)     # (index, seg, item, cnt) of the last index of the previous run
                if lo == 0:
                    ctx._c16_bnd[key] = boundaries(F, L, 2 ** 25)
                bnd = ctx._c16_bnd.get(key)
                i = lo
                for (s, j, idx, cnt, ln) in runs:
                    why = None
                    if idx != i: why = 'GetIndex(GetSegItemIndexes(%d)) = %d' % (i, idx)
                    elif not (j + ln - 1 < cnt): why = 'itemIndex %d >= GetItemCount(%d) = %d at index %d' % (j + ln - 1, s, cnt, i + ln - 1)
                    elif cnt & (cnt - 1) or cnt < 2 ** L: why = 'GetItemCount(%d) = %d is not a power of two >= 2^L' % (s, cnt)
                    elif i == 0 and (s, j) != (0, 0): why = 'index 0 is slot (%d,%d)' % (s, j)
                    elif prev is not None and prev[0] == i - 1:
                        ps, pj, pc = prev[1], prev[2], prev[3]
                        exp = (ps, pj + 1) if pj + 1 < pc else (ps + 1, 0)
                        if (s, j) != exp: why = 'index %d is slot (%d,%d) but index %d was slot (%d,%d) of a segment of %d' % (i, s, j, i - 1, ps, pj, pc)
                    if why is None and bnd and i < bnd[-2]:
                        # independent layout: the documented size sequence
                        es = bisect.bisect_right(bnd, i) - 1
                        if (s, j, cnt) != (es, i - bnd[es], bnd[es + 1] - bnd[es]):
                            why = 'layout: index %d expected slot (%d,%d) of %d' % (i, es, i - bnd[es], bnd[es + 1] - bnd[es])
                    if why:
                        bad.append(('%s %d %d' % (F, L, i), '%d %d %d %d' % (s, j, idx, cnt), why)); break
                    prev = (i + ln - 1, s, j + ln - 1, cnt); i += ln
                ctx._c16_last[key] = prev
                ctx.nontrivial.add(c)
            elif w[0] in ('sqx', 'cnx'):
                L, s, j = int(w[1]), int(w[2]), int(w[3]); i, s2, j2 = map(int, out.split())
                if (s2, j2) != (s, j): bad.append((c, out, 'GetSegItemIndexes(GetIndex(%d,%d)) = (%d,%d)' % (s, j, s2, j2)))
            elif w[0] == 'chk':
                if not (out.startswith('aborted') and 'SegmentedArray.h' in out and CHK_FUNC[w[3]] in out):
                    bad.append((c, out[:200], 'out-of-domain call (%s on %s elements) did not fail in the MOMO_CHECK of SegmentedArray::%s' % (w[3], w[4], CHK_FUNC[w[3]].rstrip('('))))
                ctx.nontrivial.add(c)
            elif w[0] in ('hist', 'hist2'):
                if 'FAIL' in out or not out.strip():
                    bad.append((c, out[-200:], 'history on the real container: ' + (out.split('FAIL:')[-1] if 'FAIL' in out else 'no output')))
                elif w[0] == 'hist':
                    toks = out.split(); grew = False; prev = (0, 0)
                    for tk in toks:
                        cnt, sc, cap, top = tk.split('/')
                        if int(sc) > prev[1] and prev[0] > 0: grew = True
                        prev = (int(cnt), int(sc))
                    if grew: ctx.nontrivial.add(c)
                else:
                    # non-trivial: a move / swap / copy whose source held elements
                    toks = out.split(); ops = w[3:]; prevA = prevB = 0
                    for o, tk in zip(ops, toks):
                        a, b = tk.split('|'); ca, cb = int(a.split('/')[0]), int(b.split('/')[0])
                        if len(o) == 3 and o[1] != '.' and ((o[1] == 'A' and prevA > 0) or (o[1] == 'B' and prevB > 0)):
                            ctx.nontrivial.add(c)
                        prevA, prevB = ca, cb
        except (ValueError, IndexError):
            bad.append((c, out[:200], 'unparsable implementation output'))
    return bad

def index_cases_per_L(icases):
    d = {}
    for c in icases:
        w = c.split()
        if w[0] in ('sq', 'cn', 'sqs', 'sqr', 'cnr', 'sqx', 'cnx'):
            k = '%s L=%s' % (w[0][:2], w[1]); n = int(w[3]) if w[0][2:] == 'r' else 1
            e = d.setdefault(k, {'indexes': 0, 'max_index_log2': 0}); e['indexes'] += n
            hi = (int(w[2]) + n - 1) if w[0][2:] != 'x' else 0
            e['max_index_log2'] = max(e['max_index_log2'], hi.bit_length())
    return d

def shrink_hist(ctx, harness, case):
    """ddmin on the op list of a failing history"""
    w = case.split(); head, ops = w[:3], w[3:]
    def fails(o):
        p = os.path.join(ctx.build, 'shrink.cases'); open(p, 'w').write(' '.join(head + o) + '\n')
        rc, lines, err = ctx.run_lines([harness], p, timeout=60)
        return rc != 0 or (lines and 'FAIL' in lines[0])
    n = 2
    while len(ops) >= 2 and n <= len(ops):
        sz = max(1, len(ops) // n); done = False
        for st in range(0, len(ops), sz):
            cand = ops[:st] + ops[st + sz:]
            if cand and fails(cand):
                ops = cand; n = max(2, n - 1); done = True; break
        if not done:
            if sz == 1: break
            n = min(len(ops), n * 2)
    return ' '.join(head + ops)

# ------------------------------------------------------------------ AST facts: the glue bodies that are NOT translated function by function
def predump_asts(ctx):
    """cold-start time: the 11 translator configs + the facts need only 4 distinct clang AST dumps (tu, filter); run them in parallel once
    and let cxx2coq.dump_ast serve them from memory (this process only)"""
    import json as _json, concurrent.futures as cf
    import cxx2coq
    keys = {}
    for cfn in GEN:
        c = _json.load(open(os.path.join(ctx.pdir, cfn)))
        keys[(c['tu'], c['filter'])] = c
    for flt in ('SegmentedArray', 'ArrayShifter'):
        keys.setdefault((os.path.join(ctx.pdir, 'inst_arr.cpp'), flt), {'tu': os.path.join(ctx.pdir, 'inst_arr.cpp'), 'filter': flt})
    orig = cxx2coq.dump_ast
    if getattr(orig, '_c16_memo', None) is not None:
        return
    memo = {}
    def one(k):
        c = dict(keys[k]); c.setdefault('includes', [os.path.join(ctx.repo, 'include')])
        try: return k, orig(c, ctx.repo)
        except cxx2coq.TranslationError: return k, None
    with cf.ThreadPoolExecutor(max_workers=4) as ex:
        for k, txt in ex.map(one, list(keys)):
            if txt is not None: memo[k] = txt
    def dump_ast(cfg, repo='/repo'):
        k = (cfg['tu'], cfg['filter'])
        if k in memo and not cfg.get('defines') and cfg.get('std', 'c++17') == 'c++17': return memo[k]
        return orig(cfg, repo)
    dump_ast._c16_memo = memo
    cxx2coq.dump_ast = dump_ast

def gen_seg_facts(ctx):
    """T-gen (AST facts, after props/C05 gen_array_facts / props/C14): the statements of the thin members of SegmentedArray that only
    compose translated functions (Insert overloads, InsertCrt, pvInsert, Remove overloads, forwarding members) and of the untranslated
    ArrayShifter members (single-pass Insert, range InsertNogrow, filter Remove), read off the clang AST of the CURRENT headers and written
    to coq/Gen_SegFacts.v as lists of strings.  SegFacts_Proofs.v interprets them (act_of) and runs the generated functions in that order."""
    import json as _json
    import cxx2coq
    out = os.path.join(ctx.cdir, 'Gen_SegFacts.v')
    sw = cxx2coq.skip_wrappers
    def strip(n):
        n = sw(n)
        while n.get('kind') in ('ImplicitCastExpr', 'ParenExpr', 'CXXStaticCastExpr', 'CXXFunctionalCastExpr', 'CXXBindTemporaryExpr',
                                'MaterializeTemporaryExpr', 'ExprWithCleanups') and n.get('inner'):
            n = sw(n['inner'][-1] if n['kind'] == 'CXXFunctionalCastExpr' else n['inner'][0])
        return n
    def expr(n):
        n = strip(n); k = n.get('kind')
        if k == 'BinaryOperator': return '(%s %s %s)' % (expr(n['inner'][0]), n['opcode'], expr(n['inner'][1]))
        if k == 'CompoundAssignOperator': return '(%s %s %s)' % (expr(n['inner'][0]), n['opcode'], expr(n['inner'][1]))
        if k == 'UnaryOperator': return '%s%s' % (n['opcode'], expr(n['inner'][0]))
        if k == 'DeclRefExpr': return n['referencedDecl']['name']
        if k == 'MemberExpr': return n['name']
        if k == 'IntegerLiteral': return n['value']
        if k == 'CXXThisExpr': return 'this'
        if k == 'CStyleCastExpr': return expr(n['inner'][0])
        if k == 'CXXOperatorCallExpr':   # class-type iterators: write *it / ++it / (a = b) as for pointers
            c = strip(n['inner'][0]); opn = (c.get('referencedDecl') or {}).get('name') or c.get('name')
            args = n['inner'][1:]
            if opn == 'operator*' and len(args) == 1: return '*' + expr(args[0])
            if opn == 'operator++' and len(args) == 1: return '++' + expr(args[0])
            if opn == 'operator=' and len(args) == 2: return '(%s = %s)' % (expr(args[0]), expr(args[1]))
        if k in ('CallExpr', 'CXXMemberCallExpr', 'CXXOperatorCallExpr'): return call(n)
        if k in ('CXXConstructExpr', 'CXXTemporaryObjectExpr'):
            if len(n.get('inner', [])) == 1: return expr(n['inner'][0])    # copy / move construction of an argument passed by value
            return 'ctor{%s}' % ', '.join(expr(a) for a in n.get('inner', []))
        if k == 'ConditionalOperator': return '(%s ? %s : %s)' % tuple(expr(a) for a in n['inner'])
        if k == 'ArraySubscriptExpr': return '%s[%s]' % (expr(n['inner'][0]), expr(n['inner'][1]))
        return k
    def call(n):
        c = strip(n['inner'][0])
        nm = c.get('name') or (c.get('referencedDecl') or {}).get('name') or expr(c)
        return '%s(%s)' % (nm, ', '.join(expr(a) for a in n['inner'][1:]))
    def stmt(st):
        st0 = sw(st); k = st0.get('kind')
        if k == 'DeclStmt':
            vs = [x for x in st0['inner'] if x.get('kind') == 'VarDecl']; outl = []
            for v in vs:
                init = [x for x in v.get('inner', []) if isinstance(x, dict) and ('Expr' in x.get('kind', '') or x.get('kind', '').endswith('Literal') or x.get('kind', '').endswith('Operator'))]
                outl.append('decl %s = %s' % (v['name'], expr(init[0]) if init else '-'))
            return ', '.join(outl)
        if k == 'IfStmt':
            parts = st0['inner']
            t = 'if %s { %s }' % (expr(parts[0]), '; '.join(stmts(parts[1])))
            if len(parts) > 2: t += ' else { %s }' % '; '.join(stmts(parts[2]))
            return t
        if k == 'ForStmt':
            i_, _cv, c_, inc_, b_ = st0['inner']
            return 'for (%s; %s; %s) { %s }' % (stmt(i_) if i_ else '', expr(c_) if c_ else '', expr(inc_) if inc_ else '', '; '.join(stmts(b_)))
        if k == 'WhileStmt': return 'while %s { %s }' % (expr(st0['inner'][0]), '; '.join(stmts(st0['inner'][1])))
        if k == 'DoStmt': return 'CHECK' if '__assert_fail' in _json.dumps(st0) else 'do { %s }' % '; '.join(stmts(st0['inner'][0]))
        if k == 'CXXTryStmt': return 'try { %s }' % '; '.join(stmts(st0['inner'][0]))
        if k == 'ReturnStmt': return ('return ' + expr(st0['inner'][0])) if st0.get('inner') else 'return'
        if k == 'ContinueStmt': return 'continue'
        if k == 'CXXOperatorCallExpr': return expr(st0)
        if k in ('CallExpr', 'CXXMemberCallExpr'): return call(st0)
        if k == 'CompoundStmt': return '{ %s }' % '; '.join(stmts(st0))
        if k == 'NullStmt': return ';'
        if '__assert_fail' in _json.dumps(st0): return 'ASSERT'
        return expr(st0)
    def stmts(n):
        n0 = sw(n)
        return [stmt(x) for x in n0.get('inner', [])] if n0.get('kind') == 'CompoundStmt' else [stmt(n0)]
    try:
        tu = os.path.join(ctx.pdir, 'inst_arr.cpp'); inc = [os.path.join(ctx.repo, 'include')]
        facts = {}
        for si, tag in ((0, 'sqrt'), (1, 'cnst')):
            cfg = {'tu': tu, 'filter': 'SegmentedArray', 'class': 'SegmentedArray', 'spec_index': si, 'includes': inc}
            spec = cxx2coq.find_spec(cxx2coq.load_objs(cxx2coq.dump_ast(cfg, ctx.repo)), cfg)
            npar = lambda d: [p_.get('name') for p_ in d.get('inner', []) if p_.get('kind') == 'ParmVarDecl']
            def bodies(name, pred=lambda d: True):
                ds = [d for d in cxx2coq.method_decls(spec, name) if pred(d)]
                if not ds: raise cxx2coq.TranslationError('SegmentedArray::%s: no body found' % name)
                bs = [stmts([x for x in d['inner'] if x.get('kind') == 'CompoundStmt'][0]) for d in ds]
                bs = [[re.sub(r'forward\((\w+)\)', r'\1', t_) for t_ in l_] for l_ in bs]
                bs = [[re.sub(r'ctor\{(move\(\w+\))\}', r'\1', t_) for t_ in l_] for l_ in bs]   # by-value pass of a class-type iterator
                if any(b != bs[0] for b in bs): raise cxx2coq.TranslationError('SegmentedArray::%s: the instantiations differ' % name)
                return bs[0]
            q = lambda d: d['type']['qualType']
            f = {
              'insert_n': bodies('Insert', lambda d: npar(d) == ['index', 'count', 'item']),
              'insert_crt': bodies('InsertCrt'),
              'insert_var': bodies('InsertVar'),
              'insert_move': bodies('Insert', lambda d: npar(d) == ['index', 'item'] and '&&' in q(d)),
              'insert_copy': bodies('Insert', lambda d: npar(d) == ['index', 'item'] and '&&' not in q(d)),
              'insert_range': bodies('Insert', lambda d: npar(d) == ['index', 'begin', 'end']),
              'insert_ilist': bodies('Insert', lambda d: npar(d) == ['index', 'items']),
              'pvinsert_forward': bodies('pvInsert', lambda d: 'InsertNogrow' in _json.dumps(d)),
              'pvinsert_singlepass': bodies('pvInsert', lambda d: 'InsertNogrow' not in _json.dumps(d)),
              'remove_n': bodies('Remove', lambda d: npar(d) == ['index', 'count']),
              'remove_filter': bodies('Remove', lambda d: npar(d) == ['itemFilter']),
              'remove_back': bodies('RemoveBack'),
              'add_back_var': bodies('AddBackVar'), 'add_back_nogrow_var': bodies('AddBackNogrowVar'),
              'set_count': bodies('SetCount', lambda d: npar(d) == ['count']), 'set_count_item': bodies('SetCount', lambda d: npar(d) == ['count', 'item']),
              'get_back_item': bodies('GetBackItem'), 'index_op': bodies('operator[]'),
            }
            facts[tag] = f
        if facts['sqrt'] != facts['cnst']:
            raise cxx2coq.TranslationError('the sqrt and cnst instantiations of SegmentedArray have different glue bodies')
        # the untranslated members of ArrayShifter<SegmentedArray>
        sh = {}
        for si in (0, 1):
            cfg = {'tu': tu, 'filter': 'ArrayShifter', 'class': 'ArrayShifter', 'spec_index': si, 'includes': inc}
            sspec = cxx2coq.find_spec(cxx2coq.load_objs(cxx2coq.dump_ast(cfg, ctx.repo)), cfg)
            if 'momo::SegmentedArray<' not in _json.dumps([x for x in sspec.get('inner', []) if x.get('kind') == 'TemplateArgument']):
                raise cxx2coq.TranslationError('ArrayShifter specialization #%d is not a SegmentedArray instantiation' % si)
            npar = lambda d: [p_.get('name') for p_ in d.get('inner', []) if p_.get('kind') == 'ParmVarDecl']
            def sbody(name, pred):
                ds = [d for d in cxx2coq.method_decls(sspec, name) if pred(d)]
                if not ds: raise cxx2coq.TranslationError('ArrayShifter::%s: no body found' % name)
                bs = [stmts([x for x in d['inner'] if x.get('kind') == 'CompoundStmt'][0]) for d in ds]
                if any(b != bs[0] for b in bs): raise cxx2coq.TranslationError('ArrayShifter::%s: the instantiations differ' % name)
                return bs[0]
            sh[si] = {'shifter_insert_singlepass': sbody('Insert', lambda d: npar(d) == ['array', 'index', 'begin', 'end']),
                      'shifter_insert_nogrow_range': sbody('InsertNogrow', lambda d: npar(d) == ['array', 'index', 'begin', 'count']),
                      'shifter_insert_nogrow_move': sbody('InsertNogrow', lambda d: npar(d) == ['array', 'index', 'item'] and '&&' in d['type']['qualType']),
                      'shifter_remove_filter': sbody('Remove', lambda d: npar(d) == ['array', 'itemFilter'])}
        if sh[0] != sh[1]:
            raise cxx2coq.TranslationError('the two ArrayShifter<SegmentedArray> instantiations differ')
        def lst(name, items): return 'Definition %s : list string := [%s].\n' % (name, '; '.join('"%s"' % x.replace('"', "'") for x in items))
        txt = ('(* GENERATED by props/C16/prop.py (gen_seg_facts) from the clang AST of inst_arr.cpp -- do not edit *)\n'
               'From Coq Require Import List String.\nImport ListNotations.\nLocal Open Scope string_scope.\n\n'
               '(* SegmentedArray (sqrt and cnst instantiations agree): statements of the thin members, in source order *)\n' +
               ''.join(lst('seg_' + k_, v_) for k_, v_ in facts['sqrt'].items()) +
               '(* ArrayShifter<SegmentedArray>: the members that are not translated function by function *)\n' +
               ''.join(lst(k_, v_) for k_, v_ in sh[0].items()))
        if not os.path.exists(out) or open(out).read() != txt:
            open(out, 'w').write(txt)
        ctx.tie_obligations.append({'name': 'translate Gen_SegFacts (statement lists of the glue members of SegmentedArray / ArrayShifter)', 'ok': True})
        return True
    except Exception as e:
        if os.path.exists(out): os.remove(out)
        ctx.tie_obligations.append({'name': 'translate Gen_SegFacts', 'ok': False, 'error': str(e)[:400]})
        return False

def replay(ctx, rp):
    harness = ctx.cxx('harness.cpp', 'harness')
    if harness is None:
        print('harness does not build'); return 2
    case = rp.get('case')
    if not case:
        print('replay has no concrete case (no-failing-input-found): broken stages were', list(rp.get('broken', {}).keys())); return 1
    ctx._c16_last = {}; ctx._c16_bnd = {}
    path = os.path.join(ctx.build, 'replay.cases'); open(path, 'w').write(case + '\n')
    rc, lines, err = ctx.run_lines([harness], path)
    bad = oracle(ctx, [case], lines) if rc == 0 and lines else [(case, err[-300:], 'harness crashed')]
    print('case:', case, '\nimplementation:', (lines[0][:300] if lines else err[-300:]))
    if rp.get('model') is not None:
        print('model (recorded):', str(rp.get('model'))[:300])
    if bad:
        print(bad[0][2]); print('VIOLATION property=C16 replay=%s' % ctx.replay); return 1
    print('property holds on this case'); return 0

def run(ctx):
    scale = 1 if ctx.quick() else 8
    ctx._c16_last = {}; ctx._c16_bnd = {}
    ctx.trusted += ['tools/cxx2coq.py + clang 14 JSON AST (validated on every run against the real functions; C16 added the additive config keys out_params / imports)',
                    'extraction: ExtrOcamlBasic only (+ Extraction Blacklist List String: a module renaming), OCaml 4.13.1, zarith for decimal I/O only',
                    'g++ 12 -std=c++17, harness reaches private members via #define private public; tracking MemManager in the harness']
    ctx.assumptions += ['0 <= logInitialItemCount < 64 (shift counts of size_t)',
                        'sqrt sizing: every size_t index except (L = 0, index = SIZE_MAX) where index1 = (index >> L) + 1 wraps (theorem C16_sqrt_top_L0_aliases states what happens there); GetItemCount additionally not (L = 63, index >= 2^63: shift by 64)',
                        'L1 capacity model: element construction/destruction and allocation failure are not modelled (no-throw histories)']
    predump_asts(ctx)
    ctx.regen(GEN)
    if not gen_seg_facts(ctx):
        ctx.stage('regen', False, 'SegFacts extraction failed: ' + str(ctx.tie_obligations[-1].get('error')))
    ctx.prove()
    harness = ctx.cxx('harness.cpp', 'harness', ['-O0', '-g0'] if ctx.quick() else [])   # quick: compile time dominates the harness's run time
    if harness is None:
        ctx.stage('build-harness', False, getattr(ctx, 'last_cxx_error', ''))
        return ctx.finish(rule=RULE)
    par = [sys.executable, os.path.join(ctx.pdir, 'parrun.py'), str(PAR)]
    icases = gen_index_cases(ctx, scale)
    hcases = gen_hist_cases(ctx, scale)
    have_model = ctx.stages.get('prove', {}).get('ok') and ctx.extract()
    if have_model:
        mism, _ = ctx.correspond('translator-validation', icases, par + [harness], par + [ctx.model_exe], timeout=3000)
        nidx = sum(int(c.split()[3]) if c[2] == 'r' else 1 for c in icases)
        ctx.evaluations += nidx - len(icases)
        ctx.tie_obligations.append({'name': 'generated Gallina == real C++ on %d case lines (%d indexes/values)' % (len(icases), nidx), 'ok': not mism})
        gcases = gen_ghist_cases(ctx, scale)
        gm, _ = ctx.correspond('generated-container', gcases, par + [harness], par + [ctx.model_exe], timeout=3000)
        ctx.tie_obligations.append({'name': 'generated container functions (Gen_ArrSqrt: AddBackCrt, AddBackNogrowCrt, Reserve, SetCountCrt, Shrink, Clear, RemoveBack, pvGetItem = operator[] address, '
                                            'pvIncCapacity, pvDecCapacity, pvIncCount regenerated from SegmentedArray.h) == real momo::SegmentedArray on %d histories' % len(gcases), 'ok': not gm})
        for (i, c, a, b) in [m for m in gm if m[2] != '<missing>'][:2]:
            ctx.violation('generated container functions and the real container disagree', {'case': 'hist' + c[5:], 'impl': a[-300:], 'model': b[-300:],
                          'cmd': 'echo "%s" | build/C16/harness' % c}, found_input=True)
        ctx.coverage.setdefault('input_distribution', {})['ghist'] = len(gcases)
        hm, _ = ctx.correspond('capacity-model', hcases, par + [harness], par + [ctx.model_exe], timeout=3000)
        ctx.tie_obligations.append({'name': 'L1 capacity model (SegModel.step over the generated functions) == real momo::SegmentedArray '
                                            'on %d histories (count / segment count / capacity / newest segment id after every op)' % len(hcases), 'ok': not hm})
        for (i, c, a, b) in [m for m in hm if m[2] != '<missing>'][:2]:   # crashes are reported (and shrunk) by the oracle stage
            ctx.violation('L1 capacity model and the real container disagree', {'case': c, 'impl': a[-300:], 'model': b[-300:],
                          'cmd': 'echo "%s" | build/C16/harness' % c}, found_input=True)
        for (i, c, a, b) in mism[:3]:
            if c[2] == 'r':   # narrow a range line down to the first index at which the two run lists differ
                def expand(txt):
                    o = []
                    for x in txt.split(';'):
                        f = x.split()
                        if len(f) == 5:
                            o += [(int(f[0]), int(f[1]) + t, int(f[2]) + t, int(f[3])) for t in range(int(f[4][1:]))]
                    return o
                try:
                    ea, eb = expand(a), expand(b)
                    for t in range(max(len(ea), len(eb))):
                        x = ea[t] if t < len(ea) else '<missing>'; y = eb[t] if t < len(eb) else '<missing>'
                        if x != y:
                            c = '%s %s %d' % (c[:2], c.split()[1], int(c.split()[2]) + t)
                            a, b = ' '.join(map(str, x)) if x != '<missing>' else x, ' '.join(map(str, y)) if y != '<missing>' else y; break
                except ValueError:
                    pass
            ctx.violation('generated model and implementation disagree', {'case': c, 'impl': a[:300], 'model': b[:300],
                          'cmd': 'echo "%s" | build/C16/harness' % c}, found_input=True)
    # the property predicate on the real code (always; bigger generator when a stage broke = search stage)
    if any(not s['ok'] for s in ctx.stages.values()):
        ctx.log('a stage broke: searching the implementation for a failing input with the thorough generator')
        hcases = hcases + gen_hist_cases(ctx, 6)
        if scale == 1:
            icases = icases + [c for c in gen_index_cases(ctx, 2) if c[2] != 'r']
    ccases = gen_chk_cases(ctx, scale)
    cases = icases + hcases + ccases
    path = os.path.join(ctx.build, 'oracle.cases')
    open(path, 'w').write('\n'.join(cases) + '\n')
    rc, lines, err = ctx.run_lines(par + [harness], path, timeout=3000)
    ctx.evaluations += len(cases)
    bad = oracle(ctx, cases, lines) if rc == 0 and len(lines) == len(cases) else \
        (oracle(ctx, cases, lines) or [('(harness)', err[-300:], 'harness crashed or lost output (rc=%d, %d/%d lines)' % (rc, len(lines), len(cases)))])
    ctx.stage('oracle', not bad, bad[0][2] if bad else '')
    for (c, out, why) in bad[:3]:
        if c.startswith('hist'):
            c = shrink_hist(ctx, harness, c)
        ctx.violation(why, {'case': c, 'impl_output': out, 'cmd': 'echo "%s" | build/C16/harness' % c}, found_input=True)
    for c in (icases[::max(1, len(icases) // 3)][:3] + hcases[:3]):
        ctx.add_sample(c[:300])
    kinds = ('lg64', 'lg32', 'sqr', 'cnr', 'sqs', 'sqx', 'cnx', 'sq ', 'cn ', 'hist sq ', 'hist cn ', 'hist sqw', 'hist cnw', 'hist2 sq ', 'hist2 cn ', 'hist2 sqw', 'hist2 cnw', 'chk')
    gh = ctx.coverage.get('input_distribution', {}).get('ghist', 0)
    ctx.coverage['input_distribution'] = {k.strip(): sum(1 for c in cases if c.startswith(k)) for k in kinds}
    ctx.coverage['input_distribution']['ghist (generated container functions vs real)'] = gh
    ops = {}
    for c in hcases:
        for o in c.split()[3:]:
            k = o[2] if (len(o) > 2 and o[1] == '.') else (o[0] + o[0] if len(o) == 3 and o[1] in 'AB' else o[0])
            ops[k] = ops.get(k, 0) + 1
    ctx.coverage['history_op_histogram'] = ops
    per, ev = measure_histories(cases, lines)
    ctx.coverage['input_distribution']['histories_per_configuration(measured)'] = per
    ctx.coverage['input_distribution']['history_events(measured)'] = ev
    ctx.coverage['input_distribution']['index_cases_per_L'] = index_cases_per_L(icases)
    ctx.coverage['histories_with_growth_while_nonempty'] = sum(1 for c in ctx.nontrivial if c.startswith('hist'))
    return ctx.finish(rule=RULE)

RULE = ('cases = Log2 on every 2^k/2^k+-1/random; exhaustive index prefixes 0..2^20 (sqrt L=0, cnst L=0,5; 2^13..2^16 for other L; '
        '2^24 thorough) as range lines of 1024 consecutive indexes; aimed indexes around every 2^k, every change of logItemCount '
        '(index1 = 2^m), segment starts, and the top of the proved range for L in 0..16,20,31..33,47,48,62,63; inverse direction on random slots; '
        'random grow/shrink/insert/remove histories on the real container (both sizing functions, L in 0..5) aimed at segment boundaries, '
        'and two-array histories with move / swap / copy; '
        'distinct = distinct case line; non-trivial = a range line (1024 consecutive indexes checked for contiguity), an index >= 2^32, '
        'a history in which a segment was added while elements existed, or a two-array history with a move/swap/copy from a non-empty array')
