(* C08 driver for the cxx2coq-GENERATED functions only (Gen_*.v): kept apart from driver.ml so that a change of shape of
   a generated function (which breaks this file's typing) cannot take the hand-model correspondence down with it. *)
open Zutil
open BinNums
let zs = string_of_z
(* ------------------------------------------------------------------ generated kernels (translator validation) *)
let out_z = function GenPrelude.Ok v -> zs v | GenPrelude.Stuck -> "Stuck" | GenPrelude.Fuel -> "Fuel" | GenPrelude.Exn -> "Exn"
let run_gen (w : string list) : string =
  match w with
  | ["gc"; cap; mn] -> out_z (Gen_GrowCapacity.coq_GrowCapacity true (z_of_string cap) (z_of_string mn) (z_of_int 0) false)
  | ["ms"; p; c] -> zs (Gen_ArrayBucket.pvMakeState (z_of_string p) (z_of_string c)) ^ " " ^ zs (Gen_ArrayBucket_s.pvMakeState (z_of_string p) (z_of_string c))
  | ["gp"; st] ->
      let load = fun _ -> z_of_string st in
      let ptr = z_of_int 4096 in
      let idx = Gen_ArrayBucket.pvGetMemPoolIndex load ptr in
      let poolf = fun q -> match Gen_ArrayBucket.pvGetMemPoolIndex load q with GenPrelude.Ok v -> v | _ -> z_of_int 0 in
      out_z idx ^ " " ^ out_z (Gen_ArrayBucket_cnt.pvGetFastCount load poolf ptr)
  | ["fi"; which; n] ->
      if which = "7" then out_z (Gen_ArrayBucket.pvGetFastMemPoolIndex (z_of_int 7) (z_of_string n))
      else out_z (Gen_ArrayBucket_s.pvGetFastMemPoolIndex (z_of_int 2) (z_of_string n))
  | _ -> "?"

(* Gen_HashMultiMap: count / version / returned position of pvAddValue, Remove(iter), pvRemoveValues, Clear *)
let run_hm (ops : string list) : string =
  let cnt = ref (z_of_int 0) and ver = ref (z_of_int 0) in
  let keys : (int * int ref) list ref = ref [] in
  let klen k = try !(Stdlib.List.assoc k !keys) with Not_found -> -1 in
  let z0 = z_of_int 0 in
  let saved : coq_Z option ref = ref None in
  let recs = Stdlib.List.map (fun tok ->
    let args = if String.length tok > 2 then Stdlib.List.map int_of_string (String.split_on_char ',' (String.sub tok 2 (String.length tok - 2))) else [] in
    let a i = Stdlib.List.nth args i in
    match tok.[0] with
    | 'a' -> let (c, v) = Gen_HashMultiMap.pvAddValue !cnt !ver z0 false in cnt := c; ver := v;
             (if klen (a 0) < 0 then keys := (a 0, ref 1) :: !keys else incr (Stdlib.List.assoc (a 0) !keys));
             zs c ^ " " ^ zs v
    | 'r' -> if klen (a 0) < 0 || a 1 >= klen (a 0) then "skip" else begin
               let (((c, v), ri), rm) = Gen_HashMultiMap.coq_Remove_iter !cnt !ver z0 false (z_of_int (a 1)) in
               cnt := c; ver := v; decr (Stdlib.List.assoc (a 0) !keys);
               Printf.sprintf "%s %s %s %s" (zs c) (zs v) (zs ri) (if rm then "true" else "false") end
    | 'v' | 'K' -> if klen (a 0) < 0 then "skip" else begin
               let (c, v) = Gen_HashMultiMap.pvRemoveValues !cnt !ver z0 false (z_of_int (klen (a 0))) in
               cnt := c; ver := v;
               (if tok.[0] = 'v' then (Stdlib.List.assoc (a 0) !keys) := 0 else keys := Stdlib.List.remove_assoc (a 0) !keys);
               zs c ^ " " ^ zs v end
    | 'c' -> let (c, v) = Gen_HashMultiMap.coq_Clear false !cnt !ver z0 false in cnt := c; ver := v; keys := []; zs c ^ " " ^ zs v
    | 'I' -> if klen (a 0) < 0 || a 1 >= klen (a 0) then "skip" else (saved := Some !ver; "it")
    | 'C' -> (match !saved with
              | None -> "skip"
              | Some v -> let ae = (args = [] || a 0 <> 0) in
                  (match Gen_VersionCheck.coq_Check_cont (fun _ -> !ver) (z_of_int 4096) v (z_of_int 4096) ae with
                   | GenPrelude.Ok _ -> "ok" | GenPrelude.Exn -> "throw" | _ -> "stuck"))
    | 'E' -> let ae = (args = [] || a 0 <> 0) in
             (match Gen_VersionCheck.coq_Check_cont (fun _ -> !ver) z0 z0 (z_of_int 4096) ae with
              | GenPrelude.Ok _ -> "ok" | GenPrelude.Exn -> "throw" | _ -> "stuck")
    | 'U' -> (match !saved with
              | None -> "skip"
              | Some v -> (* the generated VersionKeeper::Check (exception mode): the counter lives at some non-null address *)
                  (match Gen_VersionCheck.coq_Check_self (fun _ -> !ver) (z_of_int 4096) v with
                   | GenPrelude.Ok _ -> "ok" | GenPrelude.Exn -> "throw" | _ -> "stuck"))
    | 'D' -> (* the moved-from object: mValueCount = 0 (move constructor), null crew; Clear must change nothing *)
             let (c, _) = Gen_HashMultiMap.coq_Clear true z0 z0 z0 false in zs c ^ " dead 1"
    | _ -> "?") ops in
  String.concat "|" recs


(* ---- generated unordered_multimap::operator== / erase(first,last) over primitive tables evaluated on the REAL containers *)
let run_ugt (toks : string list) : string =
  let a = Array.of_list toks in
  let n = Array.length a in
  let zi = z_of_int and iz = int_of_z in
  let i = ref 0 in
  let next () = let t = a.(!i) in incr i; t in
  let out = Buffer.create 64 in
  (* EQ cntL cntR {lk enc count findidx perm}* {rk enc count}* *)
  assert (next () = "EQ");
  let cntl = int_of_string (next ()) in let cntr = int_of_string (next ()) in
  let lks = ref [] and rks = ref [] in
  while !i < n && (a.(!i) = "lk" || a.(!i) = "rk") do
    if next () = "lk" then begin
      let e = int_of_string (next ()) in let c = int_of_string (next ()) in let f = int_of_string (next ()) in let p = int_of_string (next ()) in
      lks := (e, c, f, p) :: !lks end
    else begin let e = int_of_string (next ()) in let c = int_of_string (next ()) in rks := (e, c) :: !rks end
  done;
  let lk = Array.of_list (Stdlib.List.rev !lks) and rk = Array.of_list (Stdlib.List.rev !rks) in
  let is_l z = z >= 10 && z mod 2 = 0 and is_r z = z >= 11 && z mod 2 = 1 in
  let count_ z = let z = iz z in
    zi (if z = 0 then cntl else if z = 1 then cntr
        else if is_l z then (let (_, c, _, _) = lk.((z - 10) / 2) in c) else if is_r z then snd rk.((z - 11) / 2) else 0) in
  let key_ z = let z = iz z in
    zi (if is_l z then (let (e, _, _, _) = lk.((z - 10) / 2) in e) else if is_r z then fst rk.((z - 11) / 2) else -1) in
  let find_ _h keyv = let kv = iz keyv in
    let r = ref (-1) in
    Array.iter (fun (e, _, f, _) -> if e = kv && f >= 0 then r := 11 + 2 * f) lk; zi !r in
  let is_null z = iz z < 0 in
  let is_perm x _ _ = let z = iz x in if is_l z then (let (_, _, _, p) = lk.((z - 10) / 2) in p = 1) else false in
  let range_fold _h f =
    let res = ref None in
    Array.iteri (fun j _ -> if !res = None then res := f (zi (10 + 2 * j))) lk; !res in
  let eq = Gen_WrapEq.op_eq count_ find_ key_ is_null is_perm (fun z -> z) (fun z -> z) range_fold (zi 0) (zi 1) in
  Buffer.add_string out (if eq then "eq 1" else "eq 0");
  (* ER n {k count pos_0..pos_count}* {p kidx keyid val}* {rg a b}* *)
  assert (next () = "ER");
  let npos = int_of_string (next ()) in
  let kcs = ref [] in
  while !i < n && a.(!i) = "k" do
    ignore (next ()); let c = int_of_string (next ()) in
    let ps = Array.init (c + 1) (fun _ -> int_of_string (next ())) in kcs := (c, ps) :: !kcs done;
  let keys = Array.of_list (Stdlib.List.rev !kcs) in
  let prs = ref [] in
  while !i < n && a.(!i) = "p" do
    ignore (next ()); let kx = int_of_string (next ()) in let kid = int_of_string (next ()) in let v = int_of_string (next ()) in
    prs := (kx, kid, v) :: !prs done;
  let pairs = Array.of_list (Stdlib.List.rev !prs) in
  let it_eqb x y = BinInt.Z.eqb x y and it_neqb x y = not (BinInt.Z.eqb x y) in
  let key_of p = let p = iz p in if p >= 0 && p < npos then (let (kx, _, _) = pairs.(p) in zi (1000 + kx)) else zi (-1) in
  let key_count h = let h = iz h in if h >= 1000 then zi (fst keys.(h - 1000)) else zi 0 in
  let mm_make h j = let h = iz h in
    if h <= -2000 then zi h                                     (* MakeIterator(RemoveKey(..)): the iterator erase returns *)
    else if h >= 1000 then (let (c, ps) = keys.(h - 1000) in let j = iz j in if j >= 0 && j <= c then zi ps.(j) else zi (-7)) else zi (-7) in
  let remove_key h = zi (- (2000 + (iz h - 1000))) in
  let remove_value p = zi (- (5000 + iz p)) in
  while !i < n && a.(!i) = "rg" do
    ignore (next ()); let x = int_of_string (next ()) in let y = int_of_string (next ()) in
    let res = Gen_WrapErase.erase_range it_eqb it_neqb (zi npos) (zi 0) (fun p -> BinInt.Z.add p (zi 1)) (fun _ -> zi 1)
                key_of key_count mm_make remove_key remove_value (zi 0) (zi x) (zi y) in
    let keep = match res with
      | GenPrelude.Ok (it, st) ->
          let it = iz it in
          if iz st = 1 then Some (fun _ _ -> false)
          else if it <= -5000 then (let p = - it - 5000 in Some (fun q _ -> q <> p))
          else if it <= -2000 then (let k = - it - 2000 in Some (fun _ kx -> kx <> k))
          else Some (fun _ _ -> true)
      | _ -> None in
    Buffer.add_string out " rg ";
    (match keep with
     | None -> Buffer.add_string out "throw"
     | Some kp ->
         let l = ref [] in
         Array.iteri (fun q (kx, kid, v) -> if kp q kx then l := (kid, v) :: !l) pairs;
         let l = Stdlib.List.sort compare !l in
         if l = [] then Buffer.add_string out "-"
         else Buffer.add_string out (String.concat "," (Stdlib.List.map (fun (k, v) -> Printf.sprintf "%d:%d" k v) l)))
  done;
  Buffer.contents out

(* generated HashMultiMapIterator::pvMove over the real key table's per-key counts (key iterator = number of remaining keys) *)
let run_pmt (toks : string list) : string =
  let counts = Array.of_list (Stdlib.List.map int_of_string toks) in
  let n = Array.length counts in
  let w = 1000 in
  let zi = z_of_int and iz = int_of_z in
  let k_null h = iz h <= 0 and k_next h = zi (iz h - 1) in
  let k_begin h = zi (1 + iz h * w) in
  let k_end h = let h' = iz h in zi (1 + h' * w + (if h' >= 1 && h' <= n then counts.(n - h') else 0)) in
  let out = Buffer.create 64 in
  for j = 0 to n - 1 do
    for vi = 0 to counts.(j) do
      let h = n - j in
      Buffer.add_string out (Printf.sprintf " %d:%d>" j vi);
      (match Gen_PairIterator.pvMove k_null k_next k_end k_begin (nat_of_int (n + 1)) (zi h) (zi (1 + h * w + vi)) with
       | GenPrelude.Ok ((_, h'), p') ->
           if iz p' = 0 then Buffer.add_string out "end"
           else Buffer.add_string out (Printf.sprintf "%d:%d" (n - iz h') (iz p' - (1 + iz h' * w)))
       | _ -> Buffer.add_string out "STUCK")
    done
  done;
  Buffer.contents out

let () = iter_lines (fun line ->
  match words line with
  | ("gc" | "ms" | "gp" | "fi") :: _ as w -> print_endline (run_gen w)
  | ("hm" | "hx") :: ops -> print_endline (run_hm ops)
  | "ugt" :: toks -> print_endline (run_ugt toks)
  | "pmt" :: "PM" :: toks -> print_endline (run_pmt toks)
  | ["pmt"; "PM"] -> print_endline ""
  | _ -> print_endline "?")
