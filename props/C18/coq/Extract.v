(* Extraction of the executable model (which calls the GENERATED GetVertices / Ceil). ExtrOcamlBasic only. *)
From Coq Require Import ZArith List Extraction ExtrOcamlBasic.
From MomoCommon Require Import GenPrelude.
From C18 Require Gen_Vertices Gen_Ceil Gen_List Gen_Raw Gen_Bits Gen_Mut Model RawLife Static.
Separate Extraction
  Gen_Vertices.GetVertices Gen_Ceil.Ceil
  List.filter (* lib/zutil.ml says List.filter, and the extracted List.ml shadows OCaml's *)
  Model.init Model.add Model.after Model.get_offset Model.contains Model.vertices Model.is_mutable Model.add_f
  Static.struct_layout Static.s_get_offset Static.s_contains Static.s_total Static.s_set_mutable Static.s_reset Static.s_is_mutable
  RawLife.create_raw RawLife.destroy_raw RawLife.create_raw_idx
  Gen_List.pvGetOffset Gen_List.vertexCount Gen_Vertices.maxCodeParam Gen_Vertices.maxColumnCount Model.lookup_gen Gen_List.Contains Model.contains_gen Gen_Raw.pvCreateRaw Gen_Bits.GetBit Gen_Bits.SetBit Gen_Mut.IsMutable.
