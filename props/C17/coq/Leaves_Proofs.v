(* C17: contracts of the GENERATED arithmetic leaves pvMultShift / pvGetStepCount / pvCompare
   (Gen_Leaves.v is regenerated from HashSorter.h on every run). *)
From Coq Require Import ZArith Bool List Lia.
From MomoCommon Require Import GenPrelude.
From C17 Require Import Gen_Leaves.
Local Open Scope Z_scope.

Lemma shiftr32 x : Z.shiftr x 32 = x / 2 ^ 32.
Proof. apply Z.shiftr_div_pow2. lia. Qed.

Lemma land_mask32 x : Z.land x (2 ^ 32 - 1) = x mod 2 ^ 32.
Proof. change (2 ^ 32 - 1) with (Z.ones 32). apply Z.land_ones. lia. Qed.

(* the split 32x32 form that the source computes, over mathematical integers *)
Definition ms_math (h n : Z) : Z :=
  (h / 2 ^ 32) * (n / 2 ^ 32) + ((h / 2 ^ 32) * (n mod 2 ^ 32)) / 2 ^ 32 + ((n / 2 ^ 32) * (h mod 2 ^ 32)) / 2 ^ 32.

Lemma ms_math_le h n : 0 <= h < 2 ^ 64 -> 0 <= n < 2 ^ 64 -> 0 <= ms_math h n <= (h * n) / 2 ^ 64.
Proof.
  intros Hh Hn. unfold ms_math.
  set (a := h / 2 ^ 32). set (c := h mod 2 ^ 32). set (b := n / 2 ^ 32). set (d := n mod 2 ^ 32).
  assert (Ha : 0 <= a < 2 ^ 32) by (unfold a; split; [apply Z.div_pos; lia | apply Z.div_lt_upper_bound; lia]).
  assert (Hb : 0 <= b < 2 ^ 32) by (unfold b; split; [apply Z.div_pos; lia | apply Z.div_lt_upper_bound; lia]).
  assert (Hc : 0 <= c < 2 ^ 32) by (unfold c; apply Z.mod_pos_bound; lia).
  assert (Hd : 0 <= d < 2 ^ 32) by (unfold d; apply Z.mod_pos_bound; lia).
  assert (Eh : h = a * 2 ^ 32 + c) by (unfold a, c; pose proof (Z.div_mod h (2 ^ 32)); lia).
  assert (En : n = b * 2 ^ 32 + d) by (unfold b, d; pose proof (Z.div_mod n (2 ^ 32)); lia).
  set (q1 := (a * d) / 2 ^ 32). set (q2 := (b * c) / 2 ^ 32).
  assert (H1 : 0 <= q1 /\ q1 * 2 ^ 32 <= a * d).
  { unfold q1. split. apply Z.div_pos; nia. pose proof (Z.mul_div_le (a * d) (2 ^ 32)). lia. }
  assert (H2 : 0 <= q2 /\ q2 * 2 ^ 32 <= b * c).
  { unfold q2. split. apply Z.div_pos; nia. pose proof (Z.mul_div_le (b * c) (2 ^ 32)). lia. }
  split. nia.
  apply Z.div_le_lower_bound. lia.
  rewrite Eh, En.
  change (2 ^ 64) with (2 ^ 32 * 2 ^ 32). nia.
Qed.

Lemma mul_div_lt h n : 0 <= h < 2 ^ 64 -> 0 < n -> (h * n) / 2 ^ 64 < n.
Proof. intros. apply Z.div_lt_upper_bound. lia. nia. Qed.

Lemma pvMultShift_math h n : 0 <= h < 2 ^ 64 -> 0 <= n < 2 ^ 64 -> pvMultShift h n = ms_math h n.
Proof.
  intros Hh Hn. pose proof (ms_math_le h n Hh Hn) as Hle.
  assert (Hlt : (h * n) / 2 ^ 64 < 2 ^ 64) by (apply Z.div_lt_upper_bound; nia).
  unfold pvMultShift.
  change (wrapU 64 (4 * 8)) with 32.
  change (wrapU 64 (wrapU 64 (Z.shiftl 1 32) - 1)) with (2 ^ 32 - 1).
  cbv zeta. rewrite !shiftr32, !land_mask32.
  unfold ms_math in *.
  set (a := h / 2 ^ 32) in *. set (c := h mod 2 ^ 32) in *. set (b := n / 2 ^ 32) in *. set (d := n mod 2 ^ 32) in *.
  assert (Ha : 0 <= a < 2 ^ 32) by (unfold a; split; [apply Z.div_pos; lia | apply Z.div_lt_upper_bound; lia]).
  assert (Hb : 0 <= b < 2 ^ 32) by (unfold b; split; [apply Z.div_pos; lia | apply Z.div_lt_upper_bound; lia]).
  assert (Hc : 0 <= c < 2 ^ 32) by (unfold c; apply Z.mod_pos_bound; lia).
  assert (Hd : 0 <= d < 2 ^ 32) by (unfold d; apply Z.mod_pos_bound; lia).
  assert (P1 : 0 <= a * b < 2 ^ 64) by (change (2 ^ 64) with (2 ^ 32 * 2 ^ 32); nia).
  assert (P2 : 0 <= a * d < 2 ^ 64) by (change (2 ^ 64) with (2 ^ 32 * 2 ^ 32); nia).
  assert (P3 : 0 <= b * c < 2 ^ 64) by (change (2 ^ 64) with (2 ^ 32 * 2 ^ 32); nia).
  assert (Q2 : 0 <= (a * d) / 2 ^ 32) by (apply Z.div_pos; lia).
  assert (Q3 : 0 <= (b * c) / 2 ^ 32) by (apply Z.div_pos; lia).
  rewrite (wrapU_small 64 (a * b)) by exact P1.
  rewrite (wrapU_small 64 (a * d)) by exact P2.
  rewrite (wrapU_small 64 (b * c)) by exact P3.
  rewrite (wrapU_small 64 (a * b + a * d / 2 ^ 32)) by lia.
  rewrite wrapU_small by lia. reflexivity.
Qed.

(* pvMultShift(h, n) is an UNDER-approximation of floor(h*n / 2^64) (the low x low partial product and the
   carries of the middle products are dropped) and therefore a valid index below n. *)
Theorem multshift_lt h n : 0 <= h < 2 ^ 64 -> 0 < n < 2 ^ 64 ->
  0 <= pvMultShift h n <= (h * n) / 2 ^ 64 /\ pvMultShift h n < n.
Proof.
  intros Hh Hn. rewrite pvMultShift_math by lia.
  pose proof (ms_math_le h n Hh ltac:(lia)). pose proof (mul_div_lt h n Hh ltac:(lia)). lia.
Qed.

Theorem multshift_zero h : 0 <= h < 2 ^ 64 -> pvMultShift h 0 = 0.
Proof.
  intros. rewrite pvMultShift_math by lia. unfold ms_math.
  change (0 / 2 ^ 32) with 0. change (0 mod 2 ^ 32) with 0.
  rewrite !Z.mul_0_r, Z.mul_0_l. reflexivity.
Qed.

(* it is not the exact floor: witness h = n = 2^64-1 (exact 2^64-2, computed 2^64-3) *)
Theorem multshift_not_exact : exists h n, 0 <= h < 2 ^ 64 /\ 0 < n < 2 ^ 64 /\ pvMultShift h n < (h * n) / 2 ^ 64.
Proof. exists (2 ^ 64 - 1), (2 ^ 64 - 1). vm_compute. intuition congruence. Qed.

Theorem stepcount_range n : 0 <= pvGetStepCount n <= 3.
Proof.
  unfold pvGetStepCount.
  destruct (Z.ltb n _); [vm_compute; intuition congruence|].
  destruct (Z.ltb n _); [vm_compute; intuition congruence|].
  destruct (Z.ltb n _); vm_compute; intuition congruence.
Qed.

Theorem stepcount_small n : n < 64 -> pvGetStepCount n = 0.
Proof.
  intros. unfold pvGetStepCount. change (wrapU 64 (Z.shiftl 1 6)) with 64.
  destruct (Z.ltb_spec n 64); [reflexivity|lia].
Qed.

Theorem compare_spec a b :
  (a < b -> pvCompare a b = -1) /\ (a = b -> pvCompare a b = 0) /\ (b < a -> pvCompare a b = 1).
Proof.
  unfold pvCompare. destruct (Z.ltb_spec a b); destruct (Z.eqb_spec a b); simpl; repeat split; intros; try lia; reflexivity.
Qed.
