(* C07 / L1 -> L0: the index state is consistent with the table rows, and therefore every query answered
   through an index returns what the brute-force filter over the table returns.
     rs        the rows of the table (addresses, table order = DataTable::mRaws); ct r = content of row r;
               `map ct rs` is the L0 row list (TableSpec.rows).
     u_cons    a unique hash holds exactly the rows, each under its projected key (uinv + same rows)
     m_cons    a multi hash partitions exactly the rows into groups by projected key (minv + same rows)
   Query theorems: FindRaws(unique) / FindRaws(multi) / "Select through an index + residual filter" are
   permutations of the corresponding filter over rs - for every probe-visibility relation R. *)
From Coq Require Import List ZArith Lia Bool Arith PeanoNat Permutation.
From C07 Require Import TableSpec TableProofs MultiHash MultiHashProofs SegProofs IndexModel IndexProofs.
Import ListNotations.

Definition rows_of (g : mgroup) : list Z := gkey g :: gvals g.
Definition allrows (gs : list mgroup) : list Z := flat_map rows_of gs.

(* the multi-hash invariant: nothing pending, positions distinct, every row of a group has the group's
   stored key as its projected key, stored keys pairwise different, every row listed once,
   completed segments of every value array sorted *)
Record minv (ct : Z -> row) (m : mhash) : Prop := mkMinv {
  mi_clean : mpadd m = None /\ mprem m = None;
  mi_tags : NoDup (map gtag (mgroups m));
  mi_rows : NoDup (allrows (mgroups m));
  mi_keys : forall g r, In g (mgroups m) -> In r (rows_of g) -> keyc ct (mcols m) r = gskey g;
  mi_skeys : NoDup (map gskey (mgroups m));
  mi_vok : forall g, In g (mgroups m) -> vals_ok (gvals g) }.

Definition u_cons (ct : Z -> row) (rs : list Z) (u : uhash) : Prop :=
  uinv ct u /\ Permutation (map eraw (uents u)) rs.
Definition m_cons (ct : Z -> row) (rs : list Z) (m : mhash) : Prop :=
  minv ct m /\ Permutation (allrows (mgroups m)) rs.
(* the whole DataIndexes object against the table *)
Definition consistent (ct : Z -> row) (rs : list Z) (s : istate) : Prop :=
  Forall (u_cons ct rs) (uhs s) /\ Forall (m_cons ct rs) (mhs s).

Definition has_key (ct : Z -> row) (cols : list nat) (k : list Z) (r : Z) : bool := zlist_eqb (keyc ct cols r) k.

Lemma filter_none {A} (f : A -> bool) l : (forall x, In x l -> f x = false) -> filter f l = [].
Proof.
  induction l as [|x l IH]; intros H; [reflexivity|]. simpl. rewrite (H x (or_introl eq_refl)).
  apply IH. intros y Hy. apply H. right. exact Hy.
Qed.

(* ---------------------------------------------------------------- FindByUniqueHash *)

Theorem find_unique_is_scan R ct rs u k :
  (forall s, R s s = true) -> u_cons ct rs u ->
  Permutation (find_unique R ct u k) (filter (has_key ct (ucols u) k) rs).
Proof.
  intros HR [(Hpa & Hpr & Htags & Hkeys & Hstored) Hperm].
  etransitivity; [|apply filter_perm; exact Hperm].
  unfold find_unique, u_find. rewrite Forall_forall in Hstored.
  destruct (find _ (uents u)) as [e|] eqn:E.
  - apply find_some in E as [Hin Hp]. apply andb_true_iff in Hp as [_ Hp].
    destruct (in_split _ _ Hin) as (a & b & Hab).
    assert (Hother : forall x, In x (a ++ b) -> has_key ct (ucols u) k (eraw x) = false).
    { intros x Hx. unfold has_key. destruct (zlist_eqb (keyc ct (ucols u) (eraw x)) k) eqn:Ex; [|reflexivity]. exfalso.
      apply zlist_eqb_eq in Ex, Hp. rewrite Hab in Hkeys. rewrite map_app in Hkeys. simpl in Hkeys.
      apply NoDup_remove_2 in Hkeys. apply Hkeys. rewrite <- map_app, Hp, <- Ex. apply in_map_iff. exists x. split; [reflexivity|exact Hx]. }
    rewrite Hab, map_app, filter_app. simpl. unfold has_key at 2. rewrite Hp.
    rewrite !filter_none; [reflexivity| |].
    + intros x Hx. apply in_map_iff in Hx as (y & <- & Hy). apply Hother. apply in_app_iff. right. exact Hy.
    + intros x Hx. apply in_map_iff in Hx as (y & <- & Hy). apply Hother. apply in_app_iff. left. exact Hy.
  - rewrite filter_none; [reflexivity|]. intros x Hx. apply in_map_iff in Hx as (y & <- & Hy).
    unfold has_key. destruct (zlist_eqb (keyc ct (ucols u) (eraw y)) k) eqn:Ek; [|reflexivity].
    eapply find_none in E; [|exact Hy]. simpl in E. rewrite Ek in E. apply zlist_eqb_eq in Ek.
    rewrite (Hstored y Hy), Ek, HR in E. discriminate.
Qed.

(* ---------------------------------------------------------------- FindByMultiHash *)

Lemma filter_flat_none ct cols k gs :
  (forall g r, In g gs -> In r (rows_of g) -> keyc ct cols r = gskey g) ->
  (forall g, In g gs -> gskey g <> k) -> filter (has_key ct cols k) (allrows gs) = [].
Proof.
  intros Hk Hne. apply filter_none. intros r Hr. unfold allrows in Hr. apply in_flat_map in Hr as (g & Hg & Hr).
  unfold has_key. rewrite (Hk g r Hg Hr). destruct (zlist_eqb (gskey g) k) eqn:E; [|reflexivity].
  apply zlist_eqb_eq in E. exfalso. exact (Hne g Hg E).
Qed.

Theorem find_multi_is_scan R ct rs m k :
  (forall s, R s s = true) -> m_cons ct rs m ->
  Permutation (find_multi R ct m k) (filter (has_key ct (mcols m) k) rs).
Proof.
  intros HR [Hinv Hperm]. destruct Hinv as [_ _ _ Hkeys Hskeys _].
  etransitivity; [|apply filter_perm; exact Hperm].
  unfold find_multi, m_find.
  assert (Hkk : forall g, In g (mgroups m) -> keyc ct (mcols m) (gkey g) = gskey g).
  { intros g Hg. apply Hkeys; [exact Hg|left; reflexivity]. }
  destruct (find _ (mgroups m)) as [g|] eqn:E.
  - apply find_some in E as [Hin Hp]. apply andb_true_iff in Hp as [_ Hp]. apply zlist_eqb_eq in Hp.
    rewrite (Hkk g Hin) in Hp.
    destruct (in_split _ _ Hin) as (a & b & Hab).
    assert (Hne : forall x, In x (a ++ b) -> gskey x <> k).
    { intros x Hx Ex. rewrite Hab, map_app in Hskeys. simpl in Hskeys. apply NoDup_remove_2 in Hskeys.
      apply Hskeys. rewrite <- map_app, Hp, <- Ex. apply in_map. exact Hx. }
    assert (Hsub : forall x, In x (a ++ b) -> In x (mgroups m)).
    { intros x Hx. rewrite Hab. apply in_app_iff in Hx as [Hx|Hx]; apply in_app_iff; [left|right; right]; exact Hx. }
    rewrite Hab. unfold allrows. rewrite flat_map_app. cbn [flat_map]. rewrite !filter_app.
    fold (allrows a). fold (allrows b).
    rewrite (filter_flat_none ct (mcols m) k a), (filter_flat_none ct (mcols m) k b); cbn [app].
    + rewrite app_nil_r. rewrite filter_all; [reflexivity|]. intros r Hr. unfold has_key.
      rewrite (Hkeys g r Hin Hr), Hp. apply zlist_eqb_refl.
    + intros g0 r Hg0. apply Hkeys. apply Hsub. apply in_app_iff. right. exact Hg0.
    + intros g0 Hg0. apply Hne. apply in_app_iff. right. exact Hg0.
    + intros g0 r Hg0. apply Hkeys. apply Hsub. apply in_app_iff. left. exact Hg0.
    + intros g0 Hg0. apply Hne. apply in_app_iff. left. exact Hg0.
  - rewrite (filter_flat_none ct (mcols m) k (mgroups m)); [reflexivity|exact Hkeys|].
    intros g Hg Ek. eapply find_none in E; [|exact Hg]. rewrite (Hkk g Hg), Ek, HR, zlist_eqb_refl in E. discriminate.
Qed.

(* ---------------------------------------------------------------- Select / SelectCount through an index *)

(* DataTable::pvSelectRec: the equalities on the index columns go into the FindRaws tuple, the remaining
   equalities and the row filter become the residual filter f applied to the rows found *)
Definition select_via_unique R ct u k (f : Z -> bool) : list Z := filter f (find_unique R ct u k).
Definition select_via_multi R ct m k (f : Z -> bool) : list Z := filter f (find_multi R ct m k).
Definition select_scan (rs : list Z) (g : Z -> bool) : list Z := filter g rs.

Lemma filter_filter_and {A} (f g : A -> bool) l : filter f (filter g l) = filter (fun x => g x && f x) l.
Proof. induction l as [|x l IH]; simpl; [reflexivity|]. destruct (g x); simpl; [destruct (f x)|]; rewrite IH; reflexivity. Qed.

(* whichever index is chosen (any whose key equalities + residual filter decompose the full predicate g),
   the selected rows are exactly the rows a scan of the table selects; in particular the count is the same *)
Theorem select_via_unique_is_scan R ct rs u k f g :
  (forall s, R s s = true) -> u_cons ct rs u ->
  (forall r, g r = has_key ct (ucols u) k r && f r) ->
  Permutation (select_via_unique R ct u k f) (select_scan rs g).
Proof.
  intros HR Hc Hg. unfold select_via_unique, select_scan.
  etransitivity; [apply filter_perm; apply (find_unique_is_scan R ct rs u k HR Hc)|].
  rewrite filter_filter_and. rewrite (filter_ext _ _ Hg). reflexivity.
Qed.

Theorem select_via_multi_is_scan R ct rs m k f g :
  (forall s, R s s = true) -> m_cons ct rs m ->
  (forall r, g r = has_key ct (mcols m) k r && f r) ->
  Permutation (select_via_multi R ct m k f) (select_scan rs g).
Proof.
  intros HR Hc Hg. unfold select_via_multi, select_scan.
  etransitivity; [apply filter_perm; apply (find_multi_is_scan R ct rs m k HR Hc)|].
  rewrite filter_filter_and. rewrite (filter_ext _ _ Hg). reflexivity.
Qed.

(* two different indexes (unique or multi) that both cover the predicate give the same rows and the same count *)
Corollary index_choice_irrelevant R ct rs u k1 f1 m k2 f2 g :
  (forall s, R s s = true) -> u_cons ct rs u -> m_cons ct rs m ->
  (forall r, g r = has_key ct (ucols u) k1 r && f1 r) -> (forall r, g r = has_key ct (mcols m) k2 r && f2 r) ->
  Permutation (select_via_unique R ct u k1 f1) (select_via_multi R ct m k2 f2) /\
  length (select_via_unique R ct u k1 f1) = length (select_scan rs g) /\
  length (select_via_multi R ct m k2 f2) = length (select_scan rs g).
Proof.
  intros HR Hu Hm H1 H2.
  pose proof (select_via_unique_is_scan R ct rs u k1 f1 g HR Hu H1) as P1.
  pose proof (select_via_multi_is_scan R ct rs m k2 f2 g HR Hm H2) as P2.
  split; [etransitivity; [exact P1|symmetry; exact P2]|]. split; apply Permutation_length; assumption.
Qed.

(* the L0 reading: has_key on addresses is the L0 key test on row contents *)
Lemma has_key_L0 ct cols k rs :
  map ct (filter (has_key ct cols k) rs) = filter (fun r => zlist_eqb (proj cols r) k) (map ct rs).
Proof. induction rs as [|r rs IH]; simpl; [reflexivity|]. unfold has_key at 1, keyc. destruct (zlist_eqb (proj cols (ct r)) k); simpl; rewrite IH; reflexivity. Qed.

(* FindByMultiHash / FindByUniqueHash against TableSpec: the contents of the rows found are, as a multiset, the
   rows of the L0 table whose projection is the key (TableSpec.find_by_key lists their positions) *)
Theorem find_multi_matches_spec R ct rs m k t :
  (forall s, R s s = true) -> m_cons ct rs m -> map ct rs = rows t ->
  Permutation (map ct (find_multi R ct m k)) (filter (fun r => zlist_eqb (proj (mcols m) r) k) (rows t)).
Proof.
  intros HR Hc Ht. rewrite <- Ht, <- has_key_L0. apply Permutation_map. apply find_multi_is_scan; assumption.
Qed.

Theorem find_unique_matches_spec R ct rs u k t :
  (forall s, R s s = true) -> u_cons ct rs u -> map ct rs = rows t ->
  Permutation (map ct (find_unique R ct u k)) (filter (fun r => zlist_eqb (proj (ucols u) r) k) (rows t)).
Proof.
  intros HR Hc Ht. rewrite <- Ht, <- has_key_L0. apply Permutation_map. apply find_unique_is_scan; assumption.
Qed.

(* ================================================================ the invariant is preserved: AddRaw on one hash *)

Lemma allrows_perm gs gs' : Permutation gs gs' -> Permutation (allrows gs) (allrows gs').
Proof.
  unfold allrows. induction 1; cbn [flat_map]; auto.
  - apply Permutation_app_head. assumption.
  - rewrite !app_assoc. apply Permutation_app_tail. apply Permutation_app_comm.
  - etransitivity; eassumption.
Qed.

Lemma allrows_mid a x b : allrows (a ++ x :: b) = allrows a ++ rows_of x ++ allrows b.
Proof. unfold allrows. rewrite flat_map_app. reflexivity. Qed.

Lemma update_group_split t f a g b :
  gtag g = t -> (forall x, In x (a ++ b) -> gtag x <> t) ->
  m_update_group t f (a ++ g :: b) = a ++ f g :: b.
Proof.
  intros Ht Hne. unfold m_update_group. rewrite map_app. simpl. rewrite Ht, Nat.eqb_refl.
  assert (Hid : forall l, (forall x, In x l -> gtag x <> t) -> map (fun g0 => if Nat.eqb (gtag g0) t then f g0 else g0) l = l).
  { induction l as [|x l IH]; intros H; [reflexivity|]. simpl.
    replace (Nat.eqb (gtag x) t) with false by (symmetry; apply Nat.eqb_neq; apply H; left; reflexivity).
    rewrite IH; [reflexivity|]. intros y Hy. apply H. right. exact Hy. }
  rewrite (Hid a), (Hid b); [reflexivity| |]; intros x Hx; apply Hne; apply in_app_iff; [right|left]; exact Hx.
Qed.

(* UniqueHash::Add + AcceptAdd of a row that is not in the table yet: either the hash now holds the table rows
   plus the new row (consistently), or it is unchanged and names a row of the table with the same key *)
Theorem u_add_preserves_cons ord R ct rs u raw tag :
  (forall s, R s s = true) -> u_cons ct rs u -> ~ In tag (map etag (uents u)) -> ~ In raw rs ->
  let '(u1, r) := u_add ord R ct u raw None tag in
  if Z.eqb r raw then u_cons ct (rs ++ [raw]) (u_accept_add u1)
  else u1 = u /\ In r rs /\ keyc ct (ucols u) r = keyc ct (ucols u) raw.
Proof.
  intros HR [(Hpa & Hpr & Htags & Hkeys & Hstored) Hperm] Htag Hraw. unfold u_add.
  set (k := keyc ct (ucols u) raw). rewrite Forall_forall in Hstored.
  destruct (u_find R ct u k) as [e|] eqn:E.
  - unfold u_find in E. apply find_some in E as [Hin Hp]. apply andb_true_iff in Hp as [_ Hp]. apply zlist_eqb_eq in Hp.
    assert (Hers : In (eraw e) rs) by (apply (Permutation_in _ Hperm); apply in_map; exact Hin).
    destruct (Z.eqb_spec (eraw e) raw) as [Ee|Ee]; [rewrite Ee in Hers; contradiction|].
    split; [reflexivity|]. split; [exact Hers|exact Hp].
  - rewrite Z.eqb_refl. unfold u_accept_add. simpl.
    set (en := mkE tag raw k).
    assert (Hp1 : Permutation (place ord tag en (uents u)) (en :: uents u)) by apply place_perm.
    assert (Hnone : ~ In k (map (fun e => keyc ct (ucols u) (eraw e)) (uents u))).
    { intros Hin. apply in_map_iff in Hin as (y & Hy & Hyin). unfold u_find in E. eapply find_none in E; [|exact Hyin].
      simpl in E. rewrite (Hstored y Hyin), Hy, HR, zlist_eqb_refl in E. discriminate. }
    split.
    + unfold uinv. simpl. repeat split; auto.
      * eapply Permutation_NoDup; [apply Permutation_map; symmetry; exact Hp1|]. simpl. constructor; assumption.
      * eapply Permutation_NoDup; [apply Permutation_map; symmetry; exact Hp1|]. simpl. constructor; assumption.
      * rewrite Forall_forall. intros x Hx. apply (Permutation_in _ Hp1) in Hx. destruct Hx as [<-|Hx]; [reflexivity|apply Hstored; exact Hx].
    + simpl. etransitivity; [apply Permutation_map; exact Hp1|]. simpl.
      etransitivity; [apply perm_skip; exact Hperm|]. apply Permutation_cons_append.
Qed.

(* MultiHash::Add + AcceptAdd of a row that is not in the table yet (arrays shorter than max_vals):
   the multi hash partitions the table rows plus the new row, completed segments sorted *)
Theorem m_add_preserves_cons ord R ct rs m raw tag :
  (forall s, R s s = true) -> m_cons ct rs m -> ~ In tag (map gtag (mgroups m)) -> ~ In raw rs ->
  (forall g, In g (mgroups m) -> length (gvals g) < max_vals) ->
  m_cons ct (rs ++ [raw]) (m_accept_add (m_add ord R ct m raw tag)).
Proof.
  intros HR [[[Hpa Hpr] Htags Hrows Hkeys Hskeys Hvok] Hperm] Htag Hraw Hsmall. unfold m_add.
  set (k := keyc ct (mcols m) raw).
  assert (Hkk : forall g, In g (mgroups m) -> keyc ct (mcols m) (gkey g) = gskey g).
  { intros g Hg. apply Hkeys; [exact Hg|left; reflexivity]. }
  destruct (m_find R ct m k) as [g|] eqn:E.
  - unfold m_find in E. apply find_some in E as [Hin Hp]. apply andb_true_iff in Hp as [_ Hp]. apply zlist_eqb_eq in Hp.
    rewrite (Hkk g Hin) in Hp.
    assert (Hgk : gkey g <> raw).
    { intros Eg. apply Hraw. apply (Permutation_in _ Hperm). unfold allrows. apply in_flat_map. exists g. split; [exact Hin|left; exact Eg]. }
    replace (Z.eqb (gkey g) raw) with false by (symmetry; apply Z.eqb_neq; exact Hgk).
    destruct (in_split _ _ Hin) as (a & b & Hab).
    assert (Hne : forall x, In x (a ++ b) -> gtag x <> gtag g).
    { intros x Hx Ex. rewrite Hab, map_app in Htags. simpl in Htags. apply NoDup_remove_2 in Htags.
      apply Htags. rewrite <- map_app, <- Ex. apply in_map. exact Hx. }
    set (g' := mkG (gtag g) (gkey g) (gskey g) (pv_add raw (gvals g))).
    assert (Hgs1 : m_update_group (gtag g) (fun g0 => mkG (gtag g0) (gkey g0) (gskey g0) (pv_add raw (gvals g0))) (mgroups m) = a ++ g' :: b).
    { rewrite Hab. apply update_group_split; [reflexivity|exact Hne]. }
    unfold m_accept_add. simpl. rewrite Hgs1.
    destruct (pv_add_preserves raw (gvals g) (Hvok g Hin) (Hsmall g Hin)) as [Hvok' Hpp].
    assert (Hsub : forall x, In x (a ++ g' :: b) -> x = g' \/ (In x (mgroups m) /\ x <> g)).
    { intros x Hx. apply in_app_iff in Hx as [Hx|[<-|Hx]]; [right|left; reflexivity|right].
      - split; [rewrite Hab; apply in_app_iff; left; exact Hx|]. intros ->. apply (Hne g); [apply in_app_iff; left; exact Hx|reflexivity].
      - split; [rewrite Hab; apply in_app_iff; right; right; exact Hx|]. intros ->. apply (Hne g); [apply in_app_iff; right; exact Hx|reflexivity]. }
    assert (Hrows' : Permutation (allrows (a ++ g' :: b)) (raw :: allrows (mgroups m))).
    { assert (Hg' : Permutation (rows_of g') (raw :: rows_of g)).
      { unfold rows_of, g'. cbn [gkey gvals]. etransitivity; [apply perm_skip; exact Hpp|apply perm_swap]. }
      rewrite Hab, !allrows_mid.
      etransitivity; [apply Permutation_app_head, Permutation_app_tail, Hg'|].
      cbn [app]. symmetry. apply Permutation_middle. }
    split.
    + constructor; simpl; auto.
      * rewrite map_app. simpl. rewrite Hab, map_app in Htags. exact Htags.
      * eapply Permutation_NoDup; [symmetry; exact Hrows'|]. constructor; [|exact Hrows].
        intros Hi. apply Hraw. apply (Permutation_in _ Hperm). exact Hi.
      * intros x r Hx Hr. destruct (Hsub x Hx) as [->|[Hxm _]]; [|apply Hkeys; assumption].
        cbn [gskey g']. unfold rows_of in Hr. cbn [gkey gvals g'] in Hr. destruct Hr as [<-|Hr]; [apply Hkk; exact Hin|].
        apply (Permutation_in _ Hpp) in Hr. destruct Hr as [<-|Hr]; [symmetry; exact Hp|]. apply Hkeys; [exact Hin|right; exact Hr].
      * rewrite map_app. simpl. rewrite Hab, map_app in Hskeys. exact Hskeys.
      * intros x Hx. destruct (Hsub x Hx) as [->|[Hxm _]]; [exact Hvok'|apply Hvok; exact Hxm].
    + etransitivity; [exact Hrows'|]. etransitivity; [apply perm_skip; exact Hperm|]. apply Permutation_cons_append.
  - unfold m_accept_add. simpl.
    set (gn := mkG tag raw k []).
    assert (Hp1 : Permutation (place ord tag gn (mgroups m)) (gn :: mgroups m)) by apply place_perm.
    assert (Hnone : ~ In k (map gskey (mgroups m))).
    { intros Hin. apply in_map_iff in Hin as (y & Hy & Hyin). unfold m_find in E. eapply find_none in E; [|exact Hyin].
      simpl in E. rewrite (Hkk y Hyin), Hy, HR, zlist_eqb_refl in E. discriminate. }
    assert (Hrows' : Permutation (allrows (place ord tag gn (mgroups m))) (raw :: allrows (mgroups m))).
    { etransitivity; [apply allrows_perm; exact Hp1|]. reflexivity. }
    split.
    + constructor; simpl; auto.
      * eapply Permutation_NoDup; [apply Permutation_map; symmetry; exact Hp1|]. simpl. constructor; assumption.
      * eapply Permutation_NoDup; [symmetry; exact Hrows'|]. constructor; [|exact Hrows].
        intros Hi. apply Hraw. apply (Permutation_in _ Hperm). exact Hi.
      * intros x r Hx Hr. apply (Permutation_in _ Hp1) in Hx. destruct Hx as [<-|Hx]; [|apply Hkeys; assumption].
        destruct Hr as [<-|[]]. reflexivity.
      * eapply Permutation_NoDup; [apply Permutation_map; symmetry; exact Hp1|]. simpl. constructor; assumption.
      * intros x Hx. apply (Permutation_in _ Hp1) in Hx. destruct Hx as [<-|Hx]; [apply vals_ok_nil|apply Hvok; exact Hx].
    + etransitivity; [exact Hrows'|]. etransitivity; [apply perm_skip; exact Hperm|]. apply Permutation_cons_append.
Qed.

(* the empty indexes are consistent with the empty table *)
Lemma empty_consistent ct cols : u_cons ct [] (mkU cols [] None None) /\ m_cons ct [] (mkM cols [] None None).
Proof.
  split; split; simpl; try reflexivity.
  - unfold uinv. simpl. repeat split; try apply NoDup_nil. apply Forall_nil.
  - constructor; simpl; auto; try apply NoDup_nil; try tauto; intros; tauto.
Qed.
