(* C03 -- the table swap scenario of GenTie.v (fc18ee9) for ANY manager, ANY crew / buffer sizes, ANY starting world and EVERY
   failure schedule: with the managers exchanged unconditionally (the parameter read off MemPool::Data::Swap) the scenario is never
   Stuck - no pool ever reaches its manager through a crew block that is dead - and when it completes the memory manager's view is
   exactly the one before.  Replaces the closed computation gen_pool_swap_manager_pointers_follow (kept).  An exception can only come
   from one of the four allocations of the SET-UP (two tables are created before anything is swapped); the scenario has no clean-up
   for its own set-up, so nothing is claimed about the view then - only that it is not Stuck.  Hand-written. *)
From Coq Require Import ZArith Bool List Lia.
From C03 Require Import Effects EffectsProofs Pointwise GenPrimsC03 Gen_C03Facts GenTie.
Import ListNotations.
Local Open Scope Z_scope.

Section SwapGeneral.
Variables mgr crewsz bufsz : Z.
Variable f : loc -> bool.
Variable g : bview.
Variable nb : Z.
Hypothesis Hg : forall b, nb <= b -> g b = None.

Definition v1 : bview := fun x => if Z.eqb nb x then Some (mgr, crewsz) else g x.
Definition v2 : bview := fun x => if Z.eqb (nb + 1) x then Some (mgr, bufsz) else v1 x.
Definition v3 : bview := fun x => if Z.eqb (nb + 1 + 1) x then Some (mgr, crewsz) else v2 x.
Definition v4 : bview := fun x => if Z.eqb (nb + 1 + 1 + 1) x then Some (mgr, bufsz) else v3 x.

Ltac neq := repeat match goal with |- context [Z.eqb ?a ?b] => destruct (Z.eqb_spec a b); try lia end.

(* destroying one table: its pool reaches the manager through [ref], returns the buffer, then the crew goes *)
Lemma tbl_destroy_post (t : tbl) s (v : bview) n :
  st2 s f v n -> v (t_mgrref t) <> None -> v (t_buf t) = Some (mgr, bufsz) -> v (t_crew t) = Some (mgr, crewsz) -> t_buf t <> t_crew t ->
  post (tbl_destroy mgr crewsz bufsz t) s
       (fun _ s' => st2 s' f (fun x => if Z.eqb (t_crew t) x then None else if Z.eqb (t_buf t) x then None else v x) n) (fun _ => False).
Proof.
  intros H Hr Hb Hc Hne. unfold tbl_destroy. apply post_bind.
  destruct (v (t_mgrref t)) as [p|] eqn:Er; [|contradiction].
  eapply post_conseq; [apply (p_touch_post2 (t_mgrref t) s f v n p H Er)| |intros ? []].
  intros u s1 H1. apply post_bind.
  eapply post_conseq; [apply (p_dealloc_post2 mgr (t_buf t) bufsz s1 f v n H1 Hb)| |intros ? []].
  intros u2 s2 H2.
  eapply post_conseq; [apply (p_dealloc_post2 mgr (t_crew t) crewsz s2 f _ n H2)| |intros ? []].
  - cbv beta. destruct (Z.eqb_spec (t_buf t) (t_crew t)); [contradiction|exact Hc].
  - intros u3 s3 H3. exact H3.
Qed.

Theorem swap_scn_general (equal : bool) s :
  st2 s f g nb ->
  post (swap_scn true equal mgr crewsz bufsz) s (fun _ s' => st2 s' f g (nb + 1 + 1 + 1 + 1)) (fun _ => True).
Proof.
  intros H. unfold swap_scn, tbl_create.
  apply post_bind. apply post_bind.
  eapply post_conseq; [apply (p_alloc_post2 mgr crewsz s f g nb H)| |intros; exact I].
  intros c s1 [Ec H1]. subst c. apply post_bind.
  eapply post_conseq; [apply (p_alloc_post2 mgr bufsz s1 f _ (nb + 1) H1)| |intros; exact I].
  intros b s2 [Eb H2]. subst b. apply post_ret.
  apply post_bind. apply post_bind.
  eapply post_conseq; [apply (p_alloc_post2 mgr crewsz s2 f _ (nb + 1 + 1) H2)| |intros; exact I].
  intros c s3 [Ec H3]. subst c. apply post_bind.
  eapply post_conseq; [apply (p_alloc_post2 mgr bufsz s3 f _ (nb + 1 + 1 + 1) H3)| |intros; exact I].
  intros b s4 [Eb H4]. subst b. apply post_ret.
  change (tbl_swap true equal (mkTb nb nb (nb + 1)) (mkTb (nb + 1 + 1) (nb + 1 + 1) (nb + 1 + 1 + 1)))
    with (mkTb (nb + 1 + 1) (nb + 1 + 1) (nb + 1 + 1 + 1), mkTb nb nb (nb + 1)).
  cbv iota beta.
  assert (H4' : st2 s4 f v4 (nb + 1 + 1 + 1 + 1)) by exact H4.
  apply post_bind.
  eapply post_conseq; [apply (tbl_destroy_post (mkTb nb nb (nb + 1)) s4 v4 _ H4')| |intros ? []].
  - cbn [t_mgrref]. unfold v4, v3, v2, v1. neq. discriminate.
  - cbn [t_buf]. unfold v4, v3, v2, v1. neq. reflexivity.
  - cbn [t_crew]. unfold v4, v3, v2, v1. neq. reflexivity.
  - cbn [t_buf t_crew]. lia.
  - intros u s5 H5. cbn [t_crew t_buf] in H5.
    eapply post_conseq; [apply (tbl_destroy_post (mkTb (nb + 1 + 1) (nb + 1 + 1) (nb + 1 + 1 + 1)) s5 _ _ H5)| |intros ? []].
    + cbn [t_mgrref]. unfold v4, v3, v2, v1. neq. discriminate.
    + cbn [t_buf]. unfold v4, v3, v2, v1. neq. reflexivity.
    + cbn [t_crew]. unfold v4, v3, v2, v1. neq. reflexivity.
    + cbn [t_buf t_crew]. lia.
    + intros u2 s6 H6. cbn [t_crew t_buf] in H6.
      eapply st2_ext; [intros l; reflexivity| |exact H6].
      intros x. cbv beta. unfold v4, v3, v2, v1.
      destruct (Z.eqb_spec (nb + 1 + 1) x); [subst x; symmetry; apply Hg; lia|].
      destruct (Z.eqb_spec (nb + 1 + 1 + 1) x); [subst x; symmetry; apply Hg; lia|].
      destruct (Z.eqb_spec nb x); [subst x; symmetry; apply Hg; lia|].
      destruct (Z.eqb_spec (nb + 1) x); [subst x; symmetry; apply Hg; lia|]. reflexivity.
Qed.

End SwapGeneral.

(* at the parameter read off the real MemPool::Data::Swap *)
Theorem gen_pool_swap_general (mgr crewsz bufsz : Z) (f : loc -> bool) (g : bview) (nb : Z) (equal : bool) s :
  (forall b, nb <= b -> g b = None) -> st2 s f g nb ->
  post (swap_scn data_swap_unconditional equal mgr crewsz bufsz) s (fun _ s' => st2 s' f g (nb + 1 + 1 + 1 + 1)) (fun _ => True).
Proof. intros Hg H. change data_swap_unconditional with true. apply (swap_scn_general mgr crewsz bufsz f g nb Hg equal s H). Qed.
