(* C02 -- pvMergeToLinear refines the same stable-merge specification as the generic path *)
From Coq Require Import List ZArith Arith Lia Bool Sorted.
From C02 Require Import BTreeModel BTreeParams BTreeBase BTreeSearch BTreeIter BTreeAdd BTreeTop BTreeHist BTreeRemoveTop BTreeHist2.
Import ListNotations.
Local Open Scope Z_scope.

Lemma ft_ext P Q l : (forall x, P x = Q x) -> first_true P l = first_true Q l.
Proof. intros H. induction l as [|x l IH]; simpl; auto. rewrite H, IH. reflexivity. Qed.

Lemma ft_prefix_false P l d :
  (d <= length l)%nat -> Forall (fun x => P x = false) (firstn d l) -> first_true P l = (d + first_true P (skipn d l))%nat.
Proof.
  intros H F. rewrite <- (firstn_skipn d l) at 1. rewrite ft_app, (ft_all_false P _ F), firstn_length_le by lia.
  rewrite Nat.ltb_irrefl. reflexivity.
Qed.

Lemma ft_le_impl' P Q l : (forall x, P x = true -> Q x = true) -> (first_true Q l <= first_true P l)%nat.
Proof.
  intros HPQ. induction l as [|x l IH]; simpl; [lia|].
  destruct (P x) eqn:Px; [rewrite (HPQ x Px); lia|]. destruct (Q x); lia.
Qed.

Section Merge.
Variables (maxCap stepRaw blockCount : nat) (linear multi : bool).
Hypothesis Hmc : (1 <= maxCap <= 255)%nat.

Notation twf := (twf maxCap).
Notation sorted := (sorted multi).
Notation key_ordered := (key_ordered multi).
Notation spec_merge := (spec_merge multi).
Notation spec_insert := (spec_insert multi).

(* number of items of l that are ordered before key k (multi: <= k, unique: < k) *)
Definition ord_index (l : list Z) (k : Z) : nat := first_true (fun x => negb (key_ordered x k)) l.

Lemma ord_index_multi l k : multi = true -> ord_index l k = ub_index l k.
Proof. intros Hm. unfold ord_index, ub_index, BTreeModel.key_ordered. rewrite Hm. apply ft_ext. intros x. apply negb_involutive. Qed.
Lemma ord_index_unique l k : multi = false -> ord_index l k = lb_index l k.
Proof. intros Hm. unfold ord_index, lb_index, BTreeModel.key_ordered. rewrite Hm. reflexivity. Qed.

(* the inner skip loop stops at ord_index, when everything before the start is already ordered before k *)
Lemma skip_ordered_spec dst k : twf dst -> forall fuel dit,
  norm dst dit -> (length (contents dst) - iter_index dst dit < fuel)%nat ->
  Forall (fun x => key_ordered x k = true) (firstn (iter_index dst dit) (contents dst)) ->
  norm dst (skip_ordered multi fuel dst dit k) /\
  iter_index dst (skip_ordered multi fuel dst dit k) = ord_index (contents dst) k.
Proof.
  intros W. induction fuel; intros dit N H F; [lia|]. cbn [skip_ordered].
  assert (Fp : Forall (fun x => negb (key_ordered x k) = false) (firstn (iter_index dst dit) (contents dst))).
  { eapply Forall_impl; [|exact F]. intros x Hx. cbv beta in *. rewrite Hx. reflexivity. }
  assert (Hd : (iter_index dst dit <= length (contents dst))%nat).
  { destruct N as [V [Hi|Hi]]; [destruct (item_index maxCap Hmc dst dit W V Hi); lia | rewrite Hi, (index_end maxCap) by exact W; lia]. }
  unfold ord_index. rewrite (ft_prefix_false _ _ _ Hd Fp).
  destruct (iter_eqb dit (end_iter dst)) eqn:E.
  - apply (is_end_iff maxCap Hmc dst dit W N) in E. rewrite E, skipn_all. simpl. split; [exact N | lia].
  - assert (Hi : titem dst dit).
    { destruct N as [_ [Hi|Hi]]; auto. subst dit. assert (iter_eqb (end_iter dst) (end_iter dst) = true) by (apply iter_eqb_eq; reflexivity). congruence. }
    destruct (item_index maxCap Hmc dst dit W (proj1 N) Hi) as (Hlt & Ed & _).
    rewrite Ed. destruct (nth_error (contents dst) (iter_index dst dit)) as [x|] eqn:Ex; [|apply nth_error_None in Ex; lia].
    rewrite (skipn_head _ _ _ Ex). cbn [first_true].
    destruct (key_ordered x k) eqn:Eo; cbn [negb].
    + destruct (next_spec maxCap Hmc dst dit W (proj1 N) Hi) as [Nn In].
      assert (F' : Forall (fun y => key_ordered y k = true) (firstn (iter_index dst (next dst dit)) (contents dst))).
      { rewrite In, firstn_S_nth by lia. apply Forall_app. split; auto. rewrite (nth_error_nth' _ _ _ 0 Ex). constructor; auto. }
      destruct (IHfuel (next dst dit) Nn ltac:(lia) F') as [A B]. split; auto.
      rewrite B. unfold ord_index.
      assert (Fp' : Forall (fun y => negb (key_ordered y k) = false) (firstn (iter_index dst (next dst dit)) (contents dst))).
      { eapply Forall_impl; [|exact F']. intros y Hy. cbv beta in *. rewrite Hy. reflexivity. }
      rewrite (ft_prefix_false _ _ (iter_index dst (next dst dit))) by (auto; lia). rewrite In. lia.
    + split; [exact N | lia].
Qed.

(* ---------- list level: where the linear merge inserts is where spec_insert inserts ---------- *)
Lemma Forall_firstn_nth (Q : Z -> Prop) l n i : Forall Q (firstn n l) -> (i < n)%nat -> (i < length l)%nat -> Q (nth i l 0).
Proof.
  intros F H1 H2. rewrite Forall_forall in F. apply F.
  rewrite <- (firstn_skipn n l) at 1. rewrite app_nth1 by (rewrite firstn_length; lia).
  apply nth_In. rewrite firstn_length. lia.
Qed.
Lemma Forall_skipn_nth (Q : Z -> Prop) l n i : Forall Q (skipn n l) -> (n <= i)%nat -> (i < length l)%nat -> Q (nth i l 0).
Proof.
  intros F H1 H2. rewrite Forall_forall in F. apply F.
  rewrite <- (firstn_skipn n l) at 1. rewrite app_nth2 by (rewrite firstn_length; lia).
  rewrite firstn_length_le by lia. apply nth_In. rewrite skipn_length. lia.
Qed.

Lemma spec_insert_ord l k :
  sorted l ->
  spec_insert l k =
    if multi || (match nth_error l (ord_index l k) with Some x => k <? x | None => true end)
    then (insert_at (ord_index l k) k l, ord_index l k, true)
    else (l, (ub_index l k - 1)%nat, false).
Proof.
  intros Srt. unfold BTreeHist.spec_insert. destruct multi eqn:Em.
  - rewrite (ord_index_multi l k Em). reflexivity.
  - rewrite (ord_index_unique l k Em). cbn [orb].
    pose proof (sorted_le multi l) as SL. rewrite Em in SL. specialize (SL Srt).
    destruct (lb_index_char l k SL) as [A1 A2]. destruct (ub_index_char l k SL) as [B1 B2].
    assert (Hle : (lb_index l k <= ub_index l k)%nat).
    { unfold lb_index, ub_index. apply ft_le_impl'. intros x Hx. apply Z.ltb_lt in Hx. apply negb_true_iff, Z.ltb_ge. lia. }
    pose proof (ub_index_le l k) as Hu.
    set (p := lb_index l k) in *. set (u := ub_index l k) in *.
    destruct (nth_error l p) as [x|] eqn:Ex.
    + pose proof (nth_error_lt _ _ _ Ex) as Hp. pose proof (nth_error_nth' _ _ _ 0 Ex) as Nx.
      pose proof (Forall_skipn_nth _ l p p A2 (le_n _) Hp) as Hx. rewrite Nx in Hx. cbv beta in Hx.
      destruct (k <? x) eqn:Ek.
      * apply Z.ltb_lt in Ek.
        assert (u = p).
        { destruct (Nat.eq_dec u p); auto. exfalso.
          pose proof (Forall_firstn_nth _ l u p B1 ltac:(lia) Hp) as C. rewrite Nx in C. cbv beta in C. lia. }
        subst u. unfold has_eq. fold p. replace (ub_index l k) with p by auto.
        destruct p as [|p'] eqn:Ep; [reflexivity|].
        pose proof (Forall_firstn_nth _ l (S p') p' A1 ltac:(lia) ltac:(lia)) as C. cbv beta in C.
        replace (nth p' l 0 <? k) with true by (symmetry; apply Z.ltb_lt; exact C). reflexivity.
      * apply Z.ltb_ge in Ek. assert (Exk : x = k) by lia. rewrite Exk in Nx.
        assert (Hup : (p < u)%nat).
        { destruct (le_lt_dec u p); auto. exfalso.
          pose proof (Forall_skipn_nth _ l u p B2 l0 Hp) as C. rewrite Nx in C. cbv beta in C. lia. }
        unfold has_eq. fold u. destruct u as [|i] eqn:Eu; [lia|].
        pose proof (Forall_skipn_nth _ l p i A2 ltac:(lia) ltac:(lia)) as C. cbv beta in C.
        replace (nth i l 0 <? k) with false by (symmetry; apply Z.ltb_ge; lia). reflexivity.
    + apply nth_error_None in Ex.
      assert (u = p) by lia. unfold has_eq. fold u. rewrite H.
      destruct p as [|p'] eqn:Ep; [reflexivity|].
      pose proof (Forall_firstn_nth _ l (S p') p' A1 ltac:(lia) ltac:(lia)) as C. cbv beta in C.
      replace (nth p' l 0 <? k) with true by (symmetry; apply Z.ltb_lt; exact C). reflexivity.
Qed.

Lemma ord_index_char l k : sorted l -> Forall (fun x => R multi x k) (firstn (ord_index l k) l).
Proof.
  intros S. pose proof (sorted_le multi l S) as SL. unfold R. destruct multi eqn:Em.
  - rewrite (ord_index_multi l k Em). apply ub_index_char. exact SL.
  - rewrite (ord_index_unique l k Em). apply lb_index_char. exact SL.
Qed.

Lemma key_ordered_R x k : key_ordered x k = true <-> R multi x k.
Proof. apply (ord_R maxCap multi Hmc). Qed.

Lemma src_next_R l i k k' : sorted l -> nth_error l i = Some k -> nth_error l (S i) = Some k' -> R multi k k'.
Proof.
  intros S E E'. apply (sorted_R maxCap multi Hmc) in S.
  destruct (after_head_R maxCap multi Hmc l i S (nth_error_lt _ _ _ E)) as [_ F].
  rewrite (skipn_head _ _ _ E') in F. inversion F; subst. rewrite (nth_error_nth' _ _ _ 0 E) in H1. exact H1.
Qed.

Notation merge_linear := (BTreeModel.merge_linear maxCap stepRaw blockCount multi).

Lemma merge_linear_spec : forall fuel src dst it dit,
  twf src -> twf dst -> sorted (contents src) -> sorted (contents dst) -> norm src it -> norm dst dit ->
  (length (contents src) - iter_index src it < fuel)%nat ->
  (forall k, nth_error (contents src) (iter_index src it) = Some k ->
     Forall (fun x => R multi x k) (firstn (iter_index dst dit) (contents dst))) ->
  let res := merge_linear fuel src dst it dit in
  let sp := spec_merge (skipn (iter_index src it) (contents src)) (contents dst) in
  twf (fst res) /\ twf (snd res) /\ sorted (contents (snd res)) /\
  contents (fst res) = firstn (iter_index src it) (contents src) ++ fst sp /\
  contents (snd res) = snd sp.
Proof.
  induction fuel; intros src dst it dit Ws Wd Ss Sd N Nd H Inv; [lia|]. cbn [BTreeModel.merge_linear].
  destruct (iter_eqb it (end_iter src)) eqn:E.
  - apply (is_end_iff maxCap Hmc src it Ws N) in E. cbv zeta. rewrite E, skipn_all, firstn_all. cbn [BTreeHist2.spec_merge fst snd].
    rewrite app_nil_r. auto.
  - assert (Hi : titem src it).
    { destruct N as [_ [Hi|Hi]]; auto. subst it. assert (iter_eqb (end_iter src) (end_iter src) = true) by (apply iter_eqb_eq; reflexivity). congruence. }
    destruct (item_index maxCap Hmc src it Ws (proj1 N) Hi) as (Hlt & Ed & _).
    rewrite Ed. destruct (nth_error (contents src) (iter_index src it)) as [k|] eqn:Ex; [|apply nth_error_None in Ex; lia].
    cbv zeta. rewrite (skipn_head _ _ _ Ex). cbn [BTreeHist2.spec_merge].
    (* the skip loop *)
    assert (F0 : Forall (fun x => key_ordered x k = true) (firstn (iter_index dst dit) (contents dst))).
    { eapply Forall_impl; [|exact (Inv k eq_refl)]. intros x Hx. apply key_ordered_R. exact Hx. }
    assert (Hdi : (iter_index dst dit <= length (contents dst))%nat).
    { destruct Nd as [V [Hd|Hd]]; [destruct (item_index maxCap Hmc dst dit Wd V Hd); lia | rewrite Hd, (index_end maxCap) by exact Wd; lia]. }
    destruct (skip_ordered_spec dst k Wd (S (length (contents dst))) dit Nd ltac:(lia) F0) as [N1 I1].
    set (dit1 := skip_ordered multi (S (length (contents dst))) dst dit k) in *.
    rewrite (is_greater_spec maxCap Hmc dst dit1 k Wd N1), I1.
    rewrite (spec_insert_ord (contents dst) k Sd).
    pose proof (ord_index_char (contents dst) k Sd) as Fp.
    set (p := ord_index (contents dst) k) in *.
    (* what the next source key looks like *)
    assert (NextInv : forall dl' q, firstn q dl' = firstn p (contents dst) ++ [k] ->
              forall k', nth_error (contents src) (S (iter_index src it)) = Some k' -> Forall (fun x => R multi x k') (firstn q dl')).
    { intros dl' q Eq k' Ek'. rewrite Eq. pose proof (src_next_R _ _ _ _ Ss Ex Ek') as Rk.
      apply Forall_app. split; [|constructor; auto].
      eapply Forall_impl; [|exact Fp]. intros x Hx. cbv beta in Hx. exact (R_trans maxCap multi Hmc _ _ _ Hx Rk). }
    destruct (multi || match nth_error (contents dst) p with Some x => k <? x | None => true end) eqn:Eg.
    + (* the item is transferred: pvAdd at dit1, pvExtract from the source *)
      pose proof (add_spec maxCap stepRaw blockCount Hmc dst dit1 k Wd (proj1 N1)) as A.
      destruct (add maxCap stepRaw blockCount dst dit1 k) as [dst' pos]. destruct A as (Wd' & Cd' & Vp & Hp & _ & Ip).
      rewrite I1 in Cd', Ip. assert (Ecd : contents dst' = insert_at p k (contents dst)) by exact Cd'.
      pose proof (remove_refines maxCap Hmc src it Ws (proj1 N) Hi) as Rm.
      destruct (remove src it) as [src' it']. destruct Rm as (Ws' & Cs' & N' & I').
      assert (Hl : length (contents src') = (length (contents src) - 1)%nat).
      { rewrite Cs'. unfold remove_at. rewrite app_length, firstn_length_le, skipn_length by lia. lia. }
      destruct (next_spec maxCap Hmc dst' pos Wd' Vp Hp) as [Nn In]. rewrite Ip in In.
      assert (Sd' : sorted (contents dst')).
      { pose proof (spec_insert_sorted multi (contents dst) k Sd) as Q. rewrite (spec_insert_ord (contents dst) k Sd) in Q.
        fold p in Q. rewrite Eg in Q. cbn [fst] in Q. rewrite Ecd. exact Q. }
      assert (Ss' : sorted (contents src')) by (rewrite Cs'; apply (remove_sorted maxCap multi Hmc); exact Ss).
      assert (Hp' : (p <= length (contents dst))%nat) by apply ft_le.
      assert (Inv' : forall k0, nth_error (contents src') (iter_index src' it') = Some k0 ->
                 Forall (fun x => R multi x k0) (firstn (iter_index dst' (next dst' pos)) (contents dst'))).
      { intros k0 Ek0. rewrite I', Cs' in Ek0. unfold remove_at in Ek0.
        rewrite nth_error_app2 in Ek0 by (rewrite firstn_length; lia). rewrite firstn_length_le, Nat.sub_diag in Ek0 by lia.
        assert (Ek1 : nth_error (contents src) (S (iter_index src it)) = Some k0).
        { rewrite nth_error_skipn', Nat.add_0_r in Ek0. exact Ek0. }
        apply (NextInv (contents dst') _); auto. rewrite In, Ecd. unfold insert_at.
        replace (S p) with (p + 1)%nat by lia.
        rewrite <- (firstn_length_le (contents dst) Hp') at 1. rewrite firstn_app_2. reflexivity. }
      destruct (IHfuel src' dst' it' (next dst' pos) Ws' Wd' Ss' Sd' N' Nn ltac:(lia) Inv') as (A & B & C & D & F). cbv zeta in *.
      rewrite I', Cs', Ecd in D, F.
      rewrite (firstn_remove_at' maxCap Hmc) in D by lia. rewrite (skipn_remove_at maxCap Hmc) in D, F by lia.
      destruct (spec_merge (skipn (S (iter_index src it)) (contents src)) (insert_at p k (contents dst))) as [rest dl2]. cbn [fst snd] in *. auto.
    + (* unique keys and an equivalent destination item: the source item stays *)
      apply orb_false_iff in Eg. destruct Eg as [Em Eg].
      destruct (nth_error (contents dst) p) as [x|] eqn:Exd; [|discriminate].
      assert (Hi1 : titem dst dit1).
      { destruct N1 as [_ [Hd|Hd]]; auto. exfalso. rewrite Hd, (index_end maxCap) in I1 by exact Wd.
        apply nth_error_lt in Exd. fold p in I1. lia. }
      destruct (next_spec maxCap Hmc dst dit1 Wd (proj1 N1) Hi1) as [Nn1 In1]. rewrite I1 in In1. fold p in In1.
      destruct (next_spec maxCap Hmc src it Ws (proj1 N) Hi) as [Nn In].
      assert (Exk : x = k).
      { apply Z.ltb_ge in Eg. pose proof (sorted_le multi _ Sd) as SL.
        assert (Ep : p = lb_index (contents dst) k) by (apply ord_index_unique; exact Em).
        destruct (lb_index_char (contents dst) k SL) as [_ A2]. rewrite <- Ep in A2.
        pose proof (Forall_skipn_nth _ _ _ _ A2 (le_n _) (nth_error_lt _ _ _ Exd)) as C. cbv beta in C.
        rewrite (nth_error_nth' _ _ _ 0 Exd) in C. lia. }
      assert (Inv' : forall k0, nth_error (contents src) (iter_index src (next src it)) = Some k0 ->
                 Forall (fun y => R multi y k0) (firstn (iter_index dst (next dst dit1)) (contents dst))).
      { intros k0 Ek0. rewrite In in Ek0. apply (NextInv (contents dst) _); auto. rewrite In1.
        rewrite firstn_S_nth by (eapply nth_error_lt; eauto). rewrite (nth_error_nth' _ _ _ 0 Exd), Exk. reflexivity. }
      destruct (IHfuel src dst (next src it) (next dst dit1) Ws Wd Ss Sd Nn Nn1 ltac:(lia) Inv') as (A & B & C & D & F). cbv zeta in *.
      rewrite In in D, F.
      destruct (spec_merge (skipn (S (iter_index src it)) (contents src)) (contents dst)) as [rest dl2]. cbn [fst snd] in *.
      split; [exact A|]. split; [exact B|]. split; [exact C|]. split; [|exact F].
      rewrite D. rewrite firstn_S_nth by lia. rewrite (nth_error_nth' _ _ _ 0 Ex), <- app_assoc. reflexivity.
Qed.

(* ---------- list level: merging ordered blocks is concatenation ---------- *)
Lemma spec_insert_mid pre post k :
  Forall (fun x => R multi x k) pre -> Forall (fun y => k < y) post ->
  spec_insert (pre ++ post) k = (pre ++ k :: post, length pre, true).
Proof.
  intros Fa Fb. unfold BTreeHist.spec_insert.
  assert (Eu : ub_index (pre ++ post) k = length pre).
  { unfold ub_index. rewrite ft_app.
    assert (Fa' : Forall (fun x => (k <? x) = false) pre).
    { eapply Forall_impl; [|exact Fa]. intros x Hx. unfold R in Hx. apply Z.ltb_ge. destruct multi; lia. }
    rewrite (ft_all_false (fun x => k <? x) _ Fa'), Nat.ltb_irrefl.
    assert (Fb' : Forall (fun x => (k <? x) = true) post).
    { eapply Forall_impl; [|exact Fb]. intros x Hx. apply Z.ltb_lt. exact Hx. }
    rewrite (ft_all_true (fun x => k <? x) _ Fb'). lia. }
  rewrite Eu.
  assert (Eh : multi || negb (has_eq (pre ++ post) k) = true).
  { destruct multi eqn:Em; [reflexivity|]. cbn [orb]. unfold has_eq. rewrite Eu.
    destruct (length pre) as [|i] eqn:El; [reflexivity|].
    rewrite app_nth1 by lia. pose proof (Forall_firstn_nth (fun x => R false x k) pre (S i) i) as C.
    rewrite firstn_all2 in C by lia. specialize (C Fa ltac:(lia) ltac:(lia)). unfold R in C.
    replace (nth i pre 0 <? k) with true by (symmetry; apply Z.ltb_lt; exact C). reflexivity. }
  rewrite Eh. unfold insert_at. rewrite firstn_app, firstn_all, Nat.sub_diag, skipn_app, skipn_all, Nat.sub_diag. simpl.
  rewrite app_nil_r. reflexivity.
Qed.

(* source entirely after the destination (dst ++ src ordered): append *)
Lemma spec_merge_append sl : forall dl,
  StronglySorted (R multi) (dl ++ sl) -> spec_merge sl dl = ([], dl ++ sl).
Proof.
  induction sl as [|k sl IH]; intros dl S; cbn [BTreeHist2.spec_merge]; [rewrite app_nil_r; reflexivity|].
  pose proof (ss_app_inv _ _ S) as (_ & _ & F).
  assert (Fa : Forall (fun x => R multi x k) dl).
  { eapply Forall_impl; [|exact F]. intros x Hx. inversion Hx; subst. assumption. }
  pose proof (spec_insert_mid dl [] k Fa (Forall_nil _)) as E. rewrite app_nil_r in E. rewrite E.
  replace (dl ++ k :: sl) with ((dl ++ [k]) ++ sl) in * by (rewrite <- app_assoc; reflexivity).
  rewrite (IH _ S). reflexivity.
Qed.

(* source entirely and strictly before the destination: prepend (processed left to right behind a growing prefix) *)
Lemma spec_merge_prepend sl : forall pre dl,
  StronglySorted (R multi) (pre ++ sl) -> Forall (fun x => Forall (fun y => x < y) dl) sl ->
  spec_merge sl (pre ++ dl) = ([], pre ++ sl ++ dl).
Proof.
  induction sl as [|k sl IH]; intros pre dl S F; cbn [BTreeHist2.spec_merge]; [reflexivity|].
  pose proof (ss_app_inv _ _ S) as (_ & _ & Fc). inversion F; subst.
  assert (Fa : Forall (fun x => R multi x k) pre).
  { eapply Forall_impl; [|exact Fc]. intros x Hx. inversion Hx; subst. assumption. }
  rewrite (spec_insert_mid pre dl k Fa H1).
  replace (pre ++ k :: dl) with ((pre ++ [k]) ++ dl) by (rewrite <- app_assoc; reflexivity).
  replace (pre ++ k :: sl) with ((pre ++ [k]) ++ sl) in S by (rewrite <- app_assoc; reflexivity).
  rewrite (IH _ dl S H2), <- !app_assoc. reflexivity.
Qed.

(* ---------- MergeTo: whichever of the modelled paths is taken, the result is the stable merge ---------- *)
Theorem merge_linear_refines src dst :
  twf src -> twf dst -> sorted (contents src) -> sorted (contents dst) ->
  let res := merge_linear (S (length (contents src) + length (contents dst))) src dst (begin_iter src) (begin_iter dst) in
  twf (fst res) /\ twf (snd res) /\ sorted (contents (snd res)) /\
  (contents (fst res), contents (snd res)) = spec_merge (contents src) (contents dst).
Proof.
  intros Ws Wd Ss Sd. destruct (begin_spec maxCap Hmc src Ws) as [N I]. destruct (begin_spec maxCap Hmc dst Wd) as [Nd Id].
  destruct (merge_linear_spec (S (length (contents src) + length (contents dst))) src dst _ _ Ws Wd Ss Sd N Nd ltac:(lia)) as (A & B & C & D & F).
  { intros k _. rewrite Id. constructor. }
  cbv zeta in *. rewrite I in D, F. cbn [firstn skipn app] in D, F. repeat split; auto. rewrite D, F.
  destruct (spec_merge (contents src) (contents dst)); reflexivity.
Qed.

Definition fast_test (src dst : tree) : bool :=
  BTreeModel.key_ordered multi (last (contents dst) 0) (hd 0 (contents src)) || (last (contents src) 0 <? hd 0 (contents dst)).

(* path selection is irrelevant: outside the concatenation fast path, MergeTo = stable merge whichever of the generic
   and the linear path the size test picks (and for an empty source / empty destination) *)
Theorem merge_to_refines src dst src' dst' :
  twf src -> twf dst -> sorted (contents src) -> sorted (contents dst) ->
  (cnt src <> 0 -> cnt dst <> 0 -> fast_test src dst = false)%nat ->
  merge_to maxCap stepRaw blockCount linear multi src dst = Some (src', dst') ->
  twf src' /\ twf dst' /\ sorted (contents dst') /\
  (contents src', contents dst') = spec_merge (contents src) (contents dst).
Proof.
  intros Ws Wd Ss Sd Hnf. unfold merge_to.
  pose proof (count_is_length maxCap Hmc src Ws) as Cs. pose proof (count_is_length maxCap Hmc dst Wd) as Cd.
  destruct (cnt src =? 0)%nat eqn:E0.
  - apply Nat.eqb_eq in E0. intros M; inversion M; subst. rewrite E0 in Cs.
    destruct (contents src'); [|discriminate]. cbn [BTreeHist2.spec_merge]. auto.
  - destruct (cnt dst =? 0)%nat eqn:E1.
    + apply Nat.eqb_eq in E1. intros M; inversion M; subst. rewrite E1 in Cd.
      assert (Ed : contents dst = []) by (destruct (contents dst); [reflexivity | discriminate]).
      assert (T1 : {| root := root dst; cnt := cnt dst |} = dst) by (destruct dst; reflexivity).
      assert (T2 : {| root := root src; cnt := cnt src |} = src) by (destruct src; reflexivity).
      rewrite T1, T2, Ed. repeat split; auto.
      pose proof (spec_merge_append (contents src) []) as SA. cbn [app] in SA.
      rewrite SA by (apply (sorted_R maxCap multi Hmc); exact Ss). reflexivity.
    + apply Nat.eqb_neq in E0, E1. specialize (Hnf E0 E1). unfold fast_test in Hnf. apply orb_false_iff in Hnf. destruct Hnf as [F1 F2].
      rewrite F1, F2.
      destruct (cnt src * Nat.log2 (cnt src + cnt dst) <? cnt src + cnt dst)%nat.
      * rewrite Cs. pose proof (merge_generic_refines maxCap stepRaw blockCount linear multi Hmc src dst Ws Wd Sd) as G.
        cbv zeta in G.
        remember (BTreeModel.merge_generic maxCap stepRaw blockCount linear multi (S (length (contents src))) src dst (begin_iter src)) as res.
        intros M. assert (M1 : res = (src', dst')) by congruence. rewrite M1 in G. cbn [fst snd] in G. exact G.
      * rewrite Cs, Cd. pose proof (merge_linear_refines src dst Ws Wd Ss Sd) as G.
        cbv zeta in G.
        remember (merge_linear (S (length (contents src) + length (contents dst))) src dst (begin_iter src) (begin_iter dst)) as res.
        intros M. assert (M1 : res = (src', dst')) by congruence. rewrite M1 in G. cbn [fst snd] in G. exact G.
Qed.

(* ---------- two containers: Swap, move and copy next to the single-container alphabet ---------- *)
Notation step1 := (BTreeHist2.step maxCap stepRaw blockCount linear multi).
Notation spec1 := (BTreeHist2.spec_step multi).

Inductive op2 :=
| OnA (o : BTreeHist2.op) | OnB (o : BTreeHist2.op)
| OSwap                       (* a.Swap(b) *)
| OMoveAB                     (* a = std::move(b): b is left empty (null root) *)
| OCopyAB.                    (* a = b: copy construction (pvCopy) + swap *)

Definition step2 (st : tree * tree) (o : op2) : tree * tree :=
  let '(a, b) := st in
  match o with
  | OnA o => (step1 a o, b)
  | OnB o => (a, step1 b o)
  | OSwap => (b, a)
  | OMoveAB => (b, empty_tree)
  | OCopyAB => (copy_tree maxCap stepRaw blockCount b, b)
  end.

Definition spec_step2 (st : list Z * list Z) (o : op2) : list Z * list Z :=
  let '(la, lb) := st in
  match o with
  | OnA o => (spec1 la o, lb)
  | OnB o => (la, spec1 lb o)
  | OSwap => (lb, la)
  | OMoveAB => (lb, [])
  | OCopyAB => (lb, lb)
  end.

Definition ok2 (st : tree * tree) : Prop :=
  twf (fst st) /\ twf (snd st) /\ sorted (contents (fst st)) /\ sorted (contents (snd st)) /\
  cnt (fst st) = length (contents (fst st)) /\ cnt (snd st) = length (contents (snd st)).

Lemma ok2_intro a b : twf a -> twf b -> sorted (contents a) -> sorted (contents b) -> ok2 (a, b).
Proof. intros Wa Wb Sa Sb. unfold ok2. cbn [fst snd]. repeat split; auto; apply (count_is_length maxCap Hmc); auto. Qed.

Lemma step2_refines st o :
  ok2 st -> ok2 (step2 st o) /\
  (contents (fst (step2 st o)), contents (snd (step2 st o))) = spec_step2 (contents (fst st), contents (snd st)) o.
Proof.
  destruct st as [a b]. intros (Wa & Wb & Sa & Sb & _ & _). cbn [fst snd] in *.
  destruct o as [o|o| | |]; cbn [step2 spec_step2 fst snd].
  - destruct (BTreeHist2.step_refines maxCap stepRaw blockCount linear multi Hmc a o Wa Sa) as (W' & S' & E' & _).
    rewrite E'. split; [apply ok2_intro; auto | reflexivity].
  - destruct (BTreeHist2.step_refines maxCap stepRaw blockCount linear multi Hmc b o Wb Sb) as (W' & S' & E' & _).
    rewrite E'. split; [apply ok2_intro; auto | reflexivity].
  - split; [apply ok2_intro; auto | reflexivity].
  - split; [apply ok2_intro; auto | reflexivity].
    + unfold BTreeTop.twf, empty_tree. reflexivity.
    + unfold BTreeHist.sorted, contents, empty_tree. cbn. destruct multi; constructor.
  - destruct (copy_tree_spec maxCap stepRaw blockCount Hmc b Wb) as [Wc Ec]. rewrite Ec.
    split; [apply ok2_intro; auto; rewrite Ec; auto | reflexivity].
Qed.

Theorem history2_refines ops :
  let st := fold_left step2 ops (empty_tree, empty_tree) in
  ok2 st /\ (contents (fst st), contents (snd st)) = fold_left spec_step2 ops ([], []).
Proof.
  assert (G : forall ops st l, ok2 st -> (contents (fst st), contents (snd st)) = l ->
    ok2 (fold_left step2 ops st) /\
    (contents (fst (fold_left step2 ops st)), contents (snd (fold_left step2 ops st))) = fold_left spec_step2 ops l).
  { induction ops0 as [|o ops0 IH]; intros st l K E; simpl; [subst; auto|].
    destruct (step2_refines st o K) as (K' & E'). apply IH; auto. rewrite E', E. reflexivity. }
  apply G; auto. apply ok2_intro.
  - unfold BTreeTop.twf, empty_tree. reflexivity.
  - unfold BTreeTop.twf, empty_tree. reflexivity.
  - unfold BTreeHist.sorted, contents, empty_tree. cbn. destruct multi; constructor.
  - unfold BTreeHist.sorted, contents, empty_tree. cbn. destruct multi; constructor.
Qed.

End Merge.
