(* C16 model driver: same case format / output format as harness.cpp (index arithmetic cases; hist = L1 model). *)
open Zutil
let four_sq l i =
  let (s, j) = Gen_SegSqrt.coq_GetSegItemIndexes l i in
  Printf.sprintf "%s %s %s %s" (string_of_z s) (string_of_z j)
    (string_of_z (Gen_SegSqrt.coq_GetIndex l s j)) (string_of_z (Gen_SegSqrt.coq_GetItemCount l s))
let four_cn l i =
  let (s, j) = Gen_SegCnst.coq_GetSegItemIndexes l i in
  Printf.sprintf "%s %s %s %s" (string_of_z s) (string_of_z j)
    (string_of_z (Gen_SegCnst.coq_GetIndex l s j)) (string_of_z (Gen_SegCnst.coq_GetItemCount l))
let range four l lo n =
  let b = Buffer.create 4096 in
  let lo = Z.of_string lo and n = int_of_string n in
  for k = 0 to n - 1 do
    Buffer.add_string b (four l (z_of_zarith (Z.add lo (Z.of_int k)))); Buffer.add_char b ';'
  done; Buffer.contents b
let () = iter_lines (fun line ->
  match words line with
  | ["lg64"; v] -> print_endline (string_of_z (Gen_Log2_64.coq_Log2 (z_of_string v)))
  | ["lg32"; v] -> print_endline (string_of_z (Gen_Log2_32.coq_Log2 (z_of_string v)))
  | ["sq"; l; i] -> print_endline (four_sq (z_of_string l) (z_of_string i))
  | ["cn"; l; i] -> print_endline (four_cn (z_of_string l) (z_of_string i))
  | ["sqs"; l; i] ->
    let (s, j) = Gen_SegSqrt.coq_GetSegItemIndexes (z_of_string l) (z_of_string i) in
    Printf.printf "%s %s\n" (string_of_z s) (string_of_z j)
  | ["sqr"; l; lo; n] -> print_endline (range four_sq (z_of_string l) lo n)
  | ["cnr"; l; lo; n] -> print_endline (range four_cn (z_of_string l) lo n)
  | ["sqx"; l; s; j] ->
    let l = z_of_string l in
    let i = Gen_SegSqrt.coq_GetIndex l (z_of_string s) (z_of_string j) in
    let (s2, j2) = Gen_SegSqrt.coq_GetSegItemIndexes l i in
    Printf.printf "%s %s %s\n" (string_of_z i) (string_of_z s2) (string_of_z j2)
  | ["cnx"; l; s; j] ->
    let l = z_of_string l in
    let i = Gen_SegCnst.coq_GetIndex l (z_of_string s) (z_of_string j) in
    let (s2, j2) = Gen_SegCnst.coq_GetSegItemIndexes l i in
    Printf.printf "%s %s %s\n" (string_of_z i) (string_of_z s2) (string_of_z j2)
  | _ -> print_endline "?")
