(* COPIED from props/C12/coq (only change: the library name); C11 uses these LimP4 bucket facts for GenFullP4.v *)
(* C12, grow round 2: the REAL BucketLimP4::AddCrt (all five branches: pvAdd0<min>, pvAdd0<max>, pvAdd<1..3>, spare memory),
   pvGetMemPoolIndex, pvSetPtrState and WasFull are now generated (Gen_P4A, the pointer state modelled as the two scalars
   mPtrState_ptr / mPtrState_state).  Refinement: the generated AddCrt does to mShortHashes exactly what the hand
   composition P4_Model.p4_add does, and to the memory-pool index exactly what TableP4's hand bookkeeping does. *)
From Coq Require Import ZArith Bool List Lia.
From MomoCommon Require Import GenPrelude.
From C11 Require Import Gen_P4 Gen_P4A P4_Model.
Local Open Scope Z_scope.

Lemma p4a_same_leaves H s ptr stt :
  Gen_P4A.pvGetCount s ptr stt = Gen_P4.pvGetCount s /\
  (forall x, Gen_P4A.pvCalcShortHash x = Gen_P4.pvCalcShortHash x) /\
  (forall i x L p, Gen_P4A.pvSetHashProbe H s ptr stt i x L p = Gen_P4.pvSetHashProbe H s i x L p) /\
  Gen_P4A.IsFull s ptr stt = Gen_P4.IsFull s.
Proof. repeat split; reflexivity. Qed.

(* memory-pool index = pointer state + 1; WasFull = (index = maxCount) *)
Lemma p4a_mpi s ptr stt : 0 <= stt < 4 -> Gen_P4A.pvGetMemPoolIndex s ptr stt = stt + 1.
Proof. intros. unfold Gen_P4A.pvGetMemPoolIndex, Gen_P4A.useHashCodePartGetter. apply wrapU_small. change (2 ^ 64) with 18446744073709551616. lia. Qed.

Lemma p4a_wasfull s ptr stt : 0 <= stt < 4 -> Gen_P4A.WasFull s ptr stt = (stt + 1 =? 4).
Proof. intros. unfold Gen_P4A.WasFull. rewrite p4a_mpi by assumption. reflexivity. Qed.

Lemma p4a_setptr s ptr stt items mpi : 1 <= mpi <= 4 ->
  Gen_P4A.pvSetPtrState s ptr stt items mpi = (s, items, mpi - 1).
Proof.
  intros. unfold Gen_P4A.pvSetPtrState, Gen_P4A.useHashCodePartGetter. cbn [negb andb].
  rewrite (wrapU_small 8 mpi) by (change (2 ^ 8) with 256; lia).
  rewrite !(wrapU_small 8 (mpi - 1)) by (change (2 ^ 8) with 256; lia). reflexivity.
Qed.

(* the refinement theorem.  Bucket-state preconditions are those of the class invariant: the pointer is null iff the bucket is
   empty; count <= memPoolIndex <= 4; an empty bucket has memPoolIndex minMemPoolIndex or maxCount. *)
Theorem p4a_addcrt_refines H mm s ptr stt x L probe m0a m0b m1a m1b m2a m2b m3a m3b m4a m4b :
  0 <= stt < 4 -> mm = 2 ->   (* pvAdd0<minMemPoolIndex> is instantiated for the 8-byte item: minMemPoolIndex = 2 *)
  let c := Gen_P4.pvGetCount s in let mpi := stt + 1 in
  0 <= c < 4 -> c <= mpi -> (ptr = 0 <-> c = 0) -> (c = 0 -> mpi = mm \/ mpi = 4) ->
  exists r s' ptr' stt',
    Gen_P4A.AddCrt H mm s ptr stt x L probe m0a m0b m1a m1b m2a m2b m3a m3b m4a m4b = Ok (r, s', ptr', stt') /\
    p4_add H s x L probe = Ok s' /\
    stt' + 1 = (if c =? 0 then mpi else if c =? mpi then mpi + 1 else mpi) /\ 0 <= stt' < 4 /\
    (ptr' = ptr \/ ptr' = m0a \/ ptr' = m1a \/ ptr' = m2a \/ ptr' = m3a \/ ptr' = m4a).
Proof.
  intros Hst Hmm c mpi Hc Hle Hnull Hempty. subst mm.
  unfold Gen_P4A.AddCrt. rewrite p4a_mpi by assumption. fold mpi.
  destruct (p4a_same_leaves H s ptr stt) as (Ec & Esh & Ehp & _).
  unfold p4_add. fold c. unfold Gen_P4.maxCount, Gen_P4A.maxCount. destruct (Z.ltb_spec c 4); [|lia].
  destruct (Z.eqb_spec ptr 0) as [Hp0|Hp0].
  - (* no memory yet: count = 0 *)
    assert (Hc0 : c = 0) by (apply Hnull; assumption). destruct (Hempty Hc0) as [Em|Em].
    + rewrite Em, Z.eqb_refl. cbn [orb]. rewrite Ehp. unfold Gen_P4A.pvAdd0_min. rewrite Esh, p4a_setptr by lia.
      do 4 eexists. split; [reflexivity|]. rewrite Hc0. split; [reflexivity|]. cbn [Z.eqb]. split; [lia|]. split; [lia|]. right; left; reflexivity.
    + rewrite Em. change (4 =? 2) with false. cbn [orb]. rewrite Z.eqb_refl. rewrite Ehp.
      unfold Gen_P4A.pvAdd0_max. rewrite Esh, p4a_setptr by lia.
      do 4 eexists. split; [reflexivity|]. rewrite Hc0. split; [reflexivity|]. cbn [Z.eqb]. split; [lia|]. split; [lia|]. right; right; left; reflexivity.
  - assert (Hcpos : 0 < c) by (destruct (Z.eq_dec c 0) as [E|]; [exfalso; apply Hp0, Hnull, E|lia]).
    rewrite Ec. fold c. destruct (Z.ltb_spec 0 c); [|lia]. destruct (Z.leb_spec c mpi); [|lia]. cbn [andb].
    destruct (Z.ltb_spec c 4); [|lia].
    destruct (Z.eqb_spec c mpi) as [Ecm|Ecm].
    + (* the allocated block is full: move to the next pool *)
      destruct (Z.eqb_spec c 0); [lia|].
      assert (Hcases : mpi = 1 \/ mpi = 2 \/ mpi = 3) by lia.
      destruct Hcases as [E|[E|E]]; rewrite E in *; cbn [Z.eqb Pos.eqb]; rewrite Ehp.
      * unfold Gen_P4A.pvAdd_1. cbv zeta. rewrite Esh, p4a_setptr by (change (wrapU 64 (1 + 1)) with 2; lia).
        do 4 eexists. split; [reflexivity|]. rewrite Ecm. split; [reflexivity|]. change (wrapU 64 (1 + 1)) with 2.
        split; [lia|]. split; [lia|]. right; right; right; right; right; reflexivity.
      * unfold Gen_P4A.pvAdd_2. cbv zeta. rewrite Esh, p4a_setptr by (change (wrapU 64 (2 + 1)) with 3; lia).
        do 4 eexists. split; [reflexivity|]. rewrite Ecm. split; [reflexivity|]. change (wrapU 64 (2 + 1)) with 3.
        split; [lia|]. split; [lia|]. right; right; right; right; left; reflexivity.
      * unfold Gen_P4A.pvAdd_3. cbv zeta. rewrite Esh, p4a_setptr by (change (wrapU 64 (3 + 1)) with 4; lia).
        do 4 eexists. split; [reflexivity|]. rewrite Ecm. split; [reflexivity|]. change (wrapU 64 (3 + 1)) with 4.
        split; [lia|]. split; [lia|]. right; right; right; left; reflexivity.
    + (* spare memory in the current block *)
      destruct (Z.eqb_spec c 0); [lia|]. rewrite Ehp, Esh, p4a_setptr by lia.
      do 4 eexists. split; [reflexivity|]. split; [reflexivity|]. split; [lia|]. split; [lia|]. left; reflexivity.
Qed.

(* ---- grow round 3: the generated Remove WITH its memory-pool-index update, and Clear ---- *)
Lemma p4a_setempty H s ptr stt mpi : 1 <= mpi <= 4 ->
  Gen_P4A.pvSetEmpty H s ptr stt mpi = (Gen_P4.pvSetEmpty H s mpi, 0, mpi - 1).
Proof. intros. unfold Gen_P4A.pvSetEmpty. rewrite p4a_setptr by assumption. reflexivity. Qed.

(* the generated Remove (pointer state = two scalars, memPoolIndex read from it) does to mShortHashes exactly what the Remove
   all LimP4 theorems are about does, and updates pointer and memory-pool index exactly as TableP4.premove_at's bookkeeping:
   last element: pointer null, index reset to minMemPoolIndex unless it is maxCount; otherwise both unchanged *)
Theorem p4a_remove_refines H mm s ptr stt iter idx : 0 <= stt < 4 -> 1 <= mm <= 4 ->
  let c := Gen_P4.pvGetCount s in let mpi := stt + 1 in
  match Gen_P4.Remove H mm s iter ptr mpi idx with
  | Ok (_, s') =>
      exists r stt', Gen_P4A.Remove H mm s ptr stt iter idx = Ok (r, s', (if c =? 1 then 0 else ptr), stt') /\
        stt' + 1 = (if c =? 1 then (if mpi =? 4 then mpi else mm) else mpi) /\ 0 <= stt' < 4
  | Stuck => Gen_P4A.Remove H mm s ptr stt iter idx = Stuck
  | _ => False
  end.
Proof.
  intros Hst Hmm c mpi. unfold Gen_P4.Remove, Gen_P4A.Remove. rewrite p4a_mpi by assumption. fold mpi.
  destruct (p4a_same_leaves H s ptr stt) as (Ec & _). rewrite Ec. fold c.
  destruct (Z.eqb_spec ptr 0); cbn [negb]; [reflexivity|].
  destruct (Z.eqb_spec c 1).
  - destruct (Z.eqb_spec iter ptr); [|reflexivity].
    unfold Gen_P4.maxCount, Gen_P4A.maxCount.
    destruct (Z.eqb_spec mpi 4) as [E4|E4]; cbn [negb].
    + rewrite p4a_setempty by lia. do 2 eexists. split; [reflexivity|]. split; lia.
    + rewrite p4a_setempty by lia. do 2 eexists. split; [reflexivity|]. split; lia.
  - destruct (Z.ltb_spec idx c); [|reflexivity].
    rewrite p4a_setptr by lia. do 2 eexists. split; [reflexivity|]. split; lia.
Qed.

(* Clear (generated): every metadata byte is the empty marker, the pointer is null, the memory-pool index is reset to
   minMemPoolIndex, so the bucket is empty and WasFull only if minMemPoolIndex = maxCount *)
Theorem p4a_clear_frame H mm s ptr stt : 4 <= H -> 1 <= mm <= 4 ->
  let '(s', ptr', stt') := Gen_P4A.Clear H mm s ptr stt in
  (forall j, 0 <= j < H -> s' j = 255) /\ ptr' = 0 /\ stt' + 1 = mm /\ Gen_P4.pvGetCount s' = 0 /\
  Gen_P4A.WasFull s' ptr' stt' = (mm =? 4).
Proof.
  intros HH Hmm. unfold Gen_P4A.Clear. rewrite p4a_setempty by assumption.
  assert (Hs : forall j, 0 <= j < H -> Gen_P4.pvSetEmpty H s mm j = 255).
  { intros j Hj. unfold Gen_P4.pvSetEmpty, Gen_P4.emptyHashProbe. destruct (Z.leb_spec 0 j), (Z.ltb_spec j H); try lia. reflexivity. }
  split; [exact Hs|]. split; [reflexivity|]. split; [lia|]. split.
  - unfold Gen_P4.pvGetCount, Gen_P4.maskEmpty. rewrite (Hs 1), (Hs 0) by lia. reflexivity.
  - rewrite p4a_wasfull by lia. replace (mm - 1 + 1) with mm by lia. reflexivity.
Qed.
