(* Property C10 -- theorems only.  Each is closed by `exact <lemma>` and followed by Print Assumptions.
   The model (Machine.v, Merge.v, ArrayShift.v) is executable Gallina; its extraction is run against the real
   momo code on every check (props/C10/harness.cpp vs ocaml/driver.ml). *)
From Coq Require Import ZArith List Permutation.
From C10 Require Import Machine Merge MergeProofs ArrayShift ArrayProofs MapModel MapProofs FastMerge FastPtr FastPtrProofs BulkOps HolderRefine RefineOfGen ProtoSyntaxC10 ProtoMergeC10.
From MomoCommon Require GenPrelude.
From C10 Require Gen_Holder Gen_HolderTree Gen_StdInsert Gen_StdInsertU Gen_StdInsertN Gen_MergeTo Gen_TreeSwap Gen_ExtraCheckT Gen_ExtraCheckH Gen_MergeProto.
Notation GOk := GenPrelude.Ok. Notation GStuck := GenPrelude.Stuck. Notation GExn := GenPrelude.Exn.
Import ListNotations.
Local Open Scope Z_scope.

(* HashSet::pvMergeTo (HashSet.h:1302-1313) into a unique- or multi-key destination: for EVERY failure schedule
   (hash / comparison, allocation, copy), every element category, every bucket layout of the source and every
   destination, after ANY number n of loop iterations -- hence also in the state left behind by an exception thrown
   part-way and in the final state -- the items of the source plus the items of the destination are exactly the
   initial items (as multisets): nothing is lost, nothing is duplicated. *)
Theorem C10_merge_conservation_hash :
  forall c multi src dst w n,
    Permutation (src_items (hrun c multi n (hinit src dst w)) ++ s_dst (hrun c multi n (hinit src dst w)))
                (concat src ++ dst).
Proof. exact hmerge_conservation. Qed.
Print Assumptions C10_merge_conservation_hash.

(* a unique-key destination never contains two items with the same key, at every step, for every schedule *)
Theorem C10_merge_unique_nodup_hash :
  forall c src dst w n, NoDup (map key dst) -> NoDup (map key (s_dst (hrun c false n (hinit src dst w)))).
Proof. exact hmerge_unique_nodup. Qed.
Print Assumptions C10_merge_unique_nodup_hash.

(* an element refused by a unique-key destination (its key is already there) stays in the source, at every step *)
Theorem C10_merge_refused_stays_hash :
  forall c src dst w n y, In y (concat src) -> has_key dst (key y) = true ->
    In y (src_items (hrun c false n (hinit src dst w))).
Proof. exact hmerge_refused_stays. Qed.
Print Assumptions C10_merge_refused_stays_hash.

(* no_copy_when_movable: for a category that has a move constructor (NTM, SMH, THM: nothrow_reloc) the event trace
   of the whole merge contains no copy construction and no copy assignment, for every schedule *)
Theorem C10_no_copy_when_movable_hash :
  forall c multi src dst w n, nothrow_reloc c = true -> no_copy (tr w) ->
    no_copy (tr (s_w (hrun c multi n (hinit src dst w)))).
Proof. exact hmerge_no_copy. Qed.
Print Assumptions C10_no_copy_when_movable_hash.

(* ---- TreeSet::pvMergeTo (TreeSet.h:1597-1608): the same four statements, for every schedule and for EVERY tree
   shape (the leaf / internal position of each extracted item is an arbitrary oracle `shape`). *)
Theorem C10_merge_conservation_tree :
  forall c multi src dst w shape n,
    Permutation (tsrc_items (trun c multi n (tinit src dst w shape)) ++ t_dst (trun c multi n (tinit src dst w shape)))
                (src ++ dst).
Proof. exact tmerge_conservation. Qed.
Print Assumptions C10_merge_conservation_tree.

Theorem C10_merge_unique_nodup_tree :
  forall c src dst w shape n, NoDup (map key dst) -> NoDup (map key (t_dst (trun c false n (tinit src dst w shape)))).
Proof. exact tmerge_unique_nodup. Qed.
Print Assumptions C10_merge_unique_nodup_tree.

Theorem C10_merge_refused_stays_tree :
  forall c src dst w shape n y, In y src -> has_key dst (key y) = true ->
    In y (tsrc_items (trun c false n (tinit src dst w shape))).
Proof. exact tmerge_refused_stays. Qed.
Print Assumptions C10_merge_refused_stays_tree.

Theorem C10_no_copy_when_movable_tree :
  forall c multi src dst w shape n, nothrow_reloc c = true -> no_copy (tr w) ->
    no_copy (tr (t_w (trun c multi n (tinit src dst w shape)))).
Proof. exact tmerge_no_copy. Qed.
Print Assumptions C10_no_copy_when_movable_tree.

(* a merge that ran to completion left in the source only items whose key the unique-key destination already
   holds; into a multi-key destination it left nothing *)
Theorem C10_merge_finished_complete_tree :
  forall c multi src dst w shape n,
    t_stat (trun c multi n (tinit src dst w shape)) = Finished ->
    t_rest (trun c multi n (tinit src dst w shape)) = [] /\
    forall y, In y (tsrc_items (trun c multi n (tinit src dst w shape))) ->
      multi = false /\ has_key (t_dst (trun c multi n (tinit src dst w shape))) (key y) = true.
Proof. exact tmerge_finished_complete. Qed.
Print Assumptions C10_merge_finished_complete_tree.

(* non-vacuity of the previous theorem: with no failure scheduled the loop does finish (every category) *)
Theorem C10_merge_without_failure_finishes_tree :
  forall c multi src dst w shape, quiet w -> t_stat (tmerge c multi src dst w shape) = Finished.
Proof. exact tmerge_quiet_finishes. Qed.
Print Assumptions C10_merge_without_failure_finishes_tree.

(* ---- TreeSet::pvMergeToLinear (TreeSet.h:1610-1630) *)
Theorem C10_merge_conservation_linear :
  forall c multi src dst w shape n,
    Permutation (lsrc_items (lrun c multi n (linit src dst w shape)) ++ ldst_items (lrun c multi n (linit src dst w shape)))
                (src ++ dst).
Proof. exact lmerge_conservation. Qed.
Print Assumptions C10_merge_conservation_linear.

Theorem C10_no_copy_when_movable_linear :
  forall c multi src dst w shape n, nothrow_reloc c = true -> no_copy (tr w) ->
    no_copy (tr (l_w (lrun c multi n (linit src dst w shape)))).
Proof. exact lmerge_no_copy. Qed.
Print Assumptions C10_no_copy_when_movable_linear.

(* ---- the extracted-item holder (SetExtractedItem), Set::Remove(iter, extItem) and Set::Insert(ExtractedItem&&) *)
(* extraction, for every schedule: holder (+) bucket is the old bucket; a failed extraction changes nothing *)
Theorem C10_extract_conservation :
  forall c w b i w' b' h ok, (i < length b)%nat -> extract_at c w b i = (w', b', h, ok) ->
    Permutation (holder_items h ++ b') b /\ (ok = false -> b' = b /\ h = None).
Proof. exact extract_at_conservation. Qed.
Print Assumptions C10_extract_conservation.

(* re-insertion, for every schedule: holder (+) destination is conserved; the item leaves the holder only when it
   really was inserted; refused (key present) or failed -> it stays in the holder; unique keys stay unique *)
Theorem C10_insert_handle_conservation :
  forall c multi w dst h w' dst' h' st, insert_holder c multi w dst h = (w', dst', h', st) ->
    Permutation (holder_items h' ++ dst') (holder_items h ++ dst) /\
    (h' = h /\ dst' = dst \/ exists x, h = Some x /\ h' = None /\ dst' = dst ++ [x] /\ st = Finished /\
                                     (multi = false -> has_key dst (key x) = false)) /\
    (multi = false -> NoDup (map key dst) -> NoDup (map key dst')).
Proof. exact insert_holder_conservation. Qed.
Print Assumptions C10_insert_handle_conservation.

Theorem C10_extract_insert_roundtrip :
  forall c w b i, quiet w -> (i < length b)%nat -> NoDup (map key b) ->
    exists w1 b1 x w2 b2,
      extract_at c w b i = (w1, b1, Some x, true) /\ x = nth i b 0 /\
      insert_holder c false w1 b1 (Some x) = (w2, b2, None, Finished) /\ Permutation b2 b /\ quiet w2.
Proof. exact extract_insert_roundtrip. Qed.
Print Assumptions C10_extract_insert_roundtrip.

(* the holder's move constructor never duplicates or loses the item, whether it throws or not *)
Theorem C10_holder_move_conservation :
  forall c w h w' n o, holder_move c w h = (w', n, o) ->
    match n with Some h2 => o = None /\ h2 = h | None => o = h end.
Proof. exact holder_move_conservation. Qed.
Print Assumptions C10_holder_move_conservation.

Theorem C10_no_copy_when_movable_reinsert :
  forall c multi w dst h w' dst' h' st, nothrow_reloc c = true -> no_copy (tr w) ->
    insert_holder c multi w dst h = (w', dst', h', st) -> no_copy (tr w').
Proof. exact holder_no_copy. Qed.
Print Assumptions C10_no_copy_when_movable_reinsert.

(* the relocation mechanisms of ObjectManager themselves: a category with a move constructor is never copied *)
Theorem C10_no_copy_when_movable_mechanisms :
  forall c w x r w' o, nothrow_reloc c = true -> no_copy (tr w) -> extract_reloc c w x r = (w', o) -> no_copy (tr w').
Proof. exact extract_reloc_no_copy. Qed.
Print Assumptions C10_no_copy_when_movable_mechanisms.

(* ---- array_basic: ArrayShifter::InsertNogrow / Remove (ArrayUtility.h:226-287), every category and schedule *)
(* generic: whatever straight-line program of AddBack / Assign / RemoveBack runs, with whatever failures, the array
   stays well formed: count consistent, every slot below count constructed (live or moved-from), every slot at or
   above count raw, capacity unchanged *)
Theorem C10_array_wellformed_after_any_failure :
  forall c p w a w' a' o, wf a -> run c w a p = (w', a', o) -> wf a' /\ length (slots a') = length (slots a).
Proof. exact run_wf. Qed.
Print Assumptions C10_array_wellformed_after_any_failure.

(* positional insert of a range (arrays of ANY size, any number of inserted items, every index; the bounds of both
   branches of InsertNogrow are proved by induction over its loops): never touches a raw slot, well formed after
   success or failure, old count <= count <= old count + inserted *)
Theorem C10_array_basic_insert :
  forall c w vals cap index items w' a' o,
    (index <= length vals)%nat -> (length vals + length items <= cap)%nat ->
    run c w (mk_arr vals cap) (insert_prog (length vals) index items) = (w', a', o) ->
    o <> AStuck /\ wf a' /\ length (slots a') = cap /\
    (length vals <= count a')%nat /\ (count a' <= length vals + length items)%nat /\
    (o = AOk -> count a' = (length vals + length items)%nat).
Proof. exact array_insert_basic. Qed.
Print Assumptions C10_array_basic_insert.

Theorem C10_array_basic_remove :
  forall c w vals cap index cnt w' a' o,
    (index + cnt <= length vals)%nat -> (length vals <= cap)%nat ->
    run c w (mk_arr vals cap) (remove_prog (length vals) index cnt) = (w', a', o) ->
    o <> AStuck /\ wf a' /\ length (slots a') = cap /\
    (o = AOk -> count a' = (length vals - cnt)%nat) /\ (o = AExn -> count a' = length vals).
Proof. exact array_remove_basic. Qed.
Print Assumptions C10_array_basic_remove.

(* ---- later additions *)
(* a HashSet merge that ran to completion left in the source only items whose key the unique-key destination holds *)
Theorem C10_merge_finished_complete_hash :
  forall c multi src dst w n,
    s_stat (hrun c multi n (hinit src dst w)) = Finished ->
    forall y, In y (src_items (hrun c multi n (hinit src dst w))) ->
      multi = false /\ has_key (s_dst (hrun c multi n (hinit src dst w))) (key y) = true.
Proof. exact hmerge_finished_complete. Qed.
Print Assumptions C10_merge_finished_complete_hash.

(* non-vacuity: with no failure scheduled the extracted function `hmerge` (fuel = items + buckets + 1) does finish *)
Theorem C10_merge_without_failure_finishes_hash :
  forall c multi src dst w, quiet w -> s_stat (hmerge c multi src dst w) = Finished.
Proof. exact hmerge_quiet_finishes. Qed.
Print Assumptions C10_merge_without_failure_finishes_hash.

(* pvMergeToLinear relies on both trees being sorted: for strictly key-sorted source and destination a unique-key
   destination stays free of duplicate keys at every step, for every schedule and tree shape *)
Theorem C10_merge_unique_nodup_linear :
  forall c src dst w shape n, ksorted src -> ksorted dst ->
    NoDup (map key (ldst_items (lrun c false n (linit src dst w shape)))).
Proof. exact lmerge_unique_nodup. Qed.
Print Assumptions C10_merge_unique_nodup_linear.

(* ---- pvMergeToLinear, sorted unique inputs: refused items stay, a completed merge leaves only refused items *)
Theorem C10_merge_refused_stays_linear :
  forall c src dst w shape n y, ksorted src -> ksorted dst ->
    In y src -> has_key dst (key y) = true -> In y (lsrc_items (lrun c false n (linit src dst w shape))).
Proof. exact lmerge_refused_stays. Qed.
Print Assumptions C10_merge_refused_stays_linear.

Theorem C10_merge_finished_complete_linear :
  forall c src dst w shape n, ksorted src -> ksorted dst ->
    l_stat (lrun c false n (linit src dst w shape)) = Finished ->
    l_rest (lrun c false n (linit src dst w shape)) = [] /\
    forall y, In y (lsrc_items (lrun c false n (linit src dst w shape))) ->
      has_key (ldst_items (lrun c false n (linit src dst w shape))) (key y) = true.
Proof. exact lmerge_finished_complete. Qed.
Print Assumptions C10_merge_finished_complete_linear.

(* ---- maps: key/value pairs relocated by MapKeyValueTraits (MapUtility.h:215-475), merge loop over pair items.
   pair_safe kc vc = the key type or the value type is nothrow-anyway-assignable: the complement is exactly the
   exception documented in HashMap.h:349-354 item 5 / TreeMap.h. *)
(* under that hypothesis: at every step of a map merge, for every schedule, category pair and partner oracle, the
   key/value PAIRS of source (+) destination are the initial pairs *)
Theorem C10_map_merge_conservation :
  forall kc vc src dst w shape n, pair_safe kc vc ->
    Permutation (pall (prun kc vc n (pinit src dst w shape))) (src ++ dst).
Proof. exact pmerge_conservation. Qed.
Print Assumptions C10_map_merge_conservation.

(* without any hypothesis (also in the documented exception): the KEYS are conserved, every value is one of the initial
   values, and the destination keeps unique keys *)
Theorem C10_map_merge_keys_conserved :
  forall kc vc src dst w shape n,
    Permutation (map fst (pall (prun kc vc n (pinit src dst w shape)))) (map fst (src ++ dst)).
Proof. exact pmerge_keys_conserved. Qed.
Print Assumptions C10_map_merge_keys_conserved.

Theorem C10_map_merge_values_from_initial :
  forall kc vc src dst w shape n p,
    In p (pall (prun kc vc n (pinit src dst w shape))) -> In (snd p) (map snd (src ++ dst)).
Proof. exact pmerge_values_from_initial. Qed.
Print Assumptions C10_map_merge_values_from_initial.

Theorem C10_map_merge_unique_nodup :
  forall kc vc src dst w shape n, NoDup (map pkey dst) -> NoDup (map pkey (p_dst (prun kc vc n (pinit src dst w shape)))).
Proof. exact pmerge_unique_nodup. Qed.
Print Assumptions C10_map_merge_unique_nodup.

(* the documented limitation is REAL (conservation of pairs is refuted when key and value are both copy-only): a concrete
   schedule -- the key assignment inside pvReplaceUnsafe throws -- after which value 22 is lost and value 11 duplicated;
   the same happens in the real code (tie cases `pm CPY CPY reprel 3 ..`, `px CPY CPY copy ..`, oracle map_* CPY). *)
Theorem C10_map_merge_conservation_refuted_for_copy_only_pairs :
  p_stat witness_state = Failed /\
  pall witness_state = [(100, 11); (200, 11); (101, 99)] /\
  ~ Permutation (pall witness_state) ([(100, 11); (200, 22)] ++ [(101, 99)]) /\
  ~ pair_safe CPY CPY.
Proof. exact pmerge_limitation_witness. Qed.
Print Assumptions C10_map_merge_conservation_refuted_for_copy_only_pairs.

(* MapExtractedPair: extraction conserves pairs under the hypothesis; re-insertion conserves them for every category pair *)
Theorem C10_map_extract_conservation :
  forall kc vc w b i w' b' h ok, pair_safe kc vc -> (i < length b)%nat ->
    pextract_at kc vc w b i = (w', b', h, ok) ->
    Permutation (match h with None => [] | Some x => [x] end ++ b') b /\ (ok = false -> b' = b /\ h = None).
Proof. exact pextract_at_conservation. Qed.
Print Assumptions C10_map_extract_conservation.

Theorem C10_map_insert_handle_conservation :
  forall kc vc w dst h w' dst' h' st, pinsert_holder kc vc w dst h = (w', dst', h', st) ->
    Permutation (match h' with None => [] | Some x => [x] end ++ dst') (match h with None => [] | Some x => [x] end ++ dst) /\
    (h' = h /\ dst' = dst \/ exists x, h = Some x /\ h' = None /\ dst' = dst ++ [x] /\ phas_key dst (pkey x) = false).
Proof. exact pinsert_holder_conservation. Qed.
Print Assumptions C10_map_insert_handle_conservation.

(* ---- TreeSet::MergeTo(TreeSet&), empty traits + equal managers: swap / pvMergeFast / loops (FastMerge.v) *)
(* whichever path is taken, with any number of node allocations on the joining path, whichever separator, and
   wherever an allocation or the separator's relocation throws: source (+) destination is conserved *)
Theorem C10_merge_to_equal_managers_conservation :
  forall c multi src dst w shape nalloc swap st s' d' w',
    tree_merge_to_eq c multi src dst w shape nalloc swap = (st, s', d', w') -> Permutation (s' ++ d') (src ++ dst).
Proof. exact merge_to_eq_conservation. Qed.
Print Assumptions C10_merge_to_equal_managers_conservation.

(* shape of the result: generic loops, or "threw: nothing changed", or "source empty, destination = concatenation in
   the order allowed by the ordering tests" *)
Theorem C10_merge_to_equal_managers_spec :
  forall c multi src dst w shape nalloc swap st s' d' w',
    tree_merge_to_eq c multi src dst w shape nalloc swap = (st, s', d', w') ->
    (generic_path multi src dst /\ tree_merge_to c multi src dst w shape = (st, s', d', w')) \/
    (st = Failed /\ s' = src /\ d' = dst) \/
    (st = Finished /\ s' = [] /\
     (d' = dst ++ src /\ (src = [] \/ dst = [] \/ sets_ordered multi dst src = true) \/
      d' = src ++ dst /\ sets_ordered multi dst src = false /\ key (last src 0) < key (hd 0 dst))).
Proof. exact merge_to_eq_spec. Qed.
Print Assumptions C10_merge_to_equal_managers_spec.

Theorem C10_no_copy_when_movable_fast_merge :
  forall c multi src dst w shape nalloc swap st s' d' w', nothrow_reloc c = true -> no_copy (tr w) ->
    tree_merge_to_eq c multi src dst w shape nalloc swap = (st, s', d', w') -> no_copy (tr w').
Proof. exact merge_to_eq_no_copy. Qed.
Print Assumptions C10_no_copy_when_movable_fast_merge.

(* unique keys: a completed swap / fast merge of strictly sorted trees empties the source and yields a strictly sorted,
   duplicate-free destination *)
Theorem C10_fast_merge_unique_sorted :
  forall c src dst w shape nalloc swap s' d' w', ksorted src -> ksorted dst ->
    tree_merge_to_eq c false src dst w shape nalloc swap = (Finished, s', d', w') ->
    ~ generic_path false src dst -> ksorted d' /\ NoDup (map key d') /\ s' = [].
Proof. exact merge_to_eq_fast_sorted. Qed.
Print Assumptions C10_fast_merge_unique_sorted.

(* multi keys (103bce4): equivalent keys are never reordered across the trees, destination items stay first *)
Theorem C10_fast_merge_multi_keeps_destination_first :
  forall c src dst w shape nalloc swap s' d' w', ksle src -> ksle dst ->
    tree_merge_to_eq c true src dst w shape nalloc swap = (Finished, s', d', w') ->
    ~ generic_path true src dst ->
    s' = [] /\
    ((d' = dst ++ src /\ forall a b, In a dst -> In b src -> key a <= key b) \/
     (d' = src ++ dst /\ forall a b, In a src -> In b dst -> key a < key b)).
Proof. exact merge_to_eq_fast_multi_order. Qed.
Print Assumptions C10_fast_merge_multi_keeps_destination_first.

(* maps: keys and values that both have a move constructor are never copied by a map merge *)
Theorem C10_no_copy_when_movable_map_merge :
  forall kc vc src dst w shape n, nothrow_reloc kc = true -> nothrow_reloc vc = true ->
    no_copy (tr w) -> no_copy (tr (p_w (prun kc vc n (pinit src dst w shape)))).
Proof. exact pmerge_no_copy. Qed.
Print Assumptions C10_no_copy_when_movable_map_merge.

(* ---- pvMergeToLinear with multi-key trees *)
Theorem C10_merge_finished_source_empty_linear_multi :
  forall c src dst w shape n,
    l_stat (lrun c true n (linit src dst w shape)) = Finished -> lsrc_items (lrun c true n (linit src dst w shape)) = [].
Proof. exact lmerge_multi_finished_empty. Qed.
Print Assumptions C10_merge_finished_source_empty_linear_multi.

Theorem C10_merge_sorted_linear_multi :
  forall c src dst w shape n, ksle src -> ksle dst -> ksle (ldst_items (lrun c true n (linit src dst w shape))).
Proof. exact lmerge_multi_sorted. Qed.
Print Assumptions C10_merge_sorted_linear_multi.

(* ---- the sortedness premise of the linear theorems is an INVARIANT (final round): at every step -- hence also in the state an
   exception leaves behind -- the source is an order-preserving sub-sequence of the original source (any key policy, any input),
   so both trees satisfy the premise again and a further MergeTo / MergeFrom on them is covered by the same theorems *)
Theorem C10_merge_linear_source_order_preserved :
  forall c multi src dst w shape n, subseq (lsrc_items (lrun c multi n (linit src dst w shape))) src.
Proof. exact lmerge_source_order_preserved. Qed.
Print Assumptions C10_merge_linear_source_order_preserved.

Theorem C10_merge_linear_keeps_both_sorted :
  forall c src dst w shape n, ksorted src -> ksorted dst ->
    ksorted (lsrc_items (lrun c false n (linit src dst w shape))) /\ ksorted (ldst_items (lrun c false n (linit src dst w shape))).
Proof. exact lmerge_keeps_both_sorted. Qed.
Print Assumptions C10_merge_linear_keeps_both_sorted.

Theorem C10_merge_linear_multi_keeps_both_sorted :
  forall c src dst w shape n, ksle src -> ksle dst ->
    ksle (lsrc_items (lrun c true n (linit src dst w shape))) /\ ksle (ldst_items (lrun c true n (linit src dst w shape))).
Proof. exact lmerge_multi_keeps_both_sorted. Qed.
Print Assumptions C10_merge_linear_multi_keeps_both_sorted.

(* ---- pointer-level model of pvMergeFast's joining path (FastPtr.v) *)
(* the separator leaves its leaf (TreeNode::Remove): the other items keep their order; only a copy-only item can make the
   remover throw; a movable separator is never copied (rotation to the back + relocation) *)
Theorem C10_separator_leaf_remove :
  forall c w items idx w' r, leaf_remove c w items idx = (w', r) ->
    match r with
    | Some (e, rest) => e = nth idx items 0%Z /\ rest = firstn idx items ++ skipn (S idx) items
    | None => nothrow_reloc c = false
    end.
Proof. exact leaf_remove_spec. Qed.
Print Assumptions C10_separator_leaf_remove.

Theorem C10_no_copy_when_movable_separator :
  forall c w items idx w' r, nothrow_reloc c = true -> no_copy (tr w) -> leaf_remove c w items idx = (w', r) -> no_copy (tr w').
Proof. exact leaf_remove_no_copy. Qed.
Print Assumptions C10_no_copy_when_movable_separator.

(* valid and usable after failure, pointer level: whenever pvMergeFast throws (any node allocation of the joining path, or the
   relocation of the separator), for every heap, spine geometry, capacity and schedule, the heap is exactly the heap before the
   call -- in particular the root of the lower tree has a null parent again and every stacked node has been freed *)
Theorem C10_fast_merge_failure_restores_heap :
  forall h0 root1 c0, lookup h0 root1 = Some c0 -> c_parent c0 = None ->
  forall c w root2 start2 leaf1 swap maxcap fuel fresh w' h',
    NoDup fresh -> (forall a, In a fresh -> lookup h0 a = None) ->
    merge_fast_ptr c w h0 root1 root2 start2 leaf1 swap maxcap fuel fresh = (w', FThrow h') ->
    forall y, lookup h' y = lookup h0 y.
Proof. exact merge_fast_failure_restores_heap. Qed.
Print Assumptions C10_fast_merge_failure_restores_heap.

Theorem C10_fast_merge_failure_valid_and_unchanged :
  forall c w h0 root1 c0 root2 start2 leaf1 swap maxcap fuel fresh w' h',
    lookup h0 root1 = Some c0 -> c_parent c0 = None ->
    NoDup fresh -> (forall a, In a fresh -> lookup h0 a = None) ->
    merge_fast_ptr c w h0 root1 root2 start2 leaf1 swap maxcap fuel fresh = (w', FThrow h') ->
    (exists c1, lookup h' root1 = Some c1 /\ c_parent c1 = None) /\
    (forall f r p, wfb f maxcap h' r p = wfb f maxcap h0 r p) /\
    (forall f r, inorder f h' r = inorder f h0 r) /\
    (forall a, In a fresh -> lookup h' a = None).
Proof. exact merge_fast_failure_valid_and_unchanged. Qed.
Print Assumptions C10_fast_merge_failure_valid_and_unchanged.

(* the seeded clean-up (top-down, SetParent(nullptr) lost) does NOT restore the heap: the root keeps a dangling parent *)
Theorem C10_seeded_cleanup_refuted :
  let h0 := [(1%nat, C None [5%Z] [])] in
  let h1 := set_parent (upd h0 9%nat (C None [] [Ptr 1%nat])) 1%nat (Some 9%nat) in
  let hbad := destroy_down 5 h1 9%nat 1%nat in
  lookup hbad 9%nat = None /\ lookup hbad 1%nat = Some (C (Some 9%nat) [5%Z] []) /\ lookup hbad 1%nat <> lookup h0 1%nat.
Proof. exact seed_a_cleanup_leaves_dangling_parent. Qed.
Print Assumptions C10_seeded_cleanup_refuted.

(* the pointer surgery after the try block (AcceptBackItem, SetChild, SetParent), bounded: for both directions and every
   full / not-full pattern of a tree-2 spine of depth 0..3 (join at any level, or a new root), the returned root has a null
   parent, every cell points back to its parent, child counts = item counts + 1, no node exceeds the capacity, and the
   in-order contents are the concatenation of the two trees in key order *)
Theorem C10_fast_merge_success_sweep_partial : sweep_success = true.
Proof. exact sweep_success_ok. Qed.
Print Assumptions C10_fast_merge_success_sweep_partial.

(* NON-VACUITY of the fast-merge failure theorems (their hypothesis is "... = (w', FThrow h')"): FThrow is reachable.  On every
   geometry of the sweep above (tree 1 a single leaf, both directions) a failing first copy of a copy-only element (the
   separator relocation), and -- whenever the first climbing step needs a node -- a failing first allocation, make
   merge_fast_ptr return FThrow, the trace contains the failure event, and both trees pass the structural validator with
   their original contents.  FBroken (fuel exhaustion / malformed heap) is a different constructor. *)
Theorem C10_fast_merge_failure_sweep_partial : sweep_failure = true.
Proof. exact sweep_failure_ok. Qed.
Print Assumptions C10_fast_merge_failure_sweep_partial.

Theorem C10_fast_merge_failure_is_reachable :
  (exists h root1 root2 start2 leaf1 swap maxcap fuel fresh w' h',
     merge_fast_ptr CPY (W [] [] [true] []) h root1 root2 start2 leaf1 swap maxcap fuel fresh = (w', FThrow h')) /\
  (exists h root1 root2 start2 leaf1 swap maxcap fuel fresh w' h',
     merge_fast_ptr NTM (W [] [true] [] []) h root1 root2 start2 leaf1 swap maxcap fuel fresh = (w', FThrow h')).
Proof. exact merge_fast_fthrow_reachable. Qed.
Print Assumptions C10_fast_merge_failure_is_reachable.

(* ---- multi-element Insert(range / initializer list) and Remove(predicate) of hash containers (BulkOps.v),
   for every schedule, category and step -- hence also in the state left behind by an exception *)
(* the container holds its original items, untouched and in place, followed by copies of arguments: a subset of
   original + inserted, and no original item disappeared *)
Theorem C10_insert_range_subset :
  forall c args dst w n, exists ins, i_dst (irun c n (IS args dst w Running)) = dst ++ ins /\ incl ins args.
Proof. exact insert_range_subset. Qed.
Print Assumptions C10_insert_range_subset.

Theorem C10_insert_range_unique_nodup :
  forall c args dst w n, NoDup (map key dst) -> NoDup (map key (i_dst (irun c n (IS args dst w Running)))).
Proof. exact insert_range_unique_nodup. Qed.
Print Assumptions C10_insert_range_unique_nodup.

Theorem C10_insert_range_finished_complete :
  forall c args dst w n, i_stat (irun c n (IS args dst w Running)) = Finished ->
    forall a, In a args -> has_key (i_dst (irun c n (IS args dst w Running))) (key a) = true.
Proof. exact insert_range_finished_complete. Qed.
Print Assumptions C10_insert_range_finished_complete.

(* Remove(predicate): what is left plus what was removed is the original contents, every removed item satisfies the
   predicate (so the container is a sub-multiset of the original); keys stay unique; a completed call leaves no matching
   item; a category with a move constructor is never copied *)
Theorem C10_remove_pred_subset :
  forall c p src w n,
    Permutation (rsrc_items (rrun c p n (rinit src w)) ++ r_removed (rrun c p n (rinit src w))) (concat src) /\
    Forall (fun y => p y = true) (r_removed (rrun c p n (rinit src w))).
Proof. exact remove_pred_subset. Qed.
Print Assumptions C10_remove_pred_subset.

Theorem C10_remove_pred_unique_nodup :
  forall c p src w n, NoDup (map key (concat src)) -> NoDup (map key (rsrc_items (rrun c p n (rinit src w)))).
Proof. exact remove_pred_unique_nodup. Qed.
Print Assumptions C10_remove_pred_unique_nodup.

Theorem C10_remove_pred_finished_complete :
  forall c p src w n, r_stat (rrun c p n (rinit src w)) = Finished ->
    forall y, In y (rsrc_items (rrun c p n (rinit src w))) -> p y = false.
Proof. exact remove_pred_finished_complete. Qed.
Print Assumptions C10_remove_pred_finished_complete.

Theorem C10_no_copy_when_movable_remove_pred :
  forall c p src w n, nothrow_reloc c = true -> no_copy (tr w) -> no_copy (tr (r_w (rrun c p n (rinit src w)))).
Proof. exact remove_pred_no_copy. Qed.
Print Assumptions C10_no_copy_when_movable_remove_pred.

(* ---- the extracted-item holder: GENERATED state machine (Gen_Holder.v = cxx2coq translation of SetExtractedItem::IsEmpty / Clear /
   Create / Remove, regenerated from the headers on every run) *)
(* Remove requires an item, the remover (which may throw) runs while mHasItem is STILL TRUE, afterwards the holder is empty *)
Theorem C10_gen_holder_remove_spec :
  forall g, Gen_Holder.Remove true g = GOk (tt, false, true) /\ Gen_Holder.Remove false g = GStuck.
Proof. exact gen_remove_spec. Qed.
Print Assumptions C10_gen_holder_remove_spec.

(* Create requires an empty holder, the creator (which may throw) runs while mHasItem is STILL FALSE, afterwards it is full *)
Theorem C10_gen_holder_create_spec :
  forall g, Gen_Holder.Create false g = GOk (tt, true, false) /\ Gen_Holder.Create true g = GStuck.
Proof. exact gen_create_spec. Qed.
Print Assumptions C10_gen_holder_create_spec.

(* frame of the remaining operations that touch the flag: Clear always empties, IsEmpty only reads *)
Theorem C10_gen_holder_clear_isempty_spec :
  forall f g, Gen_Holder.Clear f g = false /\ Gen_Holder.IsEmpty f g = negb f.
Proof. exact gen_clear_isempty_spec. Qed.
Print Assumptions C10_gen_holder_clear_isempty_spec.

(* refinement: the generated functions are the hand model's holder steps on the abstracted state (flag <-> option item), both for
   a functor that returns and for one that throws *)
Theorem C10_gen_holder_remove_refines :
  forall flag g h, R flag h ->
    match Gen_Holder.Remove flag g with
    | GStuck => h_remove false h = GStuck /\ h_remove true h = GStuck
    | GOk (_, flag', at_call) =>
        (exists h', h_remove false h = GOk h' /\ R flag' h') /\ h_remove true h = GExn /\ R at_call (h_remove_after_throw h)
    | _ => False
    end.
Proof. exact remove_refines. Qed.
Print Assumptions C10_gen_holder_remove_refines.

Theorem C10_gen_holder_create_refines :
  forall flag g h x, R flag h ->
    match Gen_Holder.Create flag g with
    | GStuck => h_create false h x = GStuck
    | GOk (_, flag', at_call) =>
        (exists h', h_create false h x = GOk h' /\ R flag' h') /\ h_create true h x = GExn /\ R at_call h
    | _ => False
    end.
Proof. exact create_refines. Qed.
Print Assumptions C10_gen_holder_create_refines.

Theorem C10_insert_handle_uses_holder_step :
  forall c multi w dst x w' dst' h' st, insert_holder c multi w dst (Some x) = (w', dst', h', st) ->
    (h' = None /\ h_remove false (Some x) = GOk h' /\ dst' = dst ++ [x]) \/ (h' = h_remove_after_throw (Some x) /\ dst' = dst).
Proof. exact insert_holder_uses_h_remove. Qed.
Print Assumptions C10_insert_handle_uses_holder_step.

(* Add(pos, ExtractedItem&&): handle (+) container conserved, the item leaves the handle only when it went in *)
Theorem C10_add_handle_conservation :
  forall c w dst h w' dst' h' st, add_holder c w dst h = (w', dst', h', st) ->
    Permutation (holder_items h' ++ dst') (holder_items h ++ dst) /\
    (h' = h /\ dst' = dst \/ exists x, h = Some x /\ h' = None /\ dst' = dst ++ [x] /\ st = Finished).
Proof. exact add_holder_conservation. Qed.
Print Assumptions C10_add_handle_conservation.

(* stdish insert(hint, node&&) as fixed in 9f37105: a refused / failed element stays in the caller's node handle *)
Theorem C10_std_insert_hint_keeps_refused_node :
  forall c multi w dst h hint_ok w' dst' h' st, std_insert_hint c multi w dst h hint_ok = (w', dst', h', st) ->
    Permutation (holder_items h' ++ dst') (holder_items h ++ dst) /\
    (h' = h /\ dst' = dst \/ exists x, h = Some x /\ h' = None /\ dst' = dst ++ [x]).
Proof. exact std_insert_hint_keeps_refused. Qed.
Print Assumptions C10_std_insert_hint_keeps_refused_node.

(* ... and the logic before 9f37105 is refuted in the model: the refused node comes back empty, the element is gone *)
Theorem C10_std_insert_hint_before_9f37105_refuted :
  let r := std_insert_hint_old NTM false (W [] [] [] []) [102] (Some 101) false in
  snd (fst r) = None /\ snd (fst (fst r)) = [102] /\
  ~ Permutation (holder_items (snd (fst r)) ++ snd (fst (fst r))) (holder_items (Some 101) ++ [102]).
Proof. exact std_insert_hint_old_loses_refused_node. Qed.
Print Assumptions C10_std_insert_hint_before_9f37105_refuted.

Theorem C10_no_copy_when_movable_std_insert_hint :
  forall c multi w dst h hint_ok w' dst' h' st, nothrow_reloc c = true -> no_copy (tr w) ->
    std_insert_hint c multi w dst h hint_ok = (w', dst', h', st) -> no_copy (tr w').
Proof. exact std_insert_hint_no_copy. Qed.
Print Assumptions C10_no_copy_when_movable_std_insert_hint.

(* same-code: the TreeSet holder instantiation is the same generated function as the HashSet one *)
Theorem C10_gen_holder_same_code_tree_hash :
  Gen_HolderTree.Remove = Gen_Holder.Remove /\ Gen_HolderTree.Create = Gen_Holder.Create /\
  Gen_HolderTree.Clear = Gen_Holder.Clear /\ Gen_HolderTree.IsEmpty = Gen_Holder.IsEmpty.
Proof. exact holder_same_code. Qed.
Print Assumptions C10_gen_holder_same_code_tree_hash.

(* ---- GENERATED decision logic of stdish insert(hint, node_type&&) (Gen_StdInsert.v / Gen_StdInsertU.v, regenerated from set.h /
   unordered_set.h on every run): an empty handle returns end(); a rejected hint hands the extracted item to the NESTED
   container's Insert (which leaves a refused item in the handle), an accepted hint to the nested Add; the wrapper's own
   insert(node_type&&), whose insert_return_type would swallow a refused node, is never called (reverting 9f37105 breaks this) *)
Theorem C10_gen_std_set_insert_hint_decision :
  forall it_end nh_empty nh_value nh_item mv_ check_hint_ pos_of ts_insert ts_add mTreeSet mSelf hint node,
    Gen_StdInsert.insert_hint_node it_end nh_empty nh_value nh_item mv_ check_hint_ pos_of ts_insert ts_add mTreeSet mSelf hint node =
    decide (nh_empty node) (check_hint_ hint (nh_value node)) it_end
           (pos_of (ts_insert mTreeSet (mv_ (nh_item node)))) (ts_add mTreeSet hint (mv_ (nh_item node))).
Proof. exact gen_std_insert_hint_decision. Qed.
Print Assumptions C10_gen_std_set_insert_hint_decision.

Theorem C10_gen_std_uset_insert_hint_decision :
  forall it_end nh_empty nh_item mv_ pos_of ts_insert mHashSet mSelf hint node,
    Gen_StdInsertU.insert_hint_node it_end nh_empty nh_item mv_ pos_of ts_insert mHashSet mSelf hint node =
    decide (nh_empty node) false it_end (pos_of (ts_insert mHashSet (mv_ (nh_item node)))) it_end.
Proof. exact gen_std_uset_insert_hint_decision. Qed.
Print Assumptions C10_gen_std_uset_insert_hint_decision.

(* the hand model takes the same decision, with the nested operations interpreted by insert_holder / add_holder *)
Theorem C10_std_insert_hint_model_is_the_same_decision :
  forall c multi w dst h hint_ok,
    std_insert_hint c multi w dst h hint_ok =
    match h with
    | None => (w, dst, None, Finished)
    | Some x => match step_func w with
                | None => (fail_func w, dst, h, Failed)
                | Some w1 => decide false hint_ok (w1, dst, h, Finished) (insert_holder c multi w1 dst h) (add_holder c w1 dst h)
                end
    end.
Proof. exact std_insert_hint_is_decide. Qed.
Print Assumptions C10_std_insert_hint_model_is_the_same_decision.

(* ---- GENERATED TreeSet::MergeTo(TreeSet&) (Gen_MergeTo.v): for every pair of trees (fewer than 2^32 items together), key
   policy, manager relation and traits kind it takes the path of the hand model (nothing / pvMergeTo / pvMergeToLinear / Swap /
   pvMergeFast), joins in the same order (the ordering tests of 103bce4) and hands the fields over as the model says: on the
   fast path the source count becomes 0 and its root null, the destination count is the sum and its root the joined root.
   READ THIS AS: gen_merge_to (RefineOfGen.v, hand-written) is the generated Gen_MergeTo.MergeTo INSTANTIATED with marker
   constants, not with trees: the source root field starts as the marker 7 and the destination root as 8 (so "r1 = 7, r2 = 8"
   means "both root fields untouched by MergeTo itself"), pvMergeFast is the marker function returning 21 / 12 for the two
   join orders, the paths are coded 0..4, and the ordering tests / emptiness tests are computed from the key-sorted lists.
   The theorem is about which calls the generated dispatch makes and what it writes to the four fields, nothing deeper *)
Theorem C10_gen_merge_to_refines_dispatch :
  forall multi eqm emptytr src dst, Z.of_nat (length src) + Z.of_nat (length dst) < 2 ^ 32 ->
    let '(c1, r1, c2, r2, path) := gen_merge_to multi eqm emptytr src dst in
    path = fst (hand_dispatch multi eqm emptytr src dst) /\
    (path = 4 -> c1 = 0 /\ r1 = 0 /\ c2 = Z.of_nat (length dst + length src) /\ r2 = snd (hand_dispatch multi eqm emptytr src dst)) /\
    (path <> 4 -> c1 = Z.of_nat (length src) /\ r1 = 7 /\ c2 = Z.of_nat (length dst) /\ r2 = 8).
Proof. exact gen_merge_to_refines. Qed.
Print Assumptions C10_gen_merge_to_refines_dispatch.

(* ... and the list-level model FastMerge.tree_merge_to_eq is exactly that decision *)
Theorem C10_merge_to_model_is_hand_dispatch :
  forall c multi src dst w shape nalloc swap,
    tree_merge_to_eq c multi src dst w shape nalloc swap =
    match hand_dispatch multi true true src dst with
    | (0, _) => (Finished, src, dst, w)
    | (3, _) => (Finished, [], src, w)
    | (4, 21) => match merge_fast c w dst src nalloc swap with
                 | (w', true) => (Finished, [], dst ++ src, w') | (w', false) => (Failed, src, dst, w') end
    | (4, _) => match merge_fast c w src dst nalloc swap with
                | (w', true) => (Finished, [], src ++ dst, w') | (w', false) => (Failed, src, dst, w') end
    | _ => tree_merge_to c multi src dst w shape
    end.
Proof. exact tree_merge_to_eq_is_hand_dispatch. Qed.
Print Assumptions C10_merge_to_model_is_hand_dispatch.

(* ---- GENERATED TreeSet::Swap and the swap path of MergeTo (c7fda03) *)
(* Swap exchanges ALL FOUR fields: the crew (which owns the memory manager the node pools point to) together with count, root
   and node params *)
Theorem C10_gen_tree_swap_exchanges_crew_with_node_params :
  forall crew cnt root params crew' cnt' root' params',
    Gen_TreeSwap.Swap crew cnt root params crew' cnt' root' params' = (crew', cnt', root', params', crew, cnt, root, params).
Proof. exact gen_tree_swap_exchanges_all_four_fields. Qed.
Print Assumptions C10_gen_tree_swap_exchanges_crew_with_node_params.

(* merging into an empty destination: the generated MergeTo calls that Swap on the whole objects and writes no field itself *)
Theorem C10_gen_merge_to_swap_path_uses_whole_swap :
  forall multi x xs, Z.of_nat (length (x :: xs)) < 2 ^ 32 ->
    let '(c1, r1, c2, r2, path) := gen_merge_to multi true true (x :: xs) [] in
    path = 3 /\ c1 = Z.of_nat (length (x :: xs)) /\ r1 = 7 /\ c2 = 0 /\ r2 = 8.
Proof. exact gen_merge_to_swap_path. Qed.
Print Assumptions C10_gen_merge_to_swap_path_uses_whole_swap.

(* ---- GENERATED pvExtraCheck (b307610): a user functor that throws inside the debug-only extra check makes the check answer
   "passed": no assertion failure, the completed insertion is left alone; without a throw it is the genuine check *)
Theorem C10_gen_extra_check_tolerates_throwing_functor_hash :
  forall pos_eqb deref find_ key_ pos, Gen_ExtraCheckH.pvExtraCheck true pos_eqb deref find_ key_ pos = true.
Proof. exact gen_extra_check_tolerates_throwing_functor_hash. Qed.
Print Assumptions C10_gen_extra_check_tolerates_throwing_functor_hash.

Theorem C10_gen_extra_check_tolerates_throwing_functor_tree :
  forall it_neqb it_begin it_end it_prev it_next is_ordered_ iter,
    Gen_ExtraCheckT.pvExtraCheck true it_neqb it_begin it_end it_prev it_next is_ordered_ iter = true.
Proof. exact gen_extra_check_tolerates_throwing_functor_tree. Qed.
Print Assumptions C10_gen_extra_check_tolerates_throwing_functor_tree.

Theorem C10_insert_crt_never_aborts_on_throwing_functor :
  forall (S : Type) (after_add : S) pos_eqb deref find_ key_ pos,
    insert_crt_checked after_add (Gen_ExtraCheckH.pvExtraCheck true pos_eqb deref find_ key_ pos) = GOk after_add.
Proof. exact insert_crt_never_aborts_on_throwing_functor. Qed.
Print Assumptions C10_insert_crt_never_aborts_on_throwing_functor.

Theorem C10_gen_extra_check_is_the_check_hash :
  forall pos_eqb deref find_ key_ pos,
    Gen_ExtraCheckH.pvExtraCheck false pos_eqb deref find_ key_ pos = pos_eqb pos (find_ (key_ (deref pos))).
Proof. exact gen_extra_check_is_the_check_hash. Qed.
Print Assumptions C10_gen_extra_check_is_the_check_hash.

(* ---- GENERATED stdish set::insert(node_type&&): the handle is never dropped -- the result's node is empty when the item was
   inserted and is the caller's node when it was refused *)
Theorem C10_gen_std_insert_node_spec :
  forall it_end nh_empty nh_item mv_ pos_of ts_insert inserted_of mTreeSet mSelf node,
    Gen_StdInsertN.insert_node it_end nh_empty nh_item mv_ pos_of ts_insert inserted_of mTreeSet mSelf node =
    if nh_empty node then (it_end, false, 0)
    else let res := ts_insert mTreeSet (mv_ (nh_item node)) in
         (pos_of res, inserted_of res, if inserted_of res then 0 else mv_ node).
Proof. exact gen_std_insert_node_spec. Qed.
Print Assumptions C10_gen_std_insert_node_spec.

Theorem C10_gen_std_insert_node_refused_comes_back :
  forall it_end nh_empty nh_item mv_ pos_of ts_insert inserted_of mTreeSet mSelf node,
    nh_empty node = false -> inserted_of (ts_insert mTreeSet (mv_ (nh_item node))) = false ->
    snd (Gen_StdInsertN.insert_node it_end nh_empty nh_item mv_ pos_of ts_insert inserted_of mTreeSet mSelf node) = mv_ node.
Proof. exact gen_std_insert_node_refused_comes_back. Qed.
Print Assumptions C10_gen_std_insert_node_refused_comes_back.

(* ---- the element hand-over loops, DUMPED from the clang AST (Gen_MergeProto.v, deep embedding) *)
(* the facts the hand model depends on, read off the dumped tree of HashSet::pvMergeTo / TreeSet::pvMergeTo: the creator is
   `iter = pvExtract(iter, newItem)`; the loop asks dstSet.InsertCrt for the key of the current item whether it inserted; a refused
   item is skipped with ++iter; nothing else happens in the body *)
Theorem C10_proto_hash_merge_loop_facts : recognise_merge_loop hash_cond Gen_MergeProto.hash_pvMergeTo = Some canonical.
Proof. exact hash_merge_loop_facts. Qed.
Print Assumptions C10_proto_hash_merge_loop_facts.

Theorem C10_proto_tree_merge_loop_facts : recognise_merge_loop tree_cond Gen_MergeProto.tree_pvMergeTo = Some canonical.
Proof. exact tree_merge_loop_facts. Qed.
Print Assumptions C10_proto_tree_merge_loop_facts.

(* with those facts the loop step is exactly the hand model's step (all merge theorems above are about hstep) ... *)
Theorem C10_proto_loop_step_is_model_step : forall c multi st, gstep canonical c multi st = hstep c multi st.
Proof. exact gstep_canonical_is_hstep. Qed.
Print Assumptions C10_proto_loop_step_is_model_step.

(* ... and each deviating fact is refuted: a creator that does not extract duplicates the item, a loop that does not advance on
   refusal never gets past a refused item *)
Theorem C10_proto_non_extracting_creator_refuted :
  let st := Nat.iter 3 (gstep (LF false true true true true) NTM false) (hinit [[100]] [] (W [] [] [] [])) in
  s_dst st = [100] /\ src_items st = [100] /\ ~ Permutation (src_items st ++ s_dst st) ([100] ++ []).
Proof. exact gstep_non_extracting_creator_duplicates. Qed.
Print Assumptions C10_proto_non_extracting_creator_refuted.

Theorem C10_proto_not_advancing_refuted :
  let f := LF true true true false true in
  let st0 := gstep f NTM false (hinit [[100]] [150] (W [] [] [] [])) in
  gstep f NTM false st0 = st0 /\ s_stat st0 = Running /\ s_idx st0 = 1%nat.
Proof. exact gstep_not_advancing_makes_no_progress. Qed.
Print Assumptions C10_proto_not_advancing_refuted.

(* the trees of pvExtract (both containers) and pvMergeToLinear are the trees the hand model was written from.
   READ THIS AS a change detector only: expected_* are HAND-TYPED trees (ProtoMergeC10.v); the theorems are syntactic
   equalities "dumped tree = hand-typed tree" with no semantics attached to either side.  Likewise the *_loop_facts theorems
   above go through a hand-written structural recogniser that returns FIVE booleans (creator extracts / key of the current
   item is looked up / InsertCrt's `inserted` decides / ++iter on refusal / nothing else in the body); only gstep over those
   five booleans -- not the dumped tree -- is related to the hand model's hstep *)
Theorem C10_proto_hash_pvExtract_tree : Gen_MergeProto.hash_pvExtract = expected_hash_pvExtract.
Proof. exact hash_pvExtract_is_the_modelled_tree. Qed.
Print Assumptions C10_proto_hash_pvExtract_tree.

Theorem C10_proto_tree_pvExtract_tree : Gen_MergeProto.tree_pvExtract = expected_tree_pvExtract.
Proof. exact tree_pvExtract_is_the_modelled_tree. Qed.
Print Assumptions C10_proto_tree_pvExtract_tree.

Theorem C10_proto_tree_pvMergeToLinear_tree : Gen_MergeProto.tree_pvMergeToLinear = expected_tree_pvMergeToLinear.
Proof. exact tree_pvMergeToLinear_is_the_modelled_tree. Qed.
Print Assumptions C10_proto_tree_pvMergeToLinear_tree.
