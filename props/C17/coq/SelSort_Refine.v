(* C17: refinement between the GENERATED selection loop (explicit code cache, Gen_SelSort.v) and the hand model's
   sel_loop (SorterSort.v, which reads the codes from the array): started on the same array they perform the same swaps,
   so the hand model's simplification "codes[] = codes of the current array" is justified by a theorem about the real code. *)
From Coq Require Import ZArith Bool List Lia.
From MomoCommon Require Import GenPrelude.
From C17 Require Import SorterSearch SorterSort Sort_Proofs SelPrims Gen_SelSort SelSort_Proofs.
Local Open Scope Z_scope.

Section Refine.
  Variable sw : arr -> Z -> Z -> arr.
  Hypothesis Hsw : forall l i j, sw l i j = swap l i j.
  Variable begin p cnt : Z.
  Hypothesis Hp : 0 <= p.
  Hypothesis Hcnt : 0 < cnt <= 32.

  Definition same_codes (l : arr) (items : Z -> Z) : Prop := forall k, 0 <= k < cnt -> items k = code l (p + k).

  Lemma min_scan_min_loop l c : (forall k, 0 <= k < cnt -> c k = code l (p + k)) ->
    forall n k best, 0 <= best -> best < k -> k + Z.of_nat n <= cnt -> min_scan n c k best = min_loop n l p k best.
  Proof.
    intros Hc. induction n as [|n IH]; intros k best Hb Hbk Hn; [reflexivity|].
    rewrite Nat2Z.inj_succ in Hn. cbn [min_scan min_loop]. rewrite (Hc k), (Hc best) by lia.
    apply IH; destruct (code l (p + k) <? code l (p + best)); lia.
  Qed.

  Lemma sel_loops_agree : forall n fuel i l codes items, 0 <= i -> i + Z.of_nat n = cnt - 1 -> (n < fuel)%nat ->
    p + cnt <= alen l -> coherent cnt codes items -> same_codes l items ->
    exists l' codes' i' items',
      sel_loop sw n p cnt i l = Ok l' /\ pvSelectionSort_loop1 fuel begin cnt codes i items = Ok (codes', i', items') /\
      same_codes l' items' /\ alen l' = alen l.
  Proof.
    induction n as [|n IH]; intros fuel i l codes items Hi Hn Hf Hl Hc Hs.
    - simpl in Hn. destruct fuel as [|fuel]; [lia|]. rewrite pvSelectionSort_loop1_eq. rewrite (wrapU_small 64 (cnt - 1)) by lia.
      destruct (Z.ltb_spec i (cnt - 1)); [lia|]. exists l, codes, i, items. auto.
    - rewrite Nat2Z.inj_succ in Hn. destruct fuel as [|fuel]; [lia|]. rewrite pvSelectionSort_loop1_eq. rewrite (wrapU_small 64 (cnt - 1)) by lia.
      destruct (Z.ltb_spec i (cnt - 1)); [|lia]. cbn [sel_loop]. cbv zeta.
      assert (Hm : min_element_idx codes (0 + i + 1) (0 + cnt) = min_index l p cnt i).
      { unfold min_element_idx, min_index. replace (Z.to_nat (0 + cnt - (0 + i + 1) - 1)) with (Z.to_nat (cnt - (i + 2))) by lia.
        replace (0 + i + 1 + 1) with (i + 2) by lia. replace (0 + i + 1) with (i + 1) by lia.
        apply (min_scan_min_loop l codes); try lia. intros k Hk. rewrite (Hc k Hk). apply Hs. exact Hk. }
      rewrite Hm. set (m := min_index l p cnt i).
      assert (Hmr : i + 1 <= m < cnt).
      { unfold m. rewrite <- Hm. destruct (min_element_idx_spec codes (0 + i + 1) (0 + cnt)); lia. }
      rewrite (Hc m), (Hc i), (Hs m), (Hs i) by lia. rewrite (wrapU_small 64 (i + 1)) by lia.
      destruct (Z.ltb_spec (code l (p + m)) (code l (p + i))).
      + rewrite (swp_ok sw Hsw) by lia. cbn [bind].
        destruct (IH fuel (i + 1) (swap l (p + i) (p + m)) (swapf codes i m) (swapf items i m)) as (l' & c' & i' & it' & E1 & E2 & S' & L'); try lia.
        * rewrite alen_swap. lia.
        * intros k Hk. rewrite !swapf_spec. rewrite (Hc i), (Hc m), (Hc k) by lia. reflexivity.
        * intros k Hk. rewrite swapf_spec, code_swap by lia. rewrite (Hs i), (Hs m), (Hs k) by lia.
          destruct (Z.eqb_spec k m); destruct (Z.eqb_spec (p + k) (p + m)); try lia; try reflexivity.
          destruct (Z.eqb_spec k i); destruct (Z.eqb_spec (p + k) (p + i)); try lia; reflexivity.
        * exists l', c', i', it'. rewrite alen_swap in L'. auto.
      + cbn [bind]. apply IH; try lia; auto.
  Qed.
End Refine.
