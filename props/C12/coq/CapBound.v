(* C12: the capacity policy of Open2N2 GENERATED (Gen_PolicyO2.CalcCapacity = HashBucketOpen2N2<maxCount>::CalcCapacity,
   `(size_t)((double)(bucketCount * maxCount) / 12.0 * 11.0)`, the double arithmetic read as exact rationals as in C11) never exceeds the
   number of slots: this discharges the hypothesis CalcCapacity(bc, 3) <= 3 * bc of the chained-generation no-exception theorem. *)
From Coq Require Import ZArith QArith Qround Bool List Lia.
From MomoCommon Require Import GenPrelude.
From C12 Require Import Bits Gen_PolicyO2.
Local Open Scope Z_scope.

Lemma qfloor_1112 n : 0 <= n -> 0 <= Qfloor (Qmult (Qdiv (inject_Z n) (inject_Z 12)) (inject_Z 11)) <= n.
Proof.
  intros Hn. split.
  - rewrite <- (Qfloor_Z 0). apply Qfloor_resp_le. unfold Qle, Qmult, Qdiv, Qinv, inject_Z. cbn. lia.
  - rewrite <- (Qfloor_Z n) at 2. apply Qfloor_resp_le. unfold Qle, Qmult, Qdiv, Qinv, inject_Z. cbn. lia.
Qed.

Theorem calc_capacity_le_slots maxCount bc : 0 <= maxCount -> 0 <= bc ->
  0 <= CalcCapacity maxCount bc <= maxCount * bc.
Proof.
  intros Hm Hb. unfold CalcCapacity.
  pose proof (wrapU_range 64 (bc * maxCount)) as Hw.
  assert (Hle : wrapU 64 (bc * maxCount) <= bc * maxCount).
  { unfold wrapU. apply Z.mod_le; [nia|reflexivity]. }
  pose proof (qfloor_1112 (wrapU 64 (bc * maxCount)) ltac:(lia)) as [Hq0 Hq1].
  rewrite wrapU_small by lia. lia.
Qed.
