(* C19 model driver (extracted Treiber.step).
   seq EV EV ...     replay of the event trace observed on the real DataTable (event = letter + canonical buffer ids):
                       N<r> NewRow gave buffer r      A<r> Add      X<r> Extract      D<r> ~DataRow      R<r> Remove
                       C<r,r,..> Clear (table rows in order)      E<r,..> destroy these detached rows in order
                       M<r> moved around (no label)    S<r> items rewritten     - nothing
                     each event is expanded into the labels the C++ executes; output: per event
                       EV|fl=<walk of the link words from head>|pc=<buffers not Free>
                     and finally end|disp=<n>|recl=<n>|q=<1 iff quiescent and disposed == reclaimed as sets>
   prog              the control skeleton of the machine, obtained by probing `step` (compared with the clang AST) *)
open Zutil
open Treiber

let n = nat_of_int
let i = int_of_nat

exception Stuck of string

let lname = function
  | DBegin _ -> "begin" | DLoad _ -> "load" | DLink _ -> "link" | DCas (_, _) -> "cas"
  | OExchange -> "exchange" | ORead -> "read" | OFree _ -> "free" | ODone -> "done"
  | OAlloc _ -> "alloc" | OAdd _ -> "add" | OExtract _ -> "extract" | ORemove _ -> "remove" | Scribble _ -> "scribble"

let st = ref init
let fire l = match step !st l with Some s -> st := s | None -> raise (Stuck (lname l))

(* pvDeallocateFreeRaws *)
let drain_all () =
  fire OExchange;
  let rec loop k =
    if k > 100000 then raise (Stuck "drain-loop") else
    match !st.own with
    | ODrain None -> fire ODone
    | ODrain (Some _) -> fire ORead; fire (OFree None); loop (k + 1)
    | _ -> raise (Stuck "owner-pc")
  in loop 0

let dcount = ref 0
(* ~DataRow on thread t; every third push suffers one spurious CAS failure first *)
let dispose r =
  incr dcount;
  let t = n (1 + (!dcount mod 3)) in
  fire (DBegin (t, n r)); fire (DLoad t); fire (DLink t);
  if !dcount mod 3 = 0 then begin fire (DCas (t, true)); fire (DLoad t); fire (DLink t) end;
  fire (DCas (t, false))

let ids_of s = if s = "" then [] else Stdlib.List.map int_of_string (String.split_on_char ',' s)

let known : (int, unit) Hashtbl.t = Hashtbl.create 64
let note r = Hashtbl.replace known r ()

let show_list l = String.concat "," (Stdlib.List.map (fun r -> string_of_int (i r)) l)

let observe () =
  let s = !st in
  let fl = match walk s.link s.head (n (Hashtbl.length known + 1)) with
    | None -> "CYCLE"
    | Some l -> if l = s.shared then show_list l else "GHOSTMISMATCH(" ^ show_list l ^ "/" ^ show_list s.shared ^ ")" in
  let pc = Hashtbl.fold (fun r () acc -> if s.status (n r) = Free then acc else acc + 1) known 0 in
  Printf.sprintf "|fl=%s|pc=%d" fl pc

let event ev =
  let c = ev.[0] and arg = String.sub ev 1 (String.length ev - 1) in
  match c with
  | 'N' -> let r = int_of_string arg in note r;
           if !st.head <> None then drain_all ();        (* pvAllocateRaw: if (freeRaws != nullptr) pvDeallocateFreeRaws() *)
           fire (OAlloc (n r, None)); fire (Scribble (n r, Some (n 0)))
  | 'A' -> fire (OAdd (n (int_of_string arg)))
  | 'X' -> fire (OExtract (n (int_of_string arg)))
  | 'D' -> dispose (int_of_string arg)
  | 'R' -> fire (ORemove (n (int_of_string arg), None))
  | 'C' -> drain_all (); Stdlib.List.iter (fun r -> fire (ORemove (n r, None))) (ids_of arg)   (* pvDestroyRaws *)
  | 'E' -> Stdlib.List.iter dispose (ids_of arg)
  | 'S' -> fire (Scribble (n (int_of_string arg), Some (n 12345)))
  | 'Z' -> if !st.head <> None then drain_all ()      (* NewRow that drained, allocated, failed and gave the buffer straight back *)
  | 'M' | '-' | 'U' -> ()                              (* U: TryAdd / TryInsert / TryUpdate refused: the row stays detached *)
  | _ -> raise (Stuck "unknown-event")

(* ---------------------------------------------------------------- seq: replay on the Row-OBJECT layer (TreiberRows.stepl)
   The harness keeps its detached rows in a std::vector<Row>; push_back / erase / clear / std::swap are expanded into the
   Row-class primitives the library really executes (move construction, move assignment = move-construct a temporary +
   Swap + destroy it, destruction), so that the three members of every Row object can be compared after every event. *)
open TreiberRows
let lst = ref linit
let det : int list ref = ref []          (* object ids of the vector's elements *)
let next_obj = ref 0
let free_ids : int list ref = ref []     (* ids of destroyed objects are recycled: keeps the unary nat ids small *)
let fresh () = match !free_ids with x :: r -> free_ids := r; x | [] -> incr next_obj; !next_obj
let maxrow = ref 0
let fired = ref 0
(* the extracted state keeps its maps as chains of closures (one layer per update); every 64 steps the driver re-tabulates
   them over the ids in use (rows 0..maxrow, objects 0..next_obj, threads 0..9; everything else still has its initial value) *)
let compact () =
  let s = !lst in let b = s.lbase in
  let tab m f d = let a = Array.init (m + 1) (fun k -> f (n k)) in fun k -> let j = i k in if j <= m then a.(j) else d in
  let b' = { b with link = tab !maxrow b.link None; status = tab !maxrow b.status Free; gen = tab !maxrow b.gen (n 0);
                    dpcs = tab 9 b.dpcs Idle } in
  lst := { lbase = b'; objs = tab !next_obj s.objs { o_live = false; o_raw = None; o_fl = false } }; st := b'
let firel ll = match stepl !lst ll with
  | Some s -> lst := s; st := s.lbase; incr fired; if !fired land 63 = 0 then compact ()
  | None -> raise (Stuck (match ll with LB l -> lname l | LNew _ -> "row-new" | LExtract _ -> "row-extract" | LMoveCtor _ -> "row-movector"
                                        | LSwap _ -> "row-swap" | LAdd _ -> "row-add" | LDestroy _ -> "row-destroy(null list pointer or buffer not detached)"))
(* the GENERATED pvDeallocateFreeRaws (translated from the real function) run on the memory of the state before the drain: it must
   null the head, use seq_cst, and hand to the pool exactly the buffers, in the order, the machine reclaims (= the real free list,
   which the trace comparison checks against this same state) *)
let check_generated_drain before after =
  let zi k = z_of_int k in
  let encp = function None -> zi 0 | Some q -> zi (i q + 2) in
  let mem_of (s : state) a = let k = int_of_z a in if k = 1 then encp s.head else if k >= 2 then encp (s.link (n (k - 2))) else zi 0 in
  match Gen_FreeListOwner.pvDeallocateFreeRaws (zi 1) (n (Stdlib.List.length before.shared + 1)) (mem_of before) (fun _ -> zi 0) (zi 5) with
  | GenPrelude.Ok (((_, m'), log), mo) ->
      let cnt = int_of_z (log (zi 0)) in
      let freed = Stdlib.List.init cnt (fun k -> int_of_z (log (zi (k + 1))) - 2) in
      let newly = Stdlib.List.length after.reclaimed - Stdlib.List.length before.reclaimed in
      let model = Stdlib.List.rev (Stdlib.List.filteri (fun k _ -> k < newly) (Stdlib.List.map (fun (r, _) -> i r) after.reclaimed)) in
      if int_of_z mo <> 5 || int_of_z (m' (zi 1)) <> 0 || freed <> model || freed <> Stdlib.List.map i before.shared
      then raise (Stuck "generated-drain-differs-from-model")
  | _ -> raise (Stuck "generated-drain-stuck")
let ldrain () =
  let before = !lst.lbase in
  firel (LB OExchange);
  let rec loop k =
    if k > 100000 then raise (Stuck "drain-loop") else
    match !lst.lbase.own with
    | ODrain None -> firel (LB ODone)
    | ODrain (Some _) -> firel (LB ORead); firel (LB (OFree None)); loop (k + 1)
    | _ -> raise (Stuck "owner-pc")
  in loop 0;
  check_generated_drain before !lst.lbase
(* ~DataRow of object o, run to completion on one of three disposer ids; every third real push has a spurious CAS failure *)
let destroy_obj o =
  let holds = (!lst.objs (n o)).o_raw <> None in
  if holds then incr dcount;
  let t = n (1 + (!dcount mod 3)) in
  let before = !lst.lbase and held_raw = (!lst.objs (n o)).o_raw in
  firel (LDestroy (t, n o));
  if holds then begin
    firel (LB (DLoad t)); firel (LB (DLink t));
    if !dcount mod 3 = 0 then begin firel (LB (DCas (t, true))); firel (LB (DLoad t)); firel (LB (DLink t)) end;
    firel (LB (DCas (t, false)));
    (* the GENERATED ~DataRow (Gen_DataRow.destroy, translated from the real destructor) run on the memory of the state before the
       push must give the memory of the state after it: head and every link word in use *)
    (match held_raw with
     | Some r ->
         let zi k = z_of_int k in
         let encp = function None -> zi 0 | Some q -> zi (i q + 2) in
         let mem_of (s : state) a = let k = int_of_z a in if k = 1 then encp s.head else if k >= 2 then encp (s.link (n (k - 2))) else zi 0 in
         let sp k = (!dcount mod 3 = 0) && i k = 9 in      (* one spurious failure on every third push *)
         (match Gen_DataRow.destroy sp (n 10) (zi (i r + 2)) (zi 1) (zi 1) (mem_of before) (zi 5) with
          | GenPrelude.Ok ((_, m'), mo) ->
              if int_of_z mo <> 5 then raise (Stuck "generated-destructor-uses-a-weaker-memory-order");
              let after = !lst.lbase in
              for k = 1 to !maxrow + 2 do
                if int_of_z (m' (zi k)) <> int_of_z (mem_of after (zi k)) then raise (Stuck "generated-destructor-differs-from-model")
              done
          | _ -> raise (Stuck "generated-destructor-stuck"))
     | None -> ())
  end;
  free_ids := o :: !free_ids
let move_assign a b = let tmp = fresh () in firel (LMoveCtor (n tmp, n b)); firel (LSwap (n tmp, n a)); destroy_obj tmp
let push_back_from local = let e = fresh () in firel (LMoveCtor (n e, n local)); det := !det @ [e]; destroy_obj local
let rec drop k l = match l with [] -> [] | x :: r -> if k = 0 then r else x :: drop (k - 1) r
let erase k =                              (* std::vector::erase: move-assign the tail down, destroy the last element *)
  let a = Array.of_list !det in let m = Array.length a in
  for i = k to m - 2 do move_assign a.(i) a.(i + 1) done;
  destroy_obj a.(m - 1);
  det := Array.to_list (Array.sub a 0 (m - 1))
let slot_of r = let rec go i = function [] -> raise (Stuck "no-object-holds-this-buffer")
                  | o :: rest -> if (!lst.objs (n o)).o_raw = Some (n r) then i else go (i + 1) rest in go 0 !det
let std_swap a b = let tmp = fresh () in firel (LMoveCtor (n tmp, n a)); move_assign a b; move_assign b tmp; destroy_obj tmp
let show_obj o = let ob = !lst.objs (n o) in
  (match ob.o_raw with None -> "-" | Some r -> string_of_int (i r)) ^ (if ob.o_fl then ":T" else ":0")
let extra : int option ref = ref None
let tst = ref TreiberTables.tinit
let pend : row option ref = ref None
let observe_l () =
  observe () ^ "|ro=" ^ String.concat "," (Stdlib.List.map show_obj (!det @ (match !extra with Some o -> [o] | None -> [])))

(* pvCreateRaw / pvNewRow through TreiberCreate.stepc: the buffer is pending between Allocate and pvMakeRow / the catch block *)
let firec cl_ =
  match TreiberCreate.stepc { TreiberCreate.cl = !lst; TreiberCreate.pending = !pend } cl_ with
  | Some cs -> lst := cs.TreiberCreate.cl; st := !lst.lbase; pend := cs.TreiberCreate.pending
  | None -> raise (Stuck (match cl_ with TreiberCreate.CTakeRaw _ -> "take-raw(buffer not free)" | TreiberCreate.CMakeRow _ -> "make-row"
                                        | TreiberCreate.CAbort _ -> "abort" | TreiberCreate.CL _ -> "concurrent-step"))
let event_l ev =
  let c = ev.[0] and arg = String.sub ev 1 (String.length ev - 1) in
  match c with
  | 'N' -> let r = int_of_string arg in note r; if r > !maxrow then maxrow := r;
           if !lst.lbase.head <> None then ldrain ();
           let local = fresh () in firec (TreiberCreate.CTakeRaw (n r)); firec (TreiberCreate.CMakeRow (n local, None));
           firel (LB (Scribble (n r, Some (n 0))));
           push_back_from local
  | 'X' -> let r = int_of_string arg in let local = fresh () in firel (LExtract (n local, n r)); push_back_from local
  | 'A' -> let k = slot_of (int_of_string arg) in firel (LAdd (n (Stdlib.List.nth !det k))); erase k
  | 'U' -> ()
  | 'P' -> (match ids_of arg with         (* TryUpdate accepted: pvDestroyRaw(old); raw = ExtractRaw(row) *)
            | [old; nw] -> let k = slot_of nw in
                           firel (LB (ORemove (n old, None))); firel (LAdd (n (Stdlib.List.nth !det k))); erase k
            | _ -> raise (Stuck "bad-P"))
  | 'R' -> firel (LB (ORemove (n (int_of_string arg), None)))
  | 'Q' -> Stdlib.List.iter (fun r -> firel (LB (ORemove (n r, None)))) (ids_of arg)     (* Remove(rowFilter): direct pvDestroyRaw of each *)
  | 'D' -> erase (slot_of (int_of_string arg))
  | 'W' -> (match ids_of arg with
            | [_; k; j] -> move_assign (Stdlib.List.nth !det k) (Stdlib.List.nth !det j)
            | _ -> raise (Stuck "bad-W"))
  | 'H' -> erase (int_of_string arg)          (* the moved-from slot is erased: no push *)
  | 'Y' -> (match ids_of arg with
            | [k; j] -> let a = Stdlib.List.nth !det k and b = Stdlib.List.nth !det j in
                        std_swap a b; firel (LSwap (n a, n b)); firel (LSwap (n b, n a))
            | _ -> raise (Stuck "bad-Y"))
  | 'O' -> let k = int_of_string arg in let tmp = fresh () in
           firel (LMoveCtor (n tmp, n (Stdlib.List.nth !det k))); extra := Some tmp
  | 'M' -> let k = int_of_string arg in
           (match !extra with
            | Some tmp -> move_assign (Stdlib.List.nth !det k) tmp; destroy_obj tmp; extra := None
            | None -> raise (Stuck "M-without-O"))
  | 'E' -> Stdlib.List.iter destroy_obj !det; det := []           (* vector::clear destroys front to back *)
  | 'C' -> ldrain (); Stdlib.List.iter (fun r -> firel (LB (ORemove (n r, None)))) (ids_of arg)
  | 'S' -> firel (LB (Scribble (n (int_of_string arg), Some (n 12345))))
  | 'Z' -> (* a NewRow whose item assignment throws: drained, took a buffer from the pool, gave it straight back *)
           if !lst.lbase.head <> None then ldrain ();
           let rec free_row k = if !lst.lbase.status (n k) = Free then k else free_row (k + 1) in
           firec (TreiberCreate.CTakeRaw (n (free_row 0))); firec (TreiberCreate.CAbort (Some (n 3)));
           if !pend <> None then raise (Stuck "buffer still pending after the catch block")
  | 'V' -> (* the table object is moved: TreiberTables.stept; the layered state must not change (frame) *)
           let firet tl_ = (match TreiberTables.stept !tst tl_ with
                            | Some s -> if s.TreiberTables.tl != !tst.TreiberTables.tl then raise (Stuck "table-move-changed-rows"); tst := s
                            | None -> raise (Stuck "table-move")) in
           tst := { !tst with TreiberTables.tl = !lst };
           if arg = "1" then begin
             firet (TreiberTables.TMoveCtor (n 1, n 0));
             if not (!tst.TreiberTables.tab (n 0) = None && !tst.TreiberTables.tab (n 1) = Some (n 0)) then raise (Stuck "table-owner")
           end else if arg = "0" then begin
             firet (TreiberTables.TMoveCtor (n 2, n 1)); firet (TreiberTables.TSwap (n 2, n 0));
             if not (!tst.TreiberTables.tab (n 0) = Some (n 0) && !tst.TreiberTables.tab (n 1) = None && !tst.TreiberTables.tab (n 2) = None) then raise (Stuck "table-owner")
           end else raise (Stuck "moved-from table still owns a crew")
  | '-' -> ()
  | _ -> raise (Stuck "unknown-event")

let same_set a b = Stdlib.List.sort compare a = Stdlib.List.sort compare b

let run_seq evs =
  st := init; lst := linit; tst := TreiberTables.tinit; pend := None; det := []; next_obj := 0; free_ids := []; maxrow := 0; fired := 0; extra := None; dcount := 0; Hashtbl.reset known;
  let buf = Buffer.create 256 in
  let stuck = ref false in
  Stdlib.List.iter (fun ev ->
    if Buffer.length buf > 0 then Buffer.add_char buf ' ';
    if !stuck then Buffer.add_string buf (ev ^ "|skipped")
    else
      (try event_l ev; Buffer.add_string buf (ev ^ observe_l ())
       with Stuck l -> stuck := true; Buffer.add_string buf (ev ^ "|STUCK@" ^ l))) evs;
  let s = !st in
  let idle = Stdlib.List.for_all (fun t -> s.dpcs (n t) = Idle) [0; 1; 2; 3; 4] in
  let q = idle && s.own = OIdle && s.head = None && same_set s.disposed s.reclaimed in
  Buffer.add_string buf (Printf.sprintf " end|disp=%d|recl=%d|q=%d" (Stdlib.List.length s.disposed) (Stdlib.List.length s.reclaimed) (if q then 1 else 0));
  print_endline (Buffer.contents buf)

(* ---------------------------------------------------------------- control skeleton by probing *)
let dk s t = i (dpc_kind (s.dpcs (n t)))
let ok_names = [| "Idle"; "Drain"; "Drain"; "Next" |]       (* ODrain None / ODrain (Some _) are one program point *)
let dk_names = [| "Idle"; "Start"; "Loaded"; "Linked" |]
let okn s = ok_names.(i (opc_kind s.own))

let prog () =
  let get = function Some s -> s | None -> failwith "probe schedule disabled" in
  let edges = ref [] in
  let add e = if not (Stdlib.List.mem e !edges) then edges := e :: !edges in
  (* disposer 1 with row 0; disposer 2 with row 1 to make the head move under disposer 1 *)
  let s0 = get (run init [OAlloc (n 0, None); OAlloc (n 1, None)]) in
  let dlabels = [DBegin (n 1, n 0); DLoad (n 1); DLink (n 1); DCas (n 1, false); DCas (n 1, true)] in
  let effect s s' l =
    let r = n 0 in
    (match l with
     | DLoad _ -> (match s'.dpcs (n 1) with Loaded (_, h) when h = s.head -> "[h:=head]" | _ -> "[?]")
     | DLink _ -> (match s.dpcs (n 1) with Loaded (_, h) when s'.link r = h && s'.head = s.head -> "[link(own):=h]" | _ -> "[?]")
     | DCas (_, sp) ->
         (match s.dpcs (n 1) with
          | Linked (_, h) ->
              if s'.head = Some r && s.head = h && not sp then ":ok[head==h;head:=own]"
              else if s'.head = s.head && s'.link == s.link then (if sp then ":fail[spurious]" else if s.head <> h then ":fail[head!=h]" else ":fail[?]")
              else "[?]"
          | _ -> "[?]")
     | _ -> "") in
  let seen = Hashtbl.create 16 in
  let rec explore s depth =
    let key = (dk s 1, s.head) in
    if depth < 12 && not (Hashtbl.mem seen key) then begin
      Hashtbl.add seen key ();
      Stdlib.List.iter (fun l -> match step s l with
        | Some s' -> add (Printf.sprintf "disposer: %s -%s%s-> %s" dk_names.(dk s 1) (lname l) (effect s s' l) dk_names.(dk s' 1)); explore s' (depth + 1)
        | None -> ()) dlabels;
      (* let disposer 2 publish row 1 in between *)
      (match run s [DBegin (n 2, n 1); DLoad (n 2); DLink (n 2); DCas (n 2, false)] with
       | Some s' -> explore s' (depth + 1) | None -> ())
    end in
  explore s0 0;
  (* owner, with two rows published *)
  let s1 = get (run s0 [DBegin (n 1, n 0); DLoad (n 1); DLink (n 1); DCas (n 1, false);
                        DBegin (n 2, n 1); DLoad (n 2); DLink (n 2); DCas (n 2, false); OAlloc (n 2, None); OAlloc (n 3, None); OAdd (n 3)]) in
  let olabels = [OExchange; ORead; OFree None; ODone; OAlloc (n 4, None); OAdd (n 2); OExtract (n 3); ORemove (n 3, None)] in
  let oeffect s s' l = match l with
    | OExchange -> if s'.head = None && s'.own = ODrain s.head then "[c:=head;head:=null]" else "[?]"
    | ORead -> (match s.own, s'.own with ODrain (Some r), ONext (r', nx) when r = r' && nx = s.link r -> "[n:=link(c)]" | _ -> "[?]")
    | OFree _ -> (match s.own, s'.own with ONext (r, nx), ODrain c when c = nx && s'.status r = Free -> "[pool<-c;c:=n]" | _ -> "[?]")
    | ODone -> (match s.own with ODrain None -> "[c==null]" | _ -> "[?]")
    | _ -> "" in
  let oseen = Hashtbl.create 16 in
  let rec oexplore s depth =
    let key = (s.own, s.status (n 3), s.status (n 2), s.status (n 4)) in
    if depth < 12 && not (Hashtbl.mem oseen key) then begin
      Hashtbl.add oseen key ();
      Stdlib.List.iter (fun l -> match step s l with
        | Some s' -> add (Printf.sprintf "owner: %s -%s%s-> %s" (okn s) (lname l) (oeffect s s' l) (okn s')); oexplore s' (depth + 1)
        | None -> ()) olabels
    end in
  oexplore s1 0;
  Stdlib.List.iter print_endline (Stdlib.List.sort compare !edges)

(* ---------------------------------------------------------------- seq2: replay on the EXACT owner machine (TreiberExact.stepx)
   of event traces from the barrier harness (real threads parked by test hooks):
     B<t>:<r> disposer t began destroying r and loaded the head      G<t>:ok|fail  link + CAS with that outcome (after a failure: reload)
     F<t> link + spuriously failing CAS + reload      K0|K1 the owner's check answered null|non-null      X the owner's exchange
     N<r> NewRow returned r (finishes the pending walk, if any)   C<ids> Clear returned   A T R D as before *)
open TreiberExact
let xst = ref xinit
let firex xl = match stepx !xst xl with
  | Some s -> xst := s; st := s.base
  | None -> raise (Stuck (match xl with XL l -> lname l | XCheck -> "check"))
let finish_walk () =
  let rec loop k =
    if k > 100000 then raise (Stuck "drain-loop") else
    match !xst.base.own with
    | ODrain None -> firex (XL ODone)
    | ODrain (Some _) -> firex (XL ORead); firex (XL (OFree None)); loop (k + 1)
    | _ -> raise (Stuck "owner-pc")
  in loop 0
let split2 s c = match String.index_opt s c with
  | Some k -> (String.sub s 0 k, String.sub s (k + 1) (String.length s - k - 1)) | None -> (s, "")
let event2 ev =
  let c = ev.[0] and arg = String.sub ev 1 (String.length ev - 1) in
  match c with
  | 'K' -> firex XCheck;
           if !xst.xo <> XChecked (arg = "1") then raise (Stuck "check-result")
  | 'X' -> firex (XL OExchange)
  | 'N' -> let r = int_of_string arg in note r;
           (match !xst.xo with XAllocDrain -> finish_walk () | _ -> ());
           firex (XL (OAlloc (n r, None))); firex (XL (Scribble (n r, Some (n 0))))
  | 'C' -> (match !xst.xo with XDestroyDrain -> finish_walk () | _ -> raise (Stuck "clear-without-exchange"));
           Stdlib.List.iter (fun r -> firex (XL (ORemove (n r, None)))) (ids_of arg)
  | 'A' -> firex (XL (OAdd (n (int_of_string arg))))
  | 'T' -> firex (XL (OExtract (n (int_of_string arg))))
  | 'R' -> firex (XL (ORemove (n (int_of_string arg), None)))
  | 'D' -> let t = n 9 in
           firex (XL (DBegin (t, n (int_of_string arg)))); firex (XL (DLoad t)); firex (XL (DLink t)); firex (XL (DCas (t, false)));
           if !xst.base.dpcs t <> Idle then raise (Stuck "main-thread-push-failed")
  | 'B' -> let (t, r) = split2 arg ':' in let t = n (int_of_string t) in
           firex (XL (DBegin (t, n (int_of_string r)))); firex (XL (DLoad t))
  | 'G' -> let (t, res) = split2 arg ':' in let t = n (int_of_string t) in
           firex (XL (DLink t)); firex (XL (DCas (t, false)));
           (match !xst.base.dpcs t, res with
            | Idle, "ok" -> ()
            | Start _, "fail" -> firex (XL (DLoad t))
            | _ -> raise (Stuck "cas-outcome"))
  | 'F' -> let t = n (int_of_string arg) in
           firex (XL (DLink t)); firex (XL (DCas (t, true))); firex (XL (DLoad t))
  | '-' -> ()
  | _ -> raise (Stuck "unknown-event")

let run_seq2 evs =
  xst := xinit; st := init; Hashtbl.reset known;
  let buf = Buffer.create 256 in
  let stuck = ref false in
  Stdlib.List.iter (fun ev ->
    if Buffer.length buf > 0 then Buffer.add_char buf ' ';
    if !stuck then Buffer.add_string buf (ev ^ "|skipped")
    else
      (try event2 ev; Buffer.add_string buf (ev ^ observe ())
       with Stuck l -> stuck := true; Buffer.add_string buf (ev ^ "|STUCK@" ^ l))) evs;
  let s = !st in
  let idle = Stdlib.List.for_all (fun t -> s.dpcs (n t) = Idle) [0; 1; 2; 3; 9] in
  let q = idle && s.own = OIdle && s.head = None && !xst.xo = XIdle && same_set s.disposed s.reclaimed in
  Buffer.add_string buf (Printf.sprintf " end|disp=%d|recl=%d|q=%d" (Stdlib.List.length s.disposed) (Stdlib.List.length s.reclaimed) (if q then 1 else 0));
  print_endline (Buffer.contents buf)

let () =
  if Array.length Sys.argv > 4 && Sys.argv.(1) = "blocksize" then begin
    (* the GENERATED pvCreateRawMemPool + MemPoolConst::CorrectBlockSize for a column list of total size t, alignment a, pool block count c *)
    let t = z_of_string Sys.argv.(2) and a = z_of_string Sys.argv.(3) and c = z_of_string Sys.argv.(4) in
    let ((size, al), _) = Gen_RawPool.pvCreateRawMemPool (fun _ -> t) (fun _ -> a) (z_of_int 0) in
    print_endline (string_of_z (Gen_MemPoolConst.coq_CorrectBlockSize size al c))
  end
  else if Array.length Sys.argv > 1 && Sys.argv.(1) = "prog" then prog ()
  else iter_lines (fun line ->
    match words line with
    | "seq" :: evs -> run_seq evs
    | "seq2" :: evs -> run_seq2 evs
    | _ -> print_endline "?")
