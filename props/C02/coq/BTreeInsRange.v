(* C02 -- Insert(begin, end): the hinted-add fast path is the same as inserting the items one by one *)
From Coq Require Import List ZArith Arith Lia Bool Sorted.
From C02 Require Import BTreeModel BTreeParams BTreeBase BTreeSearch BTreeIter BTreeAdd BTreeTop BTreeHist BTreeRemoveTop
  BTreeRangeTop BTreeHist2 BTreeMerge BTreeFast2.
Import ListNotations.
Local Open Scope Z_scope.

Section InsRange.
Variables (maxCap stepRaw blockCount : nat) (linear multi : bool).
Hypothesis Hmc : (1 <= maxCap <= 255)%nat.
Notation twf := (twf maxCap).
Notation sorted := (sorted multi).
Notation spec_insert := (spec_insert multi).
Notation Rm := (R multi).
Notation insert := (insert maxCap stepRaw blockCount linear multi).
Notation insert_next := (insert_next maxCap stepRaw blockCount linear multi).
Notation insert_loop := (insert_loop maxCap stepRaw blockCount linear multi).
Notation insert_range := (insert_range maxCap stepRaw blockCount linear multi).

Definition spec_insert_list (l : list Z) (ks : list Z) : list Z :=
  fold_left (fun l k => fst (fst (spec_insert l k))) ks l.

Definition ins_inv (t : tree) (pos : iter) : Prop :=
  twf t /\ sorted (contents t) /\ tvalid t pos /\ titem t pos.

Lemma ub_index_mid pre post k :
  Forall (fun x => x <= k) pre -> Forall (fun y => k < y) post -> ub_index (pre ++ post) k = length pre.
Proof.
  intros Fa Fb. unfold ub_index. rewrite ft_app.
  assert (Fa' : Forall (fun x => (k <? x) = false) pre) by (eapply Forall_impl; [|exact Fa]; intros x Hx; apply Z.ltb_ge; exact Hx).
  rewrite (ft_all_false (fun x => k <? x) _ Fa'), Nat.ltb_irrefl.
  assert (Fb' : Forall (fun x => (k <? x) = true) post) by (eapply Forall_impl; [|exact Fb]; intros x Hx; apply Z.ltb_lt; exact Hx).
  rewrite (ft_all_true (fun x => k <? x) _ Fb'). lia.
Qed.

Lemma insert_next_spec t pos k :
  ins_inv t pos ->
  let '(t', pos') := insert_next t pos k in
  ins_inv t' pos' /\ contents t' = fst (fst (spec_insert (contents t) k)).
Proof.
  intros (W & Srt & V & Hi). unfold BTreeModel.insert_next.
  destruct (item_index maxCap Hmc t pos W V Hi) as (Hlt & Ed & _). rewrite Ed.
  set (l := contents t) in *. set (ip := iter_index t pos) in *.
  destruct (nth_error l ip) as [prev|] eqn:Ep; [|apply nth_error_None in Ep; lia].
  destruct (next_spec maxCap Hmc t pos W V Hi) as [Nn In]. fold ip in In.
  rewrite (is_greater_spec maxCap Hmc t (next t pos) k W Nn), In. fold l.
  pose proof (spec_insert_sorted multi l k Srt) as Ssp.
  assert (Fallback : let '(t', pos', _) := insert t k in ins_inv t' pos' /\ contents t' = fst (fst (spec_insert l k))).
  { pose proof (insert_refines maxCap stepRaw blockCount linear multi Hmc t k W Srt) as Rf.
    destruct (insert t k) as [[t' pos'] ins]. destruct Rf as (W' & E & V' & H'). fold l in E.
    assert (Ec : contents t' = fst (fst (spec_insert l k))) by (rewrite <- E; reflexivity).
    split; [|exact Ec]. unfold ins_inv. rewrite Ec. auto. }
  destruct ((k <? prev) || negb match nth_error l (S ip) with Some x => k <? x | None => true end) eqn:Efb.
  - destruct (insert t k) as [[t' pos'] ins]. exact Fallback.
  - apply orb_false_iff in Efb. destruct Efb as [E1 E2]. apply Z.ltb_ge in E1. apply negb_false_iff in E2.
    (* the list around the previous position *)
    assert (SR : StronglySorted Rm l) by (apply (sorted_R maxCap multi Hmc); exact Srt).
    pose proof (nth_error_nth' _ _ _ 0 Ep) as Np.
    assert (Epre : firstn (S ip) l = firstn ip l ++ [prev]) by (rewrite firstn_S_nth by lia; rewrite Np; reflexivity).
    assert (Fle : Forall (fun x => x <= prev) (firstn (S ip) l)).
    { pose proof (ss_firstn maxCap multi Hmc l (S ip) SR) as Sp. pose proof (ss_le_last maxCap multi Hmc _ Sp) as Fl.
      rewrite Epre in Fl |- *. rewrite last_last in Fl. exact Fl. }
    assert (Fpost : Forall (fun y => k < y) (skipn (S ip) l)).
    { destruct (nth_error l (S ip)) as [x|] eqn:Ex.
      - apply Z.ltb_lt in E2. pose proof (ss_skipn maxCap multi Hmc l (S ip) SR) as Sk.
        pose proof (ss_hd_le maxCap multi Hmc _ Sk) as Fh. rewrite (skipn_head _ _ _ Ex) in Fh |- *. cbn [hd] in Fh.
        eapply Forall_impl; [|exact Fh]. intros y Hy. cbv beta in Hy. lia.
      - apply nth_error_None in Ex. rewrite skipn_all2 by lia. constructor. }
    assert (El : l = firstn (S ip) l ++ skipn (S ip) l) by (symmetry; apply firstn_skipn).
    destruct (multi || (prev <? k)) eqn:Eadd.
    + assert (Rpk : Rm prev k).
      { unfold R. destruct multi eqn:Em; [lia|]. cbn [orb] in Eadd. apply Z.ltb_lt in Eadd. exact Eadd. }
      assert (Fpre : Forall (fun x => Rm x k) (firstn (S ip) l)).
      { eapply Forall_impl; [|exact Fle]. intros x Hx. cbv beta in Hx. unfold R in *. destruct multi; lia. }
      pose proof (spec_insert_mid maxCap multi Hmc _ _ k Fpre Fpost) as Esp. rewrite <- El in Esp.
      pose proof (add_spec maxCap stepRaw blockCount Hmc t (next t pos) k W (proj1 Nn)) as A.
      destruct (add maxCap stepRaw blockCount t (next t pos) k) as [t' pos']. destruct A as (W' & C' & V' & H' & _ & _).
      rewrite In in C'. fold l in C'. rewrite Esp in Ssp |- *. cbn [fst] in *.
      split; [|exact C']. unfold ins_inv. rewrite C'. auto.
    + (* unique keys and the key equals the previous one: nothing happens *)
      apply orb_false_iff in Eadd. destruct Eadd as [Em E3]. apply Z.ltb_ge in E3. assert (Hpk : prev = k) by lia. rewrite Hpk in *.
      assert (Fle' : Forall (fun x => x <= k) (firstn (S ip) l)) by exact Fle.
      pose proof (ub_index_mid _ _ k Fle' Fpost) as Eu. rewrite <- El in Eu. rewrite firstn_length_le in Eu by lia.
      assert (Esp : spec_insert l k = (l, ip, false)).
      { unfold BTreeHist.spec_insert, has_eq. rewrite Eu, Em, Np. cbn [orb].
        replace (k <? k) with false by (symmetry; apply Z.ltb_irrefl). cbn [negb]. f_equal. f_equal. lia. }
      rewrite Esp. cbn [fst]. split; [|reflexivity]. unfold ins_inv. auto.
Qed.

Lemma insert_loop_spec ks : forall t pos,
  ins_inv t pos ->
  twf (insert_loop ks t pos) /\ sorted (contents (insert_loop ks t pos)) /\
  contents (insert_loop ks t pos) = spec_insert_list (contents t) ks.
Proof.
  induction ks as [|k ks IH]; intros t pos Inv; cbn [BTreeModel.insert_loop spec_insert_list fold_left].
  - destruct Inv as (W & S & _). auto.
  - pose proof (insert_next_spec t pos k Inv) as Nx. destruct (insert_next t pos k) as [t' pos']. destruct Nx as [Inv' E'].
    destruct (IH t' pos' Inv') as (A & B & C). split; [exact A|]. split; [exact B|]. rewrite C, E'. reflexivity.
Qed.

(* Insert(begin, end) = inserting the items one after the other, whatever the order of the input *)
Theorem insert_range_refines t ks :
  twf t -> sorted (contents t) ->
  twf (insert_range t ks) /\ sorted (contents (insert_range t ks)) /\
  contents (insert_range t ks) = spec_insert_list (contents t) ks /\
  cnt (insert_range t ks) = length (contents (insert_range t ks)).
Proof.
  intros W S. assert (G : twf (insert_range t ks) /\ sorted (contents (insert_range t ks)) /\
                          contents (insert_range t ks) = spec_insert_list (contents t) ks).
  { destruct ks as [|k0 ks]; cbn [BTreeModel.insert_range spec_insert_list fold_left]; [auto|].
    pose proof (insert_refines maxCap stepRaw blockCount linear multi Hmc t k0 W S) as Rf.
    pose proof (spec_insert_sorted multi (contents t) k0 S) as Ssp.
    destruct (insert t k0) as [[t1 pos] ins]. destruct Rf as (W1 & E & V1 & H1).
    assert (Ec : contents t1 = fst (fst (spec_insert (contents t) k0))) by (rewrite <- E; reflexivity).
    assert (Inv : ins_inv t1 pos) by (unfold ins_inv; rewrite Ec; auto).
    destruct (insert_loop_spec ks t1 pos Inv) as (A & B & C). split; [exact A|]. split; [exact B|]. rewrite C, Ec. reflexivity. }
  destruct G as (A & B & C). repeat split; auto. apply (count_is_length maxCap Hmc). exact A.
Qed.

End InsRange.
