(* C14, final round (hand-written): the CONSISTENCY INVARIANT of the crew-based sets -- "null crew => no storage" -- that the
   moved-from theorems (C14_gen_tree_move_assign, C14_gen_copy_assign_compositions, the Stuck outcomes of the generated
   Clear / pvDestroy) take as a premise or leave as an escape: it is ESTABLISHED by every way an object comes into being (a live
   crew; the source of the generated move constructor) and PRESERVED by every generated operation that writes these fields
   (move constructor, Swap, Clear, the composed move / copy assignment) -- and under it the generated Clear / pvDestroy never
   return Stuck.  All statements are about cxx2coq-generated functions only. *)
From Coq Require Import ZArith Bool List.
From MomoCommon Require Import GenPrelude.
From C14 Require Gen_SetCrew Gen_TreeSet Gen_HashSet Gen_TreeSet2 Gen_HashSet2 Gen_TreeSet3 Gen_HashSet3.
From C14 Require Import GenProofs3.
Local Open Scope Z_scope.

Definition tree_cons (crew root params : Z) : Prop := crew = 0 -> root = 0 /\ params = 0.
Definition hash_cons (crew buckets : Z) : Prop := crew = 0 -> buckets = 0.

(* established: an object with a live crew (every constructor other than the move constructor allocates the crew first) *)
Theorem cons_established :
  (forall c r p, c <> 0 -> tree_cons c r p) /\ (forall c b, c <> 0 -> hash_cons c b).
Proof. split; intros; intro E; contradiction. Qed.

(* under the invariant the generated Clear / pvDestroy never get stuck (crew_null computed by the generated pvIsNull), and Clear
   preserves the invariant *)
Theorem cons_clear_total_tree :
  forall c n r p, tree_cons c r p ->
    Gen_TreeSet.pvDestroy (Gen_SetCrew.pvIsNull c) n r p = GenPrelude.Ok tt /\
    exists n' r' p', Gen_TreeSet.Clear (Gen_SetCrew.pvIsNull c) n r p = GenPrelude.Ok (tt, n', r', p') /\ tree_cons c r' p'.
Proof.
  intros c n r p H. unfold Gen_TreeSet.Clear, Gen_TreeSet.pvDestroy, Gen_SetCrew.pvIsNull.
  destruct (Z.eqb_spec c 0) as [E|E].
  - destruct (H E) as [-> ->]. split; [reflexivity|]. do 3 eexists. split; [reflexivity|]. intros _. split; reflexivity.
  - destruct (Z.eqb_spec r 0), (Z.eqb_spec p 0); cbn [negb andb]; (split; [reflexivity|]); do 3 eexists;
      (split; [reflexivity|]); intros E0; contradiction.
Qed.

Theorem cons_clear_total_hash :
  forall c nb n k b shrink, hash_cons c b ->
    Gen_HashSet.pvDestroy (Gen_SetCrew.pvIsNull c) n k b = GenPrelude.Ok tt /\
    exists n' k' b', Gen_HashSet.Clear (Gen_SetCrew.pvIsNull c) nb n k b shrink = GenPrelude.Ok (tt, n', k', b') /\ hash_cons c b'.
Proof.
  intros c nb n k b shrink H. unfold Gen_HashSet.Clear, Gen_HashSet.pvDestroy, Gen_HashSet.pvDestroyB, Gen_SetCrew.pvIsNull.
  destruct (Z.eqb_spec c 0) as [E|E].
  - rewrite (H E). split; [reflexivity|]. do 3 eexists. split; [reflexivity|]. intros _. reflexivity.
  - destruct (Z.eqb_spec b 0); [|destruct shrink; [|destruct (Z.eqb nb 0)]]; (split; [reflexivity|]); do 3 eexists;
      (split; [reflexivity|]); intros E0; contradiction.
Qed.

(* preserved by the generated move constructors (for the new object AND the source) and Swaps (for both objects) *)
Theorem cons_preserved_move_swap :
  (forall jc jn jr jp sc sn sr sp, tree_cons sc sr sp ->
     let '(tc', _, tr', tp', sc', _, sr', sp') := Gen_TreeSet3.MoveCtor jc jn jr jp sc sn sr sp in
     tree_cons tc' tr' tp' /\ tree_cons sc' sr' sp') /\
  (forall jc jn jk jb sc sn sk sb, hash_cons sc sb ->
     let '(tc', _, _, tb', sc', _, _, sb') := Gen_HashSet3.MoveCtor jc jn jk jb sc sn sk sb in
     hash_cons tc' tb' /\ hash_cons sc' sb') /\
  (forall ac an ar ap bc bn br bp, tree_cons ac ar ap -> tree_cons bc br bp ->
     let '(ac', _, ar', ap', bc', _, br', bp') := Gen_TreeSet2.Swap ac an ar ap bc bn br bp in
     tree_cons ac' ar' ap' /\ tree_cons bc' br' bp') /\
  (forall ac an ak ab bc bn bk bb, hash_cons ac ab -> hash_cons bc bb ->
     let '(ac', _, _, ab', bc', _, _, bb') := Gen_HashSet2.Swap ac an ak ab bc bn bk bb in
     hash_cons ac' ab' /\ hash_cons bc' bb').
Proof.
  split; [|split; [|split]]; intros.
  - destruct gen_move_ctors as (T & _). rewrite T. split; [assumption|]. intros _. split; reflexivity.
  - destruct gen_move_ctors as (_ & Hh & _). rewrite Hh. split; [assumption|]. intros _. reflexivity.
  - cbv beta iota zeta delta [Gen_TreeSet2.Swap]. split; assumption.
  - cbv beta iota zeta delta [Gen_HashSet2.Swap]. split; assumption.
Qed.

(* hence the premise of C14_gen_tree_move_assign is discharged on every object built by these operations: the composed move
   assignment never gets stuck destroying the old target, and both objects satisfy the invariant afterwards *)
Theorem cons_move_assign_tree :
  forall tc tn tr tp sc sn sr sp, tree_cons tc tr tp -> tree_cons sc sr sp ->
    let '(destroyed, this', src') := tree_move_assign (tc, tn, tr, tp) (sc, sn, sr, sp) in
    destroyed = GenPrelude.Ok tt /\
    (let '(c, _, r, p) := this' in tree_cons c r p) /\ (let '(c, _, r, p) := src' in tree_cons c r p).
Proof.
  intros tc tn tr tp sc sn sr sp Ht Hs.
  pose proof (gen_tree_move_assign tc tn tr tp sc sn sr sp) as G.
  destruct (tree_move_assign (tc, tn, tr, tp) (sc, sn, sr, sp)) as [[d th] sr'].
  destruct G as (-> & -> & D & _).
  split; [|split].
  - apply D. unfold tree_cons in Ht. destruct (Z.eq_dec tc 0) as [E|E]; [right; exact (Ht E)|left; exact E].
  - exact Hs.
  - intros _. split; reflexivity.
Qed.

(* the invariant is not vacuous: it has an inhabitant with a null crew (moved-from) and excludes the state the fixed defects
   (a0dc6a6) produced assertions on *)
Theorem cons_nonvacuous :
  tree_cons 0 0 0 /\ hash_cons 0 0 /\ ~ tree_cons 0 1 0 /\ ~ hash_cons 0 1 /\
  Gen_TreeSet.Clear (Gen_SetCrew.pvIsNull 0) 5 1 0 = GenPrelude.Stuck.
Proof.
  repeat split; try (intros H; destruct (H eq_refl); discriminate); try (intros H; specialize (H eq_refl); discriminate).
Qed.
