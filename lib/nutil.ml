(* N <-> string conversions (see zutil.ml) *)
open BinNums
open Zutil
let n_of_zarith (n : Z.t) : coq_N = if Z.sign n = 0 then N0 else Npos (pos_of_zarith n)
let zarith_of_n = function N0 -> Z.zero | Npos p -> zarith_of_pos p
let n_of_string s = n_of_zarith (Z.of_string s)
let string_of_n n = Z.to_string (zarith_of_n n)
