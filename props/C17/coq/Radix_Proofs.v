(* C17: total correctness of the radix path: counting pass, prefix sums, cycle-leader permutation, recursion on shift. *)
From Coq Require Import ZArith Bool List Lia Permutation.
From MomoCommon Require Import GenPrelude.
From C17 Require Import SorterSearch SorterSort Sort_Proofs.
Import ListNotations.
Local Open Scope Z_scope.

(* ---------------- counting over an index interval ---------------- *)
Fixpoint cntf (f : Z -> bool) (a : Z) (m : nat) : Z :=
  match m with O => 0 | S m' => (if f a then 1 else 0) + cntf f (a + 1) m' end.
Definition cz (f : Z -> bool) (a b : Z) : Z := cntf f a (Z.to_nat (b - a)).

Lemma cntf_ext f g : forall m a, (forall k, a <= k < a + Z.of_nat m -> f k = g k) -> cntf f a m = cntf g a m.
Proof.
  induction m as [|m IH]; intros a H; [reflexivity|]. rewrite Nat2Z.inj_succ in H. cbn [cntf].
  rewrite (H a) by lia. rewrite (IH (a + 1)); [reflexivity|]. intros k Hk. apply H. lia.
Qed.
Lemma cntf_app f : forall m1 m2 a, cntf f a (m1 + m2) = cntf f a m1 + cntf f (a + Z.of_nat m1) m2.
Proof.
  induction m1 as [|m1 IH]; intros m2 a.
  - simpl. rewrite Z.add_0_r. reflexivity.
  - rewrite Nat2Z.inj_succ. cbn [cntf Nat.add]. rewrite IH. replace (a + 1 + Z.of_nat m1) with (a + Z.succ (Z.of_nat m1)) by lia. lia.
Qed.
Lemma cntf_bounds f : forall m a, 0 <= cntf f a m <= Z.of_nat m.
Proof. induction m as [|m IH]; intros a; [simpl; lia|]. rewrite Nat2Z.inj_succ. cbn [cntf]. specialize (IH (a + 1)). destruct (f a); lia. Qed.

Lemma cz_empty f a b : b <= a -> cz f a b = 0.
Proof. intros. unfold cz. replace (Z.to_nat (b - a)) with O by lia. reflexivity. Qed.
Lemma cz_split f a c b : a <= c -> c <= b -> cz f a b = cz f a c + cz f c b.
Proof.
  intros. unfold cz. replace (Z.to_nat (b - a)) with (Z.to_nat (c - a) + Z.to_nat (b - c))%nat by lia.
  rewrite cntf_app. replace (a + Z.of_nat (Z.to_nat (c - a))) with c by lia. reflexivity.
Qed.
Lemma cz_one f a : cz f a (a + 1) = if f a then 1 else 0.
Proof. unfold cz. replace (Z.to_nat (a + 1 - a)) with 1%nat by lia. simpl. lia. Qed.
Lemma cz_ext f g a b : (forall k, a <= k < b -> f k = g k) -> cz f a b = cz g a b.
Proof. intros H. unfold cz. apply cntf_ext. intros k Hk. apply H. lia. Qed.
Lemma cz_bounds f a b : a <= b -> 0 <= cz f a b <= b - a.
Proof. intros. unfold cz. pose proof (cntf_bounds f (Z.to_nat (b - a)) a). lia. Qed.
Lemma cz_nonneg f a b : 0 <= cz f a b.
Proof. unfold cz. pose proof (cntf_bounds f (Z.to_nat (b - a)) a). lia. Qed.
Lemma cz_all f a b : a <= b -> (forall k, a <= k < b -> f k = true) -> cz f a b = b - a.
Proof.
  intros Hab H. rewrite (cz_ext f (fun _ => true)) by exact H. unfold cz.
  assert (G : forall m x, cntf (fun _ => true) x m = Z.of_nat m).
  { induction m as [|m IH]; intros x; [reflexivity|]. rewrite Nat2Z.inj_succ. cbn [cntf]. rewrite IH. lia. }
  rewrite G. lia.
Qed.
Lemma cz_none f a b : (forall k, a <= k < b -> f k = false) -> cz f a b = 0.
Proof.
  intros H. rewrite (cz_ext f (fun _ => false)) by exact H. unfold cz.
  assert (G : forall m x, cntf (fun _ => false) x m = 0).
  { induction m as [|m IH]; intros x; [reflexivity|]. cbn [cntf]. rewrite IH. lia. }
  apply G.
Qed.
Lemma cz_pos f a b k : a <= k < b -> f k = true -> 1 <= cz f a b.
Proof.
  intros Hk Hf. rewrite (cz_split f a k b), (cz_split f k (k + 1) b), cz_one, Hf by lia.
  pose proof (cz_nonneg f a k). pose proof (cz_nonneg f (k + 1) b). lia.
Qed.
Lemma cz_at f a b k : a <= k < b -> cz f a b = cz f a k + (if f k then 1 else 0) + cz f (k + 1) b.
Proof. intros Hk. rewrite (cz_split f a k b), (cz_split f k (k + 1) b), cz_one by lia. lia. Qed.

(* exchanging the values at two positions does not change the count *)
Lemma cz_swap h i j a b : a <= i < b -> a <= j < b ->
  cz (fun k => if k =? j then h i else if k =? i then h j else h k) a b = cz h a b.
Proof.
  intros Hi Hj. set (h' := fun k => if k =? j then h i else if k =? i then h j else h k).
  assert (Hsame : forall k, k <> i -> k <> j -> h' k = h k).
  { intros k A B. unfold h'. destruct (Z.eqb_spec k j); [lia|]. destruct (Z.eqb_spec k i); [lia|reflexivity]. }
  assert (Hj' : h' j = h i) by (unfold h'; rewrite Z.eqb_refl; reflexivity).
  assert (Hi' : i <> j -> h' i = h j).
  { intros N. unfold h'. destruct (Z.eqb_spec i j); [lia|]. rewrite Z.eqb_refl. reflexivity. }
  destruct (Z.lt_trichotomy i j) as [L|[->|L]].
  - rewrite (cz_at h' a b i), (cz_at h a b i) by lia. rewrite (cz_at h' (i + 1) b j), (cz_at h (i + 1) b j) by lia.
    rewrite Hj', (Hi' ltac:(lia)).
    rewrite (cz_ext h' h a i), (cz_ext h' h (i + 1) j), (cz_ext h' h (j + 1) b) by (intros; apply Hsame; lia).
    destruct (h i); destruct (h j); lia.
  - apply cz_ext. intros k Hk. unfold h'. destruct (Z.eqb_spec k j) as [->|]; reflexivity.
  - rewrite (cz_at h' a b j), (cz_at h a b j) by lia. rewrite (cz_at h' (j + 1) b i), (cz_at h (j + 1) b i) by lia.
    rewrite Hj', (Hi' ltac:(lia)).
    rewrite (cz_ext h' h a j), (cz_ext h' h (j + 1) i), (cz_ext h' h (i + 1) b) by (intros; apply Hsame; lia).
    destruct (h i); destruct (h j); lia.
Qed.

(* ---------------- finite sums  psum g n = g 0 + ... + g (n-1) ---------------- *)
Fixpoint psum (g : Z -> Z) (n : nat) : Z :=
  match n with O => 0 | S n' => psum g n' + g (Z.of_nat n') end.
Lemma psum_ext g g' : forall n, (forall r, 0 <= r < Z.of_nat n -> g' r = g r) -> psum g' n = psum g n.
Proof.
  induction n as [|n IH]; intros H; [reflexivity|]. rewrite Nat2Z.inj_succ in H. cbn [psum].
  rewrite IH by (intros; apply H; lia). rewrite H by lia. reflexivity.
Qed.
Lemma psum_nonneg g : forall n, (forall r, 0 <= r < Z.of_nat n -> 0 <= g r) -> 0 <= psum g n.
Proof.
  induction n as [|n IH]; intros H; [simpl; lia|]. rewrite Nat2Z.inj_succ in H. cbn [psum].
  specialize (IH ltac:(intros; apply H; lia)). specialize (H (Z.of_nat n) ltac:(lia)). lia.
Qed.
Lemma psum_mono g : (forall r, 0 <= r -> 0 <= g r) -> forall n n', (n <= n')%nat -> psum g n <= psum g n'.
Proof.
  intros Hg n n' H. induction H as [|n' H IH]; [lia|]. cbn [psum]. specialize (Hg (Z.of_nat n') ltac:(lia)). lia.
Qed.
Lemma psum_dec g g' d : forall n, 0 <= d < Z.of_nat n -> (forall r, r <> d -> g' r = g r) -> g' d = g d - 1 ->
  psum g' n = psum g n - 1.
Proof.
  induction n as [|n IH]; intros Hd Hne Hdv; [simpl in Hd; lia|]. rewrite Nat2Z.inj_succ in Hd. cbn [psum].
  destruct (Z.eq_dec d (Z.of_nat n)) as [->|N].
  - rewrite (psum_ext g g' n) by (intros; apply Hne; lia). lia.
  - rewrite IH by (auto; lia). rewrite (Hne (Z.of_nat n)) by lia. lia.
Qed.
Lemma psum_tele (S : Z -> Z) : forall n, psum (fun r => S (r + 1) - S r) n = S (Z.of_nat n) - S 0.
Proof. induction n as [|n IH]; [simpl; lia|]. rewrite Nat2Z.inj_succ. cbn [psum]. rewrite IH. replace (Z.succ (Z.of_nat n)) with (Z.of_nat n + 1) by lia. lia. Qed.
Lemma psum_add g h : forall n, psum (fun r => g r + h r) n = psum g n + psum h n.
Proof. induction n as [|n IH]; [reflexivity|]. cbn [psum]. rewrite IH. lia. Qed.

(* sum over all digit values of "how many positions have this digit" = number of positions *)
Lemma psum_cntf_digits (d : Z -> Z) n : forall m x, (forall k, x <= k < x + Z.of_nat m -> 0 <= d k < Z.of_nat n) ->
  psum (fun r => cntf (fun k => d k =? r) x m) n = Z.of_nat m.
Proof.
  induction m as [|m IH]; intros x H.
  - simpl. clear. induction n as [|n IHn]; [reflexivity|]. cbn [psum]. rewrite IHn. reflexivity.
  - rewrite Nat2Z.inj_succ in *. cbn [cntf]. rewrite psum_add, IH by (intros; apply H; lia).
    assert (One : forall n0, psum (fun r => if d x =? r then 1 else 0) n0 = if (0 <=? d x) && (d x <? Z.of_nat n0) then 1 else 0).
    { induction n0 as [|n0 IH0].
      - simpl. destruct (Z.leb_spec 0 (d x)); destruct (Z.ltb_spec (d x) 0); simpl; lia.
      - rewrite Nat2Z.inj_succ. cbn [psum]. rewrite IH0.
        destruct (Z.leb_spec 0 (d x)); destruct (Z.ltb_spec (d x) (Z.of_nat n0)); destruct (Z.ltb_spec (d x) (Z.succ (Z.of_nat n0)));
          destruct (Z.eqb_spec (d x) (Z.of_nat n0)); cbn [andb]; lia. }
    rewrite One. specialize (H x ltac:(lia)).
    destruct (Z.leb_spec 0 (d x)); [|lia]. destruct (Z.ltb_spec (d x) (Z.of_nat n)); [|lia]. cbn [andb]. lia.
Qed.
Lemma psum_cz_digits (d : Z -> Z) a b n : a <= b -> (forall k, a <= k < b -> 0 <= d k < Z.of_nat n) ->
  psum (fun r => cz (fun k => d k =? r) a b) n = b - a.
Proof.
  intros Hab H. unfold cz. rewrite psum_cntf_digits; [lia|]. intros k Hk. apply H. lia.
Qed.

(* ---------------- digits ---------------- *)
Lemma getRadix_eq R c s : 0 <= R -> 0 <= s -> getRadix R c s = (c / 2 ^ s) mod 2 ^ R.
Proof.
  intros HR Hs. unfold getRadix. rewrite Z.shiftr_div_pow2 by lia.
  replace (2 ^ R - 1) with (Z.ones R) by (rewrite Z.ones_equiv; lia). apply Z.land_ones. lia.
Qed.
Lemma getRadix_range R c s : 0 <= R -> 0 <= s -> 0 <= getRadix R c s < 2 ^ R.
Proof. intros. rewrite getRadix_eq by lia. apply Z.mod_pos_bound. apply Z.pow_pos_nonneg; lia. Qed.

Lemma hi_digit R c s : 0 <= R -> 0 <= s -> c / 2 ^ s = (c / 2 ^ (s + R)) * 2 ^ R + getRadix R c s.
Proof.
  intros HR Hs. rewrite getRadix_eq by lia. rewrite Z.pow_add_r by lia.
  rewrite <- Z.div_div by (try apply Z.pow_pos_nonneg; try (assert (0 < 2 ^ s) by (apply Z.pow_pos_nonneg; lia)); lia).
  pose proof (Z.div_mod (c / 2 ^ s) (2 ^ R) ltac:(assert (0 < 2 ^ R) by (apply Z.pow_pos_nonneg; lia); lia)). lia.
Qed.
Lemma digit_lt_code_lt R a b s : 0 <= R -> 0 <= s -> a / 2 ^ (s + R) = b / 2 ^ (s + R) ->
  getRadix R a s < getRadix R b s -> a < b.
Proof.
  intros HR Hs Hh Hd. pose proof (hi_digit R a s HR Hs). pose proof (hi_digit R b s HR Hs).
  destruct (Z_lt_le_dec a b) as [|Hge]; [assumption|].
  pose proof (Z.div_le_mono b a (2 ^ s) ltac:(apply Z.pow_pos_nonneg; lia) Hge). rewrite Hh in *. lia.
Qed.
Lemma digit_eq_agree R a b s : 0 <= R -> 0 <= s -> a / 2 ^ (s + R) = b / 2 ^ (s + R) ->
  getRadix R a s = getRadix R b s -> a / 2 ^ s = b / 2 ^ s.
Proof. intros HR Hs Hh Hd. rewrite (hi_digit R a s), (hi_digit R b s) by lia. rewrite Hh, Hd. reflexivity. Qed.
Lemma agree_up a b s t : 0 <= s -> s <= t -> a / 2 ^ s = b / 2 ^ s -> a / 2 ^ t = b / 2 ^ t.
Proof.
  intros Hs Hst H. replace t with (s + (t - s)) by lia. rewrite Z.pow_add_r by lia.
  rewrite <- !Z.div_div by (try (assert (0 < 2 ^ s) by (apply Z.pow_pos_nonneg; lia)); try (assert (0 < 2 ^ (t - s)) by (apply Z.pow_pos_nonneg; lia)); lia).
  rewrite H. reflexivity.
Qed.

(* ---------------- the counting pass and the prefix sums ---------------- *)
Section Counting.
  Variable R : Z.
  Hypothesis HR : 0 <= R.
  Variable l : arr.
  Variable p shift : Z.
  Hypothesis Hshift : 0 <= shift.

  Definition Dg (l : arr) (k : Z) : Z := getRadix R (code l (p + k)) shift.   (* digit of the k-th item of the range *)

  Lemma cnt_loop_spec code0 radix0 : forall n i ei sc sr,
    match cnt_loop R n l p shift i code0 radix0 ei sc sr with
    | (ei', sc', sr') =>
      (forall r, ei' r = ei r + cz (fun k => Dg l k =? r) i (i + Z.of_nat n)) /\
      (sc' = true <-> sc = true /\ forall k, i <= k < i + Z.of_nat n -> code l (p + k) = code0) /\
      (sr' = true <-> sr = true /\ forall k, i <= k < i + Z.of_nat n -> Dg l k = radix0)
    end.
  Proof.
    induction n as [|n IH]; intros i ei sc sr.
    - cbn [cnt_loop]. rewrite Z.add_0_r. split; [intros r; rewrite cz_empty by lia; lia|].
      split; (split; [intros H; split; [exact H|intros k Hk; lia]|tauto]).
    - cbn [cnt_loop]. cbv zeta.
      specialize (IH (i + 1) (upd ei (getRadix R (code l (p + i)) shift) (ei (getRadix R (code l (p + i)) shift) + 1))
                     (sc && (code l (p + i) =? code0)) (sr && (getRadix R (code l (p + i)) shift =? radix0))).
      destruct (cnt_loop R n l p shift (i + 1) code0 radix0 _ _ _) as [[ei' sc'] sr'].
      destruct IH as (A & B & C). rewrite Nat2Z.inj_succ.
      replace (i + 1 + Z.of_nat n) with (i + Z.succ (Z.of_nat n)) in * by lia. split; [|split].
      + intros r. rewrite A. rewrite (cz_split _ i (i + 1) (i + Z.succ (Z.of_nat n))), cz_one by lia.
        unfold upd, Dg. destruct (Z.eqb_spec r (getRadix R (code l (p + i)) shift)) as [->|N].
        * rewrite Z.eqb_refl. lia.
        * destruct (Z.eqb_spec (getRadix R (code l (p + i)) shift) r); [lia|]. lia.
      + rewrite B, andb_true_iff, Z.eqb_eq. split.
        * intros ((S1 & S2) & S3). split; [exact S1|]. intros k Hk. destruct (Z.eq_dec k i) as [->|]; [exact S2|apply S3; lia].
        * intros (S1 & S2). split; [split; [exact S1|apply S2; lia]|]. intros k Hk. apply S2. lia.
      + rewrite C, andb_true_iff, Z.eqb_eq. split.
        * intros ((S1 & S2) & S3). split; [exact S1|]. intros k Hk. destruct (Z.eq_dec k i) as [->|]; [exact S2|apply S3; lia].
        * intros (S1 & S2). split; [split; [exact S1|apply S2; lia]|]. intros k Hk. apply S2. lia.
  Qed.

  Lemma psum_loop_spec (g : Z -> Z) : forall m r ei, 1 <= r ->
    (forall r', 0 <= r' < r -> ei r' = psum g (Z.to_nat (r' + 1))) -> (forall r', r <= r' -> ei r' = g r') ->
    (forall r', 0 <= r' < r + Z.of_nat m -> psum_loop m r ei r' = psum g (Z.to_nat (r' + 1))).
  Proof.
    induction m as [|m IH]; intros r ei Hr Hlo Hhi r' Hr'.
    - cbn [psum_loop]. apply Hlo. lia.
    - rewrite Nat2Z.inj_succ in Hr'. cbn [psum_loop]. apply IH; try lia.
      + intros r2 Hr2. unfold upd. destruct (Z.eqb_spec r2 r) as [->|N]; [|apply Hlo; lia].
        rewrite (Hhi r) by lia. rewrite (Hlo (r - 1)) by lia. replace (r - 1 + 1) with r by lia.
        replace (Z.to_nat (r + 1)) with (S (Z.to_nat r)) by lia. cbn [psum]. rewrite Z2Nat.id by lia. lia.
      + intros r2 Hr2. unfold upd. destruct (Z.eqb_spec r2 r); [lia|]. apply Hhi. lia.
  Qed.
End Counting.

(* ---------------- the in-place cycle-leader permutation ---------------- *)
Section CycleLeader.
  Variable sw : arr -> Z -> Z -> arr.
  Hypothesis Hsw : forall l i j, sw l i j = swap l i j.
  Variable R : Z.
  Hypothesis HR : 0 <= R.
  Variable p cnt shift : Z.
  Hypothesis Hp : 0 <= p.
  Hypothesis Hshift : 0 <= shift.
  Let N := radixCount R.
  Variable S : Z -> Z.                 (* bucket r occupies the relative positions [S r, S (r+1)) *)
  Variable ei : Z -> Z.
  Hypothesis Hei : forall r, 0 <= r < N -> ei r = S (r + 1).
  Hypothesis HS0 : S 0 = 0.
  Hypothesis HSN : S N = cnt.
  Hypothesis HSstep : forall r, 0 <= r < N -> S r <= S (r + 1).

  Local Notation D := (Dg R p shift).

  Lemma N_pos : 0 < N. Proof. unfold N, radixCount. apply Z.pow_pos_nonneg; lia. Qed.

  Lemma S_mono : forall r r', 0 <= r -> r <= r' -> r' <= N -> S r <= S r'.
  Proof.
    intros r r' Hr Hrr HrN. replace r' with (r + Z.of_nat (Z.to_nat (r' - r))) by lia.
    assert (Hb : r + Z.of_nat (Z.to_nat (r' - r)) <= N) by lia. revert Hb.
    generalize (Z.to_nat (r' - r)) as n. induction n as [|n IH]; intros Hb; [rewrite Z.add_0_r; lia|].
    rewrite Nat2Z.inj_succ in *. specialize (IH ltac:(lia)).
    pose proof (HSstep (r + Z.of_nat n) ltac:(lia)). replace (r + Z.succ (Z.of_nat n)) with (r + Z.of_nat n + 1) by lia. lia.
  Qed.

  Lemma bucket_disj r r' k k' : 0 <= r < N -> 0 <= r' < N -> r <> r' -> S r <= k < S (r + 1) -> S r' <= k' < S (r' + 1) -> k <> k'.
  Proof.
    intros Hr Hr' Hne Hk Hk'. destruct (Z_lt_le_dec r r').
    - pose proof (S_mono (r + 1) r' ltac:(lia) ltac:(lia) ltac:(lia)). lia.
    - pose proof (S_mono (r' + 1) r ltac:(lia) ltac:(lia) ltac:(lia)). lia.
  Qed.

  Lemma bucket_of k : 0 <= k < cnt -> exists r, 0 <= r < N /\ S r <= k < S (r + 1).
  Proof.
    intros Hk. assert (G : forall n : nat, Z.of_nat n <= N -> k < S (Z.of_nat n) -> exists r, 0 <= r < Z.of_nat n /\ S r <= k < S (r + 1)).
    { induction n as [|n IH]; intros Hn Hlt.
      - simpl in Hlt. lia.
      - rewrite Nat2Z.inj_succ in *. destruct (Z_lt_le_dec k (S (Z.of_nat n))) as [L|G].
        + destruct (IH ltac:(lia) L) as (r & Hr & Hkr). exists r. split; [lia|exact Hkr].
        + exists (Z.of_nat n). replace (Z.of_nat n + 1) with (Z.succ (Z.of_nat n)) by lia. split; lia. }
    pose proof N_pos. destruct (G (Z.to_nat N)) as (r & Hr & Hkr); try lia.
    - rewrite Z2Nat.id by lia. lia.
    - exists r. split; [lia|exact Hkr].
  Qed.

  Definition Inv (l : arr) (cur : Z -> Z) : Prop :=
    (forall r, 0 <= r < N -> S r <= cur r <= S (r + 1)) /\
    (forall r, 0 <= r < N -> forall k, S r <= k < cur r -> D l k = r) /\
    (forall r, 0 <= r < N -> cz (fun k => D l k =? r) 0 cnt = S (r + 1) - S r).

  Definition Mz (cur : Z -> Z) : Z := psum (fun r => S (r + 1) - cur r) (Z.to_nat N).

  Lemma Mz_nonneg l cur : Inv l cur -> 0 <= Mz cur.
  Proof. intros (A & _). apply psum_nonneg. intros r Hr. pose proof N_pos. specialize (A r ltac:(lia)). lia. Qed.
  Lemma Mz_step cur d : 0 <= d < N -> Mz (upd cur d (cur d + 1)) = Mz cur - 1.
  Proof.
    intros Hd. unfold Mz. pose proof N_pos.
    apply (psum_dec (fun r => S (r + 1) - cur r) (fun r => S (r + 1) - upd cur d (cur d + 1) r) d).
    - lia.
    - intros r Hr. unfold upd. destruct (Z.eqb_spec r d); [lia|reflexivity].
    - unfold upd. rewrite Z.eqb_refl. lia.
  Qed.

  Lemma D_swap l i j k : 0 <= i < cnt -> 0 <= j < cnt -> p + cnt <= alen l -> 0 <= k ->
    D (swap l (p + i) (p + j)) k = if k =? j then D l i else if k =? i then D l j else D l k.
  Proof.
    intros Hi Hj Hl Hk. unfold Dg. rewrite code_swap by lia.
    destruct (Z.eqb_spec (p + k) (p + j)); destruct (Z.eqb_spec k j); try lia.
    destruct (Z.eqb_spec (p + k) (p + i)); destruct (Z.eqb_spec k i); try lia.
  Qed.

  (* the counting argument: the target bucket always has room *)
  Lemma room l cur r0 : Inv l cur -> 0 <= r0 < N -> cur r0 < S (r0 + 1) -> D l (cur r0) <> r0 ->
    0 <= D l (cur r0) < N -> cur (D l (cur r0)) < S (D l (cur r0) + 1).
  Proof.
    intros (A & B & T) Hr0 Hlt Hne Hd. set (d := D l (cur r0)) in *.
    destruct (Z_lt_le_dec (cur d) (S (d + 1))) as [|Hfull]; [assumption|exfalso].
    pose proof (A d Hd) as Ad. pose proof (A r0 Hr0) as Ar0.
    assert (Hk0 : cur r0 < S d \/ S (d + 1) <= cur r0).
    { destruct (Z_lt_le_dec (cur r0) (S d)); [left; lia|]. destruct (Z_lt_le_dec (cur r0) (S (d + 1))); [|right; lia].
      exfalso. apply (bucket_disj r0 d (cur r0) (cur r0)); auto; lia. }
    pose proof (S_mono 0 d ltac:(lia) ltac:(lia) ltac:(lia)). pose proof (S_mono (d + 1) N ltac:(lia) ltac:(lia) ltac:(lia)).
    pose proof (S_mono 0 r0 ltac:(lia) ltac:(lia) ltac:(lia)). pose proof (S_mono (r0 + 1) N ltac:(lia) ltac:(lia) ltac:(lia)).
    specialize (T d Hd).
    rewrite (cz_split _ 0 (S d) cnt), (cz_split _ (S d) (S (d + 1)) cnt) in T by lia.
    rewrite (cz_all _ (S d) (S (d + 1))) in T; [|lia|intros k Hk; apply Z.eqb_eq; apply B; [exact Hd|lia]].
    pose proof (cz_nonneg (fun k => D l k =? d) 0 (S d)). pose proof (cz_nonneg (fun k => D l k =? d) (S (d + 1)) cnt).
    destruct Hk0 as [L|G].
    - pose proof (cz_pos (fun k => D l k =? d) 0 (S d) (cur r0) ltac:(lia) ltac:(apply Z.eqb_eq; reflexivity)). lia.
    - pose proof (cz_pos (fun k => D l k =? d) (S (d + 1)) cnt (cur r0) ltac:(lia) ltac:(apply Z.eqb_eq; reflexivity)). lia.
  Qed.

  Lemma perm_loop_eq f l r bi : perm_loop sw R (Datatypes.S f) l p shift r ei bi =
      if r <? radixCount R then
        if bi r <? ei r then
          let radix := getRadix R (code l (p + bi r)) shift in
          l' <- (if negb (radix =? r) then swp sw l (p + bi r) (p + bi radix) else Ok l) ;;
          perm_loop sw R f l' p shift r ei (upd bi radix (bi radix + 1))
        else perm_loop sw R f l p shift (r + 1) ei bi
      else Ok l.
  Proof. reflexivity. Qed.

  Theorem perm_loop_spec : forall fuel l r0 cur, 0 <= r0 <= N -> p + cnt <= alen l -> Inv l cur ->
    (forall r, 0 <= r < r0 -> cur r = S (r + 1)) -> Mz cur + (N - r0) + 1 <= Z.of_nat fuel ->
    exists l', perm_loop sw R fuel l p shift r0 ei cur = Ok l' /\ relR p (p + cnt) l l' /\
      (forall r, 0 <= r < N -> forall k, S r <= k < S (r + 1) -> D l' k = r).
  Proof.
    induction fuel as [|fuel IH]; intros l r0 cur Hr0 Hl HI Hdone Hfuel.
    { pose proof (Mz_nonneg l cur HI). simpl in Hfuel. lia. }
    rewrite Nat2Z.inj_succ in Hfuel. rewrite perm_loop_eq. fold N.
    destruct (Z.ltb_spec r0 N) as [Hlt|Hge].
    2:{ exists l. split; [reflexivity|]. split; [apply relR_refl|]. destruct HI as (A & B & T).
        intros r Hr k Hk. apply (B r Hr). rewrite (Hdone r) by lia. exact Hk. }
    rewrite (Hei r0) by lia. pose proof HI as (A & B & T).
    destruct (Z.ltb_spec (cur r0) (S (r0 + 1))) as [Hroom|Hfull].
    2:{ apply IH; try lia; auto. intros r Hr. destruct (Z.eq_dec r r0) as [->|]; [pose proof (A r0 ltac:(lia)); lia|apply Hdone; lia]. }
    cbv zeta. change (getRadix R (code l (p + cur r0)) shift) with (D l (cur r0)).
    assert (Hd : 0 <= D l (cur r0) < N) by (unfold Dg, N, radixCount; apply getRadix_range; lia).
    set (d := D l (cur r0)) in *.
    pose proof (S_mono 0 r0 ltac:(lia) ltac:(lia) ltac:(lia)). pose proof (S_mono (r0 + 1) N ltac:(lia) ltac:(lia) ltac:(lia)).
    pose proof (A r0 ltac:(lia)) as Ar0.
    destruct (Z.eqb_spec d r0) as [Heq|Hne]; cbn [negb bind].
    - (* already in its bucket *)
      destruct (IH l r0 (upd cur d (cur d + 1))) as (l' & E & Rl & Fin); try lia; auto.
      + split; [|split].
        * intros r Hr. unfold upd. destruct (Z.eqb_spec r d) as [->|]; [rewrite Heq in *; lia|apply A; exact Hr].
        * intros r Hr k Hk. unfold upd in Hk. destruct (Z.eqb_spec r d) as [->|]; [|apply B; auto].
          destruct (Z.eq_dec k (cur d)) as [->|]; [replace (cur d) with (cur r0) by congruence; reflexivity|apply B; [exact Hr|lia]].
        * exact T.
      + intros r Hr. unfold upd. destruct (Z.eqb_spec r d); [lia|apply Hdone; exact Hr].
      + rewrite Mz_step by lia. lia.
      + exists l'. auto.
    - (* move it to the front of the unplaced part of bucket d *)
      pose proof (room l cur r0 HI ltac:(lia) Hroom Hne Hd) as Hrm. fold d in Hrm.
      pose proof (A d Hd) as Ad.
      pose proof (S_mono 0 d ltac:(lia) ltac:(lia) ltac:(lia)). pose proof (S_mono (d + 1) N ltac:(lia) ltac:(lia) ltac:(lia)).
      rewrite (swp_ok sw Hsw) by lia. cbn [bind].
      set (l1 := swap l (p + cur r0) (p + cur d)).
      assert (Dl1 : forall k, 0 <= k -> D l1 k = if k =? cur d then D l (cur r0) else if k =? cur r0 then D l (cur d) else D l k).
      { intros k Hk. unfold l1. apply D_swap; lia. }
      assert (Hdr : d >= r0).
      { destruct (Z_lt_le_dec d r0); [|lia]. rewrite (Hdone d) in Hrm by lia. lia. }
      destruct (IH l1 r0 (upd cur d (cur d + 1))) as (l' & E & Rl & Fin); try lia; auto.
      + unfold l1. rewrite alen_swap. exact Hl.
      + split; [|split].
        * intros r Hr. unfold upd. destruct (Z.eqb_spec r d) as [->|]; [lia|apply A; exact Hr].
        * intros r Hr k Hk. unfold upd in Hk. pose proof (A r Hr) as Ar.
          pose proof (S_mono 0 r ltac:(lia) ltac:(lia) ltac:(lia)).
          rewrite Dl1 by lia. destruct (Z.eqb_spec r d) as [->|Nrd].
          -- destruct (Z.eqb_spec k (cur d)); [reflexivity|].
             destruct (Z.eqb_spec k (cur r0)) as [->|]; [exfalso; apply (bucket_disj r0 d (cur r0) (cur r0)); auto; lia|].
             apply B; [exact Hd|lia].
          -- destruct (Z.eqb_spec k (cur d)) as [->|]; [exfalso; apply (bucket_disj r d (cur d) (cur d)); auto; lia|].
             destruct (Z.eqb_spec k (cur r0)) as [->|]; [|apply B; auto].
             exfalso. destruct (Z.eq_dec r r0) as [->|]; [lia|]. apply (bucket_disj r r0 (cur r0) (cur r0)); auto; lia.
        * intros r Hr. rewrite <- (T r Hr).
          rewrite (cz_ext _ (fun k => if k =? cur d then (D l (cur r0) =? r) else if k =? cur r0 then (D l (cur d) =? r) else (D l k =? r)) 0 cnt).
          -- apply (cz_swap (fun k => D l k =? r) (cur r0) (cur d) 0 cnt); lia.
          -- intros k Hk. rewrite Dl1 by lia. destruct (k =? cur d); [reflexivity|]. destruct (k =? cur r0); reflexivity.
      + intros r Hr. unfold upd. destruct (Z.eqb_spec r d); [lia|apply Hdone; exact Hr].
      + rewrite Mz_step by lia. lia.
      + exists l'. split; [exact E|]. split; [|exact Fin].
        eapply relR_trans; [|exact Rl]. apply relR_swap; lia.
  Qed.
End CycleLeader.

(* ---------------- buckets loop, recursion on shift, the whole pvSort ---------------- *)
Lemma relR_get_outside lo hi l l' k : relR lo hi l l' -> 0 <= k -> k < lo \/ hi <= k -> get l' k = get l k.
Proof. intros (_ & _ & F & _) Hk Ho. apply F; assumption. Qed.

Lemma sortedR_transfer l l' lo hi : (forall k, lo <= k < hi -> get l' k = get l k) -> sortedR l lo hi -> sortedR l' lo hi.
Proof. intros H S a b Ha Hab Hb. unfold code. rewrite (H a), (H b) by lia. apply S; lia. Qed.
Lemma groupedR_transfer eqf l l' lo hi : (forall k, lo <= k < hi -> get l' k = get l k) -> groupedR eqf l lo hi -> groupedR eqf l' lo hi.
Proof.
  intros H G a m c Ha Ham Hmc Hc. unfold code, EQ, itm. rewrite (H a), (H c), (H m) by lia. apply G; lia.
Qed.
Lemma contigL_groupedR eqf l lo hi : contigL eqf l lo hi -> groupedR eqf l lo hi.
Proof. intros C a m c Ha Ham Hmc Hc _ E. apply (C a m c); auto. Qed.

Section RadixMain.
  Variable sw : arr -> Z -> Z -> arr.
  Hypothesis Hsw : forall l i j, sw l i j = swap l i j.
  Variable eqf : Z -> Z -> bool.
  Variable R : Z.
  Hypothesis HR : 1 <= R.
  Variable grp : arr -> Z -> Z -> outcome arr.
  Variable wantG : Prop.
  Hypothesis Hgrp : forall l q c, 0 <= q -> 0 <= c -> q + c <= alen l ->
    exists l', grp l q c = Ok l' /\ relR q (q + c) l l' /\ (wantG -> contigL eqf l' q (q + c)).
  Let N := radixCount R.

  (* all codes of the range agree above bit t *)
  Definition AG (l : arr) (p cnt t : Z) : Prop :=
    forall a b, p <= a < p + cnt -> p <= b < p + cnt -> code l a / 2 ^ t = code l b / 2 ^ t.
  Definition SortPost (l l' : arr) (p cnt : Z) : Prop :=
    relR p (p + cnt) l l' /\ sortedR l' p (p + cnt) /\ (wantG -> groupedR eqf l' p (p + cnt)).

  Lemma const_group_post l p cnt : 0 <= p -> 0 <= cnt -> p + cnt <= alen l ->
    (forall a b, p <= a < p + cnt -> p <= b < p + cnt -> code l a = code l b) ->
    exists l', grp l p cnt = Ok l' /\ SortPost l l' p cnt.
  Proof.
    intros Hp Hc Hl Hconst. destruct (Hgrp l p cnt Hp Hc Hl) as (l' & E & Rl & Cg).
    assert (Cc : forall k, 0 <= k -> code l' k = code l k).
    { apply (relR_codes_const p (p + cnt) l l' (code l p)); [lia|exact Rl|]. intros k Hk. apply Hconst; lia. }
    exists l'. split; [exact E|]. split; [exact Rl|]. split.
    - intros a b Ha Hab Hb. rewrite !Cc by lia. rewrite (Hconst a b) by lia. lia.
    - intros W. apply contigL_groupedR. apply Cg. exact W.
  Qed.

  Section Buckets.
    Variable k : arr -> Z -> Z -> outcome arr.
    Variable S ei : Z -> Z.
    Variable p cnt : Z.
    Variable Pre Post : arr -> Z -> Prop.
    Hypothesis Hp : 0 <= p.
    Hypothesis Hei : forall r, 0 <= r < N -> ei r = S (r + 1).
    Hypothesis HS0 : S 0 = 0.
    Hypothesis HSN : S N = cnt.
    Hypothesis HSstep : forall r, 0 <= r < N -> S r <= S (r + 1).
    Hypothesis Hk : forall l r, 0 <= r < N -> p + cnt <= alen l -> Pre l r ->
      exists l', k l (S r) (S (r + 1) - S r) = Ok l' /\ relR (p + S r) (p + S (r + 1)) l l' /\ Post l' r /\ Pre l' r.
    Hypothesis HfPre : forall l l' r r', 0 <= r < N -> 0 <= r' < N -> r <> r' -> relR (p + S r') (p + S (r' + 1)) l l' -> Pre l r -> Pre l' r.
    Hypothesis HfPost : forall l l' r r', 0 <= r < N -> 0 <= r' < N -> r <> r' -> relR (p + S r') (p + S (r' + 1)) l l' -> Post l r -> Post l' r.

    Lemma buckets_spec : forall n r l, Z.of_nat n + r = N -> 0 <= r -> p + cnt <= alen l ->
      (forall r', 0 <= r' < N -> Pre l r') -> (forall r', 0 <= r' < r -> Post l r') ->
      exists l', buckets k ei n r (S r) l = Ok l' /\ relR p (p + cnt) l l' /\ (forall r', 0 <= r' < N -> Post l' r' /\ Pre l' r').
    Proof.
      induction n as [|n IH]; intros r l Hn Hr Hl HPre HPost.
      - simpl in Hn. exists l. split; [reflexivity|]. split; [apply relR_refl|]. intros r' Hr'. split; [apply HPost; lia|apply HPre; lia].
      - rewrite Nat2Z.inj_succ in Hn. cbn [buckets]. cbv zeta. rewrite (Hei r) by lia.
        destruct (Hk l r ltac:(lia) Hl (HPre r ltac:(lia))) as (l1 & E1 & R1 & Po1 & Pr1).
        rewrite E1. cbn [bind].
        pose proof (S_mono R S HSstep 0 r ltac:(lia) ltac:(lia) ltac:(fold N; lia)) as M1.
        pose proof (S_mono R S HSstep (r + 1) N ltac:(lia) ltac:(lia) ltac:(fold N; lia)) as M2.
        pose proof (HSstep r ltac:(lia)) as M3.
        destruct (IH (r + 1) l1) as (l' & E' & R' & Fin); try lia.
        + destruct R1 as (_ & L & _). lia.
        + intros r' Hr'. destruct (Z.eq_dec r' r) as [->|]; [exact Pr1|]. apply (HfPre l l1 r' r); auto; lia.
        + intros r' Hr'. destruct (Z.eq_dec r' r) as [->|]; [exact Po1|]. apply (HfPost l l1 r' r); auto; try lia. apply HPost. lia.
        + exists l'. split; [exact E'|]. split; [|exact Fin].
          eapply relR_trans; [|exact R']. eapply relR_widen; [| | |exact R1]; lia.
    Qed.
  End Buckets.

  Lemma radix_f_eq f l p cnt shift : radix_f sw R grp (Datatypes.S f) l p cnt shift =
      let code0 := code l p in
      let radix0 := getRadix R code0 shift in
      let '(ei, sc, sr) := cnt_loop R (Z.to_nat (cnt - 1)) l p shift 1 code0 radix0 (upd (fun _ => 0) radix0 1) true true in
      if sc then grp l p cnt
      else
        let nextShift := if R <? shift then shift - R else 0 in
        if sr then (if 0 <? shift then radix_f sw R grp f l p cnt nextShift else Stuck)
        else
          let ei := psum_loop (Z.to_nat (radixCount R - 1)) 1 ei in
          let bi := fun r => if r =? 0 then 0 else ei (r - 1) in
          l1 <- perm_loop sw R (Datatypes.S (Z.to_nat (cnt + radixCount R))) l p shift 0 ei bi ;;
          if 0 <? shift then buckets (fun l b c => sort_f sw R grp f l (p + b) c nextShift) ei (Z.to_nat (radixCount R)) 0 0 l1
          else buckets (fun l b c => grp l (p + b) c) ei (Z.to_nat (radixCount R)) 0 0 l1.
  Proof. reflexivity. Qed.

  Lemma N_pos' : 0 < N. Proof. unfold N, radixCount. apply Z.pow_pos_nonneg; lia. Qed.

  Theorem sort_radix_total : forall f,
    (forall l p cnt shift, 0 <= p -> 0 <= cnt -> p + cnt <= alen l -> 0 <= shift -> 2 * shift + 2 <= Z.of_nat f ->
       AG l p cnt (shift + R) -> exists l', sort_f sw R grp f l p cnt shift = Ok l' /\ SortPost l l' p cnt) /\
    (forall l p cnt shift, 0 <= p -> 0 < cnt -> p + cnt <= alen l -> 0 <= shift -> 2 * shift + 1 <= Z.of_nat f ->
       AG l p cnt (shift + R) -> exists l', radix_f sw R grp f l p cnt shift = Ok l' /\ SortPost l l' p cnt).
  Proof.
    induction f as [|f [IHs IHr]]; split; intros l p cnt shift Hp Hc Hl Hs Hf HAG; try (change (Z.of_nat 0) with 0 in Hf; lia); rewrite Nat2Z.inj_succ in Hf.
    - (* ---- pvSort ---- *)
      cbn [sort_f]. destruct (Z.ltb_spec cnt 2).
      { exists l. split; [reflexivity|]. split; [apply relR_refl|]. split.
        - intros a b Ha Hab Hb. replace b with a by lia. lia.
        - intros _ a m c Ha Ham Hmc Hcc. lia. }
      destruct (Z.eqb_spec cnt 2) as [->|].
      { destruct (Z.ltb_spec (code l (p + 1)) (code l p)).
        - rewrite (swp_ok sw Hsw) by lia. exists (swap l p (p + 1)). split; [reflexivity|]. split; [apply relR_swap; lia|]. split.
          + intros a b Ha Hab Hb. rewrite !code_swap by lia.
            destruct (Z.eqb_spec a (p + 1)); destruct (Z.eqb_spec b (p + 1)); destruct (Z.eqb_spec a p); destruct (Z.eqb_spec b p); lia.
          + intros _ a m c Ha Ham Hmc Hcc. lia.
        - exists l. split; [reflexivity|]. split; [apply relR_refl|]. split.
          + intros a b Ha Hab Hb. destruct (Z.eq_dec a b) as [->|]; [lia|]. replace a with p by lia. replace b with (p + 1) by lia. lia.
          + intros _ a m c Ha Ham Hmc Hcc. lia. }
      destruct (Z.leb_spec cnt (selMax R)).
      { apply (pvSelectionSort_spec sw Hsw eqf grp wantG p cnt Hp Hgrp); lia. }
      apply IHr; auto; lia.
    - (* ---- pvRadixSort ---- *)
      rewrite radix_f_eq. cbv zeta.
      pose proof (cnt_loop_spec R l p shift (code l p) (getRadix R (code l p) shift) (Z.to_nat (cnt - 1)) 1
                    (upd (fun _ => 0) (getRadix R (code l p) shift) 1) true true) as CS.
      destruct (cnt_loop R (Z.to_nat (cnt - 1)) l p shift 1 (code l p) (getRadix R (code l p) shift) _ true true) as [[ei1 sc] sr].
      destruct CS as (CE & CSC & CSR).
      replace (1 + Z.of_nat (Z.to_nat (cnt - 1))) with cnt in * by lia.
      set (D := Dg R p shift) in *.
      assert (D0 : D l 0 = getRadix R (code l p) shift) by (unfold D, Dg; rewrite Z.add_0_r; reflexivity).
      set (g := fun r => cz (fun k => D l k =? r) 0 cnt).
      assert (Hei1 : forall r, ei1 r = g r).
      { intros r. rewrite CE. unfold g. rewrite (cz_split _ 0 1 cnt) by lia. change 1 with (0 + 1) at 3. rewrite cz_one, D0.
        unfold upd. destruct (Z.eqb_spec r (getRadix R (code l p) shift)) as [->|Nr].
        - rewrite Z.eqb_refl. reflexivity.
        - destruct (Z.eqb_spec (getRadix R (code l p) shift) r); [lia|reflexivity]. }
      destruct sc.
      { (* single code *)
        destruct (proj1 CSC eq_refl) as [_ Hall].
        apply const_group_post; try lia.
        intros a b Ha Hb.
        assert (X : forall x, p <= x < p + cnt -> code l x = code l p).
        { intros x Hx. destruct (Z.eq_dec x p) as [->|]; [reflexivity|]. replace x with (p + (x - p)) by lia. apply Hall. lia. }
        rewrite (X a Ha), (X b Hb). reflexivity. }
      assert (Hnsc : ~ forall k, 1 <= k < cnt -> code l (p + k) = code l p).
      { intros X. assert (false = true) by (apply CSC; auto). discriminate. }
      assert (Hdigit_agree : forall a b, p <= a < p + cnt -> p <= b < p + cnt -> D l (a - p) = D l (b - p) ->
                code l a / 2 ^ shift = code l b / 2 ^ shift).
      { intros a b Ha Hb Hd. apply (digit_eq_agree R); try lia. apply HAG; lia.
        unfold D, Dg in Hd. replace (p + (a - p)) with a in Hd by lia. replace (p + (b - p)) with b in Hd by lia. exact Hd. }
      destruct sr.
      { (* single radix *)
        destruct (proj1 CSR eq_refl) as [_ Hall].
        assert (Hsame : forall a b, p <= a < p + cnt -> p <= b < p + cnt -> code l a / 2 ^ shift = code l b / 2 ^ shift).
        { intros a b Ha Hb. apply Hdigit_agree; auto.
          assert (X : forall x, p <= x < p + cnt -> D l (x - p) = getRadix R (code l p) shift).
          { intros x Hx. destruct (Z.eq_dec x p) as [->|]; [replace (p - p) with 0 by lia; exact D0|apply Hall; lia]. }
          rewrite (X a Ha), (X b Hb). reflexivity. }
        destruct (Z.ltb_spec 0 shift) as [Hpos|Hz].
        2:{ exfalso. apply Hnsc. intros k Hk. assert (shift = 0) by lia. subst shift.
            specialize (Hsame (p + k) p ltac:(lia) ltac:(lia)). rewrite !Z.pow_0_r, !Z.div_1_r in Hsame. exact Hsame. }
        apply IHr; try lia.
        - destruct (Z.ltb_spec R shift); lia.
        - destruct (Z.ltb_spec R shift); lia.
        - intros a b Ha Hb. apply (agree_up _ _ shift); try lia; [destruct (Z.ltb_spec R shift); lia|]. apply Hsame; auto. }
      (* ---- the general case: prefix sums, cycle-leader permutation, buckets ---- *)
      pose proof N_pos' as HNpos.
      assert (Hg0 : forall r, 0 <= g r) by (intros r; apply cz_nonneg).
      set (S := fun r => psum g (Z.to_nat r)).
      set (ei2 := psum_loop (Z.to_nat (radixCount R - 1)) 1 ei1).
      assert (Hei2 : forall r, 0 <= r < N -> ei2 r = S (r + 1)).
      { intros r Hr. unfold ei2, S. apply (psum_loop_spec g); try lia.
        all: try (fold N; lia).
        all: try (intros r' Hr'; apply Hei1).
        intros r' Hr'. replace r' with 0 by lia. rewrite Hei1. simpl. lia. }
      assert (HS0 : S 0 = 0) by reflexivity.
      assert (HSsucc : forall r, 0 <= r -> S (r + 1) = S r + g r).
      { intros r Hr. unfold S. replace (Z.to_nat (r + 1)) with (Datatypes.S (Z.to_nat r)) by lia. cbn [psum]. rewrite Z2Nat.id by lia. reflexivity. }
      assert (HSstep : forall r, 0 <= r < N -> S r <= S (r + 1)).
      { intros r Hr. rewrite HSsucc by lia. specialize (Hg0 r). lia. }
      assert (HDr : forall l0 k, 0 <= D l0 k < N) by (intros; unfold D, Dg, N, radixCount; apply getRadix_range; lia).
      assert (HSN : S N = cnt).
      { unfold S, g. rewrite (psum_cz_digits (D l) 0 cnt (Z.to_nat N)); [lia|lia|]. intros k Hk. rewrite Z2Nat.id by lia. apply HDr. }
      set (bi := fun r => if r =? 0 then 0 else ei2 (r - 1)).
      assert (Hbi : forall r, 0 <= r < N -> bi r = S r).
      { intros r Hr. unfold bi. destruct (Z.eqb_spec r 0) as [->|]; [reflexivity|]. rewrite Hei2 by lia. f_equal. lia. }
      destruct (perm_loop_spec sw Hsw R ltac:(lia) p cnt shift Hp Hs S ei2 Hei2 HS0 HSN HSstep
                  (Datatypes.S (Z.to_nat (cnt + radixCount R))) l 0 bi) as (l1 & E1 & R1 & Fin1); try (fold N; lia); auto.
      { split; [|split].
        - intros r Hr. rewrite Hbi by exact Hr. specialize (HSstep r Hr). lia.
        - intros r Hr k Hk. rewrite Hbi in Hk by exact Hr. lia.
        - intros r Hr. fold D. rewrite HSsucc by lia. unfold g. lia. }
      { assert (Mz R S bi = cnt).
        { unfold Mz. fold N. rewrite (psum_ext (fun r => S (r + 1) - S r)).
          - rewrite psum_tele. rewrite Z2Nat.id by lia. lia.
          - intros r Hr. rewrite Hbi by lia. reflexivity. }
        fold N. lia. }
      fold ei2 bi. rewrite E1. cbn [bind]. fold D in Fin1.
      pose proof R1 as (_ & L1 & _ & Rg1).
      set (H := code l p / 2 ^ (shift + R)).
      set (Pre := fun (l0 : arr) (r : Z) => forall k, S r <= k < S (r + 1) -> D l0 k = r /\ code l0 (p + k) / 2 ^ (shift + R) = H).
      set (Post := fun (l0 : arr) (r : Z) => sortedR l0 (p + S r) (p + S (r + 1)) /\ (wantG -> groupedR eqf l0 (p + S r) (p + S (r + 1)))).
      assert (HPre1 : forall r, 0 <= r < N -> Pre l1 r).
      { intros r Hr k Hk. split; [apply Fin1; auto|].
        pose proof (S_mono R S HSstep 0 r ltac:(lia) ltac:(lia) ltac:(fold N; lia)).
        pose proof (S_mono R S HSstep (r + 1) N ltac:(lia) ltac:(lia) ltac:(fold N; lia)).
        apply (Rg1 (fun e => fst e / 2 ^ (shift + R) = H)); [|lia].
        intros k' Hk'. unfold H. apply (HAG k' p); lia. }
      assert (Hsub : forall r, 0 <= r < N -> 0 <= S r /\ S r <= S (r + 1) /\ S (r + 1) <= cnt).
      { intros r Hr. pose proof (S_mono R S HSstep 0 r ltac:(lia) ltac:(lia) ltac:(fold N; lia)).
        pose proof (S_mono R S HSstep (r + 1) N ltac:(lia) ltac:(lia) ltac:(fold N; lia)). specialize (HSstep r Hr). lia. }
      assert (Hout : forall l0 l0' r r', 0 <= r < N -> 0 <= r' < N -> r <> r' -> relR (p + S r') (p + S (r' + 1)) l0 l0' ->
                forall k, p + S r <= k < p + S (r + 1) -> get l0' k = get l0 k).
      { intros l0 l0' r r' Hr Hr' Hne Rr k Hk. apply (relR_get_outside _ _ _ _ _ Rr); [destruct (Hsub r Hr); lia|].
        destruct (Z_lt_le_dec r r').
        - pose proof (S_mono R S HSstep (r + 1) r' ltac:(lia) ltac:(lia) ltac:(fold N; lia)). lia.
        - pose proof (S_mono R S HSstep (r' + 1) r ltac:(lia) ltac:(lia) ltac:(fold N; lia)). lia. }
      assert (HfPre : forall l0 l0' r r', 0 <= r < N -> 0 <= r' < N -> r <> r' -> relR (p + S r') (p + S (r' + 1)) l0 l0' -> Pre l0 r -> Pre l0' r).
      { intros l0 l0' r r' Hr Hr' Hne Rr HP k Hk. specialize (HP k Hk).
        unfold D, Dg, code in *. rewrite (Hout l0 l0' r r' Hr Hr' Hne Rr (p + k)) by lia. exact HP. }
      assert (HfPost : forall l0 l0' r r', 0 <= r < N -> 0 <= r' < N -> r <> r' -> relR (p + S r') (p + S (r' + 1)) l0 l0' -> Post l0 r -> Post l0' r).
      { intros l0 l0' r r' Hr Hr' Hne Rr [P1 P2]. split.
        - eapply sortedR_transfer; [|exact P1]. apply (Hout l0 l0' r r'); auto.
        - intros W. eapply groupedR_transfer; [|exact (P2 W)]. apply (Hout l0 l0' r r'); auto. }
      (* a bucket keeps its membership property under any rearrangement of itself *)
      assert (HPre_keep : forall l0 l0' r, 0 <= r < N -> relR (p + S r) (p + S (r + 1)) l0 l0' -> Pre l0 r -> Pre l0' r).
      { intros l0 l0' r Hr (_ & _ & _ & Rg) HP k Hk.
        assert (X : getRadix R (fst (get l0' (p + k))) shift = r /\ fst (get l0' (p + k)) / 2 ^ (shift + R) = H).
        { apply (Rg (fun e => getRadix R (fst e) shift = r /\ fst e / 2 ^ (shift + R) = H)); [|lia].
          intros k' Hk'. specialize (HP (k' - p) ltac:(lia)). unfold D, Dg, code in HP. replace (p + (k' - p)) with k' in HP by lia. exact HP. }
        exact X. }
      (* codes inside one bucket agree on code / 2^shift *)
      assert (Hbucket_agree : forall l0 r, Pre l0 r -> forall a b, p + S r <= a < p + S (r + 1) -> p + S r <= b < p + S (r + 1) ->
                code l0 a / 2 ^ shift = code l0 b / 2 ^ shift).
      { intros l0 r HP a b Ha Hb. destruct (HP (a - p) ltac:(lia)) as [Da Ha']. destruct (HP (b - p) ltac:(lia)) as [Db Hb'].
        unfold D, Dg in Da, Db. replace (p + (a - p)) with a in * by lia. replace (p + (b - p)) with b in * by lia.
        apply (digit_eq_agree R); try lia; congruence. }
      (* assembling the buckets *)
      assert (Assemble : forall l', relR p (p + cnt) l1 l' -> (forall r, 0 <= r < N -> Post l' r /\ Pre l' r) -> SortPost l l' p cnt).
      { intros l' R' Fin. split; [eapply relR_trans; eauto|].
        assert (Bk : forall x, p <= x < p + cnt -> exists r, 0 <= r < N /\ p + S r <= x < p + S (r + 1)).
        { intros x Hx. destruct (bucket_of R ltac:(lia) cnt S HS0 HSN (x - p) ltac:(lia)) as (r & Hr & Hk). exists r. split; [exact Hr|lia]. }
        assert (Dx : forall x r, 0 <= r < N -> p + S r <= x < p + S (r + 1) ->
                  getRadix R (code l' x) shift = r /\ code l' x / 2 ^ (shift + R) = H).
        { intros x r Hr Hx. destruct (Fin r Hr) as [_ HP]. specialize (HP (x - p) ltac:(lia)). unfold D, Dg in HP.
          replace (p + (x - p)) with x in HP by lia. exact HP. }
        split.
        - intros a b Ha Hab Hb. destruct (Bk a ltac:(lia)) as (ra & Hra & Hka). destruct (Bk b ltac:(lia)) as (rb & Hrb & Hkb).
          destruct (Z.eq_dec ra rb) as [->|Hne].
          + destruct (Fin rb Hrb) as [[Sd _] _]. apply Sd; lia.
          + assert (ra < rb).
            { destruct (Z_lt_le_dec ra rb); [assumption|]. pose proof (S_mono R S HSstep (rb + 1) ra ltac:(lia) ltac:(lia) ltac:(fold N; lia)). lia. }
            destruct (Dx a ra Hra Hka) as [Da Ha']. destruct (Dx b rb Hrb Hkb) as [Db Hb'].
            pose proof (digit_lt_code_lt R (code l' a) (code l' b) shift ltac:(lia) Hs ltac:(congruence) ltac:(lia)). lia.
        - intros W a m c Ha Ham Hmc Hcc Hcode Eac.
          destruct (Bk a ltac:(lia)) as (ra & Hra & Hka). destruct (Bk c ltac:(lia)) as (rc & Hrc & Hkc).
          destruct (Dx a ra Hra Hka) as [Da _]. destruct (Dx c rc Hrc Hkc) as [Dc _]. rewrite Hcode in Da.
          assert (Hrr : rc = ra) by congruence. rewrite Hrr in Hkc.
          destruct (Fin ra Hra) as [[_ Gd] _]. apply (Gd W a m c); [lia|lia|lia|lia|exact Hcode|exact Eac]. }
      destruct (Z.ltb_spec 0 shift) as [Hpos|Hz].
      + (* recursion into every bucket with the next shift *)
        set (ns := if R <? shift then shift - R else 0).
        assert (Hns : 0 <= ns /\ ns < shift /\ shift <= ns + R) by (unfold ns; destruct (Z.ltb_spec R shift); lia).
        destruct (buckets_spec (fun l0 b c => sort_f sw R grp f l0 (p + b) c ns) S ei2 p cnt Pre Post Hp Hei2 HS0 HSN HSstep) with (n := Z.to_nat (radixCount R)) (r := 0) (l := l1)
          as (l' & E' & R' & Fin); auto; try (fold N; lia).
        * intros l0 r Hr Hl0 HP. destruct (Hsub r Hr) as (B1 & B2 & B3).
          destruct (IHs l0 (p + S r) (S (r + 1) - S r) ns) as (l0' & E0 & (Rr & Sd & Gd)); try lia.
          { intros a b Ha Hb. apply (agree_up _ _ shift); try lia. apply (Hbucket_agree l0 r HP); lia. }
          replace (p + S r + (S (r + 1) - S r)) with (p + S (r + 1)) in * by lia.
          exists l0'. split; [exact E0|]. split; [exact Rr|]. split; [split; assumption|]. apply (HPre_keep l0 l0' r); auto.
        * rewrite HS0 in E'. exists l'. split; [exact E'|]. apply Assemble; auto.
      + (* shift = 0: every bucket holds one code; group callback *)
        assert (shift = 0) by lia. subst shift.
        destruct (buckets_spec (fun l0 b c => grp l0 (p + b) c) S ei2 p cnt Pre Post Hp Hei2 HS0 HSN HSstep) with (n := Z.to_nat (radixCount R)) (r := 0) (l := l1)
          as (l' & E' & R' & Fin); auto; try (fold N; lia).
        * intros l0 r Hr Hl0 HP. destruct (Hsub r Hr) as (B1 & B2 & B3).
          destruct (const_group_post l0 (p + S r) (S (r + 1) - S r)) as (l0' & E0 & (Rr & Sd & Gd)); try lia.
          { intros a b Ha Hb. pose proof (Hbucket_agree l0 r HP a b ltac:(lia) ltac:(lia)) as X.
            rewrite !Z.pow_0_r, !Z.div_1_r in X. exact X. }
          replace (p + S r + (S (r + 1) - S r)) with (p + S (r + 1)) in * by lia.
          exists l0'. split; [exact E0|]. split; [exact Rr|]. split; [split; assumption|]. apply (HPre_keep l0 l0' r); auto.
        * rewrite HS0 in E'. exists l'. split; [exact E'|]. apply Assemble; auto.
  Qed.
End RadixMain.

(* ---------------- RadixSorter<R>::Sort as a whole ---------------- *)
Section Top.
  Variable sw : arr -> Z -> Z -> arr.
  Hypothesis Hsw : forall l i j, sw l i j = swap l i j.
  Variable eqf : Z -> Z -> bool.
  Hypothesis eqf_refl : forall a, eqf a a = true.
  Hypothesis eqf_sym : forall a b, eqf a b = true -> eqf b a = true.
  Hypothesis eqf_trans : forall a b c, eqf a b = true -> eqf b c = true -> eqf a c = true.

  Lemma group_contract (g : bool) : forall l q c, 0 <= q -> 0 <= c -> q + c <= alen l ->
    exists l', (if g then hs_group sw eqf else no_group) l q c = Ok l' /\ relR q (q + c) l l' /\ (g = true -> contigL eqf l' q (q + c)).
  Proof.
    intros l q c Hq Hc Hl. destruct g.
    - destruct (hs_group_contract sw Hsw eqf eqf_refl eqf_sym eqf_trans l q c Hq Hc Hl) as (l' & E & Rl & C). exists l'. auto.
    - exists l. split; [reflexivity|]. split; [apply relR_refl|discriminate].
  Qed.

  (* RadixSorter<R>::Sort for EVERY radix size R >= 1 (so 1..16), every code width W, with HashSorter's group callback
     (g = true) or the empty one (g = false), every array of W-bit codes: the run terminates within its fuel, no swap leaves
     the array, no assertion fires, and the result is a permutation of the input with non-decreasing codes; with grouping,
     equal items are contiguous inside every run of equal codes. *)
  Theorem RadixSortG_total R g W l : 1 <= R -> 0 <= W -> (forall k, 0 <= k < alen l -> 0 <= code l k < 2 ^ W) ->
    exists l', RadixSortG sw eqf R g W l = Ok l' /\ Permutation l l' /\ alen l' = alen l /\
      sortedR l' 0 (alen l') /\ (g = true -> groupedR eqf l' 0 (alen l')).
  Proof.
    intros HR HW Hcodes. unfold RadixSortG, RadixSort.
    set (shift := if R <? W then W - R else 0).
    assert (Hsh : 0 <= shift /\ shift <= W /\ W <= shift + R) by (unfold shift; destruct (Z.ltb_spec R W); lia).
    destruct (proj1 (sort_radix_total sw Hsw eqf R HR _ (g = true) (group_contract g) (Z.to_nat (2 * W + 8))) l 0 (alen l) shift)
      as (l' & E & (Rl & Sd & Gd)); try lia.
    - unfold alen. lia.
    - intros a b Ha Hb.
      assert (Z0 : forall x, 0 <= x < alen l -> code l x / 2 ^ (shift + R) = 0).
      { intros x Hx. apply Z.div_small. specialize (Hcodes x Hx).
        assert (2 ^ W <= 2 ^ (shift + R)) by (apply Z.pow_le_mono_r; lia). lia. }
      rewrite (Z0 a), (Z0 b) by lia. reflexivity.
    - destruct Rl as (P & L & _). exists l'. rewrite L. simpl in Sd, Gd. auto.
  Qed.
End Top.
