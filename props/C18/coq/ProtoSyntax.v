(* C18 (copied from props/C07/coq/ProtoSyntax.v) / deep embedding of C++ statement trees, the target of props/C07/proto2coq.py (identifiers are strings; nothing is
   interpreted by the generator).  Gen_Protocol.v contains one `list pstmt` per dumped member function of DataIndexes /
   UniqueHash / MultiHash; ProtoSem.v gives them a meaning over the hand model and proves it equal to the hand model. *)
From Coq Require Import String List ZArith.

Inductive pexpr :=
| ENone                                                  (* no object: free function / call on this *)
| EVar (x : string)                                      (* local, parameter, data member of this, enumerator *)
| ENum (z : Z)                                           (* integer / bool literal, nullptr = 0 *)
| EMember (obj : pexpr) (field : string)                 (* obj.field *)
| EUn (op : string) (a : pexpr)                          (* built-in or overloaded unary operator *)
| EBin (op : string) (a b : pexpr)                       (* built-in or overloaded binary operator, "=" included *)
| ECall (obj : pexpr) (method : string) (args : list pexpr)   (* obj.method(args); obj(args) has method "()" *)
| ECtor (type : string) (args : list pexpr)              (* T(args) / { args } *)
| EOther (kind : string).

Inductive pstmt :=
| SExpr (e : pexpr)
| SDecl (x : string) (init : pexpr)
| SLambda (x : string) (body : list pstmt)               (* auto x = [..] () { body }; *)
| SIf (c : pexpr) (th el : list pstmt)
| SFor (x : string) (container : pexpr) (body : list pstmt)           (* range-based for *)
| SForC (init : list pstmt) (cond inc : pexpr) (body : list pstmt)    (* for (init; cond; inc) *)
| SWhile (cond : pexpr) (body : list pstmt)
| STry (body handler : list pstmt)                       (* try { body } catch (...) { handler } *)
| SReturn (e : pexpr)
| SContinue | SBreak | SThrow
| SOther (kind : string).
