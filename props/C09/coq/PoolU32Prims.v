(* C09: the two memory primitives used by the GENERATED MemPoolUInt32 functions (Gen_MemPoolUInt32.v).
   `mem a` is the uint32_t stored AT ADDRESS a (internal::MemCopyer::ToBuffer / FromBuffer of a uint32_t, MemPool.h 892-900).
   One cell per address is faithful only while all addresses used are equal or >= 4 bytes apart; PoolU32List.v proves that every
   address the pool reads or writes is the address of a block with a valid handle and that such blocks are >= mBlockSize >= 4 apart. *)
From Coq Require Import ZArith.
From MomoCommon Require Import GenPrelude.
Local Open Scope Z_scope.

Definition store32 (mem : Z -> Z) (v p : Z) : Z -> Z := upd mem p v.      (* pvSetNextBlock(v, p) *)
Definition load32 (mem : Z -> Z) (p : Z) : Z := mem p.                    (* pvGetNextBlock(p) *)
