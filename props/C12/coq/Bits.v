(* Bit-level toolkit for C12: testbit characterisations of the operators the generated code uses. *)
From Coq Require Import ZArith Bool Lia.
From MomoCommon Require Import GenPrelude.
Local Open Scope Z_scope.

Lemma tb_wrapU w x n : 0 <= w -> 0 <= n -> Z.testbit (wrapU w x) n = (n <? w) && Z.testbit x n.
Proof.
  intros Hw Hn. unfold wrapU. destruct (Z.ltb_spec n w).
  - rewrite Z.mod_pow2_bits_low by lia. reflexivity.
  - rewrite Z.mod_pow2_bits_high by lia. reflexivity.
Qed.

Lemma tb_ones k n : 0 <= k -> 0 <= n -> Z.testbit (Z.ones k) n = (n <? k).
Proof. intros. apply Z.testbit_ones_nonneg; lia. Qed.

Lemma pow2m1_ones k : 2 ^ k - 1 = Z.ones k.
Proof. rewrite Z.ones_equiv. lia. Qed.

Lemma shl1_pow2 k : 0 <= k -> Z.shiftl 1 k = 2 ^ k.
Proof. intros. rewrite Z.shiftl_mul_pow2 by lia. lia. Qed.

Lemma tb_pow2 k n : 0 <= k -> Z.testbit (2 ^ k) n = (k =? n).
Proof. intros. apply Z.pow2_bits_eqb; lia. Qed.

Lemma tb_small x k n : 0 <= x < 2 ^ k -> 0 <= k -> 0 <= n -> Z.testbit x n = (n <? k) && Z.testbit x n.
Proof.
  intros Hx Hk Hn. destruct (Z.ltb_spec n k); [reflexivity|].
  rewrite <- (Z.mod_small x (2 ^ k)) by lia. rewrite Z.mod_pow2_bits_high by lia. reflexivity.
Qed.

Lemma pow2_le_mono a b : 0 <= a <= b -> 2 ^ a <= 2 ^ b.
Proof. intros. apply Z.pow_le_mono_r; lia. Qed.

Lemma pow2_lt_mono a b : 0 <= a < b -> 2 ^ a < 2 ^ b.
Proof. intros. apply Z.pow_lt_mono_r; lia. Qed.

(* the main normalisation tactic: push testbit through the operators; side conditions by lia *)
Ltac tb_norm :=
  repeat first
    [ rewrite Z.lor_spec | rewrite Z.land_spec
    | rewrite Z.shiftl_spec by lia | rewrite Z.shiftr_spec by lia
    | rewrite tb_wrapU by lia | rewrite tb_ones by lia | rewrite tb_pow2 by lia
    | rewrite Z.bits_0 ].

(* decide the comparison atoms and close by congruence on testbit positions *)
Ltac tb_cases :=
  repeat match goal with
  | |- context [?a <? ?b] => destruct (Z.ltb_spec a b)
  | |- context [?a =? ?b] => destruct (Z.eqb_spec a b)
  end;
  simpl; rewrite ?andb_true_r, ?andb_false_r, ?orb_false_r, ?orb_true_r, ?orb_false_l, ?andb_true_l; try reflexivity; try lia;
  try (rewrite ?Z.testbit_neg_r by lia; reflexivity);
  try (f_equal; lia).
