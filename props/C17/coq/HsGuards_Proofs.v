(* C17: the GENERATED entry guards of HashSorter::pvFindHash / pvIsSorted (Gen_HsGuards.v, regenerated from HashSorter.h on
   every run) return before any dereference exactly when count = 0 (fix 2715474), with the values the hand model returns. *)
From Coq Require Import ZArith Bool List Lia.
From MomoCommon Require Import GenPrelude.
From C17 Require Import SorterSearch Gen_HsGuards.
Local Open Scope Z_scope.

Theorem gen_guards_spec : forall count,
  pvFindHash_returns_early count = (count =? 0) /\ pvFindHash_early_value = false /\
  pvIsSorted_returns_early count = (count =? 0) /\ pvIsSorted_early_value = true.
Proof. intros count. repeat split. Qed.

(* refinement: when the generated guard fires, the hand model returns the guarded value and has read nothing *)
Theorem gen_guards_refine_model MS SC CMP count hash item eqf qh :
  (pvFindHash_returns_early count = true -> SorterSearch.pvFindHash MS SC CMP count hash qh = Ok (0, pvFindHash_early_value)) /\
  (pvIsSorted_returns_early count = true -> SorterSearch.pvIsSorted count hash item eqf = Ok pvIsSorted_early_value) /\
  (pvFindHash_returns_early 0 = true /\ pvIsSorted_returns_early 0 = true).
Proof.
  destruct (gen_guards_spec count) as (A & B & C & D). split; [|split].
  - rewrite A, B. intros H. unfold SorterSearch.pvFindHash. rewrite H. reflexivity.
  - rewrite C, D. intros H. unfold SorterSearch.pvIsSorted. rewrite H. reflexivity.
  - destruct (gen_guards_spec 0) as (A0 & _ & C0 & _). rewrite A0, C0. split; reflexivity.
Qed.
