(* C18 -- the per-item life cycle code pvCreate<Item, Items...> (a variadic template recursion with a try/catch around the recursive
   instantiation) is not translatable by cxx2coq.  Gen_PvCreate.v holds the statement trees of ALL its instantiations (deep embedding,
   dumped without interpretation).  Here: (1) a classifier reads each tree as a sequence of life-cycle acts (anything it does not
   recognise = None); (2) every recursive instantiation is [construct THIS item; try { recurse } catch { destroy THIS item; rethrow }]
   and every base instantiation is empty (checked by computation on the generated trees); (3) the meaning of such act sequences is
   defined and proved equal to the hand model RawLife.create_group that the row theorems are about. *)
From Coq Require Import String List ZArith Bool Arith Lia.
From C18 Require Import ProtoSyntax RawLife Gen_PvCreate.
Import ListNotations.
Local Open Scope string_scope.
Local Open Scope list_scope.

Inductive act := Construct | Rec | DestroyThis | Rethrow | TryCatch (body handler : list act).

(* does an expression mention one of the life-cycle calls? (they must only occur as whole statements) *)
Fixpoint mentions (e : pexpr) : bool :=
  let fix any (l : list pexpr) : bool := match l with [] => false | x :: r => mentions x || any r end in
  match e with
  | ENone | EVar _ | ENum _ | EOther _ => false
  | EMember o _ => mentions o
  | EUn _ a => mentions a
  | EBin _ a b => mentions a || mentions b
  | ECall o m args => mentions o || any args || String.eqb m "Create" || String.eqb m "Copy" || String.eqb m "Destroy" || String.eqb m "pvCreate"
  | ECtor _ args => any args
  end.

Definition is_item (e : pexpr) : bool := match e with EVar x => String.eqb x "item" | _ => false end.
Definition is_deref_item (e : pexpr) : bool := match e with EUn op a => String.eqb op "*" && is_item a | _ => false end.
Definition is_next_columns (e : pexpr) : bool :=
  match e with EBin op (EVar x) (ENum 1%Z) => String.eqb op "+" && String.eqb x "columns" | _ => false end.

Definition classify (e : pexpr) : option (list act) :=
  match e with
  | ECall ENone m args =>
    if existsb mentions args then None else
    if String.eqb m "Create" || String.eqb m "Copy" then (if is_item (last args ENone) then Some [Construct] else None)
    else if String.eqb m "Destroy" then (if is_deref_item (last args ENone) then Some [DestroyThis] else None)
    else if String.eqb m "pvCreate" then (if is_next_columns (nth 1 args ENone) then Some [Rec] else None)
    else None
  | EBin op _ rhs => if String.eqb op "=" && negb (mentions e) then Some [] else None
  | _ => None
  end.

(* flat tokens, to compare act sequences *)
Fixpoint flat (a : act) : list nat :=
  let fix fl (l : list act) : list nat := match l with [] => [] | x :: r => flat x ++ fl r end in
  match a with
  | Construct => [1] | Rec => [2] | DestroyThis => [3] | Rethrow => [4]
  | TryCatch b h => 5 :: fl b ++ 6 :: fl h ++ [7]
  end%nat.
Definition flats (l : list act) : list nat := flat_map flat l.
Definition same_acts (a b : list act) : bool := if list_eq_dec Nat.eq_dec (flats a) (flats b) then true else false.

Fixpoint acts_stmt (s : pstmt) : option (list act) :=
  let fix acts_list (l : list pstmt) : option (list act) :=
    match l with
    | [] => Some []
    | x :: r => match acts_stmt x, acts_list r with Some a, Some b => Some (a ++ b) | _, _ => None end
    end in
  match s with
  | SDecl _ e => if mentions e then None else Some []
  | SExpr e => classify e
  | SIf c th el =>
    if mentions c then None else
    match acts_list th, acts_list el with
    | Some a, Some b => if same_acts a b then Some a else None     (* both branches do the same to the item (Create vs Copy) *)
    | _, _ => None
    end
  | STry b h => match acts_list b, acts_list h with Some a, Some c => Some [TryCatch a c] | _, _ => None end
  | SThrow => Some [Rethrow]
  | _ => None
  end.
Fixpoint acts_of (l : list pstmt) : option (list act) :=
  match l with
  | [] => Some []
  | x :: r => match acts_stmt x, acts_of r with Some a, Some b => Some (a ++ b) | _, _ => None end
  end.

Definition step_acts : list act := [Construct; TryCatch [Rec] [DestroyThis; Rethrow]].

(* AST facts about the CURRENT source, by computation on the generated trees: every instantiation of the recursive step has exactly
   this shape, every base instantiation does nothing *)
Lemma all_steps_have_the_shape : forallb (fun b => match acts_of b with Some a => same_acts a step_acts | None => false end) pvCreate_steps = true.
Proof. vm_compute. reflexivity. Qed.
Lemma all_bases_are_empty : forallb (fun b => match acts_of b with Some [] => true | _ => false end) pvCreate_bases = true.
Proof. vm_compute. reflexivity. Qed.
Lemma instantiations_exist : pvCreate_steps <> [] /\ pvCreate_bases <> [].
Proof. split; discriminate. Qed.

Lemma shape_facts :
  forallb (fun b => match acts_of b with Some a => same_acts a step_acts | None => false end) pvCreate_steps = true /\
  forallb (fun b => match acts_of b with Some [] => true | _ => false end) pvCreate_bases = true /\
  pvCreate_steps <> [] /\ pvCreate_bases <> [].
Proof. split; [exact all_steps_have_the_shape|]. split; [exact all_bases_are_empty|exact instantiations_exist]. Qed.

(* ---------- meaning of act sequences: result = (events, completed without exception, failure schedule afterwards) ---------- *)
Section Sem.
  Variable c : nat.                                                   (* THIS item's column *)
  Variable rest : option nat -> list ev * bool * option nat.          (* the recursive instantiation pvCreate<Items...> *)
  Fixpoint run_act (a : act) (k : option nat) : list ev * bool * option nat :=
    let fix run_list (l : list act) (k : option nat) : list ev * bool * option nat :=
      match l with
      | [] => ([], true, k)
      | x :: r => let '(t, ok, k1) := run_act x k in
                  if ok then let '(t2, ok2, k2) := run_list r k1 in (t ++ t2, ok2, k2) else (t, false, k1)
      end in
    match a with
    | Construct => match k with Some O => ([], false, None) | _ => ([Ctor c], true, dec k) end
    | Rec => rest k
    | DestroyThis => ([Dtor c], true, k)
    | Rethrow => ([], false, k)
    | TryCatch b h => let '(t, ok, k1) := run_list b k in
                      if ok then (t, true, k1) else let '(t2, ok2, k2) := run_list h k1 in (t ++ t2, ok2, k2)
    end.
  Fixpoint run (l : list act) (k : option nat) : list ev * bool * option nat :=
    match l with
    | [] => ([], true, k)
    | x :: r => let '(t, ok, k1) := run_act x k in
                if ok then let '(t2, ok2, k2) := run r k1 in (t ++ t2, ok2, k2) else (t, false, k1)
    end.
End Sem.

(* the shape found in the source means exactly one step of the hand model *)
Lemma step_is_create_group c cs k :
  run c (fun k' => create_group k' cs) step_acts k = create_group k (c :: cs).
Proof.
  unfold step_acts. cbn [run run_act create_group].
  destruct k as [[|n]|]; cbn [dec]; try reflexivity;
    destruct (create_group _ cs) as [[t ok] k2]; destruct ok; cbn [app]; rewrite ?app_nil_r; reflexivity.
Qed.

Lemma step_run_ext c r1 r2 k : (forall k', r1 k' = r2 k') -> run c r1 step_acts k = run c r2 step_acts k.
Proof.
  intros H. unfold step_acts. cbn [run run_act]. destruct k as [[|n]|]; cbn [dec]; try reflexivity; rewrite H; reflexivity.
Qed.

(* interpretation of a generated tree *)
Definition interp (b : list pstmt) (c : nat) (rest : option nat -> list ev * bool * option nat) (k : option nat) :=
  match acts_of b with Some a => Some (run c rest a k) | None => None end.

(* the whole recursion over a group of items, reading each level through a generated instantiation (sb = any step instantiation,
   bb = any base instantiation): it is the hand model create_group *)
Fixpoint interp_group (sb bb : list pstmt) (cs : list nat) (k : option nat) : option (list ev * bool * option nat) :=
  match cs with
  | [] => interp bb 0 (fun k' => ([], true, k')) k
  | c :: cs' => match acts_of sb with
                | Some a => if same_acts a step_acts
                            then Some (run c (fun k' => match interp_group sb bb cs' k' with Some r => r | None => ([], false, None) end) step_acts k)
                            else None
                | None => None
                end
  end.

Theorem generated_pvCreate_is_create_group sb bb : In sb pvCreate_steps -> In bb pvCreate_bases ->
  forall cs k, interp_group sb bb cs k = Some (create_group k cs).
Proof.
  intros Hs Hb.
  pose proof all_steps_have_the_shape as S. rewrite forallb_forall in S. specialize (S sb Hs).
  pose proof all_bases_are_empty as B. rewrite forallb_forall in B. specialize (B bb Hb).
  induction cs as [|c cs IH]; intros k; cbn [interp_group].
  - unfold interp. destruct (acts_of bb) as [[|? ?]|]; try discriminate. reflexivity.
  - destruct (acts_of sb) as [a|]; [|discriminate]. rewrite S. f_equal.
    rewrite <- step_is_create_group. apply step_run_ext. intros k'. rewrite IH. reflexivity.
Qed.
