#!/usr/bin/env python3
"""run `exe` over the stdin lines in N contiguous chunks in parallel; outputs concatenated in order.
usage: parrun.py N exe [args...]   (both sides of the C16 correspondence use it: the extracted Coq integers are slow)"""
import sys, subprocess, tempfile, os
n = int(sys.argv[1]); cmd = sys.argv[2:]
lines = sys.stdin.read().splitlines()
if not lines:
    sys.exit(0)
# balance by cost: a range line `xxr L lo n` costs n
cost = [int(l.split()[3]) if l[2:3] == 'r' and len(l.split()) == 4 else 1 for l in lines]
total = sum(cost); chunks = []; cur = []; acc = 0; target = total / n
for l, c in zip(lines, cost):
    cur.append(l); acc += c
    if acc >= target and len(chunks) < n - 1:
        chunks.append(cur); cur = []; acc = 0
if cur:
    chunks.append(cur)
procs = []
for ch in chunks:
    f = tempfile.TemporaryFile('w+'); f.write('\n'.join(ch) + '\n'); f.seek(0)
    procs.append((subprocess.Popen(cmd, stdin=f, stdout=subprocess.PIPE, text=True), f, len(ch)))
rc = 0
for p, f, k in procs:
    out, _ = p.communicate()
    sys.stdout.write(out)
    if p.returncode != 0:
        rc = p.returncode
    got = out.count('\n')
    if got < k:   # keep line alignment for the caller
        sys.stdout.write('<missing>\n' * (k - got))
sys.exit(rc)
