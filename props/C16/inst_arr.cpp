// instantiation TU for cxx2coq (C16, round 4): the container's own capacity / count functions
#include "momo/SegmentedArray.h"
namespace momo {
template class SegmentedArray<uint64_t, MemManagerDefault, SegmentedArrayItemTraits<uint64_t, MemManagerDefault>,
	SegmentedArraySettings<SegmentedArrayItemCountFunc::sqrt, 3>>;
template class SegmentedArray<uint64_t, MemManagerDefault, SegmentedArrayItemTraits<uint64_t, MemManagerDefault>,
	SegmentedArraySettings<SegmentedArrayItemCountFunc::cnst, 5>>;
}
