(* C09 (d): the layout theorem combined with the whole-history invariant: after every history, distinct live blocks of the
   concrete model denote disjoint, aligned address ranges inside the manager blocks of buffers that were not returned. *)
From Coq Require Import ZArith List Bool Lia.
From MomoCommon Require Import GenPrelude.
From C09 Require Gen_MemPool PoolLayout PoolArith PoolConc PoolInv PoolCompl.
Import ListNotations.
Local Open Scope Z_scope.

(* the address of block (buffer id, relative index): pvGetBlock(buffer pointer, firstBlockIndex + index), where the buffer
   pointer and first index are what pvNewBuffer computed from the manager address beg(buffer id) *)
Definition addr_of (C B A : Z) (beg : Z -> Z) (bk : PoolConc.blk) : Z :=
  match PoolLayout.new_buffer_layout C B A (beg (fst bk)) with
  | Ok (_, _, first, buffer) => PoolLayout.block_of B A buffer first (snd bk)
  | _ => 0
  end.

Lemma blocks_disjoint C B A beg bk bk' :
  PoolArith.legal C B A ->
  let size := Gen_MemPool.pvGetBufferSize C B A in
  PoolArith.begin_ok A size (beg (fst bk)) -> PoolArith.begin_ok A size (beg (fst bk')) ->
  0 <= snd bk < C -> 0 <= snd bk' < C -> bk <> bk' ->
  (fst bk <> fst bk' -> beg (fst bk) + size <= beg (fst bk') \/ beg (fst bk') + size <= beg (fst bk)) ->
  let a := addr_of C B A beg bk in let a' := addr_of C B A beg bk' in
  a mod A = 0 /\ beg (fst bk) <= a /\ a + B <= beg (fst bk) + size /\ (a + B <= a' \/ a' + B <= a).
Proof.
  intros L size B1 B2 R1 R2 Ne Man. cbv zeta. unfold addr_of.
  destruct (PoolArith.newbuffer_layout_thm C B A (beg (fst bk)) L B1) as (fb & first & buffer & E & _ & _ & _ & G & _).
  destruct (PoolArith.newbuffer_layout_thm C B A (beg (fst bk')) L B2) as (fb' & first' & buffer' & E' & _ & _ & _ & G' & _).
  rewrite E, E'. cbv zeta in G, G'.
  destruct (G (snd bk) R1) as (_ & al & lo & hi & pw & _). destruct (G' (snd bk') R2) as (_ & al' & lo' & hi' & pw' & _).
  fold size in hi, hi'. split; [exact al|]. split; [exact lo|]. split; [exact hi|].
  destruct (Z.eq_dec (fst bk) (fst bk')) as [Eb|Nb].
  - rewrite <- Eb in E'. rewrite E in E'. inversion E'; subst first' buffer'.
    assert (snd bk <> snd bk') as Ns by (intro Es; apply Ne; destruct bk, bk'; simpl in *; congruence).
    destruct (Z_lt_le_dec (snd bk) (snd bk')) as [Lt|Ge].
    + left. apply pw. lia.
    + right. apply pw'. lia.
  - destruct (Man Nb); [left|right]; lia.
Qed.

(* after EVERY history (Allocate / Deallocate / MergeFrom on both pools): two different live blocks - of the same pool or of
   different pools - occupy disjoint byte ranges [a, a+B), each aligned to blockAlignment and inside the manager block of its
   buffer, and that buffer has not been returned.  Assumptions: legal parameters, every buffer got an address the manager may
   return, and the manager's blocks for two different not-yet-returned buffers do not overlap. *)
Theorem live_blocks_disjoint_all_histories C B A CF uc beg ops :
  PoolArith.legal C B A ->
  let size := Gen_MemPool.pvGetBufferSize C B A in
  let w := PoolInv.grun C CF uc ops in
  (forall b, PoolArith.begin_ok A size (beg b)) ->
  (forall b b', b <> b' -> ~ In b (PoolConc.returned w) -> ~ In b' (PoolConc.returned w) ->
     beg b + size <= beg b' \/ beg b' + size <= beg b) ->
  forall p p' bk bk', In bk (PoolConc.live (PoolConc.getp w p)) -> In bk' (PoolConc.live (PoolConc.getp w p')) -> bk <> bk' ->
  let a := addr_of C B A beg bk in let a' := addr_of C B A beg bk' in
  ~ In (fst bk) (PoolConc.returned w) /\
  a mod A = 0 /\ beg (fst bk) <= a /\ a + B <= beg (fst bk) + size /\ (a + B <= a' \/ a' + B <= a).
Proof.
  intros L size w Beg Man p p' bk bk' H H' Ne. cbv zeta.
  assert (1 <= C) as HC by (destruct L; lia).
  destruct (PoolInv.J_all_histories C HC CF uc ops) as (Jw & _). fold w in Jw.
  assert (forall q k, In k (PoolConc.live (PoolConc.getp w q)) -> 0 <= snd k < C /\ ~ In (fst k) (PoolConc.returned w)) as Fact.
  { intros q k Hk. pose proof (proj1 (PoolInv.J_any C q w) Jw) as (_ & (_ & P2 & _ & _ & _ & _ & P7 & _) & _).
    destruct (P7 k) as (r & _ & o); [left; unfold PoolInv.lb; apply in_or_app; left; exact Hk|]. split; [exact r|exact (proj2 (P2 _ o))]. }
  destruct (Fact p bk H) as (R & NR). destruct (Fact p' bk' H') as (R' & NR').
  split; [exact NR|]. apply blocks_disjoint; auto.
Qed.

(* the bytes the pool itself uses in buffer b (first-index byte, BufferBytes, prev/next pointers, begin offset) *)
Definition meta_of (C B A : Z) (beg : Z -> Z) (b : Z) : list (Z * Z) :=
  match PoolLayout.new_buffer_layout C B A (beg b) with
  | Ok (_, _, first, buffer) => PoolLayout.meta_ranges C B A buffer first
  | _ => []
  end.

Lemma block_vs_meta C B A beg bk b' p len :
  PoolArith.legal C B A ->
  PoolArith.begin_ok A (Gen_MemPool.pvGetBufferSize C B A) (beg (fst bk)) ->
  PoolArith.begin_ok A (Gen_MemPool.pvGetBufferSize C B A) (beg b') -> 0 <= snd bk < C ->
  (fst bk <> b' -> beg (fst bk) + Gen_MemPool.pvGetBufferSize C B A <= beg b' \/ beg b' + Gen_MemPool.pvGetBufferSize C B A <= beg (fst bk)) ->
  In (p, len) (meta_of C B A beg b') ->
  p + len <= addr_of C B A beg bk \/ addr_of C B A beg bk + B <= p.
Proof.
  intros L B1 B2 R Man Hin.
  destruct (PoolArith.newbuffer_layout_thm C B A (beg (fst bk)) L B1) as (fb & first & buffer & E & _ & _ & _ & G & M).
  destruct (PoolArith.newbuffer_layout_thm C B A (beg b') L B2) as (fb' & first' & buffer' & E' & _ & _ & _ & _ & M').
  destruct (G (snd bk) R) as (_ & _ & lo & hi & _ & mt & _).
  assert (addr_of C B A beg bk = PoolLayout.block_of B A buffer first (snd bk)) as Ea by (unfold addr_of; rewrite E; reflexivity).
  rewrite Ea. clear Ea.
  destruct (Z.eq_dec (fst bk) b') as [Eb|Nb].
  - assert (meta_of C B A beg b' = PoolLayout.meta_ranges C B A buffer first) as Em by (unfold meta_of; rewrite <- Eb, E; reflexivity).
    rewrite Em in Hin. exact (mt p len Hin).
  - assert (meta_of C B A beg b' = PoolLayout.meta_ranges C B A buffer' first') as Em by (unfold meta_of; rewrite E'; reflexivity).
    rewrite Em in Hin. destruct (M' p len Hin) as (l1 & l2). destruct (Man Nb); [right|left]; lia.
Qed.

(* (3) END TO END, in the property's words.  After EVERY history of Allocate / Deallocate / MergeFrom on two pools, for every
   block that is handed out (live) at that moment:
     - it is aligned to blockAlignment and lies inside the memory block the manager gave for its buffer, which the pool still
       owns (not returned),
     - it overlaps no other live block of either pool,
     - it overlaps none of the pool's own bookkeeping bytes (first-index byte, BufferBytes, prev/next pointers, begin offset)
       of any buffer that is still owned; (the next-free index bytes and cache links live inside blocks that are in a free
       chain or in the cache, i.e. NOT live - C09_inv_all_histories),
     - and GetAllocateCount of each pool equals the number of its live blocks. *)
Theorem end_to_end C B A CF uc beg ops :
  PoolArith.legal C B A ->
  let size := Gen_MemPool.pvGetBufferSize C B A in
  let w := PoolInv.grun C CF uc ops in
  (forall b, PoolArith.begin_ok A size (beg b)) ->
  (forall b b', b <> b' -> ~ In b (PoolConc.returned w) -> ~ In b' (PoolConc.returned w) ->
     beg b + size <= beg b' \/ beg b' + size <= beg b) ->
  (forall p, PoolConc.acount (PoolConc.getp w p) = PoolConc.lenz (PoolConc.live (PoolConc.getp w p))) /\
  forall p bk, In bk (PoolConc.live (PoolConc.getp w p)) ->
    let a := addr_of C B A beg bk in
    a mod A = 0 /\ beg (fst bk) <= a /\ a + B <= beg (fst bk) + size /\ ~ In (fst bk) (PoolConc.returned w) /\
    (forall p' bk', In bk' (PoolConc.live (PoolConc.getp w p')) -> bk' <> bk ->
       let a' := addr_of C B A beg bk' in a + B <= a' \/ a' + B <= a) /\
    (forall b' q len, ~ In b' (PoolConc.returned w) -> In (q, len) (meta_of C B A beg b') -> q + len <= a \/ a + B <= q).
Proof.
  intros L size w Beg Man. assert (1 <= C) as HC by (destruct L; lia).
  split; [intros p; apply (PoolInv.count_and_distinct C HC CF uc ops p)|].
  intros p bk H. cbv zeta.
  destruct (PoolInv.J_all_histories C HC CF uc ops) as (Jw & _). fold w in Jw.
  pose proof (proj1 (PoolInv.J_any C p w) Jw) as (_ & (_ & P2 & _ & _ & _ & _ & P7 & _) & _).
  destruct (P7 bk) as (R & _ & o); [left; unfold PoolInv.lb; apply in_or_app; left; exact H|]. pose proof (proj2 (P2 _ o)) as NR.
  assert (a_facts : let a := addr_of C B A beg bk in a mod A = 0 /\ beg (fst bk) <= a /\ a + B <= beg (fst bk) + size).
  { unfold addr_of. destruct (PoolArith.newbuffer_layout_thm C B A (beg (fst bk)) L (Beg _)) as (fb & first & buffer & E & _ & _ & _ & G & _).
    rewrite E. cbv zeta in G. destruct (G (snd bk) R) as (_ & al & lo & hi & _). cbv zeta. tauto. }
  cbv zeta in a_facts. destruct a_facts as (f1 & f2 & f3).
  split; [exact f1|]. split; [exact f2|]. split; [exact f3|]. split; [exact NR|]. split.
  - intros p' bk' H' Ne.
    destruct (live_blocks_disjoint_all_histories C B A CF uc beg ops L Beg Man p p' bk bk' H H' (not_eq_sym Ne)) as (_ & _ & _ & _ & D). exact D.
  - intros b' q len NR' Hin.
    exact (block_vs_meta C B A beg bk b' q len L (Beg _) (Beg _) R (fun Nb => Man _ _ Nb NR NR') Hin).
Qed.

(* (4) the signed 8-bit indexes: for blockCount <= 127 every block index firstBlockIndex + j of a buffer (and hence every
   next-free index stored in a free block, BufferBytes.firstFreeBlockIndex, the ++blockIndex of pvNewBuffer's loop 630-635 and
   firstBlockIndex + int8_t(i) of pvDeleteBlocks 699) fits int8_t without wrap-around and is different from the chain
   terminator -128 (line 636); freeBlockCount <= blockCount <= 127 fits int8_t as well (line 625). *)
Theorem index_width C B A begin :
  PoolArith.legal C B A -> PoolArith.begin_ok A (Gen_MemPool.pvGetBufferSize C B A) begin ->
  exists fb first buffer,
    PoolLayout.new_buffer_layout C B A begin = Ok (fb, fb - begin, first, buffer) /\
    wrapS 8 C = C /\
    forall j, 0 <= j < C ->
      -127 <= first + j <= 126 /\ wrapS 8 (first + j) = first + j /\ first + j <> -128 /\
      wrapS 8 (first + j + 1) = first + j + 1 /\ wrapS 8 (first + wrapS 8 j) = first + j.
Proof.
  intros L Bg. destruct (PoolArith.newbuffer_layout_thm C B A begin L Bg) as (fb & first & buffer & E & _ & Fr & _).
  exists fb, first, buffer. split; [exact E|]. destruct L as (HC & _).
  split; [apply PoolArith.wrapS8_id; lia|]. intros j Hj.
  split; [lia|]. split; [apply PoolArith.wrapS8_id; lia|]. split; [lia|]. split; [apply PoolArith.wrapS8_id; lia|].
  rewrite (PoolArith.wrapS8_id j) by lia. apply PoolArith.wrapS8_id. lia.
Qed.

(* ---------- the same statements for ANY state that satisfies the invariant, and hence for the full alphabet ---------- *)
Lemma count_of_J C w p : PoolInv.J C w ->
  PoolConc.acount (PoolConc.getp w p) = PoolConc.lenz (PoolConc.live (PoolConc.getp w p)) /\ NoDup (PoolConc.live (PoolConc.getp w p)).
Proof.
  intros Jw. apply (PoolInv.J_any C p) in Jw. destruct Jw as (_ & (_ & _ & _ & _ & _ & P6 & _ & _ & P9) & _). split; [exact P9|].
  unfold PoolInv.lb in P6. apply PoolInv.NoDup_app_iff in P6. tauto.
Qed.

Theorem end_to_end_state C B A beg w :
  PoolArith.legal C B A -> PoolInv.J C w ->
  let size := Gen_MemPool.pvGetBufferSize C B A in
  (forall b, PoolArith.begin_ok A size (beg b)) ->
  (forall b b', b <> b' -> ~ In b (PoolConc.returned w) -> ~ In b' (PoolConc.returned w) ->
     beg b + size <= beg b' \/ beg b' + size <= beg b) ->
  (forall p, PoolConc.acount (PoolConc.getp w p) = PoolConc.lenz (PoolConc.live (PoolConc.getp w p))) /\
  forall p bk, In bk (PoolConc.live (PoolConc.getp w p)) ->
    let a := addr_of C B A beg bk in
    a mod A = 0 /\ beg (fst bk) <= a /\ a + B <= beg (fst bk) + size /\ ~ In (fst bk) (PoolConc.returned w) /\
    (forall p' bk', In bk' (PoolConc.live (PoolConc.getp w p')) -> bk' <> bk ->
       let a' := addr_of C B A beg bk' in a + B <= a' \/ a' + B <= a) /\
    (forall b' q len, ~ In b' (PoolConc.returned w) -> In (q, len) (meta_of C B A beg b') -> q + len <= a \/ a + B <= q).
Proof.
  intros L Jw size Beg Man.
  split; [intros p; apply (count_of_J C w p Jw)|].
  assert (forall q k, In k (PoolConc.live (PoolConc.getp w q)) -> 0 <= snd k < C /\ ~ In (fst k) (PoolConc.returned w)) as Fact.
  { intros q k Hk. pose proof (proj1 (PoolInv.J_any C q w) Jw) as (_ & (_ & P2 & _ & _ & _ & _ & P7 & _) & _).
    destruct (P7 k) as (r & _ & o); [left; unfold PoolInv.lb; apply in_or_app; left; exact Hk|]. split; [exact r|exact (proj2 (P2 _ o))]. }
  intros p bk H. cbv zeta. destruct (Fact p bk H) as (R & NR).
  assert (a_facts : addr_of C B A beg bk mod A = 0 /\ beg (fst bk) <= addr_of C B A beg bk /\ addr_of C B A beg bk + B <= beg (fst bk) + Gen_MemPool.pvGetBufferSize C B A).
  { unfold addr_of. destruct (PoolArith.newbuffer_layout_thm C B A (beg (fst bk)) L (Beg _)) as (fb & first & buffer & E & _ & _ & _ & G & _).
    rewrite E. destruct (G (snd bk) R) as (_ & al & lo & hi & _). tauto. }
  destruct a_facts as (f1 & f2 & f3).
  split; [exact f1|]. split; [exact f2|]. split; [exact f3|]. split; [exact NR|]. split.
  - intros p' bk' H' Ne. destruct (Fact p' bk' H') as (R' & NR').
    destruct (blocks_disjoint C B A beg bk bk' L (Beg _) (Beg _) R R' (not_eq_sym Ne)) as (_ & _ & _ & D); [|exact D].
    intros Nb. apply Man; assumption.
  - intros b' q len NR' Hin.
    exact (block_vs_meta C B A beg bk b' q len L (Beg _) (Beg _) R (fun Nb => Man _ _ Nb NR NR') Hin).
Qed.

(* (3') END TO END over the FULL alphabet: Allocate, Deallocate, MergeFrom, DeallocateAll, Swap, move assignment and DeallocateIf *)
Theorem end_to_end_full C B A CF uc beg ops :
  PoolArith.legal C B A ->
  let size := Gen_MemPool.pvGetBufferSize C B A in
  let w := PoolCompl.frun C CF uc ops in
  (forall b, PoolArith.begin_ok A size (beg b)) ->
  (forall b b', b <> b' -> ~ In b (PoolConc.returned w) -> ~ In b' (PoolConc.returned w) ->
     beg b + size <= beg b' \/ beg b' + size <= beg b) ->
  (forall p, PoolConc.acount (PoolConc.getp w p) = PoolConc.lenz (PoolConc.live (PoolConc.getp w p))) /\
  forall p bk, In bk (PoolConc.live (PoolConc.getp w p)) ->
    let a := addr_of C B A beg bk in
    a mod A = 0 /\ beg (fst bk) <= a /\ a + B <= beg (fst bk) + size /\ ~ In (fst bk) (PoolConc.returned w) /\
    (forall p' bk', In bk' (PoolConc.live (PoolConc.getp w p')) -> bk' <> bk ->
       let a' := addr_of C B A beg bk' in a + B <= a' \/ a' + B <= a) /\
    (forall b' q len, ~ In b' (PoolConc.returned w) -> In (q, len) (meta_of C B A beg b') -> q + len <= a \/ a + B <= q).
Proof.
  intros L size w Beg Man. assert (1 <= C) as HC by (destruct L; lia).
  apply end_to_end_state; auto. apply (PoolCompl.JC_all_histories C HC CF uc ops).
Qed.
