(* C04 -- MapKeyValueTraits (MapUtility.h:242-353): pair creation and pair relocation for the 4 combinations of
   (key nothrow relocatable, value nothrow relocatable), written statement by statement. *)
From Coq Require Import List Arith Lia Bool PeanoNat.
From C04 Require Import Effects ObjMgr.
Import ListNotations.

(* Create(memManager, const Key& key, valueCreator, newKey, newValue) = KeyManager::CopyExec(key, newKey, [valueCreator(newValue)])
   Create(memManager, Key&& key, ...)                                = KeyManager::MoveExec(...)            (MapUtility.h:242-258) *)
Definition kv_create_copy (key newk : loc) (value_creator : loc -> M unit) (newv : loc) : M unit :=
  copy_exec key newk (value_creator newv).
Definition kv_create_move (ck : cat) (key newk : loc) (value_creator : loc -> M unit) (newv : loc) : M unit :=
  move_exec ck key newk (value_creator newv).

(* Relocate -> pvRelocate (MapUtility.h:266-272, 318-353) *)
Definition kv_relocate (ck cv : cat) (sk sv dk dv : loc) : M unit :=
  if nothrow ck then
    relocate1 cv sv dv ;; relocate1 ck sk dk
  else if nothrow cv then
    relocate1 ck sk dk ;; relocate1 cv sv dv
  else
    copy_construct sk dk ;;
    try_catch (relocate1 cv sv dv) (destroy dk ;; throw) ;;
    destroy sk.

Record kv_pre (sk sv dk dv : loc) (kv vv : nat) (h : heap) : Prop := mkKvPre
  { kp_valid : valid h sk = true /\ valid h sv = true /\ valid h dk = true /\ valid h dv = true;
    kp_cells : mem h sk = Live kv /\ mem h sv = Live vv /\ mem h dk = Raw /\ mem h dv = Raw;
    kp_dist : sk <> sv /\ sk <> dk /\ sk <> dv /\ sv <> dk /\ sv <> dv /\ dk <> dv }.

Record kv_moved (sk sv dk dv : loc) (kv vv : nat) (h h' : heap) : Prop := mkKvMoved
  { km_cells : mem h' dk = Live kv /\ mem h' dv = Live vv /\ mem h' sk = Raw /\ mem h' sv = Raw;
    km_frame : forall l, l <> sk -> l <> sv -> l <> dk -> l <> dv -> mem h' l = mem h l;
    km_shape : agree (fun _ => False) h h';
    km_regs : same_regs h h' }.

Ltac hs := repeat (first [rewrite mem_hset_same | rewrite mem_hset_other by (auto; congruence)]).

Theorem kv_relocate_spec : forall ck cv sk sv dk dv kv vv s,
  kv_pre sk sv dk dv kv vv (hp s) ->
  wp (kv_relocate ck cv sk sv dk dv) s
     (fun _ s' => kv_moved sk sv dk dv kv vv (hp s) (hp s'))
     (fun s' => unchanged (hp s) (hp s')).
Proof.
  intros ck cv sk sv dk dv kv vv s [[V1 [V2 [V3 V4]]] [C1 [C2 [C3 C4]]] [N1 [N2 [N3 [N4 [N5 N6]]]]]].
  assert (N1' : sv <> sk) by auto. assert (N2' : dk <> sk) by auto. assert (N3' : dv <> sk) by auto.
  assert (N4' : dk <> sv) by auto. assert (N5' : dv <> sv) by auto. assert (N6' : dv <> dk) by auto.
  assert (Fin : forall (h' : heap),
     heq (hset (hset (hset (hset (hp s) dv (Live vv)) sv Raw) dk (Live kv)) sk Raw) h' \/
     heq (hset (hset (hset (hset (hp s) dk (Live kv)) sk Raw) dv (Live vv)) sv Raw) h' ->
     kv_moved sk sv dk dv kv vv (hp s) h').
  { intros h' [H|H]; (split; [repeat split; rewrite (hq_mem _ _ H); hs; auto
     | intros l L1 L2 L3 L4; rewrite (hq_mem _ _ H); hs; auto
     | destruct H as [_ Ha Hb Hn _]; split; [contradiction|exact Ha|exact Hb|exact Hn]
     | intros r; apply (hq_regs _ _ H)]). }
  unfold kv_relocate. destruct (nothrow ck) eqn:Ek.
  - (* key nothrow relocatable: value first (may throw), then key *)
    assert (ck = NTM) by (destruct ck; simpl in Ek; congruence). subst ck.
    apply wp_bind. eapply wp_relocate1; eauto.
    { intros _ s' H'. apply heq_unchanged; auto. }
    intros s1 H1.
    eapply wp_relocate1 with (v := kv).
    + rewrite (heq_valid _ _ _ H1); auto.
    + rewrite (heq_valid _ _ _ H1); auto.
    + auto.
    + rewrite (hq_mem _ _ H1). hs. auto.
    + rewrite (hq_mem _ _ H1). hs. auto.
    + intros C; contradiction C; reflexivity.
    + intros s2 H2. apply Fin. left. eapply heq_trans; [|exact H2]. repeat apply heq_hset. exact H1.
  - destruct (nothrow cv) eqn:Ev.
    + (* value nothrow relocatable: key first (may throw), then value *)
      assert (cv = NTM) by (destruct cv; simpl in Ev; congruence). subst cv.
      apply wp_bind. eapply wp_relocate1; eauto.
      { intros _ s' H'. apply heq_unchanged; auto. }
      intros s1 H1.
      eapply wp_relocate1 with (v := vv).
      * rewrite (heq_valid _ _ _ H1); auto.
      * rewrite (heq_valid _ _ _ H1); auto.
      * auto.
      * rewrite (hq_mem _ _ H1). hs. auto.
      * rewrite (hq_mem _ _ H1). hs. auto.
      * intros C; contradiction C; reflexivity.
      * intros s2 H2. apply Fin. right. eapply heq_trans; [|exact H2]. repeat apply heq_hset. exact H1.
    + (* neither: copy the key, relocate the value (destroy the key copy if that throws), destroy the old key *)
      apply wp_bind. eapply wp_copy_construct; eauto.
      { intros s' H'. apply heq_unchanged; auto. }
      intros s1 H1.
      apply wp_bind. apply wp_try.
      eapply wp_relocate1 with (v := vv).
      * rewrite (heq_valid _ _ _ H1); auto.
      * rewrite (heq_valid _ _ _ H1); auto.
      * auto.
      * rewrite (hq_mem _ _ H1). hs. auto.
      * rewrite (hq_mem _ _ H1). hs. auto.
      * intros _ s2 H2.
        apply wp_bind. apply wp_destroy.
        -- rewrite (heq_valid _ _ _ H2), (heq_valid _ _ _ H1); auto.
        -- rewrite (hq_mem _ _ H2), (hq_mem _ _ H1). hs. discriminate.
        -- intros s3 H3. apply wp_throw.
           assert (H : heq (hset (hset (hp s) dk (Live kv)) dk Raw) (hp s3)).
           { eapply heq_trans; [|exact H3]. apply heq_hset. eapply heq_trans; [|exact H2]. exact H1. }
           split; intros; try (rewrite ?(hq_alive _ _ H), ?(hq_bsize _ _ H), ?(hq_next _ _ H), ?(hq_regs _ _ H); reflexivity).
           rewrite (hq_mem _ _ H). destruct (loc_eq_dec l dk) as [->|Hl]; hs; auto.
      * intros s2 H2.
        apply wp_destroy.
        -- rewrite (heq_valid _ _ _ H2), !valid_hset, (heq_valid _ _ _ H1); auto.
        -- rewrite (hq_mem _ _ H2). hs. rewrite (hq_mem _ _ H1). hs. rewrite C1. discriminate.
        -- intros s3 H3. apply Fin. right.
           eapply heq_trans; [|exact H3].
           assert (H : heq (hset (hset (hset (hp s) dk (Live kv)) dv (Live vv)) sv Raw) (hp s2)).
           { eapply heq_trans; [|exact H2]. repeat apply heq_hset. exact H1. }
           eapply heq_trans; [|apply heq_hset; exact H].
           split; simpl; auto. intros l. unfold updm.
           destruct (loc_eq_dec l sk) as [->|A].
           ++ rewrite ?loc_eqb_refl, ?(loc_eqb_neq sk sv), ?(loc_eqb_neq sk dv) by auto. rewrite ?loc_eqb_refl. reflexivity.
           ++ rewrite ?(loc_eqb_neq l sk) by auto. reflexivity.
Qed.
