(* C16, L1 model of the capacity / count operations of momo::SegmentedArray (SegmentedArray.h: AddBackCrt, Reserve,
   Shrink, SetCountCrt/pvIncCount/pvDecCount, RemoveBack, Clear, AddBackNogrowCrt, Insert = Reserve + shift,
   pvIncCapacity, pvDecCapacity).  The segment table mSegments is a list of allocation ids (fresh id per
   pvAllocateSegment); element i lives at (id of segment fst (seg i), offset snd (seg i)).
   The model follows the branches of the code (it is run against the real container on every check);
   the sizing functions seg = GetSegItemIndexes, idx = GetIndex are parameters, instantiated below with the
   REGENERATED Gen_SegSqrt / Gen_SegCnst functions. *)
From Coq Require Import ZArith Bool List Lia.
Import ListNotations.
Local Open Scope Z_scope.

Record state := mk { count : Z; segs : list Z; next : Z }.

Inductive op := AddBack | Reserve (c : Z) | ShrinkTo (c : Z) | ShrinkFit | SetCount (c : Z) | RemoveBack (n : Z)
              | Clear (shrink : bool) | AddBackNogrow | InsertN (n : Z).

Definition len (st : state) : Z := Z.of_nat (length (segs st)).
Fixpoint fresh (n : nat) (from : Z) : list Z := match n with O => [] | S n => from :: fresh n (from + 1) end.

Section Model.
Variable seg : Z -> Z * Z.       (* GetSegItemIndexes *)
Variable idx : Z -> Z -> Z.      (* GetIndex *)

Definition capacity (st : state) : Z := idx (len st) 0.

(* pvIncCapacity(_, cap): segIndex of cap, +1 if itemIndex > 0; allocate segments up to it *)
Definition inc_capacity (st : state) (cap : Z) : state :=
  let '(s, j) := seg cap in
  let s := if Z.ltb 0 j then s + 1 else s in
  let n := Z.to_nat (s - len st) in
  mk (count st) (segs st ++ fresh n (next st)) (next st + Z.of_nat n).

(* pvDecCapacity(cap): deallocate segments from that index on, mSegments.RemoveBack *)
Definition dec_capacity (st : state) (cap : Z) : state :=
  let '(s, j) := seg cap in
  let s := if Z.ltb 0 j then s + 1 else s in
  mk (count st) (firstn (Z.to_nat s) (segs st)) (next st).

Definition reserve (st : state) (c : Z) : state :=
  if Z.ltb (capacity st) c then inc_capacity st c else st.

Definition with_count (st : state) (c : Z) : state := mk c (segs st) (next st).

(* None = a MOMO_ASSERT of the source fails (AddBackCrt: itemIndex == 0 when a new segment is needed) *)
Definition step (st : state) (o : op) : option state :=
  match o with
  | AddBack =>
    let '(s, j) := seg (count st) in
    if Z.ltb s (len st) then Some (with_count st (count st + 1))
    else if Z.eqb j 0 then Some (mk (count st + 1) (segs st ++ [next st]) (next st + 1)) else None
  | Reserve c => Some (reserve st c)
  | ShrinkTo c =>
    if Z.leb (capacity st) c then Some st
    else Some (dec_capacity st (if Z.ltb c (count st) then count st else c))
  | ShrinkFit =>
    if Z.leb (capacity st) (count st) then Some st else Some (dec_capacity st (count st))
  | SetCount c =>
    if Z.ltb c (count st) then Some (with_count st c)
    else if Z.ltb (count st) c then
      Some (with_count (if Z.ltb (capacity st) c then inc_capacity st c else st) c)
    else Some st
  | RemoveBack n => if Z.leb n (count st) then Some (with_count st (count st - n)) else Some st
  | Clear false => Some (with_count st 0)
  | Clear true => Some (dec_capacity (with_count st 0) 0)
  | AddBackNogrow => if Z.ltb (count st) (capacity st) then Some (with_count st (count st + 1)) else Some st
  (* Insert(index, n items) = Reserve(mCount + n) + ArrayShifter::InsertNogrow (n x AddBackNogrow + assignments);
     Remove(index, n) / Remove(filter) = assignments + RemoveBack(n): the driver uses RemoveBack for them *)
  | InsertN n => let st := reserve st (count st + n) in Some (with_count st (count st + n))
  end.

(* address of element i: (allocation id of its segment, offset) *)
Definition addr (st : state) (i : Z) : Z * Z := (nth (Z.to_nat (fst (seg i))) (segs st) (-1), snd (seg i)).

(* ---------------------------------------------------------------- what the proofs need from the sizing functions *)
Variable maxi : Z.     (* all counts / requested capacities are below maxi *)
Variable SC : Z.       (* bound on the number of segments *)
Hypothesis seg_nonneg : forall i, 0 <= i < maxi -> 0 <= fst (seg i) /\ 0 <= snd (seg i).
Hypothesis seg_zero : seg 0 = (0, 0).
Hypothesis seg_next : forall i, 0 <= i -> i + 1 < maxi ->
  (fst (seg (i + 1)) = fst (seg i) /\ 0 < snd (seg (i + 1))) \/ (fst (seg (i + 1)) = fst (seg i) + 1 /\ snd (seg (i + 1)) = 0).
Hypothesis seg_mono : forall i i', 0 <= i < i' -> i' < maxi ->
  fst (seg i) < fst (seg i') \/ (fst (seg i) = fst (seg i') /\ snd (seg i) < snd (seg i')).
Hypothesis seg_bound : forall c, 0 <= c < maxi -> fst (seg c) + 1 <= SC.
Hypothesis cap_lt : forall sc i, 0 <= sc <= SC -> 0 <= i < maxi -> (i < idx sc 0 <-> fst (seg i) < sc).
Hypothesis maxi_pos : 0 < maxi.
Hypothesis idx_zero : idx 0 0 = 0.

Definition inv (st : state) : Prop :=
  0 <= count st < maxi /\ len st <= SC /\ (forall i, 0 <= i < count st -> fst (seg i) < len st).

Definition op_ok (st : state) (o : op) : Prop :=
  match o with
  | AddBack | AddBackNogrow => count st + 1 < maxi
  | InsertN n => 0 <= n /\ count st + n < maxi
  | Reserve c | ShrinkTo c | SetCount c => 0 <= c < maxi
  | RemoveBack n => 0 <= n
  | _ => True
  end.

Lemma fresh_length n from : length (fresh n from) = n.
Proof. revert from; induction n; intros; simpl; [reflexivity|rewrite IHn; reflexivity]. Qed.

Lemma len_nonneg st : 0 <= len st. Proof. unfold len; lia. Qed.

(* segIndex (+1 if itemIndex > 0) of a capacity c: every index below c lives in a segment below it *)
Lemma target_covers c : 0 <= c < maxi ->
  let t := if Z.ltb 0 (snd (seg c)) then fst (seg c) + 1 else fst (seg c) in
  0 <= t <= SC /\ forall i, 0 <= i < c -> fst (seg i) < t.
Proof.
  intros Hc t. pose proof (seg_nonneg c Hc) as [Hs Hj]. pose proof (seg_bound c Hc) as Hb.
  split.
  - unfold t. destruct (Z.ltb_spec 0 (snd (seg c))); lia.
  - intros i Hi. pose proof (seg_nonneg i ltac:(lia)) as [_ Hji].
    destruct (seg_mono i c ltac:(lia) ltac:(lia)) as [H|[H1 H2]];
      unfold t; destruct (Z.ltb_spec 0 (snd (seg c))); lia.
Qed.

Lemma inc_capacity_spec st c : inv st -> 0 <= c < maxi -> capacity st < c ->
  let st' := inc_capacity st c in
  count st' = count st /\ (exists l, segs st' = segs st ++ l) /\ len st' <= SC /\ forall i, 0 <= i < c -> fst (seg i) < len st'.
Proof.
  intros (Hc & Hl & Hcov) Hcr Hcap st'. unfold st', inc_capacity.
  destruct (target_covers c Hcr) as [Ht Hcovt].
  destruct (seg c) as [s j] eqn:E. cbn [fst snd] in Ht, Hcovt.
  set (t := if 0 <? j then s + 1 else s) in *.
  cbn [count segs]. split; [reflexivity|]. split; [eexists; reflexivity|].
  (* capacity st < c  ->  the segment of c is not below len st, hence t >= len st *)
  assert (Hge : len st <= t).
  { unfold capacity in Hcap.
    destruct (Z_le_dec (len st) t) as [|Hn]; [assumption|exfalso].
    assert (Hlt : fst (seg c) < len st).
    { rewrite E. cbn [fst]. unfold t in Hn. destruct (Z.ltb_spec 0 j); lia. }
    apply (cap_lt (len st) c) in Hlt; [lia| |assumption]. pose proof (len_nonneg st). lia. }
  assert (El : len (mk (count st) (segs st ++ fresh (Z.to_nat (t - len st)) (next st)) (next st + Z.of_nat (Z.to_nat (t - len st)))) = t).
  { unfold len. cbn [segs]. rewrite app_length, fresh_length. unfold len in Hge. lia. }
  rewrite El. split; [lia|assumption].
Qed.

Lemma dec_capacity_spec st c : inv st -> 0 <= c < maxi ->
  let st' := dec_capacity st c in
  count st' = count st /\ (exists n, segs st' = firstn n (segs st)) /\ len st' <= SC /\
  (c < capacity st -> forall i, 0 <= i < c -> fst (seg i) < len st') /\
  (capacity st <= c -> len st' = len st).
Proof.
  intros (Hc & Hl & Hcov) Hcr st'. unfold st', dec_capacity.
  destruct (target_covers c Hcr) as [Ht Hcovt].
  destruct (seg c) as [s j] eqn:E. cbn [fst snd] in Ht, Hcovt.
  set (t := if 0 <? j then s + 1 else s) in *.
  cbn [count segs]. split; [reflexivity|]. split; [eexists; reflexivity|].
  unfold len at 1 2 3. cbn [segs]. rewrite firstn_length. split; [|split].
  - unfold len in Hl. lia.
  - intros Hcap i Hi. specialize (Hcovt i Hi).
    (* c < capacity -> seg c < len st -> t <= len st *)
    unfold capacity in Hcap. apply (cap_lt (len st) c) in Hcap; [|pose proof (len_nonneg st); lia|assumption].
    rewrite E in Hcap. cbn [fst] in Hcap.
    assert (t <= len st) by (unfold t; destruct (Z.ltb_spec 0 j); lia).
    unfold len in *. lia.
  - intros Hcap. unfold capacity in Hcap.
    assert (Hn : ~ fst (seg c) < len st).
    { intros X. apply (cap_lt (len st) c) in X; [lia|pose proof (len_nonneg st); lia|assumption]. }
    rewrite E in Hn. cbn [fst] in Hn.
    assert (len st <= t) by (unfold t; destruct (Z.ltb_spec 0 j); lia).
    unfold len in *. lia.
Qed.

Definition compat (l l' : list Z) : Prop :=
  forall k, (k < length l)%nat -> (k < length l')%nat -> nth k l' (-1) = nth k l (-1).

Lemma compat_app l m : compat l (l ++ m).
Proof. intros k H _. apply app_nth1; assumption. Qed.
Lemma compat_firstn l n : compat l (firstn n l).
Proof.
  intros k H H'. rewrite firstn_length in H'.
  rewrite <- (firstn_skipn n l) at 2. rewrite app_nth1; [reflexivity|rewrite firstn_length; lia].
Qed.
Lemma compat_refl l : compat l l. Proof. intros k _ _. reflexivity. Qed.

(* one step: never a failed assertion, invariant kept, segment table only extended or truncated *)
Lemma step_spec st o : inv st -> op_ok st o ->
  exists st', step st o = Some st' /\ inv st' /\ (o <> Clear true -> compat (segs st) (segs st')).
Proof.
  intros Hinv Hok. pose proof Hinv as (Hc & Hl & Hcov). pose proof (len_nonneg st) as Hlen.
  destruct o; cbn [step op_ok] in *.
  - (* AddBack *)
    destruct (seg (count st)) as [s j] eqn:E.
    assert (Hs : s <= len st /\ (s = len st -> j = 0)).
    { destruct (Z.eq_dec (count st) 0) as [Z0|NZ].
      - rewrite Z0, seg_zero in E. inversion E. lia.
      - specialize (Hcov (count st - 1) ltac:(lia)).
        destruct (seg_next (count st - 1) ltac:(lia) ltac:(lia)) as [[A B]|[A B]];
          replace (count st - 1 + 1) with (count st) in A, B by lia; rewrite E in A, B; cbn [fst snd] in A, B; lia. }
    destruct (Z.ltb_spec s (len st)).
    + eexists; split; [reflexivity|]. split; [|intros _; apply compat_refl].
      unfold inv, with_count, len in *; cbn [count segs] in *. repeat split; try lia.
      intros i Hi. destruct (Z.eq_dec i (count st)) as [->|]; [rewrite E; cbn [fst]; unfold len in *; lia|apply Hcov; lia].
    + assert (s = len st) by lia. destruct Hs as [_ Hj]. rewrite (Hj H0). cbn [Z.eqb].
      eexists; split; [reflexivity|]. split; [|intros _; apply compat_app].
      pose proof (seg_bound (count st) ltac:(lia)) as Hb. rewrite E in Hb. cbn [fst] in Hb.
      unfold inv, len; cbn [count segs]. rewrite app_length. cbn [length]. unfold len in *. repeat split; try lia.
      intros i Hi. destruct (Z.eq_dec i (count st)) as [->|]; [rewrite E; cbn [fst]; lia|specialize (Hcov i ltac:(lia)); lia].
  - (* Reserve *)
    unfold reserve. destruct (Z.ltb_spec (capacity st) c).
    + destruct (inc_capacity_spec st c Hinv Hok H) as (E1 & [l E2] & E3 & E4).
      eexists; split; [reflexivity|]. split; [|intros _; rewrite E2; apply compat_app].
      unfold inv. rewrite E1. repeat split; try lia.
      intros i Hi. specialize (Hcov i Hi). unfold len in *. rewrite E2, app_length. lia.
    + eexists; split; [reflexivity|]. split; [assumption|intros _; apply compat_refl].
  - (* ShrinkTo *)
    destruct (Z.leb_spec (capacity st) c).
    + eexists; split; [reflexivity|]. split; [assumption|intros _; apply compat_refl].
    + set (c' := if c <? count st then count st else c).
      assert (Hc' : 0 <= c' < maxi /\ count st <= c') by (unfold c'; destruct (Z.ltb_spec c (count st)); lia).
      destruct (dec_capacity_spec st c' Hinv ltac:(lia)) as (E1 & [n E2] & E3 & E4 & E5).
      eexists; split; [reflexivity|]. split; [|intros _; rewrite E2; apply compat_firstn].
      unfold inv. rewrite E1. repeat split; try lia.
      intros i Hi.
      destruct (Z_lt_dec c' (capacity st)) as [Hlt|Hge]; [apply E4; lia|].
      (* c' = count st = capacity: nothing is removed *)
      rewrite E5 by lia. apply Hcov; lia.
  - (* ShrinkFit *)
    destruct (Z.leb_spec (capacity st) (count st)).
    + eexists; split; [reflexivity|]. split; [assumption|intros _; apply compat_refl].
    + destruct (dec_capacity_spec st (count st) Hinv ltac:(lia)) as (E1 & [n E2] & E3 & E4 & _).
      eexists; split; [reflexivity|]. split; [|intros _; rewrite E2; apply compat_firstn].
      unfold inv. rewrite E1. repeat split; try lia. intros i Hi. apply E4; lia.
  - (* SetCount *)
    destruct (Z.ltb_spec c (count st)).
    + eexists; split; [reflexivity|]. split; [|intros _; apply compat_refl].
      unfold inv, with_count, len in *; cbn [count segs] in *. repeat split; try lia. intros i Hi. apply Hcov; lia.
    + destruct (Z.ltb_spec (count st) c).
      * destruct (Z.ltb_spec (capacity st) c).
        -- destruct (inc_capacity_spec st c Hinv Hok H1) as (E1 & [l E2] & E3 & E4).
           eexists; split; [reflexivity|]. split; [|intros _; cbn [with_count segs]; rewrite E2; apply compat_app].
           unfold inv, with_count, len in *; cbn [count segs] in *. repeat split; try lia. intros i Hi. apply E4; lia.
        -- eexists; split; [reflexivity|]. split; [|intros _; apply compat_refl].
           unfold inv, with_count, len in *; cbn [count segs] in *. repeat split; try lia.
           intros i Hi. apply (cap_lt (len st) i); [unfold len in *; lia|lia|]. unfold capacity in *. lia.
      * eexists; split; [reflexivity|]. split; [assumption|intros _; apply compat_refl].
  - (* RemoveBack *)
    destruct (Z.leb_spec n (count st)).
    + eexists; split; [reflexivity|]. split; [|intros _; apply compat_refl].
      unfold inv, with_count, len in *; cbn [count segs] in *. repeat split; try lia. intros i Hi. apply Hcov; lia.
    + eexists; split; [reflexivity|]. split; [assumption|intros _; apply compat_refl].
  - (* Clear *)
    destruct shrink.
    + eexists; split; [reflexivity|]. split; [|intros X; contradiction X; reflexivity].
      unfold dec_capacity. rewrite seg_zero. cbn. unfold inv, len; cbn [count segs length]. repeat split; try lia.
    + eexists; split; [reflexivity|]. split; [|intros _; apply compat_refl].
      unfold inv, with_count, len in *; cbn [count segs] in *. repeat split; try lia.
  - (* AddBackNogrow *)
    destruct (Z.ltb_spec (count st) (capacity st)).
    + eexists; split; [reflexivity|]. split; [|intros _; apply compat_refl].
      unfold inv, with_count, len in *; cbn [count segs] in *. repeat split; try lia.
      intros i Hi. apply (cap_lt (len st) i); [unfold len in *; lia|lia|]. unfold capacity in *. lia.
    + eexists; split; [reflexivity|]. split; [assumption|intros _; apply compat_refl].
  - (* InsertN = Reserve(count + n) + InsertNogrow *)
    destruct Hok as [Hn0 Hn]. unfold reserve. destruct (Z.ltb_spec (capacity st) (count st + n)).
    + destruct (inc_capacity_spec st (count st + n) Hinv ltac:(lia) H) as (E1 & [l E2] & E3 & E4).
      eexists; split; [reflexivity|]. split; [|intros _; cbn [with_count segs]; rewrite E2; apply compat_app].
      unfold inv, with_count, len in *; cbn [count segs] in *. repeat split; try lia. intros i Hi. apply E4; lia.
    + eexists; split; [reflexivity|]. split; [|intros _; apply compat_refl].
      unfold inv, with_count, len in *; cbn [count segs] in *. repeat split; try lia.
      intros i Hi. apply (cap_lt (Z.of_nat (length (segs st))) i); [lia|lia|]. unfold capacity, len in *. lia.
Qed.

(* growing (and shrinking) never changes the address of an element that exists before and after *)
Theorem grow_keeps_addresses st o st' : inv st -> op_ok st o -> step st o = Some st' -> o <> Clear true ->
  inv st' /\ forall i, 0 <= i < count st -> i < count st' -> addr st' i = addr st i.
Proof.
  intros Hinv Hok Hstep Hne. destruct (step_spec st o Hinv Hok) as (st2 & E & Hinv' & Hcompat).
  rewrite Hstep in E. inversion E; subst st2. split; [assumption|].
  intros i Hi Hi'. unfold addr. f_equal.
  destruct Hinv as (Hc & _ & Hcov). destruct Hinv' as (Hc' & _ & Hcov').
  pose proof (seg_nonneg i ltac:(lia)) as [Hs _].
  specialize (Hcov i ltac:(lia)). specialize (Hcov' i ltac:(lia)). unfold len in *.
  apply (Hcompat Hne); lia.
Qed.

Theorem step_never_asserts st o : inv st -> op_ok st o -> exists st', step st o = Some st' /\ inv st'.
Proof. intros H1 H2. destruct (step_spec st o H1 H2) as (st' & E & I & _). eauto. Qed.

Definition empty : state := mk 0 [] 0.
Lemma inv_empty : inv empty.
Proof.
  unfold inv, empty, len; cbn. repeat split; try lia.
  pose proof (seg_bound 0 ltac:(lia)). pose proof (seg_nonneg 0 ltac:(lia)). lia.
Qed.

(* every state reachable from the empty array by operations with in-range arguments satisfies the invariant *)
Inductive reachable : state -> Prop :=
| reach_empty : reachable empty
| reach_step st o st' : reachable st -> op_ok st o -> step st o = Some st' -> reachable st'.

Theorem reachable_inv st : reachable st -> inv st.
Proof.
  induction 1; [apply inv_empty|].
  destruct (step_spec st o IHreachable H0) as (st2 & E & I & _). rewrite H1 in E. inversion E; subst. exact I.
Qed.

(* ---------------------------------------------------------------- ids: every segment id is below the id counter *)
Definition ids_lt (st : state) : Prop := Forall (fun id => id < next st) (segs st).

Lemma fresh_range n from : Forall (fun id => from <= id < from + Z.of_nat n) (fresh n from).
Proof.
  revert from; induction n; intros; [constructor|].
  cbn [fresh]. constructor; [lia|]. eapply Forall_impl; [|apply IHn]. cbn beta. intros a Ha. lia.
Qed.

Lemma ids_lt_inc st c : ids_lt st -> ids_lt (inc_capacity st c) /\ next st <= next (inc_capacity st c).
Proof.
  intros H. unfold inc_capacity. destruct (seg c) as [s j]. unfold ids_lt; cbn [segs next]. split; [|lia].
  apply Forall_app. split.
  - eapply Forall_impl; [|exact H]. cbn beta. intros a Ha. lia.
  - eapply Forall_impl; [|apply fresh_range]. cbn beta. intros a Ha. lia.
Qed.

Lemma Forall_firstn {A} (P : A -> Prop) n l : Forall P l -> Forall P (firstn n l).
Proof. revert l; induction n; intros l H; [constructor|]. destruct l; [constructor|]. inversion H; subst. constructor; auto. Qed.

Lemma ids_lt_dec st c : ids_lt st -> ids_lt (dec_capacity st c) /\ next (dec_capacity st c) = next st.
Proof.
  intros H. unfold dec_capacity. destruct (seg c) as [s j]. unfold ids_lt; cbn [segs next]. split; [|reflexivity].
  apply Forall_firstn. exact H.
Qed.

Lemma step_ids st o st' : step st o = Some st' -> ids_lt st -> ids_lt st' /\ next st <= next st'.
Proof.
  intros E H.
  assert (Hwc : forall s c, ids_lt s -> ids_lt (with_count s c) /\ next (with_count s c) = next s) by (intros; split; [assumption|reflexivity]).
  destruct o; cbn [step] in E.
  - destruct (seg (count st)) as [s j]. destruct (Z.ltb s (len st)); [inversion E; subst; split; [exact H|cbn; lia]|].
    destruct (Z.eqb j 0); [|discriminate]. inversion E; subst. unfold ids_lt; cbn [segs next]. split; [|lia].
    apply Forall_app. split; [eapply Forall_impl; [|exact H]; cbn beta; intros a Ha; lia|constructor; [lia|constructor]].
  - inversion E; subst. unfold reserve. destruct (Z.ltb (capacity st) c); [apply ids_lt_inc; exact H|split; [exact H|lia]].
  - destruct (Z.leb (capacity st) c); inversion E; subst; [split; [exact H|lia]|].
    destruct (ids_lt_dec st (if c <? count st then count st else c) H) as [A B]. split; [exact A|lia].
  - destruct (Z.leb (capacity st) (count st)); inversion E; subst; [split; [exact H|lia]|].
    destruct (ids_lt_dec st (count st) H) as [A B]. split; [exact A|lia].
  - destruct (Z.ltb c (count st)); [inversion E; subst; split; [exact H|cbn; lia]|].
    destruct (Z.ltb (count st) c); [|inversion E; subst; split; [exact H|lia]].
    inversion E; subst. destruct (Z.ltb (capacity st) c); [|split; [exact H|cbn; lia]].
    destruct (ids_lt_inc st c H) as [A B]. split; [exact A|cbn [with_count next]; lia].
  - destruct (Z.leb n (count st)); inversion E; subst; split; try exact H; cbn; lia.
  - destruct shrink; inversion E; subst.
    + destruct (ids_lt_dec (with_count st 0) 0 H) as [A B]. split; [exact A|rewrite B; cbn; lia].
    + split; [exact H|cbn; lia].
  - destruct (Z.ltb (count st) (capacity st)); inversion E; subst; split; try exact H; cbn; lia.
  - inversion E; subst. unfold reserve. destruct (Z.ltb (capacity st) (count st + n)).
    + destruct (ids_lt_inc st (count st + n) H) as [A B]. split; [exact A|cbn [with_count next]; lia].
    + split; [exact H|cbn; lia].
Qed.

(* ---------------------------------------------------------------- two arrays: move / swap / copy between them
   (SegmentedArray(SegmentedArray&&), operator=(SegmentedArray&&), Swap, SegmentedArray(const&), SegmentedArray(const&, shrink)) *)
Record world := mkw { ca : Z; sa : list Z; cb : Z; sb : list Z; nx : Z }.
Inductive wop := OnA (o : op) | OnB (o : op) | MoveAB | MoveBA | SwapAB | CopyAB (shrink : bool) | CopyBA (shrink : bool).
Definition stA (w : world) : state := mk (ca w) (sa w) (nx w).
Definition stB (w : world) : state := mk (cb w) (sb w) (nx w).

(* copy constructor: pvIncCapacity(0, shrink ? count : capacity) on an empty array, then count x AddBackNogrow *)
Definition copy_of (src : state) (shrink : bool) : state :=
  let cap := if shrink then count src else capacity src in
  with_count (inc_capacity (mk 0 [] (next src)) cap) (count src).

Definition wstep (w : world) (o : wop) : option world :=
  match o with
  | OnA o => match step (stA w) o with Some s => Some (mkw (count s) (segs s) (cb w) (sb w) (next s)) | None => None end
  | OnB o => match step (stB w) o with Some s => Some (mkw (ca w) (sa w) (count s) (segs s) (next s)) | None => None end
  | MoveAB => Some (mkw 0 [] (ca w) (sa w) (nx w))          (* B steals A's segment table; B's old segments are freed *)
  | MoveBA => Some (mkw (cb w) (sb w) 0 [] (nx w))
  | SwapAB => Some (mkw (cb w) (sb w) (ca w) (sa w) (nx w))
  | CopyAB sh => let s := copy_of (stA w) sh in Some (mkw (ca w) (sa w) (count s) (segs s) (next s))
  | CopyBA sh => let s := copy_of (stB w) sh in Some (mkw (count s) (segs s) (cb w) (sb w) (next s))
  end.

Definition wop_ok (w : world) (o : wop) : Prop :=
  match o with
  | OnA o => op_ok (stA w) o | OnB o => op_ok (stB w) o
  | CopyAB false => capacity (stA w) < maxi | CopyBA false => capacity (stB w) < maxi
  | _ => True
  end.

Definition winv (w : world) : Prop := inv (stA w) /\ inv (stB w) /\ ids_lt (stA w) /\ ids_lt (stB w).

(* move and swap keep every element at its address: the segment table itself changes hands *)
Theorem move_steals w : forall w', wstep w MoveAB = Some w' ->
  (forall i, addr (stB w') i = addr (stA w) i) /\ cb w' = ca w /\ ca w' = 0 /\ sa w' = [].
Proof. intros w' E. inversion E; subst. cbn. repeat split; reflexivity. Qed.

Theorem swap_exchanges w : forall w', wstep w SwapAB = Some w' ->
  (forall i, addr (stB w') i = addr (stA w) i) /\ (forall i, addr (stA w') i = addr (stB w) i) /\ cb w' = ca w /\ ca w' = cb w.
Proof. intros w' E. inversion E; subst. cbn. repeat split; reflexivity. Qed.

Lemma count_le_capacity st : inv st -> 0 <= capacity st -> count st <= capacity st.
Proof.
  intros (Hc & Hl & Hcov) H0. destruct (Z.eq_dec (count st) 0); [lia|].
  specialize (Hcov (count st - 1) ltac:(lia)).
  apply (cap_lt (len st) (count st - 1)) in Hcov; [unfold capacity; lia|pose proof (len_nonneg st); lia|lia].
Qed.

(* a copy has the same count, satisfies the invariant, and consists ONLY of fresh segments (ids >= the old id counter) *)
Lemma copy_of_spec src sh : inv src -> ids_lt src -> (sh = false -> capacity src < maxi) ->
  let s := copy_of src sh in
  inv s /\ count s = count src /\ Forall (fun id => next src <= id < next s) (segs s) /\ next src <= next s.
Proof.
  intros Hinv Hids Hcap s. pose proof Hinv as (Hc & Hl & Hcov).
  set (cap := if sh then count src else capacity src).
  assert (Hcapnn : 0 <= capacity src).
  { unfold capacity. pose proof (len_nonneg src). destruct (Z.eq_dec (len src) 0) as [E0|NE]; [rewrite E0, idx_zero; lia|].
    pose proof (proj2 (cap_lt (len src) 0 ltac:(lia) ltac:(lia))) as Y. rewrite seg_zero in Y. cbn [fst] in Y. lia. }
  assert (Hcap0 : count src <= cap /\ 0 <= cap < maxi).
  { unfold cap. destruct sh; [lia|]. specialize (Hcap eq_refl).
    pose proof (count_le_capacity src Hinv Hcapnn). lia. }
  unfold s, copy_of. fold cap.
  set (e := mk 0 [] (next src)).
  assert (Hinve : inv e).
  { unfold inv, e, len; cbn. repeat split; try lia. pose proof (seg_bound 0 ltac:(lia)). pose proof (seg_nonneg 0 ltac:(lia)). lia. }
  destruct (ids_lt_inc e cap ltac:(constructor)) as [Hid Hnx].
  assert (Hseg : segs (inc_capacity e cap) = fresh (Z.to_nat (next (inc_capacity e cap) - next src)) (next src)).
  { unfold inc_capacity, e. destruct (seg cap) as [s0 j0]. cbn [segs next app]. f_equal. lia. }
  assert (Hfresh : Forall (fun id => next src <= id < next (inc_capacity e cap)) (segs (inc_capacity e cap))).
  { rewrite Hseg. eapply Forall_impl; [|apply fresh_range]. cbn beta. intros a Ha. cbn [next e] in Hnx. lia. }
  cbn [with_count count segs next]. split; [|split; [reflexivity|split; [exact Hfresh|exact Hnx]]].
  (* invariant of the copy *)
  destruct (Z.eq_dec cap 0) as [C0|CN].
  - assert (count src = 0) by lia. unfold inv; cbn [count]. rewrite H.
    assert (El : segs (inc_capacity e cap) = []).
    { unfold inc_capacity. rewrite C0, seg_zero. cbn. reflexivity. }
    unfold len, with_count; cbn [segs count]. rewrite El. cbn. repeat split; try lia.
    pose proof (seg_bound 0 ltac:(lia)). pose proof (seg_nonneg 0 ltac:(lia)). lia.
  - assert (Hce : capacity e < cap).
    { unfold capacity, e, len; cbn. rewrite idx_zero. lia. }
    destruct (inc_capacity_spec e cap Hinve ltac:(lia) Hce) as (E1 & _ & E3 & E4).
    unfold inv, len, with_count in *; cbn [count segs] in *. repeat split; try lia. intros i Hi. apply E4. lia.
Qed.

Lemma inv_nil n : inv (mk 0 [] n).
Proof.
  unfold inv, len; cbn. split; [lia|]. split; [|intros i Hi; lia].
  pose proof (seg_bound 0 ltac:(lia)). pose proof (seg_nonneg 0 ltac:(lia)). lia.
Qed.

Lemma ids_lt_mono c sg n n' : ids_lt (mk c sg n) -> n <= n' -> forall c', ids_lt (mk c' sg n').
Proof. unfold ids_lt; cbn. intros H Hn c'. eapply Forall_impl; [|exact H]. cbn beta. intros a Ha. lia. Qed.

Theorem wstep_inv w o : winv w -> wop_ok w o -> exists w', wstep w o = Some w' /\ winv w'.
Proof.
  intros (IA & IB & DA & DB) Hok. destruct o; cbn [wstep wop_ok] in *.
  - destruct (step_spec (stA w) o IA Hok) as (s & E & I & _). rewrite E. eexists; split; [reflexivity|].
    destruct (step_ids _ _ _ E DA) as [D N]. destruct s as [c sg n]. cbn [stA next] in N.
    unfold winv. cbn [stA stB ca sa cb sb nx count segs next].
    split; [exact I|]. split; [exact IB|]. split; [exact D|]. apply (ids_lt_mono (cb w) (sb w) (nx w)); [exact DB|exact N].
  - destruct (step_spec (stB w) o IB Hok) as (s & E & I & _). rewrite E. eexists; split; [reflexivity|].
    destruct (step_ids _ _ _ E DB) as [D N]. destruct s as [c sg n]. cbn [stB next] in N.
    unfold winv. cbn [stA stB ca sa cb sb nx count segs next].
    split; [exact IA|]. split; [exact I|]. split; [|exact D]. apply (ids_lt_mono (ca w) (sa w) (nx w)); [exact DA|exact N].
  - eexists; split; [reflexivity|]. unfold winv. cbn [stA stB ca sa cb sb nx].
    split; [apply inv_nil|]. split; [exact IA|]. split; [constructor|exact DA].
  - eexists; split; [reflexivity|]. unfold winv. cbn [stA stB ca sa cb sb nx].
    split; [exact IB|]. split; [apply inv_nil|]. split; [exact DB|constructor].
  - eexists; split; [reflexivity|]. unfold winv. cbn [stA stB ca sa cb sb nx].
    split; [exact IB|]. split; [exact IA|]. split; [exact DB|exact DA].
  - eexists; split; [reflexivity|].
    destruct (copy_of_spec (stA w) shrink IA DA ltac:(intros ->; exact Hok)) as (I & C & Fr & N).
    destruct (copy_of (stA w) shrink) as [c sg n]. cbn [count segs next stA] in *.
    unfold winv. cbn [stA stB ca sa cb sb nx count segs next].
    split; [exact IA|]. split; [exact I|]. split; [apply (ids_lt_mono (ca w) (sa w) (nx w)); [exact DA|exact N]|].
    unfold ids_lt; cbn [segs next]. eapply Forall_impl; [|exact Fr]. cbn beta. intros a Ha. cbn. lia.
  - eexists; split; [reflexivity|].
    destruct (copy_of_spec (stB w) shrink IB DB ltac:(intros ->; exact Hok)) as (I & C & Fr & N).
    destruct (copy_of (stB w) shrink) as [c sg n]. cbn [count segs next stB] in *.
    unfold winv. cbn [stA stB ca sa cb sb nx count segs next].
    split; [exact I|]. split; [exact IB|]. split; [|apply (ids_lt_mono (cb w) (sb w) (nx w)); [exact DB|exact N]].
    unfold ids_lt; cbn [segs next]. eapply Forall_impl; [|exact Fr]. cbn beta. intros a Ha. cbn. lia.
Qed.

(* copy gives fresh addresses: same count, source untouched, and no segment of the copy is a segment of the source *)
Theorem copy_is_fresh w sh w' : winv w -> wop_ok w (CopyAB sh) -> wstep w (CopyAB sh) = Some w' ->
  cb w' = ca w /\ ca w' = ca w /\ sa w' = sa w /\ (forall id, In id (sb w') -> ~ In id (sa w) /\ ~ In id (sb w)).
Proof.
  intros (IA & IB & DA & DB) Hok E. cbn [wstep] in E. inversion E; subst; clear E. cbn [ca cb sa sb].
  destruct (copy_of_spec (stA w) sh IA DA ltac:(intros ->; exact Hok)) as (I & C & Fr & N).
  repeat split; try reflexivity; try exact C.
  - intros X. rewrite Forall_forall in Fr. specialize (Fr id H). unfold ids_lt in DA. rewrite Forall_forall in DA.
    specialize (DA id X). cbn in *. lia.
  - intros X. rewrite Forall_forall in Fr. specialize (Fr id H). unfold ids_lt in DB. rewrite Forall_forall in DB.
    specialize (DB id X). cbn in *. lia.
Qed.

Definition wempty : world := mkw 0 [] 0 [] 0.
Inductive wreachable : world -> Prop :=
| wreach_empty : wreachable wempty
| wreach_step w o w' : wreachable w -> wop_ok w o -> wstep w o = Some w' -> wreachable w'.

Theorem wreachable_inv w : wreachable w -> winv w.
Proof.
  induction 1.
  - unfold winv, wempty. cbn [stA stB ca sa cb sb nx]. split; [apply inv_nil|]. split; [apply inv_nil|]. split; constructor.
  - destruct (wstep_inv w o IHwreachable H0) as (w2 & E & I). rewrite H1 in E. inversion E; subst. exact I.
Qed.

End Model.
