From Coq Require Import List ZArith Arith Lia Bool.
From C02 Require Import BTreeModel BTreeBase.
Import ListNotations.

Lemma skipn_skipn2 {A} a b (l : list A) : skipn a (skipn b l) = skipn (a + b) l.
Proof.
  revert l; induction b; intros l; [rewrite Nat.add_0_r; reflexivity|].
  destruct l; [rewrite !skipn_nil; reflexivity|]. rewrite Nat.add_succ_r. simpl. apply IHb.
Qed.

Lemma seg_to_end {A} (l : list A) u n : length l - u <= n -> seg l u n = skipn u l.
Proof. intros H. unfold seg. apply firstn_all2. rewrite skipn_length. lia. Qed.

Lemma seg_0 {A} (l : list A) n : seg l 0 n = firstn n l.
Proof. reflexivity. Qed.

Lemma skipn_firstn_seg {A} (l : list A) t a : t <= a -> skipn t (firstn a l) = seg l t (a - t).
Proof.
  revert l a; induction t; intros l a H; [unfold seg; rewrite Nat.sub_0_r; reflexivity|].
  destruct a; [lia|]. destruct l; [unfold seg; simpl; rewrite firstn_nil; reflexivity|].
  simpl. unfold seg in *. simpl. apply IHt. lia.
Qed.

Section Cut.
Context {A : Type}.
Variables (l M : list A) (a a' : nat).
Hypothesis Ha : a <= length l.
Let L' := firstn a l ++ M ++ skipn a' l.

Lemma cut_hi_firstn t : a + length M <= t -> firstn t L' = firstn a l ++ M ++ seg l a' (t - a - length M).
Proof.
  intros H. unfold L'. rewrite firstn_app, firstn_length_le by exact Ha.
  rewrite firstn_all2 by (rewrite firstn_length; lia). f_equal.
  rewrite firstn_app. rewrite firstn_all2 by lia. reflexivity.
Qed.
Lemma cut_hi_skipn t : a + length M <= t -> skipn t L' = skipn (t - a - length M + a') l.
Proof.
  intros H. unfold L'. rewrite skipn_app, firstn_length_le by exact Ha.
  rewrite skipn_all2 by (rewrite firstn_length; lia). cbn [app].
  rewrite skipn_app. rewrite skipn_all2 by lia. cbn [app]. rewrite skipn_skipn2. f_equal; lia.
Qed.
Lemma cut_lo_firstn t : t <= a -> firstn t L' = firstn t l.
Proof.
  intros H. unfold L'. rewrite firstn_app, firstn_length_le by exact Ha. replace (t - a) with 0 by lia.
  cbn [firstn]. rewrite app_nil_r, firstn_firstn. f_equal; lia.
Qed.
Lemma cut_lo_skipn t : t <= a -> skipn t L' = seg l t (a - t) ++ M ++ skipn a' l.
Proof.
  intros H. unfold L'. rewrite skipn_app, firstn_length_le by exact Ha. replace (t - a) with 0 by lia.
  cbn [skipn]. rewrite skipn_firstn_seg by exact H. reflexivity.
Qed.
End Cut.

Lemma nth_hd_skipn (l : list Z) t : nth t l 0%Z = hd 0%Z (skipn t l).
Proof. revert l; induction t; intros [|a l]; simpl; auto. Qed.

(* pvSplitNode's literal segment copies (BTreeModel.split_parts) are the insert-then-cut lists *)
Lemma split_parts_cut ks cs sub c s x :
  c <= length ks -> s < length ks ->
  (cs = [] /\ sub = []) \/ (length cs = S (length ks) /\ length sub = 2) ->
  let ks' := insert_at c x ks in
  let cs' := firstn c cs ++ sub ++ skipn (S c) cs in
  let s' := if c <=? s then S s else s in
  split_parts ks cs sub (length ks) c s x =
    ((firstn s' ks', firstn (S s') cs'), nth s' ks' 0%Z, (skipn (S s') ks', skipn (S s') cs')).
Proof.
  intros Hc Hs Hch ks' cs' s'. unfold split_parts, s'.
  assert (Ek : ks' = firstn c ks ++ [x] ++ skipn c ks) by reflexivity.
  destruct (c <=? s) eqn:E.
  - apply Nat.leb_le in E.
    assert (K1 : firstn (S s) ks' = seg ks 0 c ++ x :: seg ks c (s - c)).
    { rewrite Ek, (cut_hi_firstn ks [x] c c Hc (S s)) by (simpl; lia). cbn [length app]. rewrite seg_0. replace (S s - c - 1) with (s - c) by lia. reflexivity. }
    assert (K2 : skipn (S (S s)) ks' = seg ks (S s) (length ks - s - 1)).
    { rewrite Ek, (cut_hi_skipn ks [x] c c Hc (S (S s))) by (simpl; lia). cbn [length]. rewrite seg_to_end by lia. f_equal; lia. }
    assert (K3 : nth (S s) ks' 0%Z = nth s ks 0%Z).
    { rewrite !nth_hd_skipn. rewrite Ek, (cut_hi_skipn ks [x] c c Hc (S s)) by (simpl; lia). cbn [length]. repeat f_equal; lia. }
    assert (C12 : firstn (S (S s)) cs' = seg cs 0 c ++ sub ++ seg cs (S c) (s - c) /\ skipn (S (S s)) cs' = seg cs (S s) (length ks - s)).
    { destruct Hch as [[-> ->]|[Lc Lsub]].
      - unfold cs', seg. rewrite ?firstn_nil, ?skipn_nil, ?firstn_nil. simpl. rewrite ?firstn_nil, ?skipn_nil. auto.
      - assert (Hcc : c <= length cs) by lia. unfold cs'. split.
        + rewrite (cut_hi_firstn cs sub c (S c) Hcc (S (S s))) by lia. rewrite seg_0, Lsub. replace (S (S s) - c - 2) with (s - c) by lia. reflexivity.
        + rewrite (cut_hi_skipn cs sub c (S c) Hcc (S (S s))) by lia. rewrite Lsub, seg_to_end by lia. f_equal. lia. }
    destruct C12 as [C1 C2]. rewrite K1, K2, K3, C1, C2. reflexivity.
  - apply Nat.leb_gt in E.
    assert (K1 : firstn s ks' = seg ks 0 s).
    { rewrite Ek, (cut_lo_firstn ks [x] c c Hc s) by lia. reflexivity. }
    assert (K2 : skipn (S s) ks' = seg ks (S s) (c - s - 1) ++ x :: seg ks c (length ks - c)).
    { rewrite Ek, (cut_lo_skipn ks [x] c c Hc (S s)) by lia. cbn [app]. rewrite (seg_to_end ks c) by lia. replace (c - S s) with (c - s - 1) by lia. reflexivity. }
    assert (K3 : nth s ks' 0%Z = nth s ks 0%Z).
    { unfold ks', insert_at. rewrite app_nth1 by (rewrite firstn_length; lia).
      rewrite <- (firstn_skipn c ks) at 2. rewrite app_nth1 by (rewrite firstn_length; lia). reflexivity. }
    assert (C12 : firstn (S s) cs' = seg cs 0 (S s) /\ skipn (S s) cs' = seg cs (S s) (c - s - 1) ++ sub ++ seg cs (S c) (length ks - c)).
    { destruct Hch as [[-> ->]|[Lc Lsub]].
      - unfold cs', seg. rewrite ?firstn_nil, ?skipn_nil, ?firstn_nil. simpl. rewrite ?firstn_nil, ?skipn_nil. auto.
      - assert (Hcc : c <= length cs) by lia. unfold cs'. split.
        + rewrite (cut_lo_firstn cs sub c (S c) Hcc (S s)) by lia. reflexivity.
        + rewrite (cut_lo_skipn cs sub c (S c) Hcc (S s)) by lia. rewrite (seg_to_end cs (S c)) by lia. replace (c - S s) with (c - s - 1) by lia. reflexivity. }
    destruct C12 as [C1 C2]. rewrite K1, K2, K3, C1, C2. reflexivity.
Qed.

Section SplitNode.
Variables (maxCap stepRaw blockCount : nat).

(* the insert-then-cut reading of pvSplitNode used by the proofs *)
Definition split_node_cut (ic : nat) (n : node) (c : nat) (x : Z) (sub : list node) (pos_of : nat -> iter) : ins_res :=
  let leaf := is_leaf n in
  let ks' := insert_at c x (n_items n) in
  let cs' := firstn c (n_children n) ++ sub ++ skipn (S c) (n_children n) in
  let s := split_index (n_count n) c in
  let s' := if c <=? s then S s else s in
  Split (mk maxCap stepRaw blockCount ic leaf (firstn s' ks') (firstn (S s') cs')) (nth s' ks' 0%Z)
        (mk maxCap stepRaw blockCount ic leaf (skipn (S s') ks') (skipn (S s') cs'))
        (negb (c <=? s)) (pos_of (if c <=? s then c else c - s - 1)).

Lemma split_node_eq ic n c x sub pos_of :
  c <= n_count n -> split_index (n_count n) c < n_count n ->
  (n_children n = [] /\ sub = []) \/ (length (n_children n) = S (n_count n) /\ length sub = 2) ->
  split_node maxCap stepRaw blockCount ic n c x sub pos_of = split_node_cut ic n c x sub pos_of.
Proof.
  intros Hc Hs Hch. unfold split_node, split_node_cut.
  pose proof (split_parts_cut (n_items n) (n_children n) sub c (split_index (n_count n) c) x Hc Hs Hch) as E.
  cbv zeta in E. unfold n_count in *. rewrite E. reflexivity.
Qed.

End SplitNode.
