(* C02 -- contexts: the contents to the left / right of the subtree at a path, replacing that subtree *)
From Coq Require Import List ZArith Arith Lia Bool.
From C02 Require Import BTreeModel BTreeBase BTreeSearch BTreeIter BTreeAdd BTreeRemove.
Import ListNotations.

Fixpoint ctxb (p : list nat) (n : node) : list Z :=
  match p with
  | [] => []
  | c :: p' => pre n c ++ match nth_error (n_children n) c with Some ch => ctxb p' ch | None => [] end
  end.
Fixpoint ctxa (p : list nat) (n : node) : list Z :=
  match p with
  | [] => []
  | c :: p' => match nth_error (n_children n) c with Some ch => ctxa p' ch | None => [] end ++ post n c
  end.

Lemma update_at_app p q f n : update_at (p ++ q) f n = update_at p (update_at q f) n.
Proof.
  revert n; induction p as [|c p IH]; intros n; simpl; auto.
  destruct (nth_error (n_children n) c); auto. rewrite IH. reflexivity.
Qed.

Lemma update_at_const p f n nd : node_at p n = Some nd -> update_at p f n = update_at p (fun _ => f nd) n.
Proof.
  revert n; induction p as [|c p IH]; intros n E; simpl in *.
  - inversion E; reflexivity.
  - destruct (nth_error (n_children n) c); [|discriminate]. rewrite (IH _ E). reflexivity.
Qed.

Lemma node_at_app p q n : node_at (p ++ q) n = match node_at p n with Some nd => node_at q nd | None => None end.
Proof.
  revert n; induction p as [|c p IH]; intros n; simpl; auto.
  destruct (nth_error (n_children n) c); auto.
Qed.

Section Ctx.
Variable maxCap : nat.
Hypothesis Hpos : 0 < maxCap.
Notation shape := (shape maxCap).

Lemma node_at_valid p : forall d n j,
  shape d n -> valid d p n j ->
  exists nd, node_at p n = Some nd /\ shape (d - length p) nd /\ j <= n_count nd /\ length p <= d.
Proof.
  induction p as [|c p IH]; intros d n j Sh V.
  - exists n. simpl in *. rewrite Nat.sub_0_r. repeat split; auto. lia.
  - destruct (valid_cons _ _ _ _ _ V) as (d' & ch & -> & E & V'). simpl. rewrite E.
    destruct (IH d' ch j (shape_child _ _ _ _ _ Sh E) V') as (nd & A & B & C & D). exists nd. repeat split; auto. lia.
Qed.

Lemma ctx_pos p : forall d n j nd,
  valid d p n j -> node_at p n = Some nd ->
  before p n j = ctxb p n ++ before [] nd j /\ after p n j = after [] nd j ++ ctxa p n.
Proof.
  induction p as [|c p IH]; intros d n j nd V E.
  - simpl in E. inversion E; subst. cbn [ctxb ctxa]. rewrite app_nil_r. auto.
  - destruct (valid_cons _ _ _ _ _ V) as (d' & ch & -> & Ec & V'). cbn [before after ctxb ctxa node_at] in *. rewrite Ec in *.
    destruct (IH d' ch j nd V' E) as [A B]. rewrite A, B, <- !app_assoc. auto.
Qed.

Lemma flatten_ctx p : forall d n nd,
  shape d n -> valid d p n 0 -> node_at p n = Some nd -> flatten n = ctxb p n ++ flatten nd ++ ctxa p n.
Proof.
  induction p as [|c p IH]; intros d n nd Sh V E.
  - simpl in E. inversion E; subst. cbn [ctxb ctxa]. rewrite app_nil_r. reflexivity.
  - destruct (valid_cons _ _ _ _ _ V) as (d' & ch & -> & Ec & V'). cbn [ctxb ctxa node_at] in *. rewrite Ec in *.
    pose proof Sh as (_ & _ & L & _). rewrite (flatten_split n c ch L Ec).
    rewrite (IH d' ch nd (shape_child _ _ _ _ _ Sh Ec) V' E), <- !app_assoc. reflexivity.
Qed.

(* replacing child c by ANY node of the same depth: pre/post of the other children only see its contents *)
Lemma replace_child_gen d n c ch ch' :
  shape (S d) n -> nth_error (n_children n) c = Some ch -> shape d ch' ->
  let n' := Node (n_cap n) (n_items n) (replace_at c ch' (n_children n)) in
  shape (S d) n' /\ nth_error (n_children n') c = Some ch' /\ pre n' c = pre n c /\ post n' c = post n c /\
  (forall a, a <> c -> nth_error (n_children n') a = nth_error (n_children n) a) /\
  (flatten ch' = flatten ch -> forall a, pre n' a = pre n a /\ post n' a = post n a).
Proof.
  intros Sh E Sch' n'. pose proof Sh as (H1 & H2 & L & F & Cpx).
  assert (Hc : c < length (n_children n)) by (eapply nth_error_lt; eauto).
  split; [|split; [|split; [|split; [|split]]]].
  - unfold n'. cbn [BTreeBase.shape]. unfold n_count. cbn [n_items n_cap n_children]. rewrite replace_at_length by auto.
    repeat split; auto; try lia. apply Forall_replace_at; auto.
  - apply replace_at_nth_error; auto.
  - apply (pre_replace maxCap Hpos); auto.
  - apply (post_replace maxCap Hpos); auto.
  - intros a Ha. unfold n'. cbn [n_children]. unfold replace_at.
    destruct (nth_error_split _ _ _ E) as [Ecs Lc]. rewrite Ecs at 3.
    destruct (lt_dec a c).
    + rewrite !nth_error_app1 by lia. reflexivity.
    + rewrite !nth_error_app2 by lia. rewrite Lc. destruct (a - c) eqn:Eac; [lia|]. reflexivity.
  - intros Fl a. unfold n', pre, post. cbn [n_children n_items].
    assert (Em : map flatten (replace_at c ch' (n_children n)) = map flatten (n_children n)).
    { unfold replace_at. destruct (nth_error_split _ _ _ E) as [Ecs Lc]. rewrite Ecs at 3.
      rewrite !map_app. cbn [map]. rewrite Fl. reflexivity. }
    rewrite Em. auto.
Qed.

(* replacing the subtree at p by a node nd' of the right depth *)
Lemma update_ctx p : forall d n nd',
  shape d n -> valid d p n 0 -> shape (d - length p) nd' ->
  let n' := update_at p (fun _ => nd') n in
  shape d n' /\ node_at p n' = Some nd' /\ ctxb p n' = ctxb p n /\ ctxa p n' = ctxa p n /\ valid d p n' 0.
Proof.
  induction p as [|c p IH]; intros d n nd' Sh V Snd.
  - simpl in *. rewrite Nat.sub_0_r in Snd. repeat split; auto. lia.
  - destruct (valid_cons _ _ _ _ _ V) as (d' & ch & -> & Ec & V').
    pose proof (shape_child _ _ _ _ _ Sh Ec) as Sch. simpl in Snd.
    destruct (IH d' ch nd' Sch V' Snd) as (S' & N' & B' & A' & V'').
    cbn [update_at]. rewrite Ec.
    destruct (replace_child_gen d' n c ch _ Sh Ec S') as (S2 & E2 & P2 & Q2 & _ & _).
    cbn [node_at ctxb ctxa valid]. rewrite E2, P2, Q2, Ec, B', A'.
    split; [exact S2|]. split; [exact N'|]. split; [reflexivity|]. split; [reflexivity|]. exact V''.
Qed.

(* a position whose path does not go through p is not disturbed by a contents-preserving replacement at p *)
Fixpoint is_prefix (p q : list nat) : bool :=
  match p, q with
  | [], _ => true
  | c :: p', c' :: q' => (c =? c') && is_prefix p' q'
  | _ :: _, [] => false
  end.

Lemma update_other p : forall d n nd nd' sp j,
  shape d n -> valid d p n 0 -> node_at p n = Some nd -> shape (d - length p) nd' -> flatten nd' = flatten nd ->
  valid d sp n j -> is_prefix p sp = false ->
  let n' := update_at p (fun _ => nd') n in
  valid d sp n' j /\ before sp n' j = before sp n j /\ flatten n' = flatten n.
Proof.
  induction p as [|c p IH]; intros d n nd nd' sp j Sh V E Snd Fl Vs Np; [discriminate|].
  destruct (valid_cons _ _ _ _ _ V) as (d' & ch & -> & Ec & V').
  pose proof (shape_child _ _ _ _ _ Sh Ec) as Sch. simpl in Snd. cbn [node_at] in E. rewrite Ec in E.
  destruct (update_ctx p d' ch nd' Sch V' Snd) as (S' & N' & B' & A' & V'').
  assert (Flc : flatten (update_at p (fun _ => nd') ch) = flatten ch).
  { rewrite (flatten_ctx p d' _ nd' S' V'' N'), (flatten_ctx p d' ch nd Sch V' E), B', A', Fl. reflexivity. }
  cbn [update_at]. rewrite Ec.
  destruct (replace_child_gen d' n c ch _ Sh Ec S') as (S2 & E2 & P2 & Q2 & Oth & Same).
  specialize (Same Flc).
  set (n' := Node (n_cap n) (n_items n) (replace_at c (update_at p (fun _ => nd') ch) (n_children n))) in *.
  assert (Fn : flatten n' = flatten n).
  { pose proof S2 as (_ & _ & L2 & _). pose proof Sh as (_ & _ & L & _).
    rewrite (flatten_split n' c _ L2 E2), (flatten_split n c ch L Ec), P2, Q2, Flc. reflexivity. }
  destruct sp as [|a sp].
  - cbn [valid before] in *. split; [exact Vs|]. split; [|exact Fn].
    rewrite (shape_S_internal _ _ _ S2), (shape_S_internal _ _ _ Sh).
    destruct (Same j) as [Pj _]. rewrite Pj. f_equal.
    unfold n'. cbn [n_children]. unfold replace_at. destruct (nth_error_split _ _ _ Ec) as [Ecs Lc]. rewrite Ecs at 3.
    rewrite !map_app. cbn [map]. rewrite Flc. reflexivity.
  - destruct (valid_cons _ _ _ _ _ Vs) as (d'' & cha & Ed & Ea & Va). inversion Ed; subst d''.
    simpl in Np. destruct (c =? a) eqn:Eca.
    + apply Nat.eqb_eq in Eca. subst a. rewrite Ec in Ea. inversion Ea; subst cha. simpl in Np.
      destruct (IH d' ch nd nd' sp j Sch V' E Snd Fl Va Np) as (V3 & B3 & _).
      cbn [valid before]. rewrite E2, P2, Ec. repeat split; auto. rewrite B3. reflexivity.
    + apply Nat.eqb_neq in Eca. cbn [valid before]. rewrite (Oth a ltac:(lia)), Ea.
      destruct (Same a) as [Pa _]. rewrite Pa. repeat split; auto.
Qed.

End Ctx.
