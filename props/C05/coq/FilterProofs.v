(* C05 -- ArrayShifter::Remove(array, itemFilter) refines List.filter *)
From Coq Require Import List Arith Lia Bool.
From C05 Require Import ArrayShift ShiftProofs.
Import ListNotations.

Local Arguments for_up : simpl never.

Section FP.
Variable V : Type.
Variable self_move : V -> option V.
Variable after_move : V -> option V.
Variable p : V -> bool.
Notation cell := (cell V).
Notation arr := (arr V).
Definition keep (v : V) : bool := negb (p v).

Lemma firstn_S_nth (l : list V) i d : i < length l -> firstn (S i) l = firstn i l ++ [nth i l d].
Proof.
  revert i; induction l; intros i Hi; simpl in Hi; [lia|]. destruct i; simpl; auto. f_equal. apply IHl. lia.
Qed.

Lemma filter_keep_all (l : list V) d : (forall j, j < length l -> p (nth j l d) = false) -> filter keep l = l.
Proof.
  induction l; intros H; simpl; auto. pose proof (H 0 ltac:(simpl; lia)) as H0. simpl in H0.
  unfold keep at 1. rewrite H0. simpl. f_equal.
  apply IHl. intros j Hj. apply (H (S j)). simpl; lia.
Qed.

Lemma filter_len_le (f : V -> bool) (l : list V) : length (filter f l) <= length l.
Proof. induction l; simpl; auto. destruct (f a); simpl; lia. Qed.

Lemma skip_kept_ok (l : list V) r d : forall fuel k,
  length l - k < fuel -> k <= length l -> (forall j, j < k -> p (nth j l d) = false) ->
  exists k', skip_kept V fuel p (arr_of l r) k = Ok k' /\ k' <= length l /\
    (forall j, j < k' -> p (nth j l d) = false) /\ (k' < length l -> p (nth k' l d) = true).
Proof.
  destruct (arr_of_pre V l r d) as (Hc & _ & Hlive & _).
  induction fuel; intros k Hf Hk Hall; [lia|]. simpl skip_kept. change (cnt (arr_of l r)) with (length l).
  destruct (Nat.ltb_spec k (length l)).
  - rewrite (item_at_ok V (arr_of l r) k (nth k l d)) by auto. simpl.
    destruct (p (nth k l d)) eqn:Hp.
    + exists k. repeat split; auto.
    + apply IHfuel; try lia. intros j Hj. destruct (Nat.eq_dec j k); [subst; auto|apply Hall; lia].
  - exists k. repeat split; auto. lia.
Qed.

Theorem remove_filter_refines (l : list V) r :
  remove_filter V self_move after_move p (arr_of l r) =
    Ok (arr_of (filter keep l) (r + (length l - length (filter keep l))), length l - length (filter keep l)).
Proof.
  destruct l as [|d l0].
  { simpl. unfold remove_filter. simpl. unfold for_up. simpl. rewrite Nat.add_0_r. reflexivity. }
  remember (d :: l0) as l eqn:Heql. assert (Hn0 : 0 < length l) by (subst; simpl; lia). clear Heql l0.
  remember (length l) as n eqn:Heqn.
  destruct (arr_of_pre V l r d) as (Hc & Hcap & Hlive & Hraw). rewrite <- Heqn in Hc, Hcap, Hlive, Hraw.
  unfold remove_filter. cbv zeta. rewrite Hc.
  destruct (skip_kept_ok l r d (S n) 0 ltac:(lia) ltac:(lia) ltac:(intros j Hj; lia)) as (k0 & -> & Hk0 & Hpre & Hat).
  rewrite <- Heqn in Hk0, Hat. simpl bind.
  assert (Hlen_le : forall i, length (filter keep (firstn i l)) <= i).
  { intros i. etransitivity; [apply filter_len_le|]. rewrite firstn_length. lia. }
  destruct (Nat.eq_dec k0 n) as [->|Hne].
  - (* nothing is removed *)
    rewrite for_up_none by lia. simpl.
    assert (Hall : filter keep l = l) by (apply (filter_keep_all l d); intros j Hj; apply Hpre; rewrite Heqn; auto).
    rewrite Hall. rewrite <- Heqn. rewrite Nat.sub_diag.
    unfold remove_back. rewrite Hc. simpl. rewrite Nat.sub_0_r, Nat.add_0_r. unfold arr_of. rewrite <- Heqn. reflexivity.
  - assert (Hk0n : k0 < n) by lia. specialize (Hat Hk0n).
    pose (I := fun i (st : arr * nat) => let (s, k) := st in
       k < i /\ k = length (filter keep (firstn i l)) /\ cnt s = n /\ length (cells s) = n + r /\
       (forall j, j < k -> get (cells s) j = Live (nth j (filter keep (firstn i l)) d)) /\
       (forall j, k <= j -> j < i -> get (cells s) j <> Raw) /\
       (forall j, i <= j -> get (cells s) j = if j <? n then Live (nth j l d) else Raw)).
    match goal with |- context [for_up ?fu ?lo ?hi ?body ?st0] =>
      destruct (for_up_inv I body (k0 + 1) n) with (fuel := fu) (i := lo) (s := st0) as ([s1 k1] & -> & HI) end; try lia.
    { intros i [s k] Hlo Hi (Hki & Hk & Hcs & Hls & H1 & H2 & H3).
      assert (Hsrc : get (cells s) i = Live (nth i l d)).
      { rewrite H3 by lia. destruct (Nat.ltb_spec i n); [auto|lia]. }
      rewrite (item_at_ok V s i (nth i l d)) by (auto; lia). simpl bind. unfold holds.
      assert (Hfs : firstn (S i) l = firstn i l ++ [nth i l d]) by (apply firstn_S_nth; lia).
      destruct (p (nth i l d)) eqn:Hp.
      - assert (Hkp : keep (nth i l d) = false) by (unfold keep; rewrite Hp; auto).
        eexists; split; [reflexivity|]. unfold I. rewrite Hfs, filter_app. simpl. rewrite Hkp.
        rewrite app_nil_r. repeat split; auto; try lia.
        + intros j Hj1 Hj2. destruct (Nat.eq_dec j i); [subst; rewrite Hsrc; discriminate|apply H2; lia].
        + intros j Hj. apply H3; lia.
      - assert (Hdst : get (cells s) k <> Raw) by (apply H2; lia).
        rewrite (move_assign_items_ok V self_move after_move s i k (nth i l d)); try lia; auto.
        simpl bind. eexists; split; [reflexivity|]. unfold I. cbn [cells cnt].
        assert (Hkp : keep (nth i l d) = true) by (unfold keep; rewrite Hp; auto).
        rewrite Hfs, filter_app. simpl. rewrite Hkp. rewrite app_length. simpl.
        rewrite !length_set.
        assert (Hkl : k < length (cells s)) by (apply get_not_raw_lt; auto).
        repeat split; auto; try lia.
        + intros j Hj. rewrite get_set by (rewrite length_set; lia). rewrite get_set by lia.
          destruct (Nat.eqb_spec j i); [lia|]. destruct (Nat.eqb_spec j k).
          * subst j. rewrite app_nth2 by lia. rewrite <- Hk, Nat.sub_diag. reflexivity.
          * rewrite app_nth1 by lia. apply H1. lia.
        + intros j Hj1 Hj2. rewrite get_set by (rewrite length_set; lia).
          destruct (Nat.eqb_spec j i); [apply mcell_not_raw|]. rewrite get_set_other by lia. apply H2; lia.
        + intros j Hj. rewrite !get_set_other by lia. apply H3; lia. }
    { unfold I.
      assert (Hf0 : filter keep (firstn k0 l) = firstn k0 l).
      { apply (filter_keep_all _ d). intros j Hj. rewrite firstn_length in Hj.
        rewrite nth_firstn_lt by lia. apply Hpre. lia. }
      assert (Hf1 : filter keep (firstn (k0 + 1) l) = firstn k0 l).
      { rewrite Nat.add_1_r, (firstn_S_nth l k0 d) by lia. rewrite filter_app, Hf0. simpl.
        unfold keep at 1. rewrite Hat. simpl. apply app_nil_r. }
      rewrite Hf1. rewrite firstn_length. rewrite <- Heqn.
      split; [lia|]. split; [lia|]. split; [exact Hc|].
      split; [unfold arr_of; cbn [cells]; rewrite length_lives_raws, <- Heqn; reflexivity|].
      split; [intros j Hj; rewrite Hlive by lia; rewrite nth_firstn_lt by lia; reflexivity|].
      split; [intros j Hj1 Hj2; rewrite Hlive by lia; discriminate|].
      intros j Hj. destruct (Nat.ltb_spec j n); [apply Hlive; auto|apply Hraw; auto]. }
    destruct HI as (Hk1n & Hk1 & Hcs & Hls & H1 & H2 & H3).
    assert (Hfn : firstn n l = l) by (rewrite Heqn; apply firstn_all).
    rewrite Hfn in *. simpl bind.
    destruct (remove_back_ok V s1 (n - k1)) as (c' & He & Hl' & Hg'); try (unfold cap; lia).
    { intros j Hj. apply H2; lia. }
    rewrite He. simpl bind. rewrite <- Hk1. f_equal. f_equal.
    unfold arr_of. rewrite <- Hk1. rewrite Hcs. replace (n - (n - k1)) with k1 by lia. f_equal.
    apply get_ext.
    + rewrite length_lives_raws, <- Hk1, Hl'. unfold cap. lia.
    + intros j. rewrite Hg', Hcs. rewrite (get_lives_raws V _ _ _ d), <- Hk1.
      replace (n - (n - k1)) with k1 by lia.
      destruct (Nat.ltb_spec j k1).
      * destruct (Nat.leb_spec k1 j); [lia|]. simpl. apply H1; auto.
      * destruct (Nat.leb_spec k1 j); [|lia]. destruct (Nat.ltb_spec j n); simpl; auto.
        rewrite H3 by lia. destruct (Nat.ltb_spec j n); [lia|auto].
Qed.

(* InsertNogrow(array, index, Item&&) with a temporary (what InsertCrt / the ArrayItemHandler path passes) *)
Theorem insert_rvalue_temp_refines (l : list V) r index v :
  index <= length l -> 1 <= r ->
  insert_nogrow_rvalue V self_move after_move true (arr_of l r) index (ArgVal v) =
    Ok (arr_of (firstn index l ++ [v] ++ skipn index l) (r - 1)).
Proof.
  intros Hi Hr. unfold insert_nogrow_rvalue.
  apply (insert_pure_refines V self_move after_move (source_rvalue V self_move after_move (ArgVal v)) l r index [v] v (fun _ => ArgVal v));
    simpl; auto.
  intros k Hk. destruct k; [reflexivity|lia].
Qed.
End FP.
