#!/bin/bash
# robustness round mutants: L1 (pvRelocateItems inner loop leaves one element per bucket behind), L2 (static pvFind does not write the
# by-reference indexCode on a hit found while probing)
cd /verif
run() {
  d=$(mktemp -d); cp -r /repo/include $d/
  cp evidence/C12.json $d/ev_keep.json 2>/dev/null; ls replays > $d/replays_before.txt 2>/dev/null   # a mutant run must not leave evidence / replays behind
  python3 - "$d/include/momo/$2" "$3" "$4" <<'PY'
import sys
p,old,new=sys.argv[1:4]
s=open(p).read()
assert s.count(old)==1,(s.count(old))
open(p,'w').write(s.replace(old,new))
PY
  echo "=== $1"; VERIF_REPO=$d timeout 3000 ./check C12 > build/C12/mut_$1.log 2>&1; echo "exit=$?"
  grep -E "BROKEN|VIOLATION|done:" build/C12/mut_$1.log | cut -c1-230
  cp build/C12/coq_make.log build/C12/coq_make_$1.log 2>/dev/null
  cp $d/ev_keep.json evidence/C12.json 2>/dev/null; for r in $(ls replays | grep '^C12-'); do grep -qx "$r" $d/replays_before.txt || rm -f replays/$r; done
  rm -rf $d
}
run L1 HashSet.h "			for (size_t c = bucketBounds.GetCount(); c > 0; --c)" "			for (size_t c = bucketBounds.GetCount(); c > 1; --c)"
run L2 HashSet.h "				indexCode = bucketIndex;
				return bucketIter;
			}
		}
		return BucketIterator();" "				return bucketIter;
			}
		}
		return BucketIterator();"
# N1: Open2N2 probing with constant step 2 (visits half of the buckets: 'table full' although buckets are free) -- breaks next_pidx and with it the
# no-exception theorems of NoExn.v
run N1 details/HashBucketOpen2N2.h "			return (bucketIndex + probe) & (bucketCount - 1);	// quadratic probing" "			return (bucketIndex + 2) & (bucketCount - 1);	// quadratic probing"
# P1: BucketBase (LimP4, One) linear probing with step 2: only half of the buckets are probed -- breaks next_lidx and with it the LimP4 no-exception theorems
run P1 details/BucketUtility.h "			return (bucketIndex + 1) & (bucketCount - 1);	// linear probing" "			return (bucketIndex + 2) & (bucketCount - 1);	// linear probing"
# Q1: pvAddGrow's growth decision accepts newCapacity == mCount (the count may then exceed the capacity by one) -- breaks grow_decision
run Q1 HashSet.h "			if (newCapacity > mCount)" "			if (newCapacity >= mCount)"
# R1: Open2N2 capacity policy above the number of slots (12/11 instead of 11/12) -- breaks calc_capacity_le_slots
run R1 details/HashBucketOpen2N2.h "		return static_cast<size_t>(static_cast<double>(bucketCount * maxCount) / 12.0 * 11.0);" "		return static_cast<size_t>(static_cast<double>(bucketCount * maxCount) / 11.0 * 12.0);"
python3 /verif/props/C12/regen_clean.py   # leave the clean translation in the shared coq directory
