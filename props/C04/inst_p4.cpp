// instantiation TU for cxx2coq (C04): BucketLimP4::pvAdd0 / pvAdd -- the item block is allocated under a BucketMemory guard, the
// creator / RelocateCreate runs, and only then are the short hash and the pointer state published
#include "momo/HashSet.h"
#include "momo/details/HashBucketLimP4.h"
namespace momo { namespace internal {
typedef HashSetItemTraits<uint64_t, MemManagerDefault> C04IT4;
typedef BucketLimP4<C04IT4, 4, MemPoolParams<>, true> C04P4;
template class BucketLimP4<C04IT4, 4, MemPoolParams<>, true>;
struct C04Creator4 { void operator()(uint64_t*) const {} };
inline void c04_use4(C04P4& b, C04P4::Params& pb) { C04Creator4 cr; b.AddCrt(pb, cr, 0, 0, 0); }
}}
