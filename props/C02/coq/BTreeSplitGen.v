(* C02 (growth round 2) -- Relocator::pvSplitNode (TreeSet.h): the REAL segment arithmetic of a node split, translated by cxx2coq
   (Gen_Split.v: every AddSegment call is recorded in a trace; node pointers, isLeaf, GetCount and GetSplitItemIndex results are
   parameters), refined to the hand model's split (BTreeModel.split_parts): which items go to the left node, which to the right
   node, where the new item lands, and which item moves up. *)
From Coq Require Import ZArith Bool List Lia Arith.
From MomoCommon Require Import GenPrelude.
From C02 Require Import GenPrimsC02 Gen_Split BTreeModel.
Import ListNotations.

(* the hand model's segments: (srcBegin, destination node 1|2, dstBegin, count), in call order *)
Definition hand_segs (c s cnt : nat) : list (nat * nat * nat * nat) :=
  if c <=? s then [(0, 1, 0, c); (c, 1, c + 1, s - c); (s + 1, 2, 0, cnt - s - 1)]
  else [(0, 1, 0, s); (s + 1, 2, 0, c - s - 1); (c, 2, c - s, cnt - c)].

Definition zseg (node n1 n2 : Z) (g : nat * nat * nat * nat) : Z * Z * Z * Z * Z :=
  let '(sb, d, db, n) := g in (node, Z.of_nat sb, if d =? 1 then n1 else n2, Z.of_nat db, Z.of_nat n).

Lemma w64' x : (0 <= x < 1000)%Z -> wrapU 64 x = x.
Proof. intros. apply wrapU_small. change (2 ^ 64)%Z with 18446744073709551616%Z. lia. Qed.

Lemma segs3 a1 a2 a3 a4 a5 b1 b2 b3 b4 b5 c1 c2 c3 c4 c5 :
  segs_list (ev_seg (ev_seg (ev_seg no_segs a1 a2 a3 a4 a5) b1 b2 b3 b4 b5) c1 c2 c3 c4 c5) =
  [(a1, a2, a3, a4, a5); (b1, b2, b3, b4, b5); (c1, c2, c3, c4, c5)].
Proof. vm_compute. reflexivity. Qed.

Lemma creates2 l1 c1 l2 c2 :
  creates_list (ev_create (ev_create no_segs l1 c1) l2 c2) = [((if l1 then 1 else 0)%Z, c1); ((if l2 then 1 else 0)%Z, c2)].
Proof. destruct l1, l2; vm_compute; reflexivity. Qed.

(* the counts the two new nodes are created with (Relocator::CreateNode(isLeaf, count)) *)
Definition hand_counts (c s cnt : nat) : nat * nat := if c <=? s then (s + 1, cnt - s - 1) else (s, cnt - s).

(* A: the generated trace is the hand model's segment list, the two CreateNode calls ask for exactly the sizes of the two halves; the
   function is Stuck exactly when MOMO_ASSERT(splitItemIndex < itemCount) fails *)
Theorem gen_split_trace node n1 n2 leaf (c s cnt : nat) :
  s < cnt -> c <= cnt -> cnt <= 255 ->
  exists tr cr, Gen_Split.pvSplitNode no_segs no_segs node (Z.of_nat c) leaf (Z.of_nat cnt) (Z.of_nat s) n1 n2 = Ok (tt, tr, cr) /\
    segs_list tr = map (zseg node n1 n2) (hand_segs c s cnt) /\
    creates_list cr = [((if leaf then 1 else 0)%Z, Z.of_nat (fst (hand_counts c s cnt))); ((if leaf then 1 else 0)%Z, Z.of_nat (snd (hand_counts c s cnt)))].
Proof.
  intros H1 H2 H3. unfold Gen_Split.pvSplitNode, hand_segs, hand_counts.
  replace (Z.of_nat s <? Z.of_nat cnt)%Z with true by (symmetry; apply Z.ltb_lt; lia). cbv iota.
  destruct (Nat.leb_spec c s) as [L|L].
  - replace (Z.of_nat c <=? Z.of_nat s)%Z with true by (symmetry; apply Z.leb_le; lia). cbv iota.
    assert (Q : (0 <= Z.of_nat cnt - Z.of_nat s < 1000)%Z) by lia. rewrite (w64' _ Q). rewrite !w64' by lia.
    eexists. eexists. split; [reflexivity|]. rewrite segs3, creates2. cbn [map zseg Nat.eqb fst snd]. split; repeat f_equal; lia.
  - replace (Z.of_nat c <=? Z.of_nat s)%Z with false by (symmetry; apply Z.leb_gt; lia). cbv iota.
    assert (Q : (0 <= Z.of_nat c - Z.of_nat s < 1000)%Z) by lia. rewrite (w64' _ Q). rewrite !w64' by lia.
    eexists. eexists. split; [reflexivity|]. rewrite segs3, creates2. cbn [map zseg Nat.eqb fst snd]. split; repeat f_equal; lia.
Qed.

Theorem gen_split_stuck node n1 n2 leaf c s cnt tr0 cr0 :
  (s >= cnt)%Z -> Gen_Split.pvSplitNode tr0 cr0 node c leaf cnt s n1 n2 = Stuck.
Proof. intros H. unfold Gen_Split.pvSplitNode. replace (s <? cnt)%Z with false by (symmetry; apply Z.ltb_ge; lia). reflexivity. Qed.

(* B: the hand split IS the replay of those segments: every destination node receives its segments in order, the new item x fills
   the one-slot gap (the segment that starts one place after the hole), the item at the split index moves up *)
Definition assemble {A} (ks : list A) (x : A) (hole : option nat) (d : nat) (segs : list (nat * nat * nat * nat)) : list A :=
  flat_map (fun g => let '(sb, dn, db, n) := g in
                     if dn =? d then (match hole with Some h => if db =? S h then [x] else [] | None => [] end) ++ seg ks sb n else []) segs.

Theorem hand_split_is_segment_replay (ks : list Z) cs sub cnt c s x :
  let '((ks1, _), sep, (ks2, _)) := split_parts ks cs sub cnt c s x in
  ks1 = assemble ks x (if c <=? s then Some c else None) 1 (hand_segs c s cnt) /\
  ks2 = assemble ks x (if c <=? s then None else Some (c - s - 1)) 2 (hand_segs c s cnt) /\
  sep = nth s ks 0%Z.
Proof.
  unfold split_parts, hand_segs, assemble. destruct (Nat.leb_spec c s) as [L|L]; cbn [flat_map Nat.eqb app].
  - replace (c + 1 =? S c) with true by (symmetry; apply Nat.eqb_eq; lia).
    rewrite ?app_nil_r. cbn [app]. replace (s + 1) with (S s) by lia. auto.
  - replace (c - s =? S (c - s - 1)) with true by (symmetry; apply Nat.eqb_eq; lia).
    rewrite ?app_nil_r. cbn [app]. replace (s + 1) with (S s) by lia. auto.
Qed.

(* the hand split's two item lists have exactly the sizes the real code creates the nodes with *)
Theorem hand_split_sizes (ks : list Z) cs sub c s x :
  s < length ks -> c <= length ks ->
  let '((ks1, _), _, (ks2, _)) := split_parts ks cs sub (length ks) c s x in
  length ks1 = fst (hand_counts c s (length ks)) /\ length ks2 = snd (hand_counts c s (length ks)).
Proof.
  intros H1 H2. unfold split_parts, hand_counts, seg. destruct (Nat.leb_spec c s) as [L|L]; cbn [fst snd].
  - rewrite !app_length. cbn [length]. rewrite !firstn_length, !skipn_length. lia.
  - rewrite !app_length. cbn [length]. rewrite !firstn_length, !skipn_length. lia.
Qed.
