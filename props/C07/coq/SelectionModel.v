(* C07 / DataSelection (DataSelection.h:804-927): pvSort, pvBinarySearch (GetLowerBound / GetUpperBound).
   Keys are the projections of the rows on the sort columns, compared lexicographically column by column
   (pvIsLess / pvCompare = TableSpec.zlist_ltb on keys of equal length).
     sort_keys (TableSpec)   the list-level result of Sort: the sorted permutation of the keys (std::sort is not stable,
                             so only the key sequence is determined - that is what the tie compares)
     ub_bisect               std::upper_bound(begin, end, nullptr, pred) exactly as libstdc++ runs it (halving loop)
   Theorems: sort_keys is a sorted permutation; on a sorted selection the bisection with pvBinarySearch's two
   predicates returns TableSpec.lower_bound_count / upper_bound_count, i.e. the bounds of the range of equal keys.
   Tie: harness op `S` (real Selection::Sort + GetLowerBound/GetUpperBound vs sorted_projection and the two counts). *)
From Coq Require Import List ZArith Lia Bool Arith PeanoNat Permutation.
From C07 Require Import TableSpec.
Import ListNotations.

(* ================================================================ the lexicographic order on keys of equal length *)

Lemma ltb_irrefl a : zlist_ltb a a = false.
Proof. induction a as [|x a IH]; simpl; [reflexivity|]. rewrite Z.ltb_irrefl, Z.eqb_refl, IH. reflexivity. Qed.

Lemma ltb_trichotomy : forall a b, length a = length b ->
  (zlist_ltb a b = true /\ zlist_ltb b a = false /\ a <> b) \/
  (a = b) \/
  (zlist_ltb b a = true /\ zlist_ltb a b = false /\ a <> b).
Proof.
  induction a as [|x a IH]; intros [|y b] H; simpl in H; try discriminate; [right; left; reflexivity|].
  simpl. destruct (Z.compare_spec x y) as [E|E|E].
  - subst y. rewrite Z.ltb_irrefl, Z.eqb_refl. simpl. destruct (IH b ltac:(lia)) as [(H1 & H2 & H3)|[->|(H1 & H2 & H3)]].
    + left. repeat split; auto. congruence.
    + right. left. reflexivity.
    + right. right. repeat split; auto. congruence.
  - left. replace (Z.ltb x y) with true by (symmetry; apply Z.ltb_lt; lia). replace (Z.ltb y x) with false by (symmetry; apply Z.ltb_ge; lia).
    replace (Z.eqb y x) with false by (symmetry; apply Z.eqb_neq; lia). simpl. repeat split; auto. intros Eq; inversion Eq; lia.
  - right. right. replace (Z.ltb y x) with true by (symmetry; apply Z.ltb_lt; lia). replace (Z.ltb x y) with false by (symmetry; apply Z.ltb_ge; lia).
    replace (Z.eqb x y) with false by (symmetry; apply Z.eqb_neq; lia). simpl. repeat split; auto. intros Eq; inversion Eq; lia.
Qed.

Lemma ltb_trans : forall a b c, zlist_ltb a b = true -> zlist_ltb b c = true -> zlist_ltb a c = true.
Proof.
  induction a as [|x a IH]; intros [|y b] [|z c]; simpl; try discriminate. intros H1 H2.
  apply orb_true_iff in H1. apply orb_true_iff in H2. apply orb_true_iff.
  destruct H1 as [H1|H1], H2 as [H2|H2].
  - left. apply Z.ltb_lt in H1, H2. apply Z.ltb_lt. lia.
  - apply andb_true_iff in H2 as [H2 _]. apply Z.eqb_eq in H2. subst. left. exact H1.
  - apply andb_true_iff in H1 as [H1 _]. apply Z.eqb_eq in H1. subst. left. exact H2.
  - apply andb_true_iff in H1 as [E1 H1]. apply andb_true_iff in H2 as [E2 H2]. apply Z.eqb_eq in E1, E2. subst. right.
    rewrite Z.eqb_refl. simpl. eapply IH; eassumption.
Qed.

(* "not less" is transitive on keys of equal length (negative transitivity of the strict order) *)
Lemma nlt_trans a b c : length a = length b -> length b = length c ->
  zlist_ltb b a = false -> zlist_ltb c b = false -> zlist_ltb c a = false.
Proof.
  intros L1 L2 H1 H2. destruct (zlist_ltb c a) eqn:E; [|reflexivity]. exfalso.
  destruct (ltb_trichotomy a b L1) as [(Hab & _ & _)|[->|(Hba & _ & _)]]; [|congruence|congruence].
  destruct (ltb_trichotomy b c L2) as [(Hbc & _ & _)|[->|(Hcb & _ & _)]]; [|congruence|congruence].
  pose proof (ltb_trans a b c Hab Hbc) as Hac. pose proof (ltb_trans a c a Hac E) as Haa. rewrite ltb_irrefl in Haa. discriminate.
Qed.

(* ================================================================ Sort: the sorted permutation *)

Fixpoint ksorted (l : list (list Z)) : Prop :=
  match l with
  | [] => True
  | x :: l' => (forall y, In y l' -> zlist_ltb y x = false) /\ ksorted l'
  end.

Lemma insert_key_perm k l : Permutation (insert_key k l) (k :: l).
Proof.
  induction l as [|x l IH]; simpl; [reflexivity|]. destruct (zlist_ltb k x); [reflexivity|].
  etransitivity; [apply perm_skip; exact IH|apply perm_swap].
Qed.

Theorem sort_keys_perm ks : Permutation (sort_keys ks) ks.
Proof. unfold sort_keys. induction ks as [|k ks IH]; simpl; [reflexivity|]. etransitivity; [apply insert_key_perm|apply perm_skip; exact IH]. Qed.

Lemma insert_key_sorted n k l :
  length k = n -> Forall (fun x => length x = n) l -> ksorted l -> ksorted (insert_key k l).
Proof.
  intros Lk. induction l as [|x l IH]; intros HL Hs; simpl; [split; [intros ? []|exact I]|].
  inversion HL as [|? ? Lx HL']; subst. destruct Hs as [H1 H2]. destruct (zlist_ltb k x) eqn:E.
  - simpl. split; [|split; assumption]. intros y [<-|Hy].
    + destruct (ltb_trichotomy k x ltac:(lia)) as [(_ & H & _)|[->|(_ & H & _)]]; [exact H|rewrite ltb_irrefl in E; discriminate|congruence].
    + (* y >= x > k *) destruct (zlist_ltb y k) eqn:Ey; [|reflexivity]. exfalso.
      pose proof (ltb_trans y k x Ey E) as Hyx. rewrite (H1 y Hy) in Hyx. discriminate.
  - simpl. split; [|apply IH; assumption]. intros y Hy. apply (Permutation_in _ (insert_key_perm k l)) in Hy.
    destruct Hy as [<-|Hy]; [exact E|apply H1; exact Hy].
Qed.

Theorem sort_keys_sorted n ks : Forall (fun x => length x = n) ks -> ksorted (sort_keys ks).
Proof.
  unfold sort_keys. induction ks as [|k ks IH]; intros H; simpl; [exact I|]. inversion H; subst.
  apply (insert_key_sorted (length k)); [reflexivity| |apply IH; assumption].
  rewrite Forall_forall in *. intros x Hx. apply (Permutation_in _ (sort_keys_perm ks)) in Hx. auto.
Qed.

(* ================================================================ std::upper_bound as libstdc++ runs it *)

Fixpoint ub_bisect {A} (fuel : nat) (p : A -> bool) (d : A) (l : list A) (first len : nat) : nat :=
  match fuel with
  | O => first
  | S f =>
      if Nat.eqb len 0 then first
      else let half := len / 2 in
           let mid := first + half in
           if p (nth mid l d) then ub_bisect f p d l first half
           else ub_bisect f p d l (S mid) (len - half - 1)
  end.

Definition partitioned {A} (p : A -> bool) (d : A) (l : list A) (k : nat) : Prop :=
  k <= length l /\ (forall i, i < k -> p (nth i l d) = false) /\ (forall i, k <= i < length l -> p (nth i l d) = true).

(* on a range partitioned by the predicate the halving loop returns the partition point *)
Lemma ub_bisect_inv {A} (p : A -> bool) d l k : partitioned p d l k ->
  forall fuel first len, len < fuel -> first <= k <= first + len -> first + len <= length l ->
  ub_bisect fuel p d l first len = k.
Proof.
  intros (Hk & Hf & Ht). induction fuel as [|f IH]; intros first len Hfuel Hr Hl; [lia|]. cbn [ub_bisect].
  destruct (Nat.eqb_spec len 0) as [E|E]; [lia|]. cbv zeta.
  assert (Hh : len / 2 < len) by (apply Nat.div_lt; lia).
  destruct (p (nth (first + len / 2) l d)) eqn:Ep.
  - apply IH; [lia| |lia]. split; [lia|].
    destruct (Nat.le_gt_cases k (first + len / 2)); [exact H|]. rewrite (Hf (first + len / 2) H) in Ep. discriminate.
  - apply IH; [lia| |lia]. split; [|lia].
    destruct (Nat.le_gt_cases (S (first + len / 2)) k); [exact H|]. rewrite (Ht (first + len / 2) ltac:(lia)) in Ep. discriminate.
Qed.

Theorem ub_bisect_partition_point {A} (p : A -> bool) d l k :
  partitioned p d l k -> ub_bisect (S (length l)) p d l 0 (length l) = k.
Proof. intros H. apply (ub_bisect_inv p d l k H); [lia| |lia]. destruct H as (Hk & _). lia. Qed.

(* ================================================================ GetLowerBound / GetUpperBound on a sorted selection *)

(* pvBinarySearch<includeEqual>: pred(raw) = pvCompare(raw, equals) > bound, bound = -1 (lower) or 0 (upper) *)
Definition lower_pred (k x : list Z) : bool := negb (zlist_ltb x k).   (* compare(x, k) > -1 : x >= k *)
Definition upper_pred (k x : list Z) : bool := zlist_ltb k x.          (* compare(x, k) > 0  : x > k  *)

Lemma filter_none_sel {A} (f : A -> bool) l : (forall x, In x l -> f x = false) -> filter f l = [].
Proof.
  induction l as [|x l IH]; intros H; [reflexivity|]. simpl. rewrite (H x (or_introl eq_refl)).
  apply IH. intros y Hy. apply H. right. exact Hy.
Qed.

Lemma partitioned_cons {A} (p : A -> bool) d x l k :
  p x = false -> partitioned p d l k -> partitioned p d (x :: l) (S k).
Proof.
  intros Hx (Hk & Hf & Ht). split; [simpl; lia|]. split.
  - intros [|i] Hi; simpl; [exact Hx|apply Hf; lia].
  - intros [|i] Hi; simpl in *; [lia|apply Ht; lia].
Qed.

Lemma partitioned_all_true {A} (p : A -> bool) d l : (forall x, In x l -> p x = true) -> partitioned p d l 0.
Proof.
  intros H. split; [lia|]. split; [intros i Hi; lia|]. intros i Hi. apply H. apply nth_In. lia.
Qed.

Lemma sorted_partitioned n (p : list Z -> bool) ks :
  Forall (fun x => length x = n) ks -> ksorted ks ->
  (forall a b, length a = n -> length b = n -> zlist_ltb b a = false -> p a = true -> p b = true) ->
  partitioned p [] ks (length (filter (fun x => negb (p x)) ks)).
Proof.
  intros HL Hs Hmono. induction ks as [|x ks IH]; [split; [simpl; lia|split; intros i Hi; simpl in *; lia]|].
  inversion HL as [|? ? Lx HL']; subst. destruct Hs as [H1 H2]. simpl. destruct (p x) eqn:Ex; simpl.
  - assert (Hall : forall y, In y (x :: ks) -> p y = true).
    { intros y [<-|Hy]; [exact Ex|]. apply (Hmono x y); auto. rewrite Forall_forall in HL'. apply HL'. exact Hy. }
    rewrite (filter_none_sel _ ks); [apply partitioned_all_true; exact Hall|].
    intros y Hy. rewrite (Hall y (or_intror Hy)). reflexivity.
  - apply partitioned_cons; [exact Ex|apply IH; assumption].
Qed.

(* the bisection of GetLowerBound returns the number of keys smaller than k; GetUpperBound the number of keys not
   greater than k: [lower, upper) is exactly the range of keys equal to k *)
Theorem lower_bound_is_count n ks k :
  Forall (fun x => length x = n) ks -> length k = n -> ksorted ks ->
  ub_bisect (S (length ks)) (lower_pred k) [] ks 0 (length ks) = lower_bound_count ks k.
Proof.
  intros HL Lk Hs. unfold lower_bound_count.
  rewrite (filter_ext (fun x => zlist_ltb x k) (fun x => negb (lower_pred k x))) by (intros x; unfold lower_pred; rewrite negb_involutive; reflexivity).
  apply ub_bisect_partition_point. apply (sorted_partitioned n); auto.
  intros a b La Lb Hab Ha. unfold lower_pred in *. apply negb_true_iff in Ha. apply negb_true_iff.
  apply (nlt_trans k a b); lia || assumption.
Qed.

Theorem upper_bound_is_count n ks k :
  Forall (fun x => length x = n) ks -> length k = n -> ksorted ks ->
  ub_bisect (S (length ks)) (upper_pred k) [] ks 0 (length ks) = upper_bound_count ks k.
Proof.
  intros HL Lk Hs. unfold upper_bound_count.
  apply ub_bisect_partition_point. apply (sorted_partitioned n); auto.
  intros a b La Lb Hab Ha. unfold upper_pred in *.
  destruct (zlist_ltb k b) eqn:E; [reflexivity|]. exfalso.
  pose proof (nlt_trans a b k ltac:(lia) ltac:(lia) Hab E) as H. congruence.
Qed.

(* between the two bounds lie exactly the keys equal to k *)
Theorem bounds_delimit_equal_keys n ks k :
  Forall (fun x => length x = n) ks -> length k = n ->
  upper_bound_count ks k - lower_bound_count ks k <= upper_bound_count ks k /\
  upper_bound_count ks k = lower_bound_count ks k + length (filter (fun x => zlist_eqb x k) ks).
Proof.
  intros HL Lk. split; [lia|]. unfold upper_bound_count, lower_bound_count.
  induction ks as [|x ks IH]; [reflexivity|]. inversion HL as [|? ? Lx HL']; subst. simpl.
  destruct (ltb_trichotomy x k ltac:(lia)) as [(H1 & H2 & H3)|[->|(H1 & H2 & H3)]].
  - rewrite H1, H2. simpl. replace (zlist_eqb x k) with false; [simpl; rewrite IH by assumption; reflexivity|].
    symmetry. destruct (zlist_eqb x k) eqn:E; [apply zlist_eqb_eq in E; contradiction|reflexivity].
  - rewrite ltb_irrefl, zlist_eqb_refl. simpl. rewrite IH by assumption. lia.
  - rewrite H1, H2. simpl. replace (zlist_eqb x k) with false; [apply IH; assumption|].
    symmetry. destruct (zlist_eqb x k) eqn:E; [apply zlist_eqb_eq in E; contradiction|reflexivity].
Qed.

(* ================================================================ Group: equal keys contiguous *)

(* pvGroup (HashSorter) only promises a permutation in which equal keys are adjacent; the order of the groups depends on
   the hash.  grouped = that promise; the sorted permutation is one instance. *)
Definition grouped (ks : list (list Z)) : Prop :=
  forall i j m, i < j -> j < m -> m < length ks -> nth i ks [] = nth m ks [] -> nth j ks [] = nth i ks [].

(* named forms of the exported statements (Properties_C07.v proofs are `exact <lemma>.`) *)
Lemma sort_is_sorted_permutation n ks :
  Forall (fun x => length x = n) ks -> Permutation (sort_keys ks) ks /\ ksorted (sort_keys ks).
Proof. intros H. split; [apply sort_keys_perm|apply (sort_keys_sorted n ks H)]. Qed.

Lemma bounds_are_equal_range n ks k :
  Forall (fun x => length x = n) ks -> length k = n -> ksorted ks ->
  ub_bisect (S (length ks)) (lower_pred k) [] ks 0 (length ks) = lower_bound_count ks k /\
  ub_bisect (S (length ks)) (upper_pred k) [] ks 0 (length ks) = upper_bound_count ks k /\
  upper_bound_count ks k = lower_bound_count ks k + length (filter (fun x => zlist_eqb x k) ks).
Proof.
  intros HL Lk Hs. split; [apply (lower_bound_is_count n ks k HL Lk Hs)|]. split; [apply (upper_bound_is_count n ks k HL Lk Hs)|].
  apply (proj2 (bounds_delimit_equal_keys n ks k HL Lk)).
Qed.
