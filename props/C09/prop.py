"""C09 - memory pool blocks are aligned, disjoint, inside owned memory, and all returned.
tie: T-gen (cxx2coq on UIntMath::Ceil, MemPoolConst, MemPool address arithmetic) + translator validation against the
real functions; hand L1 model of the buffer-list surgery (PoolLinks.v) run against the real MergeFrom /
pvMoveBufferToHead / pvDeleteBuffer on fabricated lists and on every merge observed in the random histories.
oracle: the property predicate evaluated inside harness.cpp on the real MemPool with a placement-policy manager."""
import os, re

GEN = ['gen_uintmath.json', 'gen_poolconst.json', 'gen_mempool.json', 'gen_pool32.json', 'gen_pooldata.json', 'gen_poolblk.json', 'gen_poolmerge.json', 'gen_pooldel.json', 'gen_poolnb.json']
BASE = 0x200000000000
BCS = [1, 2, 3, 31, 32, 127]
CFS = [0, 1, 16]
ALIGNS = [1, 2, 4, 8, 16, 32, 64, 128, 256, 512, 1024]
ODD_ALIGNS = [3, 5, 6, 7, 9, 10, 11, 12, 13, 14, 15, 24, 48, 96, 1000]     # legal (CheckBlockAlignment) but not powers of two


def lowbit(a): return a & (-a)
def gran(a): return min(16, lowbit(a))
def ceil_(v, m): return (v + m - 1) // m * m
def correct(bs, al, bc):          # generator-side mirror of CorrectBlockSize (used only to AIM cases, never for verdicts)
    if bc == 1: return bs if bs > 0 else 1
    return 2 * al if bs <= al else ceil_(bs, al)


def tv_cases(ctx, scale):
    r = ctx.rng
    cs = ['consts']
    edge = [0, 1, 2, 3, 7, 8, 15, 16, 17, 255, 256, 1023, 1024, 1025, 65535, 65536, 2 ** 32 - 1, 2 ** 32, 2 ** 47 - 1, 2 ** 47,
            2 ** 63 - 1, 2 ** 63, 2 ** 64 - 1025, 2 ** 64 - 17, 2 ** 64 - 2, 2 ** 64 - 1]
    for v in edge:
        for m in (1, 2, 3, 8, 16, 24, 1000, 1024):
            cs.append('ceil %d %d' % (v, m))
    for _ in range(300 * scale):
        cs.append('ceil %d %d' % (r.below(2 ** r.range(1, 64)), r.range(1, 2048)))
    for bs in list(range(0, 40)) + [r.below(5000) for _ in range(100 * scale)] + [2 ** 64 - 1, 2 ** 64 - 8, 2 ** 63]:
        for al in (1, 2, 3, 4, 8, 16, 24, 512, 1024):
            for bc in (1, 2, 32, 127):
                cs.append('cbs %d %d %d' % (bs, al, bc))
    # MemPoolConst::GetBlockAlignment (recursive constexpr; generated as a fuelled Fixpoint) and the MemPoolParams(blockSize) constructor using it
    for bs in sorted(set(list(range(0, 35)) + [2 ** k + d for k in range(5, 64) for d in (-1, 0, 1)] + [2 ** 64 - 1] + [r.below(2 ** r.range(1, 64)) for _ in range(20 * scale)])):
        for ma in (16, 1, 2, 8, 64, 1024, 2 ** 63, 2 ** 64 - 1, 3, 24, r.range(1, 2 ** r.range(1, 64))):
            cs.append('gba %d %d' % (bs, ma))
        if bs < 2 ** 40: cs.append('gbp %d 16 32' % bs)
    for (m, dm) in ((100, 200), (200, 100), (0, 0), (501, 502), (502, 501), (7, 9), (300, 399)):   # m = 100 * id + tag; IsEqual sees the id only (equal managers, different objects: fc18ee9)      # MemPool::Data::Swap (generated): manager identities and counters change places
        for (a, da) in ((0, 0), (3, 0), (0, 9), (r.below(1000), r.below(1000))):
            cs.append('dswap %d %d %d %d' % (m, a, dm, da))
    for bc in (0, 1, 2, 126, 127, 128, 129, 2 ** 64 - 1):
        for al in (0, 1, 2, 1023, 1024, 1025, 2 ** 64 - 1):
            cs.append('chk %d %d' % (bc, al))
    params = []
    for bc in BCS:
        for al in ALIGNS + [3, 6, 12, 24, 48, 1000]:
            for bs in (1, 2, 7, 8, 9, 16, 17, 24, 100, 255, 256, 300) + tuple(r.range(1, 300) for _ in range(2 * scale)):
                params.append((bc, r.choice(CFS), correct(bs, al, bc), al))
    for (bc, cf, B, A) in params:
        cs.append('ar %d %d %d %d' % (bc, cf, B, A))
        first = 0 if r.chance(1, 3) else -r.range(0, bc - 1) if bc > 1 else 0
        cs.append('pos %d %d %d %d %d' % (bc, cf, B, A, first))
        buf = BASE + r.below(2 ** 30)
        cs.append('gb %d %d %d %d %d %d' % (bc, cf, B, A, buf, r.choice([-128, -127, -1, 0, 1, 126, 127, r.range(-128, 127)])))
        if bc > 1:
            for _ in range(2):
                cs.append('gi %d %d %d %d %d' % (bc, cf, B, A, (BASE + r.below(2 ** 30)) // A * A))
    for _ in range(200 * scale):      # raw (not necessarily legal) parameter values: the functions are pure arithmetic
        bc = r.choice(BCS); cf = r.choice(CFS); B = r.range(1, 2 ** r.range(1, 40)); A = r.range(1, 2 ** r.range(0, 12))
        cs.append('ar %d %d %d %d' % (bc, cf, B, A))
        cs.append('gi %d %d %d %d %d' % (bc, cf, B, A, (BASE + r.below(2 ** 30)) // A * A))
        cs.append('gb %d %d %d %d %d %d' % (bc, cf, B % 2 ** 30 + 1, A, BASE + r.below(2 ** 30), r.range(-128, 127)))
    cs.append('ar 127 0 145249953336295741 1')        # pvCheckParams accepts it, pvGetBufferSize wraps (see NOTES.md)
    for bc in (1, 2, 16, 32):                          # MemPoolUInt32 index arithmetic (generated) vs the real functions
        for bs in (1, 4, 5, 24):
            for nbuf in (1, 2, 5):
                for h in sorted(set([0, 1, bc - 1, bc, nbuf * bc - 1, r.below(nbuf * bc), r.below(nbuf * bc)])):
                    if h < nbuf * bc: cs.append('u32gp %d %d %d %d' % (bc, bs, nbuf, h))
            for (maxt, nbuf) in ((bc, 0), (bc, 1), (3 * bc, 2), (3 * bc, 3), (3 * bc + bc - 1, 3), (3 * bc + bc, 3), (1000, 1), (0, 0), (bc - 1, 0)):
                cs.append('u32nb %d %d %d %d' % (bc, bs, maxt, nbuf))
    M = 2 ** 64 - 1
    for bc in (1, 2, 32, 127):                        # constructor boundary values of blockSize: 0, 1, limit-1, limit, limit+1, SIZE_MAX
        for al in (1, 2) if bc > 1 else (1, 16, 24, 1024):
            ov = addend(al) + 3 * al + 20                 # maxOverhead of pvCheckParams (fix e4ec548)
            lim = (M - ov) // bc; old = M // bc           # new limit, and the limit before the fix (sizes in between wrapped)
            for bs in (0, 1, lim - 1, lim, lim + 1, old - 1, old, old + 1, M - 1, M, 2 ** 63):
                if bs > M or (bc > 1 and bs > al and bs % al): continue     # a rounded-up size would wrap: outside CorrectBlockSize's domain
                cs.append('ctor %d %d %d' % (bc, bs, al))
    return cs


def layout_cases(ctx, scale):
    """nb1 / nbuf: the real pvNewBlock1 / pvNewBuffer on chosen absolute begin addresses (placement manager)"""
    r = ctx.rng
    cs = []
    for al in ALIGNS + [3, 6, 12, 24, 48, 96, 1000]:
        g = gran(al)
        for bs in (1, 5, 8, 64, 300):
            rs = set([0, g, al - g if al > g else 0, al, al + g, 2 * al - g] + [r.below(2 * al) // g * g for _ in range(3 * scale)])
            for res in sorted(rs):
                cs.append('nb1 1 %d %d %d %d' % (r.choice(CFS), bs, al, ceil_(BASE + 65536, 2 * al * 16) + res))
    for al in ALIGNS + ODD_ALIGNS + [17, 18, 20, 33, 100, 768, 1023]:      # Allocate/Deallocate dispatch of single-block pools
        import math
        P = 2 * al // math.gcd(2 * al, 16) * 16
        for bs in (1, 8, al, 40):
            for res in sorted(set([0, 16, 32, P - 16] + [16 * r.below(P // 16) for _ in range(2 * scale)])):
                cs.append('al1 1 %d %d %d %d' % (r.choice(CFS), bs, al, ceil_(BASE + 65536, P) + res))
    for bc in BCS[1:]:
        for al in ALIGNS + ([3, 6, 24, 1000] if scale > 1 else [3, 24]):
            g = gran(al)
            bss = [1, al + 1, 2 * al + 1, 3 * al, 300] + [r.range(1, 300) for _ in range(scale)]
            for bs in bss:
                B = correct(bs, al, bc)
                P = B * bc
                base = ceil_(BASE + 65536, P * al)           # multiple of B*C and of A
                rs = set()
                for k in (0, 1, bc - 1):                      # around block boundaries k*B (k = 0: (p/B)%C == 0 cases)
                    for d in (-2 * al, -al - g, -al, -al + g, -g, 0, g, al - g, al, al + g, 2 * al - g, 2 * al):
                        rs.add((k * B + d) % P // g * g)
                for _ in range(4 * scale):
                    rs.add(r.below(P) // g * g)
                for res in sorted(rs):
                    cs.append('nbuf %d %d %d %d %d' % (bc, r.choice(CFS), B, al, base + P * r.below(3) + res))
    return cs


def u32_cases(ctx, scale):
    """MemPoolUInt32 (32-bit handles): random allocate / deallocate / DeallocateAll histories incl. the maxTotalBlockCount limit"""
    r = ctx.rng
    cs = []
    for bc in (1, 2, 16, 32):
        for bs in (1, 3, 4, 5, 8, 24):
            for rep in range(2 * scale):
                maxTotal = r.choice([bc, 2 * bc, 3 * bc + 1, 1000])
                ops = []; live = 0
                for _ in range(r.range(10, 40 + 4 * bc)):
                    t = r.below(100)
                    if t < 60: ops.append('a'); live += 1
                    elif t < 92 and live: ops.append('f:%d' % r.choice([0, 10 ** 9, r.below(live)])); live -= 1
                    elif t < 95: ops.append('x'); live = 0
                if r.chance(1, 2): ops += ['a'] * (maxTotal + 2 if maxTotal < 200 else 5)     # run into the limit
                cs.append('u32 %d %d %d %s' % (bc, bs, maxTotal, ' '.join(ops)))
    return cs


def u32_cases_for_trace(ctx, scale):
    """the same family as u32_cases (fresh draws) + deterministic shapes: fill k buffers, free in FIFO / LIFO / random order, refill"""
    r = ctx.rng
    cs = u32_cases(ctx, scale)
    for bc in (1, 2, 16, 32):
        for order in (0, 1, 2):
            nb = r.range(1, 4); ops = ['a'] * (nb * bc)
            live = nb * bc
            for _ in range(r.range(1, live)):
                ops.append('f:%d' % (0 if order == 0 else 10 ** 9 if order == 1 else r.below(live))); live -= 1
            ops += ['a'] * r.range(1, nb * bc + bc)
            if r.chance(1, 2): ops += ['f:%d' % r.below(10 ** 6)] * (3 * bc + 40)      # everything freed: pvClear when more than 2 buffers
            ops += ['a'] * r.range(0, 3)
            cs.append('u32 %d %d %d %s' % (bc, r.choice([1, 4, 8, 24]), r.choice([3 * bc, 1000]), ' '.join(ops)))
    return cs


def fab_cases(ctx, scale):
    cs = []
    N = 4 if scale == 1 else 6
    for n1 in range(0, N + 1):
        for h1 in (range(1, n1 + 1) if n1 else [0]):
            for n2 in range(0, N + 1):
                for h2 in (range(1, n2 + 1) if n2 else [0]):
                    cs.append('fabmg %d %d %d %d' % (n1, h1, n2, h2))
    for n in range(2, N + 3):
        for h in range(2, n + 1):
            for k in range(1, h):
                cs.append('fabmv %d %d %d' % (n, h, k))
        for h in range(1, n + 1):
            for k in range(1, n + 1):
                if k != h: cs.append('fabdel %d %d %d' % (n, h, k))
    return cs


def gen_hist(r, bc, cf, bs, al, style, fail=None, unequal=False):
    B = correct(bs, al, bc); g = gran(al)
    p0 = 2 * B * bc if bc > 1 else 2 * al
    import math
    period = p0 // math.gcd(p0, 16) * 16
    endmode = r.below(4) + (4 if r.chance(1, 4) else 0)      # bit 2: only min(16, lowbit(al)) granularity instead of 16
    gg = g if endmode & 4 else 16
    res = [r.choice([0, gg, 16, 32, al, 2 * al - g, B - g, B, B + al, B * bc - g, B * bc, B * bc + al, 16 * r.below(max(1, period // 16)), r.below(period)]) % period // gg * gg
           for _ in range(r.range(1, 6))]
    ops = []
    live = [0, 0]          # approximate (exact unless DeallocateIf was used); the harness reduces k modulo the live count
    LAST = 10 ** 9         # k >= 10^9 means "the most recently allocated live block"
    def A(p, n):
        for _ in range(max(0, n)): ops.append('a%d' % p); live[p] += 1
    def F(p, n, how=None):
        for _ in range(max(0, n)):
            if live[p] <= 0: return
            how_ = how if how is not None else r.below(3)
            k = 0 if how_ == 0 else LAST if how_ == 1 else r.below(live[p])
            ops.append('f%d:%d' % (p, k)); live[p] -= 1
    def M(d, s):
        ops.append('m%d%d' % (d, s)); live[d] += live[s]; live[s] = 0
    cap = 3 * bc + 2 if bc < 100 else 2 * bc + 3
    if style == 0:      # merge two pools that both own full buffers, then free blocks of the merged full buffers
        A(0, r.range(0, cap)); A(1, r.range(bc, cap) if r.chance(3, 4) else r.range(0, cap))
        if r.chance(1, 2): F(0, r.range(0, 3)); F(1, r.range(0, 3))
        M(0, 1)
        F(0, r.range(0, live[0]), how=r.below(3))
        A(0, r.range(0, bc + 1)); A(1, r.range(0, bc + 1))
        if r.chance(1, 2):
            d = r.below(2); M(d, 1 - d)
        F(0, r.range(0, live[0])); F(1, r.range(0, live[1]))
    elif style == 1:    # churn around buffer boundaries
        for _ in range(r.range(20, 60 + 3 * bc)):
            p = r.below(2); t = r.below(100)
            if t < 55: A(p, 1)
            elif t < 90: F(p, 1)
            elif t < 94 and bc > 1:
                m = r.choice([1, 1, 2, 3, 4, 10 ** 9]); ops.append('i%d:%d:%d' % (p, m, r.below(m) if m < 10 ** 9 else m - 1)); live[p] -= live[p] // m   # m = 1: all, m = 10^9: none
            elif t < 96 and bc > 1: ops.append('x%d' % p); live[p] = 0
            elif t >= 98: M(p, 1 - p)
            elif t >= 97: ops.append('s'); live[0], live[1] = live[1], live[0]
            elif t >= 96 and live[p] == 0: ops.append('v%d%d' % (p, 1 - p)); live[p] = live[1 - p]; live[1 - p] = 0
    elif style == 3:    # blocks left in the cache, DeallocateAll, allocate again (a stale cache head must not be handed out)
        A(0, r.range(1, bc + 3)); A(1, r.range(0, 3))
        F(0, r.range(1, max(1, min(live[0], cf if cf else 2))), how=r.below(3))
        ops.append('x0'); live[0] = 0
        A(0, r.range(1, bc + 2)); F(0, r.range(0, live[0])); A(0, r.range(0, 3))
        if r.chance(1, 2): ops.append('x0'); live[0] = 0; A(0, 2)
    elif style == 5:    # plain growth across several buffer boundaries with interleaved frees (for the failing-manager family)
        for _ in range(r.range(2, 4)):
            A(0, r.range(bc - 1, 2 * bc + 1)); F(0, r.range(0, 2), how=r.below(3)); A(1, r.range(0, bc + 1))
        if r.chance(1, 2): ops.append('s'); live[0], live[1] = live[1], live[0]; A(0, bc)
        F(0, r.range(0, live[0])); A(0, r.range(0, bc + 1))
    elif style == 4:    # blocks in the cache, then Swap / move assignment, then allocate from the (moved) cache
        A(0, r.range(1, bc + 3)); A(1, r.range(0, bc + 1))
        F(0, r.range(1, max(1, min(live[0], cf if cf else 2))), how=r.below(3))
        if r.chance(1, 2):
            ops.append('s'); live[0], live[1] = live[1], live[0]
            A(0, r.range(1, 4)); A(1, r.range(1, 4))
        else:
            F(1, live[1], how=r.below(3))                      # the destination of a move assignment must have no allocated block
            ops.append('v10'); live[1] = live[0]; live[0] = 0
            A(1, r.range(1, 4)); A(0, r.range(0, 3))
        F(0, r.range(0, live[0])); F(1, r.range(0, live[1]))
        if r.chance(1, 3): ops.append('s'); live[0], live[1] = live[1], live[0]; A(0, 2)
    else:               # fill k buffers (+-1 block), free all but a few blocks, merge, refill
        A(0, r.range(1, 3) * bc + r.choice([-1, 0, 1])); A(1, r.range(1, 3) * bc + r.choice([-1, 0, 1]))
        F(0, r.range(0, live[0] - 1), how=2); F(1, r.range(0, live[1] - 1), how=2)
        d = r.below(2); M(d, 1 - d)
        A(0, r.range(0, bc)); A(1, r.range(0, bc))
        F(0, r.range(0, live[0]))
        if r.chance(1, 2): M(0, 1)
    ops = [o for o in ops if o]
    resstr = ','.join(map(str, res))
    if fail:
        resstr += '!' + ','.join(map(str, sorted(fail)))
    if unequal:
        endmode += 8; ops = [o for o in ops if o[0] != 'm']      # MergeFrom needs equal managers
    return 'hist %d %d %d %d %d %s %s' % (bc, cf, bs, al, endmode, resstr, ' '.join(ops))


def hist_cases(ctx, scale, n):
    r = ctx.rng
    cs = []
    # aimed parameter sets first, then the sampled sweep block size 1..300 x alignment x blockCount x cache
    aimed = [(bc, cf, bs, al) for bc in BCS for cf in CFS for (bs, al) in ((1, 1), (8, 8), (24, 8), (17, 16), (300, 1024), (3, 2))]
    aimed += [(bc, r.choice(CFS), r.choice([1, 8, al, 40]), al) for bc in (1, 1, 2, 32) for al in ODD_ALIGNS]   # non-power-of-two alignments
    for (bc, cf, bs, al) in aimed:
        for style in (0, 2, 3, 4) if bc > 1 else (1, 4):
            cs.append(gen_hist(r, bc, cf, bs, al, style))
    # the memory manager throws std::bad_alloc on its k-th request: k around every buffer creation (each request of a multi-block
    # pool IS a buffer creation: the first buffer, the look-ahead spare when the head's last block is taken, ...)
    for (bc, cf) in ((2, 0), (3, 0), (3, 1), (31, 0), (32, 16), (127, 1), (1, 0), (1, 16)):
        for fail in ({1}, {2}, {3}, {4}, {2, 3}, {1, 2, 5}, {3, 4, 6}, set(r.range(1, 8) for _ in range(3))):
            for style in ((5,) * (2 if bc <= 3 else 1)):
                cs.append(gen_hist(r, bc, cf, r.choice([8, 24, 32]), 8, 5, fail=fail))
    # pools whose memory managers are NOT interchangeable (different identities): Swap / move assignment must move the manager
    for (bc, cf) in ((1, 1), (2, 0), (3, 1), (32, 16)):
        for style in (1, 4, 4, 5):
            cs.append(gen_hist(r, bc, cf, r.choice([8, 24, 40]), r.choice([8, 3, 64]), style, unequal=True))
    for (bc, cf) in ((1, 16), (2, 1), (32, 16), (32, 1)):          # block sizes around 0 and sizeof(void*) (pvUseCache boundary)
        for bs in (0, 1, 7, 8, 9):
            cs.append(gen_hist(r, bc, cf, bs, r.choice([1, 4, 8]), r.choice([1, 3]) if bc > 1 else 1))
    # audit variants: nested settings (@n), compile-time parameters (@s), more (blockCount, cache) pairs (@x)
    for (v, bc, cf, bs, al) in (('n', 32, 16, 24, 8), ('n', 32, 16, 9, 3), ('n', 2, 0, 8, 8), ('n', 1, 1, 40, 64),
                                ('s', 32, 16, 24, 8), ('s', 1, 0, 5, 3), ('s', 2, 1, 17, 16),
                                ('x', 4, 2, 24, 8), ('x', 4, 2, 10, 5), ('x', 64, 64, 16, 16), ('x', 64, 64, 100, 24),
                                ('x', 126, 3, 8, 8), ('x', 126, 3, 7, 7), ('x', 1, 2, 8, 32), ('x', 1, 2, 3, 3)):
        for style in ((0, 1, 2, 3, 4) if bc > 1 else (1, 4)) * (2 if scale > 1 else 1):
            cs.append(gen_hist(r, bc, cf, bs, al, style).replace('hist ', 'hist@%s ' % v, 1))
    while len(cs) < n:
        bc = r.choice(BCS); cf = r.choice(CFS); bs = r.range(1, 300); al = r.choice(ALIGNS if r.chance(2, 3) else ODD_ALIGNS)
        if bc == 127 and r.chance(1, 2): bc = r.choice([2, 3, 31, 32])
        cs.append(gen_hist(r, bc, cf, bs, al, r.below(5) if bc > 1 else r.choice([1, 1, 4])))
    return cs


MERGE_RE = re.compile(r'\| merge (.*?) / (.*?) -> (.*?) / ([^|]*)')


def addend(al): return al - gran(al)


def oracle_lines(ctx, cases, lines):
    """the property itself on the real code's outputs (the harness evaluates the predicate; layout lines are re-checked here).
    returns [(case, output, why)] or [(case, output, why, key)]"""
    bad = []
    for i, c in enumerate(cases):
        if i >= len(lines):
            break              # not evaluated (harness stopped early: reported by the caller)
        out = lines[i]
        w = c.split()
        if w[0] == 'ctor':
            if out not in ('ok', 'length_error'):
                bad.append((c, out, 'pool constructed with an accepted block size misbehaves on its first Allocate: ' + out[:200]))
        elif w[0] == 'u32':
            if not out.startswith('ok '):
                bad.append((c, out, 'MemPoolUInt32: ' + out[:300]))
            else:
                ctx.nontrivial.add(c)
        elif w[0] == 'hist' or w[0].startswith('hist@'):
            if not out.startswith('ok '):
                bad.append((c, out, out[:300]))
            else:
                m = dict(kv.split('=') for kv in out.split(' |')[0].split()[1:])
                if int(m.get('maxbuffers', 0)) >= 2 or int(m.get('mergesnt', 0)) >= 1:
                    ctx.nontrivial.add(c)
        elif w[0] in ('fabmg', 'fabmv', 'fabdel'):
            if 'BROKEN' in out or 'ORPHANED' in out or 'LEAK' in out or 'FAIL' in out or 'CRASH' in out or 'missing' in out:
                bad.append((c, out, 'real list surgery leaves a malformed buffer list: ' + out[:200]))
        elif w[0] == 'dswap':
            if out.split() != [w[3], w[4], w[1], w[2]]:
                bad.append((c, out, 'Data::Swap did not exchange the memory managers (100*id + tag) and counters: got %s, expected %s %s %s %s' % (out, w[3], w[4], w[1], w[2])))
            else: ctx.nontrivial.add(c)
        elif w[0] == 'gba':
            try:
                bs, ma = int(w[1]), int(w[2]); a = int(out)
                if ma & (ma - 1) == 0:      # power-of-two maxAlignment: the result is the largest power of two <= maxAlignment and <= max(blockSize, 1)
                    exp = ma
                    while exp > 1 and exp > bs: exp //= 2
                    if a != exp:
                        bad.append((c, out, 'GetBlockAlignment(%d, %d) = %d, expected the largest power of two <= min(maxAlignment, max(blockSize,1)) = %d' % (bs, ma, a, exp)))
                    else: ctx.nontrivial.add(c)
            except ValueError:
                bad.append((c, out, 'unparsable / failing implementation output: ' + out[:200]))
        elif w[0] == 'nbuf':
            try:
                bc, B, A, begin = int(w[1]), int(w[3]), int(w[4]), int(w[5])
                fb, bo, first, bufoff, req, ok = map(int, out.split()[:6])
                extra = dict(t.split('=', 1) for t in out.split()[6:])
                buffer = begin + bufoff
                blocks = [buffer + (first + j) * B + (A if first + j >= 0 else 0) for j in range(bc)]
                end = buffer + A + B * (bc + first)
                near = A >= 3
                meta = [(buffer, 1), ((buffer + 1) if near else end, 2), (end + (0 if near else 2), 8), (end + (0 if near else 2) + 8, 8),
                        (end + (0 if near else 2) + 16, 2)]
                why = None
                if ok != 1: why = 'pvDeleteBuffer did not return the buffer with its begin address and size'
                elif fb != bo or bo >= 65536: why = 'beginOffset inconsistent'
                elif blocks[0] != begin + fb: why = 'first block is not pvGetBlock(buffer, firstIndex)'
                elif any(b % A for b in blocks): why = 'block not aligned'
                elif any(b < begin or b + B > begin + req for b in blocks): why = 'block outside the memory obtained'
                elif any(abs(x - y) < B for x in blocks for y in blocks if x is not y): why = 'blocks overlap'
                elif any(p < begin or p + l > begin + req for (p, l) in meta): why = 'pool bookkeeping bytes outside the memory obtained'
                elif any(p < b + B and b < p + l for (p, l) in meta for b in blocks): why = 'pool bookkeeping bytes overlap a block'
                elif extra.get('bb') != '%d,%d' % (first, bc): why = 'BufferBytes of a new buffer are not (firstBlockIndex, blockCount): ' + str(extra.get('bb'))
                elif extra.get('links') != 'null': why = 'prev / next of a new buffer are not null'
                elif extra.get('ch') != ','.join([str(first + j + 1) for j in range(bc - 1)] + ['-128']): why = 'free chain of a new buffer is not first+1, first+2, ..., -128: ' + str(extra.get('ch'))
                if why: bad.append((c, out, why))
                else: ctx.nontrivial.add(c)
            except ValueError:
                bad.append((c, out, 'unparsable / failing implementation output: ' + out[:200]))
        elif w[0] == 'al1':
            try:
                B, A, begin = int(w[3]), int(w[4]), int(w[5])
                off, req, inside, ok = map(int, out.split())
                why = None
                if (begin + off) % A: why = 'single-block pool returned a block that is not aligned to blockAlignment %d (manager address %d mod %d = %d)' % (A, begin, A, begin % A)
                elif not inside or off + B > req: why = 'single-block pool: block outside the memory obtained'
                elif ok != 1: why = 'single-block pool: Deallocate did not return exactly the manager block'
                if why: bad.append((c, out, why))
            except ValueError:
                bad.append((c, out, 'unparsable / failing implementation output: ' + out[:200]))
        elif w[0] == 'nb1':
            try:
                B, A, begin = int(w[3]), int(w[4]), int(w[5])
                off, byte, req, inside, ok = map(int, out.split())
                why = None
                if (begin + off) % A: why = 'single block not aligned'
                elif not inside or off + B + 2 > req: why = 'single block (with its offset byte) outside the memory obtained'
                elif byte != off or ok != 1: why = 'offset field / pvDeleteBlock1 does not recover the buffer'
                if why: bad.append((c, out, why))
            except ValueError:
                bad.append((c, out, 'unparsable / failing implementation output: ' + out[:200]))
    return bad


def run_harness(ctx, harness, cases, name):
    path = os.path.join(ctx.build, name + '.cases')
    open(path, 'w').write('\n'.join(cases) + '\n')
    rc, lines, err = ctx.run_lines([harness], path, timeout=420)
    return rc, lines, err


def merge_tie(ctx, cases, lines):
    """every MergeFrom observed in the histories: pre-state lists -> L1 model (extracted) -> must equal the observed post-state"""
    pre, post, src = [], [], []
    for c, out in zip(cases, lines):
        if c.startswith('hist'):
            for m in MERGE_RE.finditer(out):
                pre.append('mg %s / %s' % (m.group(1).strip(), m.group(2).strip()))
                post.append('%s / %s' % (m.group(3).strip(), m.group(4).strip()))
                src.append(c)
    if not pre:
        return [], 0
    path = os.path.join(ctx.build, 'merge.cases')
    open(path, 'w').write('\n'.join(pre) + '\n')
    rc, mlines, err = ctx.run_lines([ctx.model_exe], path)
    mism = []
    for i in range(len(pre)):
        b = mlines[i] if i < len(mlines) else '<missing>'
        if b != post[i]:
            mism.append((src[i], pre[i], post[i], b))
    ctx.evaluations += len(pre); ctx.traces_validated += len(pre) - len(mism)
    return mism, len(pre)


def measure(tv, fab, hist, u32, cases, lines):
    """what actually ran (measured from the cases and the harness' answers), per dimension of the property"""
    from collections import Counter
    d = {}
    d['case_kinds'] = dict(Counter(c.split()[0].split('@')[0] for c in tv + fab + hist + u32))
    hk = [c.split() for c in hist]
    d['hist_blockCount'] = dict(Counter(w[1] for w in hk))
    d['hist_cachedFreeBlockCount'] = dict(Counter(w[2] for w in hk))
    d['hist_variant'] = dict(Counter(w[0].split('@')[1] if '@' in w[0] else 'default' for w in hk))
    def pow2(a): return a & (a - 1) == 0
    d['hist_alignment'] = {'power_of_two': sum(1 for w in hk if pow2(int(w[4]))), 'non_power_of_two': sum(1 for w in hk if not pow2(int(w[4]))),
                           '>=512': sum(1 for w in hk if int(w[4]) >= 512), 'blockCount1_non_pow2': sum(1 for w in hk if w[1] == '1' and not pow2(int(w[4])))}
    d['hist_blockSize'] = {'0': sum(1 for w in hk if w[3] == '0'), '1..7 (no cache links)': sum(1 for w in hk if 1 <= int(w[3]) < 8),
                           '8': sum(1 for w in hk if w[3] == '8'), '9..300': sum(1 for w in hk if 9 <= int(w[3]) <= 300)}
    d['hist_address_granularity'] = {'16 (manager contract)': sum(1 for w in hk if not int(w[5]) & 4), 'min(16,lowbit)': sum(1 for w in hk if int(w[5]) & 4)}
    d['hist_ops_requested'] = dict(Counter(o[0] for w in hk for o in w[7:]))
    ev = Counter(); nontriv = Counter()
    for c, out in zip(cases, lines):
        k = c.split()[0]
        if (k == 'hist' or k.startswith('hist@')) and out.startswith('ok '):
            m = dict(kv.split('=') for kv in out.split(' |')[0].split()[1:])
            for f in ('ops', 'buffers', 'merges', 'mergesnt', 'ifs', 'freedif', 'alls', 'swaps', 'moves', 'flushes', 'cachehits', 'returned', 'refused'):
                ev[f] += int(m.get(f, 0))
            nontriv['histories_with_>=2_buffers'] += int(m.get('maxbuffers', 0)) >= 2
            nontriv['histories_with_>=4_buffers'] += int(m.get('maxbuffers', 0)) >= 4
            nontriv['histories_with_cache_flush'] += int(m.get('flushes', 0)) >= 1
            nontriv['histories_with_2+_cache_flushes'] += int(m.get('flushes', 0)) >= 2
            nontriv['histories_allocating_from_cache'] += int(m.get('cachehits', 0)) >= 1
            nontriv['histories_with_manager_deallocations'] += int(m.get('returned', 0)) >= 1
        elif k == 'u32' and out.startswith('ok '):
            m = dict(kv.split('=') for kv in out.split()[1:])
            ev['u32_ops'] += int(m['ops']); ev['u32_refused_at_limit'] += int(m['refused']); ev['u32_manager_allocs'] += int(m['mgrallocs'])
    nontriv['histories_with_unequal_managers'] = sum(1 for w in hk if int(w[5]) & 8)
    nontriv['histories_with_a_failing_manager_request'] = sum(1 for w in hk if '!' in w[6])
    d['executed_events_total'] = dict(ev); d['history_classes'] = dict(nontriv)
    d['layout_cases'] = {'nbuf_blockCounts': dict(Counter(c.split()[1] for c in tv if c.startswith('nbuf'))),
                         'nb1+al1_alignments_non_pow2': sum(1 for c in tv if c.split()[0] in ('nb1', 'al1') and not pow2(int(c.split()[4]))),
                         'ctor_boundary': sum(1 for c in tv if c.startswith('ctor'))}
    return d


def replay(ctx, rp):
    harness = ctx.cxx('harness.cpp', 'harness', flags=(('-O0', '-g0') if ctx.quick() else ()))     # quick tier: compile time (30 s -> 7 s) matters more than run time
    if harness is None:
        print('harness does not build'); return 2
    case = rp.get('case')
    if not case:
        print('replay has no concrete case (no-failing-input-found): broken stages were', list(rp.get('broken', {}).keys())); return 1
    rc, lines, err = run_harness(ctx, harness, [case], 'replay')
    bad = oracle_lines(ctx, [case], lines)
    print('case:', case, '\nimplementation:', lines[0] if lines else err)
    bad = [b for b in bad if ctx.violation(b[2], {'case': case}, key=(b[3] if len(b) > 3 else None))]
    if rp.get('model') is not None:
        print('model (recorded):', rp.get('model'))
    if bad or (rp.get('model') is not None and lines and lines[0] != rp.get('model') and not case.startswith('hist')):
        print('VIOLATION property=C09 replay=%s' % ctx.replay); return 1
    print('property holds on this case'); return 0


def run(ctx):
    """a run against a private copy of the headers (VERIF_REPO: mutants, seeds, reverted fixes) must not disturb the records of the real
    tree: the previous evidence/C09.json is restored afterwards and the replays such a run wrote are moved to build/C09/mutant-replays/"""
    if os.environ.get('VERIF_REPO') is None:
        return run_checked(ctx)
    import shutil, glob
    ev = os.path.join(ctx.root, 'evidence', ctx.id + '.json')
    saved = open(ev).read() if os.path.exists(ev) else None
    before = set(glob.glob(os.path.join(ctx.root, 'replays', ctx.id + '-*.json')))
    rc = run_checked(ctx)
    if os.path.exists(ev): shutil.copy(ev, os.path.join(ctx.build, 'evidence-mutant.json'))
    if saved is not None: open(ev, 'w').write(saved)
    elif os.path.exists(ev): os.remove(ev)
    dst = os.path.join(ctx.build, 'mutant-replays'); os.makedirs(dst, exist_ok=True)
    for f in set(glob.glob(os.path.join(ctx.root, 'replays', ctx.id + '-*.json'))) - before:
        shutil.move(f, os.path.join(dst, os.path.basename(f)))
    print('(VERIF_REPO run: evidence/%s.json restored, this run\'s copy is build/%s/evidence-mutant.json; replays moved to %s)' % (ctx.id, ctx.id, dst), flush=True)
    return rc


def run_checked(ctx):
    scale = 1 if ctx.quick() else 6
    ctx.trusted += ['tools/cxx2coq.py + clang 14 JSON AST (validated on every run against the real functions)',
                    'extraction: ExtrOcamlBasic only (no Extract Constant), OCaml 4.13.1, zarith for decimal I/O only',
                    'g++ 12 -std=c++17, harness reaches private members via #define private public; placement manager = fixed-address mmap arena',
                    'hand-stated widths of the bookkeeping fields (1/2/8/8/2 bytes) and the hand-modelled rest of pvNewBuffer/pvNewBlock1 (PoolLayout.v), validated by the nbuf/nb1 cases']
    ctx.assumptions += ['the memory manager returns addresses that are multiples of min(16, lowbit(blockAlignment)) (what pvGetAlignmentAddend assumes) and the block does not wrap around 2^64',
                        'blockCount*blockSize + 4*blockAlignment + 32 < 2^63 (pvCheckParams alone allows sizes for which pvGetBufferSize wraps, see NOTES.md)',
                        'one pool is used by one thread; MergeFrom operands use equal memory managers and equal parameters (MOMO_CHECKed)']
    import concurrent.futures as _cf
    _hb = _cf.ThreadPoolExecutor(1).submit(ctx.cxx, 'harness.cpp', 'harness', (('-O0', '-g0') if ctx.quick() else ()))   # built while Coq runs; quick tier: -O0 -g0 (30 s -> 7 s)
    ctx.regen(GEN)
    ctx.prove(timeout=3000)      # headroom for a cold build on a loaded machine
    harness = _hb.result()
    if harness is None:
        ctx.stage('build-harness', False, getattr(ctx, 'last_cxx_error', ''))
        return ctx.finish(rule=RULE)
    tv = tv_cases(ctx, scale) + layout_cases(ctx, scale)
    fab = fab_cases(ctx, scale)
    hist = hist_cases(ctx, scale, 700 if scale == 1 else 6000)
    have_model = ctx.stages.get('prove', {}).get('ok') and ctx.extract()
    if have_model:
        mism, _ = ctx.correspond('translator-validation', tv, [harness], [ctx.model_exe])
        ctx.tie_obligations.append({'name': 'generated Gallina (+ hand-modelled rest of pvNewBuffer/pvNewBlock1) == real C++ on %d cases' % len(tv), 'ok': not mism})
        for (i, c, a, b) in mism[:3]:
            ctx.violation('generated model and implementation disagree', {'case': c, 'impl': a, 'model': b,
                          'cmd': 'echo "%s" | build/C09/harness' % c}, found_input=True)
        mism, _ = ctx.correspond('list-surgery', fab, [harness], [ctx.model_exe])
        ctx.tie_obligations.append({'name': 'L1 list-surgery model == real MergeFrom/pvMoveBufferToHead/pvDeleteBuffer on %d fabricated lists' % len(fab), 'ok': not mism})
        for (i, c, a, b) in mism[:3]:
            ctx.violation('L1 list model and the real list surgery disagree', {'case': c, 'impl': a, 'model': b,
                          'cmd': 'echo "%s" | build/C09/harness' % c}, found_input=True)
        trc = ['tr' + c[4:] for c in hist if c.split()[1] != '1']     # 'hist ...' -> 'tr ...', 'hist@x ...' -> 'tr@x ...'
        mism, _ = ctx.correspond('pool-state-trace', trc, [harness], [ctx.model_exe])
        ctx.tie_obligations.append({'name': 'concrete model PoolConc (buffer list, per-buffer free chain order, cache order, counts, returned block) == private state of the real pool after EVERY op of %d histories' % len(trc), 'ok': not mism})
        for (i, c, a, b) in mism[:2]:
            k = next((j for j, (x, y) in enumerate(zip(a.split(), b.split())) if x != y), -1)
            ctx.violation('concrete pool model and the real pool state disagree (first differing op #%d)' % k,
                          {'case': c[:3000], 'impl': a[:1500], 'model': b[:1500], 'first_differing_op': k}, found_input=True)
    if have_model:
        u32t = ['u32tr' + c[3:] for c in u32_cases_for_trace(ctx, scale)]
        mism, _ = ctx.correspond('u32-free-list-trace', u32t, [harness], [ctx.model_exe])
        ctx.tie_obligations.append({'name': 'GENERATED MemPoolUInt32 Allocate/Deallocate/DeallocateAll (returned handle, mBlockHead, buffer count, mAllocCount, free-list order walked through the real block memory) == real pool after EVERY op of %d histories' % len(u32t), 'ok': not mism})
        for (i, c, a, b) in mism[:2]:
            k = next((j for j, (x, y) in enumerate(zip(a.split(), b.split())) if x != y), -1)
            ctx.violation('generated MemPoolUInt32 model and the real 32-bit-handle pool disagree (first differing op #%d)' % k,
                          {'case': c[:3000], 'impl': a[:1500], 'model': b[:1500], 'first_differing_op': k}, found_input=True)
    # ---- the oracle on the real code (always; bigger generator when a stage broke = search stage)
    if any(not s['ok'] for s in ctx.stages.values()):
        ctx.log('a stage broke: searching the implementation for a failing input with the thorough generator')
        hist = hist + hist_cases(ctx, 6, 4000)
        tv = tv + layout_cases(ctx, 4)
    u32 = u32_cases(ctx, scale)
    cases = [c for c in tv if c.startswith('nb') or c.startswith('al1') or c.startswith('ctor') or c.startswith('gba ') or c.startswith('dswap ')] + fab + hist + u32
    rc, lines, err = run_harness(ctx, harness, cases, 'oracle')
    ctx.evaluations += len(cases)
    bad = oracle_lines(ctx, cases, lines)
    if (rc != 0 or len(lines) < len(cases)) and not bad:
        bad = [(cases[len(lines)] if len(lines) < len(cases) else '(harness)', err[-300:], 'harness crashed or timed out (first case without an answer is recorded)')]
    ctx.stage('oracle', not bad, bad[0][2] if bad else '')
    real_bad = []
    for b in bad:
        key = b[3] if len(b) > 3 else None
        if ctx.violation(b[2], {'case': b[0], 'impl_output': b[1][:2000], 'cmd': 'echo "%s" | build/C09/harness' % b[0][:3000]}, found_input=True, key=key):
            real_bad.append(b)
        if len(real_bad) >= 3: break
    ctx.stages['oracle']['ok'] = not real_bad      # a KNOWN-FINDING does not break the stage
    if have_model and rc == 0:
        mism, n = merge_tie(ctx, cases, lines)
        ctx.stage('corr:merge-history', not mism, ('model %r != observed %r for %r' % (mism[0][3], mism[0][2], mism[0][1])) if mism else '')
        ctx.tie_obligations.append({'name': 'L1 MergeFrom model == every MergeFrom observed in the histories (%d merges)' % n, 'ok': not mism})
        for (c, pre, post, model) in mism[:2]:
            ctx.violation('L1 MergeFrom model and the real MergeFrom disagree', {'case': c, 'merge': pre, 'impl': post, 'model': model}, found_input=True)
    for c in (tv[::max(1, len(tv) // 3)][:3] + hist[:3]):
        ctx.add_sample(c[:400])
    ctx.coverage['input_distribution'] = measure(tv, fab, hist, u32, cases, lines)
    return ctx.finish(rule=RULE)


RULE = ('cases = translator validation grid (boundary values x legal and raw parameters) + pvNewBuffer/pvNewBlock1 on begin addresses '
        'swept around block boundaries modulo blockSize*blockCount and 2*alignment + exhaustive small fabricated buffer lists + random '
        'allocate/deallocate/DeallocateIf/DeallocateAll/MergeFrom histories over block size 1..300 x alignment 1..1024 x blockCount '
        '{1,2,3,31,32,127} x cache {0,1,16} with placement residues; distinct = distinct case line; non-trivial = a buffer-layout case, '
        'or a history in which at least 2 buffers coexisted or two non-empty buffer lists were merged')
