(* C08 -- executable model of momo::HashMultiMap (HashMultiMap.h) over the ArrayBucket model.
   State of one container: the keys in some fixed order (the model keeps insertion order; the real order is the
   hash-table iteration order, which is not observable through the canonicalised outputs), each key with its
   tag (keys are (id, tag) pairs compared and hashed by id only, so that InsertKey / ResetKey / Add on a present
   key are observable), its value array (representation + content), and mValueCount.
   Each operation follows the C++ member function; a call that violates a documented precondition (MOMO_CHECK:
   absent key iterator, value index out of range) is not made by the harness and is the identity here. *)
From Coq Require Import ZArith List Lia Bool Permutation.
From C08 Require Import ArrayBucketModel.
Import ListNotations.
Local Open Scope Z_scope.

Record entry : Type := mkE { ekey : Z; etag : Z; earr : ab }.
Definition evals (e : entry) : list Z := snd (earr e).
Definition elen (e : entry) : Z := Z.of_nat (length (evals e)).
Definition set_arr (f : ab -> ab) (e : entry) : entry := mkE (ekey e) (etag e) (f (earr e)).
Definition set_tag (t : Z) (e : entry) : entry := mkE (ekey e) t (earr e).

Definition mm : Type := (list entry * Z)%type.     (* entries, mValueCount *)
Definition mm_empty : mm := ([], 0).

(* mHashMap.Find *)
Fixpoint find (k : Z) (es : list entry) : option entry :=
  match es with
  | [] => None
  | e :: r => if ekey e =? k then Some e else find k r
  end.

(* in-place update of the entry a key iterator points to *)
Fixpoint upd (k : Z) (f : entry -> entry) (es : list entry) : list entry :=
  match es with
  | [] => []
  | e :: r => if ekey e =? k then f e :: r else e :: upd k f r
  end.

(* mHashMap.Remove(iter) *)
Fixpoint remove_key (k : Z) (es : list entry) : list entry :=
  match es with
  | [] => []
  | e :: r => if ekey e =? k then r else e :: remove_key k r
  end.

Fixpoint sumlen (es : list entry) : Z :=
  match es with [] => 0 | e :: r => elen e + sumlen r end.

(* ---- Remove(pairFilter), HashMultiMap.h:1076-1090, restricted to one key: the iterator stays inside the key
   until its values are exhausted; Remove(iter) returns the iterator at the same value index (pvMakeIterator(...,
   valueIndex, move = true)), i.e. the value swapped into the hole is examined next. *)
Fixpoint rm_loop (fuel : nat) (p : Z -> bool) (i : nat) (a : ab) : ab :=
  match fuel with
  | O => a
  | S f =>
      if (i <? length (snd a))%nat then
        if p (nth i (snd a) 0) then rm_loop f p i (ab_remove_at i a)
        else rm_loop f p (S i) a
      else a
  end.
Definition ab_remove_if (p : Z -> bool) (a : ab) : ab := rm_loop (length (snd a)) p 0 a.

(* the same loop on a plain list (used by the reference mapping) *)
Fixpoint rm_loop_l (fuel : nat) (p : Z -> bool) (i : nat) (l : list Z) : list Z :=
  match fuel with
  | O => l
  | S f =>
      if (i <? length l)%nat then
        if p (nth i l 0) then rm_loop_l f p i (swap_remove i l)
        else rm_loop_l f p (S i) l
      else l
  end.
Definition rm_if (p : Z -> bool) (l : list Z) : list Z := rm_loop_l (length l) p 0 l.

Inductive op : Type :=
| OAdd (k t v : Z)            (* Add(key, value): pvAdd, 1215-1231 *)
| OAddAt (k v : Z)            (* Add(keyIter, value) with keyIter = Find(k): AddCrt(ConstKeyIterator,...), 980-989 *)
| OInsertKey (k t : Z)        (* InsertKey, 1028-1036 *)
| ORemove (k : Z) (i : nat)   (* Remove(keyIter, valueIndex), 1053-1074 *)
| ORemoveIf (p : Z -> Z -> bool)  (* Remove(pairFilter), 1076-1090 *)
| ORemoveValues (k : Z)       (* RemoveValues(keyIter), 1092-1098 *)
| ORemoveKey (k : Z)          (* RemoveKey(key) / RemoveKey(keyIter), 1100-1127 *)
| OResetKey (k t : Z)         (* ResetKey(keyIter, key'), 1129-1134 *)
| OClear                      (* Clear, 872-881 *)
| OAddKey (k t : Z)           (* AddKeyCrt(Find(k), creator of Key{k,t}) for an ABSENT key, 1038-1048 *)
| OAddRange (l : list (Z * Z * Z))  (* Add(begin, end) / Add(initializer_list): AddVar(key, value) per element, 1008-1026 *)
| OSwap                       (* Swap with the second container, 811-816 *)
| OCopyTo                     (* second = copy of first (copy constructor 769-787 + Swap) *)
| OCopyFrom                   (* first = copy of second *)
| OMoveFrom.                  (* first = std::move(second); second is re-created empty by the harness *)

Definition mm_copy (M : Z) (m : mm) : mm := (map (set_arr (ab_copy M)) (fst m), snd m).

(* pvAdd, 1215-1231 *)
Definition add1 (M : Z) (m : mm) (k t v : Z) : mm :=
  match find k (fst m) with
  | Some _ => (upd k (set_arr (ab_add M v)) (fst m), snd m + 1)
  | None => (fst m ++ [mkE k t (ab_add M v ab_null)], snd m + 1)
  end.

Definition step1 (M : Z) (m : mm) (o : op) : mm :=
  let es := fst m in
  let n := snd m in
  match o with
  | OAdd k t v => add1 M m k t v
  | OAddRange l => fold_left (fun m' x => add1 M m' (fst (fst x)) (snd (fst x)) (snd x)) l m
  | OAddKey k t =>
      match find k es with
      | Some _ => m                                  (* precondition violated: not called *)
      | None => (es ++ [mkE k t ab_null], n)
      end
  | OAddAt k v =>
      match find k es with
      | Some _ => (upd k (set_arr (ab_add M v)) es, n + 1)
      | None => m
      end
  | OInsertKey k t =>
      match find k es with
      | Some _ => m
      | None => (es ++ [mkE k t ab_null], n)
      end
  | ORemove k i =>
      match find k es with
      | Some e => if (i <? length (evals e))%nat then (upd k (set_arr (ab_remove_at i)) es, n - 1) else m
      | None => m
      end
  | ORemoveIf p =>
      let es' := map (fun e => set_arr (ab_remove_if (p (ekey e))) e) es in
      (es', n - (sumlen es - sumlen es'))
  | ORemoveValues k =>
      match find k es with
      | Some e => (upd k (set_arr ab_clear) es, n - elen e)
      | None => m
      end
  | ORemoveKey k =>
      match find k es with
      | Some e => (remove_key k es, n - elen e)
      | None => m
      end
  | OResetKey k t => (upd k (set_tag t) es, n)
  | OClear => ([], 0)
  | _ => m
  end.

Definition st : Type := (mm * mm)%type.
Definition st_empty : st := (mm_empty, mm_empty).

Definition step (M : Z) (s : st) (o : op) : st :=
  match o with
  | OSwap => (snd s, fst s)
  | OCopyTo => (fst s, mm_copy M (fst s))
  | OCopyFrom => (mm_copy M (snd s), snd s)
  | OMoveFrom => (snd s, mm_empty)
  | _ => (step1 M (fst s) o, snd s)
  end.

Definition run (M : Z) (ops : list op) : st := fold_left (step M) ops st_empty.

(* ---------------------------------------------------------------- observers *)
Definition get_count (m : mm) : Z := snd m.                               (* GetCount *)
Definition get_key_count (m : mm) : Z := Z.of_nat (length (fst m)).       (* GetKeyCount *)

(* pair traversal: iterator = (remaining keys starting with the current one, value index); end = ([], _) *)
Definition iter : Type := (list entry * nat)%type.

(* the loop of pvMove (lines 289-296): advance to the first key with a value *)
Fixpoint skip_empty (es : list entry) : iter :=
  match es with
  | [] => ([], O)
  | e :: r => if (0 <? length (evals e))%nat then (es, O) else skip_empty r
  end.

(* pvMove, lines 285-297 *)
Definition pv_move (it : iter) : iter :=
  match fst it with
  | [] => it
  | e :: r => if (snd it =? length (evals e))%nat then skip_empty r else it
  end.

Definition it_begin (es : list entry) : iter :=          (* GetBegin: pvMakeIterator(keyBegin): 1184-1190 *)
  match es with [] => ([], O) | _ => pv_move (es, O) end.
Definition it_next (it : iter) : iter := pv_move (fst it, S (snd it)).    (* operator++ *)
Definition it_deref (it : iter) : Z * Z :=
  match fst it with [] => (0, 0) | e :: _ => (ekey e, nth (snd it) (evals e) 0) end.
Definition it_is_end (it : iter) : bool := match fst it with [] => true | _ => false end.

Fixpoint traverse_from (fuel : nat) (it : iter) : list (Z * Z) :=
  match fuel with
  | O => []
  | S f => if it_is_end it then [] else it_deref it :: traverse_from f (it_next it)
  end.

Definition traverse (m : mm) : list (Z * Z) :=
  traverse_from (S (Z.to_nat (sumlen (fst m)))) (it_begin (fst m)).

Definition pairs_of (e : entry) : list (Z * Z) := map (pair (ekey e)) (evals e).
Definition all_pairs (es : list entry) : list (Z * Z) := flat_map pairs_of es.

(* ---------------------------------------------------------------- the reference mapping *)
Definition sp : Type := Z -> option (Z * list Z).          (* key id -> (tag, value list) *)
Definition sp_empty : sp := fun _ => None.

Definition sp_add (s : sp) (k t v : Z) : sp :=
  fun x => if x =? k then
        match s k with Some (t0, vs) => Some (t0, vs ++ [v]) | None => Some (t, [v]) end else s x.

Definition sp_step1 (s : sp) (o : op) : sp :=
  match o with
  | OAdd k t v => sp_add s k t v
  | OAddRange l => fold_left (fun s' x => sp_add s' (fst (fst x)) (snd (fst x)) (snd x)) l s
  | OAddKey k t => fun x => if x =? k then
        match s k with Some tv => Some tv | None => Some (t, []) end else s x
  | OAddAt k v => fun x => if x =? k then
        match s k with Some (t0, vs) => Some (t0, vs ++ [v]) | None => None end else s x
  | OInsertKey k t => fun x => if x =? k then
        match s k with Some tv => Some tv | None => Some (t, []) end else s x
  | ORemove k i => fun x => if x =? k then
        match s k with
        | Some (t0, vs) => if (i <? length vs)%nat then Some (t0, swap_remove i vs) else Some (t0, vs)
        | None => None end else s x
  | ORemoveIf p => fun x => match s x with Some (t0, vs) => Some (t0, rm_if (p x) vs) | None => None end
  | ORemoveValues k => fun x => if x =? k then
        match s k with Some (t0, _) => Some (t0, []) | None => None end else s x
  | ORemoveKey k => fun x => if x =? k then None else s x
  | OResetKey k t => fun x => if x =? k then
        match s k with Some (_, vs) => Some (t, vs) | None => None end else s x
  | OClear => fun _ => None
  | _ => s
  end.

Definition sp_step (s : sp * sp) (o : op) : sp * sp :=
  match o with
  | OSwap => (snd s, fst s)
  | OCopyTo => (fst s, fst s)
  | OCopyFrom => (snd s, snd s)
  | OMoveFrom => (snd s, sp_empty)
  | _ => (sp_step1 (fst s) o, snd s)
  end.

Definition sp_run (ops : list op) : sp * sp := fold_left sp_step ops (sp_empty, sp_empty).

Definition abs (es : list entry) : sp :=
  fun x => match find x es with Some e => Some (etag e, evals e) | None => None end.

(* the predicate family used by the correspondence harness: (a*k + b*v) mod m == r *)
Definition lin_pred (a b m r : Z) : Z -> Z -> bool := fun k v => ((a * k + b * v) mod m) =? r.

(* ================================================================ proofs *)
Definition keys (es : list entry) : list Z := map ekey es.

Lemma find_key k es e : find k es = Some e -> ekey e = k.
Proof. induction es as [|a r IH]; simpl; [discriminate|]. destruct (Z.eqb_spec (ekey a) k); [intros [= <-]; auto|auto]. Qed.

Lemma find_none k es : find k es = None <-> ~ In k (keys es).
Proof.
  induction es as [|a r IH]; simpl; [tauto|].
  destruct (Z.eqb_spec (ekey a) k); split; intros H; try discriminate; try tauto.
Qed.

Lemma find_in k es e : find k es = Some e -> In e es.
Proof. induction es as [|a r IH]; simpl; [discriminate|]. destruct (ekey a =? k); [intros [= <-]; auto|auto]. Qed.

Lemma keys_upd k f es : (forall e, ekey (f e) = ekey e) -> keys (upd k f es) = keys es.
Proof. intros Hf. induction es as [|a r IH]; simpl; auto. destruct (ekey a =? k); simpl; [rewrite Hf|rewrite IH]; auto. Qed.

Lemma find_upd_same k f es e : find k es = Some e -> (forall e, ekey (f e) = ekey e) -> find k (upd k f es) = Some (f e).
Proof.
  intros HF Hf. revert HF. induction es as [|a r IH]; simpl; [discriminate|].
  destruct (Z.eqb_spec (ekey a) k) as [E|NE]; simpl.
  - intros [= <-]. rewrite Hf. destruct (Z.eqb_spec (ekey a) k); [auto|contradiction].
  - destruct (Z.eqb_spec (ekey a) k); [contradiction|auto].
Qed.

Lemma find_upd_none k f es : find k es = None -> upd k f es = es.
Proof. induction es as [|a r IH]; simpl; auto. destruct (ekey a =? k); [discriminate|]. intros H; rewrite IH; auto. Qed.

Lemma find_upd_other x k f es : (forall e, ekey (f e) = ekey e) -> x <> k -> find x (upd k f es) = find x es.
Proof.
  intros Hf Hx. induction es as [|a r IH]; simpl; auto.
  destruct (Z.eqb_spec (ekey a) k) as [E|NE]; simpl.
  - rewrite Hf. destruct (Z.eqb_spec (ekey a) x); [lia|auto].
  - destruct (ekey a =? x); auto.
Qed.

Lemma find_app x es e : find x (es ++ [e]) =
  match find x es with Some e' => Some e' | None => if ekey e =? x then Some e else None end.
Proof. induction es as [|a r IH]; simpl; auto. destruct (ekey a =? x); auto. Qed.

Lemma find_remove_other x k es : x <> k -> find x (remove_key k es) = find x es.
Proof.
  intros Hx. induction es as [|a r IH]; simpl; auto.
  destruct (Z.eqb_spec (ekey a) k) as [E|NE]; simpl.
  - destruct (Z.eqb_spec (ekey a) x); [lia|auto].
  - destruct (ekey a =? x); auto.
Qed.

Lemma keys_remove_incl k es x : In x (keys (remove_key k es)) -> In x (keys es).
Proof.
  induction es as [|a r IH]; simpl; auto. destruct (ekey a =? k); simpl; [auto|]. intros [E|I]; auto.
Qed.

Lemma nodup_remove k es : NoDup (keys es) -> NoDup (keys (remove_key k es)).
Proof.
  induction es as [|a r IH]; simpl; auto. intros H. inversion H; subst.
  destruct (ekey a =? k); simpl; auto. constructor; auto. intros I. apply keys_remove_incl in I. auto.
Qed.

Lemma find_remove_same k es : NoDup (keys es) -> find k (remove_key k es) = None.
Proof.
  induction es as [|a r IH]; simpl; auto. intros H. inversion H; subst.
  destruct (Z.eqb_spec (ekey a) k) as [E|NE]; simpl.
  - apply find_none. subst. auto.
  - destruct (Z.eqb_spec (ekey a) k); [contradiction|auto].
Qed.

Lemma find_map x g es : (forall e, ekey (g e) = ekey e) ->
  find x (map g es) = match find x es with Some e => Some (g e) | None => None end.
Proof. intros Hg. induction es as [|a r IH]; simpl; auto. rewrite Hg. destruct (ekey a =? x); auto. Qed.

Lemma keys_map g es : (forall e, ekey (g e) = ekey e) -> keys (map g es) = keys es.
Proof. intros Hg. unfold keys. rewrite map_map. apply map_ext. auto. Qed.

Lemma keys_app es e : keys (es ++ [e]) = keys es ++ [ekey e].
Proof. unfold keys. rewrite map_app. reflexivity. Qed.

Lemma nodup_snoc (l : list Z) x : NoDup l -> ~ In x l -> NoDup (l ++ [x]).
Proof.
  induction l as [|a r IH]; simpl; intros H N.
  - constructor; auto.
  - inversion H; subst. constructor.
    + rewrite in_app_iff. simpl. intros [I|[E|[]]]; auto.
    + apply IH; auto.
Qed.

Lemma sumlen_app es e : sumlen (es ++ [e]) = sumlen es + elen e.
Proof. induction es; simpl; lia. Qed.

Lemma sumlen_upd k f es e : find k es = Some e -> sumlen (upd k f es) = sumlen es - elen e + elen (f e).
Proof.
  induction es as [|a r IH]; simpl; [discriminate|].
  destruct (ekey a =? k); simpl.
  - intros [= <-]. lia.
  - intros H. rewrite IH by auto. lia.
Qed.

Lemma sumlen_remove k es e : find k es = Some e -> sumlen (remove_key k es) = sumlen es - elen e.
Proof.
  induction es as [|a r IH]; simpl; [discriminate|].
  destruct (ekey a =? k); simpl.
  - intros [= <-]. lia.
  - intros H. rewrite IH by auto. lia.
Qed.

Lemma sumlen_nonneg es : 0 <= sumlen es.
Proof. induction es; simpl; unfold elen in *; lia. Qed.

Lemma forall_upd (P : entry -> Prop) k f es e :
  Forall P es -> find k es = Some e -> P (f e) -> Forall P (upd k f es).
Proof.
  induction es as [|a r IH]; simpl; [discriminate|]. intros H. inversion H; subst.
  destruct (ekey a =? k).
  - intros [= <-] Hp. constructor; auto.
  - intros Hf Hp. constructor; auto.
Qed.

Lemma forall_remove (P : entry -> Prop) k es : Forall P es -> Forall P (remove_key k es).
Proof. induction es as [|a r IH]; simpl; auto. intros H; inversion H; subst. destruct (ekey a =? k); auto. Qed.

(* ---- removal by predicate on one array *)
Lemma rm_loop_vals fuel p i a : snd (rm_loop fuel p i a) = rm_loop_l fuel p i (snd a).
Proof.
  revert i a. induction fuel as [|f IH]; intros i a; simpl; auto.
  destruct (i <? length (snd a))%nat; auto. destruct (p (nth i (snd a) 0)); rewrite IH; auto.
Qed.

Lemma rm_loop_inv M fuel p i a : 0 < M < 16 -> ab_inv M a -> ab_inv M (rm_loop fuel p i a).
Proof.
  intros HM. revert i a. induction fuel as [|f IH]; intros i a H; simpl; auto.
  destruct (Nat.ltb_spec i (length (snd a))); auto.
  destruct (p (nth i (snd a) 0)); apply IH; auto. apply ab_remove_at_inv; auto.
Qed.

Lemma last_cons_ne (a : Z) l d : l <> [] -> last (a :: l) d = last l d.
Proof. destruct l; [congruence|reflexivity]. Qed.

Lemma removelast_cons_ne (a : Z) l : l <> [] -> removelast (a :: l) = a :: removelast l.
Proof. destruct l; [congruence|reflexivity]. Qed.

Lemma set_nth_ne i x l : l <> [] -> set_nth i x l <> [].
Proof. destruct l; [congruence|]. destruct i; simpl; discriminate. Qed.

(* the hole at position |a| of a ++ x :: b is filled by the last element *)
Lemma swap_remove_app a x b :
  swap_remove (length a) (a ++ x :: b) = a ++ match b with [] => [] | _ => last b 0 :: removelast b end.
Proof.
  unfold swap_remove. induction a as [|a0 a IH].
  - simpl app. destruct b as [|y b]; [reflexivity|].
    change (length (@nil Z)) with O. cbn [set_nth].
    rewrite last_cons_ne by discriminate. rewrite removelast_cons_ne by discriminate. reflexivity.
  - change (length (a0 :: a)) with (S (length a)). change ((a0 :: a) ++ x :: b) with (a0 :: (a ++ x :: b)).
    rewrite last_cons_ne by (destruct a; discriminate). cbn [set_nth].
    rewrite removelast_cons_ne by (apply set_nth_ne; destruct a; discriminate).
    rewrite IH. reflexivity.
Qed.

Lemma perm_last_removelast (b : list Z) : b <> [] -> Permutation (last b 0 :: removelast b) b.
Proof.
  intros H. pose proof (app_removelast_last 0 H) as E. rewrite E at 3.
  apply Permutation_cons_append.
Qed.

Lemma perm_filter (f : Z -> bool) l l' : Permutation l l' -> Permutation (filter f l) (filter f l').
Proof.
  induction 1; simpl; auto.
  - destruct (f x); auto.
  - destruct (f x), (f y); auto. apply perm_swap.
  - eapply perm_trans; eauto.
Qed.

Lemma nth_app_len (a : list Z) x b : nth (length a) (a ++ x :: b) 0 = x.
Proof. induction a; simpl; auto. Qed.

Lemma rm_loop_l_spec fuel p a b : (length b <= fuel)%nat ->
  exists r, rm_loop_l fuel p (length a) (a ++ b) = a ++ r /\ Permutation r (filter (fun v => negb (p v)) b).
Proof.
  revert a b. induction fuel as [|f IH]; intros a b Hf.
  - destruct b; [|simpl in Hf; lia]. exists []. simpl. split; auto.
  - simpl. destruct b as [|x b].
    + rewrite app_nil_r. destruct (Nat.ltb_spec (length a) (length a)); [lia|]. exists []. rewrite app_nil_r. simpl; auto.
    + destruct (Nat.ltb_spec (length a) (length (a ++ x :: b))) as [_|H]; [|rewrite app_length in H; simpl in H; lia].
      rewrite nth_app_len. simpl filter. destruct (p x) eqn:Px; simpl negb.
      * rewrite swap_remove_app.
        destruct b as [|y b].
        -- destruct (IH a [] ltac:(simpl; lia)) as (r & E & P). exists r. auto.
        -- destruct (IH a (last (y :: b) 0 :: removelast (y :: b))) as (r & E & P).
           { pose proof (Permutation_length (perm_last_removelast (y :: b) ltac:(discriminate))) as L.
             simpl in Hf. simpl in L. simpl. lia. }
           exists r. split; [exact E|].
           eapply perm_trans; [exact P|]. apply perm_filter. apply perm_last_removelast. discriminate.
      * destruct (IH (a ++ [x]) b ltac:(simpl in Hf; lia)) as (r & E & P).
        rewrite app_length in E. simpl in E. rewrite Nat.add_1_r in E. rewrite <- app_assoc in E. simpl in E.
        exists (x :: r). rewrite E. rewrite <- app_assoc. simpl. split; auto.
Qed.

(* Remove(pairFilter) keeps exactly the values that do not satisfy the predicate (as a multiset) *)
Lemma rm_if_perm p l : Permutation (rm_if p l) (filter (fun v => negb (p v)) l).
Proof.
  unfold rm_if. destruct (rm_loop_l_spec (length l) p [] l ltac:(lia)) as (r & E & P).
  simpl in E. rewrite E. exact P.
Qed.

Lemma filter_split_length (f : Z -> bool) l :
  (length (filter f l) + length (filter (fun v => negb (f v)) l) = length l)%nat.
Proof. induction l; simpl; auto. destruct (f a); simpl; lia. Qed.

Lemma rm_if_length p l : (length (rm_if p l) + length (filter p l) = length l)%nat.
Proof. rewrite (Permutation_length (rm_if_perm p l)). pose proof (filter_split_length p l). lia. Qed.

Lemma rm_if_spec p l :
  Permutation (rm_if p l) (filter (fun v => negb (p v)) l) /\
  (length (rm_if p l) + length (filter p l) = length l)%nat.
Proof. split; [apply rm_if_perm|apply rm_if_length]. Qed.

(* ---------------------------------------------------------------- invariant of one container *)
Definition Inv (M : Z) (m : mm) : Prop :=
  NoDup (keys (fst m)) /\ snd m = sumlen (fst m) /\ Forall (fun e => ab_inv M (earr e)) (fst m).

Lemma inv_empty M : Inv M mm_empty.
Proof. repeat split; simpl; auto. constructor. Qed.

Lemma elen_add M v e : elen (set_arr (ab_add M v) e) = elen e + 1.
Proof. unfold elen, evals. simpl. rewrite app_length. simpl. lia. Qed.
Lemma elen_remove_at i e : (i < length (evals e))%nat -> elen (set_arr (ab_remove_at i) e) = elen e - 1.
Proof. unfold elen, evals. simpl. rewrite length_swap_remove. lia. Qed.
Lemma elen_clear e : elen (set_arr ab_clear e) = 0.
Proof. reflexivity. Qed.
Lemma elen_set_tag t e : elen (set_tag t e) = elen e.
Proof. reflexivity. Qed.
Lemma elen_new_add M k t v : elen (mkE k t (ab_add M v ab_null)) = 1.
Proof. reflexivity. Qed.
Lemma elen_new k t : elen (mkE k t ab_null) = 0.
Proof. reflexivity. Qed.

Lemma add1_inv M m k t v : 0 < M < 16 -> Inv M m -> Inv M (add1 M m k t v).
Proof.
  intros HM (ND & CN & AB). destruct m as [es n]. simpl in *. subst n. unfold add1. simpl.
  destruct (find k es) as [e|] eqn:F; repeat split; simpl.
  + rewrite keys_upd; auto.
  + rewrite (sumlen_upd _ _ _ _ F), elen_add. lia.
  + eapply forall_upd; eauto. simpl. apply ab_add_inv; auto.
    rewrite Forall_forall in AB. apply AB. eapply find_in; eauto.
  + rewrite keys_app. apply nodup_snoc; auto. simpl. apply find_none; auto.
  + rewrite sumlen_app, elen_new_add. lia.
  + apply Forall_app. split; auto. constructor; auto. simpl. apply ab_add_inv; auto. apply ab_null_inv.
Qed.

Lemma add_range_inv M l : 0 < M < 16 -> forall m, Inv M m ->
  Inv M (fold_left (fun m' x => add1 M m' (fst (fst x)) (snd (fst x)) (snd x)) l m).
Proof. intros HM. induction l as [|x l IH]; intros m H; simpl; auto. apply IH. apply add1_inv; auto. Qed.

Lemma step1_inv M m o : 0 < M < 16 -> Inv M m -> Inv M (step1 M m o).
Proof.
  intros HM (ND & CN & AB). destruct m as [es n]. simpl in *. subst n.
  destruct o; simpl; try (repeat split; simpl; auto; fail).
  - (* OAdd *) apply (add1_inv M (es, sumlen es) k t v HM). repeat split; auto.
  - (* OAddAt *)
    destruct (find k es) as [e|] eqn:F; repeat split; simpl; auto.
    + rewrite keys_upd; auto.
    + rewrite (sumlen_upd _ _ _ _ F), elen_add. lia.
    + eapply forall_upd; eauto. simpl. apply ab_add_inv; auto.
      rewrite Forall_forall in AB. apply AB. eapply find_in; eauto.
  - (* OInsertKey *)
    destruct (find k es) as [e|] eqn:F; repeat split; simpl; auto.
    + rewrite keys_app. apply nodup_snoc; auto. simpl. apply find_none; auto.
    + rewrite sumlen_app, elen_new. lia.
    + apply Forall_app. split; auto. constructor; auto. simpl. apply ab_null_inv.
  - (* ORemove *)
    destruct (find k es) as [e|] eqn:F; [|repeat split; simpl; auto].
    destruct (Nat.ltb_spec i (length (evals e))); repeat split; simpl; auto.
    + rewrite keys_upd; auto.
    + rewrite (sumlen_upd _ _ _ _ F), elen_remove_at by auto. lia.
    + eapply forall_upd; eauto. simpl. apply ab_remove_at_inv; auto.
      rewrite Forall_forall in AB. apply AB. eapply find_in; eauto.
  - (* ORemoveIf *)
    repeat split; simpl.
    + rewrite keys_map; auto.
    + lia.
    + apply Forall_map. simpl. eapply Forall_impl; [|exact AB]. intros e He. simpl. apply rm_loop_inv; auto.
  - (* ORemoveValues *)
    destruct (find k es) as [e|] eqn:F; repeat split; simpl; auto.
    + rewrite keys_upd; auto.
    + rewrite (sumlen_upd _ _ _ _ F), elen_clear. lia.
    + eapply forall_upd; eauto. simpl. apply ab_clear_inv with (M := M); auto.
      rewrite Forall_forall in AB. apply AB. eapply find_in; eauto.
  - (* ORemoveKey *)
    destruct (find k es) as [e|] eqn:F; repeat split; simpl; auto.
    + apply nodup_remove; auto.
    + rewrite (sumlen_remove _ _ _ F). lia.
    + apply forall_remove; auto.
  - (* OResetKey *)
    repeat split; simpl.
    + rewrite keys_upd; auto.
    + destruct (find k es) as [e|] eqn:F.
      * rewrite (sumlen_upd _ _ _ _ F), elen_set_tag. lia.
      * rewrite find_upd_none; auto.
    + destruct (find k es) as [e|] eqn:F.
      * eapply forall_upd; eauto. simpl. rewrite Forall_forall in AB. apply AB. eapply find_in; eauto.
      * rewrite find_upd_none; auto.
  - (* OClear *)
    repeat split; simpl; auto. constructor.
  - (* OAddKey *)
    destruct (find k es) as [e|] eqn:F; repeat split; simpl; auto.
    + rewrite keys_app. apply nodup_snoc; auto. simpl. apply find_none; auto.
    + rewrite sumlen_app, elen_new. lia.
    + apply Forall_app. split; auto. constructor; auto. simpl. apply ab_null_inv.
  - (* OAddRange *)
    apply add_range_inv; auto. repeat split; auto.
Qed.

Lemma sumlen_map_copy M es : sumlen (map (set_arr (ab_copy M)) es) = sumlen es.
Proof. induction es; simpl; auto. rewrite IHes. reflexivity. Qed.

Lemma copy_inv M m : 0 < M < 16 -> Inv M m -> Inv M (mm_copy M m).
Proof.
  intros HM (ND & CN & AB). repeat split; simpl.
  - rewrite keys_map; auto.
  - rewrite sumlen_map_copy. auto.
  - apply Forall_map. eapply Forall_impl; [|exact AB]. intros e He. simpl. apply ab_copy_inv; auto.
Qed.

Lemma step_inv M s o : 0 < M < 16 -> Inv M (fst s) /\ Inv M (snd s) -> Inv M (fst (step M s o)) /\ Inv M (snd (step M s o)).
Proof.
  intros HM [A B].
  destruct o; cbn [step fst snd]; try (split; [apply step1_inv; auto|auto]; fail); split; auto using copy_inv, inv_empty.
Qed.

(* ---------------------------------------------------------------- refinement of the reference mapping *)
Lemma abs_add1 M m k t v x : abs (fst (add1 M m k t v)) x = sp_add (abs (fst m)) k t v x.
Proof.
  destruct m as [es n]. unfold abs, add1, sp_add. simpl.
  destruct (Z.eqb_spec x k) as [->|NE].
  + destruct (find k es) as [e|] eqn:F; simpl.
    * rewrite (find_upd_same _ _ _ _ F) by auto. reflexivity.
    * rewrite find_app, F. simpl. rewrite Z.eqb_refl. reflexivity.
  + destruct (find k es) as [e|] eqn:F; simpl.
    * rewrite find_upd_other; auto.
    * rewrite find_app. destruct (find x es); auto. simpl. destruct (Z.eqb_spec k x); [lia|auto].
Qed.

Lemma sp_add_ext s s' k t v : (forall x, s x = s' x) -> forall x, sp_add s k t v x = sp_add s' k t v x.
Proof. intros E x. unfold sp_add. destruct (x =? k); auto. rewrite E. reflexivity. Qed.

Lemma sp_add_range_ext l : forall s s', (forall x, s x = s' x) -> forall x,
  fold_left (fun s0 y => sp_add s0 (fst (fst y)) (snd (fst y)) (snd y)) l s x =
  fold_left (fun s0 y => sp_add s0 (fst (fst y)) (snd (fst y)) (snd y)) l s' x.
Proof. induction l as [|y l IH]; intros s s' E x; simpl; auto. apply IH. apply sp_add_ext. exact E. Qed.

Lemma abs_add_range M l : forall m x,
  abs (fst (fold_left (fun m' y => add1 M m' (fst (fst y)) (snd (fst y)) (snd y)) l m)) x =
  fold_left (fun s0 y => sp_add s0 (fst (fst y)) (snd (fst y)) (snd y)) l (abs (fst m)) x.
Proof.
  induction l as [|y l IH]; intros m x; simpl; auto.
  rewrite IH. apply sp_add_range_ext. intros z. apply abs_add1.
Qed.

Lemma abs_step1 M m o : NoDup (keys (fst m)) -> forall x, abs (fst (step1 M m o)) x = sp_step1 (abs (fst m)) o x.
Proof.
  intros ND x. destruct m as [es n]. simpl in *. unfold abs.
  destruct o; simpl; auto.
  - (* OAdd *) apply (abs_add1 M (es, n) k t v x).
  - (* OAddAt *)
    destruct (Z.eqb_spec x k) as [->|NE].
    + destruct (find k es) as [e|] eqn:F; simpl.
      * rewrite (find_upd_same _ _ _ _ F) by auto. reflexivity.
      * rewrite F. reflexivity.
    + destruct (find k es) as [e|] eqn:F; simpl; auto. rewrite find_upd_other; auto.
  - (* OInsertKey *)
    destruct (Z.eqb_spec x k) as [->|NE].
    + destruct (find k es) as [e|] eqn:F; simpl.
      * rewrite F. reflexivity.
      * rewrite find_app, F. simpl. rewrite Z.eqb_refl. reflexivity.
    + destruct (find k es) as [e|] eqn:F; simpl; auto.
      rewrite find_app. destruct (find x es); auto. simpl. destruct (Z.eqb_spec k x); [lia|auto].
  - (* ORemove *)
    destruct (Z.eqb_spec x k) as [->|NE].
    + destruct (find k es) as [e|] eqn:F; simpl; [|rewrite F; reflexivity].
      destruct (i <? length (evals e))%nat eqn:L; simpl.
      * rewrite (find_upd_same _ _ _ _ F) by auto. reflexivity.
      * rewrite F. reflexivity.
    + destruct (find k es) as [e|] eqn:F; simpl; auto.
      destruct (i <? length (evals e))%nat; simpl; auto. rewrite find_upd_other; auto.
  - (* ORemoveIf *)
    rewrite find_map by auto. destruct (find x es) as [e|] eqn:F; auto. simpl.
    unfold evals. simpl. unfold ab_remove_if. rewrite rm_loop_vals. rewrite (find_key _ _ _ F). reflexivity.
  - (* ORemoveValues *)
    destruct (Z.eqb_spec x k) as [->|NE].
    + destruct (find k es) as [e|] eqn:F; simpl.
      * rewrite (find_upd_same _ _ _ _ F) by auto. reflexivity.
      * rewrite F. reflexivity.
    + destruct (find k es) as [e|] eqn:F; simpl; auto. rewrite find_upd_other; auto.
  - (* ORemoveKey *)
    destruct (Z.eqb_spec x k) as [->|NE].
    + destruct (find k es) as [e|] eqn:F; simpl.
      * rewrite find_remove_same; auto.
      * rewrite F. reflexivity.
    + destruct (find k es) as [e|] eqn:F; simpl; auto. rewrite find_remove_other; auto.
  - (* OResetKey *)
    destruct (Z.eqb_spec x k) as [->|NE].
    + destruct (find k es) as [e|] eqn:F; simpl.
      * rewrite (find_upd_same _ _ _ _ F) by auto. reflexivity.
      * rewrite find_upd_none; auto. rewrite F. reflexivity.
    + rewrite find_upd_other; auto.
  - (* OAddKey *)
    destruct (Z.eqb_spec x k) as [->|NE].
    + destruct (find k es) as [e|] eqn:F; simpl.
      * rewrite F. reflexivity.
      * rewrite find_app, F. simpl. rewrite Z.eqb_refl. reflexivity.
    + destruct (find k es) as [e|] eqn:F; simpl; auto.
      rewrite find_app. destruct (find x es); auto. simpl. destruct (Z.eqb_spec k x); [lia|auto].
  - (* OAddRange *) apply (abs_add_range M l (es, n) x).
Qed.

Lemma abs_copy M m x : abs (fst (mm_copy M m)) x = abs (fst m) x.
Proof. unfold abs. simpl. rewrite find_map by auto. destruct (find x (fst m)); auto. Qed.

Definition refines (s : st) (r : sp * sp) : Prop :=
  (forall x, abs (fst (fst s)) x = fst r x) /\ (forall x, abs (fst (snd s)) x = snd r x).

Lemma sp_step1_ext s s' o : (forall x, s x = s' x) -> forall x, sp_step1 s o x = sp_step1 s' o x.
Proof.
  intros E x. destruct o; simpl; auto; try (destruct (x =? k); auto; rewrite E; auto; fail).
  - apply sp_add_ext; auto.
  - rewrite E; auto.
  - apply sp_add_range_ext; auto.
Qed.

Lemma step_refines M s r o : NoDup (keys (fst (fst s))) -> refines s r -> refines (step M s o) (sp_step r o).
Proof.
  intros ND [A B].
  destruct o; cbn [step sp_step fst snd];
    try (split; cbn [fst snd]; [intros x; rewrite abs_step1 by auto; apply sp_step1_ext; auto|auto]; fail);
    split; cbn [fst snd]; auto; intros x; try rewrite abs_copy; auto.
Qed.

Theorem mm_refines_all_histories_thm M ops : 0 < M < 16 ->
  let s := run M ops in
  Inv M (fst s) /\ Inv M (snd s) /\ refines s (sp_run ops).
Proof.
  intros HM. unfold run, sp_run.
  assert (forall s r, Inv M (fst s) /\ Inv M (snd s) -> refines s r ->
            let s' := fold_left (step M) ops s in
            Inv M (fst s') /\ Inv M (snd s') /\ refines s' (fold_left sp_step ops r)) as G.
  { induction ops as [|o ops IH]; intros s r HI HR; simpl.
    - destruct HI; auto.
    - apply IH.
      + apply step_inv; auto.
      + apply step_refines; auto. destruct HI as [(ND & _) _]. auto. }
  apply G.
  - split; apply inv_empty.
  - split; intros x; reflexivity.
Qed.

(* ---------------------------------------------------------------- traversal *)
Lemma all_pairs_nil r : sumlen r = 0 -> all_pairs r = [].
Proof.
  induction r as [|a r IH]; auto. simpl. intros S0. pose proof (sumlen_nonneg r). unfold elen in S0.
  unfold all_pairs. cbn [flat_map]. unfold pairs_of at 1. destruct (evals a); [|cbn [length] in S0; lia].
  cbn [map app]. apply IH. cbn [length] in S0. lia.
Qed.

Lemma skipn_pairs_of e i : (i < length (evals e))%nat ->
  skipn i (pairs_of e) = (ekey e, nth i (evals e) 0) :: skipn (S i) (pairs_of e).
Proof.
  unfold pairs_of. revert i. induction (evals e) as [|v l IH]; intros i Hi; [simpl in Hi; lia|].
  destruct i; [reflexivity|]. simpl in Hi. simpl. apply IH. lia.
Qed.

Lemma traverse_in_key e r :
  (forall n, (Z.to_nat (sumlen r) <= n)%nat -> traverse_from (S n) (skip_empty r) = all_pairs r) ->
  forall n i, (i < length (evals e))%nat -> (Z.to_nat (sumlen (e :: r)) <= n + i)%nat ->
  traverse_from (S n) (e :: r, i) = skipn i (pairs_of e) ++ all_pairs r.
Proof.
  intros HR. induction n as [|n IHn]; intros i Hi Hn.
  - pose proof (sumlen_nonneg r). simpl in Hn. unfold elen in Hn.
    assert (i = O /\ length (evals e) = 1%nat /\ sumlen r = 0) as (-> & L1 & S0) by lia.
    rewrite all_pairs_nil by auto. rewrite skipn_pairs_of by lia.
    rewrite (skipn_all2 (pairs_of e)) by (unfold pairs_of; rewrite map_length; lia).
    reflexivity.
  - change (traverse_from (S (S n)) (e :: r, i)) with
      (it_deref (e :: r, i) :: traverse_from (S n) (it_next (e :: r, i))).
    rewrite skipn_pairs_of by auto. unfold it_deref at 1. cbn [fst snd]. cbn [app]. f_equal.
    unfold it_next, pv_move. cbn [fst snd].
    destruct (Nat.eqb_spec (S i) (length (evals e))) as [E|NE].
    + rewrite (skipn_all2 (pairs_of e)) by (unfold pairs_of; rewrite map_length; lia).
      cbn [app]. apply HR. simpl in Hn. unfold elen in Hn. pose proof (sumlen_nonneg r). lia.
    + apply IHn; lia.
Qed.

Lemma skip_empty_pairs es : forall n, (Z.to_nat (sumlen es) <= n)%nat ->
  traverse_from (S n) (skip_empty es) = all_pairs es.
Proof.
  induction es as [|e r IH]; intros n Hn.
  - reflexivity.
  - cbn [skip_empty]. destruct (Nat.ltb_spec 0 (length (evals e))) as [L|L].
    + rewrite (traverse_in_key e r IH n O L ltac:(lia)). reflexivity.
    + unfold all_pairs. cbn [flat_map]. unfold pairs_of at 1.
      destruct (evals e) eqn:EV; [|simpl in L; lia]. cbn [map app]. apply IH.
      simpl in Hn. unfold elen in Hn. rewrite EV in Hn. simpl in Hn. lia.
Qed.

Lemma traverse_eq m : traverse m = all_pairs (fst m).
Proof.
  unfold traverse, it_begin. destruct (fst m) as [|e r] eqn:E; [reflexivity|].
  unfold pv_move. cbn [fst snd].
  destruct (0 =? length (evals e))%nat eqn:L.
  - apply Nat.eqb_eq in L.
    unfold all_pairs. cbn [flat_map]. unfold pairs_of at 1. destruct (evals e) eqn:EV; [|simpl in L; lia]. cbn [map app].
    apply skip_empty_pairs. cbn [sumlen]. unfold elen. rewrite EV. simpl. lia.
  - apply Nat.eqb_neq in L.
    rewrite (traverse_in_key e r (skip_empty_pairs r) (Z.to_nat (sumlen (e :: r))) O ltac:(lia) ltac:(lia)). reflexivity.
Qed.

Definition pair_dec : forall a b : Z * Z, {a = b} + {a <> b}.
Proof. decide equality; apply Z.eq_dec. Defined.

Lemma count_pairs_of e k v :
  count_occ pair_dec (pairs_of e) (k, v) = if ekey e =? k then count_occ Z.eq_dec (evals e) v else O.
Proof.
  unfold pairs_of. induction (evals e) as [|w l IH].
  - simpl. destruct (ekey e =? k); reflexivity.
  - cbn [map]. destruct (pair_dec (ekey e, w) (k, v)) as [E|NE].
    + rewrite count_occ_cons_eq by exact E. inversion E; subst. rewrite Z.eqb_refl in *.
      rewrite count_occ_cons_eq by reflexivity. rewrite IH. reflexivity.
    + rewrite count_occ_cons_neq by exact NE. rewrite IH. destruct (Z.eqb_spec (ekey e) k); auto.
      rewrite count_occ_cons_neq; auto. intros ->. subst. contradiction.
Qed.

(* every (key, value) pair of the mapping is visited exactly as many times as the value occurs in the key's list;
   nothing else is visited (in particular nothing for a value-less or absent key) *)
Lemma traverse_counts m k v : NoDup (keys (fst m)) ->
  count_occ pair_dec (traverse m) (k, v) =
  match abs (fst m) k with Some (_, vs) => count_occ Z.eq_dec vs v | None => O end.
Proof.
  rewrite traverse_eq. unfold abs, all_pairs. induction (fst m) as [|e r IH]; intros ND; [reflexivity|].
  simpl. rewrite count_occ_app, count_pairs_of. inversion ND; subst.
  destruct (Z.eqb_spec (ekey e) k) as [E|NE].
  - subst. rewrite IH by auto. assert (find (ekey e) r = None) as -> by (apply find_none; auto). lia.
  - rewrite IH by auto. reflexivity.
Qed.

(* ---------------------------------------------------------------- a key persists until removed as a key *)
Lemma add1_persists M m k0 t v k : find k (fst m) <> None -> find k (fst (add1 M m k0 t v)) <> None.
Proof.
  destruct m as [es n]. unfold add1. simpl. intros H. destruct (find k es) as [e0|] eqn:F0; [|congruence].
  destruct (find k0 es) eqn:F; simpl.
  - destruct (Z.eq_dec k k0) as [->|NE].
    + rewrite (find_upd_same _ _ _ _ F0) by auto. discriminate.
    + rewrite find_upd_other; auto. rewrite F0. discriminate.
  - rewrite find_app, F0. discriminate.
Qed.

Lemma add_range_persists M l k : forall m, find k (fst m) <> None ->
  find k (fst (fold_left (fun m' x => add1 M m' (fst (fst x)) (snd (fst x)) (snd x)) l m)) <> None.
Proof. induction l as [|x l IH]; intros m H; simpl; auto. apply IH. apply add1_persists; auto. Qed.

Lemma key_persists M m o k :
  abs (fst m) k <> None ->
  (forall k', o = ORemoveKey k' -> k' <> k) -> o <> OClear ->
  abs (fst (step1 M m o)) k <> None.
Proof.
  intros H NK NC.
  assert (forall es', find k es' <> None -> (match find k es' with Some e => Some (etag e, evals e) | None => None end) <> None) as W
    by (intros es' Hf; destruct (find k es'); congruence).
  assert (find k (fst m) <> None) as H0 by (unfold abs in H; destruct (find k (fst m)); congruence).
  unfold abs. apply W. clear W H. destruct m as [es n]. simpl in *.
  destruct (find k es) as [e0|] eqn:F0; [|congruence]. clear H0.
  assert (forall f, (forall e, ekey (f e) = ekey e) -> forall k', find k (upd k' f es) <> None) as U.
  { intros f Hf k'. destruct (Z.eq_dec k k') as [->|NE].
    - rewrite (find_upd_same _ _ _ _ F0 Hf). discriminate.
    - rewrite find_upd_other; auto. rewrite F0. discriminate. }
  destruct o; simpl; try (rewrite F0; discriminate); try congruence.
  - apply (add1_persists M (es, n)). simpl. rewrite F0. discriminate.
  - destruct (find k0 es); simpl; [apply U; auto|rewrite F0; discriminate].
  - destruct (find k0 es); simpl; [rewrite F0; discriminate|rewrite find_app, F0; discriminate].
  - destruct (find k0 es) as [e|]; simpl; [|rewrite F0; discriminate].
    destruct (i <? length (evals e))%nat; simpl; [apply U; auto|rewrite F0; discriminate].
  - rewrite find_map by auto. rewrite F0. discriminate.
  - destruct (find k0 es) as [e|]; simpl; [apply U; auto|rewrite F0; discriminate].
  - destruct (find k0 es) as [e|] eqn:F; simpl; [|rewrite F0; discriminate].
    rewrite find_remove_other; [rewrite F0; discriminate|]. intros ->. apply (NK k0); auto.
  - apply U; auto.
  - destruct (find k0 es); simpl; [rewrite F0; discriminate|rewrite find_app, F0; discriminate].
  - apply (add_range_persists M l k (es, n)). simpl. rewrite F0. discriminate.
Qed.

Lemma all_pairs_unfold e r : all_pairs (e :: r) = pairs_of e ++ all_pairs r.
Proof. reflexivity. Qed.
Lemma length_pairs_of_mm e : length (pairs_of e) = length (evals e).
Proof. unfold pairs_of. apply map_length. Qed.

(* ================================================================ MakeIterator(keyIter, valueIndex) / the iterator Remove returns *)
(* position in the pair traversal of the i-th value of key k *)
Fixpoint flat_pos (es : list entry) (k : Z) (i : nat) : nat :=
  match es with
  | [] => O
  | e :: r => if ekey e =? k then i else (length (evals e) + flat_pos r k i)%nat
  end.

(* pvMakeIterator(keyIter, valueIndex, move = true): lines 1192-1203 with the pvMove of the constructor *)
Fixpoint iter_at_key (es : list entry) (k : Z) (i : nat) : iter :=
  match es with
  | [] => ([], O)
  | e :: r => if ekey e =? k then pv_move (e :: r, i) else iter_at_key r k i
  end.

Lemma skipn_app_len (A : Type) (x w : list A) n : skipn (length x + n) (x ++ w) = skipn n w.
Proof. induction x; simpl; auto. Qed.

Lemma skipn_app_le (A : Type) (x w : list A) n : (n <= length x)%nat -> skipn n (x ++ w) = skipn n x ++ w.
Proof. revert n; induction x as [|a x IH]; intros [|n] H; simpl in *; auto; try lia. apply IH. lia. Qed.

(* Remove(iter) returns pvMakeIterator(key, valueIndex, move) on the NEW state: the traversal continued from the
   returned iterator is exactly the rest of the new traversal from the flat position of the removed pair -- the
   value swapped into the hole comes next, or (hole was the last value) the first pair of the next key WITH values,
   or end.  Holds for every order of the keys. *)
Lemma iter_at_key_continues es : forall k i e n, find k es = Some e -> (i <= length (evals e))%nat ->
  (Z.to_nat (sumlen es) <= n)%nat ->
  traverse_from (S n) (iter_at_key es k i) = skipn (flat_pos es k i) (all_pairs es).
Proof.
  induction es as [|a r IH]; intros k i e n F Hi Hn; [discriminate|].
  simpl in F. cbn [iter_at_key flat_pos]. rewrite all_pairs_unfold.
  pose proof (sumlen_nonneg r) as NN. cbn [sumlen] in Hn. unfold elen in Hn.
  destruct (Z.eqb_spec (ekey a) k) as [E|NE].
  - inversion F; subst e. unfold pv_move. cbn [fst snd].
    destruct (Nat.eqb_spec i (length (evals a))) as [L|L].
    + subst i. rewrite <- (length_pairs_of_mm a). rewrite <- (Nat.add_0_r (length (pairs_of a))).
      rewrite skipn_app_len. simpl. apply skip_empty_pairs. lia.
    + rewrite skipn_app_le by (rewrite length_pairs_of_mm; lia).
      apply (traverse_in_key a r (skip_empty_pairs r) n i); [lia|]. cbn [sumlen]. unfold elen. lia.
  - rewrite <- (length_pairs_of_mm a). rewrite skipn_app_len. apply (IH k i e n F Hi). lia.
Qed.

(* ================================================================ exceptions: operations under a failure schedule *)
(* fs: one boolean per fallible step reached, in program order (true = that step throws).  Fallible steps:
   the allocations of ArrayBucket::AddBackCrt (add_back_f), "placing a new key in mHashMap" (hash table growth / key
   copy: one step; the strong guarantee of HashMap::AddCrt is ASSUMED here (it is property C04's subject), i.e. a failure of that step
   returns the unchanged state by definition), the allocation of Array::Shrink in RemoveBack
   (swallowed), and mHashMap.Remove in RemoveKey (key relocation may throw -> roll-back, lines 1100-1117).
   Result: state, threw?, remaining schedule. *)
Definition step1f (M : Z) (m : mm) (o : op) (fs : list bool) : mm * bool * list bool :=
  let es := fst m in
  let n := snd m in
  let add_existing e k t v :=
      (* AddCrt(keyIter): pvAddValue = valueArray.AddBackCrt(...) THEN ++mValueCount (1233-1240) *)
      let '(_, threw, fs') := add_back_f M (fst (earr e)) fs in
      if threw then (m, true, fs') else (add1 M m k t v, false, fs') in
  match o with
  | OAdd k t v =>
      match find k es with
      | Some e => add_existing e k t v
      | None =>
          (* mHashMap.AddCrt(pos, key, valuesCreator): table growth / key copy first (CopyExec copies the key, then
             runs the creator), then the creator: AddBackCrt on a local null array, ++mValueCount *)
          let (f, fs1) := take fs in
          if f then (m, true, fs1) else
          let '(_, threw, fs2) := add_back_f M RNull fs1 in
          if threw then (m, true, fs2) else (add1 M m k t v, false, fs2)
      end
  | OAddAt k v =>
      match find k es with
      | Some e => add_existing e k 0 v
      | None => (m, false, fs)
      end
  | ORemove k i =>
      match find k es with
      | Some e =>
          if (i <? length (evals e))%nat then
            let (r', fs') := remove_back_f (fst (earr e)) fs in
            ((upd k (set_arr (fun a => (r', swap_remove i (snd a)))) es, n - 1), false, fs')
          else (m, false, fs)
      | None => (m, false, fs)
      end
  | ORemoveKey k =>
      match find k es with
      | Some e =>
          let es1 := upd k (set_arr (fun _ => ab_null)) es in       (* ValueArray tempValueArray(std::move(valueArray)) *)
          let (f, fs') := take fs in
          if f then ((upd k (set_arr (fun _ => earr e)) es1, n), true, fs')   (* catch: valueArray = std::move(temp); throw *)
          else ((remove_key k es1, n - elen e), false, fs')          (* pvRemoveValues(tempValueArray) *)
      | None => (m, false, fs)
      end
  | _ => (step1 M m o, false, fs)
  end.

Lemma set_arr_restore g e : set_arr (fun _ => earr e) (set_arr g e) = e.
Proof. destruct e; reflexivity. Qed.

Lemma upd_restore k g es e : find k es = Some e ->
  upd k (set_arr (fun _ => earr e)) (upd k (set_arr g) es) = es.
Proof.
  induction es as [|a r IH]; simpl; [discriminate|].
  destruct (Z.eqb_spec (ekey a) k) as [E|NE]; simpl.
  - intros [= <-]. rewrite E, Z.eqb_refl. rewrite set_arr_restore. reflexivity.
  - destruct (Z.eqb_spec (ekey a) k); [contradiction|]. intros F. rewrite IH; auto.
Qed.

Lemma remove_key_upd k g es : (forall e, ekey (g e) = ekey e) -> remove_key k (upd k g es) = remove_key k es.
Proof.
  intros Hg. induction es as [|a r IH]; simpl; auto.
  destruct (Z.eqb_spec (ekey a) k) as [E|NE]; simpl.
  - rewrite Hg, E, Z.eqb_refl. reflexivity.
  - destruct (Z.eqb_spec (ekey a) k); [contradiction|]. rewrite IH. reflexivity.
Qed.

(* strong guarantee: a call that throws leaves the container EXACTLY as it was (entries, representations, count) *)
Theorem step1f_throw_unchanged M m o fs m' fs' :
  step1f M m o fs = (m', true, fs') -> m' = m.
Proof.
  destruct m as [es n]. unfold step1f. cbn [fst snd].
  destruct o; try (intros [= <- _]; fail); try discriminate.
  - (* OAdd *)
    destruct (find k es) as [e|] eqn:F.
    + destruct (add_back_f M (fst (earr e)) fs) as [[r' threw] fs1]. destruct threw; [intros [= <- _]; reflexivity|discriminate].
    + destruct (take fs) as [f fs1]. destruct f; [intros [= <- _]; reflexivity|].
      destruct (add_back_f M RNull fs1) as [[r' threw] fs2]. destruct threw; [intros [= <- _]; reflexivity|discriminate].
  - (* OAddAt *)
    destruct (find k es) as [e|] eqn:F; [|discriminate].
    destruct (add_back_f M (fst (earr e)) fs) as [[r' threw] fs1]. destruct threw; [intros [= <- _]; reflexivity|discriminate].
  - (* ORemove *)
    destruct (find k es) as [e|]; [|discriminate]. destruct (i <? length (evals e))%nat; [|discriminate].
    destruct (remove_back_f (fst (earr e)) fs). discriminate.
  - (* ORemoveKey *)
    destruct (find k es) as [e|] eqn:F; [|discriminate].
    destruct (take fs) as [f fs1]. destruct f; [|discriminate].
    intros [= <- _]. rewrite (upd_restore _ _ _ _ F). reflexivity.
Qed.

(* a call that does not throw has the effect of the failure-free call on the mapping and the count; only the
   capacity of a heap array may differ (swallowed Shrink failure); the invariant is kept *)
Theorem step1f_ok M m o fs m' fs' : 0 < M < 16 -> Inv M m ->
  step1f M m o fs = (m', false, fs') ->
  Inv M m' /\ (forall x, abs (fst m') x = abs (fst (step1 M m o)) x) /\ snd m' = snd (step1 M m o).
Proof.
  intros HM HI. pose proof (step1_inv M m o HM HI) as HS.
  assert (forall mm0, mm0 = step1 M m o -> Inv M mm0 /\ (forall x, abs (fst mm0) x = abs (fst (step1 M m o)) x) /\ snd mm0 = snd (step1 M m o)) as SAME
    by (intros mm0 ->; auto).
  destruct m as [es n]. unfold step1f. cbn [fst snd].
  destruct o; try (intros [= <- _]; apply SAME; reflexivity).
  - (* OAdd *)
    destruct (find k es) as [e|] eqn:F.
    + destruct (add_back_f M (fst (earr e)) fs) as [[r' threw] fs1]. destruct threw; [discriminate|].
      intros [= <- _]. apply SAME. reflexivity.
    + destruct (take fs) as [f fs1]. destruct f; [discriminate|].
      destruct (add_back_f M RNull fs1) as [[r' threw] fs2]. destruct threw; [discriminate|].
      intros [= <- _]. apply SAME. reflexivity.
  - (* OAddAt *)
    destruct (find k es) as [e|] eqn:F.
    + destruct (add_back_f M (fst (earr e)) fs) as [[r' threw] fs1]. destruct threw; [discriminate|].
      intros [= <- _]. apply SAME. simpl. rewrite F. unfold add1. simpl. rewrite F. reflexivity.
    + intros [= <- _]. apply SAME. simpl. rewrite F. reflexivity.
  - (* ORemove *)
    simpl in HS. destruct (find k es) as [e|] eqn:F; [|intros [= <- _]; apply SAME; simpl; rewrite F; reflexivity].
    destruct (Nat.ltb_spec i (length (evals e))) as [L|L]; [|intros [= <- _]; apply SAME; simpl; rewrite F;
      destruct (Nat.ltb_spec i (length (evals e))); [lia|reflexivity]].
    destruct (remove_back_f (fst (earr e)) fs) as [r' fs1] eqn:RB. intros [= <- _].
    destruct HI as (ND & CN & AB). simpl in ND, CN, AB.
    assert (ab_inv M (earr e)) as AE by (rewrite Forall_forall in AB; apply AB; eapply find_in; eauto).
    destruct AE as [RI RC].
    pose proof (remove_back_f_spec M (fst (earr e)) fs RI ltac:(unfold evals in L; lia)) as (RI' & RC' & _).
    rewrite RB in RI', RC'. simpl in RI', RC'.
    split; [|split].
    + repeat split; simpl.
      * rewrite keys_upd; auto.
      * rewrite (sumlen_upd _ _ _ _ F).
        assert (elen (set_arr (fun a => (r', swap_remove i (snd a))) e) = elen e - 1) as ->
          by (unfold elen, evals; simpl; rewrite length_swap_remove; unfold evals in L; lia).
        lia.
      * eapply forall_upd; eauto. simpl. split; simpl; [exact RI'|]. rewrite RC', RC, length_swap_remove. unfold evals in L. lia.
    + intros x. simpl. rewrite F. destruct (Nat.ltb_spec i (length (evals e))); [|lia]. simpl.
      unfold abs. destruct (Z.eq_dec x k) as [->|NE].
      * rewrite !(find_upd_same _ _ _ _ F) by auto. reflexivity.
      * rewrite !find_upd_other by auto. reflexivity.
    + simpl. rewrite F. destruct (Nat.ltb_spec i (length (evals e))); [|lia]. reflexivity.
  - (* ORemoveKey *)
    destruct (find k es) as [e|] eqn:F; [|intros [= <- _]; apply SAME; simpl; rewrite F; reflexivity].
    destruct (take fs) as [f fs1]. destruct f; [discriminate|].
    intros [= <- _]. apply SAME. simpl. rewrite F. rewrite remove_key_upd by auto. reflexivity.
Qed.

(* ---- all histories with failures: the mapping is that of the history with the throwing calls deleted *)
Fixpoint runf1 (M : Z) (m : mm) (ops : list (op * list bool)) : mm * list op :=
  match ops with
  | [] => (m, [])
  | (o, fs) :: r =>
      let '(m', threw, _) := step1f M m o fs in
      let (mf, done) := runf1 M m' r in
      (mf, if threw then done else o :: done)
  end.

Theorem mm_failures_all_histories_thm M ops : 0 < M < 16 ->
  forall m s, Inv M m -> (forall x, abs (fst m) x = s x) ->
  let '(mf, done) := runf1 M m ops in
  Inv M mf /\ (forall x, abs (fst mf) x = fold_left sp_step1 done s x) /\
  snd mf = sumlen (fst mf).
Proof.
  intros HM. induction ops as [|[o fs] r IH]; intros m s HI HA; simpl.
  - split; auto. split; auto. destruct HI as (_ & C & _); auto.
  - destruct (step1f M m o fs) as [[m' threw] fs'] eqn:S.
    destruct threw.
    + apply step1f_throw_unchanged in S. subst m'.
      specialize (IH m s HI HA). destruct (runf1 M m r) as [mf done]. exact IH.
    + destruct (step1f_ok M m o fs m' fs' HM HI S) as (HI' & HA' & _).
      assert (forall x, abs (fst m') x = sp_step1 s o x) as HA2.
      { intros x. rewrite HA'. destruct HI as (ND & _). rewrite abs_step1 by auto. apply sp_step1_ext. exact HA. }
      specialize (IH m' (sp_step1 s o) HI' HA2). destruct (runf1 M m' r) as [mf done]. exact IH.
Qed.
