(* C05 -- proofs about ArrayModel.v: Array::Insert / AddBack with the value argument aliasing ANY element, with and
   without growth; histories of operations refine the list operations; no allocation within reserved capacity *)
From Coq Require Import List Arith Lia Bool ZArith.
From MomoCommon Require GenPrelude.
From C05 Require Import ArrayShift ArrayModel ShiftProofs.
From C05 Require GrowProofs Gen_Grow.
Import ListNotations.

Section AP.
Variable V : Type.
Variable self_move : V -> option V.
Variable after_move : V -> option V.
Variable ic : nat.
Variable growOnReserve nothrowMove nothrowReloc canRealloc : bool.

Notation array := (array V).
Notation mkArray := (mkArray V).
Notation run_op := (run_op V self_move after_move ic growOnReserve nothrowMove nothrowReloc canRealloc).

(* sizes fit into size_t *)
Definition fits (n : nat) : Prop := (Z.of_nat n < 2 ^ 64)%Z.

(* the argument is a temporary or refers to an existing element (any index) *)
Definition arg_in (n : nat) (x : arg V) : Prop := match x with ArgVal _ => True | ArgRef p => p < n end.

Lemma cap_arr_of (l : list V) r : cap (arr_of l r) = length l + r.
Proof. unfold cap; simpl. apply length_lives_raws. Qed.

Lemma read_arg_arr_of (l : list V) r x d :
  arg_in (length l) x -> read_arg V (arr_of l r) x = Ok (Some (arg_val V l d x)).
Proof.
  destruct x as [v|p]; simpl; auto. intros Hp. unfold obj_at.
  rewrite (get_lives_raws V l r p d). destruct (Nat.ltb_spec p (length l)); [auto|lia].
Qed.

Lemma grow_capacity_ok capacity minNew cause linear :
  capacity < minNew -> fits minNew ->
  exists c, grow_capacity growOnReserve capacity minNew cause linear = Ok c /\ minNew <= c.
Proof.
  intros Hlt Hf. unfold grow_capacity.
  destruct (GrowProofs.grow_capacity_ge growOnReserve (Z.of_nat capacity) (Z.of_nat minNew) cause linear)
    as (r & -> & Hr1 & Hr2); [lia | exact Hf |].
  destruct (Z.leb_spec (Z.of_nat minNew) r); [|lia]. exists (Z.to_nat r). split; auto. lia.
Qed.

Lemma regrow_arr_of (l : list V) r c : regrow V (arr_of l r) c = arr_of l (r + (c - (length l + r))).
Proof.
  unfold regrow. rewrite cap_arr_of. unfold arr_of. simpl. f_equal.
  rewrite <- app_assoc. f_equal. unfold raws. rewrite repeat_app. reflexivity.
Qed.

Lemma pv_grow_ok (l : list V) r al minNew cause :
  length l + r < minNew -> fits minNew ->
  exists r', pv_grow V growOnReserve (mkArray (arr_of l r) al) minNew cause = Ok (mkArray (arr_of l r') (S al)) /\
             minNew <= length l + r'.
Proof.
  intros Hlt Hf. unfold pv_grow. simpl body. rewrite cap_arr_of.
  destruct (grow_capacity_ok (length l + r) minNew cause true Hlt Hf) as (c1 & -> & _).
  destruct (grow_capacity_ok (length l + r) minNew cause false Hlt Hf) as (c2 & -> & Hc2). simpl.
  rewrite regrow_arr_of. eexists; split; [reflexivity|]. lia.
Qed.

(* an object outside the array as the source of count copies (the ArrayItemHandler temporary) *)
Lemma insert_temp_refines (l : list V) r index count v :
  index <= length l -> count <= r ->
  insert_nogrow_gen V self_move after_move true (source_temp V (Some v)) (arr_of l r) index count =
    Ok (arr_of (firstn index l ++ repeat v count ++ skipn index l) (r - count)).
Proof.
  intros Hi Hc. destruct (Nat.eq_dec count 0) as [->|Hne].
  - rewrite insert_count0_is_identity; [|simpl; auto|simpl; rewrite cap_arr_of; lia].
    simpl. rewrite firstn_skipn, Nat.sub_0_r. reflexivity.
  - pose proof (insert_pure_refines V self_move after_move (source_temp V (Some v)) l r index (repeat v count) v
                  (fun _ => ArgVal v)) as H.
    rewrite repeat_length in H. apply H; auto; try lia; try (simpl; auto).
    intros k Hk. apply nth_error_nth. rewrite nth_error_repeat; auto.
Qed.

(* ---- Array::Insert(index, count, item): item may alias ANY element; any capacity (growth or not) ---- *)
Theorem array_insert_refines (l : list V) r al index count (x : arg V) d :
  index <= length l -> arg_in (length l) x -> fits (length l + count) ->
  exists r', array_insert V self_move after_move growOnReserve (mkArray (arr_of l r) al) index count x =
      Ok (mkArray (arr_of (firstn index l ++ repeat (arg_val V l d x) count ++ skipn index l) r')
                  (if r <? count then S al else al)) /\
    (count <= r -> r' = r - count) /\ length l + r <= length l + count + r'.
Proof.
  intros Hi Hx Hf. unfold array_insert. cbv zeta. simpl body. simpl allocs.
  replace (cnt (arr_of l r)) with (length l) by reflexivity. rewrite cap_arr_of.
  destruct (Nat.ltb_spec (length l + r) (length l + count)) as [Hg|Hg].
  - (* growth: the temporary copy is made first *)
    destruct (Nat.ltb_spec r count); [|lia]. cbn [orb].
    rewrite (read_arg_arr_of l r x d Hx). simpl.
    destruct (pv_grow_ok l r al (length l + count) cause_add Hg Hf) as (r1 & -> & Hr1). simpl.
    rewrite insert_temp_refines by (auto; lia). simpl. eexists; split; [reflexivity|]. split; intros; lia.
  - destruct (Nat.ltb_spec r count); [lia|]. cbn [orb].
    destruct (alias_at_or_after index (length l) (pv_index_of V (mkArray (arr_of l r) al) x)) eqn:Ha.
    + (* aliasing an element at or behind the insertion point: temporary copy, no growth *)
      rewrite (read_arg_arr_of l r x d Hx). simpl.
      rewrite insert_temp_refines by (auto; lia). simpl. eexists; split; [reflexivity|]. split; intros; lia.
    + (* a temporary, or an element in front of the insertion point: used in place *)
      assert (Hok : arg_ok V index x).
      { destruct x as [v|p]; simpl; auto. simpl in Hx. unfold pv_index_of in Ha. simpl in Ha.
        destruct (Nat.ltb_spec p (length l)); [|lia]. simpl in Ha.
        destruct (Nat.leb_spec index p), (Nat.ltb_spec p (length l)); simpl in Ha; try congruence; lia. }
      rewrite (insert_copies_refines V self_move after_move l r index count x d) by (auto; lia).
      simpl. eexists; split; [reflexivity|]. split; intros; lia.
Qed.

(* ---- Array::AddBack(const Item&): item may alias any element; all three pvAddBackGrow code paths ---- *)
Lemma add_back_ctor_arr_of (l : list V) r v :
  0 < r -> add_back_ctor V (arr_of l r) (Some v) = Ok (arr_of (l ++ [v]) (r - 1)).
Proof.
  intros Hr. rewrite add_back_ctor_ok.
  - f_equal. unfold arr_of. simpl. rewrite app_length. simpl. rewrite Nat.add_1_r. f_equal.
    apply get_ext.
    + rewrite length_set, !length_lives_raws, app_length. simpl. lia.
    + intros j. rewrite get_set by (rewrite length_lives_raws; lia).
      rewrite (get_lives_raws V (l ++ [v]) (r - 1) j v), (get_lives_raws V l r j v), app_length. simpl.
      destruct (Nat.eqb_spec j (length l)).
      * subst. destruct (Nat.ltb_spec (length l) (length l + 1)); [|lia]. rewrite app_nth2 by lia.
        rewrite Nat.sub_diag. reflexivity.
      * destruct (Nat.ltb_spec j (length l + 1)), (Nat.ltb_spec j (length l)); try lia; auto.
        rewrite app_nth1 by lia. reflexivity.
  - rewrite cap_arr_of. simpl. lia.
  - simpl. rewrite (get_lives_raws V l r (length l) v). destruct (Nat.ltb_spec (length l) (length l)); [lia|auto].
Qed.

Theorem array_add_back_refines (l : list V) r al (x : arg V) d :
  arg_in (length l) x -> fits (length l + 1) ->
  exists r', array_add_back V growOnReserve nothrowReloc (mkArray (arr_of l r) al) x =
      Ok (mkArray (arr_of (l ++ [arg_val V l d x]) r') (if r =? 0 then S al else al)) /\ (0 < r -> r' = r - 1) /\
      length l + r <= length l + 1 + r'.
Proof.
  intros Hx Hf. unfold array_add_back. simpl body. simpl allocs.
  replace (cnt (arr_of l r)) with (length l) by reflexivity. rewrite cap_arr_of.
  destruct (Nat.ltb_spec (length l) (length l + r)) as [Hroom|Hfull].
  - destruct (Nat.eqb_spec r 0); [lia|].
    rewrite (read_arg_arr_of l r x d Hx). simpl. rewrite add_back_ctor_arr_of by lia. simpl.
    eexists; split; [reflexivity|]. split; intros; lia.
  - assert (r = 0) by lia. subst r. simpl Nat.eqb. cbv iota.
    destruct nothrowReloc.
    + rewrite (read_arg_arr_of l 0 x d Hx). simpl.
      destruct (pv_grow_ok l 0 al (length l + 1) cause_add ltac:(lia) Hf) as (r1 & -> & Hr1). simpl.
      rewrite add_back_ctor_arr_of by lia. simpl. eexists; split; [reflexivity|]. split; intros; lia.
    + destruct (grow_capacity_ok (length l + 0) (length l + 1) cause_add false ltac:(lia) Hf) as (c & -> & Hc). simpl.
      rewrite (read_arg_arr_of l 0 x d Hx). simpl. rewrite regrow_arr_of.
      rewrite add_back_ctor_arr_of by lia. simpl. eexists; split; [reflexivity|]. split; intros; lia.
Qed.

(* ---- Reserve ---- *)
Theorem array_reserve_ok (l : list V) r al n :
  fits n ->
  exists r', array_reserve V growOnReserve (mkArray (arr_of l r) al) n =
      Ok (mkArray (arr_of l r') (if length l + r <? n then S al else al)) /\ n <= length l + r' /\ r <= r' /\
      (n <= length l + r -> r' = r).
Proof.
  intros Hf. unfold array_reserve. simpl body. rewrite cap_arr_of.
  destruct (Nat.ltb_spec (length l + r) n).
  - destruct (pv_grow_ok l r al n cause_reserve H Hf) as (r1 & -> & Hr1). exists r1. split; auto; repeat split; auto; try lia.
  - exists r. split; auto; repeat split; auto; try lia.
Qed.

(* ================================================================== histories *)
(* list-level meaning of an operation (None = precondition violated) *)
Definition spec_op (l : list V) (d : V) (o : op V) : option (list V) :=
  match o with
  | OAddBack _ (ArgVal v) => Some (l ++ [v])
  | OAddBack _ (ArgRef p) => if p <? length l then Some (l ++ [nth p l d]) else None
  | OInsert _ i c (ArgVal v) => if i <=? length l then Some (firstn i l ++ repeat v c ++ skipn i l) else None
  | OInsert _ i c (ArgRef p) =>
      if (i <=? length l) && (p <? length l) then Some (firstn i l ++ repeat (nth p l d) c ++ skipn i l) else None
  | OInsertRange _ i vs => if i <=? length l then Some (firstn i l ++ vs ++ skipn i l) else None
  | ORemove _ i c => if i + c <=? length l then Some (firstn i l ++ skipn (i + c) l) else None
  | OReserve _ n => Some l
  | _ => None
  end.


Lemma array_insert_range_refines (l : list V) r al index (vs : list V) :
  index <= length l -> fits (length l + length vs) ->
  exists r', array_insert_range V self_move after_move growOnReserve (mkArray (arr_of l r) al) index vs =
      Ok (mkArray (arr_of (firstn index l ++ vs ++ skipn index l) r') (if r <? length vs then S al else al)) /\
      (length vs <= r -> r' = r - length vs) /\ length l + r <= length l + length vs + r'.
Proof.
  intros Hi Hf. unfold array_insert_range. cbv zeta. simpl body.
  replace (cnt (arr_of l r)) with (length l) by reflexivity. rewrite cap_arr_of.
  assert (Hmap : forall d, map (arg_val V l d) (map (@ArgVal V) vs) = vs).
  { intros d. rewrite map_map. simpl. apply map_id. }
  assert (Hall : Forall (arg_ok V index) (map (@ArgVal V) vs)).
  { apply Forall_forall. intros x Hin. apply in_map_iff in Hin. destruct Hin as (v & <- & _). simpl. auto. }
  destruct (Nat.ltb_spec (length l + r) (length l + length vs)) as [Hg|Hg].
  - destruct (Nat.ltb_spec r (length vs)); [|lia].
    destruct (pv_grow_ok l r al (length l + length vs) cause_add Hg Hf) as (r1 & -> & Hr1). simpl.
    destruct vs as [|v0 vs'].
    + simpl in Hg. lia.
    + rewrite (insert_range_refines V self_move after_move l r1 index _ v0) by (auto; rewrite ?map_length; lia).
      rewrite Hmap, map_length. simpl. eexists; split; [reflexivity|]. split; intros; simpl in *; lia.
  - destruct (Nat.ltb_spec r (length vs)); [lia|]. simpl.
    destruct vs as [|v0 vs'].
    + unfold insert_nogrow_range. simpl length.
      rewrite insert_count0_is_identity; [|simpl; auto|simpl; rewrite cap_arr_of; lia].
      simpl. rewrite firstn_skipn. eexists; split; [reflexivity|]. split; intros; simpl; lia.
    + rewrite (insert_range_refines V self_move after_move l r index _ v0) by (auto; rewrite ?map_length; lia).
      rewrite Hmap, map_length. simpl. eexists; split; [reflexivity|]. split; intros; simpl in *; lia.
Qed.


Lemma fits_le n m : n <= m -> fits m -> fits n.
Proof. unfold fits. lia. Qed.

Lemma array_remove_refines (l : list V) r al index count :
  index + count <= length l ->
  array_remove V self_move after_move (mkArray (arr_of l r) al) index count =
    Ok (mkArray (arr_of (firstn index l ++ skipn (index + count) l) (r + count)) al).
Proof.
  intros H. unfold array_remove, with_body. simpl body.
  rewrite (remove_refines V self_move after_move l r index count H). reflexivity.
Qed.

(* one step of a history: the model refines the list operation, the capacity never decreases, and nothing is
   allocated while the new length (or the reserved amount) stays within the current capacity *)
Lemma step_refines (l l' : list V) r al d (o : op V) B :
  spec_op l d o = Some l' -> length l' <= B -> (forall n, o = OReserve V n -> n <= B) -> fits B ->
  exists r' al', run_op (mkArray (arr_of l r) al) o = Ok (mkArray (arr_of l' r') al') /\
    length l + r <= length l' + r' /\
    (B <= length l + r -> al' = al /\ length l' + r' = length l + r).
Proof.
  intros Hs HB Hres HfB. assert (Hf : fits (length l')) by (apply (fits_le _ B); auto).
  destruct o; simpl in Hs; try discriminate; simpl run_op.
  - (* AddBack *)
    assert (Hx : arg_in (length l) x /\ l' = l ++ [arg_val V l d x]).
    { destruct x as [v|p]; simpl in *; [inversion Hs; auto|].
      destruct (Nat.ltb_spec p (length l)); inversion Hs; auto. }
    destruct Hx as (Hx & ->). rewrite app_length in *. simpl in *.
    destruct (array_add_back_refines l r al x d Hx Hf) as (r' & -> & Hr1 & Hr2).
    eexists; eexists; split; [reflexivity|]. rewrite ?app_length; simpl. split; [lia|]. intros Hle.
    destruct (Nat.eqb_spec r 0); [lia|]. split; auto. specialize (Hr1 ltac:(lia)). lia.
  - (* Insert *)
    assert (Hx : index <= length l /\ arg_in (length l) x /\
                 l' = firstn index l ++ repeat (arg_val V l d x) count ++ skipn index l).
    { destruct x as [v|p]; simpl in *.
      - destruct (Nat.leb_spec index (length l)); inversion Hs; auto.
      - destruct (Nat.leb_spec index (length l)), (Nat.ltb_spec p (length l)); inversion Hs; auto. }
    destruct Hx as (Hi & Hx & ->). rewrite (length_spec V) in * by auto. rewrite repeat_length in *.
    destruct (array_insert_refines l r al index count x d Hi Hx Hf) as (r' & -> & Hr1 & Hr2).
    eexists; eexists; split; [reflexivity|]. rewrite ?(length_spec V), ?repeat_length by auto. split; [lia|]. intros Hle.
    destruct (Nat.ltb_spec r count); [lia|]. split; auto. specialize (Hr1 ltac:(lia)). lia.
  - (* InsertRange *)
    destruct (Nat.leb_spec index (length l)); inversion Hs; subst l'. rewrite (length_spec V) in * by auto.
    destruct (array_insert_range_refines l r al index vs H Hf) as (r' & -> & Hr1 & Hr2).
    eexists; eexists; split; [reflexivity|]. rewrite ?(length_spec V) by auto. split; [lia|]. intros Hle.
    destruct (Nat.ltb_spec r (length vs)); [lia|]. split; auto. specialize (Hr1 ltac:(lia)). lia.
  - (* Remove *)
    destruct (Nat.leb_spec (index + count) (length l)); inversion Hs; subst l'.
    rewrite array_remove_refines by auto. eexists; eexists; split; [reflexivity|].
    assert (Hlen : length (firstn index l ++ skipn (index + count) l) = length l - count).
    { rewrite app_length, firstn_length, skipn_length. lia. }
    rewrite Hlen. split; [lia|]. intros; split; auto. lia.
  - (* Reserve *)
    inversion Hs; subst l'. specialize (Hres n eq_refl).
    destruct (array_reserve_ok l r al n (fits_le _ _ Hres HfB)) as (r' & -> & Hr1 & Hr2 & Hr3).
    eexists; eexists; split; [reflexivity|]. split; [lia|]. intros Hle.
    destruct (Nat.ltb_spec (length l + r) n); [lia|]. rewrite Hr3 by lia. split; auto.
Qed.

(* ---- histories ---- *)
Fixpoint run_ops (a : array) (os : list (op V)) : res array :=
  match os with [] => Ok a | o :: t => a' <- run_op a o ;; run_ops a' t end.
Fixpoint spec_ops (l : list V) (d : V) (os : list (op V)) : option (list V) :=
  match os with [] => Some l | o :: t => match spec_op l d o with Some l' => spec_ops l' d t | None => None end end.
(* every operation of the history is meaningful on the list level, and every intermediate length and every reserved
   amount is at most B *)
Fixpoint bounded (l : list V) (d : V) (os : list (op V)) (B : nat) : Prop :=
  match os with
  | [] => True
  | o :: t => match spec_op l d o with
              | Some l' => length l' <= B /\ (forall n, o = OReserve V n -> n <= B) /\ bounded l' d t B
              | None => False
              end
  end.

Theorem history_refines (os : list (op V)) : forall (l : list V) r al d B,
  bounded l d os B -> fits B ->
  exists l' r' al', spec_ops l d os = Some l' /\
    run_ops (mkArray (arr_of l r) al) os = Ok (mkArray (arr_of l' r') al') /\
    length l + r <= length l' + r' /\
    (B <= length l + r -> al' = al /\ length l' + r' = length l + r).
Proof.
  induction os as [|o t IH]; intros l r al d B Hb Hf; simpl in *.
  - exists l, r, al. repeat split; auto.
  - destruct (spec_op l d o) as [l1|] eqn:Hs; [|contradiction]. destruct Hb as (Hlen & Hres & Hb).
    destruct (step_refines l l1 r al d o B Hs Hlen Hres Hf) as (r1 & al1 & -> & Hcap1 & Hno1). simpl.
    destruct (IH l1 r1 al1 d B Hb Hf) as (l' & r' & al' & Hspec & Hrun & Hcap & Hno).
    exists l', r', al'. split; [auto|]. split; [auto|]. split; [lia|]. intros HB.
    destruct (Hno1 HB) as (-> & Hc). destruct (Hno ltac:(lia)) as (-> & Hc'). split; auto. lia.
Qed.

(* after Reserve(n): any history of AddBack / Insert (n copies, ranges) / Remove / Reserve with aliased arguments whose
   lengths stay <= n performs NO allocation, and still refines the list operations *)
Theorem reserve_then_grow_no_alloc (l : list V) r al n d (os : list (op V)) :
  fits n -> length l <= n -> bounded l d os n ->
  exists r1 al1 l' r',
    array_reserve V growOnReserve (mkArray (arr_of l r) al) n = Ok (mkArray (arr_of l r1) al1) /\
    n <= length l + r1 /\
    spec_ops l d os = Some l' /\
    run_ops (mkArray (arr_of l r1) al1) os = Ok (mkArray (arr_of l' r') al1) /\
    length l' + r' = length l + r1.
Proof.
  intros Hf Hl Hb.
  destruct (array_reserve_ok l r al n Hf) as (r1 & Hres & Hn & _ & _).
  destruct (history_refines os l r1 (if length l + r <? n then S al else al) d n Hb Hf)
    as (l' & r' & al' & Hspec & Hrun & _ & Hno).
  destruct (Hno Hn) as (-> & Hc).
  eexists r1, _, l', r'. split; [exact Hres|]. repeat split; auto.
Qed.
End AP.

(* non-vacuity: a history with aliased arguments, empty ranges and a Reserve satisfies `bounded` *)
Example bounded_example :
  bounded nat [1;2;3] 0 [OAddBack nat (ArgRef 0); OInsert nat 1 2 (ArgRef 3); ORemove nat 0 0; OInsert nat 2 0 (ArgRef 1);
                     OReserve nat 9; OInsertRange nat 6 [7;8]; ORemove nat 1 3] 10
  /\ spec_ops nat [1;2;3] 0 [OAddBack nat (ArgRef 0); OInsert nat 1 2 (ArgRef 3); ORemove nat 0 0; OInsert nat 2 0 (ArgRef 1);
                     OReserve nat 9; OInsertRange nat 6 [7;8]; ORemove nat 1 3] = Some [1;3;1;7;8].
Proof.
  split; [|reflexivity]. simpl. repeat split; try lia; intros n H; try discriminate. inversion H; lia.
Qed.
