// C06 implementation side.  One executable per (IMPL, GROUP):  -DIMPL_MOMO | -DIMPL_STD,  -DGROUP=1..4.
// Reads one call sequence per line, runs it on the real momo::stdish container (or on the libstdc++ container:
// the std side of the three-way comparison), prints one line of results.  Same case format as ocaml/driver.ml.
//
//   <kind> <allocKind> <idA> <idB> <hashMode> ; op args ; op args ; ...
//   kinds: uset umap ummap uset_o umap_o ummap_o set mset map mmap vec
//   we <kind> <hashMode> n k:v ... / fpos ftrav lpos ltrav       (momo only: erase(first,last) with iterator kinds)
#include "private_access.h"
#ifdef IMPL_MOMO
#include "momo/stdish/unordered_set.h"
#include "momo/stdish/unordered_map.h"
#include "momo/stdish/unordered_multimap.h"
#include "momo/stdish/set.h"
#include "momo/stdish/map.h"
#include "momo/stdish/vector.h"
#endif

// ------------------------------------------------------------------ element types
struct KI {   // set element: ordered / hashed / key-compared by k only, so equivalent elements are distinguishable
	int k, id;
	KI() : k(0), id(0) {}
	KI(int k_, int id_) : k(k_), id(id_) {}
	friend bool operator==(const KI& a, const KI& b) { return a.k == b.k && a.id == b.id; }
	friend bool operator!=(const KI& a, const KI& b) { return !(a == b); }
	friend bool operator<(const KI& a, const KI& b) { return a.k < b.k || (a.k == b.k && a.id < b.id); }
	friend bool operator>(const KI& a, const KI& b) { return b < a; }
	friend bool operator<=(const KI& a, const KI& b) { return !(b < a); }
	friend bool operator>=(const KI& a, const KI& b) { return !(a < b); }
};
// STATEFUL comparators: desc == true (a non-default state) orders descending; a wrapper that rebuilds the container with a default-constructed functor is visible
struct KLess { bool desc; explicit KLess(bool d = false) : desc(d) {} bool operator()(const KI& a, const KI& b) const { return desc ? b.k < a.k : a.k < b.k; } };
struct ILess { bool desc; explicit ILess(bool d = false) : desc(d) {} bool operator()(int a, int b) const { return desc ? b < a : a < b; } };
struct KEq { int tag; explicit KEq(int t = 0) : tag(t) {} bool operator()(const KI& a, const KI& b) const { return a.k == b.k; } };   // stateful: tag observed through key_eq()
// hash distributions: 0 = std::hash (identity), 1 = constant, 2 = only high bits vary (low 24 bits zero), 3 = four classes
static size_t hmix(int mode, int k) { switch (mode) { case 1: return 7; case 2: return size_t(unsigned(k)) << 24; case 3: return size_t(k & 3); default: return std::hash<int>()(k); } }
struct KHash { int mode; explicit KHash(int m = 0) : mode(m) {}
	size_t operator()(const KI& a) const { return hmix(mode, a.k); } };
struct IHash { int mode; explicit IHash(int m = 0) : mode(m) {}
	size_t operator()(int a) const { return hmix(mode, a); } };

// string key/mapped (long enough to defeat SSO), transparent functors for heterogeneous lookup
static std::string SK(int k) { char b[40]; snprintf(b, sizeof b, "key-with-a-long-prefix-%06d", k + 100000); return b; }
static std::string SM(int v) { char b[40]; snprintf(b, sizeof b, "val-with-a-long-prefix-%06d", v + 100000); return b; }
static int SKi(const std::string& s) { return s.size() < 24 ? 0 : atoi(s.c_str() + 23) - 100000; }
static int SMi(const std::string& s) { return s.size() < 24 ? 0 : atoi(s.c_str() + 23) - 100000; }
struct SHash { typedef void is_transparent; int mode; explicit SHash(int m = 0) : mode(m) {}
	size_t operator()(const std::string& a) const { return mode == 0 ? std::hash<std::string>()(a) : hmix(mode, SKi(a)); }
	size_t operator()(const char* a) const { return (*this)(std::string(a)); } };
struct SEq { typedef void is_transparent;
	bool operator()(const std::string& a, const std::string& b) const { return a == b; }
	bool operator()(const char* a, const std::string& b) const { return b == a; }
	bool operator()(const std::string& a, const char* b) const { return a == b; } };
// move-only mapped type: any copy would not compile; a moved-from object is marked
static long g_moLive = 0;
struct MO { int v; MO() : v(0) { ++g_moLive; } explicit MO(int x) : v(x) { ++g_moLive; } MO(MO&& o) noexcept : v(o.v) { o.v = -777; ++g_moLive; }
	MO& operator=(MO&& o) noexcept { v = o.v; o.v = -777; return *this; } MO(const MO&) = delete; MO& operator=(const MO&) = delete; ~MO() { --g_moLive; }
	friend bool operator==(const MO& a, const MO& b) { return a.v == b.v; } friend bool operator<(const MO& a, const MO& b) { return a.v < b.v; } };
template<int TY> struct Codec;
template<> struct Codec<0> { typedef int key; typedef int mapped; static const bool copyable = true; static const bool hetero = false;
	static int K(int k) { return k; } static int M(int v) { return v; } static int ki(int k) { return k; } static int mi(int v) { return v; } };
template<> struct Codec<1> { typedef std::string key; typedef std::string mapped; static const bool copyable = true; static const bool hetero = true;
	static std::string K(int k) { return SK(k); } static std::string M(int v) { return SM(v); } static int ki(const std::string& k) { return SKi(k); } static int mi(const std::string& v) { return SMi(v); } };
template<> struct Codec<2> { typedef int key; typedef MO mapped; static const bool copyable = false; static const bool hetero = false;
	static int K(int k) { return k; } static MO M(int v) { return MO(v); } static int ki(int k) { return k; } static int mi(const MO& v) { return v.v; } };

// ------------------------------------------------------------------ stateful allocator
static std::map<void*, int> g_blocks; static bool g_allocErr = false;
template<class T, bool CCA, bool CMA, bool CS> struct SA {
	typedef T value_type;
	typedef std::integral_constant<bool, CCA> propagate_on_container_copy_assignment;
	typedef std::integral_constant<bool, CMA> propagate_on_container_move_assignment;
	typedef std::integral_constant<bool, CS> propagate_on_container_swap;
	typedef std::false_type is_always_equal;
	template<class U> struct rebind { typedef SA<U, CCA, CMA, CS> other; };
	int id;
	explicit SA(int i = 0) : id(i) {}
	template<class U> SA(const SA<U, CCA, CMA, CS>& o) : id(o.id) {}
	T* allocate(size_t n) { void* p = ::operator new(n * sizeof(T)); g_blocks[p] = id; return static_cast<T*>(p); }
	void deallocate(T* p, size_t) {
		auto it = g_blocks.find(p);
		if (it == g_blocks.end() || it->second != id) g_allocErr = true; else g_blocks.erase(it);
		::operator delete(p); }
	template<class U> bool operator==(const SA<U, CCA, CMA, CS>& o) const { return id == o.id; }
	template<class U> bool operator!=(const SA<U, CCA, CMA, CS>& o) const { return id != o.id; }
};
template<class A> struct AllocInfo { static const bool stateful = false, cca = false, cma = false, cs = false;
	static A make(int) { return A(); } static int id(const A&) { return 0; } };
template<class T, bool CCA, bool CMA, bool CS> struct AllocInfo<SA<T, CCA, CMA, CS>> {
	static const bool stateful = true, cca = CCA, cma = CMA, cs = CS;
	static SA<T, CCA, CMA, CS> make(int i) { return SA<T, CCA, CMA, CS>(i); } static int id(const SA<T, CCA, CMA, CS>& a) { return a.id; } };
template<int AK, class T> struct PickAlloc;
template<class T> struct PickAlloc<0, T> { typedef std::allocator<T> type; };
template<class T> struct PickAlloc<1, T> { typedef SA<T, false, false, false> type; };
template<class T> struct PickAlloc<2, T> { typedef SA<T, true, true, true> type; };
template<class T> struct PickAlloc<3, T> { typedef SA<T, true, false, true> type; };
template<class T> struct PickAlloc<4, T> { typedef SA<T, false, true, false> type; };
template<class T> struct PickAlloc<5, T> { typedef SA<T, true, true, false> type; };
template<class T> struct PickAlloc<6, T> { typedef SA<T, true, false, false> type; };
template<class T> struct PickAlloc<7, T> { typedef SA<T, false, true, true> type; };
template<class T> struct PickAlloc<8, T> { typedef SA<T, false, false, true> type; };

// ------------------------------------------------------------------ container catalogue
enum Shape { USET, UMAP, UMMAP, OSET, OMSET, OMAP, OMMAP, VEC, SMAP, SUMAP, MOMAP, MOUMAP, FUSET, FUMAP, FUMMAP };   // F*: int keys with the DEFAULT hash functor (fast-hashable: selects the other bucket classes)
typedef std::pair<const std::string, std::string> PSS; typedef std::pair<const int, MO> PIM;
template<Shape S, bool OPEN, int AK> struct Cont;
typedef std::pair<const int, int> PII;
#ifdef IMPL_MOMO
namespace ns = momo::stdish;
template<int AK> struct Cont<USET, false, AK> { typedef ns::unordered_set<KI, KHash, KEq, typename PickAlloc<AK, KI>::type> type; };
template<int AK> struct Cont<USET, true, AK> { typedef ns::unordered_set_open<KI, KHash, KEq, typename PickAlloc<AK, KI>::type> type; };
template<int AK> struct Cont<UMAP, false, AK> { typedef ns::unordered_map<int, int, IHash, std::equal_to<int>, typename PickAlloc<AK, PII>::type> type; };
template<int AK> struct Cont<UMAP, true, AK> { typedef ns::unordered_map_open<int, int, IHash, std::equal_to<int>, typename PickAlloc<AK, PII>::type> type; };
template<int AK> struct Cont<UMMAP, false, AK> { typedef ns::unordered_multimap<int, int, IHash, std::equal_to<int>, typename PickAlloc<AK, PII>::type> type; };
template<int AK> struct Cont<UMMAP, true, AK> { typedef ns::unordered_multimap_open<int, int, IHash, std::equal_to<int>, typename PickAlloc<AK, PII>::type> type; };
template<int AK> struct Cont<OSET, false, AK> { typedef ns::set<KI, KLess, typename PickAlloc<AK, KI>::type> type; };
template<int AK> struct Cont<OMSET, false, AK> { typedef ns::multiset<KI, KLess, typename PickAlloc<AK, KI>::type> type; };
template<int AK> struct Cont<OMAP, false, AK> { typedef ns::map<int, int, ILess, typename PickAlloc<AK, PII>::type> type; };
template<int AK> struct Cont<OMMAP, false, AK> { typedef ns::multimap<int, int, ILess, typename PickAlloc<AK, PII>::type> type; };
template<int AK> struct Cont<VEC, false, AK> { typedef ns::vector<int, typename PickAlloc<AK, int>::type> type; };
template<int AK> struct Cont<FUSET, false, AK> { typedef ns::unordered_set<int, momo::HashCoder<int>, std::equal_to<int>, typename PickAlloc<AK, int>::type> type; };
template<int AK> struct Cont<FUSET, true, AK> { typedef ns::unordered_set_open<int, momo::HashCoder<int>, std::equal_to<int>, typename PickAlloc<AK, int>::type> type; };
template<int AK> struct Cont<FUMAP, false, AK> { typedef ns::unordered_map<int, int, momo::HashCoder<int>, std::equal_to<int>, typename PickAlloc<AK, PII>::type> type; };
template<int AK> struct Cont<FUMAP, true, AK> { typedef ns::unordered_map_open<int, int, momo::HashCoder<int>, std::equal_to<int>, typename PickAlloc<AK, PII>::type> type; };
template<int AK> struct Cont<FUMMAP, false, AK> { typedef ns::unordered_multimap<int, int, momo::HashCoder<int>, std::equal_to<int>, typename PickAlloc<AK, PII>::type> type; };
template<int AK> struct Cont<FUMMAP, true, AK> { typedef ns::unordered_multimap_open<int, int, momo::HashCoder<int>, std::equal_to<int>, typename PickAlloc<AK, PII>::type> type; };
template<int AK> struct Cont<SMAP, false, AK> { typedef ns::map<std::string, std::string, std::less<>, typename PickAlloc<AK, PSS>::type> type; };
template<int AK> struct Cont<SUMAP, false, AK> { typedef ns::unordered_map<std::string, std::string, SHash, SEq, typename PickAlloc<AK, PSS>::type> type; };
template<int AK> struct Cont<MOMAP, false, AK> { typedef ns::map<int, MO, ILess, typename PickAlloc<AK, PIM>::type> type; };
template<int AK> struct Cont<MOUMAP, false, AK> { typedef ns::unordered_map<int, MO, IHash, std::equal_to<int>, typename PickAlloc<AK, PIM>::type> type; };
static const bool isMomo = true;
#else
template<bool OPEN, int AK> struct Cont<USET, OPEN, AK> { typedef std::unordered_set<KI, KHash, KEq, typename PickAlloc<AK, KI>::type> type; };
template<bool OPEN, int AK> struct Cont<UMAP, OPEN, AK> { typedef std::unordered_map<int, int, IHash, std::equal_to<int>, typename PickAlloc<AK, PII>::type> type; };
template<bool OPEN, int AK> struct Cont<UMMAP, OPEN, AK> { typedef std::unordered_multimap<int, int, IHash, std::equal_to<int>, typename PickAlloc<AK, PII>::type> type; };
template<int AK> struct Cont<OSET, false, AK> { typedef std::set<KI, KLess, typename PickAlloc<AK, KI>::type> type; };
template<int AK> struct Cont<OMSET, false, AK> { typedef std::multiset<KI, KLess, typename PickAlloc<AK, KI>::type> type; };
template<int AK> struct Cont<OMAP, false, AK> { typedef std::map<int, int, ILess, typename PickAlloc<AK, PII>::type> type; };
template<int AK> struct Cont<OMMAP, false, AK> { typedef std::multimap<int, int, ILess, typename PickAlloc<AK, PII>::type> type; };
template<int AK> struct Cont<VEC, false, AK> { typedef std::vector<int, typename PickAlloc<AK, int>::type> type; };
template<bool OPEN, int AK> struct Cont<FUSET, OPEN, AK> { typedef std::unordered_set<int, std::hash<int>, std::equal_to<int>, typename PickAlloc<AK, int>::type> type; };
template<bool OPEN, int AK> struct Cont<FUMAP, OPEN, AK> { typedef std::unordered_map<int, int, std::hash<int>, std::equal_to<int>, typename PickAlloc<AK, PII>::type> type; };
template<bool OPEN, int AK> struct Cont<FUMMAP, OPEN, AK> { typedef std::unordered_multimap<int, int, std::hash<int>, std::equal_to<int>, typename PickAlloc<AK, PII>::type> type; };
template<int AK> struct Cont<SMAP, false, AK> { typedef std::map<std::string, std::string, std::less<>, typename PickAlloc<AK, PSS>::type> type; };
template<int AK> struct Cont<SUMAP, false, AK> { typedef std::unordered_map<std::string, std::string, SHash, SEq, typename PickAlloc<AK, PSS>::type> type; };
template<int AK> struct Cont<MOMAP, false, AK> { typedef std::map<int, MO, ILess, typename PickAlloc<AK, PIM>::type> type; };
template<int AK> struct Cont<MOUMAP, false, AK> { typedef std::unordered_map<int, MO, IHash, std::equal_to<int>, typename PickAlloc<AK, PIM>::type> type; };
static const bool isMomo = false;
#endif

template<Shape S> struct ShapeInfo {
	static const bool isMap = (S == UMAP || S == UMMAP || S == OMAP || S == OMMAP || S == SMAP || S == SUMAP || S == MOMAP || S == MOUMAP || S == FUMAP || S == FUMMAP);
	static const bool isMulti = (S == UMMAP || S == OMSET || S == OMMAP || S == FUMMAP);
	static const bool isUMM = (S == UMMAP || S == FUMMAP);
	static const bool intSet = (S == FUSET);
	static const bool isOrdered = (S == OSET || S == OMSET || S == OMAP || S == OMMAP || S == SMAP || S == MOMAP);
	static const bool hasNodes = (S != UMMAP && S != FUMMAP && S != VEC);
	static const int ty = (S == SMAP || S == SUMAP) ? 1 : (S == MOMAP || S == MOUMAP) ? 2 : 0;
};

typedef std::vector<std::string> Words;
static int I(const Words& w, size_t i) { return i < w.size() ? atoi(w[i].c_str()) : 0; }
static std::string E2S(int k, int v) { return std::to_string(k) + ":" + std::to_string(v); }

// ------------------------------------------------------------------ associative runner
template<Shape S, bool OPEN, int AK> struct Runner {
	typedef typename Cont<S, OPEN, AK>::type C;
	typedef typename C::value_type V;
	typedef typename C::allocator_type A;
	typedef ShapeInfo<S> SI; typedef Codec<SI::ty> CD;
	std::unique_ptr<C> c[2]; int hashMode;
	std::ostringstream out;

	static C* create(int id, int hashMode) {
		if constexpr (S == SMAP) return new C(typename C::key_compare(), AllocInfo<A>::make(id));
		else if constexpr (SI::isOrdered) return new C(typename C::key_compare(hashMode == 1), AllocInfo<A>::make(id));   // hashMode 1 on an ordered kind = descending comparator state
		else if constexpr (S == FUSET || S == FUMAP || S == FUMMAP) return new C(0, typename C::hasher(), typename C::key_equal(), AllocInfo<A>::make(id));
		else if constexpr (S == SUMAP) return new C(0, SHash(hashMode), SEq(), AllocInfo<A>::make(id));
		else if constexpr (SI::isMap) return new C(0, IHash(hashMode), std::equal_to<int>(), AllocInfo<A>::make(id));
		else return new C(0, KHash(hashMode), KEq(40 + hashMode), AllocInfo<A>::make(id));
	}
	static auto mk(int k, int v) { if constexpr (SI::isMap) return std::pair<typename CD::key, typename CD::mapped>(CD::K(k), CD::M(v)); else if constexpr (SI::intSet) return k; else return KI(k, v); }
	static auto mkKey(int k) { if constexpr (SI::isMap) return CD::K(k); else if constexpr (SI::intSet) return k; else return KI(k, 0); }
	template<class R> static std::string es(const R& r) { if constexpr (SI::isMap) return E2S(CD::ki(r.first), CD::mi(r.second)); else if constexpr (SI::intSet) return E2S(r, 0); else return E2S(r.k, r.id); }
	template<class R> static int keyOf(const R& r) { if constexpr (SI::isMap) return CD::ki(r.first); else if constexpr (SI::intSet) return r; else return r.k; }
	template<class It> std::string pos(const C& x, It it) {
		if constexpr (SI::isOrdered) return std::to_string(std::distance(x.begin(), typename C::const_iterator(it)));
		else { if (typename C::const_iterator(it) == x.end()) return "end";
			if constexpr (SI::isUMM) return std::to_string((*it).first);   // which of several equivalent pairs: unspecified by std
			else return es(*it); } }
	std::string dump(const C& x) {
		std::vector<std::pair<int, int>> v;
		for (auto it = x.begin(); it != x.end(); ++it) { if constexpr (SI::isMap) v.emplace_back(CD::ki((*it).first), CD::mi((*it).second)); else if constexpr (SI::intSet) v.emplace_back(*it, 0); else v.emplace_back((*it).k, (*it).id); }
		if (!SI::isOrdered) std::sort(v.begin(), v.end());
		std::string s = "[";
		for (size_t i = 0; i < v.size(); ++i) s += (i ? "," : "") + E2S(v[i].first, v[i].second);
		return s + "]";
	}
	typename C::const_iterator hintIt(const C& x, int h) {
		if constexpr (SI::isOrdered) { size_t n = x.size(); return std::next(x.begin(), std::min<size_t>(size_t(h), n)); }
		else return (h == 0) ? x.begin() : x.end();
	}
	template<class N> std::string nodeStr(const N& n) {
		if (n.empty()) return "empty";
		if constexpr (SI::isMap) return E2S(CD::ki(n.key()), CD::mi(n.mapped())); else if constexpr (SI::intSet) return E2S(n.value(), 0); else return E2S(n.value().k, n.value().id);
	}
	auto emplaceKV(C& x, int k, int v) {
		if constexpr (SI::ty == 1) { std::string ks = SK(k), ms = SM(v); return x.emplace(ks.c_str(), ms.c_str()); }   // key and mapped built in place from const char*
		else if constexpr (SI::intSet) return x.emplace(k);
		else return x.emplace(k, v);
	}
	auto emplaceHintKV(C& x, typename C::const_iterator h, int k, int v) {
		if constexpr (SI::ty == 1) { std::string ks = SK(k), ms = SM(v); return x.emplace_hint(h, ks.c_str(), ms.c_str()); }
		else if constexpr (SI::intSet) return x.emplace_hint(h, k);
		else return x.emplace_hint(h, k, v);
	}
	template<class F> size_t eraseIf(C& x, F pred) {
#ifdef IMPL_MOMO
		return erase_if(x, [&pred](const auto& r) { return pred(keyOf(r)); });
#else
		size_t n = 0; for (auto it = x.begin(); it != x.end(); ) { if (pred(keyOf(*it))) { it = x.erase(it); ++n; } else ++it; } return n;
#endif
	}

	void op(const Words& w) {
		const std::string& o = w[0]; C& x = *c[I(w, 1) & 1];
		if (o == "ins" || o == "emp") {
			int k = I(w, 2), v = I(w, 3);
			if constexpr (SI::isMulti) { auto it = (o == "ins") ? x.insert(mk(k, v)) : emplaceKV(x, k, v); out << pos(x, it); }
			else { auto r = (o == "ins") ? x.insert(mk(k, v)) : emplaceKV(x, k, v); out << pos(x, r.first) << "," << r.second; }
		} else if (o == "insc") {   // insert(const value_type&)
			if constexpr (CD::copyable) {
			V val(mk(I(w, 2), I(w, 3)));
			if constexpr (SI::isMulti) { auto it = x.insert(val); out << pos(x, it); }
			else { auto r = x.insert(val); out << pos(x, r.first) << "," << r.second; } }
		} else if (o == "insh" || o == "emph") {
			int h = I(w, 2), k = I(w, 3), v = I(w, 4);
			auto it = (o == "insh") ? x.insert(hintIt(x, h), mk(k, v)) : emplaceHintKV(x, hintIt(x, h), k, v);
			out << pos(x, it);
		} else if (o == "empp") {   // piecewise emplace (maps) / emplace of a ready value (sets)
			int k = I(w, 2), v = I(w, 3);
			if constexpr (SI::ty == 1) { std::string ks = SK(k), ms = SM(v);   // key from (const char*), mapped from (pointer, length)
				auto r = x.emplace(std::piecewise_construct, std::forward_as_tuple(ks.c_str()), std::forward_as_tuple(ms.data(), ms.size())); out << pos(x, r.first) << "," << r.second;
			} else if constexpr (SI::isMap) {
				if constexpr (SI::isMulti) { auto it = x.emplace(std::piecewise_construct, std::forward_as_tuple(k), std::forward_as_tuple(v)); out << pos(x, it); }
				else { auto r = x.emplace(std::piecewise_construct, std::forward_as_tuple(k), std::forward_as_tuple(v)); out << pos(x, r.first) << "," << r.second; }
			} else {
				if constexpr (SI::isMulti) { auto it = x.emplace(mk(k, v)); out << pos(x, it); }
				else { auto r = x.emplace(mk(k, v)); out << pos(x, r.first) << "," << r.second; }
			}
		} else if (o == "insr" || o == "insl") { if constexpr (CD::copyable) {
			std::vector<V> vals; for (size_t i = 2; i + 1 < w.size(); i += 2) vals.push_back(V(mk(I(w, i), I(w, i + 1))));
			if (o == "insr") x.insert(vals.begin(), vals.end());
			else switch (vals.size()) {
				case 0: x.insert(std::initializer_list<V>{}); break;
				case 1: x.insert({ vals[0] }); break;
				case 2: x.insert({ vals[0], vals[1] }); break;
				case 3: x.insert({ vals[0], vals[1], vals[2] }); break;
				default: x.insert({ vals[0], vals[1], vals[2], vals[3] }); break; }
			out << "-"; }
		} else if (o == "insm") {   // insert(first,last) through move iterators (works for move-only mapped values)
			if constexpr (SI::isMap) { std::vector<std::pair<typename CD::key, typename CD::mapped>> vals; for (size_t i = 2; i + 1 < w.size(); i += 2) vals.push_back(mk(I(w, i), I(w, i + 1)));
				x.insert(std::make_move_iterator(vals.begin()), std::make_move_iterator(vals.end())); out << "-"; }
		} else if (o == "findh" || o == "cnth" || o == "hash" || o == "eqrh" || o == "lbh" || o == "ubh") {   // heterogeneous lookup with const char*
			if constexpr (SI::ty == 1) {
				std::string ks = SK(I(w, 2)); const C& cx = x;
#if defined(IMPL_MOMO)
				const char* hk = ks.c_str();
#else
				typename std::conditional<SI::isOrdered, const char*, std::string>::type hk = ks.c_str();   // std unordered: no heterogeneous lookup before C++20
#endif
				if (o == "findh") out << pos(x, cx.find(hk));
				else if (o == "cnth") out << cx.count(hk);
				else if (o == "hash") {
#ifdef IMPL_MOMO
					out << int(cx.contains(hk));
#else
					out << int(cx.count(hk) != 0);
#endif
				} else if (o == "eqrh") { auto r = cx.equal_range(hk);
					if constexpr (SI::isOrdered) out << pos(x, r.first) << "," << pos(x, r.second);
					else { out << "{"; for (auto it = r.first; it != r.second; ++it) out << es(*it); out << "}"; } }
				else if (o == "lbh") { if constexpr (SI::isOrdered) out << pos(x, cx.lower_bound(hk)); }
				else { if constexpr (SI::isOrdered) out << pos(x, cx.upper_bound(hk)); }
			}
		} else if (o == "find") { out << pos(x, x.find(mkKey(I(w, 2))));
		} else if (o == "cnt") { out << x.count(mkKey(I(w, 2)));
		} else if (o == "has") {
#ifdef IMPL_MOMO
			out << int(x.contains(mkKey(I(w, 2))));
#else
			out << int(x.count(mkKey(I(w, 2))) != 0);
#endif
		} else if (o == "eqr") {
			auto r = static_cast<const C&>(x).equal_range(mkKey(I(w, 2)));
			if constexpr (SI::isOrdered) out << pos(x, r.first) << "," << pos(x, r.second);
			else { std::vector<std::string> v; for (auto it = r.first; it != r.second; ++it) v.push_back(es(*it));
				std::sort(v.begin(), v.end()); out << "{"; for (size_t i = 0; i < v.size(); ++i) out << (i ? "," : "") << v[i]; out << "}"; }
		} else if (o == "lb") { if constexpr (SI::isOrdered) out << pos(x, x.lower_bound(mkKey(I(w, 2))));
		} else if (o == "ub") { if constexpr (SI::isOrdered) out << pos(x, x.upper_bound(mkKey(I(w, 2))));
		} else if (o == "erk") { out << x.erase(mkKey(I(w, 2)));
		} else if (o == "eri") {     // ordered: erase(begin + pos)
			if constexpr (SI::isOrdered) { size_t p = size_t(I(w, 2)); if (p < x.size()) out << pos(x, x.erase(std::next(x.begin(), p))); else out << "skip"; }
		} else if (o == "err") {     // ordered: erase(begin + i, begin + j)
			if constexpr (SI::isOrdered) { size_t i = size_t(I(w, 2)), j = size_t(I(w, 3)); if (i <= j && j <= x.size())
				out << pos(x, x.erase(std::next(x.begin(), i), std::next(x.begin(), j))); else out << "skip"; }
		} else if (o == "erf") {     // erase(find(k)); multimap: the pair (k,v) located inside equal_range(k)
			int k = I(w, 2), v = I(w, 3);
			auto r = x.equal_range(mkKey(k)); auto it = r.first; bool found = false;
			for (; it != r.second; ++it) { if constexpr (SI::isMulti) { if (es(*it) == E2S(k, v)) { found = true; break; } } else { found = true; break; } }
			if (found) { x.erase(it); out << "ok"; } else out << "none";
		} else if (o == "erre") {    // erase(equal_range(k)) : whole key
			auto r = x.equal_range(mkKey(I(w, 2)));
			try { auto it = x.erase(r.first, r.second); (void)it; out << "ok"; } catch (const std::invalid_argument&) { out << "inv"; }
		} else if (o == "erra") {    // erase(begin, end) : whole container
			try { auto it = x.erase(x.begin(), x.end()); out << (it == x.end() ? "end" : "notend"); } catch (const std::invalid_argument&) { out << "inv"; }
		} else if (o == "err0") {    // empty range at find(k)
			auto it = x.find(mkKey(I(w, 2)));
			try { auto r = x.erase(it, it); out << pos(x, r); } catch (const std::invalid_argument&) { out << "inv"; }
		} else if (o == "err1") {    // single element [it, next(it)) with a TRAVERSABLE it (reached from begin()) at element k[:v]
			int k = I(w, 2), v = I(w, 3); auto it = x.begin();
			for (; it != x.end(); ++it) { if constexpr (SI::isMulti) { if (es(*it) == E2S(k, v)) break; } else { if (keyOf(*it) == k) break; } }
			if (it != x.end()) { try { x.erase(it, std::next(it)); out << "ok"; } catch (const std::invalid_argument&) { out << "inv"; } } else out << "none";
		} else if (o == "at") {
			if constexpr (SI::isMap && !SI::isMulti) { try { if (I(w, 2) & 1) out << CD::mi(x.at(CD::K(I(w, 2)))); else out << CD::mi(static_cast<const C&>(x).at(CD::K(I(w, 2)))); }   // both overloads
				catch (const std::out_of_range&) { out << "oor"; } }
		} else if (o == "idx") { if constexpr (SI::isMap && !SI::isMulti) { const typename CD::key k = CD::K(I(w, 2)); int v = CD::mi(x[k]); out << v; }
		} else if (o == "set") { if constexpr (SI::isMap && !SI::isMulti) { const typename CD::key k = CD::K(I(w, 2)); x[k] = CD::M(I(w, 3)); out << "-"; }
		} else if (o == "setr") { if constexpr (SI::isMap && !SI::isMulti) { typename CD::key k = CD::K(I(w, 2)); x[std::move(k)] = CD::M(I(w, 3)); out << "-"; }
		} else if (o == "try") { if constexpr (SI::isMap && !SI::isMulti) {   // the mapped argument is an rvalue object: it must be left untouched when nothing is inserted
				typename CD::mapped arg = CD::M(I(w, 3)); const typename CD::key k = CD::K(I(w, 2));
				auto r = x.try_emplace(k, std::move(arg)); out << pos(x, r.first) << "," << r.second;
				if constexpr (SI::ty != 0) out << "," << int(CD::mi(arg) == I(w, 3)); }
		} else if (o == "tryr") { if constexpr (SI::isMap && !SI::isMulti) {   // rvalue key + rvalue mapped: both untouched when nothing is inserted
				typename CD::mapped arg = CD::M(I(w, 3)); typename CD::key k = CD::K(I(w, 2));
				auto r = x.try_emplace(std::move(k), std::move(arg)); out << pos(x, r.first) << "," << r.second;
				if constexpr (SI::ty != 0) out << "," << int(CD::mi(arg) == I(w, 3)) << int(CD::ki(k) == I(w, 2) || r.second); }
		} else if (o == "tryh") { if constexpr (SI::isMap && !SI::isMulti) { const typename CD::key k = CD::K(I(w, 3)); auto it = x.try_emplace(hintIt(x, I(w, 2)), k, CD::M(I(w, 4))); out << pos(x, it); }
		} else if (o == "ioa") { if constexpr (SI::isMap && !SI::isMulti) { const typename CD::key k = CD::K(I(w, 2)); auto r = x.insert_or_assign(k, CD::M(I(w, 3))); out << pos(x, r.first) << "," << r.second; }
		} else if (o == "ioah") { if constexpr (SI::isMap && !SI::isMulti) { const typename CD::key k = CD::K(I(w, 3)); auto it = x.insert_or_assign(hintIt(x, I(w, 2)), k, CD::M(I(w, 4))); out << pos(x, it); }
		} else if (o == "ext") { if constexpr (SI::hasNodes) { auto n = x.extract(mkKey(I(w, 2))); out << nodeStr(n); }
		} else if (o == "exti") { if constexpr (SI::hasNodes) {
				if constexpr (SI::isOrdered) { size_t p = size_t(I(w, 2)); if (p < x.size()) { auto n = x.extract(std::next(x.begin(), p)); out << nodeStr(n); } else out << "skip"; }
				else { auto it = x.find(mkKey(I(w, 2))); if (it != x.end()) { auto n = x.extract(it); out << nodeStr(n); } else out << "none"; } }
		} else if (o == "xins" || o == "xinsh") { if constexpr (SI::hasNodes) {   // node = c.extract(k); d.insert([hint,] move(node))
				C& d = *c[I(w, 2) & 1]; auto n = x.extract(mkKey(I(w, 3))); out << nodeStr(n) << ">";
				if (o == "xinsh") { std::string was = nodeStr(n); size_t before = d.size(); auto it = d.insert(hintIt(d, I(w, 4)), std::move(n)); out << pos(d, it) << ",";   // a refused node stays in the caller's handle
#ifdef IMPL_STD
					// libstdc++ 12 unordered_*::insert(hint, node&&) returns _M_reinsert_node(...).position and so destroys a refused node with the temporary
					// insert_return_type; [unord.req] says "nh is unchanged if the insertion fails": the std side prints what the standard mandates
					if constexpr (!SI::isOrdered) out << (d.size() > before ? std::string("empty") : was); else out << nodeStr(n);
#else
					(void)was; (void)before; out << nodeStr(n);
#endif
				}
				else if constexpr (SI::isMulti) { auto it = d.insert(std::move(n)); out << pos(d, it); }
				else { auto r = d.insert(std::move(n)); out << pos(d, r.position) << "," << r.inserted << "," << nodeStr(r.node); } }
		} else if (o == "xmut") { if constexpr (SI::hasNodes) {   // node round trip with the key changed through the handle: n = c.extract(k); n.key() = k2; d.insert(move(n))
				C& d = *c[I(w, 2) & 1]; auto n = x.extract(mkKey(I(w, 3))); out << nodeStr(n) << ">";
				if (!n.empty()) { if constexpr (SI::isMap) n.key() = CD::K(I(w, 4)); else if constexpr (SI::intSet) n.value() = I(w, 4); else n.value() = KI(I(w, 4), n.value().id); }
				if constexpr (SI::isMulti) { auto it = d.insert(std::move(n)); out << pos(d, it); }
				else { auto r = d.insert(std::move(n)); out << pos(d, r.position) << "," << r.inserted << "," << nodeStr(r.node); } }
		} else if (o == "erloop") {   // the std idiom with a TRAVERSABLE iterator: for (it = begin(); it != end(); ) it = pred ? erase(it) : ++it
			int m = std::max(1, I(w, 2)), r = I(w, 3); size_t n = 0, visited = 0;
			for (auto it = x.begin(); it != x.end(); ) { ++visited; if (((keyOf(*it) % m) + m) % m == r) { it = x.erase(it); ++n; } else ++it; }
			out << n << "/" << visited;
		} else if (o == "ernx") {   // erase(traversable iterator at k[:v]) returns the successor: continuing from it visits exactly the elements that followed
			int k = I(w, 2), v = I(w, 3); auto it = x.begin();
			for (; it != x.end(); ++it) { if constexpr (SI::isMulti) { if (es(*it) == E2S(k, v)) break; } else { if (keyOf(*it) == k) break; } }
			if (it == x.end()) out << "none";
			else { std::vector<std::string> after, got; for (auto j = std::next(it); j != x.end(); ++j) after.push_back(es(*j));
				auto r = x.erase(it); for (auto j = r; j != x.end(); ++j) got.push_back(es(*j));
				std::sort(after.begin(), after.end()); std::sort(got.begin(), got.end()); out << (after == got ? "ok" : "BAD"); }
		} else if (o == "mrgm" || o == "mrgt") { if constexpr (S == OSET || S == OMSET || S == OMAP || S == OMMAP) {
				// merge between a unique and a multi container of the same element type: mrgm: x.merge(sibling built from args); mrgt: sibling.merge(x)
				typedef typename Cont<(S == OSET ? OMSET : S == OMSET ? OSET : S == OMAP ? OMMAP : OMAP), false, AK>::type Sib;
				Sib t(x.key_comp(), x.get_allocator());
				for (size_t i = 2; i + 1 < w.size(); i += 2) t.insert(mk(I(w, i), I(w, i + 1)));
				if (o == "mrgm") x.merge(t); else t.merge(x);
				out << "[";  bool first = true; for (auto it = t.begin(); it != t.end(); ++it) { out << (first ? "" : ",") << es(*it); first = false; } out << "]"; }
		} else if (o == "merge") { if constexpr (SI::hasNodes) { C& d = *c[I(w, 2) & 1]; if (&d != &x) x.merge(d); out << "-"; }
		} else if (o == "fill") {   // n insertions with keys base + i*step (crosses the growth / split thresholds of the nested container)
			int n = I(w, 2), base = I(w, 3), step = I(w, 4), v0 = I(w, 5); size_t ins = 0;
			for (int i = 0; i < n; ++i) { if constexpr (SI::isMulti) { x.insert(mk(base + i * step, v0 + i)); ++ins; } else ins += x.insert(mk(base + i * step, v0 + i)).second; }
			out << ins << "/" << x.size();
		} else if (o == "rdump") {   // reverse traversal
			if constexpr (SI::isOrdered) { out << "["; bool f = true; for (auto it = x.rbegin(); it != x.rend(); ++it) { out << (f ? "" : ",") << es(*it); f = false; } out << "]"; }
		} else if (o == "rsvu" || o == "rhs") {   // reserve / rehash: no observable effect on the contents; load factor stays within bounds
			if constexpr (!SI::isOrdered && !SI::isUMM) { if (o == "rsvu") x.reserve(size_t(I(w, 2))); else x.rehash(size_t(I(w, 2)));
				out << int(!(x.load_factor() > x.max_load_factor() + 1e-6f)); }   // (an empty momo container has bucket_count() == 0: not part of the shared contract)
		} else if (o == "emp0") {   // emplace() with no arguments: value-initialised element
			if constexpr (SI::isMap && !SI::isMulti && SI::ty == 0) { auto r = x.emplace(); out << pos(x, r.first) << "," << r.second; }
		} else if (o == "kfn") {   // observers: key_comp / value_comp / hash_function / key_eq
			int a = I(w, 2), b = I(w, 3);
			if constexpr (SI::isOrdered) out << int(x.key_comp()(mkKey(a), mkKey(b))) << int(x.value_comp()(mk(a, 1), mk(b, 2)));
			else { out << int(x.key_eq()(mkKey(a), mkKey(b)));
				if constexpr (S == USET) out << int(x.hash_function()(mkKey(a)) == hmix(hashMode, a) && x.key_eq().tag == 40 + hashMode);        // the functor STATE survives assignment / swap
				else if constexpr (S == UMAP || S == UMMAP || S == MOUMAP) out << int(x.hash_function()(mkKey(a)) == hmix(hashMode, a));
				else out << 1; }
		} else if (o == "mvca" || o == "cpca") {   // allocator-extended move / copy construction (pvCreateSet / pvCreateMap: element-wise when allocators differ)
			int ci = I(w, 1) & 1, di = I(w, 2) & 1, nid = I(w, 3);
			if (ci != di && (o == "mvca" || CD::copyable)) {
				int idd = AllocInfo<A>::id(c[di]->get_allocator());
				std::unique_ptr<C> t;
				if (o == "mvca") t.reset(new C(std::move(*c[di]), AllocInfo<A>::make(nid)));
				else { if constexpr (CD::copyable) t.reset(new C(static_cast<const C&>(*c[di]), AllocInfo<A>::make(nid))); }
				c[ci] = std::move(t); if (o == "mvca") c[di].reset(create(idd, hashMode)); }
			out << "a" << AllocInfo<A>::id(c[ci]->get_allocator());
		} else if (o == "movq") {   // move-assign, then QUERY the moved-from source (size / empty / begin==end / clear) before it is replaced
			int di = I(w, 2) & 1; C& d = *c[di];
			if (&d != &x) { int idd = AllocInfo<A>::id(d.get_allocator()); x = std::move(d);
				out << d.size() << int(d.empty()) << int(d.begin() == d.end()); d.clear(); out << d.size(); c[di].reset(create(idd, hashMode)); } else out << "self";
			out << "a" << AllocInfo<A>::id(c[I(w, 1) & 1]->get_allocator());
		} else if (o == "clr") { x.clear(); out << "-";
		} else if (o == "swap" || o == "swp2") {
			if (!AllocInfo<A>::cs && AllocInfo<A>::id(c[0]->get_allocator()) != AllocInfo<A>::id(c[1]->get_allocator())) out << "skip";
			else { if (o == "swap") c[0]->swap(*c[1]); else { using std::swap; swap(*c[0], *c[1]); } out << "a" << AllocInfo<A>::id(c[0]->get_allocator()) << "a" << AllocInfo<A>::id(c[1]->get_allocator()); }
		} else if (o == "cmp") {
			const C& l = *c[I(w, 1) & 1]; const C& r = *c[I(w, 2) & 1];
			out << int(l == r) << int(l != r);
			if constexpr (SI::isOrdered) out << int(l < r) << int(l <= r) << int(l > r) << int(l >= r);
		} else if (o == "erif") { int m = std::max(1, I(w, 2)), r = I(w, 3); out << eraseIf(x, [m, r](int k) { return ((k % m) + m) % m == r; });
		} else if (o == "cpy") { if constexpr (CD::copyable) { C& d = *c[I(w, 2) & 1]; if (&d != &x) x = d; out << "a" << AllocInfo<A>::id(x.get_allocator()); }
		} else if (o == "mov") { int di = I(w, 2) & 1; C& d = *c[di]; if (&d != &x) { int idd = AllocInfo<A>::id(d.get_allocator()); x = std::move(d); c[di].reset(create(idd, hashMode)); }
			out << "a" << AllocInfo<A>::id(c[I(w, 1) & 1]->get_allocator());
		} else if (o == "cpc") {   // copy construction, then replace the target object
			if constexpr (CD::copyable) { int ci = I(w, 1) & 1; C& d = *c[I(w, 2) & 1]; if (&d != &x) { std::unique_ptr<C> t(new C(d)); c[ci] = std::move(t); } out << "a" << AllocInfo<A>::id(c[ci]->get_allocator()); }
		} else if (o == "mvc") {   // move construction
			int ci = I(w, 1) & 1, di = I(w, 2) & 1; if (ci != di) { int idd = AllocInfo<A>::id(c[di]->get_allocator()); std::unique_ptr<C> t(new C(std::move(*c[di]))); c[ci] = std::move(t); c[di].reset(create(idd, hashMode)); }
			out << "a" << AllocInfo<A>::id(c[ci]->get_allocator());
		} else if (o == "asl") { if constexpr (CD::copyable) {  // operator=(initializer_list)
			std::vector<V> vals; for (size_t i = 2; i + 1 < w.size(); i += 2) vals.push_back(V(mk(I(w, i), I(w, i + 1))));
			switch (vals.size()) { case 0: x = std::initializer_list<V>{}; break; case 1: x = { vals[0] }; break; case 2: x = { vals[0], vals[1] }; break; default: x = { vals[0], vals[1], vals[2] }; break; }
			out << "-"; }
		} else if (o == "sz") { out << x.size() << "," << int(x.empty());
		} else if (o == "dump") { out << dump(x);
		} else out << "?";
	}

	std::string run(const std::vector<Words>& ops, int idA, int idB, int hm) {
		hashMode = hm; c[0].reset(create(idA, hm)); c[1].reset(create(idB, hm));
		for (size_t i = 0; i < ops.size(); ++i) {
			if (i) out << " ";
			try { op(ops[i]); } catch (const std::exception& e) { out << "EXC(" << e.what() << ")"; }
		}
		out << " | " << dump(*c[0]) << " | " << dump(*c[1]);
		c[0].reset(); c[1].reset();
		if (g_allocErr) { out << " ALLOCERR"; g_allocErr = false; }
		if (g_moLive != 0) { out << " MOLEAK"; g_moLive = 0; }
		if (!g_blocks.empty()) { out << " LEAK"; g_blocks.clear(); }
		return out.str();
	}
};

#define IDX(e) ([&] { auto it_ = (e); return it_ - x.begin(); }())
// ------------------------------------------------------------------ vector runner
template<class T> struct VCodec;
template<> struct VCodec<int> { static int mk(int v) { return v; } static int pr(int v) { return v; } };
template<> struct VCodec<std::string> { static std::string mk(int v) { return SM(v); } static int pr(const std::string& s) { return s.empty() ? -1 : SMi(s); } };   // "" (value-initialised) prints as -1: it sorts before every generated value (all >= 0)
#ifdef IMPL_MOMO
template<int AK, class T> struct VecCont { typedef momo::stdish::vector<T, typename PickAlloc<AK, T>::type> type; };
#else
template<int AK, class T> struct VecCont { typedef std::vector<T, typename PickAlloc<AK, T>::type> type; };
#endif
template<int AK, class T = int> struct VecRunner {
	typedef typename VecCont<AK, T>::type C; typedef typename C::allocator_type A; typedef VCodec<T> VC;
	static T MV(int v) { return VC::mk(v); }
	std::unique_ptr<C> c[2]; std::ostringstream out;
	static C* create(int id) { return new C(AllocInfo<A>::make(id)); }
	std::string dump(const C& x) { std::string s = "["; for (size_t i = 0; i < x.size(); ++i) s += (i ? "," : "") + std::to_string(VC::pr(x[i])); return s + "]"; }
	void op(const Words& w) {
		const std::string& o = w[0]; C& x = *c[I(w, 1) & 1]; size_t n = x.size();
		auto at = [&x](int p) { return x.begin() + p; };
		if (o == "pb") { const T v = MV(I(w, 2)); x.push_back(v); out << "-"; }
		else if (o == "pbr") { x.push_back(MV(I(w, 2))); out << "-"; }
		else if (o == "eb") { out << VC::pr(x.emplace_back(MV(I(w, 2)))); }
		else if (o == "insv") { size_t p = size_t(I(w, 2)); if (p <= n) { const T v = MV(I(w, 3)); out << IDX(x.insert(at(p), v)); } else out << "skip"; }
		else if (o == "empv") { size_t p = size_t(I(w, 2)); if (p <= n) out << IDX(x.emplace(at(p), MV(I(w, 3)))); else out << "skip"; }
		else if (o == "insn") { size_t p = size_t(I(w, 2)); if (p <= n) out << IDX(x.insert(at(p), size_t(I(w, 3)), MV(I(w, 4)))); else out << "skip"; }
		else if (o == "insrv" || o == "inslv") { size_t p = size_t(I(w, 2)); std::vector<T> v; for (size_t i = 3; i < w.size(); ++i) v.push_back(MV(I(w, i)));
			if (p <= n) { if (o == "insrv") out << IDX(x.insert(at(p), v.begin(), v.end()));
				else switch (v.size()) { case 0: out << IDX(x.insert(at(p), std::initializer_list<T>{})); break; case 1: out << IDX(x.insert(at(p), { v[0] })); break;
					case 2: out << IDX(x.insert(at(p), { v[0], v[1] })); break; default: out << IDX(x.insert(at(p), { v[0], v[1], v[2] })); break; } } else out << "skip"; }
		else if (o == "insself") { size_t p = size_t(I(w, 2)), q = size_t(I(w, 3)); if (p <= n && q < n) out << IDX(x.insert(at(p), x[q])); else out << "skip"; }   // value aliasing an element
		else if (o == "erv") { size_t p = size_t(I(w, 2)); if (p < n) out << IDX(x.erase(at(p))); else out << "skip"; }
		else if (o == "errv") { size_t i = size_t(I(w, 2)), j = size_t(I(w, 3)); if (i <= j && j <= n) out << IDX(x.erase(at(i), at(j))); else out << "skip"; }
		else if (o == "pop") { if (n > 0) { x.pop_back(); out << "-"; } else out << "skip"; }
		else if (o == "rsz") { x.resize(size_t(I(w, 2))); out << "-"; }
		else if (o == "rszv") { x.resize(size_t(I(w, 2)), MV(I(w, 3))); out << "-"; }
		else if (o == "asg") { x.assign(size_t(I(w, 2)), MV(I(w, 3))); out << "-"; }
		else if (o == "asgr" || o == "asgl") { std::vector<T> v; for (size_t i = 2; i < w.size(); ++i) v.push_back(MV(I(w, i)));
			if (o == "asgr") x.assign(v.begin(), v.end()); else switch (v.size()) { case 0: x.assign(std::initializer_list<T>{}); break; case 1: x.assign({ v[0] }); break; case 2: x.assign({ v[0], v[1] }); break; default: x.assign({ v[0], v[1], v[2] }); break; }
			out << "-"; }
		else if (o == "atv") { try { out << VC::pr(x.at(size_t(I(w, 2)))); } catch (const std::out_of_range&) { out << "oor"; } }
		else if (o == "idxv") { size_t p = size_t(I(w, 2)); if (p < n) out << VC::pr(x[p]); else out << "skip"; }
		else if (o == "setv") { size_t p = size_t(I(w, 2)); if (p < n) { x[p] = MV(I(w, 3)); out << "-"; } else out << "skip"; }
		else if (o == "fb") { if (n > 0) out << VC::pr(x.front()) << "," << VC::pr(x.back()) << "," << VC::pr(*x.data()); else out << "skip"; }
		else if (o == "rsv") { x.reserve(size_t(I(w, 2))); out << int(x.capacity() >= size_t(I(w, 2))); }
		else if (o == "shr") { x.shrink_to_fit(); out << int(x.capacity() >= x.size()); }
		else if (o == "clr") { x.clear(); out << "-"; }
		else if (o == "swap" || o == "swp2") {
			if (!AllocInfo<A>::cs && AllocInfo<A>::id(c[0]->get_allocator()) != AllocInfo<A>::id(c[1]->get_allocator())) out << "skip";
			else { if (o == "swap") c[0]->swap(*c[1]); else { using std::swap; swap(*c[0], *c[1]); } out << "a" << AllocInfo<A>::id(c[0]->get_allocator()) << "a" << AllocInfo<A>::id(c[1]->get_allocator()); } }
		else if (o == "cmp") { const C& l = *c[I(w, 1) & 1]; const C& r = *c[I(w, 2) & 1]; out << int(l == r) << int(l != r) << int(l < r) << int(l <= r) << int(l > r) << int(l >= r); }
		else if (o == "cpy") { C& d = *c[I(w, 2) & 1]; if (&d != &x) x = d; out << "a" << AllocInfo<A>::id(x.get_allocator()); }
		else if (o == "mov") { int di = I(w, 2) & 1; C& d = *c[di]; if (&d != &x) { int idd = AllocInfo<A>::id(d.get_allocator()); x = std::move(d); c[di].reset(create(idd)); } out << "a" << AllocInfo<A>::id(c[I(w, 1) & 1]->get_allocator()); }
		else if (o == "cpc") { int ci = I(w, 1) & 1; C& d = *c[I(w, 2) & 1]; if (&d != &x) { std::unique_ptr<C> t(new C(d)); c[ci] = std::move(t); } out << "a" << AllocInfo<A>::id(c[ci]->get_allocator()); }
		else if (o == "mvc") { int ci = I(w, 1) & 1, di = I(w, 2) & 1; if (ci != di) { int idd = AllocInfo<A>::id(c[di]->get_allocator()); std::unique_ptr<C> t(new C(std::move(*c[di]))); c[ci] = std::move(t); c[di].reset(create(idd)); } out << "a" << AllocInfo<A>::id(c[ci]->get_allocator()); }
		else if (o == "asl") { std::vector<T> v; for (size_t i = 2; i < w.size(); ++i) v.push_back(MV(I(w, i)));
			switch (v.size()) { case 0: x = std::initializer_list<T>{}; break; case 1: x = { v[0] }; break; case 2: x = { v[0], v[1] }; break; default: x = { v[0], v[1], v[2] }; break; } out << "-"; }
		else if (o == "fillv") { int cnt = I(w, 2), v0 = I(w, 3); for (int i = 0; i < cnt; ++i) x.push_back(MV(v0 + i)); out << x.size(); }   // crosses the capacity growth steps
		else if (o == "rdump") { out << "["; bool f = true; for (auto it = x.rbegin(); it != x.rend(); ++it) { out << (f ? "" : ",") << VC::pr(*it); f = false; } out << "]"; }
		else if (o == "ctor") {   // constructors: 0 (n) 1 (n, value) 2 (first, last) 3 init-list 4 (copy, alloc) 5 (move, alloc)
			int ci = I(w, 1) & 1, kind = I(w, 2), aid = AllocInfo<A>::id(c[ci]->get_allocator()); std::unique_ptr<C> t; std::vector<T> v; for (size_t i = 4; i < w.size(); ++i) v.push_back(MV(I(w, i)));
			switch (kind) { case 0: t.reset(new C(size_t(I(w, 3)), AllocInfo<A>::make(aid))); break; case 1: t.reset(new C(size_t(I(w, 3)), MV(I(w, 4)), AllocInfo<A>::make(aid))); break;
				case 2: t.reset(new C(v.begin(), v.end(), AllocInfo<A>::make(aid))); break;
				case 3: if (v.size() >= 2) t.reset(new C({ v[0], v[1] }, AllocInfo<A>::make(aid))); else t.reset(new C(std::initializer_list<T>{}, AllocInfo<A>::make(aid))); break;
				case 4: t.reset(new C(static_cast<const C&>(*c[1 - ci]), AllocInfo<A>::make(I(w, 3)))); break;
				default: { int idd = AllocInfo<A>::id(c[1 - ci]->get_allocator()); t.reset(new C(std::move(*c[1 - ci]), AllocInfo<A>::make(I(w, 3)))); c[1 - ci].reset(create(idd)); } break; }
			c[ci] = std::move(t); out << "a" << AllocInfo<A>::id(c[ci]->get_allocator()); }
		else if (o == "sz") { out << x.size() << "," << int(x.empty()); }
		else if (o == "dump") { out << dump(x); }
		else out << "?";
	}
	std::string run(const std::vector<Words>& ops, int idA, int idB) {
		c[0].reset(create(idA)); c[1].reset(create(idB));
		for (size_t i = 0; i < ops.size(); ++i) { if (i) out << " "; try { op(ops[i]); } catch (const std::exception& e) { out << "EXC(" << e.what() << ")"; } }
		out << " | " << dump(*c[0]) << " | " << dump(*c[1]);
		c[0].reset(); c[1].reset();
		if (g_allocErr) { out << " ALLOCERR"; g_allocErr = false; }
		if (!g_blocks.empty()) { out << " LEAK"; g_blocks.clear(); }
		return out.str();
	}
};

// ------------------------------------------------------------------ wrapper erase(first,last) with iterator kinds (momo only)
#ifdef IMPL_MOMO
template<Shape S, bool OPEN> static std::string runWE(int hm, const std::vector<std::pair<int, int>>& elems, int fpos, int ftrav, int lpos, int ltrav, bool orderOnly, const std::vector<std::pair<int, int>>& expectOrder, bool loopMode = false) {
	typedef Runner<S, OPEN, 0> R; typedef typename R::C C;
	std::unique_ptr<C> x(R::create(0, hm));
	for (auto& e : elems) { if constexpr (S == UMMAP || S == FUMMAP) x->emplace(e.first, e.second); else x->insert(R::mk(e.first, e.second)); }
	std::vector<std::pair<int, int>> order;
	for (auto it = x->begin(); it != x->end(); ++it) { if constexpr (S == USET) order.emplace_back((*it).k, (*it).id); else if constexpr (S == FUSET) order.emplace_back(*it, 0); else order.emplace_back((*it).first, (*it).second); }
	std::ostringstream out;
	if (orderOnly) { for (size_t i = 0; i < order.size(); ++i) out << (i ? " " : "") << E2S(order[i].first, order[i].second); return out.str(); }
	if (order != expectOrder) return "order-mismatch";
	auto makeIt = [&](int p, int trav) -> typename C::const_iterator {
		if (p < 0) return x->end();
		if (trav) return std::next(static_cast<const C&>(*x).begin(), p);
		int k = order[size_t(p)].first; int s = p; while (s > 0 && order[size_t(s - 1)].first == k) --s;
		typename C::const_iterator it = static_cast<const C&>(*x).find(R::mkKey(k));
		for (int i = s; i < p; ++i) ++it;      // walking inside the key keeps the iterator lookup-derived
		return it; };
	if (loopMode) {   // for (it = first; it != end(); ) it = erase(it);
		typename C::const_iterator it = makeIt(fpos, ftrav); size_t n = 0;
		while (it != x->end() && n < 100) { it = x->erase(it); ++n; }
		R rr; out << "n=" << n << " rest=" << rr.dump(*x); return out.str();
	}
	typename C::const_iterator first = makeIt(fpos, ftrav), last = makeIt(lpos, ltrav);
	try {
		auto r = x->erase(first, last);
		R rr; out << "ok ret=" << (r == x->end() ? std::string("end") : rr.es(*r)) << " rest=" << rr.dump(*x);
	} catch (const std::invalid_argument&) { out << "throw"; }
	return out.str();
}
#endif

// ------------------------------------------------------------------ unordered_multimap with identity-tagged keys: == only
#if GROUP == 2
#ifdef IMPL_MOMO
typedef momo::stdish::unordered_multimap<KI, int, KHash, KEq> MMK;
typedef momo::stdish::unordered_multimap_open<KI, int, KHash, KEq> MMKO;
typedef momo::stdish::unordered_map<KI, int, KHash, KEq> UMK;
typedef momo::stdish::unordered_map_open<KI, int, KHash, KEq> UMKO;
#else
typedef std::unordered_multimap<KI, int, KHash, KEq> MMK;
typedef MMK MMKO;
typedef std::unordered_map<KI, int, KHash, KEq> UMK;
typedef UMK UMKO;
#endif
template<class M> static std::string runMMK(const Words& head) {   // mmk|mmko hm k.id.v ... / k.id.v ... [/ erase_if modulus residue]
	int hm = I(head, 1); M a(0, KHash(hm), KEq()), b(0, KHash(hm), KEq()); M* cur = &a; size_t i = 2; int m = 0, r = 0;
	for (; i < head.size(); ++i) {
		if (head[i] == "/") { if (cur == &a) { cur = &b; continue; } m = I(head, i + 1); r = I(head, i + 2); break; }
		int k = 0, id = 0, v = 0; sscanf(head[i].c_str(), "%d.%d.%d", &k, &id, &v); cur->emplace(KI(k, id), v); }
	if (m > 0) {   // leave value-less keys behind in momo: erase_if on both
		auto pred = [m, r](int k) { return k % m == r; };
#ifdef IMPL_MOMO
		erase_if(a, [&pred](const auto& p) { return pred(p.first.k); }); erase_if(b, [&pred](const auto& p) { return pred(p.first.k); });
#else
		for (M* x : { &a, &b }) for (auto it = x->begin(); it != x->end(); ) { if (pred(it->first.k)) it = x->erase(it); else ++it; }
#endif
	}
	std::ostringstream out; out << int(a == b) << int(a != b) << int(b == a) << int(b != a) << " " << a.size() << " " << b.size();
	return out.str();
}
#endif

// ------------------------------------------------------------------ vector: strong guarantee of push_back & co under a throwing copy
#if GROUP == 2
static long g_tcLive = 0, g_tcCopies = 0, g_tcLimit = -1;
struct TC { int v; explicit TC(int x = 0) : v(x) { ++g_tcLive; }
	TC(const TC& o) : v(o.v) { if (g_tcLimit >= 0 && ++g_tcCopies > g_tcLimit) throw std::runtime_error("copy"); ++g_tcLive; }   // no move constructor: relocation copies
	TC& operator=(const TC& o) { v = o.v; return *this; } ~TC() { --g_tcLive; } };
static std::string runPBS(int n, int mode, int extraCap) {
#ifdef IMPL_MOMO
	typedef momo::stdish::vector<TC> VT;
#else
	typedef std::vector<TC> VT;
#endif
	std::string res = "ok"; int tried = 0, threw = 0;
	for (long limit = 0; limit < 3 * n + 8; ++limit) {
		g_tcLimit = -1; g_tcCopies = 0;
		{ VT v; if (extraCap > 0) v.reserve(size_t(n + extraCap - 1)); for (int i = 0; i < n; ++i) v.push_back(TC(i));
			TC x(1000); bool ex = false; size_t capBefore = v.capacity();
			g_tcCopies = 0; g_tcLimit = limit;
			try { switch (mode) { case 0: v.push_back(x); break; case 1: v.emplace_back(x); break; case 2: v.insert(v.end(), x); break;
				default: if (n > 0) v.push_back(v[0]); else v.push_back(x); break; } }
			catch (const std::runtime_error&) { ex = true; }
			g_tcLimit = -1; ++tried; threw += ex;
			bool good = true;
			if (ex) { good = (v.size() == size_t(n)) && (mode == 2 || v.capacity() == capBefore); }   // insert(end(), x): momo grows before the fallible copy, so capacity may change (contents intact) - noted in NOTES.md
			else { good = (v.size() == size_t(n + 1)) && (v[size_t(n)].v == ((mode == 3 && n > 0) ? 0 : 1000)); }
			for (int i = 0; i < n && good; ++i) good = (v[size_t(i)].v == i);
			if (!good) { res = "BAD limit=" + std::to_string(limit) + (ex ? " threw" : " nothrow") + " size=" + std::to_string(v.size()); break; }
			if (!ex) break;   // no copy failed any more: done
		}
		if (g_tcLive != 0) { res = "BAD live=" + std::to_string(g_tcLive) + " after limit=" + std::to_string(limit); g_tcLive = 0; break; }
	}
	if (res == "ok" && g_tcLive != 0) { res = "BAD live=" + std::to_string(g_tcLive); g_tcLive = 0; }
	return res + (threw > 0 || n >= 0 ? "" : "");
}
#endif

// ------------------------------------------------------------------ dispatch
template<Shape S, bool OPEN> static std::string runAssoc(int, const std::vector<Words>& ops, int idA, int idB, int hm) {
	Runner<S, OPEN, 0> r; return r.run(ops, idA, idB, hm);
}
#ifdef ALL_ALLOCS
static const bool allAllocs = true;
#else
static const bool allAllocs = false;
#endif
// MASK: bit k set = allocator kind k instantiated in the quick tier (thorough tier: group 9 adds a second complementary pair per class)
template<Shape S, bool OPEN, int MASK> static std::string runAssocA(int ak, const std::vector<Words>& ops, int idA, int idB, int hm) {
	switch (ak) {
	case 1: if constexpr (((MASK >> 1) & 1) != 0 || allAllocs) { Runner<S, OPEN, 1> r; return r.run(ops, idA, idB, hm); } break;
	case 2: if constexpr (((MASK >> 2) & 1) != 0 || allAllocs) { Runner<S, OPEN, 2> r; return r.run(ops, idA, idB, hm); } break;
	case 3: if constexpr (((MASK >> 3) & 1) != 0 || allAllocs) { Runner<S, OPEN, 3> r; return r.run(ops, idA, idB, hm); } break;
	case 4: if constexpr (((MASK >> 4) & 1) != 0 || allAllocs) { Runner<S, OPEN, 4> r; return r.run(ops, idA, idB, hm); } break;
	case 5: if constexpr (((MASK >> 5) & 1) != 0 || allAllocs) { Runner<S, OPEN, 5> r; return r.run(ops, idA, idB, hm); } break;
	case 6: if constexpr (((MASK >> 6) & 1) != 0 || allAllocs) { Runner<S, OPEN, 6> r; return r.run(ops, idA, idB, hm); } break;
	case 7: if constexpr (((MASK >> 7) & 1) != 0 || allAllocs) { Runner<S, OPEN, 7> r; return r.run(ops, idA, idB, hm); } break;
	case 8: if constexpr (((MASK >> 8) & 1) != 0 || allAllocs) { Runner<S, OPEN, 8> r; return r.run(ops, idA, idB, hm); } break;
	default: break; }
	return "nokind";
}
template<class T> static std::string runVecT(int ak, const std::vector<Words>& ops, int idA, int idB) {
	switch (ak) {
	case 0: { VecRunner<0, T> r; return r.run(ops, idA, idB); }
	case 1: { VecRunner<1, T> r; return r.run(ops, idA, idB); }
	case 2: { VecRunner<2, T> r; return r.run(ops, idA, idB); }
	case 3: { VecRunner<3, T> r; return r.run(ops, idA, idB); }
	case 4: { VecRunner<4, T> r; return r.run(ops, idA, idB); }
	case 5: { VecRunner<5, T> r; return r.run(ops, idA, idB); }
	case 6: { VecRunner<6, T> r; return r.run(ops, idA, idB); }
	case 7: { VecRunner<7, T> r; return r.run(ops, idA, idB); }
	case 8: { VecRunner<8, T> r; return r.run(ops, idA, idB); }
	default: return "nokind"; }
}

// ------------------------------------------------------------------ which classes are really instantiated (checked by prop.py, and statically)
#ifdef IMPL_MOMO
template<class B> struct BK { static const int id = 0; };
template<class IT, size_t M, class P, bool U> struct BK<momo::internal::BucketLimP4<IT, M, P, U>> { static const int id = U ? 11 : 10; };
template<class IT, size_t M, bool U> struct BK<momo::internal::BucketOpen2N2<IT, M, U>> { static const int id = U ? 21 : 20; };
template<class IT> struct BK<momo::internal::BucketOpen8<IT>> { static const int id = 30; };
template<class HS> static const char* bucketName() { switch (BK<typename HS::Bucket>::id) { case 10: return "LimP4<hashCodePart=0>"; case 11: return "LimP4<hashCodePart=1>";
	case 20: return "Open2N2<hashCodePart=0>"; case 21: return "Open2N2<hashCodePart=1>"; case 30: return "Open8"; default: return "?"; } }
template<class C> struct NestedSet { typedef typename C::nested_container_type type; };                                   // unordered_set -> HashSet
template<class C> struct NestedMapSet { typedef typename C::nested_container_type::HashSet type; };                       // unordered_map -> HashMap::HashSet
template<class C> struct NestedMMapSet { typedef typename C::nested_container_type::HashMap::HashSet type; };             // unordered_multimap -> HashMultiMap::HashMap::HashSet
#if GROUP == 1
static_assert(BK<NestedSet<Cont<USET, false, 0>::type>::type::Bucket>::id == 11, "custom hash functor: LimP4 with hash-code parts");
static_assert(BK<NestedSet<Cont<USET, true, 0>::type>::type::Bucket>::id == 21, "custom hash functor: the Open8 default falls back to Open2N2");
static_assert(BK<NestedMapSet<Cont<UMAP, false, 0>::type>::type::Bucket>::id == 11, "");
static_assert(BK<NestedMapSet<Cont<UMAP, true, 0>::type>::type::Bucket>::id == 21, "");
#elif GROUP == 6
static_assert(BK<NestedSet<Cont<FUSET, false, 0>::type>::type::Bucket>::id == 10, "default hash of int: LimP4 without hash-code parts");
static_assert(BK<NestedSet<Cont<FUSET, true, 0>::type>::type::Bucket>::id == 30, "default hash of int, small item: really BucketOpen8");
static_assert(BK<NestedMapSet<Cont<FUMAP, false, 0>::type>::type::Bucket>::id == 10, "");
static_assert(BK<NestedMapSet<Cont<FUMAP, true, 0>::type>::type::Bucket>::id == 30, "");
static_assert(BK<NestedMMapSet<Cont<FUMMAP, false, 0>::type>::type::Bucket>::id == 10, "");
#elif GROUP == 5
static_assert(!std::is_copy_constructible<MO>::value && std::is_nothrow_move_constructible<MO>::value, "move-only mapped type");
static_assert(!std::is_copy_constructible<Cont<MOMAP, false, 0>::type::value_type>::value, "");
#elif GROUP == 7
static_assert(std::is_same<Cont<UMAP, false, 6>::type::allocator_type, SA<PII, true, false, false>>::value, "");
static_assert(std::is_same<Cont<USET, false, 3>::type::nested_container_type::MemManager, momo::MemManagerStd<SA<KI, true, false, true>>>::value, "stateful allocator reaches the nested container");
#endif
static std::string typesLine() {
	std::string r;
#if GROUP == 1
	r += std::string("uset=") + bucketName<NestedSet<Cont<USET, false, 0>::type>::type>() + " uset_o=" + bucketName<NestedSet<Cont<USET, true, 0>::type>::type>()
		+ " umap=" + bucketName<NestedMapSet<Cont<UMAP, false, 0>::type>::type>() + " umap_o=" + bucketName<NestedMapSet<Cont<UMAP, true, 0>::type>::type>();
#elif GROUP == 2
	r += std::string("ummap=") + bucketName<NestedMMapSet<Cont<UMMAP, false, 0>::type>::type>() + " ummap_o=" + bucketName<NestedMMapSet<Cont<UMMAP, true, 0>::type>::type>();
#elif GROUP == 5
	r += std::string("sumap=") + bucketName<NestedMapSet<Cont<SUMAP, false, 0>::type>::type>() + " moumap=" + bucketName<NestedMapSet<Cont<MOUMAP, false, 0>::type>::type>();
#elif GROUP == 6
	r += std::string("usetf=") + bucketName<NestedSet<Cont<FUSET, false, 0>::type>::type>() + " usetf_o=" + bucketName<NestedSet<Cont<FUSET, true, 0>::type>::type>()
		+ " umapf=" + bucketName<NestedMapSet<Cont<FUMAP, false, 0>::type>::type>() + " umapf_o=" + bucketName<NestedMapSet<Cont<FUMAP, true, 0>::type>::type>()
		+ " ummapf=" + bucketName<NestedMMapSet<Cont<FUMMAP, false, 0>::type>::type>() + " ummapf_o=" + bucketName<NestedMMapSet<Cont<FUMMAP, true, 0>::type>::type>();
#endif
	return r.empty() ? "-" : r;
}
#endif

int main()
{
	std::string line;
	while (std::getline(std::cin, line)) {
		std::vector<Words> segs; { std::istringstream ls(line); std::string seg;
			while (std::getline(ls, seg, ';')) { std::istringstream is(seg); Words w; std::string t; while (is >> t) w.push_back(t); if (!w.empty()) segs.push_back(w); } }
		if (segs.empty()) { puts("?"); continue; }
		Words head = segs[0]; std::string res = "nokind";
#ifdef IMPL_MOMO
		if (head[0] == "types") { puts(typesLine().c_str()); continue; }
		if (head[0] == "we" || head[0] == "ord" || head[0] == "wl") {   // we|ord kind hm n k:v ... [/ fpos ftrav lpos ltrav]
			std::string kind = head[1]; int hm = I(head, 2); std::vector<std::pair<int, int>> el; size_t i = 3;
			for (; i < head.size() && head[i] != "/"; ++i) { int k = 0, v = 0; sscanf(head[i].c_str(), "%d:%d", &k, &v); el.emplace_back(k, v); }
			int a = I(head, i + 1), b = I(head, i + 2), c = I(head, i + 3), d = I(head, i + 4); bool oo = (head[0] == "ord");
			std::vector<std::pair<int, int>> eo; for (size_t j = i + 6; j < head.size(); ++j) { int k = 0, v = 0; sscanf(head[j].c_str(), "%d:%d", &k, &v); eo.emplace_back(k, v); }
#if GROUP == 1
			if (kind == "uset") res = runWE<USET, false>(hm, el, a, b, c, d, oo, eo, head[0] == "wl");
			else if (kind == "uset_o") res = runWE<USET, true>(hm, el, a, b, c, d, oo, eo, head[0] == "wl");
			else if (kind == "umap") res = runWE<UMAP, false>(hm, el, a, b, c, d, oo, eo, head[0] == "wl");
			else if (kind == "umap_o") res = runWE<UMAP, true>(hm, el, a, b, c, d, oo, eo, head[0] == "wl");
#elif GROUP == 2
			if (kind == "ummap") res = runWE<UMMAP, false>(hm, el, a, b, c, d, oo, eo, head[0] == "wl");
			else if (kind == "ummap_o") res = runWE<UMMAP, true>(hm, el, a, b, c, d, oo, eo, head[0] == "wl");
#elif GROUP == 6
			if (kind == "usetf") res = runWE<FUSET, false>(hm, el, a, b, c, d, oo, eo, head[0] == "wl");
			else if (kind == "usetf_o") res = runWE<FUSET, true>(hm, el, a, b, c, d, oo, eo, head[0] == "wl");
			else if (kind == "umapf_o") res = runWE<FUMAP, true>(hm, el, a, b, c, d, oo, eo, head[0] == "wl");
			else if (kind == "ummapf") res = runWE<FUMMAP, false>(hm, el, a, b, c, d, oo, eo, head[0] == "wl");
			else if (kind == "ummapf_o") res = runWE<FUMMAP, true>(hm, el, a, b, c, d, oo, eo, head[0] == "wl");
#endif
			puts(res.c_str()); continue;
		}
#endif
#if GROUP == 2
		if (head[0] == "pbs") { puts(runPBS(I(head, 1), I(head, 2), I(head, 3)).c_str()); continue; }
		if (head[0] == "mmk") { puts(runMMK<MMK>(head).c_str()); continue; }
		if (head[0] == "mmko") { puts(runMMK<MMKO>(head).c_str()); continue; }
		if (head[0] == "umk") { puts(runMMK<UMK>(head).c_str()); continue; }     // unordered_map with identity-tagged keys (key_eq coarser than ==)
		if (head[0] == "umko") { puts(runMMK<UMKO>(head).c_str()); continue; }
#endif
		std::string kind = head[0]; int ak = I(head, 1), idA = I(head, 2), idB = I(head, 3), hm = I(head, 4);
		std::vector<Words> ops(segs.begin() + 1, segs.end());
#if GROUP == 1
		if (kind == "uset") res = runAssoc<USET, false>(0, ops, idA, idB, hm);
		else if (kind == "uset_o") res = runAssoc<USET, true>(0, ops, idA, idB, hm);
		else if (kind == "umap") res = runAssoc<UMAP, false>(0, ops, idA, idB, hm);
		else if (kind == "umap_o") res = runAssoc<UMAP, true>(0, ops, idA, idB, hm);
#elif GROUP == 2
		if (kind == "ummap") res = runAssoc<UMMAP, false>(0, ops, idA, idB, hm);
		else if (kind == "ummap_o") res = runAssoc<UMMAP, true>(0, ops, idA, idB, hm);
		else if (kind == "vec") res = runVecT<int>(ak, ops, idA, idB);
		else if (kind == "svec") res = runVecT<std::string>(ak == 0 ? 0 : 3, ops, idA, idB);
#elif GROUP == 3
		if (kind == "set") res = runAssoc<OSET, false>(0, ops, idA, idB, hm);
		else if (kind == "mset") res = runAssoc<OMSET, false>(0, ops, idA, idB, hm);
#elif GROUP == 4
		if (kind == "map") res = runAssoc<OMAP, false>(0, ops, idA, idB, hm);
		else if (kind == "mmap") res = runAssoc<OMMAP, false>(0, ops, idA, idB, hm);
#elif GROUP == 5
		if (kind == "smap") res = runAssoc<SMAP, false>(0, ops, idA, idB, hm);
		else if (kind == "sumap") res = runAssoc<SUMAP, false>(0, ops, idA, idB, hm);
		else if (kind == "momap") res = runAssoc<MOMAP, false>(0, ops, idA, idB, hm);
		else if (kind == "moumap") res = runAssoc<MOUMAP, false>(0, ops, idA, idB, hm);
#elif GROUP == 6
		if (kind == "usetf") res = runAssoc<FUSET, false>(0, ops, idA, idB, hm);
		else if (kind == "usetf_o") res = runAssoc<FUSET, true>(0, ops, idA, idB, hm);
		else if (kind == "umapf") res = runAssoc<FUMAP, false>(0, ops, idA, idB, hm);
		else if (kind == "umapf_o") res = runAssoc<FUMAP, true>(0, ops, idA, idB, hm);
		else if (kind == "ummapf") res = runAssoc<FUMMAP, false>(0, ops, idA, idB, hm);
		else if (kind == "ummapf_o") res = runAssoc<FUMMAP, true>(0, ops, idA, idB, hm);
#elif GROUP == 7
		if (kind == "uset") res = runAssocA<USET, false, (1 << 1) | (1 << 2)>(ak, ops, idA, idB, hm);
		else if (kind == "umap") res = runAssocA<UMAP, false, (1 << 6) | (1 << 7)>(ak, ops, idA, idB, hm);
		else if (kind == "ummap") res = runAssocA<UMMAP, false, (1 << 3) | (1 << 4)>(ak, ops, idA, idB, hm);
#elif GROUP == 8
		if (kind == "mset") res = runAssocA<OMSET, false, (1 << 5) | (1 << 8)>(ak, ops, idA, idB, hm);
		else if (kind == "map") res = runAssocA<OMAP, false, (1 << 1) | (1 << 2)>(ak, ops, idA, idB, hm);
#elif GROUP == 9   // thorough tier: a second complementary pair of allocator kinds per wrapper class
		if (kind == "uset") res = runAssocA<USET, false, (1 << 3) | (1 << 4)>(ak, ops, idA, idB, hm);
		else if (kind == "umap") res = runAssocA<UMAP, false, (1 << 5) | (1 << 8)>(ak, ops, idA, idB, hm);
		else if (kind == "ummap") res = runAssocA<UMMAP, false, (1 << 1) | (1 << 2)>(ak, ops, idA, idB, hm);
		else if (kind == "mset") res = runAssocA<OMSET, false, (1 << 6) | (1 << 7)>(ak, ops, idA, idB, hm);
		else if (kind == "map") res = runAssocA<OMAP, false, (1 << 3) | (1 << 4)>(ak, ops, idA, idB, hm);
#endif
		puts(res.c_str());
	}
	return 0;
}
