def gen_cases(r, scale): return []
def correspond(ctx, exe, model_exe, cases): return [], []
