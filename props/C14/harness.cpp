// C14 harness: real momo containers / stdish wrappers with kit managers, allocators and elements.
// One case per input line, one output line per case:   <tie part> | <oracle part>
// Each case runs in a forked child (two of the scenarios abort by design: known findings D12/D13).
//
//   case  =  <traits: N | 0..7 (POCCA*4+POCMA*2+POCS) | 8 (std::allocator) | 16..23 (throwing allocator assignment)> <kind> <op> <sstate> <tstate> <sid> <tid> <aid> <post>
//   kind  :  native TU (-DNATIVE): HashSetInl TreeSetInl (inline crew, stateful traits: ids are traits states) Array ArrayIC Seg HashSet HashMap HashMulti TreeSet TreeMap
//            wrapper TU (-DTRAITS=k): vec set mset map mmap uset umap ummap
//   op    :  copyc copyca movec moveca copya movea swap selfcopya selfmovea selfswap none merge(TreeSet/TreeMap, empty target)
//   state :  e | n<k> | c<k> (k inserted, all erased) | g<k> (hash: growth refused -> overloaded table) | h<k> (hash: relocation interrupted -> several generations) |
//            d<k> (deep tree) | v<k> (multimap: every 2nd key value-less) | i<k> (internal capacity)
//   post  :  none clear swapf fswap massign cassign reuse       (applied to the source S after op; F = fresh, id aid)
//
//   tie part   : ok T=<id|null|-> S=<id|null> tc=<..> sc=<..> mv=<0|1> cp=<0|1> S2=<id|null> s2c=<..> F=<id|null|-> fc=<..> E=<0|1>
//                or `abort`
//   oracle part: orc=ok | orc=<what is wrong>   [+ " nt" when the case exercised an unusual internal state]
#include "private_access.h"
#include "kit.h"
#include <unistd.h>
#include <fcntl.h>
#include <sys/wait.h>
#include <sys/resource.h>
#include <momo/Array.h>
#include <momo/SegmentedArray.h>
#include <momo/HashSet.h>
#include <momo/HashMap.h>
#include <momo/HashMultiMap.h>
#include <momo/TreeSet.h>
#include <momo/TreeMap.h>
#ifdef NATIVE
#include <momo/DataTable.h>
#endif
#ifndef NATIVE
#include <momo/stdish/vector.h>
#include <momo/stdish/set.h>
#include <momo/stdish/map.h>
#include <momo/stdish/unordered_set.h>
#include <momo/stdish/unordered_map.h>
#include <momo/stdish/unordered_multimap.h>
#endif
using namespace kit;
// element category of the native binaries (round 5): 0 = trivially relocatable (+ a manager with Reallocate), 1 = nothrow move,
// 2 = copy-only (moving IS copying), 4 = self-move-hostile.  Wrapper binaries always use 1.
#ifndef ELEMCAT
#define ELEMCAT 1
#endif
#if ELEMCAT == 0
typedef ElemTriv E;
#define MM MMR                      /* the manager of this binary also offers Reallocate (Array grows by realloc) */
#define NATIVE_TOKEN "Nt"
#elif ELEMCAT == 2
typedef ElemCpy E;
#define NATIVE_TOKEN "Nc"
#elif ELEMCAT == 4
typedef ElemSmh E;
#define NATIVE_TOKEN "Ns"
#else
typedef ElemNtm E;
#define NATIVE_TOKEN "N"
#endif
static const bool kMovable = (ELEMCAT != 2);      // copy-only elements are copied whenever they are relocated
static const bool kTracked = (ELEMCAT != 0);      // ElemTriv is plain data: kit does not count its copies / moves
typedef std::vector<int64_t> Vals;

static std::string show(const Vals& v)
{
	if (v.size() > 16) { int64_t sum = 0; for (int64_t x : v) sum += x; return "#" + std::to_string(v.size()) + ":" + std::to_string(sum); }
	std::string s = "[";
	for (size_t i = 0; i < v.size(); ++i) { if (i) s += ","; s += std::to_string(v[i]); }
	return s + "]";
}
static std::string idstr(int id) { return id < 0 ? std::string(id == -1 ? "null" : "-") : std::to_string(id); }

// ------------------------------------------------------------------------------------------- adapters
// id(): -1 = moved-from (null crew).  contents(): sorted keys (mapped values must equal key + 7 -> flag otherwise).
static bool g_value_error = false;
static bool g_unusual = false;
// raw fields of both operands before / after a Swap, move construction or move assignment, for the direct run of the GENERATED
// Swap / MoveCtor (stage corr:generated-vs-code); values are renamed injectively (null / 0 -> 0, others by first appearance)
static std::string g_gh;
static int64_t g_base = 1000;


// ---- structure descriptions (round 2): the object graph behind a container, as a string without blanks
//   hash : H<items in newest bucket array>.<next>...      (H = no bucket array)
//   tree : T<node params present>:<depth>.<items>,...     nodes in preorder
//   multi: M<bucket arrays of the key map>:<keys>.<value-less keys>
//   table: D<rows>.<raws waiting in the crew's freeRaws list>
template<typename HS> static std::string hash_structure(const HS& hs)
{
	std::string r = "H"; bool first = true;
	for (auto* bk = hs.mBuckets; bk != nullptr; bk = bk->GetNextBuckets())
	{
		size_t n = 0; auto& params = bk->GetBucketParams();
		for (auto& bucket : *bk) n += bucket.GetBounds(params).GetCount();
		if (!first) r += "."; first = false; r += std::to_string(n);
	}
	return r;
}
template<typename Node> static void tree_walk(Node* node, int depth, std::string& r)
{
	if (r.back() != ':') r += ",";
	r += std::to_string(depth) + "." + std::to_string(node->GetCount());
	if (!node->IsLeaf()) for (size_t i = 0; i <= node->GetCount(); ++i) tree_walk(node->GetChild(i), depth + 1, r);
}
template<typename TS> static std::string tree_structure(const TS& ts)
{
	std::string r = std::string("T") + (ts.mNodeParams != nullptr ? "1" : "0") + ":";
	if (ts.mRootNode != nullptr) tree_walk(ts.mRootNode, 0, r);
	return r;
}

// node pools: how many live nodes were allocated from this set's NodeParams (internal + leaf pools) vs nodes in its tree
template<typename Node> static size_t tree_count_nodes(Node* node)
{
	size_t n = 1;
	if (!node->IsLeaf()) for (size_t i = 0; i <= node->GetCount(); ++i) n += tree_count_nodes(node->GetChild(i));
	return n;
}
template<typename TS> static bool tree_pools_own_nodes(const TS& ts, std::string& what)
{
	size_t nodes = ts.mRootNode != nullptr ? tree_count_nodes(ts.mRootNode) : 0, pooled = 0;
	if (ts.mNodeParams != nullptr)
	{
		pooled = ts.mNodeParams->mInternalMemPool.GetAllocateCount();
		for (size_t i = 0; i < ts.mNodeParams->mLeafMemPools.GetCount(); ++i) pooled += ts.mNodeParams->mLeafMemPools[i].GetAllocateCount();
	}
	if (nodes != pooled) { what = "tree-has-" + std::to_string(nodes) + "-nodes-but-its-pools-hold-" + std::to_string(pooled); return false; }
	return true;
}
template<typename MM_> static std::string multi_structure(const MM_& mm)
{
	size_t gens = 0; for (auto* bk = mm.mHashMap.mHashSet.mBuckets; bk != nullptr; bk = bk->GetNextBuckets()) ++gens;
	size_t keys = 0, vl = 0;
	for (auto ref : mm.GetKeyBounds()) { ++keys; if (ref.GetCount() == 0) ++vl; }
	return "M" + std::to_string(gens) + ":" + std::to_string(keys) + "." + std::to_string(vl);
}

// stateful traits (hash seed / comparison direction): the state must travel with every assignment, incl. `= {...}`
struct SeedHash
{
	int seed; explicit SeedHash(int s = 0) : seed(s) {}
	size_t operator()(const E& e) const { return size_t((uint64_t(e.Value()) * 0x9E3779B97F4A7C15ull) ^ (uint64_t(seed) * 0xC2B2AE3D27D4EB4Full)) >> (seed % 7); }
};
struct PlainEq { bool operator()(const E& a, const E& b) const { return a.Value() == b.Value(); } };
struct DirLess
{
	int id; explicit DirLess(int i = 1) : id(i) {}
	bool desc() const { return id % 2 == 0; }
	bool operator()(const E& a, const E& b) const { return desc() ? b.Value() < a.Value() : a.Value() < b.Value(); }
};

template<typename C> struct SeqAd      // Array / SegmentedArray / stdish::vector
{
	static const bool crew = false; static const bool multi = true;
};

#ifdef NATIVE

// ---- bucket classes (round 5).  momo picks the bucket class from the traits: a custom hash functor (HashTraitsStd<E, kit::Hash>)
// is "slow" -> BucketLimP4 with stored hash-code parts resp. the BucketOpen2N2 fallback of HashBucketOpen8; only a key that
// is declared fast-hashable and uses HashCoder/std::hash gets the real BucketOpen8 (and the noexcept relocation path).
namespace std { template<> struct hash<E> { size_t operator()(const E& e) const noexcept { return size_t(uint64_t(e.Value()) * 0x9E3779B97F4A7C15ull); } }; }
namespace momo { template<> struct IsFastNothrowHashable<E> : public std::true_type {}; }
#define TRAITS_IS_STATEFUL true
typedef MM Mgr;
template<typename C> static int mm_id(const C& c) { return c.GetMemManager().GetId(); }

template<typename C, bool IsSeg> struct NatSeq
{
	typedef C Cont; static const bool crew = false, multi = true, alloc_move_ctor = false, is_stdish = false;
	static C make(int id) { return C(MM(id)); }
	static void ins(C& c, int64_t v) { c.AddBack(E(v)); }
	static void erase_all(C& c) { while (c.GetCount() > 0) c.RemoveBack(); }
	static void erase1(C& c, int64_t) { c.RemoveBack(); }
	static Vals contents(const C& c) { Vals r; for (const E& e : c) r.push_back(e.Value()); std::sort(r.begin(), r.end()); return r; }
	static int id(const C& c) { return mm_id(c); }
	static size_t count(const C& c) { return c.GetCount(); }
	static void clear(C& c) { c.Clear(); }
	static void swap(C& a, C& b) { a.Swap(b); }
	static C copy_with(const C& c, int id) { return C(c, MM(id)); }
	static C move_with(C&& c, int) { return C(std::move(c)); }
	static void unusual(C&, char, int) {}
	static std::string structure(const C&) { return "A"; }
	static bool find(const C& c, int64_t x) { for (const E& e : c) if (e.Value() == x) return true; return false; }
};
typedef momo::Array<E, MM> NArray;
typedef momo::Array<E, MM, momo::ArrayItemTraits<E, MM>, momo::ArraySettings<4>> NArrayIC;
typedef momo::SegmentedArray<E, MM> NSeg;

template<typename C, typename El> struct NatSet
{
	typedef C Cont; static const bool crew = true, multi = false, alloc_move_ctor = false, is_stdish = false;
	static void ins(C& c, int64_t v) { c.Insert(El(v)); }
	static void erase_all(C& c) { Vals k = contents(c); for (int64_t v : k) c.Remove(El(v)); }
	static void erase1(C& c, int64_t v) { c.Remove(El(v)); }
	static Vals contents(const C& c) { Vals r; for (const El& e : c) r.push_back(e.Value()); std::sort(r.begin(), r.end()); return r; }
	static int id(const C& c) { return c.mCrew.mData == nullptr ? -1 : mm_id(c); }
	static size_t count(const C& c) { return c.GetCount(); }
	static void clear(C& c) { c.Clear(); }
	static void swap(C& a, C& b) { a.Swap(b); }
	static C copy_with(const C& c, int id) { return C(c, MM(id)); }
	static C move_with(C&& c, int) { return C(std::move(c)); }
};
typedef momo::HashTraitsStd<E, Hash, Eq> HTraits;
typedef momo::HashSet<E, HTraits, MM> NHashSet;
typedef momo::TreeTraits<E, false, momo::TreeNode<4, 2>> TTraits;      // empty traits class: enables the MergeTo fast paths (c7fda03)
typedef momo::TreeSet<E, TTraits, MM> NTreeSet;

template<typename C> static void overload_hash(C& c, int n, int64_t base);
struct AdHashSet : NatSet<NHashSet, E>
{
	static NHashSet make(int id) { return NHashSet(HTraits(), MM(id)); }
	static std::vector<const void*> handles(const NHashSet& c) { return { c.mCrew.mData, c.mBuckets, (const void*)c.mCount, (const void*)c.mCapacity }; }
	static std::string structure(const NHashSet& c) { return hash_structure(c); }
	static bool find(const NHashSet& c, int64_t v) { return c.ContainsKey(E(v)); }
	static void unusual(NHashSet& c, char kind, int n);
};
struct AdTreeSet : NatSet<NTreeSet, E>
{
	static NTreeSet make(int id) { return NTreeSet(TTraits(), MM(id)); }
	static std::vector<const void*> handles(const NTreeSet& c) { return { c.mCrew.mData, c.mRootNode, c.mNodeParams, (const void*)c.mCount }; }
	static std::string structure(const NTreeSet& c) { return tree_structure(c); }
	static void merge(NTreeSet& dst, NTreeSet& src) { dst.MergeFrom(src); }
	static bool pools_ok(const NTreeSet& c, std::string& w) { return tree_pools_own_nodes(c, w); }
	static bool find(const NTreeSet& c, int64_t v) { return c.ContainsKey(E(v)); }
	static void unusual(NTreeSet&, char, int) { g_unusual = true; }
};


typedef momo::HashTraits<E, momo::HashBucketOpen8> FTraits;                      // fast hash -> the real BucketOpen8
typedef momo::HashSet<E, FTraits, MM> NHashSetFast;
typedef momo::HashTraitsStd<E, Hash, Eq, momo::HashBucketOpen8> O2Traits;        // custom functor -> BucketOpen2N2<3> fallback
typedef momo::HashSet<E, O2Traits, MM> NHashSetOpen2;
struct AdHashSetFast : NatSet<NHashSetFast, E>
{
	static NHashSetFast make(int id) { return NHashSetFast(FTraits(), MM(id)); }
	static std::string structure(const NHashSetFast& c) { return hash_structure(c); }
	static bool find(const NHashSetFast& c, int64_t v) { return c.ContainsKey(E(v)); }
	static void unusual(NHashSetFast&, char, int) {}
};
struct AdHashSetOpen2 : NatSet<NHashSetOpen2, E>
{
	static NHashSetOpen2 make(int id) { return NHashSetOpen2(O2Traits(), MM(id)); }
	static std::string structure(const NHashSetOpen2& c) { return hash_structure(c); }
	static bool find(const NHashSetOpen2& c, int64_t v) { return c.ContainsKey(E(v)); }
	static void unusual(NHashSetOpen2&, char, int) {}
};
// the INTENDED classes are really instantiated
static_assert(std::is_same<NHashSetFast::Bucket, momo::internal::BucketOpen8<NHashSetFast::BucketItemTraits>>::value, "HashSetFast must use BucketOpen8");
static_assert(std::is_same<NHashSetOpen2::Bucket, momo::internal::BucketOpen2N2<NHashSetOpen2::BucketItemTraits, 3, true>>::value, "HashSetOpen2 must use the Open2N2 fallback");
static_assert(NHashSet::Bucket::maxCount == 4 && !HTraits::isFastNothrowHashable, "HashSet: BucketLimP4<4> with hash-code parts (slow hash)");
static_assert(NTreeSet::Node::maxCapacity == 4, "native trees use 4-item nodes");
static_assert(NArrayIC::internalCapacity == 4 && NArray::internalCapacity == 0, "ArrayIC has an internal buffer of 4");
static_assert(!std::is_base_of<HTraits, decltype(NHashSet::mCrew)>::value && !std::is_base_of<TTraits, decltype(NTreeSet::mCrew)>::value, "stateful manager -> pointer crew");
static_assert(momo::IsTriviallyRelocatable<E>::value == (ELEMCAT == 0), "only the TRIV category is relocated by memcpy");
static_assert(std::is_nothrow_move_constructible<E>::value == (ELEMCAT == 1 || ELEMCAT == 4 || ELEMCAT == 0), "CPY: move may throw (it copies)");
static_assert(momo::internal::MemManagerProxy<MM>::canReallocate == (ELEMCAT == 0), "the TRIV binary's manager offers Reallocate");

template<typename C> struct NatMap
{
	typedef C Cont; static const bool crew = true, multi = false, alloc_move_ctor = false, is_stdish = false;
	static void ins(C& c, int64_t v) { c.Insert(E(v), E(v + 7)); }
	static void erase_all(C& c) { Vals k = contents(c); for (int64_t v : k) c.Remove(E(v)); }
	static void erase1(C& c, int64_t v) { c.Remove(E(v)); }
	static Vals contents(const C& c)
	{
		Vals r;
		for (auto ref : c) { r.push_back(ref.key.Value()); if (ref.value.Value() != ref.key.Value() + 7) g_value_error = true; }
		std::sort(r.begin(), r.end()); return r;
	}
	static size_t count(const C& c) { return c.GetCount(); }
	static void clear(C& c) { c.Clear(); }
	static void swap(C& a, C& b) { a.Swap(b); }
	static C copy_with(const C& c, int id) { return C(c, MM(id)); }
	static C move_with(C&& c, int) { return C(std::move(c)); }
};
typedef momo::HashMap<E, E, HTraits, MM> NHashMap;
typedef momo::TreeMap<E, E, TTraits, MM> NTreeMap;
typedef momo::HashMultiMap<E, E, HTraits, MM> NHashMulti;
struct AdHashMap : NatMap<NHashMap>
{
	static NHashMap make(int id) { return NHashMap(HTraits(), MM(id)); }
	static std::string structure(const NHashMap& c) { return hash_structure(c.mHashSet); }
	static bool find(const NHashMap& c, int64_t v) { return c.ContainsKey(E(v)); }
	static int id(const NHashMap& c) { return c.mHashSet.mCrew.mData == nullptr ? -1 : mm_id(c); }
	static void unusual(NHashMap& c, char kind, int n);
};
struct AdTreeMap : NatMap<NTreeMap>
{
	static NTreeMap make(int id) { return NTreeMap(TTraits(), MM(id)); }
	static std::string structure(const NTreeMap& c) { return tree_structure(c.mTreeSet); }
	static void merge(NTreeMap& dst, NTreeMap& src) { dst.MergeFrom(src); }
	static bool pools_ok(const NTreeMap& c, std::string& w) { return tree_pools_own_nodes(c.mTreeSet, w); }
	static bool find(const NTreeMap& c, int64_t v) { return c.ContainsKey(E(v)); }
	static int id(const NTreeMap& c) { return c.mTreeSet.mCrew.mData == nullptr ? -1 : mm_id(c); }
	static void unusual(NTreeMap&, char, int) { g_unusual = true; }
};
struct AdHashMulti
{
	typedef NHashMulti Cont; typedef Cont C; static const bool crew = true, multi = true, alloc_move_ctor = false, is_stdish = false;
	static C make(int id) { return C(HTraits(), MM(id)); }
	static std::string structure(const C& c) { return multi_structure(c); }
	static bool find(const C& c, int64_t v) { return c.ContainsKey(E(v)); }
	static void ins(C& c, int64_t v) { c.Add(E(v), E(v + 7)); }
	static void erase_all(C& c) { Vals k = contents(c); for (int64_t v : k) c.RemoveKey(E(v)); while (c.GetKeyCount() > 0) c.RemoveKey(c.GetKeyBounds().GetBegin()->key); }
	static void erase1(C& c, int64_t v) { c.RemoveKey(E(v)); }
	static Vals contents(const C& c)
	{
		Vals r;
		for (auto ref : c) { r.push_back(ref.key.Value()); if (ref.value.Value() != ref.key.Value() + 7) g_value_error = true; }
		std::sort(r.begin(), r.end()); return r;
	}
	static int id(const C& c) { return c.mValueCrew.mData == nullptr ? -1 : mm_id(c); }
	static size_t count(const C& c) { return c.GetCount(); }
	static void clear(C& c) { c.Clear(); }
	static void swap(C& a, C& b) { a.Swap(b); }
	static C copy_with(const C& c, int id) { return C(c, MM(id)); }
	static C move_with(C&& c, int) { return C(std::move(c)); }
	static void unusual(C& c, char kind, int n)
	{
		if (kind != 'v') return;
		// every second key keeps its key entry but loses all values
		Vals k = contents(c); k.erase(std::unique(k.begin(), k.end()), k.end());
		for (size_t i = 0; i < k.size(); i += 2) { auto it = c.Find(E(k[i])); c.RemoveValues(it); }
		g_unusual = c.GetKeyCount() > 0; (void)n;
	}
};

struct Rw { int64_t k; int64_t g; E v; };
MOMO_DATA_COLUMN_STRUCT(Rw, k);
MOMO_DATA_COLUMN_STRUCT(Rw, g);
MOMO_DATA_COLUMN_STRUCT(Rw, v);
typedef momo::DataColumnListStatic<Rw, momo::DataColumnInfo<Rw>, MM> TColumns;
typedef momo::DataTable<TColumns> NTable;
struct AdTable
{
	typedef NTable Cont; typedef Cont C; static const bool crew = true, multi = false, alloc_move_ctor = false, is_stdish = false;
	// one unique hash index (k) and one multi hash index (g = k % 3): rebuilt by a copy, stolen by a move
	static C make(int id) { C t{TColumns(MM(id))}; t.AddUniqueHashIndex(k); t.AddMultiHashIndex(g); return t; }
	static std::vector<const void*> handles(const C& c) { return { c.mCrew.mData, c.mRaws.GetItems(), &const_cast<C&>(c).mRawMemPool.GetMemManager().GetBaseMemManager() }; }
	static void ins(C& c, int64_t x)
	{
		NTable::Row row = c.NewRow(); row[k] = x; row[g] = (x / 3) % 3; row[v] = E(x + 7);
		try { c.Add(std::move(row)); } catch (const NTable::UniqueIndexViolation&) { }      // set semantics
	}
	static void erase_all(C& c) { while (c.GetCount() > 0) c.Remove(c.GetCount() - 1); }
	static void erase1(C& c, int64_t x) { for (size_t i = c.GetCount(); i > 0; --i) if (c[i - 1][k] == x) { c.Remove(i - 1); return; } }
	static Vals contents(const C& c)
	{
		Vals r;
		for (size_t i = 0; i < c.GetCount(); ++i) { auto ref = c[i]; r.push_back(ref[k]); if (ref[v].Value() != ref[k] + 7) g_value_error = true; }
		std::sort(r.begin(), r.end()); return r;
	}
	static bool find(const C& c, int64_t x) { for (size_t i = 0; i < c.GetCount(); ++i) if (c[i][k] == x) return true; return false; }
	static int id(const C& c) { return c.mCrew.mData == nullptr ? -1 : mm_id(c); }
	static size_t count(const C& c) { return c.GetCount(); }
	static void clear(C& c) { c.Clear(); }
	static void swap(C& a, C& b) { a.Swap(b); }
	static C copy_with(const C& c, int) { return C(c); }
	static C move_with(C&& c, int) { return C(std::move(c)); }
	static std::string structure(const C& c)
	{
		size_t fr = 0;
		if (c.mCrew.mData != nullptr)
			for (void* raw = c.mCrew.mData->freeRaws.load(); raw != nullptr; raw = momo::internal::MemCopyer::FromBuffer<void*>(raw)) ++fr;
		std::string r = "D" + std::to_string(c.GetCount()) + "." + std::to_string(fr) + ":";
		bool first = true;
		for (size_t i = 0; i < c.mIndexes.mUniqueHashes.GetCount(); ++i) { if (!first) r += ","; first = false; r += "u" + std::to_string(c.mIndexes.mUniqueHashes[i].mHashSet.GetCount()); }
		for (size_t i = 0; i < c.mIndexes.mMultiHashes.GetCount(); ++i) { if (!first) r += ","; first = false; r += "m" + std::to_string(c.mIndexes.mMultiHashes[i].mHashMultiMap.GetKeyCount() + c.mIndexes.mMultiHashes[i].mHashMultiMap.GetCount()); }   // first raw of a group is the key, the others its values
		return r;
	}
	static void unusual(C& c, char kind, int)
	{
		if (kind != 'f') return;
		// two rows are extracted and their Row objects destroyed: the raws wait in the crew's freeRaws list
		for (int i = 0; i < 2 && c.GetCount() > 0; ++i) { NTable::Row row = c.Extract(c.GetCount() - 1); }
		g_unusual = true;
	}
};

// ---- inline-crew configurations (round 4): Settings::checkVersion = false + the stateless default manager select
// SetCrew<..., false> (traits and manager as private bases); the traits are STATEFUL (hash seed / comparison direction), so
// a container that holds another container's body under its own traits cannot find its keys / iterates in the wrong order.
// For these kinds the "id" of a container is the state of its traits.
struct InlHashSettings : public momo::HashSetSettings { static const bool checkVersion = false; };
struct InlTreeSettings : public momo::TreeSetSettings { static const bool checkVersion = false; };
typedef momo::MemManagerDefault DMM;
typedef momo::HashTraitsStd<E, SeedHash, PlainEq> IHTraits;
typedef momo::HashSet<E, IHTraits, DMM, momo::HashSetItemTraits<E, DMM>, InlHashSettings> IHashSet;
typedef momo::TreeTraitsStd<E, DirLess, false, momo::TreeNode<4, 2>> ITTraits;
typedef momo::TreeSet<E, ITTraits, DMM, momo::TreeSetItemTraits<E, DMM>, InlTreeSettings> ITreeSet;
static_assert(std::is_base_of<IHTraits, decltype(IHashSet::mCrew)>::value, "HashSetInl must use the inline crew");
static_assert(std::is_base_of<ITTraits, decltype(ITreeSet::mCrew)>::value, "TreeSetInl must use the inline crew");
template<typename C> struct InlSet
{
	typedef C Cont; static const bool crew = true, multi = false, alloc_move_ctor = false, is_stdish = false, inline_crew = true;
	static void ins(C& c, int64_t v) { c.Insert(E(v)); }
	static void erase_all(C& c) { Vals k = contents(c); for (int64_t v : k) c.Remove(E(v)); }
	static void erase1(C& c, int64_t v) { c.Remove(E(v)); }
	static Vals contents(const C& c) { Vals r; for (const E& e : c) r.push_back(e.Value()); std::sort(r.begin(), r.end()); return r; }
	static bool find(const C& c, int64_t v) { return c.ContainsKey(E(v)); }
	static size_t count(const C& c) { return c.GetCount(); }
	static void clear(C& c) { c.Clear(); }
	static void swap(C& a, C& b) { a.Swap(b); }
	static C copy_with(const C& c, int) { return C(c, DMM()); }
	static C move_with(C&& c, int) { return C(std::move(c)); }
	static void unusual(C&, char, int) { g_unusual = true; }
};
struct AdHashSetInl : InlSet<IHashSet>
{
	static IHashSet make(int id) { return IHashSet(IHTraits(size_t{1} << IHTraits::HashBucket::logStartBucketCount, SeedHash(id), PlainEq()), DMM()); }
	static int id(const IHashSet& c) { return c.GetHashTraits().GetHashFunc().seed; }
	static std::string structure(const IHashSet& c) { return hash_structure(c); }
	static bool order_ok(const IHashSet&) { return true; }
};
struct AdTreeSetInl : InlSet<ITreeSet>
{
	static ITreeSet make(int id) { return ITreeSet(ITTraits(DirLess(id)), DMM()); }
	static int id(const ITreeSet& c) { return c.GetTreeTraits().GetLessFunc().id; }
	static std::string structure(const ITreeSet& c) { return tree_structure(c); }
	// the traversal order must be the one of the comparator the set holds NOW
	static bool order_ok(const ITreeSet& c)
	{
		const DirLess& less = c.GetTreeTraits().GetLessFunc(); const E* prev = nullptr;
		for (const E& e : c) { if (prev != nullptr && !less(*prev, e)) return false; prev = &e; }
		return true;
	}
};
#else
// ------------------------------------------------------------------------------------------- stdish wrappers
#ifndef TRAITS
#define TRAITS 0
#endif
#define TRAITS_IS_STATEFUL (TRAITS != 8)
#if TRAITS == 8
template<typename T> using Al = std::allocator<T>;
template<typename A> static int al_id(const A&) { return 0; }
template<typename T> static Al<T> mk_al(int) { return Al<T>(); }
#elif TRAITS >= 16
// allocator whose assignments may throw: exercises the non-nothrow-move-assignable branches of MemManagerStd / Proxy
template<typename T> struct AlT : StdAlloc<T, ((TRAITS >> 2) & 1) != 0, ((TRAITS >> 1) & 1) != 0, (TRAITS & 1) != 0>
{
	typedef StdAlloc<T, ((TRAITS >> 2) & 1) != 0, ((TRAITS >> 1) & 1) != 0, (TRAITS & 1) != 0> Base;
	template<typename U> struct rebind { typedef AlT<U> other; };
	explicit AlT(int id = 0) noexcept : Base(id) {}
	AlT(const AlT& a) noexcept : Base(a) {}
	AlT(AlT&& a) noexcept : Base(a) {}
	template<typename U> AlT(const AlT<U>& a) noexcept : Base(a.id()) {}
	AlT& operator=(const AlT& a) noexcept(false) { Base::operator=(a); return *this; }
	AlT& operator=(AlT&& a) noexcept(false) { Base::operator=(a); return *this; }
};
template<typename T> using Al = AlT<T>;
template<typename A> static int al_id(const A& a) { return a.id(); }
template<typename T> static Al<T> mk_al(int id) { return Al<T>(id); }
#else
template<typename T> using Al = StdAlloc<T, ((TRAITS >> 2) & 1) != 0, ((TRAITS >> 1) & 1) != 0, (TRAITS & 1) != 0>;
template<typename A> static int al_id(const A& a) { return a.id(); }
template<typename T> static Al<T> mk_al(int id) { return Al<T>(id); }
#endif

typedef momo::stdish::vector<E, Al<E>> SVec;
typedef momo::stdish::vector_intcap<4, E, Al<E>> SVecIC;
template<typename VecT> struct AdVecT
{
	typedef VecT Cont; typedef Cont C; static const bool crew = false, multi = true, alloc_move_ctor = true, is_stdish = true;
	static C make(int id) { return C(mk_al<E>(id)); }
	static std::string structure(const C&) { return "A"; }
	static bool find(const C& c, int64_t x) { for (const E& e : c) if (e.Value() == x) return true; return false; }
	static void ins(C& c, int64_t v) { c.push_back(E(v)); }
	static void erase_all(C& c) { while (!c.empty()) c.pop_back(); }
	static void erase1(C& c, int64_t) { c.pop_back(); }
	static Vals contents(const C& c) { Vals r; for (const E& e : c) r.push_back(e.Value()); std::sort(r.begin(), r.end()); return r; }
	static int id(const C& c) { return al_id(c.get_allocator()); }
	static size_t count(const C& c) { return c.size(); }
	static void clear(C& c) { c.clear(); }
	static void swap(C& a, C& b) { a.swap(b); }
	static C copy_with(const C& c, int id) { return C(c, mk_al<E>(id)); }
	static C move_with(C&& c, int id) { return C(std::move(c), mk_al<E>(id)); }
	static void unusual(C&, char, int) {}
};
typedef AdVecT<SVec> AdVec;
typedef AdVecT<SVecIC> AdVecIC;
#if TRAITS < 16
template<typename C, bool Multi> struct StdSetAd
{
	typedef C Cont; static const bool crew = true, multi = Multi, alloc_move_ctor = true, is_stdish = true;
	static void ins(C& c, int64_t v) { c.insert(E(v)); }
	static bool find(const C& c, int64_t v) { return c.find(E(v)) != c.end(); }
	static void ilist(C& c) { c = { E(400001), E(400004) }; }
	static void erase_all(C& c) { while (!c.empty()) c.erase(c.begin()); }
	static void erase1(C& c, int64_t v) { c.erase(E(v)); }
	static Vals contents(const C& c) { Vals r; for (const E& e : c) r.push_back(e.Value()); std::sort(r.begin(), r.end()); return r; }
	static size_t count(const C& c) { return c.size(); }
	static void clear(C& c) { c.clear(); }
	static void swap(C& a, C& b) { a.swap(b); }
	static C copy_with(const C& c, int id) { return C(c, mk_al<E>(id)); }
	static C move_with(C&& c, int id) { return C(std::move(c), mk_al<E>(id)); }
};
typedef momo::stdish::set<E, Less, Al<E>> SSet;
typedef momo::stdish::multiset<E, Less, Al<E>> SMSet;
typedef momo::stdish::unordered_set<E, Hash, Eq, Al<E>> SUSet;
typedef momo::stdish::unordered_set_open<E, Hash, Eq, Al<E>> SUSetO;
struct AdSet : StdSetAd<SSet, false>
{
	static SSet make(int id) { return SSet(Less(), mk_al<E>(id)); }
	static std::string structure(const SSet& c) { return tree_structure(c.mTreeSet); }
	static int id(const SSet& c) { return c.mTreeSet.mCrew.mData == nullptr ? -1 : al_id(c.get_allocator()); }
	static void unusual(SSet&, char, int) { g_unusual = true; }
};
struct AdMSet : StdSetAd<SMSet, true>
{
	static SMSet make(int id) { return SMSet(Less(), mk_al<E>(id)); }
	static std::string structure(const SMSet& c) { return tree_structure(c.mTreeSet); }
	static int id(const SMSet& c) { return c.mTreeSet.mCrew.mData == nullptr ? -1 : al_id(c.get_allocator()); }
	static void unusual(SMSet&, char, int) { g_unusual = true; }
};
template<typename HS> static void overload_hash_set(HS& hs, std::function<void(int64_t)> ins, int n);
struct AdUSetO : StdSetAd<SUSetO, false>
{
	static SUSetO make(int id) { return SUSetO(0, Hash(), Eq(), mk_al<E>(id)); }
	static int id(const SUSetO& c) { return c.mHashSet.mCrew.mData == nullptr ? -1 : al_id(c.get_allocator()); }
	static std::string structure(const SUSetO& c) { return hash_structure(c.mHashSet); }
	static void unusual(SUSetO&, char, int) {}
};
struct AdUSet : StdSetAd<SUSet, false>
{
	static SUSet make(int id) { return SUSet(0, Hash(), Eq(), mk_al<E>(id)); }
	static std::string structure(const SUSet& c) { return hash_structure(c.mHashSet); }
	static int id(const SUSet& c) { return c.mHashSet.mCrew.mData == nullptr ? -1 : al_id(c.get_allocator()); }
	static void unusual(SUSet& c, char kind, int n);
};
typedef std::pair<const E, E> PairE;
template<typename C, bool Multi> struct StdMapAd
{
	typedef C Cont; static const bool crew = true, multi = Multi, alloc_move_ctor = true, is_stdish = true;
	static void ins(C& c, int64_t v) { c.emplace(E(v), E(v + 7)); }
	static bool find(const C& c, int64_t v) { return c.find(E(v)) != c.end(); }
	static void ilist(C& c) { c = { PairE(E(400001), E(400008)), PairE(E(400004), E(400011)) }; }
	static void erase_all(C& c) { while (!c.empty()) c.erase(c.begin()); }
	static void erase1(C& c, int64_t v) { c.erase(E(v)); }
	static Vals contents(const C& c)
	{
		Vals r;
		for (auto ref : c) { r.push_back(ref.first.Value()); if (ref.second.Value() != ref.first.Value() + 7) g_value_error = true; }
		std::sort(r.begin(), r.end()); return r;
	}
	static size_t count(const C& c) { return c.size(); }
	static void clear(C& c) { c.clear(); }
	static void swap(C& a, C& b) { a.swap(b); }
	static C copy_with(const C& c, int id) { return C(c, mk_al<PairE>(id)); }
	static C move_with(C&& c, int id) { return C(std::move(c), mk_al<PairE>(id)); }
};
typedef momo::stdish::map<E, E, Less, Al<PairE>> SMap;
typedef momo::stdish::multimap<E, E, Less, Al<PairE>> SMMap;
typedef momo::stdish::unordered_map<E, E, Hash, Eq, Al<PairE>> SUMap;
typedef momo::stdish::unordered_multimap<E, E, Hash, Eq, Al<PairE>> SUMMap;
struct AdMap : StdMapAd<SMap, false>
{
	static SMap make(int id) { return SMap(Less(), mk_al<PairE>(id)); }
	static std::string structure(const SMap& c) { return tree_structure(c.mTreeMap.mTreeSet); }
	static int id(const SMap& c) { return c.mTreeMap.mTreeSet.mCrew.mData == nullptr ? -1 : al_id(c.get_allocator()); }
	static void unusual(SMap&, char, int) { g_unusual = true; }
};
struct AdMMap : StdMapAd<SMMap, true>
{
	static SMMap make(int id) { return SMMap(Less(), mk_al<PairE>(id)); }
	static std::string structure(const SMMap& c) { return tree_structure(c.mTreeMap.mTreeSet); }
	static int id(const SMMap& c) { return c.mTreeMap.mTreeSet.mCrew.mData == nullptr ? -1 : al_id(c.get_allocator()); }
	static void unusual(SMMap&, char, int) { g_unusual = true; }
};
struct AdUMap : StdMapAd<SUMap, false>
{
	static SUMap make(int id) { return SUMap(0, Hash(), Eq(), mk_al<PairE>(id)); }
	static std::string structure(const SUMap& c) { return hash_structure(c.mHashMap.mHashSet); }
	static int id(const SUMap& c) { return c.mHashMap.mHashSet.mCrew.mData == nullptr ? -1 : al_id(c.get_allocator()); }
	static void unusual(SUMap& c, char kind, int n);
};

// stdish wrappers with STATEFUL functors (seed / direction = the id the container was made with): after copy / move assignment,
// swap and initializer-list assignment the functor state must be the one the std rules give (seeded/C06-c: map::operator=({...})
// rebuilt the tree with a default-constructed comparator)
typedef momo::stdish::map<E, E, DirLess, Al<PairE>> SMapDir;
typedef momo::stdish::set<E, DirLess, Al<E>> SSetDir;
typedef momo::stdish::unordered_set<E, SeedHash, PlainEq, Al<E>> SUSetSeed;
struct AdMapDir : StdMapAd<SMapDir, false>
{
	static const bool has_traits_id = true;
	static SMapDir make(int id) { return SMapDir(DirLess(id), mk_al<PairE>(id)); }
	static int id(const SMapDir& c) { return c.mTreeMap.mTreeSet.mCrew.mData == nullptr ? -1 : al_id(c.get_allocator()); }
	static int traits_id(const SMapDir& c) { return c.key_comp().id; }
	static bool order_ok(const SMapDir& c) { DirLess l = c.key_comp(); const E* p = nullptr; for (auto r : c) { if (p && !l(*p, r.first)) return false; p = &r.first; } return true; }
	static std::string structure(const SMapDir& c) { return tree_structure(c.mTreeMap.mTreeSet); }
	static void unusual(SMapDir&, char, int) { g_unusual = true; }
};
struct AdSetDir : StdSetAd<SSetDir, false>
{
	static const bool has_traits_id = true;
	static SSetDir make(int id) { return SSetDir(DirLess(id), mk_al<E>(id)); }
	static int id(const SSetDir& c) { return c.mTreeSet.mCrew.mData == nullptr ? -1 : al_id(c.get_allocator()); }
	static int traits_id(const SSetDir& c) { return c.key_comp().id; }
	static bool order_ok(const SSetDir& c) { DirLess l = c.key_comp(); const E* p = nullptr; for (const E& e : c) { if (p && !l(*p, e)) return false; p = &e; } return true; }
	static std::string structure(const SSetDir& c) { return tree_structure(c.mTreeSet); }
	static void unusual(SSetDir&, char, int) { g_unusual = true; }
};
struct AdUSetSeed : StdSetAd<SUSetSeed, false>
{
	static const bool has_traits_id = true;
	static SUSetSeed make(int id) { return SUSetSeed(0, SeedHash(id), PlainEq(), mk_al<E>(id)); }
	static int id(const SUSetSeed& c) { return c.mHashSet.mCrew.mData == nullptr ? -1 : al_id(c.get_allocator()); }
	static int traits_id(const SUSetSeed& c) { return c.hash_function().seed; }
	static bool order_ok(const SUSetSeed&) { return true; }
	static std::string structure(const SUSetSeed& c) { return hash_structure(c.mHashSet); }
	static void unusual(SUSetSeed&, char, int) {}
};
struct AdUMMap : StdMapAd<SUMMap, true>
{
	static SUMMap make(int id) { return SUMMap(0, Hash(), Eq(), mk_al<PairE>(id)); }
	static std::string structure(const SUMMap& c) { return multi_structure(c.mHashMultiMap); }
	static int id(const SUMMap& c) { return c.mHashMultiMap.mValueCrew.mData == nullptr ? -1 : al_id(c.get_allocator()); }
	static void unusual(SUMMap& c, char kind, int)
	{
		if (kind != 'v') return;
		auto& hm = c.get_nested_container();
		Vals k = contents(c); k.erase(std::unique(k.begin(), k.end()), k.end());
		for (size_t i = 0; i < k.size(); i += 2) { auto it = hm.Find(E(k[i])); hm.RemoveValues(it); }
		g_unusual = hm.GetKeyCount() > 0;
	}
};
#endif
#endif

// refused growth: the table is at capacity; the next Buckets::Create is refused (bad_alloc) -> overloaded table.
// With throwing-move elements a relocation failure leaves several bucket generations alive.
template<typename HS, typename Ins>
static void hash_unusual(HS& hs, Ins ins, int n, int64_t base, bool multigen)
{
	// n - 1 ordinary insertions, then the last one with the growth refused (if the table is at capacity)
	for (int i = 0; i < n; ++i)
	{
		bool last = (i == n - 1);
		bool atcap = hs.GetCount() > 0 && hs.GetCount() >= hs.GetCapacity();
		if (last && atcap) W().arm(multigen ? 1 : 0, -1, -1);
		for (int attempt = 0; attempt < 3; ++attempt)
		{
			try { ins(base + 3 * i); break; }
			catch (const std::exception&) { }
		}
		W().disarm();
	}
	if (hs.mBuckets != nullptr && (hs.mBuckets->GetNextBuckets() != nullptr || hs.GetCount() > hs.GetCapacity())) g_unusual = true;
}
#ifdef NATIVE
void AdHashSet::unusual(NHashSet& c, char kind, int n) { if (kind == 'g' || kind == 'h') hash_unusual(c, [&c](int64_t v) { c.Insert(E(v)); }, n, g_base, kind == 'h'); }
void AdHashMap::unusual(NHashMap& c, char kind, int n) { if (kind == 'g' || kind == 'h') hash_unusual(c.mHashSet, [&c](int64_t v) { c.Insert(E(v), E(v + 7)); }, n, g_base, kind == 'h'); }
#elif TRAITS < 16
void AdUSet::unusual(SUSet& c, char kind, int n) { if (kind == 'g' || kind == 'h') hash_unusual(c.mHashSet, [&c](int64_t v) { c.insert(E(v)); }, n, g_base, kind == 'h'); }
void AdUMap::unusual(SUMap& c, char kind, int n) { if (kind == 'g' || kind == 'h') hash_unusual(c.mHashMap.mHashSet, [&c](int64_t v) { c.emplace(E(v), E(v + 7)); }, n, g_base, kind == 'h'); }
#endif

// ------------------------------------------------------------------------------------------- generic driver
template<typename Ad, typename = void> struct HasInline : std::false_type {};
template<typename Ad> struct HasInline<Ad, std::void_t<decltype(Ad::inline_crew)>> : std::true_type {};
template<typename Ad, typename = void> struct HasTraitsId : std::false_type {};
template<typename Ad> struct HasTraitsId<Ad, std::void_t<decltype(Ad::has_traits_id)>> : std::true_type {};
template<typename Ad, typename = void> struct HasHandles : std::false_type {};
template<typename Ad> struct HasHandles<Ad, std::void_t<decltype(&Ad::handles)>> : std::true_type {};
template<typename Ad, typename = void> struct HasMerge : std::false_type {};
template<typename Ad> struct HasMerge<Ad, std::void_t<decltype(&Ad::merge)>> : std::true_type {};
struct Case { std::string kind, op, ss, ts, post, sst, tst, est; int sid, tid, aid; };

template<typename Ad> static void build(typename Ad::Cont& c, const std::string& st, int64_t base)
{
	char k = st[0]; int n = st.size() > 1 ? atoi(st.c_str() + 1) : 0;
	if (k == 'e') return;
	if (k == 'g' || k == 'h') { g_base = base; Ad::unusual(c, k, n); return; }
	if (k == 'w') { for (int i = 0; i < n; ++i) Ad::ins(c, base); g_unusual = Ad::multi && n > 8; return; }      // ONE key with n values (value array crosses its size classes)
	if (k == 'r') { for (int i = 0; i < n; ++i) { Ad::ins(c, base + 3 * i); if (Ad::multi && Ad::crew && i % 4 == 0) Ad::ins(c, base + 3 * i); } return; }   // traversal order
	for (int i = 0; i < n; ++i) Ad::ins(c, base + 3 * i);
	if (Ad::multi && Ad::crew && k != 'c') for (int i = 0; i < n; i += 4) Ad::ins(c, base + 3 * i);   // duplicates
	if (k == 'c') Ad::erase_all(c);
	if (k == 'd' || k == 'v' || k == 'f') Ad::unusual(c, k, n);
	if (k == 'i') g_unusual = true;
}

// which manager does the container allocate through now?  insert until something is allocated.
template<typename Ad> static int probe_alloc(typename Ad::Cont& c, std::string& why)
{
	World& w = W(); w.log.clear(); w.logging = true;
	for (int i = 0; i < 70; ++i) Ad::ins(c, 900000 + i);
	w.logging = false;
	int id = -2;
	for (const std::string& s : w.log)
		if (s[0] == 'A') { int m = atoi(s.c_str() + 3); if (id == -2) id = m; else if (id != m) why += " allocates-through-two-managers"; }
	w.log.clear();
	return id;
}

template<typename Ad> static void run_case(const Case& cs, FILE* out)
{
	typedef typename Ad::Cont C;
	World& w = W();
	std::string why, tie;
	auto fail = [&why](const std::string& s) { if (why.size() < 300) why += " " + s; };
	{
		C S = Ad::make(cs.sid);
		build<Ad>(S, cs.ss, 1000);
		std::unique_ptr<C> Tp(new C(Ad::make(cs.tid)));
		build<Ad>(*Tp, cs.ts, 200000);
		const Vals s0 = Ad::contents(S), t0 = Ad::contents(*Tp);
		std::vector<const void*> hS, hT; if constexpr (HasHandles<Ad>::value) { hS = Ad::handles(S); hT = Ad::handles(*Tp); }
		if (cs.op == "describe") { fprintf(out, "S:%s T:%s | orc=ok\n", Ad::structure(S).c_str(), Ad::structure(*Tp).c_str()); return; }
		if (cs.sst != "*" && Ad::structure(S) != cs.sst) fail("source-structure-is-" + Ad::structure(S) + "-not-the-token");
		if (cs.tst != "*" && Ad::structure(*Tp) != cs.tst) fail("target-structure-is-" + Ad::structure(*Tp) + "-not-the-token");
		const std::string& op = cs.op;
		bool newobj = (op == "copyc" || op == "copyca" || op == "movec" || op == "moveca");
		bool none = (op == "none" || op == "copyfail");
		uint64_t c0 = w.n_copy, m0 = w.n_move, a0 = w.n_alloc;
		if (op == "copyc") Tp.reset(new C(S));
		else if (op == "copyca") Tp.reset(new C(Ad::copy_with(S, cs.aid)));
		else if (op == "movec") Tp.reset(new C(std::move(S)));
		else if (op == "moveca") Tp.reset(new C(Ad::move_with(std::move(S), cs.aid)));
		else if (op == "copya") *Tp = S;
		else if (op == "movea") *Tp = std::move(S);
		else if (op == "swap") { if ((cs.sid + cs.aid) % 2 == 0) Ad::swap(*Tp, S); else { using std::swap; swap(*Tp, S); } }   // member / ADL friend
		else if (op == "selfcopya") { C& r = S; S = r; }
		else if (op == "selfmovea") { C& r = S; S = std::move(r); }
		else if (op == "selfswap") Ad::swap(S, S);
		else if (op == "copyfail")
		{
			// copy construction with the k-th allocation refused, for every k until the copy succeeds: the source stays intact and
			// nothing is destroyed twice (the copying constructors delegate: catch block AND destructor run; 806b9fe, 84c9298, 91ea186)
			for (int kf = 0; kf < 40; ++kf)
			{
				w.arm(kf, -1, -1);
				bool done = false;
				try { C X(S); done = true; if (Ad::contents(X) != s0) fail("copy-after-refusals-differs"); }
				catch (const std::bad_alloc&) { }
				w.disarm();
				if (Ad::contents(S) != s0) { fail("failed-copy-damaged-source"); break; }
				if (!w.errors.empty()) break;
				if (done) break;
			}
		}
		else if (op == "merge") { if constexpr (HasMerge<Ad>::value) Ad::merge(*Tp, S); }     // TreeSet::MergeTo, target empty, equal managers (c7fda03)
		uint64_t dc = w.n_copy - c0, dm = w.n_move - m0;
		(void)a0;
		C& T = *Tp;
		bool self = op.compare(0, 4, "self") == 0;
		int tId = (self || none) ? -2 : Ad::id(T), sId = Ad::id(S);
		Vals tc = (self || none) ? Vals() : Ad::contents(T), sc = Ad::contents(S);
		// ---- the property's predicate on the main operation (independent of the Coq model)
		bool iscopy = op.compare(0, 4, "copy") == 0 && op != "copyfail", ismove = op.compare(0, 4, "move") == 0;
		if (Ad::count(S) != sc.size() || (!self && !none && Ad::count(T) != tc.size())) fail("count-differs-from-iteration");
		if constexpr (Ad::crew)
		{
			// the container must behave per the traits it holds NOW: find every key it contains (hash functor / comparator state)
			if (tId != -1 && !self && !none) for (size_t i = 0; i < tc.size(); i += (tc.size() > 40 ? 7 : 1)) if (!Ad::find(T, tc[i])) { fail("target-cannot-find-its-own-key"); break; }
			if (sId != -1) for (size_t i = 0; i < sc.size(); i += (sc.size() > 40 ? 7 : 1)) if (!Ad::find(S, sc[i])) { fail("source-cannot-find-its-own-key"); break; }
		}
		if constexpr (HasTraitsId<Ad>::value)
		{
			// the functors are part of the container's value: copy / move construction and assignment give the target the source's
			// functor state, swap exchanges them -- independently of the allocator propagation traits
			int wantT = (iscopy || ismove) ? cs.sid : (op == "swap" ? cs.sid : cs.tid);
			if (!self && !none && tId != -1 && Ad::traits_id(T) != wantT) fail("target-functor-state-is-" + std::to_string(Ad::traits_id(T)) + "-expected-" + std::to_string(wantT));
			if (sId != -1 && Ad::traits_id(S) != (op == "swap" ? cs.tid : cs.sid)) fail("source-functor-state-changed");
			if (!self && !none && tId != -1 && !Ad::order_ok(T)) fail("target-traversal-order-is-not-its-comparators");
			if (sId != -1 && !Ad::order_ok(S)) fail("source-traversal-order-is-not-its-comparators");
		}
		if constexpr (HasInline<Ad>::value)
		{
			if (!self && !none && !Ad::order_ok(T)) fail("target-traversal-order-is-not-its-comparators");
			if (!Ad::order_ok(S)) fail("source-traversal-order-is-not-its-comparators");
		}
		if (iscopy) { if (tc != s0) fail("copy-differs-from-source"); if (sc != s0) fail("copy-changed-source"); }
		if (ismove)
		{
			if (tc != s0) fail("move-target-differs-from-former-source");
			if (!sc.empty()) fail("move-left-source-non-empty");
			bool keycopies_allowed = (cs.kind == "ummap" && sId != -1);     // element-wise path copies const keys
			if (dc != 0 && !keycopies_allowed && kMovable) fail("move-copied-elements");
			if (sId != -1 && Ad::crew && !HasInline<Ad>::value && !s0.empty() && dm < s0.size()) fail("elementwise-move-did-not-move-each-element");
		}
		if constexpr (HasHandles<Ad>::value)
		{
			// the raw ownership handles (crew pointer, storage pointers, the manager the raw pool uses): Swap / merge-swap exchange ALL
			// of them, move construction / move assignment hand ALL of them to the target (theorems about the generated Swap / MoveCtor)
			if (op == "swap" && (Ad::handles(T) != hS || Ad::handles(S) != hT)) fail("swap-left-a-handle-behind");
			if ((op == "movec" || op == "movea") && Ad::handles(T) != hS) fail("move-did-not-take-every-handle");
			if ((op == "swap" || op == "movec" || op == "movea") && hS.size() == 4)
			{
				std::vector<const void*> seen; auto nm = [&seen](const void* p) { if (!p) return 0; for (size_t i = 0; i < seen.size(); ++i) if (seen[i] == p) return (int)i + 1; seen.push_back(p); return (int)seen.size(); };
				std::vector<const void*> z4(4, nullptr), aT = Ad::handles(T), aS = Ad::handles(S);
				g_gh = "gh=" + op + " " + cs.kind;
				for (const auto* v : { op == "movec" ? &z4 : &hT, &hS }) for (const void* p : *v) g_gh += " " + std::to_string(nm(p));
				g_gh += " =";
				for (const auto* v : { &aT, &aS }) for (const void* p : *v) g_gh += " " + std::to_string(nm(p));
			}
		}
		if (op == "swap") { if (tc != s0 || sc != t0) fail("swap-not-exact"); if (dc != 0 && kMovable) fail("swap-copied-elements"); }
		if (self) { if (sc != s0) fail("self-op-changed-contents"); if (dc != 0 && op != "selfcopya" && kMovable) fail("self-op-copied"); if (sId != cs.sid) fail("self-op-changed-manager"); }
		if (newobj && op == "copyc" && tId != cs.sid && TRAITS_IS_STATEFUL) fail("copy-ctor-manager");
		// independence of a copy: mutate / destroy one side, re-check the other
		std::string tie1;
		{
			char buf[64]; snprintf(buf, sizeof buf, " mv=%d cp=%d", dm > 0 && !iscopy && op != "copyfail", dc > 0 && op != "copyfail");   // element moves inside a fresh copy are its own business
			bool ew = (op == "movea" || op == "moveca") && Ad::crew && sId != -1 && !HasInline<Ad>::value;      // element-wise path: rebuilt by insertion (shape = the token est)
			bool mergex = op == "merge" && !s0.empty() && !(t0.empty() && cs.sid == cs.tid);           // merge other than the swap path: joined / rebuilt tree
			if (mergex) ew = true;
			std::string tst2 = (self || none) ? "-" : mergex ? "?" : Ad::structure(T);
			std::string sst2 = sId == -1 ? "null" : Ad::structure(S);
			tie1 = "ok T=" + idstr(tId) + " S=" + idstr(sId) + " tc=" + show(tc) + " sc=" + show(sc) + buf + " ts=" + tst2 + " ss=" + sst2;
		}
		tie = tie1;
		if (op == "merge")
		{
			Vals un = t0; un.insert(un.end(), s0.begin(), s0.end()); std::sort(un.begin(), un.end());
			if (tc != un || !sc.empty()) fail("merge-result-wrong");
			if (dc != 0 && kMovable) fail("merge-copied-elements");
			if constexpr (HasMerge<Ad>::value)
			{
				// every node of a tree lives in a pool buffer of the NodeParams of the set that holds the tree (NodeParams::MergeFrom
				// hands the source's buffers over to the target: afterwards each buffer belongs to exactly one params)
				std::string w1; if (!Ad::pools_ok(T, w1)) fail("target-" + w1); if (!Ad::pools_ok(S, w1)) fail("source-" + w1);
			}
			if (cs.post == "none") { C dead(std::move(S)); }      // the source's crew dies here; the target's node pools must not depend on it
			// (with post == clear the source stays alive and is cleared; the target is destroyed after it)
		}
		if (iscopy)
		{
			Ad::ins(T, 777001); Ad::ins(T, 777002);
			if (Ad::contents(S) != s0) fail("mutating-copy-changed-source");
			Ad::ins(S, 778001);
			Vals t1 = Ad::contents(T); Vals exp = s0; exp.push_back(777001); exp.push_back(777002); std::sort(exp.begin(), exp.end());
			if (t1 != exp) fail("mutating-source-changed-copy");
			if ((cs.sid + s0.size()) % 2 == 0)
			{
				Tp.reset();                    // destroy the copy; the source must stay intact and readable
				Vals exp2 = s0; exp2.push_back(778001); std::sort(exp2.begin(), exp2.end());
				if (Ad::contents(S) != exp2) fail("destroying-copy-damaged-source");
				Tp.reset(new C(Ad::make(cs.tid)));
			}
			else
			{
				// destroy the source's items instead; the copy must stay intact
				Ad::erase_all(S);
				if (Ad::contents(T) != exp) fail("emptying-source-damaged-copy");
				for (int64_t v : s0) Ad::ins(S, v);
				Ad::ins(S, 778001);
			}
			Ad::erase1(S, 778001);
			if (Ad::contents(S) != s0) fail("harness-undo");
		}
		// ---- post operation on the source
		C& T2 = *Tp;
		C F = Ad::make(cs.aid);
		std::unique_ptr<C> Xp; C* Fobs = &F;          // ccopy: the "fresh" object reported is the copy of S
		bool useF = false;
		const std::string& po = cs.post;
		Vals f0;
		if (po == "swapf" || po == "fswap" || po == "massign" || po == "cassign")
		{
			useF = true;
			for (int i = 0; i < 5; ++i) Ad::ins(F, 300000 + 3 * i);
			f0 = Ad::contents(F);
		}
		Vals sBefore = Ad::contents(S);
		uint64_t c1 = w.n_copy;
		if (po == "clear") Ad::clear(S);
		else if (po == "swapf") Ad::swap(S, F);
		else if (po == "fswap") Ad::swap(F, S);
		else if (po == "massign") S = std::move(F);
		else if (po == "cassign") S = F;
		else if (po == "reuse") { Ad::ins(S, 400001); Ad::ins(S, 400004); }
		else if (po == "fmove") { useF = true; F = std::move(S); }                       // S as the SOURCE of a move assignment
		else if (po == "ccopy") { useF = true; Xp.reset(new C(S)); Fobs = Xp.get(); if (Ad::contents(*Fobs) != sBefore) fail("copy-of-source-differs"); }
		else if (po == "find") { useF = true; bool fnd = Ad::find(S, 1003); bool exp = std::find(sBefore.begin(), sBefore.end(), 1003) != sBefore.end(); if (fnd != exp) fail("find-wrong"); if (fnd) Ad::ins(F, 1); }
		else if (po == "ilist")
		{
			if constexpr (Ad::is_stdish && Ad::crew)
			{
				int tb = -1; if constexpr (HasTraitsId<Ad>::value) tb = Ad::traits_id(S);
				Ad::ilist(S);
				if constexpr (HasTraitsId<Ad>::value)
				{
					// operator=(initializer_list) replaces the ELEMENTS; comparator / hasher (and allocator) stay (seeded/C06-c)
					if (Ad::traits_id(S) != tb) fail("initializer-list-assignment-changed-the-functor-state-from-" + std::to_string(tb) + "-to-" + std::to_string(Ad::traits_id(S)));
					if (!Ad::order_ok(S)) fail("after-initializer-list-assignment-the-order-is-not-the-comparators");
				}
			}
		}
		uint64_t dc1 = w.n_copy - c1;
		int s2 = Ad::id(S), fId = useF ? Ad::id(*Fobs) : -2;
		Vals s2c = Ad::contents(S), fc = useF ? Ad::contents(*Fobs) : Vals();
		if (po == "clear" && !s2c.empty()) fail("clear-left-items");
		if ((po == "swapf" || po == "fswap") && (s2c != f0 || fc != sBefore)) fail("post-swap-not-exact");
		if (po == "massign" && (s2c != f0 || !fc.empty() || (dc1 != 0 && kMovable && !(cs.kind == "ummap" && fId != -1)))) fail("post-move-assign-wrong");
		if (po == "cassign" && (s2c != f0 || fc != f0)) fail("post-copy-assign-wrong");
		if (po == "fmove" && (fc != sBefore || !s2c.empty())) fail("post-move-from-source-wrong");
		if (po == "ilist" && Ad::is_stdish && Ad::crew && s2c != Vals({400001, 400004})) fail("post-ilist-wrong");
		tie += " S2=" + idstr(s2) + " s2c=" + show(s2c) + " F=" + idstr(fId) + " fc=" + show(fc);
		// after Clear(): the fields the generated Clear (cxx2coq) computes -- storage pointers null again
		tie += std::string(" s2s=") + (po != "clear" ? "-" : s2 == -1 ? "null" : Ad::structure(S));
		// ---- every container that has a manager: it must allocate through exactly that manager from now on
		if (Ad::id(S) != -1)
		{
			int want = Ad::id(S); int got = probe_alloc<Ad>(S, why);
			if (got != -2 && got != want && TRAITS_IS_STATEFUL) fail("source-allocates-through-" + std::to_string(got) + "-but-holds-" + std::to_string(want));
			if (Ad::contents(S).size() != s2c.size() + 70 && !(!Ad::multi && false)) fail("source-not-usable");
		}
		else if (po == "massign" || po == "cassign") fail("assignment-left-container-moved-from");
		if (Ad::id(T2) != -1)
		{
			int want = Ad::id(T2); size_t before = Ad::contents(T2).size(); int got = probe_alloc<Ad>(T2, why);
			if (got != -2 && got != want && TRAITS_IS_STATEFUL) fail("target-allocates-through-" + std::to_string(got) + "-but-holds-" + std::to_string(want));
			if (Ad::contents(T2).size() != before + 70) fail("target-not-usable");
		}
		if (useF && Ad::id(*Fobs) != -1) { std::string d; probe_alloc<Ad>(*Fobs, d); why += d; }
		if (g_value_error) fail("mapped-value-corrupted");
	}
	if (w.live_blocks() != 0) fail("leaked-blocks:" + std::to_string(w.live_blocks()));
	if (w.live_objs() != 0) fail("leaked-elements:" + std::to_string(w.live_objs()));
	if (!w.errors.empty()) { std::string e = w.errors[0]; for (char& ch : e) if (ch == ' ') ch = '_'; fail("kit:" + e); }
	// E = a memory-protocol error was seen by kit (deallocation through a foreign manager, double free, ...): the
	// model's counterpart is the WrongMgr outcome
	fprintf(out, "%s E=%d | orc=%s%s%s%s\n", tie.c_str(), w.errors.empty() ? 0 : 1, why.empty() ? "ok" : why.c_str() + 1, g_unusual ? " nt" : "",
		g_gh.empty() ? "" : " | ", g_gh.c_str());
}

static bool dispatch(const Case& cs, FILE* out)
{
#ifdef NATIVE
	if (cs.kind == "Array") run_case<NatSeq<NArray, false>>(cs, out);
	else if (cs.kind == "ArrayIC") run_case<NatSeq<NArrayIC, false>>(cs, out);
	else if (cs.kind == "Seg") run_case<NatSeq<NSeg, true>>(cs, out);
	else if (cs.kind == "HashSet") run_case<AdHashSet>(cs, out);
	else if (cs.kind == "HashMap") run_case<AdHashMap>(cs, out);
	else if (cs.kind == "HashMulti") run_case<AdHashMulti>(cs, out);
	else if (cs.kind == "TreeSet") run_case<AdTreeSet>(cs, out);
	else if (cs.kind == "TreeMap") run_case<AdTreeMap>(cs, out);
	else if (cs.kind == "DataTable") run_case<AdTable>(cs, out);
	else if (cs.kind == "HashSetInl") run_case<AdHashSetInl>(cs, out);
	else if (cs.kind == "HashSetFast") run_case<AdHashSetFast>(cs, out);
	else if (cs.kind == "HashSetOpen2") run_case<AdHashSetOpen2>(cs, out);
	else if (cs.kind == "TreeSetInl") run_case<AdTreeSetInl>(cs, out);
	else return false;
#else
	if (cs.kind == "vec") run_case<AdVec>(cs, out);
	else if (cs.kind == "vecic") run_case<AdVecIC>(cs, out);
#if TRAITS < 16
	else if (cs.kind == "set") run_case<AdSet>(cs, out);
	else if (cs.kind == "mset") run_case<AdMSet>(cs, out);
	else if (cs.kind == "uset") run_case<AdUSet>(cs, out);
	else if (cs.kind == "useto") run_case<AdUSetO>(cs, out);
	else if (cs.kind == "map") run_case<AdMap>(cs, out);
	else if (cs.kind == "mmap") run_case<AdMMap>(cs, out);
	else if (cs.kind == "umap") run_case<AdUMap>(cs, out);
	else if (cs.kind == "ummap") run_case<AdUMMap>(cs, out);
	else if (cs.kind == "mapdir") run_case<AdMapDir>(cs, out);
	else if (cs.kind == "setdir") run_case<AdSetDir>(cs, out);
	else if (cs.kind == "usetseed") run_case<AdUSetSeed>(cs, out);
#endif
	else return false;
#endif
	return true;
}

int main()
{
	static char line[100000];
	while (fgets(line, sizeof line, stdin))
	{
		char trs[32], kind[32], op[32], ss[32], ts[32], post[32]; Case cs;
		static char sst[30000], tst[30000], est[30000];
		int nf = sscanf(line, "%31s %31s %31s %31s %31s %d %d %d %31s %29999s %29999s %29999s", trs, kind, op, ss, ts, &cs.sid, &cs.tid, &cs.aid, post, sst, tst, est);
		if (nf != 9 && nf != 11 && nf != 12) { puts("? | orc=unparsable-case"); continue; }
		cs.sst = nf >= 11 ? sst : "*"; cs.tst = nf >= 11 ? tst : "*"; cs.est = nf == 12 ? est : "*";
#ifdef NATIVE
		if (strcmp(trs, NATIVE_TOKEN) != 0) { puts("wrong-binary | orc=wrong-binary"); continue; }
#else
		if (atoi(trs) != TRAITS || trs[0] == 'N') { puts("wrong-binary | orc=wrong-binary"); continue; }
#endif
		cs.kind = kind; cs.op = op; cs.ss = ss; cs.ts = ts; cs.post = post;
		fflush(stdout);
		int fd[2]; if (pipe(fd) != 0) { puts("pipe-failed"); continue; }
		pid_t pid = fork();
		if (pid == 0)
		{
			close(fd[0]);
			FILE* out = fdopen(fd[1], "w");
			int devnull = open("/dev/null", O_WRONLY); if (devnull >= 0) dup2(devnull, 2);
			// a broken tree under test must not take the machine down: 60 s and (outside sanitizer builds) 4 GiB per case
			alarm(60);
#if !defined(__SANITIZE_ADDRESS__)
			{ struct rlimit rl; rl.rlim_cur = rl.rlim_max = rlim_t(4) << 30; setrlimit(RLIMIT_AS, &rl); }
#endif
			bool ok = dispatch(cs, out);
			if (!ok) fprintf(out, "unknown-kind | orc=unknown-kind\n");
			fflush(out); _exit(0);
		}
		close(fd[1]);
		std::string got; char buf[4096]; ssize_t n;
		while ((n = read(fd[0], buf, sizeof buf)) > 0) got.append(buf, size_t(n));
		close(fd[0]);
		int status = 0; waitpid(pid, &status, 0);
		if (WIFSIGNALED(status) || (WIFEXITED(status) && WEXITSTATUS(status) != 0) || got.empty() || got.back() != '\n')
		{
			// the partial output (if any) tells how far the case got: keep it in the oracle part
			for (char& ch : got) if (ch == '\n' || ch == '|') ch = ' ';
			printf("abort | orc=abort:%s after: %s\n", WIFSIGNALED(status) ? strsignal(WTERMSIG(status)) : "exit", got.c_str());
		}
		else fputs(got.c_str(), stdout);
	}
	return 0;
}
