// C10 oracle, part 1: momo sets and maps – merges (tree<->tree, hash<->hash, tree<->hash, equal / unequal memory
// managers, fast paths), extract / Insert(ExtractedItem&&), multi-element Insert, Remove by predicate.
#include "oracle_common.h"
using namespace c10;

struct HMSettings : momo::HashMapSettings { static const momo::ExtraCheckMode extraCheckMode = momo::ExtraCheckMode::nothing; };
struct TMSettings : momo::TreeMapSettings { static const momo::ExtraCheckMode extraCheckMode = momo::ExtraCheckMode::nothing; };

// ---- container makers ---------------------------------------------------------------------------------
template<typename E> struct MkHS { typedef HSet<E> T; static const bool multi = false; static T make(int mgr) { return T(htraits<T>(kit::MULT), kit::MM(mgr)); } };
template<typename E> struct MkHSD { typedef HSet<E, momo::HashBucketDefault> T; static const bool multi = false; static T make(int mgr) { return T(htraits<T>(kit::LOWBITS), kit::MM(mgr)); } };
template<typename E, bool M> struct MkTS { typedef TSet<E, M> T; static const bool multi = M; static T make(int mgr) { return T(typename T::TreeTraits(), kit::MM(mgr)); } };
template<typename E, bool M> struct MkTSD { typedef TSetD<E, M> T; static const bool multi = M; static T make(int mgr) { return T(typename T::TreeTraits(), kit::MM(mgr)); } };

// default settings (ExtraCheckMode::assertion): since b307610 a functor that throws inside the debug-only extra check of
// InsertCrt no longer turns into an assertion failure
template<typename E> struct MkHSX { typedef momo::HashSet<E, momo::HashTraitsStd<E, KHash, KEq>, kit::MM> T; static const bool multi = false;
	static T make(int mgr) { return T(typename T::HashTraits(8, KHash(kit::MULT), KEq()), kit::MM(mgr)); } };
template<typename E, bool M> struct MkTSX { typedef momo::TreeSet<E, momo::TreeTraitsStd<E, KLess, M>, kit::MM> T; static const bool multi = M;
	static T make(int mgr) { return T(typename T::TreeTraits(), kit::MM(mgr)); } };

static void gen_values(Rnd& r, int mode, bool srcMulti, bool dstMulti, std::vector<int64_t>& src, std::vector<int64_t>& dst)
{
	int ns = r.chance(1, 8) ? 0 : r.range(1, r.chance(1, 3) ? 70 : 12);
	int nd = r.chance(1, 8) ? 0 : r.range(1, r.chance(1, 3) ? 70 : 12);
	int span = r.range(8, 90);
	if (mode >= 10)      // big ordered trees: many nodes, several full memory-pool buffers on both sides (fast merge path)
	{
		mode -= 10; ns = r.range(150, 900); nd = r.range(150, 900); span = 100000;
		for (int i = 0; i < ns; ++i) src.push_back(int64_t(i * 3 + (mode == 2 ? 50000 : 0)) * 100 + r.range(1, 49));
		for (int i = 0; i < nd; ++i) dst.push_back(int64_t(i * 3 + (mode == 1 ? 50000 : 0)) * 100 + r.range(50, 99));
		return;
	}
	std::set<int64_t> ks, kd;
	for (int i = 0; i < ns; ++i)
	{
		int64_t k = r.range(0, span);
		if (mode == 2) k += 200;
		if (mode == 3 && i == 0) k = span;                 // touching ranges: the largest source key == the smallest destination key
		if (!srcMulti && !ks.insert(k).second) continue;
		src.push_back(k * 100 + r.range(1, 49));
	}
	for (int i = 0; i < nd; ++i)
	{
		int64_t k = r.range(0, span);
		if (mode == 1) k += 200;
		if (mode == 3) k = (i == 0) ? span : k + span;
		if (!dstMulti && !kd.insert(k).second) continue;
		dst.push_back(k * 100 + r.range(50, 99));
	}
}

template<typename E, typename MS, typename MD>
static void merge_scenario(Report& rep, const char* name, uint64_t seed, int srcMgr, int dstMgr, int mode, bool from)
{
	enumerate_all(rep, name, [&] (int kind, long k) -> bool
	{
		Rnd r(seed);
		std::vector<int64_t> sv, dv;
		gen_values(r, mode, MS::multi, MD::multi, sv, dv);
		typename MD::T dst = MD::make(dstMgr);      // declared first: the SOURCE is destroyed before the destination (a destination
		typename MS::T src = MS::make(srcMgr);      // that still points into the source's crew after a swap shows up as a kit error)
		for (int64_t v : sv) src.Insert(E(v));
		for (int64_t v : dv) dst.Insert(E(v));
		MSet src0 = values(src), dst0 = values(dst), init = plus(src0, dst0);
		std::set<int64_t> dkeys0; for (auto& p : dst0) dkeys0.insert(keyof(p.first));
		Counters c0 = snap();
		arm_kind(kind, k);
		bool ok = true;
		try { if (from) dst.MergeFrom(src); else src.MergeTo(dst); }
		C10_CATCH_INJECTED(ok)
		bool f = done(kind);
		Counters c1 = snap();
		std::string tag = std::string(name) + " kind=" + std::to_string(kind) + " k=" + std::to_string(k) + (ok ? " (completed)" : " (threw)");
		{	// structural validity first: walking an invalid tree would follow dangling pointers
			std::string e1 = check_tree(src, 0), e2 = check_tree(dst, 0);
			if (!e1.empty()) rep.fail(tag + ": source tree invalid: " + e1); if (!e2.empty()) rep.fail(tag + ": destination tree invalid: " + e2);
			if (!e1.empty() || !e2.empty()) return false;
		}
		MSet s1 = values(src), d1 = values(dst);
		if (plus(s1, d1) != init) rep.fail(tag + ": src+dst not conserved: " + diffstr(plus(s1, d1), init) + " src=" + show(s1) + " dst=" + show(d1) + " initial src=" + show(src0) + " dst=" + show(dst0));
		if (!MD::multi && dup_keys(d1)) rep.fail(tag + ": duplicate key in unique destination " + show(d1));
		if (!MS::multi && dup_keys(s1)) rep.fail(tag + ": duplicate key in unique source " + show(s1));
		if (!MD::multi)
			for (auto& p : src0) if (dkeys0.count(keyof(p.first)) && !s1.count(p.first)) rep.fail(tag + ": refused item " + std::to_string(p.first) + " left the source");
		if (ok)
		{
			std::set<int64_t> dk; for (auto& p : d1) dk.insert(keyof(p.first));
			for (auto& p : s1) if (MD::multi || !dk.count(keyof(p.first))) rep.fail(tag + ": item " + std::to_string(p.first) + " stayed in the source although the destination accepts it");
		}
		if (E::movable && (c1.copy != c0.copy || c1.copy_assign != c0.copy_assign))
			rep.fail(tag + ": movable elements were copied (" + std::to_string(c1.copy - c0.copy) + " copy constructions, " + std::to_string(c1.copy_assign - c0.copy_assign) + " copy assignments)");
		size_t ns = 0; for (const auto& e : src) { (void)e; ++ns; } size_t nd = 0; for (const auto& e : dst) { (void)e; ++nd; }
		if (ns != src.GetCount() || nd != dst.GetCount()) rep.fail(tag + ": GetCount inconsistent with iteration");
		// usable afterwards
		for (auto& p : d1) if (!dst.ContainsKey(E(p.first))) { rep.fail(tag + ": destination item " + std::to_string(p.first) + " not findable"); break; }
		for (auto& p : s1) if (!src.ContainsKey(E(p.first))) { rep.fail(tag + ": source item " + std::to_string(p.first) + " not findable"); break; }
		dst.Insert(E(999901)); src.Insert(E(999902));
		if (!dst.ContainsKey(E(999901)) || !src.ContainsKey(E(999902))) rep.fail(tag + ": container unusable afterwards");
		return f;
	});
}

template<typename E, typename MS, typename MD>
static void extract_scenario(Report& rep, const char* name, uint64_t seed, int srcMgr, int dstMgr)
{
	enumerate_all(rep, name, [&] (int kind, long k) -> bool
	{
		Rnd r(seed);
		std::vector<int64_t> sv, dv;
		gen_values(r, 0, MS::multi, MD::multi, sv, dv);
		if (sv.empty()) sv.push_back(4242);
		typename MS::T src = MS::make(srcMgr);
		typename MD::T dst = MD::make(dstMgr);
		for (int64_t v : sv) src.Insert(E(v));
		for (int64_t v : dv) dst.Insert(E(v));
		MSet init = plus(values(src), values(dst));
		size_t pos = size_t(r.range(0, int(src.GetCount()) - 1));
		bool moveHolder = r.chance(1, 2);
		auto it = src.GetBegin(); for (size_t i = 0; i < pos; ++i) ++it;
		int64_t xv = it->Value();
		bool present = !MD::multi && dst.ContainsKey(*it);
		Counters c0 = snap();
		std::string tag = std::string(name) + " kind=" + std::to_string(kind) + " k=" + std::to_string(k);
		auto check = [&] (const char* where, const MSet& held)
		{
			long sa = kit::W().fail_alloc, sc = kit::W().fail_copy, sf = kit::W().fail_func; kit::W().disarm();
			MSet all = plus(plus(values(src), values(dst)), held);
			if (all != init) rep.fail(tag + " " + where + ": src+dst+handle not conserved: handle=" + show(held) + " src=" + show(values(src)) + " dst=" + show(values(dst)));
			if (!MD::multi && dup_keys(values(dst))) rep.fail(tag + " " + where + ": duplicate key in destination");
			kit::W().fail_alloc = sa; kit::W().fail_copy = sc; kit::W().fail_func = sf;
		};
		arm_kind(kind, k);
		bool ok = true;
		try
		{
			typename MS::T::ExtractedItem ext = src.Extract(it);
			MSet h; if (!ext.IsEmpty()) add(h, ext.GetItem().Value());
			check("after extract", h);
			if (ext.IsEmpty() || ext.GetItem().Value() != xv) rep.fail(tag + ": extracted handle does not hold the item");
			typename MS::T::ExtractedItem ext2;
			if (moveHolder)
			{
				typename MS::T::ExtractedItem tmp(std::move(ext));
				if (!ext.IsEmpty()) rep.fail(tag + ": moved-from handle not empty");
				MSet h2; if (!tmp.IsEmpty()) add(h2, tmp.GetItem().Value());
				check("after handle move", h2);
				try { auto res = dst.Insert(std::move(tmp)); MSet h3; if (!tmp.IsEmpty()) add(h3, tmp.GetItem().Value()); check("after insert", h3);
					if (res.inserted == present) rep.fail(tag + ": inserted flag wrong");
					if (res.inserted != tmp.IsEmpty()) rep.fail(tag + ": handle emptiness does not match the inserted flag"); }
				catch (...) { MSet h3; if (!tmp.IsEmpty()) add(h3, tmp.GetItem().Value()); check("after failed insert", h3); throw; }
			}
			else
			{
				try { auto res = dst.Insert(std::move(ext)); MSet h3; if (!ext.IsEmpty()) add(h3, ext.GetItem().Value()); check("after insert", h3);
					if (res.inserted == present) rep.fail(tag + ": inserted flag wrong");
					if (res.inserted != ext.IsEmpty()) rep.fail(tag + ": handle emptiness does not match the inserted flag"); }
				catch (...) { MSet h3; if (!ext.IsEmpty()) add(h3, ext.GetItem().Value()); check("after failed insert", h3); throw; }
			}
		}
		C10_CATCH_INJECTED(ok)
		bool f = done(kind);
		Counters c1 = snap();
		if (E::movable && (c1.copy != c0.copy || c1.copy_assign != c0.copy_assign)) rep.fail(tag + ": movable elements were copied during extract / re-insert");
		// after the handle died: either the item is in a container or (refused / failed) it was destroyed with the handle
		MSet all = plus(values(src), values(dst));
		if (!subset(all, init)) rep.fail(tag + ": elements appeared from nowhere");
		src.Insert(E(999902)); dst.Insert(E(999901));
		return f;
	});
}

template<typename E, typename MK>
static void insert_range_scenario(Report& rep, const char* name, uint64_t seed, bool il)
{
	enumerate_all(rep, name, [&] (int kind, long k) -> bool
	{
		Rnd r(seed);
		std::vector<int64_t> sv, dv;
		gen_values(r, 0, true, MK::multi, sv, dv);
		typename MK::T set = MK::make(1);
		for (int64_t v : dv) set.Insert(E(v));
		if (il) sv.resize(std::min<size_t>(sv.size(), 4)), sv.resize(4, 777);
		std::vector<E> items; items.reserve(sv.size());
		for (int64_t v : sv) items.emplace_back(v);
		MSet orig = values(set), ins; for (int64_t v : sv) add(ins, v);
		std::string tag = std::string(name) + " kind=" + std::to_string(kind) + " k=" + std::to_string(k);
		arm_kind(kind, k);
		bool ok = true;
		try
		{
			if (il) set.Insert({ items[0], items[1], items[2], items[3] });
			else set.Insert(items.begin(), items.end());
		}
		C10_CATCH_INJECTED(ok)
		bool f = done(kind);
		MSet now = values(set);
		if (!subset(now, plus(orig, ins))) rep.fail(tag + ": elements not a subset of original + inserted: " + show(now));
		if (!subset(orig, now)) rep.fail(tag + ": an original element disappeared");
		if (!MK::multi && dup_keys(now)) rep.fail(tag + ": duplicate keys " + show(now));
		if (ok) { std::set<int64_t> ks; for (auto& p : now) ks.insert(keyof(p.first)); for (int64_t v : sv) if (!ks.count(keyof(v))) rep.fail(tag + ": key of " + std::to_string(v) + " missing after completed insert"); }
		for (size_t i = 0; i < items.size(); ++i) if (items[i].Value() != sv[i]) rep.fail(tag + ": argument range modified");
		size_t n = 0; for (const auto& e : set) { (void)e; ++n; } if (n != set.GetCount()) rep.fail(tag + ": GetCount inconsistent");
		for (auto& p : now) if (!set.ContainsKey(E(p.first))) { rep.fail(tag + ": item not findable"); break; }
		set.Insert(E(999901));
		return f;
	});
}

template<typename E, typename MK>
static void remove_pred_scenario(Report& rep, const char* name, uint64_t seed)
{
	enumerate_all(rep, name, [&] (int kind, long k) -> bool
	{
		Rnd r(seed);
		std::vector<int64_t> sv, dv;
		gen_values(r, 0, true, MK::multi, sv, dv);
		typename MK::T set = MK::make(1);
		for (int64_t v : dv) set.Insert(E(v));
		for (int64_t v : sv) set.Insert(E(v));
		int mod = r.range(2, 4);
		MSet orig = values(set);
		auto pred = [mod] (const E& e) { kit::W().step_func(); return keyof(e.Value()) % mod == 0; };
		std::string tag = std::string(name) + " kind=" + std::to_string(kind) + " k=" + std::to_string(k);
		Counters c0 = snap();
		arm_kind(kind, k);
		bool ok = true; size_t removed = 0;
		try { removed = set.Remove(pred); }
		C10_CATCH_INJECTED(ok)
		bool f = done(kind);
		Counters c1 = snap();
		MSet now = values(set);
		if (!subset(now, orig)) rep.fail(tag + ": elements not a subset of the original");
		for (auto& p : orig) { auto it = now.find(p.first); int left = it == now.end() ? 0 : it->second; if (left < p.second && keyof(p.first) % mod != 0) rep.fail(tag + ": removed an item the predicate rejects"); }
		if (ok) { for (auto& p : now) if (keyof(p.first) % mod == 0) rep.fail(tag + ": completed Remove left a matching item");
			size_t no = 0; for (auto& p : orig) no += p.second; size_t nn = 0; for (auto& p : now) nn += p.second; if (no - nn != removed) rep.fail(tag + ": returned count wrong"); }
		if (E::movable && c1.copy != c0.copy) rep.fail(tag + ": movable elements were copy-constructed by Remove(pred)");
		size_t n = 0; for (const auto& e : set) { (void)e; ++n; } if (n != set.GetCount()) rep.fail(tag + ": GetCount inconsistent");
		for (auto& p : now) if (!set.ContainsKey(E(p.first))) { rep.fail(tag + ": item not findable"); break; }
		set.Insert(E(999901));
		return f;
	});
}

// ---- maps --------------------------------------------------------------------------------------------
template<typename E> using HMap = momo::HashMap<E, E, momo::HashTraitsStd<E, KHash, KEq, momo::HashBucketDefault>, kit::MM,
	momo::HashMapKeyValueTraits<E, E, kit::MM>, HMSettings>;
template<typename E> using TMap = momo::TreeMap<E, E, momo::TreeTraitsStd<E, KLess, false>, kit::MM,
	momo::TreeMapKeyValueTraits<E, E, kit::MM>, TMSettings>;
template<typename E> struct MkHM { typedef HMap<E> T; static T make(int mgr) { return T(typename T::HashTraits(8, KHash(kit::MULT), KEq()), kit::MM(mgr)); } };
template<typename E> struct MkTM { typedef TMap<E> T; static T make(int mgr) { return T(typename T::TreeTraits(), kit::MM(mgr)); } };

template<typename E, typename MS, typename MD, bool extract>
static void map_scenario(Report& rep, const char* name, uint64_t seed, int srcMgr, int dstMgr)
{
	enumerate_all(rep, name, [&] (int kind, long k) -> bool
	{
		Rnd r(seed);
		std::vector<int64_t> sv, dv;
		gen_values(r, 0, false, false, sv, dv);
		if (sv.empty()) sv.push_back(4242);
		typename MS::T src = MS::make(srcMgr);
		typename MD::T dst = MD::make(dstMgr);
		for (int64_t v : sv) src.Insert(E(v), E(v % 100 + 7000));
		for (int64_t v : dv) dst.Insert(E(v), E(v % 100 + 8000));
		MSet s0 = pair_values(src), d0 = pair_values(dst), init = plus(s0, d0);
		std::set<int64_t> dkeys0; for (auto ref : dst) dkeys0.insert(keyof(ref.key.Value()));
		std::string tag = std::string(name) + " kind=" + std::to_string(kind) + " k=" + std::to_string(k);
		Counters c0 = snap();
		MSet held;
		arm_kind(kind, k);
		bool ok = true;
		try
		{
			if constexpr (!extract) src.MergeTo(dst);
			else
			{
				auto it = src.GetBegin(); size_t pos = size_t(r.range(0, int(src.GetCount()) - 1)); for (size_t i = 0; i < pos; ++i) ++it;
				typename MS::T::ExtractedPair ext = src.Extract(it);
				auto rec = [&held] (typename MS::T::ExtractedPair& e) { if (!e.IsEmpty()) add(held, e.GetKey().Value() * 100000 + e.GetValue().Value()); };
				try
				{
					typename MS::T::ExtractedPair ext2(std::move(ext));
					try { dst.Insert(std::move(ext2)); } catch (...) { rec(ext2); throw; }
					rec(ext2);
				}
				catch (...) { rec(ext); throw; }
			}
		}
		C10_CATCH_INJECTED(ok)
		bool f = done(kind);
		Counters c1 = snap();
		MSet s1 = pair_values(src), d1 = pair_values(dst);
		bool lenient = false;
		if (plus(plus(s1, d1), held) != init)
		{
			if (!ok && !E::movable && only_values_changed(plus(plus(s1, d1), held), init)) { ++rep.documented; lenient = true; }
			else rep.fail(tag + ": key/value pairs not conserved: " + diffstr(plus(plus(s1, d1), held), init) + " src=" + show(s1) + " dst=" + show(d1) + " handle=" + show(held));
		}
		{ std::set<int64_t> ks; for (auto ref : dst) if (!ks.insert(keyof(ref.key.Value())).second) rep.fail(tag + ": duplicate key in destination map"); }
		if (!extract && !lenient) for (auto& p : s0) if (dkeys0.count(keyof(p.first / 100000)) && !s1.count(p.first)) rep.fail(tag + ": refused pair left the source");
		if (ok && !extract) { std::set<int64_t> dk; for (auto ref : dst) dk.insert(keyof(ref.key.Value())); for (auto ref : src) if (!dk.count(keyof(ref.key.Value()))) rep.fail(tag + ": pair stayed in the source although accepted"); }
		if (E::movable && (c1.copy != c0.copy || c1.copy_assign != c0.copy_assign)) rep.fail(tag + ": movable keys/values were copied");
		for (auto ref : dst) if (!dst.ContainsKey(ref.key)) { rep.fail(tag + ": destination key not findable"); break; }
		for (auto ref : src) if (!src.ContainsKey(ref.key)) { rep.fail(tag + ": source key not findable"); break; }
		dst.Insert(E(999901), E(1)); src.Insert(E(999902), E(2));
		return f;
	});
}

// ---- scenario table ----------------------------------------------------------------------------------
static const char* SCEN[] = {
	"merge_hs_hs_eq", "merge_hs_hs_ne", "merge_hsd_hsd", "merge_hs_hsd_from",
	"merge_ts_ts", "merge_tsm_tsm", "merge_ts_tsm",
	"merge_tsd_tsd_eq", "merge_tsd_tsd_eq_ordered", "merge_tsd_tsd_eq_ordered_rev", "merge_tsd_tsd_ne", "merge_tsdm_tsdm_eq", "merge_tsdm_tsdm_ordered", "merge_tsd_tsd_eq_touching", "merge_tsdm_tsdm_touching", "merge_tsd_tsd_eq_ordered_big", "merge_tsd_tsd_eq_ordered_rev_big",
	"merge_hsx_hsx_extracheck", "merge_tsx_tsx_extracheck", "merge_tsx_hsx_extracheck", "merge_ts_hs", "merge_hs_ts", "merge_hsd_tsm", "merge_tsd_hsd_from",
	"extract_hs_hs", "extract_ts_ts", "extract_hs_hsd", "extract_ts_tsm", "extract_tsm_tsm",
	"insert_range_hsd", "insert_range_ts", "insert_range_tsm", "insert_il_hs", "insert_il_tsd",
	"remove_pred_hsd", "remove_pred_hs", "remove_pred_ts", "remove_pred_tsm",
	"map_merge_hm_hm", "map_merge_tm_tm", "map_merge_hm_tm", "map_merge_tm_hm", "map_extract_hm_hm", "map_extract_tm_tm",
};

template<int C>
static void run_scenario(Report& rep, const std::string& s, uint64_t seed)
{
	typedef LE<C> E;
	const char* n = s.c_str();
	if (s == "merge_hs_hs_eq") merge_scenario<E, MkHS<E>, MkHS<E>>(rep, n, seed, 1, 1, 0, false);
	else if (s == "merge_hs_hs_ne") merge_scenario<E, MkHS<E>, MkHS<E>>(rep, n, seed, 1, 2, 0, false);
	else if (s == "merge_hsd_hsd") merge_scenario<E, MkHSD<E>, MkHSD<E>>(rep, n, seed, 1, 2, 0, false);
	else if (s == "merge_hs_hsd_from") merge_scenario<E, MkHS<E>, MkHSD<E>>(rep, n, seed, 1, 1, 0, true);
	else if (s == "merge_ts_ts") merge_scenario<E, MkTS<E, false>, MkTS<E, false>>(rep, n, seed, 1, 1, 0, false);
	else if (s == "merge_tsm_tsm") merge_scenario<E, MkTS<E, true>, MkTS<E, true>>(rep, n, seed, 1, 2, 0, false);
	else if (s == "merge_ts_tsm") merge_scenario<E, MkTS<E, false>, MkTS<E, true>>(rep, n, seed, 1, 1, 0, true);
	else if (s == "merge_tsd_tsd_eq") merge_scenario<E, MkTSD<E, false>, MkTSD<E, false>>(rep, n, seed, 1, 1, 0, false);
	else if (s == "merge_tsd_tsd_eq_ordered") merge_scenario<E, MkTSD<E, false>, MkTSD<E, false>>(rep, n, seed, 1, 1, 1, false);
	else if (s == "merge_tsd_tsd_eq_ordered_rev") merge_scenario<E, MkTSD<E, false>, MkTSD<E, false>>(rep, n, seed, 1, 1, 2, true);
	else if (s == "merge_tsd_tsd_ne") merge_scenario<E, MkTSD<E, false>, MkTSD<E, false>>(rep, n, seed, 1, 2, 0, false);
	else if (s == "merge_tsdm_tsdm_eq") merge_scenario<E, MkTSD<E, true>, MkTSD<E, true>>(rep, n, seed, 1, 1, 0, false);
	else if (s == "merge_tsdm_tsdm_ordered") merge_scenario<E, MkTSD<E, true>, MkTSD<E, true>>(rep, n, seed, 1, 1, 1, false);
	else if (s == "merge_tsd_tsd_eq_touching") merge_scenario<E, MkTSD<E, false>, MkTSD<E, false>>(rep, n, seed, 1, 1, 3, false);
	else if (s == "merge_tsdm_tsdm_touching") merge_scenario<E, MkTSD<E, true>, MkTSD<E, true>>(rep, n, seed, 1, 1, 3, true);
	else if (s == "merge_tsd_tsd_eq_ordered_big") merge_scenario<E, MkTSD<E, false>, MkTSD<E, false>>(rep, n, seed, 1, 1, 11, false);
	else if (s == "merge_tsd_tsd_eq_ordered_rev_big") merge_scenario<E, MkTSD<E, false>, MkTSD<E, false>>(rep, n, seed, 1, 1, 12, true);
	else if (s == "merge_hsx_hsx_extracheck") merge_scenario<E, MkHSX<E>, MkHSX<E>>(rep, n, seed, 1, 2, 0, false);
	else if (s == "merge_tsx_tsx_extracheck") merge_scenario<E, MkTSX<E, false>, MkTSX<E, false>>(rep, n, seed, 1, 1, 0, false);
	else if (s == "merge_tsx_hsx_extracheck") merge_scenario<E, MkTSX<E, true>, MkHSX<E>>(rep, n, seed, 1, 2, 0, true);
	else if (s == "merge_ts_hs") merge_scenario<E, MkTS<E, false>, MkHS<E>>(rep, n, seed, 1, 2, 0, false);
	else if (s == "merge_hs_ts") merge_scenario<E, MkHS<E>, MkTS<E, false>>(rep, n, seed, 1, 1, 0, false);
	else if (s == "merge_hsd_tsm") merge_scenario<E, MkHSD<E>, MkTS<E, true>>(rep, n, seed, 2, 1, 0, false);
	else if (s == "merge_tsd_hsd_from") merge_scenario<E, MkTSD<E, false>, MkHSD<E>>(rep, n, seed, 1, 2, 0, true);
	else if (s == "extract_hs_hs") extract_scenario<E, MkHS<E>, MkHS<E>>(rep, n, seed, 1, 1);
	else if (s == "extract_ts_ts") extract_scenario<E, MkTS<E, false>, MkTS<E, false>>(rep, n, seed, 1, 2);
	else if (s == "extract_hs_hsd") extract_scenario<E, MkHS<E>, MkHSD<E>>(rep, n, seed, 1, 1);
	else if (s == "extract_ts_tsm") extract_scenario<E, MkTS<E, false>, MkTS<E, true>>(rep, n, seed, 1, 2);
	else if (s == "extract_tsm_tsm") extract_scenario<E, MkTS<E, true>, MkTS<E, true>>(rep, n, seed, 1, 1);
	else if (s == "insert_range_hsd") insert_range_scenario<E, MkHSD<E>>(rep, n, seed, false);
	else if (s == "insert_range_ts") insert_range_scenario<E, MkTS<E, false>>(rep, n, seed, false);
	else if (s == "insert_range_tsm") insert_range_scenario<E, MkTS<E, true>>(rep, n, seed, false);
	else if (s == "insert_il_hs") insert_range_scenario<E, MkHS<E>>(rep, n, seed, true);
	else if (s == "insert_il_tsd") insert_range_scenario<E, MkTSD<E, false>>(rep, n, seed, true);
	else if (s == "remove_pred_hsd") remove_pred_scenario<E, MkHSD<E>>(rep, n, seed);
	else if (s == "remove_pred_hs") remove_pred_scenario<E, MkHS<E>>(rep, n, seed);
	else if (s == "remove_pred_ts") remove_pred_scenario<E, MkTS<E, false>>(rep, n, seed);
	else if (s == "remove_pred_tsm") remove_pred_scenario<E, MkTS<E, true>>(rep, n, seed);
	else if (s == "map_merge_hm_hm") map_scenario<E, MkHM<E>, MkHM<E>, false>(rep, n, seed, 1, 2);
	else if (s == "map_merge_tm_tm") map_scenario<E, MkTM<E>, MkTM<E>, false>(rep, n, seed, 1, 1);
	else if (s == "map_merge_hm_tm") map_scenario<E, MkHM<E>, MkTM<E>, false>(rep, n, seed, 1, 1);
	else if (s == "map_merge_tm_hm") map_scenario<E, MkTM<E>, MkHM<E>, false>(rep, n, seed, 1, 2);
	else if (s == "map_extract_hm_hm") map_scenario<E, MkHM<E>, MkHM<E>, true>(rep, n, seed, 1, 1);
	else if (s == "map_extract_tm_tm") map_scenario<E, MkTM<E>, MkTM<E>, true>(rep, n, seed, 1, 2);
	else rep.fail("unknown scenario " + s);
}

// compiled once per category (-DC10_CAT=kit::NTM ...) to keep each translation unit small
#ifndef C10_CAT
#define C10_CAT kit::NTM
#endif
static const char* cat_name() { return C10_CAT == kit::NTM ? "NTM" : C10_CAT == kit::SMH ? "SMH" : C10_CAT == kit::THM ? "THM" : "CPY"; }

int main(int argc, char** argv)
{
	if (argc > 1 && std::string(argv[1]) == "--list")
	{
		for (const char* s : SCEN) std::cout << s << " " << cat_name() << "\n";
		return 0;
	}
	std::string line;
	while (std::getline(std::cin, line))
	{
		std::vector<std::string> w = split(line);
		Report rep;
		if (w.size() < 3 || w[1] != cat_name()) { std::cout << "BAD points=0 malformed case / wrong category for this executable\n"; continue; }
		run_scenario<C10_CAT>(rep, w[0], std::stoull(w[2]));
		std::cout << rep.str() << std::endl;
	}
	return 0;
}
