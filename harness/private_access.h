// Included by harness TUs only: pull in the standard headers first, then open up momo's classes.
// No change to /repo: observation of private state happens in the harness translation unit.
#pragma once
#include <algorithm>
#include <array>
#include <atomic>
#include <cassert>
#include <cmath>
#include <cstddef>
#include <cstdint>
#include <cstdio>
#include <cstdlib>
#include <cstring>
#include <exception>
#include <functional>
#include <initializer_list>
#include <iostream>
#include <iterator>
#include <limits>
#include <list>
#include <forward_list>
#include <map>
#include <memory>
#include <mutex>
#include <new>
#include <set>
#include <sstream>
#include <stdexcept>
#include <string>
#include <thread>
#include <tuple>
#include <type_traits>
#include <typeindex>
#include <typeinfo>
#include <unordered_map>
#include <unordered_set>
#include <utility>
#include <vector>
#include <random>
#include <bitset>
#include <emmintrin.h>
#define private public
#define protected public
