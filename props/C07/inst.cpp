// instantiation TU for cxx2coq (C07): the segment arithmetic used by DataIndexes::MultiHash
// (SegmentedArraySettings<sqrt, logInitialSegmentSize = 6>) and the de Bruijn Log2 it calls
#include "momo/SegmentedArray.h"
namespace momo {
template class SegmentedArraySettings<SegmentedArrayItemCountFunc::sqrt, 6>;
namespace internal {
template struct UIntMath<size_t>;
}}
