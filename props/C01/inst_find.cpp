// instantiation TU for cxx2coq (C01F, copied from props/C12): HashSet::pvFind(key) -- the generation walk -- for a slow-hash key with HashBucketLimP4
// (BucketIterator = Item*, so iterator comparisons are plain pointer comparisons)
#include "momo/HashSet.h"
namespace c01find {
struct H { size_t operator()(const uint64_t& k) const { return size_t(k); } };
typedef momo::HashSet<uint64_t, momo::HashTraitsStd<uint64_t, H, std::equal_to<uint64_t>, momo::HashBucketLimP4<>>> Set;
inline bool use(Set& s) { return !!s.Find(uint64_t(2)); }
}
