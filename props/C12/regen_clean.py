#!/usr/bin/env python3
"""regenerate props/C12/coq/Gen_*.v from the UNMODIFIED /repo (run at the end of every mutant script: a VERIF_REPO run writes the
mutant's translation into the shared coq directory)"""
import json, os, sys
ROOT = '/verif'
sys.path.insert(0, os.path.join(ROOT, 'tools')); sys.path.insert(0, os.path.join(ROOT, 'props', 'C12')); sys.path.insert(0, ROOT)
import cxx2coq
GEN = [l for l in open(os.path.join(ROOT, 'props/C12/prop.py')) if l.startswith('GEN = ')][0]
GEN = eval(GEN.split('=', 1)[1])
for cf in GEN:
    cfg = json.load(open(os.path.join(ROOT, 'props/C12', cf)))
    cfg.setdefault('includes', ['/repo/include'])
    txt = cxx2coq.translate_group(cfg, repo='/repo')
    out = os.path.join(ROOT, 'props/C12/coq', cfg['name'] + '.v')
    if not os.path.exists(out) or open(out).read() != txt:
        open(out, 'w').write(txt); print('restored', cfg['name'])
