#include "momo/DataColumn.h"
namespace momo { inline bool c18_use_bits(uint8_t* d, size_t i) { internal::UIntMath<uint8_t>::SetBit(d, i); return internal::UIntMath<uint8_t>::GetBit(d, i); } }
