(* Extraction of the executable models of C07 (ExtrOcamlBasic only). *)
From Coq Require Import ZArith List Extraction ExtrOcamlBasic.
From C07 Require TableSpec.
Separate Extraction
  TableSpec.step TableSpec.empty_table TableSpec.select TableSpec.find_by_key TableSpec.project
  TableSpec.sorted_projection TableSpec.lower_bound_count TableSpec.upper_bound_count TableSpec.natlist_eqb.
